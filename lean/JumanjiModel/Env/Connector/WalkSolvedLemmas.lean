/- `RandomWalkGenerator`: the recorded solution of the walk (strengthened walk invariant: feasibility of the mirror
state, the walk start is 4-adjacent to the first-move cell). -/
import JumanjiModel.Env.Connector.WalkLemmas
namespace Connector
open Jm Jx

/-- the strengthened invariant of the walk -/
def WalkInvF (n k : Nat) (firsts : List Pos) (g : Grid Int) (ags : List Agent) : Prop :=
  WalkInv n k firsts g ags ∧ (mirrorAgents firsts ags).all (agentRouteB n g) = true ∧
  ∀ (i : Nat) (f : Pos) (ag : Agent), firsts[i]? = some f → ags[i]? = some ag → adjacent ag.start f = true

/-! ### after `_initialize_agents` -/

theorem adjacent_move (p : Pos) (a : Int) (h0 : 0 ≤ a) (hne : a ≠ 0) : adjacent p (movePosition p a) = true := by
  obtain ⟨p1, p2⟩ := p
  unfold movePosition adjacent
  have h1 : ¬ a ≤ 0 := by omega
  simp only [h1, if_false]
  split
  · simp
  · split
    · simp
    · split
      · simp
      · simp

theorem flatPos_unflat (n : Nat) (c : Int) : flatPos n (unflat n c) = c := by
  unfold flatPos unflat
  simp only
  rw [Int.mul_comm]
  exact Int.mul_ediv_add_emod c n

theorem initDraw_adjacent {n : Nat} {g : Grid Int} (hs : Grid.shaped g n n = true) (i : Nat) {d : Int × Int}
    (h : validInitDraw n g (i : Int) d = true) (hd : d.2 ≠ -1) :
    adjacent (unflat n d.1) (unflat n d.2) = true := by
  obtain ⟨a1, _, _, _, _⟩ := initDraw_cells hs i h hd
  unfold validInitDraw at h
  simp only [Bool.and_eq_true] at h
  have h2 := h.2
  have hm := validChoice_mem_wl _ (available_ne_nil n _ _) d.2 h2 hd
  obtain ⟨hadj, _⟩ := mem_available n _ _ d.2 hm hd
  rw [← flatPos_unflat n d.1] at hadj
  obtain ⟨_, _, hnz, hmove⟩ := adj_move n (unflat n d.1) a1 d.2 hadj hd
  rw [← hmove]
  exact adjacent_move _ _ (action_spec n _ _).1 hnz

theorem walkInit_adjacent (n : Nat) : ∀ (rest : List (Int × Int)) (g : Grid Int) (i : Nat),
    Grid.shaped g n n = true → (walkInit n g i rest).2 = true → (∀ d ∈ rest, d.2 ≠ -1) →
    ∀ d ∈ rest, adjacent (unflat n d.1) (unflat n d.2) = true
  | [], _, _, _, _, _ => by intro d hd; simp at hd
  | d :: rest, g, i, hs, hv, hnb => by
    simp only [walkInit, Bool.and_eq_true] at hv
    obtain ⟨hd, hr⟩ := hv
    obtain ⟨_, _, _, _, a5⟩ := initDraw_cells hs i hd (hnb d (by simp))
    have hs' : Grid.shaped (walkInitStep n g (i : Int) d) n n = true := by
      rw [a5]; exact shaped_setCell (shaped_setCell hs _ _) _ _
    intro d' hd'
    simp only [List.mem_cons] at hd'
    rcases hd' with rfl | hd'
    · exact initDraw_adjacent hs i hd (hnb _ (by simp))
    · exact walkInit_adjacent n rest _ (i + 1) hs' hr (fun d'' h'' => hnb d'' (by simp [h''])) d' hd'

theorem walkInit_invF (n k : Nat) (hn : 0 < n) (init : List (Int × Int)) (hlen : init.length = k)
    (hv : (walkInit n (zeroGrid n) 0 init).2 = true) (hnb : ∀ d ∈ init, d.2 ≠ -1) :
    WalkInvF n k (init.map (fun d => unflat n d.2)) (walkInit n (zeroGrid n) 0 init).1 (walkAgents0 n k init) := by
  have inv := walkInit_inv n k hn init hlen hv hnb
  refine ⟨inv, ?_, ?_⟩
  · rw [List.all_eq_true]
    intro m hm
    obtain ⟨i, hi⟩ := List.getElem?_of_mem hm
    have ok := inv.2.2.1.agent i m hi
    simp only [mirrorAgents] at hi
    rw [List.getElem?_zipWith_eq_some] at hi
    obtain ⟨x, y, hx, hy, rfl⟩ := hi
    obtain ⟨d, hd, rfl⟩ := walkAgents0_getElem? hlen hy
    have hx' : x = unflat n d.2 := by simp [hd] at hx; exact hx.symm
    subst hx'
    have e : (mirrorAgent (unflat n d.2) ⟨(i : Int), unflat n d.1, (-1, -1), unflat n d.2⟩).start =
        (mirrorAgent (unflat n d.2) ⟨(i : Int), unflat n d.1, (-1, -1), unflat n d.2⟩).position := rfl
    unfold agentRouteB
    rw [if_pos e]
    simp only [beq_iff_eq]
    rw [ok.id]
    exact (countVal_zero_iff inv.2.2.1.shaped _).2 (ok.pathNone e)
  · intro i f ag hf hag
    obtain ⟨d, hd, rfl⟩ := walkAgents0_getElem? hlen hag
    have hf' : f = unflat n d.2 := by simp [hd] at hf; exact hf.symm
    subst hf'
    exact walkInit_adjacent n init _ 0 (shaped_zeroGrid n) hv hnb d (List.mem_of_getElem? hd)

/-! ### one iteration, the loop -/

theorem walk_step_invF (n k : Nat) (hk : 0 < k) (firsts : List Pos) (g : Grid Int) (ags : List Agent) (d : List Int)
    (hinvF : WalkInvF n k firsts g ags) (hlen : d.length = k)
    (hvc : ∀ (i : Nat) ag c, ags[i]? = some ag → d[i]? = some c →
      validChoice (availableCells n g (flatPos n ag.position))
        ((availableCells n g (flatPos n ag.position)).map (fun x => x != -1)) c = true) :
    WalkInvF n k firsts (stepAgents k ⟨g, 0, ags⟩ (walkActions n ags d)).2
      (stepAgents k ⟨g, 0, ags⟩ (walkActions n ags d)).1 := by
  obtain ⟨hinv, hroute, hadj⟩ := hinvF
  have hnew := walk_step_inv n k hk firsts g ags d hinv hlen hvc
  have hinv' := hinv
  obtain ⟨hf, ha, hc, hall⟩ := hinv
  have hactlen : (walkActions n ags d).length = k := by simp [walkActions, ha, hlen]
  have hspec : ∀ a ∈ walkActions n ags d, 0 ≤ a ∧ a ≤ 4 := by
    intro a hmem
    obtain ⟨i, hi⟩ := List.getElem?_of_mem hmem
    unfold walkActions at hi
    rw [List.getElem?_zipWith_eq_some] at hi
    obtain ⟨ag, c, _, _, rfl⟩ := hi
    exact action_spec n _ _
  have hun : ∀ (i : Nat) f ag, firsts[i]? = some f → ags[i]? = some ag →
      ag.connected = false ∧ (mirrorAgent f ag).connected = false := by
    intro i f ag _ hag
    obtain ⟨_, _, hpos, _, _, ht, hne, _⟩ := walkInv_agent hinv' hag
    constructor
    · cases hcn : ag.connected with
      | false => rfl
      | true =>
        have e : ag.position = ag.target := (connected_iff _).1 hcn
        rw [ht] at e
        have := hpos.1
        rw [e] at this
        simp at this
    · cases hcn : (mirrorAgent f ag).connected with
      | false => rfl
      | true => exact absurd ((connected_iff _).1 hcn) hne
  have hmir := stepAgents_mirror k g 0 firsts ags (walkActions n ags d) (by omega) hun
  refine ⟨hnew, ?_, ?_⟩
  · have hfeas : Feasible n k ⟨g, 0, mirrorAgents firsts ags⟩ := by
      unfold Feasible feasibleB
      rw [Bool.and_eq_true]
      exact ⟨(consistent_iff _ _ _).2 hc, hroute⟩
    have h1 := step_feasible ⟨n, k, 0, 0, 0⟩ ⟨g, 0, mirrorAgents firsts ags⟩ (walkActions n ags d) hfeas hk hactlen hspec
    have e : (step ⟨n, k, 0, 0, 0⟩ ⟨g, 0, mirrorAgents firsts ags⟩ (walkActions n ags d)).1 =
        ⟨(stepAgents k ⟨g, 0, mirrorAgents firsts ags⟩ (walkActions n ags d)).2, 0 + 1,
         (stepAgents k ⟨g, 0, mirrorAgents firsts ags⟩ (walkActions n ags d)).1⟩ := rfl
    rw [e, hmir] at h1
    unfold Feasible feasibleB at h1
    rw [Bool.and_eq_true] at h1
    exact h1.2
  · intro i f ag' hfi hi
    have hik : i < k := by have := lt_of_getElem? hi; have := hnew.2.1; omega
    obtain ⟨ag, hag⟩ : ∃ ag, ags[i]? = some ag := ⟨ags[i]'(by omega), List.getElem?_eq_getElem (by omega)⟩
    obtain ⟨c, hdc⟩ : ∃ c, d[i]? = some c := ⟨d[i]'(by omega), List.getElem?_eq_getElem (by omega)⟩
    have hact : (walkActions n ags d)[i]? = some (actionFromCells n (flatPos n ag.position) c) := by
      unfold walkActions; rw [List.getElem?_zipWith, hag, hdc]
    have hold := hadj i f ag hfi hag
    rcases stay_or_move ⟨n, k, 0, 0, 0⟩ ⟨g, 0, ags⟩ (walkActions n ags d) hik hag hact with h | ⟨h, _, _⟩
    · have h' : (stepAgents k ⟨g, 0, ags⟩ (walkActions n ags d)).1[i]? = some ag := h
      rw [h'] at hi
      have := Option.some.inj hi
      subst this
      exact hold
    · have h' : (stepAgents k ⟨g, 0, ags⟩ (walkActions n ags d)).1[i]? =
          some { ag with position := movePosition ag.position (actionFromCells n (flatPos n ag.position) c) } := h
      rw [h'] at hi
      have := Option.some.inj hi
      subst this
      exact hold

theorem walkLoop_invF (n k : Nat) (hk : 0 < k) (firsts : List Pos) (tape : List (List Int)) (g : Grid Int) (ags : List Agent)
    (hinv : WalkInvF n k firsts g ags) (hv : validTape n k g ags tape = true) :
    WalkInvF n k firsts (walkLoop n k g ags tape).1 (walkLoop n k g ags tape).2 := by
  induction tape generalizing g ags with
  | nil => simp only [walkLoop]; exact hinv
  | cons d rest ih =>
    simp only [validTape, Bool.and_eq_true, beq_iff_eq] at hv
    obtain ⟨⟨⟨hcs, hlen⟩, hall⟩, hrest⟩ := hv
    simp only [walkLoop, hcs, if_true]
    apply ih
    · apply walk_step_invF n k hk firsts g ags d hinv hlen
      intro i ag c hag hdc
      rw [List.all_eq_true] at hall
      have hm : validChoice (availableCells n g (flatPos n ag.position))
          ((availableCells n g (flatPos n ag.position)).map (fun x => x != -1)) c ∈
          List.zipWith (fun (ag : Agent) (c : Int) =>
            validChoice (availableCells n g (flatPos n ag.position))
              ((availableCells n g (flatPos n ag.position)).map (fun x => x != -1)) c) ags d := by
        apply List.mem_of_getElem? (i := i)
        rw [List.getElem?_zipWith, hag, hdc]
      have := hall _ hm
      simpa using this
    · exact hrest

/-! ### the recorded solution -/

/-- the cells of `scatter (scatter g starts posVals) targets tgtVals` -/
structure ScatCells (n k : Nat) (starts targets : List Pos) (g G : Grid Int) : Prop where
  shaped : Grid.shaped G n n = true
  headAt : ∀ i, i < k → cell G (starts.getD i (0, 0)) = posVal (i : Int)
  tgtAt : ∀ i, i < k → cell G (targets.getD i (0, 0)) = tgtVal (i : Int)
  other : ∀ q, inGrid n q → q ∉ starts ++ targets → cell G q = cell g q

theorem scatter_cells (n k : Nat) (starts targets : List Pos) (hs : starts.length = k) (ht : targets.length = k)
    (hnd : (starts ++ targets).Nodup) (hin : ∀ p ∈ starts ++ targets, inGrid n p) (g : Grid Int)
    (hg : Grid.shaped g n n = true) :
    ScatCells n k starts targets g
      (scatter (scatter g starts ((agentIds k).map posVal)) targets ((agentIds k).map tgtVal)) := by
  rw [scatter_eq_assign, scatter_eq_assign, ← assign_append]
  generalize hasg : List.zip starts ((agentIds k).map posVal) ++ List.zip targets ((agentIds k).map tgtVal) = asg
  have hil : (agentIds k).length = k := by simp [agentIds]
  have hfst : asg.map Prod.fst = starts ++ targets := by
    rw [← hasg, List.map_append, List.map_fst_zip (by simp [hil, hs]), List.map_fst_zip (by simp [hil, ht])]
  have hmem : ∀ x, x ∈ asg ↔ (∃ i, i < k ∧ x = (starts.getD i (0, 0), posVal (i : Int))) ∨
      (∃ i, i < k ∧ x = (targets.getD i (0, 0), tgtVal (i : Int))) := by
    intro x
    rw [← hasg, List.mem_append, mem_zip_ids starts posVal hs, mem_zip_ids targets tgtVal ht]
  have hin' : ∀ x ∈ asg, inGrid n x.1 := by
    intro x hx; apply hin; rw [← hfst]; exact List.mem_map_of_mem hx
  have hnd' : (asg.map Prod.fst).Nodup := by rw [hfst]; exact hnd
  obtain ⟨r1, r2, r3⟩ := assign_spec asg g hg hin' hnd'
  refine ⟨r1, ?_, ?_, ?_⟩
  · exact fun i hi => r2 (starts.getD i (0, 0), posVal (i : Int)) ((hmem _).2 (Or.inl ⟨i, hi, rfl⟩))
  · exact fun i hi => r2 (targets.getD i (0, 0), tgtVal (i : Int)) ((hmem _).2 (Or.inr ⟨i, hi, rfl⟩))
  · intro q hq hm
    exact r3 q hq (by rw [hfst]; exact hm)

theorem getD_map_of_getElem? {α β} [Inhabited β] (f : α → β) (l : List α) (d : β) {i : Nat} {a : α}
    (h : l[i]? = some a) : (l.map f).getD i d = f a := by
  simp [List.getD, h]

/-- every cell of the solved grid: a walk start, a final head, or unchanged -/
theorem solved_cases {n k : Nat} {firsts : List Pos} {g S : Grid Int} {ags : List Agent}
    (inv : WalkInv n k firsts g ags)
    (sc : ScatCells n k (ags.map (fun ag => ag.start)) (ags.map (fun ag => ag.position)) g S)
    (q : Pos) (hq : inGrid n q) :
    (∃ (j : Nat) (a : Agent), ags[j]? = some a ∧ q = a.start ∧ cell S q = posVal (j : Int) ∧ cell g q = tgtVal (j : Int)) ∨
    (∃ (j : Nat) (a : Agent), ags[j]? = some a ∧ q = a.position ∧ cell S q = tgtVal (j : Int) ∧ cell g q = posVal (j : Int)) ∨
    (cell S q = cell g q ∧ ∀ a ∈ ags, q ≠ a.start ∧ q ≠ a.position) := by
  by_cases hm : q ∈ ags.map (fun ag => ag.start) ++ ags.map (fun ag => ag.position)
  · rw [List.mem_append, List.mem_map, List.mem_map] at hm
    rcases hm with ⟨a, hma, rfl⟩ | ⟨a, hma, rfl⟩
    · left
      obtain ⟨j, hj⟩ := List.getElem?_of_mem hma
      obtain ⟨hjk, _, _, hst, _, _, _, _⟩ := walkInv_agent inv hj
      have := sc.headAt j hjk
      rw [getD_map_of_getElem? _ _ _ hj] at this
      exact ⟨j, a, hj, rfl, this, hst⟩
    · right; left
      obtain ⟨j, hj⟩ := List.getElem?_of_mem hma
      obtain ⟨hjk, _, _, _, hhd, _, _, _⟩ := walkInv_agent inv hj
      have := sc.tgtAt j hjk
      rw [getD_map_of_getElem? _ _ _ hj] at this
      exact ⟨j, a, hj, rfl, this, hhd⟩
  · right; right
    refine ⟨sc.other q hq hm, ?_⟩
    intro a ha
    constructor
    · intro e; apply hm; rw [List.mem_append]; left; rw [List.mem_map]; exact ⟨a, ha, e.symm⟩
    · intro e; apply hm; rw [List.mem_append]; right; rw [List.mem_map]; exact ⟨a, ha, e.symm⟩

/-- a route stays valid when cells that are no path cells are added to `seen` -/
theorem validR_seen {n : Nat} {g : Grid Int} {pv : Int} {b s : Pos} (hs : cell g s ≠ pv)
    (m : Nat) (cur : Pos) (seen seen' r : List Pos) (hsub : ∀ q ∈ seen', q ∈ seen ∨ q = s)
    (h : validR n g pv b m cur seen r) : validR n g pv b m cur seen' r := by
  induction m generalizing cur seen seen' r with
  | zero => exact h
  | succ m ih =>
    obtain ⟨q, r', e, hadj, hin, hv, hns, hb, hr'⟩ := h
    refine ⟨q, r', e, hadj, hin, hv, ?_, hb, ?_⟩
    · intro hmem
      rcases hsub q hmem with h1 | h1
      · exact hns h1
      · rw [h1] at hv; exact hs hv
    · apply ih q (q :: seen) (q :: seen') r' _ hr'
      intro x hx
      simp only [List.mem_cons] at hx ⊢
      rcases hx with rfl | hx
      · exact Or.inl (Or.inl rfl)
      · rcases hsub x hx with h1 | h1
        · exact Or.inl (Or.inr h1)
        · exact Or.inr h1

theorem route_conj {n : Nat} {S : Grid Int} {pv : Int} {a b : Pos} {m : Nat} {r : List Pos}
    (h : validR n S pv b m a [a] r) (hne : a ≠ b) (ha : inGrid n a) (hb : inGrid n b) :
    ∃ r', searchRoute n S pv b m a [a] = some r' ∧ isRoute n S pv a b m r' = true := by
  have := search_complete _ _ _ _ _ _ _ _ h
  cases hsr : searchRoute n S pv b m a [a] with
  | none => rw [hsr] at this; simp at this
  | some r' =>
    exact ⟨r', rfl, isRoute_of_routeOK (routeOK_of_valid _ _ _ _ _ _ _ _ (search_sound _ _ _ _ _ _ _ _ hsr))
      (by simp) hne ha hb⟩

theorem agent_solved {n k : Nat} {firsts : List Pos} {g S : Grid Int} {ags : List Agent}
    (invF : WalkInvF n k firsts g ags)
    (sc : ScatCells n k (ags.map (fun ag => ag.start)) (ags.map (fun ag => ag.position)) g S)
    {i : Nat} {ag : Agent} (hag : ags[i]? = some ag) :
    agentSolvedB n S ⟨(i : Int), ag.start, ag.position, ag.start⟩ = true := by
  obtain ⟨inv, hroute, hadj⟩ := invF
  have hg : Grid.shaped g n n = true := inv.2.2.1.shaped
  obtain ⟨hik, hsin, hpin, hst, hhd, _, hne, hid⟩ := walkInv_agent inv hag
  have hi : i < ags.length := lt_of_getElem? hag
  have hi' : i < firsts.length := by have := inv.1; have := inv.2.1; omega
  have hfi : firsts[i]? = some firsts[i] := List.getElem?_eq_getElem hi'
  have hm : (mirrorAgents firsts ags)[i]? = some (mirrorAgent firsts[i] ag) := by
    unfold mirrorAgents
    rw [List.getElem?_zipWith, hag, hfi]
  have ok := inv.2.2.1.agent i _ hm
  have hr : agentRouteB n g (mirrorAgent firsts[i] ag) = true := by
    rw [List.all_eq_true] at hroute
    exact hroute _ (List.mem_of_getElem? hm)
  have hadjf := hadj i _ ag hfi hag
  generalize firsts[i] = f at hfi hm ok hr hadjf
  have hfin : inGrid n f := ok.startIn
  have hheadU : ∀ q, inGrid n q → cell g q = posVal (i : Int) → q = ag.position := ok.headUniq
  have htgtU : ∀ q, inGrid n q → cell g q = tgtVal (i : Int) → q = ag.start := ok.tgtUniq hne
  have hSs : cell S ag.start = posVal (i : Int) := by
    have := sc.headAt i hik
    rw [getD_map_of_getElem? _ _ _ hag] at this; exact this
  have hSp : cell S ag.position = tgtVal (i : Int) := by
    have := sc.tgtAt i hik
    rw [getD_map_of_getElem? _ _ _ hag] at this; exact this
  -- the head value occurs once
  have c1 := (countVal_one_at sc.shaped (posVal (i : Int)) hsin).2 ⟨hSs, by
    intro q hq hv
    rcases solved_cases inv sc q hq with ⟨j, a, hj, e, h1, _⟩ | ⟨j, a, hj, e, h1, _⟩ | ⟨h1, hno⟩
    · rw [h1] at hv
      have : j = i := by unfold posVal at hv; omega
      subst this
      rw [hag] at hj; cases hj; exact e
    · rw [h1] at hv; unfold posVal tgtVal at hv; omega
    · rw [h1] at hv
      have := hheadU q hq hv
      exact absurd this (hno ag (List.mem_of_getElem? hag)).2⟩
  have c2 := (countVal_one_at sc.shaped (tgtVal (i : Int)) hpin).2 ⟨hSp, by
    intro q hq hv
    rcases solved_cases inv sc q hq with ⟨j, a, hj, e, h1, _⟩ | ⟨j, a, hj, e, h1, _⟩ | ⟨h1, hno⟩
    · rw [h1] at hv; unfold posVal tgtVal at hv; omega
    · rw [h1] at hv
      have : j = i := by unfold tgtVal at hv; omega
      subst this
      rw [hag] at hj; cases hj; exact e
    · rw [h1] at hv
      have := htgtU q hq hv
      exact absurd this (hno ag (List.mem_of_getElem? hag)).1⟩
  -- path cells
  have hpath : ∀ q, inGrid n q → (cell g q = pathVal (i : Int) ↔ cell S q = pathVal (i : Int)) := by
    intro q hq
    rcases solved_cases inv sc q hq with ⟨j, a, hj, e, h1, h2⟩ | ⟨j, a, hj, e, h1, h2⟩ | ⟨h1, hno⟩
    · rw [h1, h2]; unfold posVal tgtVal pathVal; omega
    · rw [h1, h2]; unfold posVal tgtVal pathVal; omega
    · rw [h1]
  have hcnt : countVal S (pathVal (i : Int)) = countVal g (pathVal (i : Int)) := by
    unfold countVal
    apply count_congr _ sc.shaped hg
    intro q hq
    have := hpath q hq
    by_cases e : cell g q = pathVal (i : Int)
    · simp [e, this.1 e]
    · have e' : cell S q ≠ pathVal (i : Int) := fun h => e (this.2 h)
      show (cell S q == pathVal (i : Int)) = (cell g q == pathVal (i : Int))
      rw [beq_false_of_ne e', beq_false_of_ne e]
  -- the route
  have hold := (agentRouteB_iff n g (mirrorAgent f ag) hfin hpin).1 hr
  have hold' : (f = ag.position ∧ countVal g (pathVal ag.id) = 0) ∨
      (f ≠ ag.position ∧ ∃ r, validR n g (pathVal ag.id) ag.position (countVal g (pathVal ag.id) - 1) f [f] r) := hold
  rw [hid] at hold'
  have hvalid : ∃ r, validR n S (pathVal (i : Int)) ag.position (countVal S (pathVal (i : Int))) ag.start [ag.start] r := by
    rw [hcnt]
    rcases hold' with ⟨e, h0⟩ | ⟨e, r, hr'⟩
    · rw [h0]
      exact ⟨[ag.start, ag.position], rfl, by rw [← e]; exact hadjf⟩
    · have hgf : cell g f = pathVal (i : Int) := ok.startAt e
      have hpos : 0 < countVal g (pathVal (i : Int)) := by
        unfold countVal
        exact count_pos_of_cell _ hg hfin (by simp [hgf])
      obtain ⟨c, hc⟩ : ∃ c, countVal g (pathVal (i : Int)) = c + 1 := ⟨_, (Nat.sub_add_cancel hpos).symm⟩
      rw [hc] at hr' ⊢
      simp only [Nat.add_sub_cancel] at hr'
      have h1 : validR n S (pathVal (i : Int)) ag.position c f [f] r :=
        validR_mono (fun q hq hv => (hpath q hq).1 hv) _ _ _ _ hr'
      have hSsne : cell S ag.start ≠ pathVal (i : Int) := by
        rw [hSs]; unfold posVal pathVal; omega
      have h2 : validR n S (pathVal (i : Int)) ag.position c f [f, ag.start] r :=
        validR_seen hSsne _ _ [f] _ _ (by
          intro q hq
          simp only [List.mem_cons, List.not_mem_nil, or_false] at hq ⊢
          exact hq) h1
      refine ⟨ag.start :: r, f, r, rfl, hadjf, hfin, (hpath f hfin).1 hgf, ?_, e, h2⟩
      intro hmem
      simp only [List.mem_cons, List.not_mem_nil, or_false] at hmem
      rw [hmem, hst] at hgf
      unfold tgtVal pathVal at hgf; omega
  obtain ⟨r, hr⟩ := hvalid
  obtain ⟨r', hsr, hir⟩ := route_conj hr (fun e => hne e.symm) hsin hpin
  unfold agentSolvedB
  simp only [Bool.and_eq_true, beq_iff_eq, decide_eq_true_eq]
  refine ⟨⟨⟨⟨⟨⟨hsin, hpin⟩, hSs⟩, hSp⟩, c1.2⟩, c2.2⟩, ?_⟩
  rw [hsr]
  exact hir

theorem all_zipWith_imp {α β} (f f' : α → β → Bool) (hff : ∀ x y, f x y = true → f' x y = true) :
    ∀ (l1 : List α) (l2 : List β), (List.zipWith f l1 l2).all id = true → (List.zipWith f' l1 l2).all id = true
  | [], _, _ => by simp
  | _ :: _, [], _ => by simp
  | a :: l1, b :: l2, h => by
    simp only [List.zipWith_cons_cons, List.all_cons, Bool.and_eq_true, id] at h ⊢
    exact ⟨hff _ _ h.1, all_zipWith_imp f f' hff l1 l2 h.2⟩

/-- at the end of the walk the recorded solution is accepted -/
theorem solved_of_invF {n k : Nat} {firsts : List Pos} {g : Grid Int} {ags : List Agent}
    (invF : WalkInvF n k firsts g ags) :
    solvedBoardB n k (emitBoard n k (ags.map (fun ag => ag.start)) (ags.map (fun ag => ag.position)))
      (scatter (scatter g (ags.map (fun ag => ag.start)) ((agentIds k).map posVal))
        (ags.map (fun ag => ag.position)) ((agentIds k).map tgtVal)) = true := by
  have inv := invF.1
  obtain ⟨h1, h2, h3, h4⟩ := walkInv_distinct n k _ _ _ inv
  have hg : Grid.shaped g n n = true := inv.2.2.1.shaped
  have sc := scatter_cells n k _ _ h1 h2 h3 h4 g hg
  have ec := emit_cells n k _ _ h1 h2 h3 h4
  revert sc
  generalize scatter (scatter g (ags.map (fun ag => ag.start)) ((agentIds k).map posVal))
        (ags.map (fun ag => ag.position)) ((agentIds k).map tgtVal) = S
  intro sc
  have hlen : ags.length = k := inv.2.1
  unfold solvedBoardB
  simp only [Bool.and_eq_true]
  refine ⟨⟨⟨sc.shaped, ?_⟩, ?_⟩, ?_⟩
  · rw [List.all_eq_true]
    intro a ha
    obtain ⟨i, hi⟩ := List.getElem?_of_mem ha
    have hi' : (mkAgents k (ags.map (fun ag => ag.start)) (ags.map (fun ag => ag.position))
        (ags.map (fun ag => ag.start)))[i]? = some a := hi
    obtain ⟨hik, rfl⟩ := mkAgents_getElem? hi'
    have hag : ags[i]? = some (ags[i]'(by omega)) := List.getElem?_eq_getElem (by omega)
    rw [getD_map_of_getElem? _ _ _ hag, getD_map_of_getElem? _ _ _ hag]
    exact agent_solved invF sc hag
  · rw [all_iff_cell _ sc.shaped]
    intro q hq
    simp only [Bool.and_eq_true, decide_eq_true_eq]
    rcases solved_cases inv sc q hq with ⟨j, a, hj, e, h1, _⟩ | ⟨j, a, hj, e, h1, _⟩ | ⟨h1, hno⟩
    · have hjk := (walkInv_agent inv hj).1
      rw [h1]; unfold posVal; omega
    · have hjk := (walkInv_agent inv hj).1
      rw [h1]; unfold tgtVal; omega
    · rw [h1]; exact inv.2.2.1.range q hq
  · have hrows := rows_all_of_cell (fun (v v' : Int) => v == 0 || v == v') ec.shaped sc.shaped (by
      intro q hq
      simp only [Bool.or_eq_true, beq_iff_eq]
      rcases ec.cases q hq with h0 | ⟨i, hik, e, hv⟩ | ⟨i, hik, e, hv⟩
      · exact Or.inl h0
      · right; rw [hv, e]; exact (sc.headAt i hik).symm
      · right; rw [hv, e]; exact (sc.tgtAt i hik).symm)
    exact all_zipWith_imp _ _ (fun r r' h => (Bool.and_eq_true _ _ ▸ h : _ ∧ _).2) _ _ hrows

/-- C10, RandomWalkGenerator: for all possible draws without a boxed-in start, the generator's own recorded solution is accepted by the certificate -/
theorem walk_solved_board (n k : Nat) (hn : 0 < n) (hk : 0 < k) (init : List (Int × Int)) (tape : List (List Int))
    (hv : validWalkDraw n k init tape = true) (hnb : ∀ d ∈ init, d.2 ≠ -1) :
    solvedBoardB n k (walkGenerate n k init tape).2 (walkGenerate n k init tape).1 = true := by
  unfold validWalkDraw at hv
  simp only [Bool.and_eq_true, beq_iff_eq] at hv
  obtain ⟨⟨hlen, hinit⟩, htape⟩ := hv
  have inv0 := walkInit_invF n k hn init hlen hinit hnb
  have invF := walkLoop_invF n k hk _ tape _ _ inv0 htape
  exact solved_of_invF invF

end Connector
