/- `RandomWalkGenerator._initialize_agents`: after the scan (no boxed-in start) the walk invariant holds. -/
import JumanjiModel.Env.Connector.WalkDefs
namespace Connector
open Jm Jx

/-! ### flat indices -/

theorem unflat_nat_wi (n m : Nat) : unflat n (m : Int) = (((m / n : Nat) : Int), ((m % n : Nat) : Int)) := by
  simp [unflat, Int.natCast_ediv, Int.natCast_emod]

theorem unflat_inGrid_wi {n m : Nat} (h : m < n * n) : inGrid n (unflat n (m : Int)) := by
  have hn : 0 < n := by
    rcases Nat.eq_zero_or_pos n with e | e
    · subst e; simp at h
    · exact e
  rw [unflat_nat_wi]
  exact inGrid_of_nat (Nat.div_lt_of_lt_mul h) (Nat.mod_lt _ hn)

theorem setFlat_nat (n : Nat) (g : Grid Int) {m : Nat} (h : m < n * n) (v : Int) :
    setFlat n g (m : Int) v = setCell g (unflat n (m : Int)) v := by
  rw [unflat_nat_wi]
  unfold setFlat wrapIdx setCell
  have a1 : ¬ ((m : Int) < 0) := by omega
  have a2 : ¬ ((m : Int) ≥ ((n * n : Nat) : Int)) := by omega
  simp only [a1, a2, if_false, Int.toNat_natCast]

theorem getUnflat_nat {n : Nat} {g : Grid Int} (hs : Grid.shaped g n n = true) {m : Nat} (h : m < n * n) :
    getUnflat n g (m : Int) = cell g (unflat n (m : Int)) := by
  unfold getUnflat
  exact getWC_eq_cell hs (unflat_inGrid_wi h)

theorem flatten_getElem? {w : Nat} (hw : 0 < w) : ∀ (g : Grid Int) (m : Nat), (∀ r ∈ g, r.length = w) →
    m < g.length * w → (List.flatten g)[m]? = some (Grid.get g 0 (m / w) (m % w))
  | [], m, _, h => by simp at h
  | r :: g, m, hr, h => by
    have hrl : r.length = w := hr r (by simp)
    rw [List.flatten_cons]
    by_cases hm : m < w
    · rw [List.getElem?_append_left (by omega)]
      simp [Grid.get, Nat.div_eq_of_lt hm, Nat.mod_eq_of_lt hm, List.getD, hrl, hm]
    · rw [List.getElem?_append_right (by omega), hrl]
      have ih := flatten_getElem? hw g (m - w) (fun r' h' => hr r' (by simp [h']))
        (by simp [Nat.succ_mul] at h; omega)
      rw [ih]
      obtain ⟨m', rfl⟩ : ∃ m', m = m' + w := ⟨m - w, by omega⟩
      simp [Nat.add_div_right _ hw, Grid.get]

theorem flat_cell {n : Nat} {g : Grid Int} (hs : Grid.shaped g n n = true) {m : Nat} (h : m < n * n) :
    (List.flatten g)[m]? = some (cell g (unflat n (m : Int))) := by
  have hn : 0 < n := by
    rcases Nat.eq_zero_or_pos n with e | e
    · subst e; simp at h
    · exact e
  have hl := shaped_length hs
  rw [unflat_nat_wi, cell_of_nat]
  apply flatten_getElem? hn
  · unfold Grid.shaped at hs; simp at hs; exact hs.2
  · rw [hl]; exact h

/-! ### reading the draws -/

theorem validChoice_mem {a : List Int} {mask : List Bool} {d : Int} (h : validChoice a mask d = true)
    (ha : a ≠ []) : d ∈ a := by
  unfold validChoice at h
  split at h
  · rw [List.any_eq_true] at h
    obtain ⟨x, hx, hx2⟩ := h
    simp only [Bool.and_eq_true, beq_iff_eq] at hx2
    rw [← hx2.2]
    exact (List.of_mem_zip hx).1
  · cases a with
    | nil => exact absurd rfl ha
    | cons x xs => simp at h; simp [h]

/-- the first-move cell (not `-1`): in range and free in the grid it is drawn from -/
theorem firstMove_free {n : Nat} {g : Grid Int} (hs : Grid.shaped g n n = true) {c d : Int}
    (h : validChoice (availableCells n g c) ((availableCells n g c).map (fun x => x != -1)) d = true)
    (hd : d ≠ -1) : ∃ m : Nat, d = (m : Int) ∧ m < n * n ∧ cell g (unflat n (m : Int)) = 0 := by
  have hm := validChoice_mem h (by simp [availableCells, adjacentCells])
  unfold availableCells at hm
  simp only [List.mem_map] at hm
  obtain ⟨x, hx, hxd⟩ := hm
  split at hxd
  · rename_i hc
    subst hxd
    simp only [Bool.and_eq_true] at hc
    have hfree := hc.1
    unfold adjacentCells at hx
    simp only [List.mem_map] at hx
    obtain ⟨e, _, hxe⟩ := hx
    split at hxe
    · rename_i hr
      simp only [Bool.and_eq_true, decide_eq_true_eq] at hr
      obtain ⟨m, hm⟩ := Int.eq_ofNat_of_zero_le (show 0 ≤ x by omega)
      have hlt : m < n * n := by omega
      refine ⟨m, hm, hlt, ?_⟩
      unfold isCellFree at hfree
      simp only [Bool.and_eq_true, beq_iff_eq] at hfree
      rw [← getUnflat_nat hs hlt, ← hm]
      exact hfree.2
    · exact absurd hxe.symm hd
  · exact absurd hxd.symm hd

/-- the start cell: a free cell, or cell 0 when no cell is free -/
theorem start_free {n : Nat} {g : Grid Int} (hs : Grid.shaped g n n = true) {d : Int}
    (h : validChoice ((List.range (n * n)).map (fun (c : Nat) => (c : Int)))
      ((List.flatten g).map (fun v => v == 0)) d = true) :
    (∃ m : Nat, d = (m : Int) ∧ m < n * n ∧ cell g (unflat n (m : Int)) = 0) ∨
    (d = 0 ∧ ∀ m : Nat, m < n * n → cell g (unflat n (m : Int)) ≠ 0) := by
  unfold validChoice at h
  split at h
  · left
    rw [List.any_eq_true] at h
    obtain ⟨x, hx, hx2⟩ := h
    simp only [Bool.and_eq_true, beq_iff_eq] at hx2
    obtain ⟨i, hi⟩ := List.mem_iff_getElem?.1 hx
    rw [List.getElem?_zip_eq_some] at hi
    obtain ⟨h1, h2⟩ := hi
    rw [hx2.1] at h2
    simp only [List.getElem?_map, Option.map_eq_some_iff] at h1 h2
    obtain ⟨m, hm, hmx⟩ := h1
    obtain ⟨v, hv, hv0⟩ := h2
    have hi : i < n * n ∧ m = i := by
      have := List.getElem?_eq_some_iff.1 hm
      obtain ⟨hlt, e⟩ := this
      simp at hlt e
      exact ⟨hlt, e.symm⟩
    obtain ⟨hlt, rfl⟩ := hi
    refine ⟨m, by rw [← hx2.2, hmx], hlt, ?_⟩
    rw [flat_cell hs hlt] at hv
    simp only [beq_iff_eq] at hv0
    rw [Option.some.inj hv]; exact hv0
  · rename_i hany
    right
    constructor
    · simp only [beq_iff_eq] at h
      rw [h]
      rcases Nat.eq_zero_or_pos (n * n) with e | e
      · rw [e]; rfl
      · obtain ⟨s, hs'⟩ : ∃ s, n * n = s + 1 := ⟨n * n - 1, by omega⟩
        rw [hs', List.range_succ_eq_map]; rfl
    · intro m hlt hc
      apply hany
      rw [List.any_eq_true]
      refine ⟨true, ?_, rfl⟩
      rw [List.mem_map]
      refine ⟨cell g (unflat n (m : Int)), ?_, by simp [hc]⟩
      exact List.mem_of_getElem? (flat_cell hs hlt)

theorem tgtVal_ne_zero (i : Nat) : tgtVal (i : Int) ≠ 0 := by unfold tgtVal; omega

/-- one valid draw (no boxed-in start): the start is a free cell, the first move a free cell of the updated grid,
and `walkInitStep` writes exactly these two cells -/
theorem initDraw_cells {n : Nat} {g : Grid Int} (hs : Grid.shaped g n n = true) (i : Nat) {d : Int × Int}
    (h : validInitDraw n g (i : Int) d = true) (hd : d.2 ≠ -1) :
    inGrid n (unflat n d.1) ∧ inGrid n (unflat n d.2) ∧ cell g (unflat n d.1) = 0 ∧
    cell (setCell g (unflat n d.1) (tgtVal (i : Int))) (unflat n d.2) = 0 ∧
    walkInitStep n g (i : Int) d =
      setCell (setCell g (unflat n d.1) (tgtVal (i : Int))) (unflat n d.2) (posVal (i : Int)) := by
  unfold validInitDraw at h
  simp only [Bool.and_eq_true] at h
  obtain ⟨h1, h2⟩ := h
  -- whatever the start is, once it is in range the first move is a free cell of the updated grid
  have key : ∀ m1 : Nat, d.1 = (m1 : Int) → m1 < n * n →
      ∃ m2 : Nat, d.2 = (m2 : Int) ∧ m2 < n * n ∧
        cell (setCell g (unflat n d.1) (tgtVal (i : Int))) (unflat n d.2) = 0 := by
    intro m1 e1 hlt1
    have hs1 : Grid.shaped (setCell g (unflat n d.1) (tgtVal (i : Int))) n n = true := shaped_setCell hs _ _
    rw [e1, setFlat_nat n g hlt1, ← e1] at h2
    obtain ⟨m2, e2, hlt2, hc2⟩ := firstMove_free hs1 h2 hd
    exact ⟨m2, e2, hlt2, by rw [e2]; exact hc2⟩
  have fin : ∀ m1 : Nat, d.1 = (m1 : Int) → m1 < n * n → cell g (unflat n d.1) = 0 →
      inGrid n (unflat n d.1) ∧ inGrid n (unflat n d.2) ∧ cell g (unflat n d.1) = 0 ∧
      cell (setCell g (unflat n d.1) (tgtVal (i : Int))) (unflat n d.2) = 0 ∧
      walkInitStep n g (i : Int) d =
        setCell (setCell g (unflat n d.1) (tgtVal (i : Int))) (unflat n d.2) (posVal (i : Int)) := by
    intro m1 e1 hlt1 hc1
    obtain ⟨m2, e2, hlt2, hc2⟩ := key m1 e1 hlt1
    refine ⟨by rw [e1]; exact unflat_inGrid_wi hlt1, by rw [e2]; exact unflat_inGrid_wi hlt2, hc1, hc2, ?_⟩
    unfold walkInitStep
    rw [e1, setFlat_nat n g hlt1, e2, setFlat_nat n _ hlt2]
  rcases start_free hs h1 with ⟨m1, e1, hlt1, hc1⟩ | ⟨e0, hall⟩
  · exact fin m1 e1 hlt1 (by rw [e1]; exact hc1)
  · exfalso
    rcases Nat.eq_zero_or_pos (n * n) with e | hpos
    · -- empty grid: no available cell at all
      have hsf : setFlat n g d.1 (tgtVal (i : Int)) = g := by
        rw [e0]; unfold setFlat wrapIdx; simp [e]
      rw [hsf] at h2
      obtain ⟨m2, _, hlt2, _⟩ := firstMove_free hs h2 hd
      omega
    · have e1 : d.1 = ((0 : Nat) : Int) := by simpa using e0
      obtain ⟨m2, e2, hlt2, hc2⟩ := key 0 e1 hpos
      rw [cell_setCell hs (by rw [e1]; exact unflat_inGrid_wi hpos) (by rw [e2]; exact unflat_inGrid_wi hlt2)] at hc2
      split at hc2
      · exact tgtVal_ne_zero i hc2
      · rw [e2] at hc2; exact hall m2 hlt2 hc2

/-! ### the invariant of the scan -/

/-- after `i` agents: the recorded start / first-move cells hold the target / head values, every other cell is 0 -/
structure InitInv (n : Nat) (g : Grid Int) (i : Nat) (done : List (Pos × Pos)) : Prop where
  shaped : Grid.shaped g n n = true
  len : done.length = i
  inA : ∀ (j : Nat) (d : Pos × Pos), done[j]? = some d → inGrid n d.1 ∧ inGrid n d.2
  tgt : ∀ (j : Nat) (d : Pos × Pos), done[j]? = some d → cell g d.1 = tgtVal (j : Int)
  pos : ∀ (j : Nat) (d : Pos × Pos), done[j]? = some d → cell g d.2 = posVal (j : Int)
  other : ∀ q, inGrid n q → cell g q ≠ 0 →
    ∃ (j : Nat) (d : Pos × Pos), done[j]? = some d ∧ (q = d.1 ∨ q = d.2)

theorem posVal_ne_zero (i : Nat) : posVal (i : Int) ≠ 0 := by unfold posVal; omega

theorem InitInv.step {n : Nat} {g : Grid Int} {i : Nat} {done : List (Pos × Pos)} (h : InitInv n g i done)
    {p1 p2 : Pos} (h1 : inGrid n p1) (h2 : inGrid n p2) (c1 : cell g p1 = 0)
    (c2 : cell (setCell g p1 (tgtVal (i : Int))) p2 = 0) :
    InitInv n (setCell (setCell g p1 (tgtVal (i : Int))) p2 (posVal (i : Int))) (i + 1) (done ++ [(p1, p2)]) := by
  have hs1 : Grid.shaped (setCell g p1 (tgtVal (i : Int))) n n = true := shaped_setCell h.shaped _ _
  have hcell : ∀ q, inGrid n q → cell (setCell (setCell g p1 (tgtVal (i : Int))) p2 (posVal (i : Int))) q =
      if q = p2 then posVal (i : Int) else if q = p1 then tgtVal (i : Int) else cell g q := by
    intro q hq; rw [cell_setCell hs1 h2 hq, cell_setCell h.shaped h1 hq]
  rw [cell_setCell h.shaped h1 h2] at c2
  have hne : p2 ≠ p1 := by
    intro e; rw [if_pos e] at c2; exact tgtVal_ne_zero i c2
  rw [if_neg hne] at c2
  have hlen := h.len
  have hsplit : ∀ (j : Nat) (d : Pos × Pos), (done ++ [(p1, p2)])[j]? = some d →
      done[j]? = some d ∨ (j = i ∧ d = (p1, p2)) := by
    intro j d hj
    rw [List.getElem?_append] at hj
    split at hj
    · left; exact hj
    · right
      have : j - done.length = 0 := by
        rcases Nat.eq_zero_or_pos (j - done.length) with e | e
        · exact e
        · rw [List.getElem?_eq_none (by simp; omega)] at hj; cases hj
      rw [this] at hj
      simp at hj
      exact ⟨by omega, hj.symm⟩
  have hold : ∀ (j : Nat) (d : Pos × Pos), done[j]? = some d → ∀ q, (q = d.1 ∨ q = d.2) →
      cell (setCell (setCell g p1 (tgtVal (i : Int))) p2 (posVal (i : Int))) q = cell g q := by
    intro j d hj q hq
    have hq' : inGrid n q := by rcases hq with e | e <;> rw [e]; exact (h.inA j d hj).1; exact (h.inA j d hj).2
    have hnz : cell g q ≠ 0 := by
      rcases hq with e | e
      · rw [e, h.tgt j d hj]; exact tgtVal_ne_zero j
      · rw [e, h.pos j d hj]; exact posVal_ne_zero j
    rw [hcell q hq']
    have a1 : q ≠ p2 := by intro e; rw [e] at hnz; exact hnz c2
    have a2 : q ≠ p1 := by intro e; rw [e] at hnz; exact hnz c1
    rw [if_neg a1, if_neg a2]
  have hnew : (done ++ [(p1, p2)])[i]? = some (p1, p2) := by
    rw [List.getElem?_append_right (by omega)]; simp [hlen]
  refine ⟨shaped_setCell hs1 _ _, by simp [hlen], ?_, ?_, ?_, ?_⟩
  · intro j d hj
    rcases hsplit j d hj with hj | ⟨_, rfl⟩
    · exact h.inA j d hj
    · exact ⟨h1, h2⟩
  · intro j d hj
    rcases hsplit j d hj with hj | ⟨rfl, rfl⟩
    · rw [hold j d hj _ (Or.inl rfl)]; exact h.tgt j d hj
    · rw [hcell _ h1, if_neg (fun e => hne e.symm), if_pos rfl]
  · intro j d hj
    rcases hsplit j d hj with hj | ⟨rfl, rfl⟩
    · rw [hold j d hj _ (Or.inr rfl)]; exact h.pos j d hj
    · rw [hcell _ h2, if_pos rfl]
  · intro q hq hnz
    rw [hcell q hq] at hnz
    by_cases e2 : q = p2
    · exact ⟨i, (p1, p2), hnew, Or.inr e2⟩
    · by_cases e1 : q = p1
      · exact ⟨i, (p1, p2), hnew, Or.inl e1⟩
      · rw [if_neg e2, if_neg e1] at hnz
        obtain ⟨j, d, hj, hqd⟩ := h.other q hq hnz
        refine ⟨j, d, ?_, hqd⟩
        have : j < done.length := by
          rcases Nat.lt_or_ge j done.length with x | x
          · exact x
          · rw [List.getElem?_eq_none x] at hj; cases hj
        rw [List.getElem?_append_left this]; exact hj

theorem walkInit_InitInv (n : Nat) : ∀ (rest : List (Int × Int)) (g : Grid Int) (i : Nat) (done : List (Pos × Pos)),
    InitInv n g i done → (walkInit n g i rest).2 = true → (∀ d ∈ rest, d.2 ≠ -1) →
    InitInv n (walkInit n g i rest).1 (i + rest.length)
      (done ++ rest.map (fun d => (unflat n d.1, unflat n d.2)))
  | [], g, i, done, h, _, _ => by simpa [walkInit] using h
  | d :: rest, g, i, done, h, hv, hnb => by
    simp only [walkInit, Bool.and_eq_true] at hv
    obtain ⟨hd, hr⟩ := hv
    obtain ⟨a1, a2, a3, a4, a5⟩ := initDraw_cells h.shaped i hd (hnb d (by simp))
    have h' := h.step a1 a2 a3 a4
    rw [← a5] at h'
    have ih := walkInit_InitInv n rest _ (i + 1) _ h' hr (fun d' hd' => hnb d' (by simp [hd']))
    simp only [walkInit]
    simpa [Nat.add_assoc, Nat.add_comm 1] using ih

theorem cell_zeroGrid_wi {n : Nat} {q : Pos} (hq : inGrid n q) : cell (zeroGrid n) q = 0 := by
  obtain ⟨q1, q2⟩ := inGrid_toNat hq
  simp [cell, zeroGrid, Grid.mk, Grid.get, List.getD, q1, q2]

theorem InitInv.zero (n : Nat) : InitInv n (zeroGrid n) 0 [] := by
  refine ⟨by simp [zeroGrid, Grid.mk, Grid.shaped], rfl, ?_, ?_, ?_, ?_⟩
  · intro j d hj; simp at hj
  · intro j d hj; simp at hj
  · intro j d hj; simp at hj
  · intro q hq hnz; exact absurd (cell_zeroGrid_wi hq) hnz

/-! ### from the scan invariant to the walk invariant -/

theorem walkAgents0_getElem? {n k : Nat} {init : List (Int × Int)} (hlen : init.length = k) {i : Nat} {y : Agent}
    (h : (walkAgents0 n k init)[i]? = some y) :
    ∃ d, init[i]? = some d ∧ y = ⟨(i : Int), unflat n d.1, (-1, -1), unflat n d.2⟩ := by
  unfold walkAgents0 mkAgents at h
  rw [List.getElem?_map] at h
  have hi : i < k := by
    rcases Nat.lt_or_ge i k with x | x
    · exact x
    · rw [List.getElem?_eq_none (by simpa using x)] at h; cases h
  have hi' : i < init.length := by omega
  refine ⟨init[i], List.getElem?_eq_getElem hi', ?_⟩
  rw [List.getElem?_range hi] at h
  simp only [Option.map_some, Option.some.injEq] at h
  rw [← h]
  simp [List.getD_eq_getElem?_getD, hi, hi']

theorem InitInv.walkInv {n k : Nat} {g : Grid Int} {init : List (Int × Int)} (hlen : init.length = k)
    (h : InitInv n g k (init.map (fun d => (unflat n d.1, unflat n d.2)))) :
    WalkInv n k (init.map (fun d => unflat n d.2)) g (walkAgents0 n k init) := by
  have hdone : ∀ (i : Nat) (d : Int × Int), init[i]? = some d →
      (init.map (fun d => (unflat n d.1, unflat n d.2)))[i]? = some (unflat n d.1, unflat n d.2) := by
    intro i d hd; simp [hd]
  have hags : (walkAgents0 n k init).length = k := by simp [walkAgents0, mkAgents]
  refine ⟨by simp [hlen], hags, ?_, ?_⟩
  · refine ⟨h.shaped, by simp [mirrorAgents, hags, hlen], ?_, ?_, by simp⟩
    · intro i ag hag
      simp only [mirrorAgents] at hag
      rw [List.getElem?_zipWith_eq_some] at hag
      obtain ⟨x, y, hx, hy, rfl⟩ := hag
      obtain ⟨d, hd, rfl⟩ := walkAgents0_getElem? hlen hy
      have hx' : x = unflat n d.2 := by simp [hd] at hx; exact hx.symm
      subst hx'
      have hD := hdone i d hd
      have hin := h.inA i _ hD
      have ht := h.tgt i _ hD
      have hp := h.pos i _ hD
      simp only at hin ht hp
      have hne : unflat n d.2 ≠ unflat n d.1 := by
        intro e; rw [e, ht] at hp; unfold tgtVal posVal at hp; omega
      refine ⟨rfl, hin.2, hin.1, hin.2, hp, ?_, ?_, fun _ => ht, ?_, ?_, fun e => absurd rfl e⟩
      · intro q hq hc
        obtain ⟨j, d', hj, hqd⟩ := h.other q hq (by rw [hc]; exact posVal_ne_zero i)
        rcases hqd with e | e
        · rw [e, h.tgt j d' hj] at hc; unfold tgtVal posVal at hc; omega
        · rw [e, h.pos j d' hj] at hc
          have : j = i := by unfold posVal at hc; omega
          subst this
          rw [hD] at hj
          rw [e, ← Option.some.inj hj]; rfl
      · intro e; exact absurd e hne
      · intro _ q hq hc
        obtain ⟨j, d', hj, hqd⟩ := h.other q hq (by rw [hc]; exact tgtVal_ne_zero i)
        rcases hqd with e | e
        · rw [e, h.tgt j d' hj] at hc
          have : j = i := by unfold tgtVal at hc; omega
          subst this
          rw [hD] at hj
          rw [e, ← Option.some.inj hj]; rfl
        · rw [e, h.pos j d' hj] at hc; unfold tgtVal posVal at hc; omega
      · intro _ q hq hc
        obtain ⟨j, d', hj, hqd⟩ := h.other q hq (by rw [hc]; unfold pathVal; omega)
        rcases hqd with e | e
        · rw [e, h.tgt j d' hj] at hc; unfold tgtVal pathVal at hc; omega
        · rw [e, h.pos j d' hj] at hc; unfold posVal pathVal at hc; omega
    · intro q hq
      show 0 ≤ cell g q ∧ cell g q ≤ 3 * (k : Int)
      by_cases hz : cell g q = 0
      · rw [hz]; omega
      · obtain ⟨j, d', hj, hqd⟩ := h.other q hq hz
        have hjk : j < k := by
          rcases Nat.lt_or_ge j k with x | x
          · exact x
          · rw [List.getElem?_eq_none (by simpa [hlen] using x)] at hj; cases hj
        rcases hqd with e | e
        · rw [e, h.tgt j d' hj]; unfold tgtVal; omega
        · rw [e, h.pos j d' hj]; unfold posVal; omega
  · intro ag hag
    obtain ⟨i, hi⟩ := List.mem_iff_getElem?.1 hag
    obtain ⟨d, hd, rfl⟩ := walkAgents0_getElem? hlen hi
    refine ⟨rfl, ?_⟩
    have hD := hdone i d hd
    have ht := h.tgt i _ hD
    have hp := h.pos i _ hD
    simp only at ht hp
    show unflat n d.2 ≠ unflat n d.1
    intro e; rw [e, ht] at hp; unfold tgtVal posVal at hp; omega

set_option linter.unusedVariables false in
/-- after `_initialize_agents` (no boxed-in start) the walk invariant holds (`hn` is not needed) -/
theorem walkInit_inv (n k : Nat) (hn : 0 < n) (init : List (Int × Int)) (hlen : init.length = k)
    (hv : (walkInit n (zeroGrid n) 0 init).2 = true) (hnb : ∀ d ∈ init, d.2 ≠ -1) :
    WalkInv n k (init.map (fun d => unflat n d.2)) (walkInit n (zeroGrid n) 0 init).1 (walkAgents0 n k init) := by
  have h := walkInit_InitInv n init (zeroGrid n) 0 [] (InitInv.zero n) hv hnb
  simp only [Nat.zero_add, List.nil_append, hlen] at h
  exact InitInv.walkInv hlen h


end Connector
