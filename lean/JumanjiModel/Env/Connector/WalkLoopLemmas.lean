/- The random walk of `RandomWalkGenerator` preserves `WalkInv`, and what the invariant gives at the end. -/
import JumanjiModel.Env.Connector.WalkDefs
namespace Connector
open Jm Jx

/-! ### small tools -/

theorem cons_count {n k : Nat} {g : Grid Int} {c : Int} {ags : List Agent} (h : Cons n k ⟨g, c, ags⟩) (c' : Int)
    (hc : 0 ≤ c') : Cons n k ⟨g, c', ags⟩ :=
  ⟨h.shaped, h.len, h.agent, h.range, hc⟩

/-- what the invariant says about agent number `i` -/
theorem walkInv_agent {n k : Nat} {firsts : List Pos} {g : Grid Int} {ags : List Agent}
    (hinv : WalkInv n k firsts g ags) {i : Nat} {ag : Agent} (hag : ags[i]? = some ag) :
    i < k ∧ inGrid n ag.start ∧ inGrid n ag.position ∧ cell g ag.start = tgtVal (i : Int) ∧
      cell g ag.position = posVal (i : Int) ∧ ag.target = (-1, -1) ∧ ag.position ≠ ag.start ∧ ag.id = (i : Int) := by
  obtain ⟨hf, ha, hc, hall⟩ := hinv
  have hi : i < ags.length := lt_of_getElem? hag
  have hi' : i < firsts.length := by omega
  have hm : (mirrorAgents firsts ags)[i]? = some (mirrorAgent firsts[i] ag) := by
    unfold mirrorAgents
    rw [List.getElem?_zipWith, hag, List.getElem?_eq_getElem hi']
  have ok := hc.agent i _ hm
  obtain ⟨ht, hne⟩ := hall ag (List.mem_of_getElem? hag)
  exact ⟨by omega, ok.tgtIn, ok.posIn, ok.tgtAt hne, ok.headAt, ht, hne, ok.id⟩

/-! ### `walkInv_distinct` -/

/-- what the invariant gives at the end: starts and heads are 2k pairwise different cells inside the grid -/
theorem walkInv_distinct (n k : Nat) (firsts : List Pos) (g : Grid Int) (ags : List Agent) (hinv : WalkInv n k firsts g ags) :
    (ags.map (fun ag => ag.start)).length = k ∧ (ags.map (fun ag => ag.position)).length = k ∧
    (ags.map (fun ag => ag.start) ++ ags.map (fun ag => ag.position)).Nodup ∧
    ∀ p ∈ ags.map (fun ag => ag.start) ++ ags.map (fun ag => ag.position), inGrid n p := by
  have hlen : ags.length = k := hinv.2.1
  refine ⟨by simp [hlen], by simp [hlen], ?_, ?_⟩
  · rw [List.nodup_append]
    refine ⟨?_, ?_, ?_⟩
    · unfold List.Nodup
      rw [List.pairwise_map, List.pairwise_iff_getElem]
      intro i j hi hj hij e
      have fi := walkInv_agent hinv (List.getElem?_eq_getElem hi)
      have fj := walkInv_agent hinv (List.getElem?_eq_getElem hj)
      have h1 := fi.2.2.2.1
      have h2 := fj.2.2.2.1
      rw [e, h2] at h1
      unfold tgtVal at h1; omega
    · unfold List.Nodup
      rw [List.pairwise_map, List.pairwise_iff_getElem]
      intro i j hi hj hij e
      have fi := walkInv_agent hinv (List.getElem?_eq_getElem hi)
      have fj := walkInv_agent hinv (List.getElem?_eq_getElem hj)
      have h1 := fi.2.2.2.2.1
      have h2 := fj.2.2.2.2.1
      rw [e, h2] at h1
      unfold posVal at h1; omega
    · intro a ha b hb e
      rw [List.mem_map] at ha hb
      obtain ⟨ag1, hm1, rfl⟩ := ha
      obtain ⟨ag2, hm2, rfl⟩ := hb
      obtain ⟨i, hi⟩ := List.getElem?_of_mem hm1
      obtain ⟨j, hj⟩ := List.getElem?_of_mem hm2
      have fi := walkInv_agent hinv hi
      have fj := walkInv_agent hinv hj
      have h1 := fi.2.2.2.1
      have h2 := fj.2.2.2.2.1
      rw [e, h2] at h1
      unfold posVal tgtVal at h1; omega
  · intro p hp
    rw [List.mem_append, List.mem_map, List.mem_map] at hp
    rcases hp with ⟨ag, hm, rfl⟩ | ⟨ag, hm, rfl⟩
    · obtain ⟨i, hi⟩ := List.getElem?_of_mem hm
      exact (walkInv_agent hinv hi).2.1
    · obtain ⟨i, hi⟩ := List.getElem?_of_mem hm
      exact (walkInv_agent hinv hi).2.2.1

/-! ### the mirror lemma -/

theorem isValidPosition_mirror (g : Grid Int) (f : Pos) (ag : Agent) (p : Pos) (h1 : ag.connected = false)
    (h2 : (mirrorAgent f ag).connected = false) :
    isValidPosition g (mirrorAgent f ag) p = isValidPosition g ag p := by
  simp only [isValidPosition, h1, h2]
  rfl

theorem stepAgent_mirror (g : Grid Int) (f : Pos) (ag : Agent) (a : Int) (h1 : ag.connected = false)
    (h2 : (mirrorAgent f ag).connected = false) :
    stepAgent g (mirrorAgent f ag) a = (mirrorAgent f (stepAgent g ag a).1, (stepAgent g ag a).2) := by
  have e := isValidPosition_mirror g f ag (movePosition ag.position a) h1 h2
  have e' : isValidPosition g (mirrorAgent f ag) (movePosition (mirrorAgent f ag).position a) =
      isValidPosition g ag (movePosition ag.position a) := e
  unfold stepAgent
  simp only [e']
  by_cases hc : (isValidPosition g ag (movePosition ag.position a) && a != 0) = true
  · simp only [hc, if_true]; rfl
  · simp only [hc]; rfl

theorem stepEach_mirror (g : Grid Int) (c : Int) (firsts : List Pos) (ags : List Agent) (acts : List Int)
    (hun : ∀ (i : Nat) f ag, firsts[i]? = some f → ags[i]? = some ag →
      ag.connected = false ∧ (mirrorAgent f ag).connected = false) :
    stepEach ⟨g, c, mirrorAgents firsts ags⟩ acts =
      List.zipWith (fun f (x : Agent × Grid Int) => (mirrorAgent f x.1, x.2)) firsts (stepEach ⟨g, c, ags⟩ acts) := by
  apply List.ext_getElem?
  intro i
  simp only [stepEach, mirrorAgents, List.getElem?_zipWith]
  cases hf : firsts[i]? with
  | none => simp
  | some f =>
    cases ha : ags[i]? with
    | none => simp
    | some ag =>
      cases hc : acts[i]? with
      | none => simp
      | some a =>
        obtain ⟨u1, u2⟩ := hun i f ag hf ha
        simp only [stepAgent_mirror g f ag a u1 u2]

theorem resolve_eq (k : Nat) (s : State) (stepped : List (Agent × Grid Int)) :
    resolve k s stepped =
      (let agentGrids := List.zipWith (fun id (x : Agent × Grid Int) => getAgentGrid id x.2) (agentIds k) stepped
       (List.zipWith (fun (c : Bool) (on : Agent × Agent) => if c then on.1 else on.2)
          ((agentIds k).map (hasCollision (joinGrids agentGrids)))
          (List.zipWith (fun o (x : Agent × Grid Int) => (o, x.1)) s.agents stepped),
        Grid.zipWith (· + ·) (joinGrids agentGrids)
          (sumGrids (Grid.map (fun _ => (0 : Int)) s.grid)
            ((agentIds k).map (correctionMask s.grid (joinGrids agentGrids)))))) := rfl

theorem resolve_mirror (k : Nat) (g : Grid Int) (c : Int) (firsts : List Pos) (ags : List Agent)
    (stepped : List (Agent × Grid Int)) (hl : stepped.length ≤ firsts.length) :
    resolve k ⟨g, c, mirrorAgents firsts ags⟩
        (List.zipWith (fun f (x : Agent × Grid Int) => (mirrorAgent f x.1, x.2)) firsts stepped) =
      (mirrorAgents firsts (resolve k ⟨g, c, ags⟩ stepped).1, (resolve k ⟨g, c, ags⟩ stepped).2) := by
  have hg : List.zipWith (fun id (x : Agent × Grid Int) => getAgentGrid id x.2) (agentIds k)
        (List.zipWith (fun f (x : Agent × Grid Int) => (mirrorAgent f x.1, x.2)) firsts stepped) =
      List.zipWith (fun id (x : Agent × Grid Int) => getAgentGrid id x.2) (agentIds k) stepped := by
    apply List.ext_getElem?
    intro i
    simp only [List.getElem?_zipWith]
    cases hs : stepped[i]? with
    | none => cases firsts[i]? <;> simp
    | some x =>
      have hi : i < stepped.length := lt_of_getElem? hs
      have hi' : i < firsts.length := by omega
      rw [List.getElem?_eq_getElem hi']
      cases (agentIds k)[i]? <;> rfl
  rw [resolve_eq, resolve_eq]
  simp only [hg]
  refine Prod.ext ?_ rfl
  simp only [mirrorAgents]
  apply List.ext_getElem?
  intro i
  simp only [List.getElem?_zipWith, List.getElem?_map]
  cases hf : firsts[i]? with
  | none => cases ((agentIds k)[i]?) <;> simp
  | some f =>
    cases ha : ags[i]? with
    | none => cases ((agentIds k)[i]?) <;> simp
    | some ag =>
      cases hs : stepped[i]? with
      | none => cases ((agentIds k)[i]?) <;> simp
      | some x =>
        cases hid : (agentIds k)[i]? with
        | none => simp
        | some id =>
          simp only [Option.map_some]
          split <;> rfl

/-- the walk's `_step_agents` seen through the mirror is the environment's -/
theorem stepAgents_mirror (k : Nat) (g : Grid Int) (c : Int) (firsts : List Pos) (ags : List Agent) (acts : List Int)
    (hl : firsts.length = ags.length)
    (hun : ∀ (i : Nat) f ag, firsts[i]? = some f → ags[i]? = some ag →
      ag.connected = false ∧ (mirrorAgent f ag).connected = false) :
    stepAgents k ⟨g, c, mirrorAgents firsts ags⟩ acts =
      (mirrorAgents firsts (stepAgents k ⟨g, c, ags⟩ acts).1, (stepAgents k ⟨g, c, ags⟩ acts).2) := by
  unfold stepAgents
  rw [stepEach_mirror g c firsts ags acts hun]
  apply resolve_mirror
  simp only [stepEach, List.length_zipWith]
  omega

/-! ### arithmetic of flat cells -/

theorem unflat_mul_add (n : Nat) (a b : Int) (h0 : 0 ≤ b) (h1 : b < (n : Int)) :
    unflat n (a * (n : Int) + b) = (a, b) := by
  have hn : (n : Int) ≠ 0 := by omega
  unfold unflat
  rw [Int.add_comm, Int.add_mul_ediv_right _ _ hn, Int.add_mul_emod_self_right, Int.ediv_eq_zero_of_lt h0 h1,
    Int.emod_eq_of_lt h0 h1]
  simp

theorem unflat_inGrid_wl (n : Nat) (c : Int) (h0 : 0 ≤ c) (h1 : c < ((n * n : Nat) : Int)) : inGrid n (unflat n c) := by
  have hn : 0 < (n : Int) := by
    rcases Nat.eq_zero_or_pos n with h | h
    · subst h; simp at h1; omega
    · omega
  unfold inGrid unflat
  refine ⟨Int.ediv_nonneg h0 (by omega), ?_, Int.emod_nonneg _ (by omega), Int.emod_lt_of_pos _ hn⟩
  apply Int.ediv_lt_of_lt_mul hn
  rw [Int.natCast_mul] at h1
  exact h1

/-- the sum of `_action_from_tuple` -/
def actSum (d : Pos) : Int :=
  (if d = (-1, 0) then 1 else 0) + (if d = (1, 0) then 3 else 0) + (if d = (0, -1) then 4 else 0) +
  (if d = (0, 1) then 2 else 0)

theorem action_eq (n : Nat) (c1 c2 : Int) :
    actionFromCells n c1 c2 = actSum ((unflat n c2).1 - (unflat n c1).1, (unflat n c2).2 - (unflat n c1).2) := rfl

theorem actSum_cases (d : Pos) :
    (d = (-1, 0) ∧ actSum d = 1) ∨ (d = (1, 0) ∧ actSum d = 3) ∨ (d = (0, -1) ∧ actSum d = 4) ∨
    (d = (0, 1) ∧ actSum d = 2) ∨ actSum d = 0 := by
  by_cases h1 : d = (-1, 0)
  · subst h1; left; exact ⟨rfl, by decide⟩
  by_cases h2 : d = (1, 0)
  · subst h2; right; left; exact ⟨rfl, by decide⟩
  by_cases h3 : d = (0, -1)
  · subst h3; right; right; left; exact ⟨rfl, by decide⟩
  by_cases h4 : d = (0, 1)
  · subst h4; right; right; right; left; exact ⟨rfl, by decide⟩
  right; right; right; right
  simp [actSum, h1, h2, h3, h4]

theorem action_spec (n : Nat) (c1 c2 : Int) : 0 ≤ actionFromCells n c1 c2 ∧ actionFromCells n c1 c2 ≤ 4 := by
  rw [action_eq]
  rcases actSum_cases ((unflat n c2).1 - (unflat n c1).1, (unflat n c2).2 - (unflat n c1).2) with
    ⟨_, e⟩ | ⟨_, e⟩ | ⟨_, e⟩ | ⟨_, e⟩ | e <;> rw [e] <;> omega

theorem move_actSum (p d : Pos) (hd : d = (-1, 0) ∨ d = (1, 0) ∨ d = (0, -1) ∨ d = (0, 1)) :
    actSum d ≠ 0 ∧ movePosition p (actSum d) = (p.1 + d.1, p.2 + d.2) := by
  rcases hd with rfl | rfl | rfl | rfl
  · refine ⟨by decide, ?_⟩
    rw [show actSum (-1, 0) = 1 by decide]; simp [movePosition]; omega
  · refine ⟨by decide, ?_⟩
    rw [show actSum (1, 0) = 3 by decide]; simp [movePosition]
  · refine ⟨by decide, ?_⟩
    rw [show actSum (0, -1) = 4 by decide]; simp [movePosition]; omega
  · refine ⟨by decide, ?_⟩
    rw [show actSum (0, 1) = 2 by decide]; simp [movePosition]

theorem action_of_unflat (n : Nat) (c0 c : Int) (r col r' col' : Int) (h0 : unflat n c0 = (r, col))
    (h : unflat n c = (r', col')) : actionFromCells n c0 c = actSum (r' - r, col' - col) := by
  rw [action_eq, h0, h]

theorem mem_adjacentCells (n : Nat) (c0 c : Int) (hc : c ∈ adjacentCells n c0) (hne : c ≠ -1) :
    (c = c0 + -(n : Int) ∨ c = c0 + (n : Int) ∨ c = c0 + -1 ∨ c = c0 + 1) ∧ 0 ≤ c ∧ c < ((n * n : Nat) : Int) ∧
    ((unflat n c).1 = (unflat n c0).1 ∨ (unflat n c).2 = (unflat n c0).2) := by
  unfold adjacentCells at hc
  simp only [List.map_cons, List.map_nil, List.mem_cons, List.not_mem_nil, or_false] at hc
  rcases hc with h | h | h | h <;>
  · split at h
    · rename_i hcond
      simp only [Bool.and_eq_true, Bool.or_eq_true, decide_eq_true_eq] at hcond
      subst h
      exact ⟨by simp, hcond.1.1, hcond.1.2, hcond.2⟩
    · exact absurd h hne

/-- a drawn neighbour cell that is not `-1`: the derived action is a move, and it leads exactly to that cell -/
theorem adj_move (n : Nat) (p : Pos) (hp : inGrid n p) (c : Int) (hc : c ∈ adjacentCells n (flatPos n p))
    (hne : c ≠ -1) :
    0 ≤ c ∧ c < ((n * n : Nat) : Int) ∧ actionFromCells n (flatPos n p) c ≠ 0 ∧
      movePosition p (actionFromCells n (flatPos n p) c) = unflat n c := by
  obtain ⟨r, col⟩ := p
  obtain ⟨hr0, hr1, hc0, hc1⟩ := hp
  simp only at hr0 hr1 hc0 hc1
  obtain ⟨hdir, h0, h1, hline⟩ := mem_adjacentCells n _ c hc hne
  have hu0 : unflat n (flatPos n (r, col)) = (r, col) := unflat_mul_add n r col hc0 hc1
  refine ⟨h0, h1, ?_⟩
  rw [hu0] at hline
  simp only at hline
  have key : ∃ d : Pos, (d = (-1, 0) ∨ d = (1, 0) ∨ d = (0, -1) ∨ d = (0, 1)) ∧
      unflat n c = (r + d.1, col + d.2) := by
    unfold flatPos at hdir
    simp only at hdir
    rcases hdir with e | e | e | e
    · refine ⟨(-1, 0), Or.inl rfl, ?_⟩
      rw [e, show r * (n : Int) + col + -(n : Int) = (r + -1) * (n : Int) + (col + 0) by rw [Int.add_mul]; omega]
      exact unflat_mul_add n _ _ (by omega) (by omega)
    · refine ⟨(1, 0), Or.inr (Or.inl rfl), ?_⟩
      rw [e, show r * (n : Int) + col + (n : Int) = (r + 1) * (n : Int) + (col + 0) by rw [Int.add_mul]; omega]
      exact unflat_mul_add n _ _ (by omega) (by omega)
    · by_cases hz : col = 0
      · exfalso
        have hu : unflat n c = (r + -1, (n : Int) - 1) := by
          rw [e, show r * (n : Int) + col + -1 = (r + -1) * (n : Int) + ((n : Int) - 1) by rw [Int.add_mul]; omega]
          exact unflat_mul_add n _ _ (by omega) (by omega)
        rw [hu] at hline
        simp only at hline
        have hr : r = 0 := by omega
        subst hr
        omega
      · refine ⟨(0, -1), Or.inr (Or.inr (Or.inl rfl)), ?_⟩
        rw [e, show r * (n : Int) + col + -1 = (r + 0) * (n : Int) + (col + -1) by rw [Int.add_mul]; omega]
        exact unflat_mul_add n _ _ (by omega) (by omega)
    · by_cases hz : col + 1 = (n : Int)
      · exfalso
        have hu : unflat n c = (r + 1, 0) := by
          rw [e, show r * (n : Int) + col + 1 = (r + 1) * (n : Int) + 0 by rw [Int.add_mul]; omega]
          exact unflat_mul_add n _ _ (by omega) (by omega)
        rw [hu] at hline
        simp only at hline
        have hn1 : n = 1 := by omega
        subst hn1
        simp at e h1
        omega
      · refine ⟨(0, 1), Or.inr (Or.inr (Or.inr rfl)), ?_⟩
        rw [e, show r * (n : Int) + col + 1 = (r + 0) * (n : Int) + (col + 1) by rw [Int.add_mul]; omega]
        exact unflat_mul_add n _ _ (by omega) (by omega)
  obtain ⟨d, hd, hu⟩ := key
  have ha : actionFromCells n (flatPos n (r, col)) c = actSum d := by
    rw [action_of_unflat n _ c r col _ _ hu0 hu]
    congr 1
    exact Prod.ext (by show r + d.1 - r = d.1; omega) (by show col + d.2 - col = d.2; omega)
  rw [ha, hu]
  exact move_actSum (r, col) d hd

/-- the drawn cell `-1` (nothing available): the derived action is the no-op or points off the grid -/
theorem adj_none (n : Nat) (p : Pos) (hp : inGrid n p) :
    actionFromCells n (flatPos n p) (-1) = 0 ∨
      ¬ inGrid n (movePosition p (actionFromCells n (flatPos n p) (-1))) := by
  obtain ⟨r, col⟩ := p
  obtain ⟨hr0, hr1, hc0, hc1⟩ := hp
  simp only at hr0 hr1 hc0 hc1
  have hu0 : unflat n (flatPos n (r, col)) = (r, col) := unflat_mul_add n r col hc0 hc1
  have hu1 : unflat n (-1) = (-1, (n : Int) - 1) := by
    have := unflat_mul_add n (-1) ((n : Int) - 1) (by omega) (by omega)
    rw [show (-1 : Int) * (n : Int) + ((n : Int) - 1) = -1 by omega] at this
    exact this
  rw [action_of_unflat n _ _ r col (-1) ((n : Int) - 1) hu0 hu1]
  rcases actSum_cases (-1 - r, (n : Int) - 1 - col) with ⟨hd, ha⟩ | ⟨hd, ha⟩ | ⟨hd, ha⟩ | ⟨hd, ha⟩ | ha
  · right
    rw [ha]
    intro hin
    have hm : movePosition (r, col) 1 = (r - 1, col) := by simp [movePosition]
    rw [hm] at hin
    have := hin.1
    simp only [Prod.mk.injEq] at hd
    simp only at this
    omega
  · simp only [Prod.mk.injEq] at hd; omega
  · simp only [Prod.mk.injEq] at hd; omega
  · simp only [Prod.mk.injEq] at hd; omega
  · left; exact ha

/-! ### the draws -/

theorem validChoice_mem_wl (av : List Int) (hav : av ≠ []) (c : Int)
    (h : validChoice av (av.map (fun x => x != -1)) c = true) (hne : c ≠ -1) : c ∈ av := by
  unfold validChoice at h
  split at h
  · rw [List.any_eq_true] at h
    obtain ⟨⟨x, b⟩, hm, hx⟩ := h
    simp only [Bool.and_eq_true, beq_iff_eq] at hx
    rw [← hx.2]; exact (List.of_mem_zip hm).1
  · rename_i hany
    exfalso
    cases av with
    | nil => exact hav rfl
    | cons x rest =>
      simp at hany h
      omega

theorem mem_available (n : Nat) (g : Grid Int) (c0 c : Int) (hm : c ∈ availableCells n g c0) (hne : c ≠ -1) :
    c ∈ adjacentCells n c0 ∧ getUnflat n g c = 0 := by
  unfold availableCells at hm
  simp only [List.mem_map] at hm
  obtain ⟨x, hx, e⟩ := hm
  split at e
  · rename_i hcond
    subst e
    simp only [Bool.and_eq_true, isCellFree, beq_iff_eq] at hcond
    exact ⟨hx, hcond.1.2⟩
  · exact absurd e.symm hne

theorem available_ne_nil (n : Nat) (g : Grid Int) (c0 : Int) : availableCells n g c0 ≠ [] := by
  simp [availableCells, adjacentCells]

/-! ### one iteration of the walk loop -/

theorem walk_step_inv (n k : Nat) (hk : 0 < k) (firsts : List Pos) (g : Grid Int) (ags : List Agent) (d : List Int)
    (hinv : WalkInv n k firsts g ags) (hlen : d.length = k)
    (hvc : ∀ (i : Nat) ag c, ags[i]? = some ag → d[i]? = some c →
      validChoice (availableCells n g (flatPos n ag.position))
        ((availableCells n g (flatPos n ag.position)).map (fun x => x != -1)) c = true) :
    WalkInv n k firsts (stepAgents k ⟨g, 0, ags⟩ (walkActions n ags d)).2
      (stepAgents k ⟨g, 0, ags⟩ (walkActions n ags d)).1 := by
  have hinv' := hinv
  obtain ⟨hf, ha, hc, hall⟩ := hinv
  have hactlen : (walkActions n ags d).length = k := by simp [walkActions, ha, hlen]
  have hspec : ∀ a ∈ walkActions n ags d, 0 ≤ a ∧ a ≤ 4 := by
    intro a hmem
    obtain ⟨i, hi⟩ := List.getElem?_of_mem hmem
    unfold walkActions at hi
    rw [List.getElem?_zipWith_eq_some] at hi
    obtain ⟨ag, c, _, _, rfl⟩ := hi
    exact action_spec n _ _
  have hun : ∀ (i : Nat) f ag, firsts[i]? = some f → ags[i]? = some ag →
      ag.connected = false ∧ (mirrorAgent f ag).connected = false := by
    intro i f ag _ hag
    obtain ⟨_, _, hpos, _, _, ht, hne, _⟩ := walkInv_agent hinv' hag
    constructor
    · cases hcn : ag.connected with
      | false => rfl
      | true =>
        have e : ag.position = ag.target := (connected_iff _).1 hcn
        rw [ht] at e
        have := hpos.1
        rw [e] at this
        simp at this
    · cases hcn : (mirrorAgent f ag).connected with
      | false => rfl
      | true => exact absurd ((connected_iff _).1 hcn) hne
  have hmir := stepAgents_mirror k g 0 firsts ags (walkActions n ags d) (by omega) hun
  have hcons : Cons n k ⟨(stepAgents k ⟨g, 0, ags⟩ (walkActions n ags d)).2, 0,
      mirrorAgents firsts (stepAgents k ⟨g, 0, ags⟩ (walkActions n ags d)).1⟩ := by
    have h1 := step_consistent ⟨n, k, 0, 0, 0⟩ ⟨g, 0, mirrorAgents firsts ags⟩ (walkActions n ags d)
      ((consistent_iff _ _ _).2 hc) hk hactlen hspec
    have h2 := (consistent_iff _ _ _).1 h1
    have e : (step ⟨n, k, 0, 0, 0⟩ ⟨g, 0, mirrorAgents firsts ags⟩ (walkActions n ags d)).1 =
        ⟨(stepAgents k ⟨g, 0, mirrorAgents firsts ags⟩ (walkActions n ags d)).2, 0 + 1,
         (stepAgents k ⟨g, 0, mirrorAgents firsts ags⟩ (walkActions n ags d)).1⟩ := rfl
    rw [e, hmir] at h2
    exact cons_count h2 0 (by omega)
  have hlen' : (stepAgents k ⟨g, 0, ags⟩ (walkActions n ags d)).1.length = k := by
    simp [stepAgents, resolve, stepEach, agentIds, walkActions, ha, hlen]
  refine ⟨hf, hlen', hcons, ?_⟩
  intro ag' hmem
  obtain ⟨i, hi⟩ := List.getElem?_of_mem hmem
  have hik : i < k := by have := lt_of_getElem? hi; omega
  obtain ⟨ag, hag⟩ : ∃ ag, ags[i]? = some ag := ⟨ags[i]'(by omega), List.getElem?_eq_getElem (by omega)⟩
  obtain ⟨c, hdc⟩ : ∃ c, d[i]? = some c := ⟨d[i]'(by omega), List.getElem?_eq_getElem (by omega)⟩
  have hact : (walkActions n ags d)[i]? = some (actionFromCells n (flatPos n ag.position) c) := by
    unfold walkActions; rw [List.getElem?_zipWith, hag, hdc]
  obtain ⟨_, hsin, hpin, hst, hhd, ht, hne, hid⟩ := walkInv_agent hinv' hag
  rcases stay_or_move ⟨n, k, 0, 0, 0⟩ ⟨g, 0, ags⟩ (walkActions n ags d) hik hag hact with h | ⟨h, hvalid, hnz⟩
  · have h' : (stepAgents k ⟨g, 0, ags⟩ (walkActions n ags d)).1[i]? = some ag := h
    rw [h'] at hi
    have := Option.some.inj hi
    subst this
    exact ⟨ht, hne⟩
  · have h' : (stepAgents k ⟨g, 0, ags⟩ (walkActions n ags d)).1[i]? =
        some { ag with position := movePosition ag.position (actionFromCells n (flatPos n ag.position) c) } := h
    rw [h'] at hi
    have := Option.some.inj hi
    subst this
    refine ⟨ht, ?_⟩
    show movePosition ag.position (actionFromCells n (flatPos n ag.position) c) ≠ ag.start
    have hshape : Grid.shaped g n n = true := hc.shaped
    have hvalid' : isValidPosition g ag (movePosition ag.position (actionFromCells n (flatPos n ag.position) c)) = true :=
      hvalid
    by_cases hc1 : c = -1
    · subst hc1
      rcases adj_none n ag.position hpin with h0 | hout
      · exact absurd h0 hnz
      · rw [isValidPosition_eq hshape] at hvalid'
        have := of_decide_eq_true hvalid'
        exact absurd this.1 hout
    · have hm := validChoice_mem_wl _ (available_ne_nil n g _) c (hvc i ag c hag hdc) hc1
      obtain ⟨hadj, hfree⟩ := mem_available n g _ c hm hc1
      obtain ⟨h0, h1, _, hmove⟩ := adj_move n ag.position hpin c hadj hc1
      rw [hmove]
      intro heq
      have hin := unflat_inGrid_wl n c h0 h1
      have hz : cell g (unflat n c) = 0 := by
        rw [← getWC_eq_cell hshape hin]; exact hfree
      rw [heq, hst] at hz
      unfold tgtVal at hz; omega

/-! ### `walkLoop_inv` -/

/-- the walk loop preserves the invariant -/
theorem walkLoop_inv (n k : Nat) (hk : 0 < k) (firsts : List Pos) (tape : List (List Int)) (g : Grid Int) (ags : List Agent)
    (hinv : WalkInv n k firsts g ags) (hv : validTape n k g ags tape = true) :
    WalkInv n k firsts (walkLoop n k g ags tape).1 (walkLoop n k g ags tape).2 := by
  induction tape generalizing g ags with
  | nil => simp only [walkLoop]; exact hinv
  | cons d rest ih =>
    simp only [validTape, Bool.and_eq_true, beq_iff_eq] at hv
    obtain ⟨⟨⟨hcs, hlen⟩, hall⟩, hrest⟩ := hv
    simp only [walkLoop, hcs, if_true]
    apply ih
    · apply walk_step_inv n k hk firsts g ags d hinv hlen
      intro i ag c hag hdc
      rw [List.all_eq_true] at hall
      have hm : validChoice (availableCells n g (flatPos n ag.position))
          ((availableCells n g (flatPos n ag.position)).map (fun x => x != -1)) c ∈
          List.zipWith (fun (ag : Agent) (c : Int) =>
            validChoice (availableCells n g (flatPos n ag.position))
              ((availableCells n g (flatPos n ag.position)).map (fun x => x != -1)) c) ags d := by
        apply List.mem_of_getElem? (i := i)
        rw [List.getElem?_zipWith, hag, hdc]
      have := hall _ hm
      simpa using this
    · exact hrest

end Connector
