/- Pointwise reasoning about grids (lists of rows) for Connector: extensionality, lookup through
`map` / `zipWith` / folds / `set`, `any` / `all` / `count` as statements about cells. -/
import JumanjiModel.Env.Connector.Lemmas
namespace Connector
open Jm Jx

/-! ### rows -/

theorem shaped_getElem? {g : Grid Int} {n m : Nat} (h : Grid.shaped g n m = true) {r : Nat} (hr : r < n) :
    ∃ row, g[r]? = some row ∧ row.length = m := by
  have hl := shaped_length h
  have h1 : r < g.length := by omega
  refine ⟨g[r], List.getElem?_eq_getElem h1, ?_⟩
  unfold Grid.shaped at h; simp at h
  exact h.2 _ (List.getElem_mem h1)

theorem get_of_row {g : Grid Int} {r : Nat} {row : List Int} (h : g[r]? = some row) (c : Nat) :
    Grid.get g 0 r c = row[c]?.getD 0 := by
  simp [Grid.get, List.getD, h]

theorem shaped_of_rows {g : Grid Int} {n m : Nat} (hl : g.length = n)
    (hr : ∀ (r : Nat) (row : List Int), g[r]? = some row → row.length = m) : Grid.shaped g n m = true := by
  unfold Grid.shaped; simp
  refine ⟨hl, ?_⟩
  intro row hrow
  obtain ⟨r, h⟩ := List.getElem?_of_mem hrow
  exact hr r row h

theorem grid_ext {g g' : Grid Int} {n m : Nat} (h : Grid.shaped g n m = true) (h' : Grid.shaped g' n m = true)
    (e : ∀ r c, r < n → c < m → Grid.get g 0 r c = Grid.get g' 0 r c) : g = g' := by
  have hl := shaped_length h
  have hl' := shaped_length h'
  apply List.ext_getElem?
  intro r
  by_cases hr : r < n
  · obtain ⟨row, e1, l1⟩ := shaped_getElem? h hr
    obtain ⟨row', e2, l2⟩ := shaped_getElem? h' hr
    rw [e1, e2]
    congr 1
    apply List.ext_getElem (by omega)
    intro c hc1 hc2
    have := e r c hr (by omega)
    rw [get_of_row e1, get_of_row e2] at this
    simpa [hc1, hc2] using this
  · rw [List.getElem?_eq_none (by omega), List.getElem?_eq_none (by omega)]

theorem shaped_map (f : Int → Int) {g : Grid Int} {n m : Nat} (h : Grid.shaped g n m = true) :
    Grid.shaped (Grid.map f g) n m = true := by
  unfold Grid.shaped Grid.map at *
  simp at h ⊢
  exact ⟨h.1, fun row hrow => h.2 row hrow⟩

theorem get_map (f : Int → Int) {g : Grid Int} {n m : Nat} (h : Grid.shaped g n m = true) {r c : Nat}
    (hr : r < n) (hc : c < m) : Grid.get (Grid.map f g) 0 r c = f (Grid.get g 0 r c) := by
  obtain ⟨row, e1, l1⟩ := shaped_getElem? h hr
  have e2 : (Grid.map f g)[r]? = some (row.map f) := by simp [Grid.map, e1]
  rw [get_of_row e1, get_of_row e2]
  have : c < row.length := by omega
  simp [this]

theorem shaped_zipWith (f : Int → Int → Int) {a b : Grid Int} {n m : Nat} (ha : Grid.shaped a n m = true)
    (hb : Grid.shaped b n m = true) : Grid.shaped (Grid.zipWith f a b) n m = true := by
  have la := shaped_length ha
  have lb := shaped_length hb
  apply shaped_of_rows
  · simp [Grid.zipWith, la, lb]
  · intro r row hrow
    simp only [Grid.zipWith, List.getElem?_zipWith] at hrow
    by_cases hr : r < n
    · obtain ⟨ra, e1, l1⟩ := shaped_getElem? ha hr
      obtain ⟨rb, e2, l2⟩ := shaped_getElem? hb hr
      simp [e1, e2] at hrow
      rw [← hrow]; simp [l1, l2]
    · rw [List.getElem?_eq_none (by omega)] at hrow
      simp at hrow

theorem get_zipWith (f : Int → Int → Int) {a b : Grid Int} {n m : Nat} (ha : Grid.shaped a n m = true)
    (hb : Grid.shaped b n m = true) {r c : Nat} (hr : r < n) (hc : c < m) :
    Grid.get (Grid.zipWith f a b) 0 r c = f (Grid.get a 0 r c) (Grid.get b 0 r c) := by
  obtain ⟨ra, e1, l1⟩ := shaped_getElem? ha hr
  obtain ⟨rb, e2, l2⟩ := shaped_getElem? hb hr
  have e3 : (Grid.zipWith f a b)[r]? = some (List.zipWith f ra rb) := by
    simp [Grid.zipWith, List.getElem?_zipWith, e1, e2]
  rw [get_of_row e1, get_of_row e2, get_of_row e3]
  have h1 : c < ra.length := by omega
  have h2 : c < rb.length := by omega
  simp [List.getElem?_zipWith, h1, h2]

theorem shaped_foldl_zipWith (f : Int → Int → Int) {n m : Nat} (gs : List (Grid Int)) (g0 : Grid Int)
    (h0 : Grid.shaped g0 n m = true) (hs : ∀ g ∈ gs, Grid.shaped g n m = true) :
    Grid.shaped (gs.foldl (Grid.zipWith f) g0) n m = true := by
  induction gs generalizing g0 with
  | nil => exact h0
  | cons g gs ih =>
    simp only [List.foldl_cons]
    exact ih _ (shaped_zipWith f h0 (hs g (by simp))) (fun x hx => hs x (by simp [hx]))

theorem get_foldl_zipWith (f : Int → Int → Int) {n m : Nat} (gs : List (Grid Int)) (g0 : Grid Int)
    (h0 : Grid.shaped g0 n m = true) (hs : ∀ g ∈ gs, Grid.shaped g n m = true) {r c : Nat}
    (hr : r < n) (hc : c < m) :
    Grid.get (gs.foldl (Grid.zipWith f) g0) 0 r c =
      (gs.map (fun g => Grid.get g 0 r c)).foldl f (Grid.get g0 0 r c) := by
  induction gs generalizing g0 with
  | nil => rfl
  | cons g gs ih =>
    simp only [List.foldl_cons, List.map_cons]
    rw [ih _ (shaped_zipWith f h0 (hs g (by simp))) (fun x hx => hs x (by simp [hx])),
      get_zipWith f h0 (hs g (by simp)) hr hc]

/-! ### `any`, `all` -/

theorem any_iff (P : Int → Bool) {g : Grid Int} {n m : Nat} (h : Grid.shaped g n m = true) :
    Grid.any P g = true ↔ ∃ r c, r < n ∧ c < m ∧ P (Grid.get g 0 r c) = true := by
  have hl := shaped_length h
  unfold Grid.any
  rw [List.any_eq_true]
  constructor
  · rintro ⟨row, hrow, hany⟩
    rw [List.any_eq_true] at hany
    obtain ⟨x, hx, hP⟩ := hany
    obtain ⟨r, hr⟩ := List.getElem?_of_mem hrow
    obtain ⟨c, hc⟩ := List.getElem?_of_mem hx
    have hr' : r < g.length := by
      rcases Nat.lt_or_ge r g.length with h | h
      · exact h
      · rw [List.getElem?_eq_none h] at hr; simp at hr
    obtain ⟨row', e1, l1⟩ := shaped_getElem? h (r := r) (by omega)
    have : row' = row := by rw [e1] at hr; exact Option.some.inj hr
    subst this
    have hc' : c < row'.length := by
      rcases Nat.lt_or_ge c row'.length with h | h
      · exact h
      · rw [List.getElem?_eq_none h] at hc; simp at hc
    refine ⟨r, c, by omega, by omega, ?_⟩
    rw [get_of_row e1, hc]; simpa using hP
  · rintro ⟨r, c, hr, hc, hP⟩
    obtain ⟨row, e1, l1⟩ := shaped_getElem? h hr
    refine ⟨row, List.mem_of_getElem? e1, ?_⟩
    rw [List.any_eq_true]
    rw [get_of_row e1] at hP
    have hc' : c < row.length := by omega
    refine ⟨row[c], List.getElem_mem hc', ?_⟩
    simpa [hc'] using hP

theorem all_iff (P : Int → Bool) {g : Grid Int} {n m : Nat} (h : Grid.shaped g n m = true) :
    Grid.all P g = true ↔ ∀ r c, r < n → c < m → P (Grid.get g 0 r c) = true := by
  have key : Grid.all P g = !(Grid.any (fun v => !(P v)) g) := by
    unfold Grid.all Grid.any
    simp [List.all_eq_not_any_not]
  rw [key]
  have := any_iff (fun v => !(P v)) h
  constructor
  · intro hn r c hr hc
    cases hP : P (Grid.get g 0 r c) with
    | true => rfl
    | false =>
      have : Grid.any (fun v => !(P v)) g = true := this.2 ⟨r, c, hr, hc, by simp [hP]⟩
      simp [this] at hn
  · intro ha
    cases hany : Grid.any (fun v => !(P v)) g with
    | false => rfl
    | true =>
      obtain ⟨r, c, hr, hc, hP⟩ := this.1 hany
      have := ha r c hr hc
      simp [this] at hP

/-! ### `set` -/

theorem get_set {g : Grid Int} {n m : Nat} (h : Grid.shaped g n m = true) {r c r' c' : Nat}
    (hr : r < n) (hc : c < m) (hr' : r' < n) (_hc' : c' < m) (v : Int) :
    Grid.get (Grid.set g r c v) 0 r' c' = if r' = r ∧ c' = c then v else Grid.get g 0 r' c' := by
  obtain ⟨row, e1, l1⟩ := shaped_getElem? h hr
  obtain ⟨row', e2, l2⟩ := shaped_getElem? h hr'
  have hl := shaped_length h
  unfold Grid.set
  simp only [e1]
  by_cases hrr : r' = r
  · subst hrr
    have : row' = row := by rw [e1] at e2; exact (Option.some.inj e2).symm
    subst this
    have e3 : (List.set g r' (List.set row' c v))[r']? = some (List.set row' c v) := by
      simp [hl, hr]
    rw [get_of_row e3, get_of_row e1]
    by_cases hcc : c' = c
    · subst hcc; simp [l1, hc]
    · have : ¬ c = c' := fun e => hcc e.symm
      simp [hcc, this]
  · have e3 : (List.set g r (List.set row c v))[r']? = some row' := by
      have : ¬ r = r' := fun e => hrr e.symm
      simp [this, e2]
    rw [get_of_row e3, get_of_row e2]
    simp [hrr]

/-! ### cells addressed by positions -/

theorem inGrid_toNat {n : Nat} {p : Pos} (hp : inGrid n p) : p.1.toNat < n ∧ p.2.toNat < n := by
  obtain ⟨h1, h2, h3, h4⟩ := hp; omega

theorem inGrid_of_nat {n r c : Nat} (hr : r < n) (hc : c < n) : inGrid n ((r : Int), (c : Int)) := by
  unfold inGrid; simp; omega

theorem cell_of_nat (g : Grid Int) (r c : Nat) : cell g ((r : Int), (c : Int)) = Grid.get g 0 r c := by
  simp [cell]

theorem pos_eq_of_toNat {n : Nat} {p q : Pos} (hp : inGrid n p) (hq : inGrid n q)
    (h1 : q.1.toNat = p.1.toNat) (h2 : q.2.toNat = p.2.toNat) : q = p := by
  obtain ⟨a1, a2, a3, a4⟩ := hp
  obtain ⟨b1, b2, b3, b4⟩ := hq
  apply Prod.ext <;> omega

theorem grid_ext_cell {g g' : Grid Int} {n : Nat} (h : Grid.shaped g n n = true) (h' : Grid.shaped g' n n = true)
    (e : ∀ q, inGrid n q → cell g q = cell g' q) : g = g' := by
  apply grid_ext h h'
  intro r c hr hc
  have := e _ (inGrid_of_nat hr hc)
  simpa [cell_of_nat] using this

theorem cell_setCell {g : Grid Int} {n : Nat} (h : Grid.shaped g n n = true) {p q : Pos}
    (hp : inGrid n p) (hq : inGrid n q) (v : Int) :
    cell (setCell g p v) q = if q = p then v else cell g q := by
  obtain ⟨p1, p2⟩ := inGrid_toNat hp
  obtain ⟨q1, q2⟩ := inGrid_toNat hq
  unfold cell setCell
  rw [get_set h p1 p2 q1 q2]
  by_cases e : q = p
  · subst e; simp
  · have : ¬ (q.1.toNat = p.1.toNat ∧ q.2.toNat = p.2.toNat) := fun ⟨a, b⟩ => e (pos_eq_of_toNat hp hq a b)
    simp [this, e]

theorem cell_map (f : Int → Int) {g : Grid Int} {n : Nat} (h : Grid.shaped g n n = true) {q : Pos}
    (hq : inGrid n q) : cell (Grid.map f g) q = f (cell g q) := by
  obtain ⟨q1, q2⟩ := inGrid_toNat hq
  exact get_map f h q1 q2

theorem cell_zipWith (f : Int → Int → Int) {a b : Grid Int} {n : Nat} (ha : Grid.shaped a n n = true)
    (hb : Grid.shaped b n n = true) {q : Pos} (hq : inGrid n q) :
    cell (Grid.zipWith f a b) q = f (cell a q) (cell b q) := by
  obtain ⟨q1, q2⟩ := inGrid_toNat hq
  exact get_zipWith f ha hb q1 q2

theorem cell_foldl_zipWith (f : Int → Int → Int) {n : Nat} (gs : List (Grid Int)) (g0 : Grid Int)
    (h0 : Grid.shaped g0 n n = true) (hs : ∀ g ∈ gs, Grid.shaped g n n = true) {q : Pos} (hq : inGrid n q) :
    cell (gs.foldl (Grid.zipWith f) g0) q = (gs.map (fun g => cell g q)).foldl f (cell g0 q) := by
  obtain ⟨q1, q2⟩ := inGrid_toNat hq
  exact get_foldl_zipWith f gs g0 h0 hs q1 q2

theorem any_iff_cell (P : Int → Bool) {g : Grid Int} {n : Nat} (h : Grid.shaped g n n = true) :
    Grid.any P g = true ↔ ∃ q, inGrid n q ∧ P (cell g q) = true := by
  rw [any_iff P h]
  constructor
  · rintro ⟨r, c, hr, hc, hP⟩
    exact ⟨((r : Int), (c : Int)), inGrid_of_nat hr hc, by rw [cell_of_nat]; exact hP⟩
  · rintro ⟨q, hq, hP⟩
    obtain ⟨q1, q2⟩ := inGrid_toNat hq
    exact ⟨q.1.toNat, q.2.toNat, q1, q2, hP⟩

theorem all_iff_cell (P : Int → Bool) {g : Grid Int} {n : Nat} (h : Grid.shaped g n n = true) :
    Grid.all P g = true ↔ ∀ q, inGrid n q → P (cell g q) = true := by
  rw [all_iff P h]
  constructor
  · intro ha q hq
    obtain ⟨q1, q2⟩ := inGrid_toNat hq
    exact ha _ _ q1 q2
  · intro ha r c hr hc
    have := ha _ (inGrid_of_nat hr hc)
    rwa [cell_of_nat] at this

/-! ### `count` -/

theorem filter_len_zero_iff {α} (P : α → Bool) (l : List α) :
    (l.filter P).length = 0 ↔ ∀ (i : Nat) (x : α), l[i]? = some x → P x = false := by
  rw [List.length_eq_zero_iff, List.filter_eq_nil_iff]
  constructor
  · intro h i x hx
    have := h x (List.mem_of_getElem? hx)
    simpa using this
  · intro h x hx
    obtain ⟨i, hi⟩ := List.getElem?_of_mem hx
    simp [h i x hi]

theorem filter_len_one_iff {α} (P : α → Bool) (l : List α) :
    (l.filter P).length = 1 ↔
      ∃ (i : Nat) (x : α), l[i]? = some x ∧ P x = true ∧ ∀ (j : Nat) (y : α), l[j]? = some y → P y = true → j = i := by
  induction l with
  | nil => simp
  | cons a l ih =>
    cases hP : P a with
    | true =>
      rw [List.filter_cons_of_pos hP]
      simp only [List.length_cons]
      rw [show ((List.filter P l).length + 1 = 1) ↔ ((List.filter P l).length = 0) by omega, filter_len_zero_iff]
      constructor
      · intro h
        refine ⟨0, a, by simp, hP, ?_⟩
        intro j y hj hy
        cases j with
        | zero => rfl
        | succ j =>
          simp at hj
          have := h j y hj
          simp [this] at hy
      · rintro ⟨i, x, hi, hx, huniq⟩ j y hj
        have h0 := huniq 0 a (by simp) hP
        cases hy : P y with
        | false => rfl
        | true =>
          have := huniq (j + 1) y (by simpa using hj) hy
          omega
    | false =>
      rw [List.filter_cons_of_neg (by simp [hP]), ih]
      constructor
      · rintro ⟨i, x, hi, hx, huniq⟩
        refine ⟨i + 1, x, by simpa using hi, hx, ?_⟩
        intro j y hj hy
        cases j with
        | zero => simp at hj; subst hj; simp [hP] at hy
        | succ j =>
          simp at hj
          have := huniq j y hj hy
          omega
      · rintro ⟨i, x, hi, hx, huniq⟩
        cases i with
        | zero => simp at hi; subst hi; simp [hP] at hx
        | succ i =>
          refine ⟨i, x, by simpa using hi, hx, ?_⟩
          intro j y hj hy
          have := huniq (j + 1) y (by simpa using hj) hy
          omega

theorem count_cons (P : Int → Bool) (row : List Int) (g : Grid Int) :
    Grid.count P (row :: g) = (row.filter P).length + Grid.count P g := by
  simp [Grid.count]

theorem count_zero_iff_rows (P : Int → Bool) (g : Grid Int) :
    Grid.count P g = 0 ↔ ∀ (r : Nat) (row : List Int), g[r]? = some row → (row.filter P).length = 0 := by
  induction g with
  | nil => simp [Grid.count]
  | cons a g ih =>
    rw [count_cons]
    constructor
    · intro h r row hr
      cases r with
      | zero => simp at hr; subst hr; omega
      | succ r => simp at hr; exact (ih.1 (by omega)) r row hr
    · intro h
      have h0 := h 0 a (by simp)
      have := ih.2 (fun r row hr => h (r + 1) row (by simpa using hr))
      omega

theorem count_one_iff_rows (P : Int → Bool) (g : Grid Int) :
    Grid.count P g = 1 ↔ ∃ (r : Nat) (row : List Int), g[r]? = some row ∧ (row.filter P).length = 1 ∧
      ∀ (r' : Nat) (row' : List Int), g[r']? = some row' → r' ≠ r → (row'.filter P).length = 0 := by
  induction g with
  | nil => simp [Grid.count]
  | cons a g ih =>
    rw [count_cons]
    constructor
    · intro h
      rcases Nat.eq_zero_or_pos (a.filter P).length with h0 | h0
      · have h1 : Grid.count P g = 1 := by omega
        obtain ⟨r, row, hr, hrow, hu⟩ := ih.1 h1
        refine ⟨r + 1, row, by simpa using hr, hrow, ?_⟩
        intro r' row' hr' hne
        cases r' with
        | zero => simp at hr'; subst hr'; exact h0
        | succ r' => simp at hr'; exact hu r' row' hr' (by omega)
      · have h1 : (a.filter P).length = 1 := by omega
        have h2 : Grid.count P g = 0 := by omega
        refine ⟨0, a, by simp, h1, ?_⟩
        intro r' row' hr' hne
        cases r' with
        | zero => exact absurd rfl hne
        | succ r' => simp at hr'; exact (count_zero_iff_rows P g).1 h2 r' row' hr'
    · rintro ⟨r, row, hr, hrow, hu⟩
      cases r with
      | zero =>
        simp at hr; subst hr
        have : Grid.count P g = 0 :=
          (count_zero_iff_rows P g).2 (fun r' row' hr' => hu (r' + 1) row' (by simpa using hr') (by omega))
        omega
      | succ r =>
        simp at hr
        have h0 := hu 0 a (by simp) (by omega)
        have : Grid.count P g = 1 :=
          ih.2 ⟨r, row, hr, hrow, fun r' row' hr' hne => hu (r' + 1) row' (by simpa using hr') (by omega)⟩
        omega

theorem count_zero_iff (P : Int → Bool) {g : Grid Int} {n : Nat} (h : Grid.shaped g n n = true) :
    Grid.count P g = 0 ↔ ∀ q, inGrid n q → P (cell g q) = false := by
  have hl := shaped_length h
  rw [count_zero_iff_rows]
  constructor
  · intro h0 q hq
    obtain ⟨q1, q2⟩ := inGrid_toNat hq
    obtain ⟨row, e1, l1⟩ := shaped_getElem? h q1
    have := (filter_len_zero_iff P row).1 (h0 _ row e1) q.2.toNat (row[q.2.toNat]'(by omega))
      (List.getElem?_eq_getElem (by omega))
    unfold cell; rw [get_of_row e1]
    simpa [show q.2.toNat < row.length by omega] using this
  · intro h0 r row hr
    have hr' : r < n := by
      rcases Nat.lt_or_ge r g.length with h | h
      · omega
      · rw [List.getElem?_eq_none h] at hr; simp at hr
    obtain ⟨row', e1, l1⟩ := shaped_getElem? h hr'
    have : row' = row := by rw [e1] at hr; exact Option.some.inj hr
    subst this
    rw [filter_len_zero_iff]
    intro c x hc
    have hc' : c < n := by
      rcases Nat.lt_or_ge c row'.length with h | h
      · omega
      · rw [List.getElem?_eq_none h] at hc; simp at hc
    have := h0 _ (inGrid_of_nat hr' hc')
    rw [cell_of_nat, get_of_row e1, hc] at this
    simpa using this

/-- exactly one cell satisfies `P`: it is the cell `p`, and every cell satisfying `P` is `p` -/
theorem count_one_iff (P : Int → Bool) {g : Grid Int} {n : Nat} (h : Grid.shaped g n n = true) :
    Grid.count P g = 1 ↔ ∃ p, inGrid n p ∧ P (cell g p) = true ∧ ∀ q, inGrid n q → P (cell g q) = true → q = p := by
  have hl := shaped_length h
  rw [count_one_iff_rows]
  constructor
  · rintro ⟨r, row, hr, hrow, hu⟩
    have hr' : r < n := by
      rcases Nat.lt_or_ge r g.length with h | h
      · omega
      · rw [List.getElem?_eq_none h] at hr; simp at hr
    have hlen : row.length = n := by
      obtain ⟨row', e1, l1⟩ := shaped_getElem? h hr'
      have : row' = row := by rw [e1] at hr; exact Option.some.inj hr
      subst this; exact l1
    obtain ⟨c, x, hc, hx, hcu⟩ := (filter_len_one_iff P row).1 hrow
    have hc' : c < n := by
      rcases Nat.lt_or_ge c row.length with h | h
      · omega
      · rw [List.getElem?_eq_none h] at hc; simp at hc
    refine ⟨((r : Int), (c : Int)), inGrid_of_nat hr' hc', ?_, ?_⟩
    · rw [cell_of_nat, get_of_row hr, hc]; simpa using hx
    · intro q hq hPq
      obtain ⟨q1, q2⟩ := inGrid_toNat hq
      obtain ⟨rowq, e1, l1⟩ := shaped_getElem? h q1
      have hP' : P (rowq[q.2.toNat]?.getD 0) = true := by
        have := hPq; unfold cell at this; rwa [get_of_row e1] at this
      have hq2 : q.2.toNat < rowq.length := by omega
      have hrq : q.1.toNat = r := by
        by_cases e : q.1.toNat = r
        · exact e
        · have := (filter_len_zero_iff P rowq).1 (hu _ rowq e1 e) q.2.toNat (rowq[q.2.toNat])
            (List.getElem?_eq_getElem hq2)
          simp [hq2] at hP'
          simp [hP'] at this
      have : rowq = row := by rw [hrq, hr] at e1; exact (Option.some.inj e1).symm
      subst this
      have hcq := hcu q.2.toNat (rowq[q.2.toNat]) (List.getElem?_eq_getElem hq2) (by simpa [hq2] using hP')
      obtain ⟨b1, b2, b3, b4⟩ := hq
      apply Prod.ext <;> simp <;> omega
  · rintro ⟨p, hp, hPp, hu⟩
    obtain ⟨p1, p2⟩ := inGrid_toNat hp
    obtain ⟨row, e1, l1⟩ := shaped_getElem? h p1
    refine ⟨p.1.toNat, row, e1, ?_, ?_⟩
    · rw [filter_len_one_iff]
      have hp2 : p.2.toNat < row.length := by omega
      refine ⟨p.2.toNat, row[p.2.toNat], List.getElem?_eq_getElem hp2, ?_, ?_⟩
      · have := hPp; unfold cell at this; rw [get_of_row e1] at this; simpa [hp2] using this
      · intro j y hj hy
        have hj' : j < n := by
          rcases Nat.lt_or_ge j row.length with h | h
          · omega
          · rw [List.getElem?_eq_none h] at hj; simp at hj
        have hq : inGrid n (p.1, (j : Int)) := by
          obtain ⟨a1, a2, a3, a4⟩ := hp
          unfold inGrid; simp; omega
        have := hu _ hq (by unfold cell; rw [show (p.1, (j : Int)).1.toNat = p.1.toNat from rfl, get_of_row e1]; simp [hj, hy])
        have := congrArg (fun x : Pos => x.2.toNat) this
        simpa using this
    · intro r' row' hr' hne
      have hr'' : r' < n := by
        rcases Nat.lt_or_ge r' g.length with h | h
        · omega
        · rw [List.getElem?_eq_none h] at hr'; simp at hr'
      rw [filter_len_zero_iff]
      intro c x hc
      cases hx : P x with
      | false => rfl
      | true =>
        have hlen : row'.length = n := by
          obtain ⟨row'', e2, l2⟩ := shaped_getElem? h hr''
          have : row'' = row' := by rw [e2] at hr'; exact Option.some.inj hr'
          subst this; exact l2
        have hc' : c < n := by
          rcases Nat.lt_or_ge c row'.length with h | h
          · omega
          · rw [List.getElem?_eq_none h] at hc; simp at hc
        have := hu _ (inGrid_of_nat hr'' hc') (by rw [cell_of_nat, get_of_row hr', hc]; simpa using hx)
        have := congrArg (fun x : Pos => x.1.toNat) this
        simp at this
        exact absurd this hne

end Connector
