/- Whole episodes of the implementation model (`traceL1`) are the episodes of the rules (`traceL2`); the trace
theorems restated over L1; completion by a LAST step; the reaction of a joint step, agent by agent. -/
import JumanjiModel.Env.Connector.EpisodeLemmas
namespace Connector
open Jm Jx

/-! ### `traceL1 = traceL2` -/

theorem trace_eq (cfg : Cfg) (hk : 0 < cfg.k) (actss : List (List Int))
    (hspec : ∀ acts ∈ actss, acts.length = cfg.k ∧ ∀ a ∈ acts, 0 ≤ a ∧ a ≤ 4) (s0 : State)
    (hc : Consistent cfg.n cfg.k s0) : traceL1 cfg s0 actss = traceL2 cfg s0 actss := by
  induction actss generalizing s0 with
  | nil => rfl
  | cons acts rest ih =>
    have sp := hspec acts (by simp)
    have hstep := step_consistent cfg s0 acts hc hk sp.1 sp.2
    simp only [traceL1, traceL2]
    rw [ih (fun a ha => hspec a (by simp [ha])) _ hstep, step_eq_stepL2 cfg s0 acts hc hk sp.1 sp.2]

theorem final_eq (cfg : Cfg) (hk : 0 < cfg.k) (actss : List (List Int))
    (hspec : ∀ acts ∈ actss, acts.length = cfg.k ∧ ∀ a ∈ acts, 0 ≤ a ∧ a ≤ 4) (s0 : State)
    (hc : Consistent cfg.n cfg.k s0) : finalL1 cfg s0 actss = finalL2 cfg s0 actss := by
  induction actss generalizing s0 with
  | nil => rfl
  | cons acts rest ih =>
    have sp := hspec acts (by simp)
    have hstep := step_consistent cfg s0 acts hc hk sp.1 sp.2
    simp only [finalL1, finalL2]
    rw [ih (fun a ha => hspec a (by simp [ha])) _ hstep, step_eq_stepL2 cfg s0 acts hc hk sp.1 sp.2]

theorem traceL1_getLast (cfg : Cfg) (s : State) (actss : List (List Int)) :
    (traceL1 cfg s actss).getLast? = some (finalL1 cfg s actss) := by
  induction actss generalizing s with
  | nil => rfl
  | cons a rest ih =>
    simp only [traceL1, finalL1]
    have := ih (step cfg s a).1
    cases h : traceL1 cfg (step cfg s a).1 rest with
    | nil => rw [h] at this; simp at this
    | cons x xs => rw [h] at this; rw [List.getLast?_cons_cons]; exact this

/-- C06 along whole episodes of the implementation model -/
theorem feasible_along_L1 (cfg : Cfg) (hk : 0 < cfg.k) (actss : List (List Int))
    (hspec : ∀ acts ∈ actss, acts.length = cfg.k ∧ ∀ a ∈ acts, 0 ≤ a ∧ a ≤ 4) (s0 : State)
    (hf : Feasible cfg.n cfg.k s0) : ∀ s ∈ traceL1 cfg s0 actss, Feasible cfg.n cfg.k s := by
  rw [trace_eq cfg hk actss hspec s0 (feasible_consistent hf)]
  exact feasible_along cfg hk actss hspec s0 hf

theorem consistent_along_L1 (cfg : Cfg) (hk : 0 < cfg.k) (actss : List (List Int))
    (hspec : ∀ acts ∈ actss, acts.length = cfg.k ∧ ∀ a ∈ acts, 0 ≤ a ∧ a ≤ 4) (s0 : State)
    (hc : Consistent cfg.n cfg.k s0) : ∀ s ∈ traceL1 cfg s0 actss, Consistent cfg.n cfg.k s := by
  rw [trace_eq cfg hk actss hspec s0 hc]
  exact consistent_along cfg hk actss hspec s0 hc

/-- C08 over the implementation model's own trace -/
theorem episode_return_L1 (cfg : Cfg) (hk : 0 < cfg.k) (actss : List (List Int))
    (hspec : ∀ acts ∈ actss, acts.length = cfg.k ∧ ∀ a ∈ acts, 0 ≤ a ∧ a ≤ 4) (s0 : State)
    (hc : Consistent cfg.n cfg.k s0) {i : Nat} (hi : i < cfg.k) :
    returnL1 cfg s0 actss i = objectiveOf cfg (traceL1 cfg s0 actss) i := by
  rw [trace_eq cfg hk actss hspec s0 hc]
  exact episode_return_eq_objective cfg hk actss hspec s0 hc hi

/-! ### completion: a LAST step before the time limit with no blocked agent ends in a complete solution -/

theorem mask_drop_any {g : Grid Int} {ag : Agent} (h : ((agentMask g ag).drop 1).any id = false) (a : Nat)
    (h1 : 1 ≤ a) (h4 : a ≤ 4) : (agentMask g ag).getD a false = false := by
  unfold agentMask at h ⊢
  simp only [List.drop_one, List.tail_cons, List.map_cons, List.map_nil, List.any_cons, List.any_nil, id,
    Bool.or_false, Bool.or_eq_false_iff] at h
  obtain ⟨a1, a2, a3, a4⟩ := h
  have : a = 1 ∨ a = 2 ∨ a = 3 ∨ a = 4 := by omega
  rcases this with rfl | rfl | rfl | rfl <;> simp [a1, a2, a3, a4]

theorem step_complete_is_solution (cfg : Cfg) (s : State) (acts : List Int) (hf : Feasible cfg.n cfg.k s)
    (hk : 0 < cfg.k) (hlen : acts.length = cfg.k) (hspec : ∀ a ∈ acts, 0 ≤ a ∧ a ≤ 4)
    (hlast : (step cfg s acts).2.stepType = .last)
    (hlim : (step cfg s acts).1.stepCount < cfg.timeLimit)
    (hnb : ∀ (i : Nat) ag, (step cfg s acts).1.agents[i]? = some ag → ¬ isConnected ag →
      ∃ a, 1 ≤ a ∧ a ≤ 4 ∧ legal cfg.n (step cfg s acts).1 i a) :
    solutionB cfg.n cfg.k (step cfg s acts).1 = true ∧
      ∀ (i : Nat) ag, (step cfg s acts).1.agents[i]? = some ag →
        ∃ r, GoodRoute cfg.n (step cfg s acts).1.grid i ag.start ag.target r := by
  have hf' := step_feasible cfg s acts hf hk hlen hspec
  have hc' := (consistent_iff _ _ _).1 (feasible_consistent hf')
  apply complete_is_solution hf'
  intro ag hag
  obtain ⟨i, hi⟩ := List.getElem?_of_mem hag
  rcases (last_iff cfg s acts).1 hlast with hall | hl
  · by_cases hcon : isConnected ag
    · exact hcon
    · exfalso
      have hilt := lt_of_getElem? hi
      have hm : (actionMask (step cfg s acts).1.grid (step cfg s acts).1.agents)[i]? =
          some (agentMask (step cfg s acts).1.grid ag) := by
        simp [actionMask, List.getElem?_map, hi]
      have hcb := all_zipWith_get _ _ _ hall hi hm
      unfold connectedOrBlocked at hcb
      have hnc : ag.connected = false := by
        cases h : ag.connected with
        | false => rfl
        | true => exact absurd ((connected_iff ag).1 h) hcon
      rw [hnc] at hcb
      simp only [Bool.false_or, Bool.not_eq_true'] at hcb
      obtain ⟨a, h1, h4, hleg⟩ := hnb i ag hi hcon
      have hmask := (mask_iff_legal (step cfg s acts).1 hc'.shaped i a hilt (by omega)).2 hleg
      have e : (actionMask (step cfg s acts).1.grid (step cfg s acts).1.agents).getD i [] =
          agentMask (step cfg s acts).1.grid ag := by
        rw [List.getD_eq_getElem?_getD, hm]; rfl
      rw [e, mask_drop_any hcb a h1 h4] at hmask
      exact Bool.noConfusion hmask
  · omega

/-! ### C04: the reaction of the joint step, agent by agent -/

/-- a higher-ranked agent asks for the cell `p` with a legal move -/
def outranked (n : Nat) (s : State) (acts : List Int) (i : Nat) (p : Pos) : Prop :=
  ∃ (j : Nat) (agj : Agent) (aj : Int), i < j ∧ s.agents[j]? = some agj ∧ acts[j]? = some aj ∧ aj ≠ 0 ∧
    legalInt n s j aj = true ∧ movePosition agj.position aj = p

theorem proposal_iff {n : Nat} {s : State} {i : Nat} {ag : Agent} (hag : s.agents[i]? = some ag) {a : Int}
    (h0 : 0 ≤ a) (h4 : a ≤ 4) (p : Pos) :
    proposal n s.grid ag a = some p ↔ (a ≠ 0 ∧ legalInt n s i a = true ∧ movePosition ag.position a = p) := by
  have : a = 0 ∨ a = 1 ∨ a = 2 ∨ a = 3 ∨ a = 4 := by omega
  rcases this with rfl | rfl | rfl | rfl | rfl <;>
    simp [proposal, dir, legalInt, legal, hag, movePosition, Int.sub_eq_add_neg]

theorem step_reaction (cfg : Cfg) (s : State) (acts : List Int) (hc : Consistent cfg.n cfg.k s) (hk : 0 < cfg.k)
    (hlen : acts.length = cfg.k) (hspec : ∀ a ∈ acts, 0 ≤ a ∧ a ≤ 4) {i : Nat} {ag : Agent} {a : Int}
    (hag : s.agents[i]? = some ag) (ha : acts[i]? = some a) :
    ((a ≠ 0 ∧ legalInt cfg.n s i a = true ∧ ¬ outranked cfg.n s acts i (movePosition ag.position a)) →
      (step cfg s acts).1.agents[i]? = some { ag with position := movePosition ag.position a }) ∧
    (¬ (a ≠ 0 ∧ legalInt cfg.n s i a = true ∧ ¬ outranked cfg.n s acts i (movePosition ag.position a)) →
      (step cfg s acts).1.agents[i]? = some ag) := by
  have x := ctx_of hc hk hlen hspec
  have hstep : (step cfg s acts).1.agents[i]? = some (moved ag (wins (propsOf cfg.n s acts) i)) := by
    rw [step_eq_stepL2 cfg s acts hc hk hlen hspec]
    exact l2_agent_fwd x hag
  have hsp := x.aspec ha
  have hwin : ∀ p, wins (propsOf cfg.n s acts) i = some p ↔
      (a ≠ 0 ∧ legalInt cfg.n s i a = true ∧ movePosition ag.position a = p ∧ ¬ outranked cfg.n s acts i p) := by
    intro p
    rw [wins_some_iff, props_get hag ha]
    constructor
    · rintro ⟨h1, h2⟩
      have h1' := (proposal_iff hag hsp.1 hsp.2 p).1 (Option.some.inj h1)
      refine ⟨h1'.1, h1'.2.1, h1'.2.2, ?_⟩
      rintro ⟨j, agj, aj, hij, hagj, haj, hne, hleg, hmv⟩
      apply h2 j hij
      rw [props_get hagj haj]
      have spj := x.aspec haj
      rw [(proposal_iff hagj spj.1 spj.2 p).2 ⟨hne, hleg, hmv⟩]
    · rintro ⟨h1, h2, h3, h4⟩
      refine ⟨by rw [(proposal_iff hag hsp.1 hsp.2 p).2 ⟨h1, h2, h3⟩], ?_⟩
      intro j hij hj
      obtain ⟨agj, aj, hagj, haj, hP⟩ := props_inv hj
      have spj := x.aspec haj
      have := (proposal_iff hagj spj.1 spj.2 p).1 hP
      exact h4 ⟨j, agj, aj, hij, hagj, haj, this.1, this.2.1, this.2.2⟩
  constructor
  · rintro ⟨h1, h2, h3⟩
    rw [hstep, (hwin _).2 ⟨h1, h2, rfl, h3⟩]
    rfl
  · intro hn
    rw [hstep]
    cases hw : wins (propsOf cfg.n s acts) i with
    | none => rfl
    | some p =>
      exfalso
      obtain ⟨h1, h2, h3, h4⟩ := (hwin p).1 hw
      subst h3
      exact hn ⟨h1, h2, h4⟩

/-- the agent ends on the cell it asked for iff its move is legal and no higher-ranked agent asks for that cell -/
theorem step_reaction_iff (cfg : Cfg) (s : State) (acts : List Int) (hc : Consistent cfg.n cfg.k s) (hk : 0 < cfg.k)
    (hlen : acts.length = cfg.k) (hspec : ∀ a ∈ acts, 0 ≤ a ∧ a ≤ 4) {i : Nat} {ag : Agent} {a : Int}
    (hag : s.agents[i]? = some ag) (ha : acts[i]? = some a) (hne : a ≠ 0) :
    (step cfg s acts).1.agents[i]? = some { ag with position := movePosition ag.position a } ↔
      (legalInt cfg.n s i a = true ∧ ¬ outranked cfg.n s acts i (movePosition ag.position a)) := by
  obtain ⟨r1, r2⟩ := step_reaction cfg s acts hc hk hlen hspec hag ha
  constructor
  · intro h
    by_cases hcnd : a ≠ 0 ∧ legalInt cfg.n s i a = true ∧ ¬ outranked cfg.n s acts i (movePosition ag.position a)
    · exact hcnd.2
    · exfalso
      have h' := r2 hcnd
      rw [h] at h'
      have e := Option.some.inj h'
      have epos : movePosition ag.position a = ag.position := by
        have := congrArg Agent.position e
        simpa using this
      have sp := hspec a (List.mem_of_getElem? ha)
      have : a = 1 ∨ a = 2 ∨ a = 3 ∨ a = 4 := by omega
      have e1 := congrArg Prod.fst epos
      have e2 := congrArg Prod.snd epos
      rcases this with rfl | rfl | rfl | rfl <;> simp [movePosition] at e1 e2 <;> omega
  · intro h
    exact r1 ⟨hne, h.1, h.2⟩

/-! ### the solving episode of a route plan under the implementation model -/

theorem plan_trace_eq (cfg : Cfg) (s0 : State) (routes : List (List Pos)) (P : Plan cfg.n cfg.k s0 routes) :
    traceL1 cfg s0 (planActs cfg.k routes) = traceL2 cfg s0 (planActs cfg.k routes) ∧
    finalL1 cfg s0 (planActs cfg.k routes) = finalL2 cfg s0 (planActs cfg.k routes) := by
  rcases Nat.eq_zero_or_pos cfg.k with h0 | hk
  · have : planActs cfg.k routes = [] := by unfold planActs; rw [h0]; rfl
    rw [this]; exact ⟨rfl, rfl⟩
  · have hc := (consistent_iff _ _ _).2 P.cons
    exact ⟨trace_eq cfg hk _ (plan_spec cfg s0 routes P) s0 hc, final_eq cfg hk _ (plan_spec cfg s0 routes P) s0 hc⟩

end Connector
