/-
C01 for Connector: value bounds of every observation leaf (`grid`, `action_mask`, `step_count`), as functions
of the configuration only, and the proofs that the model's reset / step observations stay inside them.

`grid`: every cell of the grid returned by `step` is `max_j agentCell j (…) + Σ_j correction_j`, with
`agentCell j _ ∈ {0, 1+3j, 2+3j, 3+3j}` and at most one correction (a cell holds the head value of at most
one agent), and a corrected cell (old value a head, `≡ 2 mod 3`) cannot hold a target value in any agent grid,
hence within `[0, 3·k]` — for EVERY state (no invariant needed), every joint action.  `3·k` is the target
value of the last agent, so the bound is attained.  (The declared maximum is `3·k + 2`.)
-/
import JumanjiModel.Env.Connector.Lemmas
namespace Connector
open Jm Jx

/-! ### the common C01 form -/

/-- interval membership; `none` = unbounded on that side -/
def inIv (lo hi : Option Rat) (v : Rat) : Prop := (∀ l, lo = some l → l ≤ v) ∧ (∀ h, hi = some h → v ≤ h)

/-- the numeric leaves of an observation: dotted path of the leaf in the real `observation_spec` ↦ all its
entries (bool: 0 / 1) -/
def obsLeaves (o : Obs) : List (String × List Rat) :=
  [("grid", (List.flatten o.grid).map (fun (v : Int) => (v : Rat))),
   ("action_mask", (List.flatten o.actionMask).map (fun b => if b then (1 : Rat) else 0)),
   ("step_count", [(o.stepCount : Rat)])]

/-- every entry of every leaf listed in `bs` lies within the interval `bs` gives for it -/
def ObsInBounds (bs : List (String × Option Rat × Option Rat)) (o : Obs) : Prop :=
  ∀ p ∈ obsLeaves o, ∀ b ∈ bs, b.1 = p.1 → ∀ v ∈ p.2, inIv b.2.1 b.2.2 v

/-- C01: the intervals in which the model's observation values provably stay -/
def obsBounds (cfg : Cfg) : List (String × Option Rat × Option Rat) :=
  [("grid", some 0, some ((3 * (cfg.k : Int) : Int) : Rat)),
   ("action_mask", some 0, some 1),
   ("step_count", some 0, some (cfg.timeLimit : Rat))]

/-- every leaf of the observation has an entry in `obsBounds` -/
theorem obsBounds_cover (cfg : Cfg) (o : Obs) : (obsLeaves o).map (·.1) = (obsBounds cfg).map (·.1) := rfl

/-! ### cell-wise predicates on grids -/

def AllP (P : Int → Prop) (g : Grid Int) : Prop := ∀ r ∈ g, ∀ v ∈ r, P v

theorem list_zipWith_all {α β γ} {P : α → Prop} {Q : β → Prop} {R : γ → Prop} {f : α → β → γ}
    (h : ∀ x y, P x → Q y → R (f x y)) :
    ∀ (a : List α) (b : List β), (∀ x ∈ a, P x) → (∀ y ∈ b, Q y) → ∀ z ∈ List.zipWith f a b, R z := by
  intro a
  induction a with
  | nil => intro b _ _ z hz; simp at hz
  | cons x a ih =>
    intro b ha hb z hz
    cases b with
    | nil => simp at hz
    | cons y b =>
      simp only [List.zipWith_cons_cons, List.mem_cons] at hz
      rcases hz with hz | hz
      · rw [hz]; exact h x y (ha x (by simp)) (hb y (by simp))
      · exact ih b (fun x hx => ha x (by simp [hx])) (fun y hy => hb y (by simp [hy])) z hz

theorem allP_zipWith {P Q R : Int → Prop} {f : Int → Int → Int} (h : ∀ x y, P x → Q y → R (f x y))
    (a b : Grid Int) (ha : AllP P a) (hb : AllP Q b) : AllP R (Grid.zipWith f a b) := by
  unfold AllP Grid.zipWith
  exact list_zipWith_all (P := fun r => ∀ v ∈ r, P v) (Q := fun r => ∀ v ∈ r, Q v) (R := fun r => ∀ v ∈ r, R v)
    (fun x y hx hy => list_zipWith_all h x y hx hy) a b ha hb

theorem allP_map {P : Int → Prop} (f : Int → Int) (h : ∀ v, P (f v)) (g : Grid Int) : AllP P (Grid.map f g) := by
  unfold AllP Grid.map
  intro r hr v hv
  simp only [List.mem_map] at hr
  obtain ⟨r0, _, rfl⟩ := hr
  simp only [List.mem_map] at hv
  obtain ⟨v0, _, rfl⟩ := hv
  exact h v0

theorem allP_flatten {P : Int → Prop} {g : Grid Int} (h : AllP P g) : ∀ v ∈ List.flatten g, P v := by
  intro v hv
  simp only [List.mem_flatten] at hv
  obtain ⟨r, hr, hv⟩ := hv
  exact h r hr v hv

/-! ### the joined agent grids: cells in `[0, 3k]` -/

theorem agentCell_range (k : Nat) (id : Int) (h0 : 0 ≤ id) (hk : id < (k : Int)) (v : Int) :
    0 ≤ agentCell id v ∧ agentCell id v ≤ 3 * (k : Int) := by
  unfold agentCell posVal tgtVal pathVal
  repeat' split
  all_goals omega

theorem mem_agentIds {k : Nat} {id : Int} (h : id ∈ agentIds k) : 0 ≤ id ∧ id < (k : Int) := by
  unfold agentIds at h
  simp only [List.mem_map, List.mem_range] at h
  obtain ⟨i, hi, rfl⟩ := h
  omega

theorem foldl_max_allP {P : Int → Prop} (hmax : ∀ x y, P x → P y → P (max x y)) :
    ∀ (gs : List (Grid Int)) (g : Grid Int), AllP P g → (∀ g' ∈ gs, AllP P g') →
      AllP P (gs.foldl (Grid.zipWith max) g) := by
  intro gs
  induction gs with
  | nil => intro g hg _; exact hg
  | cons g' gs ih =>
    intro g hg hgs
    simp only [List.foldl_cons]
    exact ih _ (allP_zipWith hmax g g' hg (hgs g' (by simp))) (fun g'' h'' => hgs g'' (by simp [h'']))

theorem joinGrids_allP {P : Int → Prop} (hmax : ∀ x y, P x → P y → P (max x y)) (gs : List (Grid Int))
    (h : ∀ g ∈ gs, AllP P g) : AllP P (joinGrids gs) := by
  cases gs with
  | nil => intro r hr; simp [joinGrids] at hr
  | cons g gs =>
    unfold joinGrids
    exact foldl_max_allP hmax gs g (h g (by simp)) (fun g' h' => h g' (by simp [h']))

theorem joined_range (k : Nat) (stepped : List (Agent × Grid Int)) :
    AllP (fun v => 0 ≤ v ∧ v ≤ 3 * (k : Int))
      (joinGrids (List.zipWith (fun id (x : Agent × Grid Int) => getAgentGrid id x.2) (agentIds k) stepped)) := by
  apply joinGrids_allP
  · intro x y hx hy; omega
  · exact list_zipWith_all (P := fun id => id ∈ agentIds k) (Q := fun _ => True)
      (R := fun g => AllP (fun v => 0 ≤ v ∧ v ≤ 3 * (k : Int)) g)
      (fun id x hid _ => by
        obtain ⟨h0, hk⟩ := mem_agentIds hid
        exact allP_map _ (fun v => agentCell_range k id h0 hk v) x.2)
      (agentIds k) stepped (fun _ h => h) (fun _ _ => trivial)

/-! ### the summed correction masks: cells in `[0, 1]` -/

theorem zipWith_add_map (h f : Int → Int) (g : Grid Int) :
    Grid.zipWith (· + ·) (Grid.map h g) (Grid.map f g) = Grid.map (fun v => h v + f v) g := by
  unfold Grid.zipWith Grid.map
  induction g with
  | nil => rfl
  | cons r g ih =>
    simp only [List.map_cons, List.zipWith_cons_cons, ih]
    congr 1
    induction r with
    | nil => rfl
    | cons v r ihr => simp only [List.map_cons, List.zipWith_cons_cons, ihr]

/-- summing grids that are all cell-wise functions of one grid is the cell-wise sum -/
theorem sum_maps (f : Int → Int → Int) (g : Grid Int) :
    ∀ (ids : List Int) (h : Int → Int),
      (ids.map (fun id => Grid.map (f id) g)).foldl (Grid.zipWith (· + ·)) (Grid.map h g) =
        Grid.map (fun v => h v + (ids.map (fun id => f id v)).sum) g := by
  intro ids
  induction ids with
  | nil => intro h; simp
  | cons id ids ih =>
    intro h
    simp only [List.map_cons, List.foldl_cons, zipWith_add_map, ih, List.sum_cons]
    congr 1
    funext v
    omega

/-- a cell holds the head value of at most one agent: the corrections of a cell add up to 0 or 1 -/
theorem corr_sum_range (c : Int → Int) (hc : ∀ id, 0 ≤ c id ∧ c id ≤ 1) (v : Int) :
    ∀ k : Nat,
      (0 ≤ ((agentIds k).map (fun id => (if v = posVal id then (2 - 1 : Int) else 0) * c id)).sum ∧
       ((agentIds k).map (fun id => (if v = posVal id then (2 - 1 : Int) else 0) * c id)).sum ≤ 1) ∧
      (posVal (k : Int) ≤ v → ((agentIds k).map (fun id => (if v = posVal id then (2 - 1 : Int) else 0) * c id)).sum = 0) := by
  intro k
  induction k with
  | zero => simp [agentIds]
  | succ k ih =>
    obtain ⟨⟨ih0, ih1⟩, ihz⟩ := ih
    have e : agentIds (k + 1) = agentIds k ++ [(k : Int)] := by
      unfold agentIds; rw [List.range_succ]; simp
    rw [e]
    simp only [List.map_append, List.map_cons, List.map_nil, List.sum_append, List.sum_cons, List.sum_nil]
    have hck := hc (k : Int)
    have hp : posVal (k : Int) = 2 + 3 * (k : Int) := rfl
    have hp1 : posVal ((k + 1 : Nat) : Int) = 5 + 3 * (k : Int) := by unfold posVal; push_cast; omega
    by_cases hv : v = posVal (k : Int)
    · have hz := ihz (by omega)
      simp only [← hv, if_true] at hz ⊢
      refine ⟨by omega, fun h => by omega⟩
    · simp only [hv, if_false]
      refine ⟨by omega, fun h => ?_⟩
      have := ihz (by omega)
      omega

theorem corr_range (k : Nat) (old joined : Grid Int) :
    AllP (fun v => 0 ≤ v ∧ v ≤ 1)
      (sumGrids (Grid.map (fun _ => (0 : Int)) old) ((agentIds k).map (correctionMask old joined))) := by
  have e : (agentIds k).map (correctionMask old joined) =
      (agentIds k).map (fun id => Grid.map
        ((fun id v => (if v = posVal id then (2 - 1 : Int) else 0) * (if hasCollision joined id then 1 else 0)) id) old) := by
    apply List.map_congr_left
    intro id _
    unfold correctionMask
    rfl
  unfold sumGrids
  rw [e, sum_maps]
  apply allP_map
  intro v
  have := (corr_sum_range (fun id => if hasCollision joined id then 1 else 0)
    (fun id => by split <;> omega) v k).1
  omega

/-! ### tight grid bound `3k`: cell-wise relation between a derived grid and the old grid -/

/-- element-wise relation of two lists of the same length -/
def Rel2 {α β} (R : α → β → Prop) : List α → List β → Prop
  | [], [] => True
  | x :: xs, y :: ys => R x y ∧ Rel2 R xs ys
  | _, _ => False

theorem rel2_refl {α} {R : α → α → Prop} (h : ∀ x, R x x) : ∀ l : List α, Rel2 R l l
  | [] => trivial
  | x :: xs => ⟨h x, rel2_refl h xs⟩

theorem rel2_mono {α β} {R S : α → β → Prop} (h : ∀ x y, R x y → S x y) :
    ∀ (a : List α) (b : List β), Rel2 R a b → Rel2 S a b
  | [], [], _ => trivial
  | x :: xs, y :: ys, hr => ⟨h x y hr.1, rel2_mono h xs ys hr.2⟩
  | [], _ :: _, hr => hr.elim
  | _ :: _, [], hr => hr.elim

theorem rel2_map {α β γ} {R : α → β → Prop} {S : γ → β → Prop} (f : α → γ) (h : ∀ x y, R x y → S (f x) y) :
    ∀ (a : List α) (b : List β), Rel2 R a b → Rel2 S (a.map f) b
  | [], [], _ => trivial
  | x :: xs, y :: ys, hr => ⟨h x y hr.1, rel2_map f h xs ys hr.2⟩
  | [], _ :: _, hr => hr.elim
  | _ :: _, [], hr => hr.elim

theorem rel2_zipWith {α α' β γ} {P : α → β → Prop} {Q : α' → β → Prop} {R : γ → β → Prop} (f : α → α' → γ)
    (h : ∀ x x' y, P x y → Q x' y → R (f x x') y) :
    ∀ (a : List α) (a' : List α') (b : List β), Rel2 P a b → Rel2 Q a' b → Rel2 R (List.zipWith f a a') b
  | [], [], [], _, _ => trivial
  | x :: xs, x' :: xs', y :: ys, hp, hq => ⟨h x x' y hp.1 hq.1, rel2_zipWith f h xs xs' ys hp.2 hq.2⟩
  | [], _ :: _, [], _, hq => hq.elim
  | [], _, _ :: _, hp, _ => hp.elim
  | _ :: _, _, [], hp, _ => hp.elim
  | _ :: _, [], _ :: _, _, hq => hq.elim

theorem rel2_set {α β} {R : α → β → Prop} (v : α) :
    ∀ (a : List α) (b : List β) (i : Nat), Rel2 R a b → (∀ x y, a[i]? = some x → R x y → R v y) → Rel2 R (a.set i v) b
  | [], [], _, _, _ => trivial
  | x :: xs, y :: ys, 0, hr, hv => ⟨hv x y rfl hr.1, hr.2⟩
  | x :: xs, y :: ys, i + 1, hr, hv => ⟨hr.1, rel2_set v xs ys i hr.2 (fun x' y' hx => hv x' y' (by simpa using hx))⟩
  | [], _ :: _, _, hr, _ => hr.elim
  | _ :: _, [], _, hr, _ => hr.elim

theorem rel2_forall {α β} {R : α → β → Prop} :
    ∀ (a : List α) (b : List β), Rel2 R a b → ∀ x ∈ a, ∃ y, R x y
  | [], [], _, x, hx => by simp at hx
  | x0 :: xs, y :: ys, hr, x, hx => by
    simp only [List.mem_cons] at hx
    rcases hx with rfl | hx
    · exact ⟨y, hr.1⟩
    · exact rel2_forall xs ys hr.2 x hx
  | [], _ :: _, hr, _, _ => hr.elim
  | _ :: _, [], hr, _, _ => hr.elim

/-- cell-wise relation of two grids -/
abbrev GRel (R : Int → Int → Prop) (a b : Grid Int) : Prop := Rel2 (Rel2 R) a b

/-- writing a value `v` that relates to everything keeps the relation to the reference grid -/
theorem grel_setWD {R : Int → Int → Prop} (v : Int) (hv : ∀ y, R v y) (g o : Grid Int) (r c : Int)
    (h : GRel R g o) : GRel R (Grid.setWD g r c v) o := by
  unfold Grid.setWD
  simp only []
  repeat' split
  all_goals first
    | exact h
    | (rename_i row hrow _ _
       apply rel2_set _ g o _ h
       intro x y hx hxy
       rw [hrow] at hx
       simp only [Option.some.injEq] at hx
       subst hx
       exact rel2_set v _ _ _ hxy (fun _ y' _ _ => hv y'))

/-- a tentatively stepped grid differs from the old one only in cells that now hold a head or path value -/
theorem stepAgent_rel (g : Grid Int) (ag : Agent) (a : Int) :
    GRel (fun x y => x = y ∨ x % 3 ≠ 0) (stepAgent g ag a).2 g := by
  have hr : GRel (fun x y => x = y ∨ x % 3 ≠ 0) g g :=
    rel2_refl (R := Rel2 (fun (x y : Int) => x = y ∨ x % 3 ≠ 0))
      (fun r => rel2_refl (R := fun (x y : Int) => x = y ∨ x % 3 ≠ 0) (fun x => Or.inl rfl) r) g
  unfold stepAgent
  simp only []
  split
  · unfold moveAgent
    simp only []
    apply grel_setWD _ (fun y => Or.inr (by unfold pathVal; omega))
    exact grel_setWD _ (fun y => Or.inr (by unfold posVal; omega)) _ _ _ _ hr
  · exact hr

/-- the cell invariant of the joined grid relative to the old cell `y` -/
def JCell (k : Nat) (z y : Int) : Prop := 0 ≤ z ∧ z ≤ 3 * (k : Int) ∧ (y % 3 = 2 → z ≤ 3 * (k : Int) - 1)

theorem agentCell_jcell (k : Nat) (id : Int) (h0 : 0 ≤ id) (hk : id < (k : Int)) (x y : Int)
    (hxy : x = y ∨ x % 3 ≠ 0) : JCell k (agentCell id x) y := by
  unfold JCell agentCell posVal tgtVal pathVal
  repeat' split
  all_goals omega

theorem foldl_max_rel {k : Nat} (o : Grid Int) :
    ∀ (gs : List (Grid Int)) (g : Grid Int), GRel (JCell k) g o → (∀ g' ∈ gs, GRel (JCell k) g' o) →
      GRel (JCell k) (gs.foldl (Grid.zipWith max) g) o := by
  intro gs
  induction gs with
  | nil => intro g hg _; exact hg
  | cons g' gs ih =>
    intro g hg hgs
    simp only [List.foldl_cons]
    apply ih _ _ (fun g'' h'' => hgs g'' (by simp [h'']))
    unfold Grid.zipWith
    exact rel2_zipWith _ (fun r r' ro hr hr' => rel2_zipWith max
      (fun x x' y hx hx' => by unfold JCell at *; omega) r r' ro hr hr') g g' o hg (hgs g' (by simp))

theorem mem_zipWith_ids {k : Nat} {s : State} {acts : List Int} {g' : Grid Int}
    (h : g' ∈ List.zipWith (fun id (x : Agent × Grid Int) => getAgentGrid id x.2) (agentIds k) (stepEach s acts)) :
    GRel (JCell k) g' s.grid := by
  have := list_zipWith_all (P := fun id => id ∈ agentIds k)
      (Q := fun (x : Agent × Grid Int) => GRel (fun x y => x = y ∨ x % 3 ≠ 0) x.2 s.grid)
      (R := fun g => GRel (JCell k) g s.grid)
      (f := fun id (x : Agent × Grid Int) => getAgentGrid id x.2)
      (fun id x hid hx => by
        obtain ⟨h0, hk⟩ := mem_agentIds hid
        unfold getAgentGrid Grid.map
        exact rel2_map _ (fun r ro hr => rel2_map _ (fun x y hxy => agentCell_jcell k id h0 hk x y hxy) r ro hr) _ _ hx)
      (agentIds k) (stepEach s acts) (fun _ h => h)
      (by
        intro x hx
        unfold stepEach at hx
        exact list_zipWith_all (P := fun _ => True) (Q := fun _ => True)
          (R := fun (x : Agent × Grid Int) => GRel (fun x y => x = y ∨ x % 3 ≠ 0) x.2 s.grid)
          (fun ag a _ _ => stepAgent_rel s.grid ag a) _ _ (fun _ _ => trivial) (fun _ _ => trivial) x hx)
  exact this g' h

theorem sum_zero_of_all {α} (f : α → Int) (l : List α) (h : ∀ x ∈ l, f x = 0) : (l.map f).sum = 0 := by
  induction l with
  | nil => rfl
  | cons x xs ih =>
    simp only [List.map_cons, List.sum_cons]
    rw [h x (by simp), ih (fun y hy => h y (by simp [hy]))]
    rfl

/-- tight: every cell of the grid after `_step_agents` is within `[0, 3k]`, for every state and action -/
theorem stepAgents_grid_tight (k : Nat) (s : State) (acts : List Int) :
    AllP (fun v => 0 ≤ v ∧ v ≤ 3 * (k : Int)) (stepAgents k s acts).2 := by
  unfold stepAgents resolve
  simp only []
  generalize hgs : List.zipWith (fun id (x : Agent × Grid Int) => getAgentGrid id x.2) (agentIds k) (stepEach s acts) = gs
  have hall : ∀ g' ∈ gs, GRel (JCell k) g' s.grid := by
    intro g' hg'; rw [← hgs] at hg'; exact mem_zipWith_ids hg'
  cases gs with
  | nil =>
    intro r hr
    simp [joinGrids, Grid.zipWith] at hr
  | cons g0 gs =>
    have hj : GRel (JCell k) (joinGrids (g0 :: gs)) s.grid := by
      unfold joinGrids
      exact foldl_max_rel s.grid gs g0 (hall g0 (by simp)) (fun g' h' => hall g' (by simp [h']))
    generalize joinGrids (g0 :: gs) = joined at hj ⊢
    -- the correction grid is a cell-wise function of the old grid
    have e : (agentIds k).map (correctionMask s.grid joined) =
        (agentIds k).map (fun id => Grid.map
          ((fun id v => (if v = posVal id then (2 - 1 : Int) else 0) * (if hasCollision joined id then 1 else 0)) id) s.grid) := by
      apply List.map_congr_left
      intro id _
      unfold correctionMask
      rfl
    unfold sumGrids
    rw [e, sum_maps]
    have hc : GRel (fun c y => 0 ≤ c ∧ c ≤ 1 ∧ (y % 3 ≠ 2 → c = 0))
        (Grid.map (fun v => (fun _ => (0 : Int)) v + ((agentIds k).map (fun id =>
          (if v = posVal id then (2 - 1 : Int) else 0) * (if hasCollision joined id then 1 else 0))).sum) s.grid) s.grid := by
      unfold Grid.map
      apply rel2_map _ _ _ _ (rel2_refl (R := Rel2 (fun (x y : Int) => x = y))
        (fun r => rel2_refl (R := fun (x y : Int) => x = y) (fun x => rfl) r) s.grid)
      intro r ro hr
      apply rel2_map _ _ _ _ hr
      intro x y hxy
      subst hxy
      have h1 := (corr_sum_range (fun id => if hasCollision joined id then 1 else 0)
        (fun id => by split <;> omega) x k).1
      simp only [Int.zero_add]
      refine ⟨by omega, by omega, fun hne => ?_⟩
      apply sum_zero_of_all
      intro id _
      have : x ≠ posVal id := by unfold posVal; omega
      simp [this]
    generalize Grid.map (fun v => (fun _ => (0 : Int)) v + ((agentIds k).map (fun id =>
          (if v = posVal id then (2 - 1 : Int) else 0) * (if hasCollision joined id then 1 else 0))).sum) s.grid = cg at hc ⊢
    have hfin : GRel (fun z _ => 0 ≤ z ∧ z ≤ 3 * (k : Int)) (Grid.zipWith (· + ·) joined cg) s.grid := by
      unfold Grid.zipWith
      exact rel2_zipWith _ (fun r r' ro hr hr' => rel2_zipWith (· + ·)
        (fun x x' y hx hx' => by unfold JCell at hx; by_cases hy : y % 3 = 2 <;> omega) r r' ro hr hr') _ _ _ hj hc
    intro r hr v hv
    obtain ⟨ro, hro⟩ := rel2_forall _ _ hfin r hr
    obtain ⟨y, hy⟩ := rel2_forall _ _ hro v hv
    exact hy

/-! ### the step grid -/

theorem step_grid (cfg : Cfg) (s : State) (acts : List Int) :
    (step cfg s acts).1.grid = (stepAgents cfg.k s acts).2 := by
  unfold step finish; rfl

theorem consistent_grid_range {n k : Nat} {s : State} (h : Consistent n k s) :
    AllP (fun v => 0 ≤ v ∧ v ≤ 3 * (k : Int)) s.grid ∧ 0 ≤ s.stepCount := by
  unfold Consistent consistentB at h
  simp only [Bool.and_eq_true, decide_eq_true_eq] at h
  refine ⟨?_, h.2⟩
  have hg := h.1.2
  unfold Grid.all at hg
  simp only [List.all_eq_true, Bool.and_eq_true, decide_eq_true_eq] at hg
  exact hg

/-! ### the two C01 statements -/

theorem obsInBounds_of (cfg : Cfg) (o : Obs)
    (hg : AllP (fun v => 0 ≤ v ∧ v ≤ 3 * (cfg.k : Int)) o.grid)
    (h0 : 0 ≤ o.stepCount) (hT : o.stepCount ≤ cfg.timeLimit) : ObsInBounds (obsBounds cfg) o := by
  intro p hp b hb hbp v hv
  simp only [obsLeaves, List.mem_cons, List.not_mem_nil, or_false] at hp
  simp only [obsBounds, List.mem_cons, List.not_mem_nil, or_false] at hb
  rcases hp with rfl | rfl | rfl <;> rcases hb with rfl | rfl | rfl <;> simp at hbp
  · -- grid
    simp only [List.mem_map] at hv
    obtain ⟨x, hx, rfl⟩ := hv
    have := allP_flatten hg x hx
    refine ⟨fun l hl => ?_, fun h hh => ?_⟩
    · simp only [Option.some.injEq] at hl; subst hl; exact_mod_cast this.1
    · simp only [Option.some.injEq] at hh; subst hh; exact_mod_cast this.2
  · -- action_mask
    simp only [List.mem_map] at hv
    obtain ⟨x, _, rfl⟩ := hv
    refine ⟨fun l hl => ?_, fun h hh => ?_⟩
    · simp only [Option.some.injEq] at hl; subst hl; split <;> decide
    · simp only [Option.some.injEq] at hh; subst hh; split <;> decide
  · -- step_count
    simp only [List.mem_cons, List.not_mem_nil, or_false] at hv
    subst hv
    refine ⟨fun l hl => ?_, fun h hh => ?_⟩
    · simp only [Option.some.injEq] at hl; subst hl; exact_mod_cast h0
    · simp only [Option.some.injEq] at hh; subst hh; exact_mod_cast hT

/-- reset: the observation of a consistent fresh board is within the bounds -/
theorem reset_obs_in_bounds (cfg : Cfg) (s : State) (hc : Consistent cfg.n cfg.k s) (hs : s.stepCount = 0)
    (hT : 0 ≤ cfg.timeLimit) : ObsInBounds (obsBounds cfg) (resetTs cfg s).obs := by
  have ⟨hg, h0⟩ := consistent_grid_range hc
  apply obsInBounds_of
  · exact hg
  · exact h0
  · show s.stepCount ≤ cfg.timeLimit
    omega

/-- step: for EVERY state whose step count is in `[0, time_limit)` (the episode has not hit the limit yet; the
step that reaches `time_limit` is included) and every joint action, the observation is within the bounds -/
theorem step_obs_in_bounds (cfg : Cfg) (s : State) (acts : List Int) (h0 : 0 ≤ s.stepCount)
    (hT : s.stepCount < cfg.timeLimit) : ObsInBounds (obsBounds cfg) (step cfg s acts).2.obs := by
  rw [obs_faithful]
  apply obsInBounds_of
  · show AllP _ (step cfg s acts).1.grid
    rw [step_grid]
    exact stepAgents_grid_tight cfg.k s acts
  · show 0 ≤ (step cfg s acts).1.stepCount
    rw [step_count]; omega
  · show (step cfg s acts).1.stepCount ≤ cfg.timeLimit
    rw [step_count]; omega

end Connector
