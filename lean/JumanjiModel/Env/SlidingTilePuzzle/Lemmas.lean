import JumanjiModel.Env.SlidingTilePuzzle.Model
import JumanjiModel.Prim.Lemmas
namespace SlidingTilePuzzle
open Jm Jx

/-! ### grids -/

theorem shaped_iff {g : Grid Int} {n m : Nat} :
    Grid.shaped g n m = true ↔ g.length = n ∧ ∀ row ∈ g, row.length = m := by
  simp [Grid.shaped, List.all_eq_true]

theorem get_eq {g : Grid Int} {r c : Nat} (hr : r < g.length) (hc : c < g[r].length) :
    Grid.get g 0 r c = g[r][c] := by
  simp [Grid.get, List.getD_eq_getElem?_getD, hr, hc]

theorem row_len {g : Grid Int} {n m : Nat} (h : Grid.shaped g n m = true) {r : Nat} (hr : r < g.length) :
    g[r].length = m := (shaped_iff.1 h).2 _ (List.getElem_mem hr)

theorem grid_ext {g h : Grid Int} {n : Nat} (hg : Grid.shaped g n n = true) (hh : Grid.shaped h n n = true)
    (e : ∀ r c, r < n → c < n → Grid.get g 0 r c = Grid.get h 0 r c) : g = h := by
  have lg := (shaped_iff.1 hg).1
  have lh := (shaped_iff.1 hh).1
  apply List.ext_getElem (by omega)
  intro r h1 h2
  have rg := row_len hg h1
  have rh := row_len hh h2
  apply List.ext_getElem (by omega)
  intro c h3 h4
  have := e r c (by omega) (by omega)
  rwa [get_eq h1 h3, get_eq h2 h4] at this

theorem tabulate_shaped (n : Nat) (f : Nat → Nat → Int) : Grid.shaped (tabulate n f) n n = true := by
  simp [shaped_iff, tabulate]

theorem get_tabulate {n : Nat} (f : Nat → Nat → Int) {r c : Nat} (hr : r < n) (hc : c < n) :
    Grid.get (tabulate n f) 0 r c = f r c := by
  simp [Grid.get, tabulate, List.getD_eq_getElem?_getD, hr, hc]

theorem set_shaped {g : Grid Int} {n : Nat} (hg : Grid.shaped g n n = true) (r c : Nat) (v : Int) :
    Grid.shaped (Grid.set g r c v) n n = true := by
  unfold Grid.set
  split
  · exact hg
  · rename_i row hrow
    rw [shaped_iff] at hg ⊢
    refine ⟨by simp [hg.1], ?_⟩
    intro x hx
    rcases List.mem_or_eq_of_mem_set hx with hx | hx
    · exact hg.2 x hx
    · subst hx
      simp
      exact hg.2 row (List.mem_of_getElem? hrow)

theorem get_set {g : Grid Int} {n : Nat} (hg : Grid.shaped g n n = true) {r c : Nat} (hr : r < n) (hc : c < n)
    (v : Int) (r' c' : Nat) :
    Grid.get (Grid.set g r c v) 0 r' c' = if r' = r ∧ c' = c then v else Grid.get g 0 r' c' := by
  have lg := (shaped_iff.1 hg).1
  have hr' : r < g.length := by omega
  have rl := row_len hg hr'
  unfold Grid.set
  rw [List.getElem?_eq_getElem hr']
  simp only [Grid.get, List.getD_eq_getElem?_getD, List.getElem?_set]
  by_cases h1 : r = r'
  · subst h1
    simp [hr']
    by_cases h2 : c = c'
    · subst h2; simp [rl, hc]
    · have : ¬ c' = c := fun h => h2 h.symm
      simp [h2, this]
  · have : ¬ r' = r := fun h => h1 h.symm
    simp [h1, this]

theorem setWD_cast {g : Grid Int} {n : Nat} (hg : Grid.shaped g n n = true) {r c : Nat} (hr : r < n) (hc : c < n)
    (v : Int) : Grid.setWD g (r : Int) (c : Int) v = Grid.set g r c v := by
  have lg := (shaped_iff.1 hg).1
  have hr' : r < g.length := by omega
  have rl := row_len hg hr'
  unfold Grid.setWD Grid.set wrapIdx
  simp only []
  have a1 : ¬ ((r : Int) < 0) := by omega
  have a2 : ¬ ((r : Int) ≥ (g.length : Int)) := by omega
  simp only [a1, a2, if_false, Int.toNat_natCast, List.getElem?_eq_getElem hr']
  have a3 : ¬ ((c : Int) < 0) := by omega
  have a4 : ¬ ((c : Int) ≥ (g[r].length : Int)) := by omega
  simp only [a3, a4, if_false, Int.toNat_natCast]

theorem getWC_cast {g : Grid Int} {n : Nat} (hg : Grid.shaped g n n = true) {r c : Nat} (hr : r < n) (hc : c < n) :
    Grid.getWC g 0 (r : Int) (c : Int) = Grid.get g 0 r c := by
  have lg := (shaped_iff.1 hg).1
  have hr' : r < g.length := by omega
  have rl := row_len hg hr'
  unfold Grid.getWC Grid.get
  rw [Jx.getWC_nat _ _ hr']
  have : (g.getD r []) = g[r] := by simp [List.getD_eq_getElem?_getD, hr']
  rw [this, Jx.getWC_nat _ _ (by omega)]

theorem cell_cast (g : Grid Int) (r c : Nat) : cell g ((r : Int), (c : Int)) = Grid.get g 0 r c := by
  simp [cell]

/-! ### positions and legality -/

theorem inv_pos {n : Nat} {b : Board} (h : Inv n b) :
    ∃ r c : Nat, r < n ∧ c < n ∧ b.2 = ((r : Int), (c : Int)) ∧ Grid.get b.1 0 r c = 0 := by
  obtain ⟨_, ⟨h1, h2, h3, h4⟩, hc⟩ := h
  refine ⟨b.2.1.toNat, b.2.2.toNat, by omega, by omega, ?_, ?_⟩
  · apply Prod.ext <;> simp <;> omega
  · have : 0 ≤ b.2.1 ∧ 0 ≤ b.2.2 := ⟨h1, h3⟩
    simpa [cell, this] using hc

theorem onBoard_pos {n : Nat} {p : Pos} (h : onBoard n p) :
    ∃ r c : Nat, r < n ∧ c < n ∧ p = ((r : Int), (c : Int)) := by
  obtain ⟨h1, h2, h3, h4⟩ := h
  refine ⟨p.1.toNat, p.2.toNat, by omega, by omega, ?_⟩
  apply Prod.ext <;> simp <;> omega

theorem inGrid_iff (n : Nat) (p : Pos) : inGrid n p = true ↔ onBoard n p := by
  simp [inGrid, onBoard, and_assoc]

/-- C04: the L1 mask bit equals L2 legality -/
theorem mask_iff_legal (n : Nat) (b : Board) (a : Nat) :
    (validActions n b.2).getD a false = true ↔ legalB n b a := by
  unfold legalB
  match a with
  | 0 => simp [validActions, MOVES, target, inGrid_iff, onBoard]; omega
  | 1 => simp [validActions, MOVES, target, inGrid_iff, onBoard]
  | 2 => simp [validActions, MOVES, target, inGrid_iff, onBoard]
  | 3 => simp [validActions, MOVES, target, inGrid_iff, onBoard]; omega
  | (k+4) => simp [validActions, MOVES, target]

theorem get_swapCells {n : Nat} (g : Grid Int) (p q : Pos) {i j : Nat} (hi : i < n) (hj : j < n) :
    Grid.get (swapCells n g p q) 0 i j =
      if ((i : Int), (j : Int)) = p then cell g q else if ((i : Int), (j : Int)) = q then cell g p
      else Grid.get g 0 i j := by
  unfold swapCells
  rw [get_tabulate _ hi hj]
  simp only [cell_cast]

theorem swapCells_shaped (n : Nat) (g : Grid Int) (p q : Pos) : Grid.shaped (swapCells n g p q) n n = true :=
  tabulate_shaped _ _

theorem swap_sets {g : Grid Int} {n : Nat} (hg : Grid.shaped g n n = true) {r c r' c' : Nat}
    (hr : r < n) (hc : c < n) (hr' : r' < n) (hc' : c' < n) (hne : ¬ (r = r' ∧ c = c')) :
    Grid.set (Grid.set g r c (Grid.get g 0 r' c')) r' c' (Grid.get g 0 r c)
      = swapCells n g ((r : Int), (c : Int)) ((r' : Int), (c' : Int)) := by
  apply grid_ext (set_shaped (set_shaped hg _ _ _) _ _ _) (swapCells_shaped _ _ _ _)
  intro i j hi hj
  rw [get_set (set_shaped hg _ _ _) hr' hc', get_set hg hr hc, get_swapCells _ _ _ hi hj]
  simp only [cell_cast, Prod.mk.injEq, Int.natCast_inj]
  by_cases h1 : i = r ∧ j = c
  · obtain ⟨rfl, rfl⟩ := h1
    simp [hne]
  · by_cases h2 : i = r' ∧ j = c'
    · obtain ⟨rfl, rfl⟩ := h2
      simp [h1]
    · simp [h1, h2]

theorem l1_move {g : Grid Int} {n : Nat} (hg : Grid.shaped g n n = true) {r c r' c' : Nat}
    (hr : r < n) (hc : c < n) (hr' : r' < n) (hc' : c' < n) (hne : ¬ (r = r' ∧ c = c'))
    (h0 : Grid.get g 0 r c = 0) :
    Grid.setWD (Grid.setWD g (r : Int) (c : Int) (Grid.getWC g 0 (r' : Int) (c' : Int))) (r' : Int) (c' : Int) 0
      = swapCells n g ((r : Int), (c : Int)) ((r' : Int), (c' : Int)) := by
  rw [getWC_cast hg hr' hc', setWD_cast hg hr hc, setWD_cast (set_shaped hg _ _ _) hr' hc']
  rw [← swap_sets hg hr hc hr' hc' hne, h0]

theorem gen_move {g : Grid Int} {n : Nat} (hg : Grid.shaped g n n = true) {r c r' c' : Nat}
    (hr : r < n) (hc : c < n) (hr' : r' < n) (hc' : c' < n) (hne : ¬ (r = r' ∧ c = c')) :
    swapTiles g ((r : Int), (c : Int)) ((r' : Int), (c' : Int))
      = swapCells n g ((r : Int), (c : Int)) ((r' : Int), (c' : Int)) := by
  unfold swapTiles
  simp only []
  rw [getWC_cast hg hr' hc', getWC_cast hg hr hc, setWD_cast hg hr hc, setWD_cast (set_shaped hg _ _ _) hr' hc']
  exact swap_sets hg hr hc hr' hc' hne



/-! ### L1 moves = L2 slide -/

/-- the body of `_move_empty_tile` for a displacement `(dr, dc) ≠ (0,0)` -/
theorem move_core {n : Nat} {g : Grid Int} {e : Pos} (h : Inv n (g, e)) (ne : Pos) (hne : ne ≠ e) :
    (if inGrid n ne = true
      then (Grid.setWD (Grid.setWD g e.1 e.2 (Grid.getWC g 0 ne.1 ne.2)) ne.1 ne.2 0, ne) else (g, e))
    = (if onBoard n ne then (swapCells n g e ne, ne) else (g, e)) := by
  by_cases hb : onBoard n ne
  · obtain ⟨r, c, hr, hc, he, h0⟩ := inv_pos h
    obtain ⟨r', c', hr', hc', hp⟩ := onBoard_pos hb
    simp only at he h0
    subst he hp
    have hne' : ¬ (r = r' ∧ c = c') := by
      rintro ⟨rfl, rfl⟩; exact hne rfl
    simp only [(inGrid_iff n _).2 hb, hb, if_true]
    rw [l1_move h.1 hr hc hr' hc' hne' h0]
  · have : inGrid n ne = false := by
      cases hh : inGrid n ne
      · rfl
      · exact absurd ((inGrid_iff n ne).1 hh) hb
    simp [this, hb]

theorem moves_get {a : Nat} (ha : a < 4) : Jx.getWC MOVES (0, 0) (a : Int) = MOVES.getD a (0, 0) :=
  Jx.getWC_nat MOVES (0, 0) (by simpa [MOVES] using ha)

/-- C09 core: `_move_empty_tile` is the L2 slide -/
theorem moveEmptyTile_eq_slideB {n : Nat} {b : Board} (h : Inv n b) {a : Nat} (ha : a < 4) :
    moveEmptyTile n b (a : Int) = slideB n b a := by
  obtain ⟨g, e⟩ := b
  unfold moveEmptyTile isValidMove slideB
  simp only [moves_get ha]
  match a, ha with
  | 0, _ =>
    have := move_core h (e.1 + -1, e.2 + 0) (by intro hh; have := congrArg Prod.fst hh; simp at this; omega)
    simpa [MOVES, target, Int.sub_eq_add_neg] using this
  | 1, _ =>
    have := move_core h (e.1 + 0, e.2 + 1) (by intro hh; have := congrArg Prod.snd hh; simp at this; omega)
    simpa [MOVES, target, Int.sub_eq_add_neg] using this
  | 2, _ =>
    have := move_core h (e.1 + 1, e.2 + 0) (by intro hh; have := congrArg Prod.fst hh; simp at this; omega)
    simpa [MOVES, target, Int.sub_eq_add_neg] using this
  | 3, _ =>
    have := move_core h (e.1 + 0, e.2 + -1) (by intro hh; have := congrArg Prod.snd hh; simp at this; omega)
    simpa [MOVES, target, Int.sub_eq_add_neg] using this



/-- a legal direction has a target cell on the board, adjacent to (so different from) the blank -/
theorem legal_target {n : Nat} {b : Board} {a : Nat} (hl : legalB n b a) :
    ∃ p, target b.2 a = some p ∧ onBoard n p ∧ p ≠ b.2 ∧ MOVES.getD a (0, 0) = (p.1 - b.2.1, p.2 - b.2.2) ∧ a < 4 := by
  unfold legalB at hl
  match a with
  | 0 => exact ⟨_, rfl, hl, by intro hh; have := congrArg Prod.fst hh; simp at this; omega, by simp [MOVES]; omega, by omega⟩
  | 1 => exact ⟨_, rfl, hl, by intro hh; have := congrArg Prod.snd hh; simp at this; omega, by simp [MOVES]; omega, by omega⟩
  | 2 => exact ⟨_, rfl, hl, by intro hh; have := congrArg Prod.fst hh; simp at this; omega, by simp [MOVES]; omega, by omega⟩
  | 3 => exact ⟨_, rfl, hl, by intro hh; have := congrArg Prod.snd hh; simp at this; omega, by simp [MOVES]; omega, by omega⟩
  | (k+4) => simp [target] at hl

theorem slideB_legal {n : Nat} {b : Board} {a : Nat} {p : Pos} (ht : target b.2 a = some p) (hp : onBoard n p) :
    slideB n b a = (swapCells n b.1 b.2 p, p) := by
  unfold slideB; simp [ht, hp]

theorem slideB_illegal {n : Nat} {b : Board} {a : Nat} (hl : ¬ legalB n b a) : slideB n b a = b := by
  unfold slideB legalB at *
  split
  · rename_i p hp; rw [hp] at hl; simp at hl; simp [hl]
  · rfl

/-- C10 core: a possible draw of `_make_random_move` is the L2 slide -/
theorem randomMove_eq_slideB {n : Nat} {b : Board} (h : Inv n b) {d : Nat} (hl : legalB n b d) :
    randomMove b d = slideB n b d := by
  obtain ⟨p, ht, hp, hne, hm, _⟩ := legal_target hl
  rw [slideB_legal ht hp]
  obtain ⟨r, c, hr, hc, he, h0⟩ := inv_pos h
  obtain ⟨r', c', hr', hc', hp'⟩ := onBoard_pos hp
  obtain ⟨g, e⟩ := b
  simp only at he h0 hne hm ⊢
  subst he hp'
  have hne' : ¬ (r = r' ∧ c = c') := by
    rintro ⟨rfl, rfl⟩; exact hne rfl
  unfold randomMove
  simp only [hm]
  have e1 : ((r : Int) + ((r' : Int) - (r : Int)), (c : Int) + ((c' : Int) - (c : Int))) = ((r' : Int), (c' : Int)) := by
    apply Prod.ext <;> simp <;> omega
  rw [e1, gen_move h.1 hr hc hr' hc' hne']

/-- the slide keeps the board well-formed (any action) -/
theorem slideB_inv {n : Nat} {b : Board} (h : Inv n b) (a : Nat) : Inv n (slideB n b a) := by
  by_cases hl : legalB n b a
  · obtain ⟨p, ht, hp, hne, _, _⟩ := legal_target hl
    rw [slideB_legal ht hp]
    refine ⟨swapCells_shaped _ _ _ _, hp, ?_⟩
    obtain ⟨r', c', hr', hc', hp'⟩ := onBoard_pos hp
    subst hp'
    simp only [cell_cast]
    rw [get_swapCells _ _ _ hr' hc']
    have : ¬ (((r' : Int), (c' : Int)) = b.2) := hne
    simp [this, h.2.2]
  · rw [slideB_illegal hl]; exact h

theorem opposite_target {e p : Pos} {a : Nat} (ht : target e a = some p) : target p (opposite a) = some e := by
  match a with
  | 0 => simp [target] at ht; subst ht; simp [opposite, target]
  | 1 => simp [target] at ht; subst ht; simp [opposite, target]
  | 2 => simp [target] at ht; subst ht; simp [opposite, target]
  | 3 => simp [target] at ht; subst ht; simp [opposite, target]
  | (k+4) => simp [target] at ht

theorem swapCells_swapCells {n : Nat} {g : Grid Int} (hg : Grid.shaped g n n = true) {e p : Pos}
    (he : onBoard n e) (hp : onBoard n p) :
    swapCells n (swapCells n g e p) p e = g := by
  apply grid_ext (swapCells_shaped _ _ _ _) hg
  intro i j hi hj
  obtain ⟨r, c, hr, hc, rfl⟩ := onBoard_pos he
  obtain ⟨r', c', hr', hc', rfl⟩ := onBoard_pos hp
  rw [get_swapCells _ _ _ hi hj]
  simp only [cell_cast]
  rw [get_swapCells _ _ _ hr hc, get_swapCells _ _ _ hr' hc', get_swapCells _ _ _ hi hj]
  simp only [cell_cast, Prod.mk.injEq, Int.natCast_inj]
  by_cases h1 : i = r' ∧ j = c'
  · obtain ⟨rfl, rfl⟩ := h1; simp
  · by_cases h2 : i = r ∧ j = c
    · obtain ⟨rfl, rfl⟩ := h2; simp [h1]
      intro h3 h4; subst h3 h4; rfl
    · simp [h1, h2]

/-- C17: opposite moves cancel -/
theorem opposite_cancel {n : Nat} {b : Board} (h : Inv n b) {a : Nat} (hl : legalB n b a) :
    legalB n (slideB n b a) (opposite a) ∧ slideB n (slideB n b a) (opposite a) = b := by
  obtain ⟨p, ht, hp, hne, _, _⟩ := legal_target hl
  rw [slideB_legal ht hp]
  have ht' := opposite_target ht
  have hl' : legalB n (swapCells n b.1 b.2 p, p) (opposite a) := by
    unfold legalB; simp only [ht']; exact h.2.1
  refine ⟨hl', ?_⟩
  rw [slideB_legal (b := (swapCells n b.1 b.2 p, p)) ht' h.2.1]
  simp only
  rw [swapCells_swapCells h.1 h.2.1 hp]



/-! ### conservation of the multiset of tiles -/

theorem count_set_add (l : List Int) (i : Nat) (hi : i < l.length) (v b : Int) :
    (l.set i v).count b + (if l[i] = b then 1 else 0) = l.count b + (if v = b then 1 else 0) := by
  induction l generalizing i with
  | nil => simp at hi
  | cons x xs ih =>
    cases i with
    | zero =>
      simp only [List.set_cons_zero, List.count_cons, List.getElem_cons_zero, beq_iff_eq]
      omega
    | succ i =>
      simp only [List.length_cons] at hi
      have := ih i (by omega)
      simp only [List.set_cons_succ, List.count_cons, List.getElem_cons_succ]
      omega

theorem sum_map_set_add (g : List (List Int)) (f : List Int → Nat) (i : Nat) (hi : i < g.length) (x : List Int) :
    ((g.set i x).map f).sum + f g[i] = (g.map f).sum + f x := by
  induction g generalizing i with
  | nil => simp at hi
  | cons y ys ih =>
    cases i with
    | zero => simp; omega
    | succ i =>
      simp only [List.length_cons] at hi
      have := ih i (by omega)
      simp only [List.set_cons_succ, List.map_cons, List.sum_cons, List.getElem_cons_succ]
      omega

def gcount (b : Int) (g : Grid Int) : Nat := (Grid.flatten g).count b

theorem gcount_eq (b : Int) (g : Grid Int) : gcount b g = (List.map (List.count b) g).sum := by
  simp [gcount, Grid.flatten, List.count_flatten]

theorem gcount_set {g : Grid Int} {n : Nat} (hg : Grid.shaped g n n = true) {r c : Nat} (hr : r < n) (hc : c < n)
    (v b : Int) :
    gcount b (Grid.set g r c v) + (if Grid.get g 0 r c = b then 1 else 0)
      = gcount b g + (if v = b then 1 else 0) := by
  have lg := (shaped_iff.1 hg).1
  have hr' : r < g.length := by omega
  have rl := row_len hg hr'
  have hc' : c < g[r].length := by omega
  rw [gcount_eq, gcount_eq, get_eq hr' hc']
  unfold Grid.set
  rw [List.getElem?_eq_getElem hr']
  simp only
  have h1 := sum_map_set_add g (List.count b) r hr' (g[r].set c v)
  have h2 := count_set_add g[r] c hc' v b
  omega

/-- exchanging two cells conserves every tile count -/
theorem gcount_swapCells {g : Grid Int} {n : Nat} (hg : Grid.shaped g n n = true) {e p : Pos}
    (he : onBoard n e) (hp : onBoard n p) (hne : p ≠ e) (b : Int) :
    gcount b (swapCells n g e p) = gcount b g := by
  obtain ⟨r, c, hr, hc, rfl⟩ := onBoard_pos he
  obtain ⟨r', c', hr', hc', rfl⟩ := onBoard_pos hp
  have hne' : ¬ (r = r' ∧ c = c') := by
    rintro ⟨rfl, rfl⟩; exact hne rfl
  rw [← swap_sets hg hr hc hr' hc' hne']
  have h1 := gcount_set hg hr hc (Grid.get g 0 r' c') b
  have h2 := gcount_set (set_shaped hg r c (Grid.get g 0 r' c')) hr' hc' (Grid.get g 0 r c) b
  rw [get_set hg hr hc] at h2
  have : ¬ (r' = r ∧ c' = c) := by
    rintro ⟨rfl, rfl⟩; exact hne' ⟨rfl, rfl⟩
  simp only [this, if_false] at h2
  omega

/-- C17: a slide (legal or not) conserves the multiset of tiles -/
theorem slideB_perm {n : Nat} {b : Board} (h : Inv n b) (a : Nat) :
    (Grid.flatten (slideB n b a).1).Perm (Grid.flatten b.1) := by
  by_cases hl : legalB n b a
  · obtain ⟨p, ht, hp, hne, _, _⟩ := legal_target hl
    rw [slideB_legal ht hp]
    rw [List.perm_iff_count]
    intro x
    exact gcount_swapCells h.1 h.2.1 hp hne x
  · rw [slideB_illegal hl]

theorem slideB_isPermutation {n : Nat} {b : Board} (h : Inv n b) (a : Nat) (hp : IsPermutation n b.1) :
    IsPermutation n (slideB n b a).1 := (slideB_perm h a).trans hp



/-! ### the solved board of the implementation is the goal -/

theorem mul_bound {n r : Nat} (hr : r < n) : r * n + n ≤ n * n := by
  have : (r + 1) * n ≤ n * n := Nat.mul_le_mul_right n hr
  rw [Nat.succ_mul] at this; exact this

theorem reshape_shaped {l : List Int} {n : Nat} (hl : l.length = n * n) : Grid.shaped (reshape n l) n n = true := by
  rw [shaped_iff]
  refine ⟨by simp [reshape], ?_⟩
  intro row hrow
  simp only [reshape, List.mem_map, List.mem_range] at hrow
  obtain ⟨r, hr, rfl⟩ := hrow
  have := mul_bound hr
  simp [hl]; omega

theorem get_reshape {l : List Int} {n : Nat} {r c : Nat} (hr : r < n) (hc : c < n) :
    Grid.get (reshape n l) 0 r c = l.getD (r * n + c) 0 := by
  simp [Grid.get, reshape, List.getD_eq_getElem?_getD, hr, hc]

theorem last_cell {n r c : Nat} (hr : r < n) (hc : c < n) : r * n + c = n * n - 1 ↔ (r + 1 = n ∧ c + 1 = n) := by
  have h1 := mul_bound hr
  constructor
  · intro h
    by_cases h2 : r + 1 = n
    · refine ⟨h2, ?_⟩
      have : (r + 1) * n = n * n := by rw [h2]
      rw [Nat.succ_mul] at this; omega
    · have h3 : r + 1 < n := by omega
      have h4 := mul_bound h3
      rw [Nat.succ_mul] at h4; omega
  · rintro ⟨h2, h3⟩
    have : (r + 1) * n = n * n := by rw [h2]
    rw [Nat.succ_mul] at this; omega

/-- C17: `make_solved_puzzle` builds exactly the goal board, for every grid size -/
theorem solved_eq_goal (n : Nat) : solvedPuzzle n = goal n := by
  by_cases hn : n = 0
  · subst hn; rfl
  have hpos : 0 < n * n := Nat.mul_pos (by omega) (by omega)
  have hlen : ((List.range' 1 (n * n)).map (fun (k : Nat) => (k : Int))).length = n * n := by simp
  have hset : Jx.setWD ((List.range' 1 (n * n)).map (fun (k : Nat) => (k : Int))) (-1) 0
      = ((List.range' 1 (n * n)).map (fun (k : Nat) => (k : Int))).set (n * n - 1) 0 := by
    have : ((-1 : Int)) + ((n * n : Nat) : Int) = ((n * n - 1 : Nat) : Int) := by omega
    unfold Jx.setWD Jx.wrapIdx
    simp only [hlen]
    have a0 : ((-1 : Int) < 0) := by omega
    simp only [a0, if_true, this]
    have a1 : ¬ (((n * n - 1 : Nat) : Int) < 0) := by omega
    have a2 : ¬ (((n * n - 1 : Nat) : Int) ≥ ((n * n : Nat) : Int)) := by omega
    simp only [a1, a2, if_false, Int.toNat_natCast]
  unfold solvedPuzzle
  rw [hset]
  apply grid_ext (reshape_shaped (by simp)) (tabulate_shaped _ _)
  intro r c hr hc
  rw [get_reshape hr hc, get_tabulate _ hr hc]
  have hk : r * n + c < n * n := by have := mul_bound hr; omega
  have hlc := last_cell hr hc
  by_cases hl : r * n + c = n * n - 1
  · have := hlc.1 hl
    have hlt : n * n - 1 < n * n := by omega
    simp [List.getD_eq_getElem?_getD, hl, hlt, this]
  · have hl' : ¬ (r + 1 = n ∧ c + 1 = n) := fun h => hl (hlc.2 h)
    have hl2 : ¬ (n * n - 1 = r * n + c) := fun h => hl h.symm
    simp only [List.getD_eq_getElem?_getD, List.getElem?_set, hl2, if_false, hl', List.getElem?_map]
    rw [List.getElem?_range' ]
    · simp
      first | omega | (constructor <;> omega)
    · exact hk

/-- C17: the solved test accepts exactly the goal configuration -/
theorem isSolved_iff (n : Nat) (p : Grid Int) : isSolved n p = true ↔ p = goal n := by
  simp [isSolved, solved_eq_goal]

theorem startBoard_eq (n : Nat) : startBoard n = goalBoard n := by
  simp [startBoard, goalBoard, solved_eq_goal]

theorem goal_inv {n : Nat} (hn : 0 < n) : Inv n (goalBoard n) := by
  refine ⟨tabulate_shaped _ _, ⟨by simp [goalBoard]; omega, by simp [goalBoard]; omega, by simp [goalBoard]; omega, by simp [goalBoard]; omega⟩, ?_⟩
  have e : (((n : Int) - 1), ((n : Int) - 1)) = ((((n - 1 : Nat)) : Int), (((n - 1 : Nat)) : Int)) := by
    apply Prod.ext <;> simp <;> omega
  simp only [goalBoard, e, cell_cast]
  unfold goal
  rw [get_tabulate _ (by omega) (by omega)]
  simp; omega



/-! ### reachability -/

theorem Reachable.trans {n : Nat} {a b c : Board} (h1 : Reachable n a b) (h2 : Reachable n b c) :
    Reachable n a c := by
  induction h2 with
  | refl => exact h1
  | step d _ hl ih => exact Reachable.step d ih hl

theorem Reachable.inv {n : Nat} {a b : Board} (ha : Inv n a) (h : Reachable n a b) : Inv n b := by
  induction h with
  | refl => exact ha
  | step d _ _ ih => exact slideB_inv ih d

/-- one slide (legal or ignored) stays reachable -/
theorem reach_slide {n : Nat} (b : Board) (a : Nat) : Reachable n b (slideB n b a) := by
  by_cases hl : legalB n b a
  · exact Reachable.step a (Reachable.refl b) hl
  · rw [slideB_illegal hl]; exact Reachable.refl b

/-- C17: every legal slide can be undone, so reachability is symmetric on well-formed boards -/
theorem Reachable.symm {n : Nat} {a b : Board} (ha : Inv n a) (h : Reachable n a b) : Reachable n b a := by
  induction h with
  | refl => exact Reachable.refl _
  | @step c d hc hl ih =>
    have hic : Inv n c := Reachable.inv ha hc
    obtain ⟨hl', he⟩ := opposite_cancel hic hl
    have back : Reachable n (slideB n c d) c := by
      have := Reachable.step (opposite d) (Reachable.refl (slideB n c d)) hl'
      rwa [he] at this
    exact back.trans ih

theorem validDraw_zero (b : Board) (d : Nat) : validDraw 0 b d = false := by
  match d with
  | 0 | 1 | 2 | 3 => simp [validDraw, validActions, MOVES, inGrid]; try omega
  | (k+4) => simp [validDraw, validActions, MOVES]

theorem fold_reach {n : Nat} (ds : List Nat) (b : Board) (hb : Inv n b) (hv : validDraws n b ds = true) :
    Reachable n b (ds.foldl randomMove b) := by
  induction ds generalizing b with
  | nil => exact Reachable.refl b
  | cons d ds ih =>
    simp only [validDraws, Bool.and_eq_true] at hv
    have hl : legalB n b d := (mask_iff_legal n b d).1 hv.1
    have he := randomMove_eq_slideB hb hl
    simp only [List.foldl_cons]
    have h1 : Reachable n b (randomMove b d) := by rw [he]; exact reach_slide b d
    exact h1.trans (ih _ (by rw [he]; exact slideB_inv hb d) hv.2)

/-- C10: the random walk from the solved board (any tape of possible draws, any grid size) yields a
well-formed board that is reachable from the goal and solvable back to it -/
theorem walk_solvable (n : Nat) (ds : List Nat) (hv : validDraws n (startBoard n) ds = true) :
    Reachable n (goalBoard n) (walk n ds) ∧ Solvable n (walk n ds) ∧ (0 < n → Inv n (walk n ds)) := by
  by_cases hn : n = 0
  · subst hn
    cases ds with
    | nil => exact ⟨by rw [walk, List.foldl_nil, startBoard_eq]; exact Reachable.refl _,
                    by rw [Solvable, walk, List.foldl_nil, startBoard_eq]; exact Reachable.refl _, by omega⟩
    | cons d ds => simp [validDraws, validDraw_zero] at hv
  · have hg : Inv n (goalBoard n) := goal_inv (by omega)
    have hr : Reachable n (goalBoard n) (walk n ds) := by
      unfold walk; rw [startBoard_eq] at hv ⊢; exact fold_reach ds _ hg hv
    exact ⟨hr, hr.symm hg, fun _ => hr.inv hg⟩



/-! ### rewards -/

def agreeRow (a g : List Int) : Nat := ((List.zipWith (fun x z => decide (x = z)) a g).filter id).length

theorem row_tel (a b g : List Int) (h1 : a.length = g.length) (h2 : b.length = g.length) :
    ((((List.zipWith (fun (x : Int × Int) z => decide (x.2 = z) && decide (x.1 ≠ z)) (List.zipWith (fun x y => (x, y)) a b) g).filter id).length : Nat) : Int)
    - ((((List.zipWith (fun (x : Int × Int) z => decide (x.2 ≠ z) && decide (x.1 = z)) (List.zipWith (fun x y => (x, y)) a b) g).filter id).length : Nat) : Int)
    = (agreeRow b g : Int) - (agreeRow a g : Int) := by
  induction g generalizing a b with
  | nil => simp [agreeRow]
  | cons z g ih =>
    cases a with
    | nil => simp at h1
    | cons x a =>
      cases b with
      | nil => simp at h2
      | cons y b =>
        simp only [List.length_cons, Nat.add_right_cancel_iff] at h1 h2
        have := ih a b h1 h2
        simp only [agreeRow, List.zipWith_cons_cons, List.filter_cons, ne_eq, decide_not] at this ⊢
        by_cases e1 : x = z <;> by_cases e2 : y = z <;> simp [e1, e2] <;> omega

theorem grid_tel (m : Nat) (a b g : Grid Int) (ha : a.length = g.length) (hb : b.length = g.length)
    (ra : ∀ row ∈ a, row.length = m) (rb : ∀ row ∈ b, row.length = m) (rg : ∀ row ∈ g, row.length = m) :
    countCells3 (fun c x z => decide (x = z) && decide (c ≠ z)) a b g
    - countCells3 (fun c x z => decide (x ≠ z) && decide (c = z)) a b g
    = (agree b g : Int) - (agree a g : Int) := by
  induction g generalizing a b with
  | nil => simp [countCells3, agree, Grid.zipWith, Grid.flatten, Grid.count]
  | cons z g ih =>
    cases a with
    | nil => simp at ha
    | cons x a =>
      cases b with
      | nil => simp at hb
      | cons y b =>
        simp only [List.length_cons, Nat.add_right_cancel_iff] at ha hb
        have hx : x.length = z.length := by rw [ra x (by simp), rg z (by simp)]
        have hy : y.length = z.length := by rw [rb y (by simp), rg z (by simp)]
        have t := ih a b ha hb (fun r hr => ra r (by simp [hr])) (fun r hr => rb r (by simp [hr]))
          (fun r hr => rg r (by simp [hr]))
        have h := row_tel x y z hx hy
        simp only [countCells3, agree, agreeRow, Grid.zipWith, Grid.flatten, Grid.count, List.zipWith_cons_cons,
          List.flatten_cons, List.filter_append, List.length_append] at t h ⊢
        omega

/-- C08: `DenseRewardFn` = change in the number of correctly placed tiles -/
theorem dense_eq {n : Nat} {cur next : Grid Int} (hc : Grid.shaped cur n n = true) (hn : Grid.shaped next n n = true) :
    denseReward n cur next = ((correct n next - correct n cur : Int) : Rat) := by
  unfold denseReward correct
  simp only [solved_eq_goal]
  have hg := shaped_iff.1 (tabulate_shaped n (fun r c => if r + 1 = n ∧ c + 1 = n then 0 else ((r * n + c + 1 : Nat) : Int)))
  have h1 := shaped_iff.1 hc
  have h2 := shaped_iff.1 hn
  rw [grid_tel n cur next (goal n) (by rw [h1.1]; exact hg.1.symm) (by rw [h2.1]; exact hg.1.symm) h1.2 h2.2 hg.2]



/-! ### the step -/

/-- C04: the environment's own validity test agrees with the rules -/
theorem isValidMove_iff_legal (n : Nat) (b : Board) {a : Nat} (ha : a < 4) :
    isValidMove n b.2 (a : Int) = true ↔ legalB n b a := by
  unfold isValidMove
  simp only [moves_get ha]
  rw [← mask_iff_legal]
  match a, ha with
  | 0, _ | 1, _ | 2, _ | 3, _ => simp [validActions, MOVES]

theorem moveEmptyTile_illegal {n : Nat} {b : Board} {a : Nat} (ha : a < 4) (hl : ¬ legalB n b a) :
    moveEmptyTile n b (a : Int) = b := by
  have : isValidMove n b.2 (a : Int) = false := by
    cases hh : isValidMove n b.2 (a : Int)
    · rfl
    · exact absurd ((isValidMove_iff_legal n b ha).1 hh) hl
  unfold moveEmptyTile
  simp [this]

/-- the L1 mask is the list of L2 legalities -/
theorem mask_eq (n : Nat) (b : Board) :
    validActions n b.2 = (List.range 4).map (fun a => decide (legalB n b a)) := by
  have e : ∀ (x : Bool) (p : Prop) [Decidable p], (x = true ↔ p) → x = decide p := by
    intro x p _ h; cases x <;> simp_all
  apply List.ext_getElem (by simp [validActions, MOVES])
  intro i h1 h2
  have h := mask_iff_legal n b i
  rw [List.getD_eq_getElem?_getD, List.getElem?_eq_getElem h1, Option.getD_some] at h
  simp only [List.getElem_map, List.getElem_range]
  exact e _ _ h

theorem observe_eq (n : Nat) (s : State) : observe n s = observeL2 n s := by
  unfold observe observeL2 legal
  rw [show s.empty = s.board.2 from rfl, mask_eq n s.board]

/-- C09: the L1 step is the L2 step (state, step type, reward, discount, observation) -/
theorem step_eq_stepL2 (cfg : Cfg) (s : State) {a : Nat} (ha : a < 4) (h : Inv cfg.n s.board) :
    step cfg s (a : Int) = stepL2 cfg s a := by
  have hi := slideB_inv h a
  unfold step stepL2
  rw [show (s.puzzle, s.empty) = s.board from rfl, moveEmptyTile_eq_slideB h ha]
  generalize slideB cfg.n s.board a = b' at hi ⊢
  obtain ⟨g', e'⟩ := b'
  simp only
  have hs : isSolved cfg.n g' = decide (g' = goal cfg.n) := by simp [isSolved, solved_eq_goal]
  have hm : validActions cfg.n e' = (List.range 4).map (fun a => decide (legal cfg.n
      { puzzle := g', empty := e', stepCount := s.stepCount + 1 } a)) := mask_eq cfg.n (g', e')
  have hr : denseReward cfg.n s.puzzle g' = ((correct cfg.n g' - correct cfg.n s.puzzle : Int) : Rat) :=
    dense_eq h.1 hi.1
  simp only [hs, hm, hr, sparseReward, observeL2, ge_iff_le]

theorem step_board (cfg : Cfg) (s : State) {a : Nat} (ha : a < 4) (h : Inv cfg.n s.board) :
    (step cfg s (a : Int)).1.board = slideB cfg.n s.board a := by
  rw [step_eq_stepL2 cfg s ha h]; rfl

theorem step_count (cfg : Cfg) (s : State) (a : Int) : (step cfg s a).1.stepCount = s.stepCount + 1 := by
  unfold step; rfl

/-- C05: an illegal move is ignored: board and blank untouched, the step is counted, and the episode ends
only for another cause (board already the goal, or time limit) -/
theorem illegal_ignored (cfg : Cfg) (s : State) {a : Nat} (ha : a < 4) (hl : ¬ legal cfg.n s a) :
    (step cfg s (a : Int)).1.puzzle = s.puzzle ∧ (step cfg s (a : Int)).1.empty = s.empty ∧
    (step cfg s (a : Int)).1.stepCount = s.stepCount + 1 ∧
    ((step cfg s (a : Int)).2.stepType = .last → s.puzzle = goal cfg.n ∨ cfg.timeLimit ≤ s.stepCount + 1) := by
  have hm := moveEmptyTile_illegal ha hl
  unfold step
  rw [show (s.puzzle, s.empty) = s.board from rfl, hm]
  refine ⟨rfl, rfl, rfl, ?_⟩
  simp only [State.board, condLast]
  by_cases hd : (isSolved cfg.n s.puzzle || decide (s.stepCount + 1 ≥ cfg.timeLimit)) = true
  · intro _
    simpa [isSolved_iff] using hd
  · intro hh; simp [hd, transition] at hh

/-- C12: the observation of a step is the observation function of the successor state (any action) -/
theorem obs_faithful (cfg : Cfg) (s : State) (a : Int) :
    (step cfg s a).2.obs = observe cfg.n (step cfg s a).1 := by
  unfold step condLast
  simp only
  split <;> rfl

/-- C11: a step is LAST exactly when the new board is the goal or the time limit is reached -/
theorem last_iff (cfg : Cfg) (s : State) (a : Int) :
    (step cfg s a).2.stepType = .last ↔
      ((step cfg s a).1.puzzle = goal cfg.n ∨ cfg.timeLimit ≤ (step cfg s a).1.stepCount) := by
  unfold step condLast
  simp only
  split
  · rename_i hd
    simp [termination]
    simpa [isSolved_iff] using hd
  · rename_i hd
    simp [transition]
    simpa [isSolved_iff] using hd

/-! ### episodes -/

/-- play a list of actions: final state and the sum of rewards -/
def play (cfg : Cfg) : State → List Nat → State × Rat
  | s, [] => (s, 0)
  | s, a :: as =>
    let (s', ts) := step cfg s (a : Int)
    let (sf, r) := play cfg s' as
    (sf, ts.reward.sum + r)

theorem play_reach (cfg : Cfg) (as : List Nat) (s : State) (hs : Inv cfg.n s.board) (ha : ∀ a ∈ as, a < 4) :
    Reachable cfg.n s.board (play cfg s as).1.board ∧ Inv cfg.n (play cfg s as).1.board := by
  induction as generalizing s with
  | nil => exact ⟨Reachable.refl _, hs⟩
  | cons a as ih =>
    have h4 : a < 4 := ha a (by simp)
    have hb := step_board cfg s h4 hs
    have hi : Inv cfg.n (step cfg s (a : Int)).1.board := by rw [hb]; exact slideB_inv hs a
    obtain ⟨r, i⟩ := ih (step cfg s (a : Int)).1 hi (fun x hx => ha x (by simp [hx]))
    simp only [play]
    refine ⟨?_, i⟩
    have : Reachable cfg.n s.board (step cfg s (a : Int)).1.board := by rw [hb]; exact reach_slide _ a
    exact this.trans r

/-- C08: the dense return of any sequence of actions is the change in correctly placed tiles -/
theorem dense_return (cfg : Cfg) (hd : cfg.dense = true) (as : List Nat) (s : State) (hs : Inv cfg.n s.board)
    (ha : ∀ a ∈ as, a < 4) :
    (play cfg s as).2 = ((correct cfg.n (play cfg s as).1.puzzle - correct cfg.n s.puzzle : Int) : Rat) := by
  induction as generalizing s with
  | nil => simp [play]
  | cons a as ih =>
    have h4 : a < 4 := ha a (by simp)
    have hb := step_board cfg s h4 hs
    have hi : Inv cfg.n (step cfg s (a : Int)).1.board := by rw [hb]; exact slideB_inv hs a
    have t := ih (step cfg s (a : Int)).1 hi (fun x hx => ha x (by simp [hx]))
    have hr : (step cfg s (a : Int)).2.reward =
        [((correct cfg.n (step cfg s (a : Int)).1.puzzle - correct cfg.n s.puzzle : Int) : Rat)] := by
      rw [step_eq_stepL2 cfg s h4 hs]
      simp [stepL2, hd, condLast]
      split <;> rfl
    simp only [play]
    rw [t, hr]
    simp only [List.sum_cons, List.sum_nil, Rat.add_zero]
    rw [← Rat.intCast_add]
    congr 1
    omega



/-! ### the goal (and so every generated board) contains every tile once -/

theorem flatten_chunks (l : List Int) (n k : Nat) :
    (List.map (fun r => (l.drop (r * n)).take n) (List.range k)).flatten = l.take (k * n) := by
  induction k with
  | zero => simp
  | succ k ih =>
    rw [List.range_succ, List.map_append, List.flatten_append, ih, Nat.succ_mul, List.take_add]
    simp

theorem flatten_reshape {l : List Int} {n : Nat} (hl : l.length = n * n) : Grid.flatten (reshape n l) = l := by
  unfold Grid.flatten reshape
  rw [flatten_chunks, ← hl, List.take_length]

theorem goal_isPermutation (n : Nat) : IsPermutation n (goal n) := by
  unfold IsPermutation
  rw [← solved_eq_goal]
  unfold solvedPuzzle
  rw [flatten_reshape (by simp [Jx.setWD_length])]
  cases hm : n * n with
  | zero => simp [Jx.setWD]
  | succ k =>
    have hset : Jx.setWD ((List.range' 1 (k + 1)).map (fun (i : Nat) => (i : Int))) (-1) 0
        = ((List.range' 1 (k + 1)).map (fun (i : Nat) => (i : Int))).set k 0 := by
      have : ((-1 : Int)) + (((k + 1 : Nat)) : Int) = ((k : Nat) : Int) := by omega
      unfold Jx.setWD Jx.wrapIdx
      simp only [List.length_map, List.length_range']
      have a0 : ((-1 : Int) < 0) := by omega
      simp only [a0, if_true, this]
      have a1 : ¬ (((k : Nat) : Int) < 0) := by omega
      have a2 : ¬ (((k : Nat) : Int) ≥ ((k + 1 : Nat) : Int)) := by omega
      simp only [a1, a2, if_false, Int.toNat_natCast]
    rw [hset, List.range'_concat, List.map_append, List.set_append_right _ _ (by simp)]
    simp only [List.length_map, List.length_range', Nat.sub_self, List.map_cons, List.map_nil, List.set_cons_zero]
    rw [List.range_eq_range', List.range'_succ, List.map_cons]
    simp only [Nat.zero_add, Int.natCast_zero]
    exact (List.perm_append_comm (l₁ := List.map (fun (i : Nat) => (i : Int)) (List.range' 1 k)) (l₂ := [0]))

theorem fold_perm {n : Nat} (ds : List Nat) (b : Board) (hb : Inv n b) (hv : validDraws n b ds = true)
    (hp : IsPermutation n b.1) : IsPermutation n (ds.foldl randomMove b).1 := by
  induction ds generalizing b with
  | nil => exact hp
  | cons d ds ih =>
    simp only [validDraws, Bool.and_eq_true] at hv
    have hl : legalB n b d := (mask_iff_legal n b d).1 hv.1
    have he := randomMove_eq_slideB hb hl
    simp only [List.foldl_cons]
    exact ih _ (by rw [he]; exact slideB_inv hb d) hv.2 (by rw [he]; exact slideB_isPermutation hb d hp)

/-- C10/C17: the reset board is a permutation of the tiles `0 … n²-1` -/
theorem walk_isPermutation (n : Nat) (hn : 0 < n) (ds : List Nat) (hv : validDraws n (startBoard n) ds = true) :
    IsPermutation n (walk n ds).1 := by
  unfold walk
  rw [startBoard_eq] at hv ⊢
  exact fold_perm ds _ (goal_inv hn) hv (goal_isPermutation n)


end SlidingTilePuzzle
