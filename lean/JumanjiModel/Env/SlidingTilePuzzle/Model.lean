/-
SlidingTilePuzzle (jumanji/environments/logic/sliding_tile_puzzle/{env,reward,generator,constants}.py).
Import-free.

L1 = transliteration of `step`, `_move_empty_tile`, `_get_valid_actions`, `DenseRewardFn`,
`SparseRewardFn`, `Generator.make_solved_puzzle`, `RandomWalkGenerator.__call__` /
`_make_random_move` / `_swap_tiles` (the random choice of a move is the draw parameter).
L2 = the rules as documented (docs/environments/sliding_tile_puzzle.md): the blank slides up (0),
right (1), down (2) or left (3) when that neighbouring cell exists; sliding exchanges the blank with the
neighbouring tile; the goal has tile `r*n+c+1` at `(r,c)` and the blank in the last cell.
-/
import JumanjiModel.Prim.Idx
import JumanjiModel.Prim.Grid
import JumanjiModel.Core.TimeStep
namespace SlidingTilePuzzle
open Jm Jx

abbrev Pos := Int × Int
/-- puzzle array and `empty_tile_position` -/
abbrev Board := Grid Int × Pos

structure State where
  puzzle : Grid Int
  empty : Pos
  stepCount : Int
  deriving Repr, DecidableEq

def State.board (s : State) : Board := (s.puzzle, s.empty)

structure Obs where
  puzzle : Grid Int
  empty : Pos
  mask : List Bool
  stepCount : Int
  deriving Repr, DecidableEq

/-! ### L1 -/

/-- `constants.MOVES = [UP, RIGHT, DOWN, LEFT]` -/
def MOVES : List Pos := [(-1, 0), (0, 1), (1, 0), (0, -1)]

/-- `jnp.all((p >= 0) & (p < grid_size))` -/
def inGrid (n : Nat) (p : Pos) : Bool :=
  decide (0 ≤ p.1) && decide (p.1 < (n : Int)) && decide (0 ≤ p.2) && decide (p.2 < (n : Int))

/-- `_get_valid_actions`: `jnp.all((empty + MOVES >= 0) & (empty + MOVES < grid_size), axis=-1)` -/
def validActions (n : Nat) (e : Pos) : List Bool :=
  MOVES.map (fun d => inGrid n (e.1 + d.1, e.2 + d.2))

/-- `is_valid_move` of `_move_empty_tile`: the environment's own test of the action -/
def isValidMove (n : Nat) (e : Pos) (a : Int) : Bool :=
  let d := Jx.getWC MOVES (0, 0) a
  inGrid n (e.1 + d.1, e.2 + d.2)

/-- `_move_empty_tile` (the scatter/gather are computed before the `lax.cond`, as in the source) -/
def moveEmptyTile (n : Nat) (b : Board) (a : Int) : Board :=
  let p := b.1
  let e := b.2
  let d := Jx.getWC MOVES (0, 0) a
  let ne : Pos := (e.1 + d.1, e.2 + d.2)
  let isValid := isValidMove n e a
  let up := Grid.setWD p e.1 e.2 (Grid.getWC p 0 ne.1 ne.2)
  let up := Grid.setWD up ne.1 ne.2 0
  if isValid then (up, ne) else (p, e)

/-- `jnp.arange(1, n**2 + 1).at[-1].set(0).reshape((n, n))` -/
def reshape {α} (n : Nat) (l : List α) : Grid α :=
  (List.range n).map (fun r => (l.drop (r * n)).take n)

def solvedPuzzle (n : Nat) : Grid Int :=
  reshape n (Jx.setWD ((List.range' 1 (n * n)).map (fun (k : Nat) => (k : Int))) (-1) 0)

/-- `jnp.array_equal(puzzle, solved_puzzle)` -/
def isSolved (n : Nat) (p : Grid Int) : Bool := decide (p = solvedPuzzle n)

/-- number of cells where `f x goal` holds (`jnp.sum` of a boolean array built cell-wise) -/
def countCells3 (f : Int → Int → Int → Bool) (a b g : Grid Int) : Int :=
  ((Grid.flatten (Grid.zipWith (fun (x : Int × Int) z => f x.1 x.2 z)
      (Grid.zipWith (fun x y => (x, y)) a b) g)).filter id).length

/-- `DenseRewardFn`: newly correct − newly incorrect -/
def denseReward (n : Nat) (cur next : Grid Int) : Rat :=
  let g := solvedPuzzle n
  let newCorrect := countCells3 (fun c x z => decide (x = z) && decide (c ≠ z)) cur next g
  let newIncorrect := countCells3 (fun c x z => decide (x ≠ z) && decide (c = z)) cur next g
  ((newCorrect - newIncorrect : Int) : Rat)

/-- `SparseRewardFn` -/
def sparseReward (n : Nat) (next : Grid Int) : Rat := if isSolved n next then 1 else 0

structure Cfg where
  n : Nat
  dense : Bool
  timeLimit : Int
  deriving Repr

def observe (n : Nat) (s : State) : Obs :=
  { puzzle := s.puzzle, empty := s.empty, mask := validActions n s.empty, stepCount := s.stepCount }

def step (cfg : Cfg) (s : State) (a : Int) : State × TimeStep Obs :=
  let (up, ue) := moveEmptyTile cfg.n (s.puzzle, s.empty) a
  let done := isSolved cfg.n up
  let mask := validActions cfg.n ue
  let s' : State := { puzzle := up, empty := ue, stepCount := s.stepCount + 1 }
  let o : Obs := { puzzle := up, empty := ue, mask := mask, stepCount := s'.stepCount }
  let r := if cfg.dense then denseReward cfg.n s.puzzle s'.puzzle else sparseReward cfg.n s'.puzzle
  (s', condLast (done || decide (s'.stepCount ≥ cfg.timeLimit)) [r] o)

/-- `reset` builds its observation from the generated state -/
def resetTimeStep (n : Nat) (s : State) : TimeStep Obs := restart (observe n s)

/-! #### the generator -/

/-- `_swap_tiles` -/
def swapTiles (p : Grid Int) (p1 p2 : Pos) : Grid Int :=
  let temp := Grid.getWC p 0 p1.1 p1.2
  let p := Grid.setWD p p1.1 p1.2 (Grid.getWC p 0 p2.1 p2.2)
  Grid.setWD p p2.1 p2.2 temp

/-- `_make_random_move` with the outcome of `jax.random.choice(key, MOVES, p=valid_moves_mask)` given as
the index `d` of the chosen row of `MOVES` -/
def randomMove (b : Board) (d : Nat) : Board :=
  let mv := MOVES.getD d (0, 0)
  let ne : Pos := (b.2.1 + mv.1, b.2.2 + mv.2)
  (swapTiles b.1 b.2 ne, ne)

/-- a draw is possible iff its probability weight (the valid-moves mask) is non-zero -/
def validDraw (n : Nat) (b : Board) (d : Nat) : Bool := (validActions n b.2).getD d false

def startBoard (n : Nat) : Board := (solvedPuzzle n, (((n : Int) - 1), ((n : Int) - 1)))

/-- `RandomWalkGenerator.__call__`: `lax.scan` of `_make_random_move` from the solved board -/
def walk (n : Nat) (draws : List Nat) : Board := draws.foldl randomMove (startBoard n)

/-- all draws of the tape were possible -/
def validDraws (n : Nat) : Board → List Nat → Bool
  | _, [] => true
  | b, d :: ds => validDraw n b d && validDraws n (randomMove b d) ds

def genState (n : Nat) (draws : List Nat) : State :=
  let b := walk n draws
  { puzzle := b.1, empty := b.2, stepCount := 0 }

/-- `SlidingTilePuzzle.reset` after the generator's moves have been drawn: the generated state and
`restart(observation)` with the observation built from it -/
def reset (cfg : Cfg) (draws : List Nat) : State × TimeStep Obs :=
  (genState cfg.n draws, resetTimeStep cfg.n (genState cfg.n draws))

/-- an episode without auto-reset: `step` iterated over the action list; every (successor state, timestep) is listed and,
like the implementation, stepping simply continues after LAST -/
def run (cfg : Cfg) : State → List Int → List (State × TimeStep Obs)
  | _, [] => []
  | s, a :: as => step cfg s a :: run cfg (step cfg s a).1 as

/-! ### L2: the rules -/

/-- content of cell `p` (0 outside the board) -/
def cell (g : Grid Int) (p : Pos) : Int :=
  if 0 ≤ p.1 ∧ 0 ≤ p.2 then Grid.get g 0 p.1.toNat p.2.toNat else 0

def onBoard (n : Nat) (p : Pos) : Prop := 0 ≤ p.1 ∧ p.1 < n ∧ 0 ≤ p.2 ∧ p.2 < n
instance (n : Nat) (p : Pos) : Decidable (onBoard n p) := by unfold onBoard; infer_instance

/-- the cell next to `e` in direction `a`: up (0), right (1), down (2), left (3) -/
def target (e : Pos) : Nat → Option Pos
  | 0 => some (e.1 - 1, e.2)
  | 1 => some (e.1, e.2 + 1)
  | 2 => some (e.1 + 1, e.2)
  | 3 => some (e.1, e.2 - 1)
  | _ => none

/-- the blank may slide in direction `a` iff that neighbouring cell exists on the board -/
def legalB (n : Nat) (b : Board) (a : Nat) : Prop :=
  match target b.2 a with
  | some p => onBoard n p
  | none => False

instance (n : Nat) (b : Board) (a : Nat) : Decidable (legalB n b a) := by
  unfold legalB; split <;> infer_instance

def legal (n : Nat) (s : State) (a : Nat) : Prop := legalB n s.board a
instance (n : Nat) (s : State) (a : Nat) : Decidable (legal n s a) := by unfold legal; infer_instance

/-- the `n × n` board given by a function of the coordinates -/
def tabulate (n : Nat) (f : Nat → Nat → Int) : Grid Int :=
  (List.range n).map (fun r => (List.range n).map (fun c => f r c))

/-- exchange the contents of cells `p` and `q` -/
def swapCells (n : Nat) (g : Grid Int) (p q : Pos) : Grid Int :=
  tabulate n (fun r c =>
    let x : Pos := ((r : Int), (c : Int))
    if x = p then cell g q else if x = q then cell g p else cell g x)

/-- sliding the blank in direction `a`: a legal move exchanges the blank with that neighbour and the blank
is then there; an illegal move is ignored -/
def slideB (n : Nat) (b : Board) (a : Nat) : Board :=
  match target b.2 a with
  | some p => if onBoard n p then (swapCells n b.1 b.2 p, p) else b
  | none => b

def opposite (a : Nat) : Nat := (a + 2) % 4

/-- the goal: tiles `1 … n²-1` in reading order, blank (0) in the last cell -/
def goal (n : Nat) : Grid Int :=
  tabulate n (fun r c => if r + 1 = n ∧ c + 1 = n then 0 else ((r * n + c + 1 : Nat) : Int))

def goalBoard (n : Nat) : Board := (goal n, (((n : Int) - 1), ((n : Int) - 1)))

/-- number of cells of `g` that agree with `h` -/
def agree (g h : Grid Int) : Nat := Grid.count id (Grid.zipWith (fun x z => decide (x = z)) g h)

/-- number of tiles (cells) in their goal place -/
def correct (n : Nat) (g : Grid Int) : Int := ((agree g (goal n) : Nat) : Int)

/-- well-formed board: `n × n`, blank position on the board and holding the blank -/
def Inv (n : Nat) (b : Board) : Prop :=
  Grid.shaped b.1 n n = true ∧ onBoard n b.2 ∧ cell b.1 b.2 = 0

instance (n : Nat) (b : Board) : Decidable (Inv n b) := by unfold Inv; infer_instance

/-- every tile `0 … n²-1` occurs exactly once -/
def IsPermutation (n : Nat) (g : Grid Int) : Prop :=
  (Grid.flatten g).Perm ((List.range (n * n)).map (fun (k : Nat) => (k : Int)))

/-- executable form of `IsPermutation` -/
def isPermutationB (n : Nat) (g : Grid Int) : Bool :=
  (Grid.flatten g).length == n * n &&
  (List.range (n * n)).all (fun k => (Grid.flatten g).count ((k : Nat) : Int) == 1)

/-- positions reachable by legal slides -/
inductive Reachable (n : Nat) : Board → Board → Prop
  | refl (b : Board) : Reachable n b b
  | step {b c : Board} (a : Nat) : Reachable n b c → legalB n c a → Reachable n b (slideB n c a)

/-- `b` can be solved: the goal is reachable from it -/
def Solvable (n : Nat) (b : Board) : Prop := Reachable n b (goalBoard n)

/-- documented observation: the board, the blank position, which directions are legal, the step count -/
def observeL2 (n : Nat) (s : State) : Obs :=
  { puzzle := s.puzzle, empty := s.empty,
    mask := (List.range 4).map (fun a => decide (legal n s a)), stepCount := s.stepCount }

/-- L2 transition: slide, count the step; the episode ends when the goal is reached or at the time limit;
dense reward = change in the number of correctly placed tiles, sparse reward = 1 iff now solved -/
def stepL2 (cfg : Cfg) (s : State) (a : Nat) : State × TimeStep Obs :=
  let b := slideB cfg.n s.board a
  let s' : State := { puzzle := b.1, empty := b.2, stepCount := s.stepCount + 1 }
  let solved := decide (b.1 = goal cfg.n)
  let r : Rat := if cfg.dense then ((correct cfg.n b.1 - correct cfg.n s.puzzle : Int) : Rat)
                 else (if solved then 1 else 0)
  (s', condLast (solved || decide (cfg.timeLimit ≤ s'.stepCount)) [r] (observeL2 cfg.n s'))

/-! #### decision procedure used only as failing-input search (C10): the classical parity criterion.
Not linked to `Solvable` by a theorem. -/

def inversions : List Int → Nat
  | [] => 0
  | x :: xs => (xs.filter (fun y => decide (y < x))).length + inversions xs

/-- parity criterion for an `n × n` board with blank at row `r` (goal: blank last):
inversions of the tiles (blank removed) + (for even `n`) distance of the blank's row from the bottom is even -/
def parityOK (n : Nat) (b : Board) : Bool :=
  let tiles := (Grid.flatten b.1).filter (fun x => decide (x ≠ 0))
  let inv := inversions tiles
  if n % 2 = 1 then inv % 2 == 0 else (inv + (n - 1 - b.2.1.toNat)) % 2 == 0

end SlidingTilePuzzle
