/-
SlidingTilePuzzle — C01: proved value bounds of the observation leaves.

Real spec (`n` = grid_size): `puzzle` BoundedArray(int32, 0, n²-1), `empty_tile_position` BoundedArray(int32, 0, n-1),
`action_mask` bool, `step_count` BoundedArray(int32, 0, time_limit).
-/
import JumanjiModel.Env.SlidingTilePuzzle.Model
import JumanjiModel.Env.PuzzleBounds
namespace SlidingTilePuzzle
open Jm Jx PzB

/-- interval of every observation leaf, as a function of the configuration -/
def obsBounds (cfg : Cfg) : Table :=
  [("puzzle", iv 0 (((cfg.n * cfg.n : Nat) : Int) - 1)), ("empty_tile_position", iv 0 ((cfg.n : Int) - 1)),
   ("action_mask", iv 0 1), ("step_count", iv 0 cfg.timeLimit)]

/-- the numeric leaves of an observation, flattened -/
def obsLeaves (o : Obs) : Leaves :=
  [("puzzle", ints2 o.puzzle), ("empty_tile_position", [o.empty.1, o.empty.2]), ("action_mask", bools o.mask),
   ("step_count", [o.stepCount])]

/-- every cell holds a tile number `0 … n²-1` and the recorded blank position is on the board -/
def InRange (n : Nat) (b : Board) : Prop :=
  GridAll (fun v => 0 ≤ v ∧ v ≤ ((n * n : Nat) : Int) - 1) b.1 ∧
  (0 ≤ b.2.1 ∧ b.2.1 ≤ (n : Int) - 1) ∧ (0 ≤ b.2.2 ∧ b.2.2 ≤ (n : Int) - 1)

instance (n : Nat) (b : Board) : Decidable (InRange n b) := by unfold InRange GridAll; infer_instance

/-- the invariants used by C09/C17 (`Inv`: shape and blank position; `IsPermutation`: every tile once) give `InRange` -/
theorem inRange_of_inv (n : Nat) (b : Board) (hi : Inv n b) (hp : IsPermutation n b.1) : InRange n b := by
  refine ⟨?_, ?_, ?_⟩
  · intro row hrow v hv
    have hm : v ∈ Grid.flatten b.1 := List.mem_flatten.mpr ⟨row, hrow, hv⟩
    have := (List.Perm.mem_iff hp).mp hm
    simp only [List.mem_map, List.mem_range] at this
    obtain ⟨k, hk, rfl⟩ := this
    omega
  · have := hi.2.1; unfold onBoard at this; omega
  · have := hi.2.1; unfold onBoard at this; omega

theorem inGrid_bounds {n : Nat} {p : Pos} (h : inGrid n p = true) :
    (0 ≤ p.1 ∧ p.1 ≤ (n : Int) - 1) ∧ (0 ≤ p.2 ∧ p.2 ≤ (n : Int) - 1) := by
  simp only [inGrid, Bool.and_eq_true, decide_eq_true_eq] at h
  omega

/-- `InRange` is preserved by `_move_empty_tile` for ANY action value (the gather/scatter only move cell contents) -/
theorem move_inRange (n : Nat) (b : Board) (a : Int) (h : InRange n b) : InRange n (moveEmptyTile n b a) := by
  have hn : 1 ≤ n * n := by
    have : 1 ≤ n := by have := h.2.1; omega
    exact Nat.mul_pos this this
  let P : Int → Prop := fun v => 0 ≤ v ∧ v ≤ ((n * n : Nat) : Int) - 1
  have h0 : P 0 := by show (0 : Int) ≤ 0 ∧ (0 : Int) ≤ ((n * n : Nat) : Int) - 1; omega
  have h1 : GridAll P b.1 := h.1
  unfold moveEmptyTile
  simp only
  split
  · rename_i hv
    refine ⟨?_, inGrid_bounds hv⟩
    exact gridAll_gridSetWD (P := P) _ _ (gridAll_gridSetWD (P := P) _ _ h1 (gridGetWC_of_all (P := P) _ _ h1 h0)) h0
  · exact h

theorem obs_in_bounds (cfg : Cfg) (o : Obs) (h : InRange cfg.n (o.puzzle, o.empty))
    (hs : 0 ≤ o.stepCount ∧ o.stepCount ≤ cfg.timeLimit) : ObsInBounds (obsBounds cfg) (obsLeaves o) := by
  refine ⟨by simp [obsBounds, obsLeaves], ?_⟩
  intro k b hk vs hvs
  simp only [obsBounds, obsLeaves, List.mem_cons, Prod.mk.injEq, List.not_mem_nil, or_false] at hk hvs
  rcases hk with ⟨rfl, rfl⟩ | ⟨rfl, rfl⟩ | ⟨rfl, rfl⟩ | ⟨rfl, rfl⟩ <;>
    rcases hvs with ⟨h', rfl⟩ | ⟨h', rfl⟩ | ⟨h', rfl⟩ | ⟨h', rfl⟩ <;>
    first
      | exact absurd h' (by decide)
      | exact allIn_ints2 _ _ _ h.1
      | exact allIn_bools _
      | exact allIn_single _ _ _ hs
      | (apply allIn_ints; intro v hv; simp only [List.mem_cons, List.not_mem_nil, or_false] at hv
         rcases hv with rfl | rfl
         · exact h.2.1
         · exact h.2.2)

theorem step_obs (cfg : Cfg) (s : State) (a : Int) :
    (step cfg s a).2.obs =
      { puzzle := (moveEmptyTile cfg.n (s.puzzle, s.empty) a).1, empty := (moveEmptyTile cfg.n (s.puzzle, s.empty) a).2,
        mask := validActions cfg.n (moveEmptyTile cfg.n (s.puzzle, s.empty) a).2, stepCount := s.stepCount + 1 } := by
  simp [step]

theorem step_board_inRange (cfg : Cfg) (s : State) (a : Int) (h : InRange cfg.n s.board) :
    InRange cfg.n (step cfg s a).1.board := by
  have : (step cfg s a).1.board = moveEmptyTile cfg.n (s.puzzle, s.empty) a := by simp [step, State.board]
  rw [this]; exact move_inRange cfg.n _ a h

theorem step_obs_in_bounds (cfg : Cfg) (s : State) (a : Int) (h : InRange cfg.n s.board)
    (hs : 0 ≤ s.stepCount ∧ s.stepCount < cfg.timeLimit) :
    ObsInBounds (obsBounds cfg) (obsLeaves (step cfg s a).2.obs) := by
  rw [step_obs]
  exact obs_in_bounds cfg _ (move_inRange cfg.n _ a h) (by simp only; omega)

theorem reset_obs_in_bounds (cfg : Cfg) (s : State) (h : InRange cfg.n s.board) (h0 : s.stepCount = 0)
    (hT : 0 ≤ cfg.timeLimit) : ObsInBounds (obsBounds cfg) (obsLeaves (resetTimeStep cfg.n s).obs) := by
  simp only [resetTimeStep, restart_obs, observe]
  exact obs_in_bounds cfg _ h (by simp only; omega)

end SlidingTilePuzzle
