/-
SlidingTilePuzzle — wave 2 (audit r3 entries 1, 2, 8, 9, 12, 13 and the listed gaps): the declared specs as `Sp` values and
membership of everything `reset` / `step` emit (C01), the FIRST / MID / LAST protocol for ALL states and actions (C03),
existence of generator draws and the degenerate size 1 (C10), the full effect of an ignored move (C05), sparse returns of
episodes (C08) and whole episodes against the time limit (C11).
-/
import JumanjiModel.Env.SlidingTilePuzzle.Lemmas
import JumanjiModel.Env.SlidingTilePuzzle.Bounds
import JumanjiModel.Env.PuzzleSpecValid
import JumanjiModel.Env.EpisodeLimit
namespace SlidingTilePuzzle
open Jm Jx Sp PzS PzB

/-! ### the declared specs (env.py `observation_spec`, `action_spec`) -/

/-- `observation_spec`: `puzzle` BoundedArray((n, n), int32, 0, n² − 1), `empty_tile_position` BoundedArray((2,), int32, 0,
n − 1), `action_mask` BoundedArray((4,), bool, False, True), `step_count` BoundedArray((), int32, 0, time_limit) -/
def obsSpec (cfg : Cfg) : Sp.Nested :=
  [("puzzle", .bounded [cfg.n, cfg.n] .int32 "puzzle" [] [0] [] [((((cfg.n * cfg.n : Nat) : Int) - 1 : Int) : Rat)]),
   ("empty_tile_position", .bounded [2] .int32 "empty_tile_position" [] [0] [] [((((cfg.n : Nat) : Int) - 1 : Int) : Rat)]),
   ("action_mask", .bounded [4] .bool "action_mask" [] [0] [] [1]),
   ("step_count", .bounded [] .int32 "step_count" [] [0] [] [(cfg.timeLimit : Rat)])]

/-- `action_spec`: DiscreteArray(4, int32) -/
def actionSpec : Leaf := .discrete 4 .int32 "action"

/-- the shape of a nested-list board, read off the value -/
def gridShape (g : Grid Int) : List Nat := [g.length, (g.headD []).length]

/-- a model observation as the arrays the implementation emits -/
def toNValue (o : Obs) : NValue :=
  [("puzzle", ⟨gridShape o.puzzle, .int32, ofInts (Grid.flatten o.puzzle)⟩),
   ("empty_tile_position", ⟨[2], .int32, ofInts [o.empty.1, o.empty.2]⟩),
   ("action_mask", ⟨[o.mask.length], .bool, ofBools o.mask⟩),
   ("step_count", ⟨[], .int32, [(o.stepCount : Rat)]⟩)]

def actionArr (a : Int) : Arr := ⟨[], .int32, [(a : Rat)]⟩

theorem shaped_lengths {n : Nat} {g : Grid Int} (hg : Grid.shaped g n n = true) :
    gridShape g = [n, n] ∧ (Grid.flatten g).length = n * n := by
  obtain ⟨hl, hrows⟩ := shaped_iff.1 hg
  refine ⟨?_, by rw [Grid.flatten, length_flatten_const g n hrows, hl]⟩
  match g, hl, hrows with
  | [], hl, _ => simp at hl; subst hl; rfl
  | row :: rest, hl, hrows =>
    have := hrows row (by simp)
    simp [gridShape, this, ← hl]

theorem validActions_length (n : Nat) (e : Pos) : (validActions n e).length = 4 := by simp [validActions, MOVES]

/-- C01: an observation whose board is `n × n` with tiles and blank position in range (`InRange`), a mask of four flags and a
step count in `[0, time_limit]` is a member of `observation_spec`: same fields, each of the declared shape and dtype, every
element within the declared bounds -/
theorem obs_valid (cfg : Cfg) (o : Obs) (hsh : Grid.shaped o.puzzle cfg.n cfg.n = true)
    (h : InRange cfg.n (o.puzzle, o.empty)) (hm : o.mask.length = 4)
    (hs : 0 ≤ o.stepCount ∧ o.stepCount ≤ cfg.timeLimit) : (obsSpec cfg).valid (toNValue o) = true := by
  obtain ⟨hgs, hlen⟩ := shaped_lengths hsh
  have h1 : (Leaf.bounded [cfg.n, cfg.n] .int32 "puzzle" [] [0] [] [((((cfg.n * cfg.n : Nat) : Int) - 1 : Int) : Rat)]).valid
      ⟨gridShape o.puzzle, .int32, ofInts (Grid.flatten o.puzzle)⟩ = true := by
    rw [hgs]
    refine valid_scalar_bounded _ _ _ _ _ _ (by rw [ofInts, List.length_map, hlen, prod_two]) ?_
    have := ofInts_bounds (Grid.flatten o.puzzle) 0 (((cfg.n * cfg.n : Nat) : Int) - 1) (by
      intro v hv
      obtain ⟨row, hrow, hvr⟩ := List.mem_flatten.mp hv
      exact h.1 row hrow v hvr)
    simpa using this
  have h2 : (Leaf.bounded [2] .int32 "empty_tile_position" [] [0] [] [((((cfg.n : Nat) : Int) - 1 : Int) : Rat)]).valid
      ⟨[2], .int32, ofInts [o.empty.1, o.empty.2]⟩ = true := by
    refine valid_scalar_bounded _ _ _ _ _ _ (by simp [ofInts, prod]) ?_
    have := ofInts_bounds [o.empty.1, o.empty.2] 0 ((cfg.n : Int) - 1) (by
      intro v hv
      simp only [List.mem_cons, List.not_mem_nil, or_false] at hv
      rcases hv with rfl | rfl
      · exact h.2.1
      · exact h.2.2)
    simpa using this
  have h3 : (Leaf.bounded [4] .bool "action_mask" [] [0] [] [1]).valid ⟨[o.mask.length], .bool, ofBools o.mask⟩ = true := by
    rw [hm]
    exact valid_scalar_bounded _ _ _ _ _ _ (by simp [ofBools, hm, prod]) (ofBools_bounds _)
  have h4 : (Leaf.bounded [] .int32 "step_count" [] [0] [] [(cfg.timeLimit : Rat)]).valid
      ⟨[], .int32, [(o.stepCount : Rat)]⟩ = true := by
    refine valid_scalar_bounded _ _ _ _ _ _ (by simp [prod]) ?_
    intro x hx
    simp only [List.mem_cons, List.not_mem_nil, or_false] at hx
    subst hx
    exact ⟨by simpa using Rat.intCast_le_intCast.mpr hs.1, Rat.intCast_le_intCast.mpr hs.2⟩
  simp only [Nested.valid, obsSpec, toNValue, List.map, List.zipWith, List.all, h1, h2, h3, h4, id,
    Bool.and_self, beq_self_eq_true]

/-! ### C03: the protocol, for ALL states and action values (also after LAST, also outside the action space) -/

theorem step_protocol (cfg : Cfg) (s : State) (a : Int) : StepOK none false (step cfg s a).2 = true := by
  unfold step condLast
  simp only
  split <;> simp [StepOK, termination, transition, zerosR, onesR, RShape.size, allIn01, allZero] <;> decide

/-- the same spelled out: never FIRST; reward and discount are scalars; MID ⇒ discount 1; LAST ⇒ discount 0 -/
theorem step_protocol_explicit (cfg : Cfg) (s : State) (a : Int) :
    (step cfg s a).2.stepType ≠ .first ∧ (step cfg s a).2.reward.length = 1 ∧
    ((step cfg s a).2.discount = [0] ∨ (step cfg s a).2.discount = [1]) ∧
    ((step cfg s a).2.stepType = .mid → (step cfg s a).2.discount = [1]) ∧
    ((step cfg s a).2.stepType = .last → (step cfg s a).2.discount = [0]) := by
  unfold step condLast
  simp only
  split <;> simp [termination, transition, zerosR, onesR, RShape.size]

theorem step_mid_or_last (cfg : Cfg) (s : State) (a : Int) :
    (step cfg s a).2.stepType = .last ∨ (step cfg s a).2.stepType = .mid := by
  unfold step condLast
  simp only
  split <;> simp [termination, transition]

theorem reset_protocol (cfg : Cfg) (draws : List Nat) :
    ResetOK none (reset cfg draws).2 = true ∧ (reset cfg draws).2.stepType = .first ∧
    (reset cfg draws).2.reward = [0] ∧ (reset cfg draws).2.discount = [1] := by
  refine ⟨by simp [reset, resetTimeStep, restart, ResetOK], rfl, rfl, rfl⟩

/-- C12: the reset observation is the (documented) observation function of the reset state, with step count 0 -/
theorem reset_obs (cfg : Cfg) (draws : List Nat) :
    (reset cfg draws).2.obs = observe cfg.n (reset cfg draws).1 ∧
    (reset cfg draws).2.obs = observeL2 cfg.n (reset cfg draws).1 ∧
    (reset cfg draws).1 = genState cfg.n draws ∧ (reset cfg draws).2.obs.stepCount = 0 :=
  ⟨rfl, observe_eq _ _, rfl, rfl⟩

/-! ### C01: reset / step emit members of the declared specs -/

theorem reset_obs_valid (cfg : Cfg) (hn : 0 < cfg.n) (hT : 0 ≤ cfg.timeLimit) (draws : List Nat)
    (hv : validDraws cfg.n (startBoard cfg.n) draws = true) :
    (obsSpec cfg).valid (toNValue (reset cfg draws).2.obs) = true := by
  have hi : Inv cfg.n (walk cfg.n draws) := (walk_solvable cfg.n draws hv).2.2 hn
  have hr := inRange_of_inv cfg.n _ hi (walk_isPermutation cfg.n hn draws hv)
  exact obs_valid cfg _ hi.1 hr (validActions_length _ _) ⟨Int.le_refl 0, hT⟩

theorem step_obs_valid (cfg : Cfg) (s : State) (a : Nat) (ha : a < 4) (hi : Inv cfg.n s.board)
    (hr : InRange cfg.n s.board) (hs : 0 ≤ s.stepCount ∧ s.stepCount < cfg.timeLimit) :
    (obsSpec cfg).valid (toNValue (step cfg s (a : Int)).2.obs) = true := by
  have hi' : Inv cfg.n (step cfg s (a : Int)).1.board := by rw [step_board cfg s ha hi]; exact slideB_inv hi a
  have hr' := step_board_inRange cfg s (a : Int) hr
  rw [obs_faithful]
  refine obs_valid cfg _ hi'.1 hr' (validActions_length _ _) ?_
  show 0 ≤ (step cfg s (a : Int)).1.stepCount ∧ (step cfg s (a : Int)).1.stepCount ≤ cfg.timeLimit
  rw [step_count]; omega

theorem step_reward_discount_valid (cfg : Cfg) (s : State) (a : Int) :
    rewardSpec.valid (scalarArr (step cfg s a).2.reward) = true ∧
    discountSpec.valid (scalarArr (step cfg s a).2.discount) = true :=
  stepOK_reward_discount_valid false _ (step_protocol cfg s a)

theorem reset_reward_discount_valid (cfg : Cfg) (draws : List Nat) :
    rewardSpec.valid (scalarArr (reset cfg draws).2.reward) = true ∧
    discountSpec.valid (scalarArr (reset cfg draws).2.discount) = true :=
  ⟨by show rewardSpec.valid (scalarArr (zerosR none)) = true; decide,
   by show discountSpec.valid (scalarArr (onesR none)) = true; decide⟩

/-- C01: `action_spec.generate_value()` is the action 0 (UP), a member of the action spec, and `step` answers it with a
protocol-conform timestep in every state -/
theorem accepts_generate_value (cfg : Cfg) (s : State) :
    actionSpec.WF = true ∧ actionSpec.valid actionSpec.generate = true ∧ actionSpec.generate = actionArr 0 ∧
    StepOK none false (step cfg s 0).2 = true :=
  ⟨by decide, by decide, by decide, step_protocol cfg s 0⟩

/-- membership in `action_spec` = being one of the four directions -/
theorem actionSpec_valid_iff (a : Int) : actionSpec.valid (actionArr a) = true ↔ 0 ≤ a ∧ a < 4 := by
  rw [Leaf.valid_iff]
  simp only [actionSpec, Leaf.shape, Leaf.dtype, Leaf.lower, Leaf.upper, actionArr, prod]
  constructor
  · rintro ⟨_, _, _, h⟩
    rcases h with ⟨h, _⟩ | ⟨lo, hi, hl, hu, hall⟩
    · cases h
    · simp only [Option.some.injEq] at hl hu
      subst hl; subst hu
      have h0 := hall 0 (by simp) (by simp)
      simp only [List.zip_cons_cons, List.getElem_cons_zero] at h0
      have e0 := (Rat.intCast_le_intCast (a := 0) (b := a)).mp (by simpa using h0.1)
      have e1 := (Rat.intCast_le_intCast (a := a) (b := 3)).mp (by simpa using h0.2)
      omega
  · rintro ⟨h0, h4⟩
    refine ⟨by simp, by simp, by simp, Or.inr ⟨_, _, rfl, rfl, ?_⟩⟩
    intro k h1 h2
    simp only [List.length_cons, List.length_nil] at h1
    have : k = 0 := by omega
    subst this
    simp only [List.zip_cons_cons, List.getElem_cons_zero]
    exact ⟨by simpa using (Rat.intCast_le_intCast (a := 0) (b := a)).mpr h0,
           by simpa using (Rat.intCast_le_intCast (a := a) (b := 3)).mpr (by omega)⟩

/-! ### C10: a possible draw always exists for `n ≥ 2`; size 1 is degenerate -/

/-- on a board of size `n ≥ 2` with the blank on the board some direction has non-zero weight -/
theorem exists_validDraw {n : Nat} (hn : 2 ≤ n) {b : Board} (hb : onBoard n b.2) : ∃ d, d < 4 ∧ validDraw n b d = true := by
  obtain ⟨h1, h2, h3, h4⟩ := hb
  by_cases hr : 1 ≤ b.2.1
  · refine ⟨0, by omega, ?_⟩
    simp only [validDraw, validActions, MOVES, List.map_cons, List.getD_cons_zero, inGrid, Bool.and_eq_true, decide_eq_true_eq]
    omega
  · refine ⟨2, by omega, ?_⟩
    simp only [validDraw, validActions, MOVES, List.map_cons, List.getD_cons_succ, List.getD_cons_zero, inGrid,
      Bool.and_eq_true, decide_eq_true_eq]
    omega

theorem exists_valid_tape_from {n : Nat} (hn : 2 ≤ n) (len : Nat) (b : Board) (hb : Inv n b) :
    ∃ ds : List Nat, ds.length = len ∧ (∀ d ∈ ds, d < 4) ∧ validDraws n b ds = true := by
  induction len generalizing b with
  | zero => exact ⟨[], rfl, by simp, rfl⟩
  | succ k ih =>
    obtain ⟨d, hd4, hd⟩ := exists_validDraw hn hb.2.1
    have hl : legalB n b d := (mask_iff_legal n b d).1 hd
    have hi : Inv n (randomMove b d) := by rw [randomMove_eq_slideB hb hl]; exact slideB_inv hb d
    obtain ⟨ds, hlen, h4, hv⟩ := ih (randomMove b d) hi
    refine ⟨d :: ds, by simp [hlen], ?_, by simp [validDraws, hd, hv]⟩
    intro x hx
    rcases List.mem_cons.mp hx with rfl | hx
    · exact hd4
    · exact h4 x hx

/-- for every grid size `n ≥ 2` and every number of random moves there IS a tape of possible draws: the hypotheses
`validDraws n (startBoard n) draws` of the generator theorems are satisfiable -/
theorem exists_valid_tape {n : Nat} (hn : 2 ≤ n) (len : Nat) :
    ∃ ds : List Nat, ds.length = len ∧ (∀ d ∈ ds, d < 4) ∧ validDraws n (startBoard n) ds = true := by
  rw [startBoard_eq]
  exact exists_valid_tape_from hn len _ (goal_inv (by omega))

/-- size 1: no direction ever has non-zero weight when the blank is on the board … -/
theorem no_validDraw_one (b : Board) (hb : onBoard 1 b.2) (d : Nat) : validDraw 1 b d = false := by
  obtain ⟨h1, h2, h3, h4⟩ := hb
  have e1 : b.2.1 = 0 := by omega
  have e2 : b.2.2 = 0 := by omega
  have : d = 0 ∨ d = 1 ∨ d = 2 ∨ d = 3 ∨ 4 ≤ d := by omega
  rcases this with rfl | rfl | rfl | rfl | h <;>
    simp [validDraw, validActions, MOVES, inGrid, e1, e2]
  · match d, h with
    | d + 4, _ => simp

/-- … so for size 1 only the empty tape is possible -/
theorem validDraws_one (ds : List Nat) : validDraws 1 (startBoard 1) ds = true ↔ ds = [] := by
  cases ds with
  | nil => simp [validDraws]
  | cons d ds =>
    have : validDraw 1 (startBoard 1) d = false := no_validDraw_one _ (by decide) d
    simp [validDraws, this]

/-! ### C05: the full effect of an ignored move -/

theorem illegal_ignored_full (cfg : Cfg) (s : State) {a : Nat} (ha : a < 4) (hi : Inv cfg.n s.board)
    (hl : ¬ legal cfg.n s a) :
    (step cfg s (a : Int)).1 = { s with stepCount := s.stepCount + 1 } ∧
    (step cfg s (a : Int)).2.obs =
      { puzzle := s.puzzle, empty := s.empty, mask := validActions cfg.n s.empty, stepCount := s.stepCount + 1 } ∧
    (step cfg s (a : Int)).2.reward = [if cfg.dense then 0 else if s.puzzle = goal cfg.n then 1 else 0] ∧
    ((step cfg s (a : Int)).2.stepType = .last ↔ (s.puzzle = goal cfg.n ∨ cfg.timeLimit ≤ s.stepCount + 1)) := by
  have hm := moveEmptyTile_illegal ha hl
  have hst : (step cfg s (a : Int)).1 = { s with stepCount := s.stepCount + 1 } := by
    unfold step
    rw [show (s.puzzle, s.empty) = s.board from rfl, hm]
    rfl
  refine ⟨hst, ?_, ?_, ?_⟩
  · rw [obs_faithful, hst]; rfl
  · have hd : denseReward cfg.n s.puzzle s.puzzle = 0 := by
      have h1 : Grid.shaped s.puzzle cfg.n cfg.n = true := hi.1
      rw [dense_eq h1 h1]; simp
    unfold step
    rw [show (s.puzzle, s.empty) = s.board from rfl, hm]
    simp only [State.board, condLast, sparseReward, isSolved_iff, hd]
    split <;> split <;> simp_all [termination, transition]
  · rw [last_iff, hst]

/-! ### C08: returns of episodes -/

/-- sum of the rewards of a run -/
def returnOf (l : List (State × TimeStep Obs)) : Rat := (l.map (fun r => r.2.reward.sum)).sum

/-- the state after playing the actions -/
def finalState (cfg : Cfg) (s : State) (as : List Int) : State := as.foldl (fun s a => (step cfg s a).1) s

theorem sparse_step_reward (cfg : Cfg) (hd : cfg.dense = false) (s : State) (a : Int) :
    (step cfg s a).2.reward = [if (step cfg s a).1.puzzle = goal cfg.n then 1 else 0] := by
  unfold step condLast
  simp only [hd, sparseReward, isSolved_iff]
  split <;> simp [termination, transition]

/-- sparse reward function: an episode (every step before the last one is MID) under ANY actions from ANY state returns 1
if it ends on the goal board and 0 otherwise -/
theorem sparse_return (cfg : Cfg) (hd : cfg.dense = false) (as : List Int) (a : Int) (s : State)
    (hmid : ∀ r ∈ run cfg s as, r.2.stepType = .mid) :
    returnOf (run cfg s (as ++ [a])) = if (finalState cfg s (as ++ [a])).puzzle = goal cfg.n then 1 else 0 := by
  induction as generalizing s with
  | nil =>
    have e : finalState cfg s ([] ++ [a]) = (step cfg s a).1 := rfl
    rw [e]
    show returnOf [step cfg s a] = _
    simp only [returnOf, List.map_cons, List.map_nil, List.sum_cons, List.sum_nil, sparse_step_reward cfg hd]
    by_cases h : (step cfg s a).1.puzzle = goal cfg.n <;> simp [h, Rat.add_zero]
  | cons b t ih =>
    have hb : (step cfg s b).2.stepType = .mid := hmid _ (by simp [run])
    have hnl : ¬ (step cfg s b).2.stepType = .last := by rw [hb]; decide
    have hng : (step cfg s b).1.puzzle ≠ goal cfg.n := fun h => hnl ((last_iff cfg s b).2 (Or.inl h))
    have := ih (step cfg s b).1 (fun r hr => hmid r (by simp [run, hr]))
    have e1 : run cfg s (b :: t ++ [a]) = step cfg s b :: run cfg (step cfg s b).1 (t ++ [a]) := rfl
    have e2 : finalState cfg s (b :: t ++ [a]) = finalState cfg (step cfg s b).1 (t ++ [a]) := rfl
    rw [e1, e2, ← this]
    simp only [returnOf, List.map_cons, List.sum_cons, sparse_step_reward cfg hd, if_neg hng]
    simp [Rat.add_zero, Rat.zero_add]

theorem agreeRow_self (a : List Int) : ((List.zipWith (fun x z => decide (x = z)) a a).filter id).length = a.length := by
  induction a with
  | nil => rfl
  | cons x a ih =>
    simp only [List.zipWith_cons_cons, decide_true, List.filter_cons, id, if_true, List.length_cons, ih]

theorem agree_self (g : Grid Int) : agree g g = (Grid.flatten g).length := by
  unfold agree Grid.count Grid.zipWith Grid.flatten
  induction g with
  | nil => rfl
  | cons r g ih =>
    simp only [List.zipWith_cons_cons, List.flatten_cons, List.filter_append, List.length_append, ih, agreeRow_self]

/-- on the goal board all `n²` cells are correct -/
theorem correct_goal (n : Nat) : correct n (goal n) = ((n * n : Nat) : Int) := by
  unfold correct
  rw [agree_self]
  have := (shaped_lengths (g := goal n) (tabulate_shaped n _)).2
  rw [this]

/-- dense reward function: a play that ends on the goal returns `n² − (correct cells at the start)` -/
theorem dense_return_solved (cfg : Cfg) (hd : cfg.dense = true) (as : List Nat) (s : State) (hs : Inv cfg.n s.board)
    (ha : ∀ a ∈ as, a < 4) (hfin : (play cfg s as).1.puzzle = goal cfg.n) :
    (play cfg s as).2 = ((((cfg.n * cfg.n : Nat) : Int) - correct cfg.n s.puzzle : Int) : Rat) := by
  rw [dense_return cfg hd as s hs ha, hfin, correct_goal]

/-! ### C11: whole episodes -/

theorem run_eq (cfg : Cfg) (s : State) (as : List Int) : run cfg s as = EpL.run (step cfg) s as := by
  induction as generalizing s with
  | nil => rfl
  | cons a as ih => simp [run, EpL.run, ih]

/-- an episode from a state with step count 0 under ANY action values (at least `time_limit` of them): the first LAST comes at
some step `k` with `0 < k ≤ time_limit`, every earlier step is MID on a board that is not the goal, the step count of every
state up to the terminal one is within `[0, time_limit]`, and `k = time_limit` exactly when no board before was the goal -/
theorem episode_ends_by_limit (cfg : Cfg) (T : Nat) (hT : cfg.timeLimit = (T : Int)) (hpos : 0 < T) (s0 : State)
    (h0 : s0.stepCount = 0) (as : List Int) (hlen : T ≤ as.length) :
    ∃ k, 0 < k ∧ k ≤ T ∧
      EpL.EndsAt (run cfg s0 as) (fun s => s.stepCount) (fun s => decide (s.puzzle = goal cfg.n)) (T : Int) k ∧
      ((∀ j r, j < T - 1 → (run cfg s0 as)[j]? = some r → decide (r.1.puzzle = goal cfg.n) = false) → k = T) := by
  rw [run_eq]
  exact EpL.ends_by_limit (step cfg) (fun s => s.stepCount) (fun s => decide (s.puzzle = goal cfg.n)) T hpos
    (fun s a => step_count cfg s a)
    (fun s a => by rw [last_iff, hT, decide_eq_true_eq]; exact Or.comm)
    (fun s a => step_mid_or_last cfg s a) s0 h0 as hlen

/-- every observation listed by `run` shows the step count of its state -/
theorem run_obs_count (cfg : Cfg) (s : State) (as : List Int) :
    ∀ r ∈ run cfg s as, r.2.obs.stepCount = r.1.stepCount := by
  induction as generalizing s with
  | nil => intro r hr; simp [run] at hr
  | cons a t ih =>
    intro r hr
    simp only [run, List.mem_cons] at hr
    rcases hr with rfl | hm
    · rw [obs_faithful]; rfl
    · exact ih _ r hm

end SlidingTilePuzzle
