/-
C01 (value bounds of observations) — the small vocabulary shared by the `Env/<Name>/Bounds.lean` files of
Game2048, GraphColoring, Minesweeper, Sudoku, SlidingTilePuzzle, RubiksCube, FlatPack and Tetris.

* a *bounds table* `List (String × Option Rat × Option Rat)`: leaf path of the real `observation_spec` ↦
  interval `[lo, hi]` (`none` = unbounded on that side);
* the *leaves* of a model observation: leaf path ↦ the flattened integer values of that leaf
  (booleans as 0/1; all leaves of these eight environments are integer or boolean arrays);
* `ObsInBounds tbl leaves`: every leaf named by the table exists in the observation and every one of its
  values lies in the table's interval.
Core Lean only.
-/
import JumanjiModel.Prim.Idx
import JumanjiModel.Prim.Grid
import JumanjiModel.Core.TimeStep
namespace PzB

abbrev Interval := Option Rat × Option Rat
abbrev Table := List (String × Option Rat × Option Rat)
abbrev Leaves := List (String × List Int)

/-- `v ∈ [lo, hi]` -/
def Interval.has (b : Interval) (v : Int) : Prop :=
  (∀ l, b.1 = some l → l ≤ (v : Rat)) ∧ (∀ h, b.2 = some h → (v : Rat) ≤ h)

/-- the closed integer interval `[lo, hi]` -/
def iv (lo hi : Int) : Interval := (some (lo : Rat), some (hi : Rat))
/-- `[lo, ∞)` -/
def ivLo (lo : Int) : Interval := (some (lo : Rat), none)

theorem has_iv {lo hi v : Int} : (iv lo hi).has v ↔ lo ≤ v ∧ v ≤ hi := by
  simp [Interval.has, iv, Rat.intCast_le_intCast]

theorem has_ivLo {lo v : Int} : (ivLo lo).has v ↔ lo ≤ v := by
  simp [Interval.has, ivLo, Rat.intCast_le_intCast]

/-- all values of a leaf lie in the interval -/
def AllIn (b : Interval) (vs : List Int) : Prop := ∀ v ∈ vs, b.has v

/-- every leaf the table names exists, and all its values lie in the table's interval -/
def ObsInBounds (tbl : Table) (leaves : Leaves) : Prop :=
  (∀ k ∈ tbl.map (·.1), k ∈ leaves.map (·.1)) ∧
  ∀ k b, (k, b) ∈ tbl → ∀ vs, (k, vs) ∈ leaves → AllIn b vs

/-! ### flattening of model values -/

def ofBool (b : Bool) : Int := if b then 1 else 0
def bools (l : List Bool) : List Int := l.map ofBool
def bools2 (g : List (List Bool)) : List Int := bools g.flatten
def bools3 (g : List (List (List Bool))) : List Int := bools2 g.flatten
def bools4 (g : List (List (List (List Bool)))) : List Int := bools3 g.flatten
def nats (l : List Nat) : List Int := l.map (fun (n : Nat) => (n : Int))
def nats2 (g : List (List Nat)) : List Int := nats g.flatten
def nats3 (g : List (List (List Nat))) : List Int := nats2 g.flatten
def ints2 (g : List (List Int)) : List Int := g.flatten
def ints3 (g : List (List (List Int))) : List Int := g.flatten.flatten

theorem allIn_bools (l : List Bool) : AllIn (iv 0 1) (bools l) := by
  intro v hv
  simp only [bools, List.mem_map] at hv
  obtain ⟨b, _, rfl⟩ := hv
  rw [has_iv]; cases b <;> simp [ofBool]

theorem allIn_bools2 (g : List (List Bool)) : AllIn (iv 0 1) (bools2 g) := allIn_bools _
theorem allIn_bools3 (g : List (List (List Bool))) : AllIn (iv 0 1) (bools3 g) := allIn_bools _
theorem allIn_bools4 (g : List (List (List (List Bool)))) : AllIn (iv 0 1) (bools4 g) := allIn_bools _

theorem allIn_nats_lo (l : List Nat) : AllIn (ivLo 0) (nats l) := by
  intro v hv
  simp only [nats, List.mem_map] at hv
  obtain ⟨n, _, rfl⟩ := hv
  rw [has_ivLo]; omega

theorem allIn_nats (l : List Nat) (hi : Nat) (h : ∀ n ∈ l, n ≤ hi) : AllIn (iv 0 (hi : Int)) (nats l) := by
  intro v hv
  simp only [nats, List.mem_map] at hv
  obtain ⟨n, hn, rfl⟩ := hv
  rw [has_iv]; have := h n hn; omega

theorem allIn_nats2 (g : List (List Nat)) (hi : Nat) (h : ∀ r ∈ g, ∀ n ∈ r, n ≤ hi) :
    AllIn (iv 0 (hi : Int)) (nats2 g) := by
  apply allIn_nats
  intro n hn
  obtain ⟨r, hr, hnr⟩ := List.mem_flatten.mp hn
  exact h r hr n hnr

theorem allIn_ints (l : List Int) (lo hi : Int) (h : ∀ v ∈ l, lo ≤ v ∧ v ≤ hi) : AllIn (iv lo hi) l := by
  intro v hv; rw [has_iv]; exact h v hv

theorem allIn_ints2 (g : List (List Int)) (lo hi : Int) (h : ∀ r ∈ g, ∀ v ∈ r, lo ≤ v ∧ v ≤ hi) :
    AllIn (iv lo hi) (ints2 g) := by
  intro v hv
  obtain ⟨r, hr, hvr⟩ := List.mem_flatten.mp hv
  rw [has_iv]; exact h r hr v hvr

theorem allIn_single (v lo hi : Int) (h : lo ≤ v ∧ v ≤ hi) : AllIn (iv lo hi) [v] := by
  intro w hw; simp at hw; subst hw; rw [has_iv]; exact h

/-! ### cell-wise predicates on grids survive the JAX scatter / plain set -/

/-- `P` holds for every cell -/
def GridAll {α : Type} (P : α → Prop) (g : List (List α)) : Prop := ∀ r ∈ g, ∀ v ∈ r, P v

theorem mem_setWD {α : Type} {xs : List α} {i : Int} {v w : α} (h : w ∈ Jx.setWD xs i v) : w ∈ xs ∨ w = v := by
  unfold Jx.setWD at h
  simp only at h
  split at h
  · exact Or.inl h
  · split at h
    · exact Or.inl h
    · exact List.mem_or_eq_of_mem_set h

theorem listAll_setWD {α : Type} {P : α → Prop} {xs : List α} (i : Int) {v : α} (h : ∀ w ∈ xs, P w) (hv : P v) :
    ∀ w ∈ Jx.setWD xs i v, P w := by
  intro w hw
  rcases mem_setWD hw with h1 | rfl
  · exact h w h1
  · exact hv

theorem gridAll_listSet {α : Type} {P : α → Prop} {g : List (List α)} (i : Nat) {row : List α}
    (h : GridAll P g) (hr : ∀ v ∈ row, P v) : GridAll P (List.set g i row) := by
  intro r hr' v hv
  rcases List.mem_or_eq_of_mem_set hr' with h1 | rfl
  · exact h r h1 v hv
  · exact hr v hv

theorem gridAll_gridSetWD {α : Type} {P : α → Prop} {g : List (List α)} (r c : Int) {v : α}
    (h : GridAll P g) (hv : P v) : GridAll P (Jx.Grid.setWD g r c v) := by
  unfold Jx.Grid.setWD
  simp only
  split
  · exact h
  · split
    · exact h
    · split
      · exact h
      · rename_i row hrow
        split
        · exact h
        · split
          · exact h
          · apply gridAll_listSet _ h
            intro w hw
            rcases List.mem_or_eq_of_mem_set hw with h1 | rfl
            · exact h row (List.mem_of_getElem? hrow) w h1
            · exact hv

theorem gridAll_gridSet {α : Type} {P : α → Prop} {g : List (List α)} (r c : Nat) {v : α}
    (h : GridAll P g) (hv : P v) : GridAll P (Jx.Grid.set g r c v) := by
  unfold Jx.Grid.set
  split
  · exact h
  · rename_i row hrow
    apply gridAll_listSet _ h
    intro w hw
    rcases List.mem_or_eq_of_mem_set hw with h1 | rfl
    · exact h row (List.mem_of_getElem? hrow) w h1
    · exact hv

/-- a gathered cell satisfies `P` when all cells and the default do -/
theorem getWC_of_all {α : Type} {P : α → Prop} {xs : List α} {d : α} (i : Int) (h : ∀ w ∈ xs, P w) (hd : P d) :
    P (Jx.getWC xs d i) := by
  unfold Jx.getWC
  rw [List.getD_eq_getElem?_getD]
  cases hx : xs[Jx.clampIdx xs.length i]? with
  | none => exact hd
  | some w => exact h w (List.mem_of_getElem? hx)

theorem gridGetWC_of_all {α : Type} {P : α → Prop} {g : List (List α)} {d : α} (r c : Int)
    (h : GridAll P g) (hd : P d) : P (Jx.Grid.getWC g d r c) := by
  unfold Jx.Grid.getWC
  apply getWC_of_all c _ hd
  apply getWC_of_all (P := fun row => ∀ w ∈ row, P w) r h
  intro w hw; cases hw

@[simp] theorem condLast_obs {O : Type} (done : Bool) (r : List Rat) (o : O) (sh : Jm.RShape) :
    (Jm.condLast done r o sh).obs = o := by
  unfold Jm.condLast; split <;> rfl

@[simp] theorem restart_obs {O : Type} (o : O) (sh : Jm.RShape) : (Jm.restart o sh).obs = o := rfl

/-! ### JSON-free rendering helper for the bridge: nothing here; see `Bridge/PuzzleBounds.lean` -/

end PzB
