/-
TSP — wave 3 (statement audit of Props/Env/TSP.lean and the listed gaps):
* C01: the declared `observation_spec` / `action_spec` as `Sp` values (`obsSpec n`, `actionSpec n`), equal to the
  generated literals of Gen/Specs.lean; MEMBERSHIP (structure, shapes, dtypes, bounds) of every observation `step` emits
  from a state of the invariant `SpecInv n` (established by `reset`, preserved by every in-spec step); the `reset`
  observation is NOT a member for any `n` and any draw (position = −1 outside `DiscreteArray(num_cities)`, finding F5) —
  it is a member of the spec whose `position` leaf is widened to `[−1, n−1]`;
* C04: `step_agrees_step` — the statement about `step` itself;
* C06: a complete mask-respecting episode from a generated instance ends in a complete tour;
* C11: whole episodes end within `num_cities` steps whatever in-spec actions are played.
-/
import JumanjiModel.Env.TSP.Lemmas
import JumanjiModel.Env.TSP.Bounds
import JumanjiModel.Env.TSP.GenLemmas
import JumanjiModel.Env.RoutingSpecValid
import JumanjiModel.Env.HorizonEpisode
namespace TSP
open Jm Sp PzS

/-! ### the declared specs (env.py `observation_spec`, `action_spec`); `n` = `num_cities` -/

/-- the observation spec with the leaf for `position` as a parameter -/
def obsSpecWith (pos : Leaf) (n : Nat) : Sp.Nested :=
  [("coordinates", .bounded [n, 2] .float32 "coordinates" [] [0] [] [1]),
   ("position", pos),
   ("trajectory", .bounded [n] .int32 "trajectory" [] [-1] [] [(((n : Int) - 1 : Int) : Rat)]),
   ("action_mask", .bounded [n] .bool "action_mask" [] [0] [] [1])]

/-- `observation_spec`: coordinates BoundedArray((n, 2), float, 0, 1); position DiscreteArray(n, int32);
trajectory BoundedArray((n,), int32, −1, n − 1); action_mask BoundedArray((n,), bool, False, True) -/
def obsSpec (n : Nat) : Sp.Nested := obsSpecWith (.discrete n .int32 "position") n

/-- the same with `position` declared as `BoundedArray((), int32, −1, n − 1)` — what `reset` would need -/
def obsSpecWide (n : Nat) : Sp.Nested :=
  obsSpecWith (.bounded [] .int32 "position" [] [-1] [] [(((n : Int) - 1 : Int) : Rat)]) n

/-- `DiscreteArray(num_cities)` -/
def actionSpec (n : Nat) : Leaf := .discrete n .int32 "action"

/-- a model observation as the arrays the implementation emits; every shape is READ OFF the value -/
def toNValue (o : Obs) : NValue :=
  [("coordinates", ⟨[o.coords.length, (o.coords.headD []).length], .float32, o.coords.flatten⟩),
   ("position", ⟨[], .int32, [(o.position : Rat)]⟩),
   ("trajectory", ⟨[o.trajectory.length], .int32, ofInts o.trajectory⟩),
   ("action_mask", ⟨[o.mask.length], .bool, ofBools o.mask⟩)]

/-- the facts about an observation that membership amounts to, apart from the position leaf -/
def ObsOK (n : Nat) (o : Obs) : Prop :=
  o.coords.length = n ∧ (∀ p ∈ o.coords, p.length = 2 ∧ ∀ x ∈ p, 0 ≤ x ∧ x ≤ 1) ∧
  o.trajectory.length = n ∧ (∀ c ∈ o.trajectory, -1 ≤ c ∧ c < n) ∧ o.mask.length = n

theorem traj_leaf_valid (n : Nat) (t : List Int) (hl : t.length = n) (ht : ∀ c ∈ t, -1 ≤ c ∧ c < n) :
    (Leaf.bounded [n] .int32 "trajectory" [] [-1] [] [(((n : Int) - 1 : Int) : Rat)]).valid
      ⟨[t.length], .int32, ofInts t⟩ = true := by
  rw [hl]
  refine valid_scalar_bounded _ _ _ _ _ _ (by simp [ofInts, prod_one, hl]) ?_
  have := ofInts_bounds t (-1) ((n : Int) - 1) (fun c hc => ⟨(ht c hc).1, by have := (ht c hc).2; omega⟩)
  simpa using this

/-- membership in the spec with an arbitrary `position` leaf -/
theorem obs_valid_with (pos : Leaf) (n : Nat) (hn : 0 < n) (o : Obs) (h : ObsOK n o)
    (hp : pos.valid ⟨[], .int32, [(o.position : Rat)]⟩ = true) : (obsSpecWith pos n).valid (toNValue o) = true := by
  obtain ⟨h1, h2, h3, h4, h5⟩ := h
  have a1 := valid_unit_rows n 2 hn "coordinates" o.coords h1 h2
  have a3 := traj_leaf_valid n o.trajectory h3 h4
  have a4 := valid_bools n "action_mask" o.mask h5
  simp only [Nested.valid, obsSpecWith, toNValue, List.map_cons, List.map_nil, List.zipWith_cons_cons,
    List.zipWith_nil_right, List.all_cons, List.all_nil, id, a1, a3, a4, hp, Bool.and_true, beq_self_eq_true]

/-- C01: an observation with the right shapes, coordinates in the unit square, trajectory entries in `[−1, n−1]` and
position in `[0, n−1]` is a member of `observation_spec` -/
theorem obs_valid (n : Nat) (hn : 0 < n) (o : Obs) (h : ObsOK n o) (hp : 0 ≤ o.position ∧ o.position < n) :
    (obsSpec n).valid (toNValue o) = true :=
  obs_valid_with _ n hn o h ((valid_discrete_iff n "position" o.position).mpr hp)

/-- the position leaf decides: whatever the other leaves, a position outside `[0, n−1]` is rejected -/
theorem obs_invalid_of_position (n : Nat) (o : Obs) (hp : ¬ (0 ≤ o.position ∧ o.position < n)) :
    (obsSpec n).valid (toNValue o) = false := by
  have : (Leaf.discrete n .int32 "position").valid ⟨[], .int32, [(o.position : Rat)]⟩ = false := by
    cases h : (Leaf.discrete n .int32 "position").valid ⟨[], .int32, [(o.position : Rat)]⟩ with
    | false => rfl
    | true => exact absurd ((valid_discrete_iff n "position" o.position).mp h) hp
  simp [Nested.valid, obsSpec, obsSpecWith, toNValue, this]

/-- … and `validate` accepts nothing else (membership is not hollow): position and trajectory ranges, lengths -/
theorem obs_valid_only (n : Nat) (o : Obs) (h : (obsSpec n).valid (toNValue o) = true) :
    o.coords.length = n ∧ (∀ x ∈ o.coords.flatten, 0 ≤ x ∧ x ≤ 1) ∧ (0 ≤ o.position ∧ o.position < n) ∧
    o.trajectory.length = n ∧ (∀ c ∈ o.trajectory, -1 ≤ c ∧ c < n) ∧ o.mask.length = n := by
  simp only [Nested.valid, obsSpec, obsSpecWith, toNValue, List.map_cons, List.map_nil, List.zipWith_cons_cons,
    List.zipWith_nil_right, List.all_cons, List.all_nil, id, Bool.and_true, Bool.and_eq_true, beq_self_eq_true,
    true_and] at h
  obtain ⟨h1, h2, h3, h4⟩ := h
  rw [valid_scalar_bounded_iff] at h1 h3 h4
  rw [valid_discrete_iff] at h2
  refine ⟨by simpa using congrArg (fun l => l.headD 0) h1.1, h1.2.2.2, h2, by simpa using h3.1, ?_, by simpa using h4.1⟩
  intro c hc
  have := h3.2.2.2 (c : Rat) (by simp only [ofInts, List.mem_map]; exact ⟨c, hc, rfl⟩)
  have l1 : (-1 : Int) ≤ c := Rat.intCast_le_intCast.mp (by simpa using this.1)
  have l2 : c ≤ (n : Int) - 1 := Rat.intCast_le_intCast.mp this.2
  omega

/-! ### the invariant: feasible partial tour over `n` cities of the unit square -/

def SpecInv (n : Nat) (s : State) : Prop :=
  Feasible n s ∧ s.coords.length = n ∧ ∀ p ∈ s.coords, p.length = 2 ∧ ∀ x ∈ p, 0 ≤ x ∧ x ≤ 1

instance (n : Nat) (s : State) : Decidable (SpecInv n s) := by unfold SpecInv; infer_instance

theorem reset_specInv (n : Nat) (coords : List (List Rat)) (h : validDraw n coords) : SpecInv n (reset n coords).1 :=
  ⟨reset_feasible n coords, h.1, h.2⟩

theorem step_coords (n : Nat) (D : Dist) (pen : Rat) (dense : Bool) (s : State) (a : Int) :
    (step n D pen dense s a).1.coords = s.coords := by
  rw [step_fst]; split <;> rfl

/-- any in-range action, legal or not, keeps the state feasible -/
theorem step_feasible_any (n : Nat) (D : Dist) (pen : Rat) (dense : Bool) (s : State) (a : Nat)
    (hf : Feasible n s) (ha : a < n) : Feasible n (step n D pen dense s a).1 := by
  by_cases hl : legal s a
  · exact step_feasible n D pen dense s a hf hl
  · have hv : isValid s (a : Int) = false := by
      cases h : isValid s (a : Int) with
      | false => rfl
      | true => exact absurd ((isValid_iff_legal s a (by rw [hf.1]; exact ha)).mp h) hl
    rw [step_fst, hv]; exact hf

theorem step_specInv (n : Nat) (D : Dist) (pen : Rat) (dense : Bool) (s : State) (a : Nat) (ha : a < n)
    (h : SpecInv n s) : SpecInv n (step n D pen dense s a).1 :=
  ⟨step_feasible_any n D pen dense s a h.1 ha, by rw [step_coords]; exact h.2.1, by rw [step_coords]; exact h.2.2⟩

theorem obsOf_ok (n : Nat) (s : State) (h : SpecInv n s) : ObsOK n (obsOf s) := by
  obtain ⟨hf, hcl, hc⟩ := h
  have hi := feasible_obsInv n s hf (fun p hp => (hc p hp).2)
  exact ⟨hcl, hc, hf.2.1, hi.2.1, by simp [obsOf, hf.1]⟩

theorem step_obs_valid (n : Nat) (D : Dist) (pen : Rat) (dense : Bool) (s : State) (a : Nat) (ha : a < n)
    (h : SpecInv n s) : (obsSpec n).valid (toNValue (step n D pen dense s a).2.obs) = true := by
  have hpos := step_position_declared n D pen dense s a h.1 ha
  have hok := obsOf_ok n _ (step_specInv n D pen dense s a ha h)
  rw [← step_obs] at hok
  exact obs_valid n (by omega) _ hok hpos

theorem step_mid_or_last (n : Nat) (D : Dist) (pen : Rat) (dense : Bool) (s : State) (a : Int) :
    (step n D pen dense s a).2.stepType = .mid ∨ (step n D pen dense s a).2.stepType = .last := by
  rw [step_snd]; unfold condLast
  split <;> simp [termination, transition]

/-- `action_spec.generate_value()` = 0 is a member of the action spec and `step` accepts it in every state of the invariant -/
theorem step_accepts_generate (n : Nat) (hn : 0 < n) (D : Dist) (pen : Rat) (dense : Bool) (s : State) (h : SpecInv n s) :
    (actionSpec n).generate = ⟨[], .int32, [0]⟩ ∧ (actionSpec n).valid (actionSpec n).generate = true ∧
    (obsSpec n).valid (toNValue (step n D pen dense s ((0 : Nat) : Int)).2.obs) = true ∧
    ((step n D pen dense s ((0 : Nat) : Int)).2.stepType = .mid ∨ (step n D pen dense s ((0 : Nat) : Int)).2.stepType = .last) :=
  ⟨(discrete_generate n "action" hn).1, (discrete_generate n "action" hn).2, step_obs_valid n D pen dense s 0 hn h,
   step_mid_or_last n D pen dense s _⟩

/-- finding F5 as a theorem: for EVERY `n` and EVERY coordinates, `observation_spec.validate` rejects the reset observation -/
theorem reset_obs_not_valid (n : Nat) (coords : List (List Rat)) :
    (obsSpec n).valid (toNValue (reset n coords).2.obs) = false :=
  obs_invalid_of_position n _ (by rw [reset_position]; omega)

/-- the only offending leaf is `position`: with `[−1, n−1]` declared for it the reset observation is a member -/
theorem reset_obs_valid_wide (n : Nat) (hn : 0 < n) (coords : List (List Rat)) (h : validDraw n coords) :
    (obsSpecWide n).valid (toNValue (reset n coords).2.obs) = true := by
  refine obs_valid_with _ n hn _ (obsOf_ok n _ (reset_specInv n coords h)) ?_
  refine valid_scalar_bounded _ _ _ _ _ _ (by simp [prod]) ?_
  intro x hx
  simp only [List.mem_cons, List.not_mem_nil, or_false] at hx
  subst hx
  rw [reset_position]
  have h1 : ((-1 : Int) : Rat) ≤ ((-1 : Int) : Rat) := Rat.le_refl
  have h2 : ((-1 : Int) : Rat) ≤ (((n : Int) - 1 : Int) : Rat) := Rat.intCast_le_intCast.mpr (by omega)
  exact ⟨by simpa using h1, h2⟩

/-- every state of every in-spec play from `reset` satisfies the invariant (stepping on after LAST included) -/
theorem specInv_along (n : Nat) (D : Dist) (pen : Rat) (dense : Bool) (s : State) (as : List Nat)
    (hok : ∀ a ∈ as, a < n) (h : SpecInv n s) :
    SpecInv n ((Ep.ofStep (fun s (a : Nat) => step n D pen dense s (a : Int)) (·.numVisited)).run s as) := by
  induction as generalizing s with
  | nil => exact h
  | cons a as ih =>
    exact ih _ (fun b hb => hok b (by simp [hb])) (step_specInv n D pen dense s a (hok a (by simp)) h)

/-! ### C04: the validity test as `step` applies it -/

/-- on a feasible state and an in-range city: a legal move is carried out (successor = `visit s a`: position, visited
flag, route, counter), an illegal one changes nothing and ends the episode; so the move is counted iff it was legal -/
theorem step_agrees_step (n : Nat) (D : Dist) (pen : Rat) (dense : Bool) (s : State) (a : Nat) (hf : Feasible n s)
    (ha : a < n) :
    (legal s a → (step n D pen dense s a).1 = visit s a) ∧
    (¬ legal s a → (step n D pen dense s a).1 = s ∧ (step n D pen dense s a).2.stepType = .last) ∧
    (legal s a ↔ (step n D pen dense s a).1.numVisited = s.numVisited + 1) := by
  have hal : a < s.visited.length := by rw [hf.1]; exact ha
  have h1 : legal s a → (step n D pen dense s a).1 = visit s a := by
    intro hl
    obtain ⟨_, hk, _, hv, hupd, _⟩ := legal_facts n s a hf hl
    rw [step_fst, hv, if_pos rfl, hupd]
    unfold updated visit
    congr 1
    omega
  have h2 : ¬ legal s a → (step n D pen dense s a).1 = s ∧ (step n D pen dense s a).2.stepType = .last := by
    intro hl
    have hv : isValid s (a : Int) = false := by
      cases h : isValid s (a : Int) with
      | false => rfl
      | true => exact absurd ((isValid_iff_legal s a hal).mp h) hl
    refine ⟨by rw [step_fst, hv]; rfl, ?_⟩
    rw [step_snd, hv]
    simp [condLast, termination]
  refine ⟨h1, h2, ?_⟩
  constructor
  · intro hl; rw [h1 hl]; rfl
  · intro he
    by_cases hl : legal s a
    · exact hl
    · rw [(h2 hl).1] at he; omega

/-! ### C06: complete mask-respecting episodes end in a complete tour -/

theorem episode_complete_is_solution (n : Nat) (D : Dist) (pen : Rat) (dense : Bool) (u : List (List Rat))
    (as : List Nat) (hm : AllMasked n D pen dense (generate n u) as) (hlen : as.length = n) :
    IsSolution n (play n D pen dense (generate n u) as).1 := by
  have hal := (allMasked_iff n D pen dense as _).1 hm
  have hf0 : Feasible n (generate n u) := reset_feasible n u
  have hf := feasible_along n D pen dense _ as hf0 hal as.length
  rw [List.take_length] at hf
  refine ⟨hf, ?_⟩
  rw [play_numVisited n D pen dense _ _ hf0 hal]
  simp [generate, hlen]

/-! ### C11: an episode lasts at most `num_cities` steps -/

def pot (n : Nat) (s : State) : Nat := n - 1 - s.numVisited.toNat

theorem bounded (n : Nat) (D : Dist) (pen : Rat) (dense : Bool) :
    Ep.Bounded (Ep.ofStep (fun s (a : Nat) => step n D pen dense s (a : Int)) (·.numVisited)) (Feasible n)
      (fun a => a < n) (pot n) :=
  Ep.Bounded.of_step (fun s a hi ha => step_feasible_any n D pen dense s a hi ha) (fun s a hi ha hnl => by
    have hp := progress n D pen dense s (a : Int) hnl
    have hf' := step_feasible_any n D pen dense s a hi ha
    have h0 := hi.2.2.1
    have hn' := hf'.2.2.2.1
    unfold pot
    omega)

/-- from every reset state (any `n ≥ 1`, any coordinates), EVERY list of at least `n` in-spec actions — legal or not —
contains a LAST timestep, the first one at (1-based) index ≤ `n` -/
theorem ends_within_horizon (n : Nat) (hn : 0 < n) (D : Dist) (pen : Rat) (dense : Bool) (coords : List (List Rat))
    (as : List Nat) (hok : ∀ a ∈ as, a < n) (hlen : n ≤ as.length) :
    ∃ k, Ep.firstLastTS ((Ep.rollout (fun s (a : Nat) => step n D pen dense s (a : Int)) (reset n coords).1 as).map
      (·.2)) = some k ∧ 0 < k ∧ k ≤ n := by
  have hp : pot n (reset n coords).1 + 1 = n := by simp only [pot, reset]; omega
  obtain ⟨k, hk, h1, h2⟩ := (bounded n D pen dense).rollout_ends _ (reset_feasible n coords) as hok (by omega)
  exact ⟨k, hk, h1, by omega⟩

end TSP
