/-
TSP, C08/C09 without the restriction `2 ≤ n`.

For `n ≥ 2` the closing leg of `DenseReward` reads `state.trajectory[0]` of the PREVIOUS state, which is
already filled when the tour completes.  For `n = 1` the only move completes the tour at once and the
stale `trajectory[0]` is still `−1`: the reward is `−‖coordinates[0] − coordinates[−1]‖`, a gather with a
negative index.  JAX wraps `−1` to `n − 1 = 0`, so on a distance table with one column the value is
`D[0][0]`, the length of the closed tour through the single city — the telescoping law survives.  On a
table whose row 0 is longer than `n` it does not (`dense_n1_needs_shape`), hence the hypothesis `WrapOK`.
For `n = 0` there is no legal move and every statement is vacuous or `0 = 0`.
-/
import JumanjiModel.Env.TSP.Lemmas
namespace TSP
open Jm

/-- the one fact about `D` that the single-city instance needs: the gather `coordinates[−1]` and
`coordinates[0]` read the same city.  No condition for `n ≠ 1`. -/
def WrapOK (n : Nat) (D : Dist) : Prop := n = 1 → dist D 0 (-1) = dist D 0 0

instance (n : Nat) (D : Dist) : Decidable (WrapOK n D) := by unfold WrapOK; infer_instance

theorem wrapOK_of_two_le (n : Nat) (D : Dist) (hn : 2 ≤ n) : WrapOK n D := fun h => by omega

/-- every table whose rows have length `n` (in particular every `DistOK n D`) satisfies `WrapOK` -/
theorem wrapOK_of_rows (n : Nat) (D : Dist) (h : ∀ row ∈ D, row.length = n) : WrapOK n D := by
  intro hn
  subst hn
  unfold dist Jx.Grid.getWC
  cases D with
  | nil => simp [Jx.getWC]
  | cons r rs =>
    have hr : (Jx.getWC (r :: rs) [] 0).length = 1 := by
      apply h
      unfold Jx.getWC
      have : Jx.clampIdx (r :: rs).length 0 < (r :: rs).length := Jx.clampIdx_lt (by simp) 0
      rw [List.getD_eq_getElem?_getD, List.getElem?_eq_getElem this]
      exact List.getElem_mem this
    generalize Jx.getWC (r :: rs) [] 0 = row at hr
    unfold Jx.getWC
    rw [hr]
    rfl

theorem wrapOK_of_distOK (n : Nat) (D : Dist) (h : DistOK n D) : WrapOK n D :=
  wrapOK_of_rows n D h.2.1

/-- the shape of a feasible state of the single-city instance that still has a legal move -/
theorem n1_state (s : State) (a : Nat) (hf : Feasible 1 s) (hl : legal s a) :
    a = 0 ∧ s.numVisited = 0 ∧ s.visited = [false] ∧ s.trajectory = [-1] ∧ s.position = -1 := by
  obtain ⟨han, hk, hkn, _, _, _⟩ := legal_facts 1 s a hf hl
  obtain ⟨f1, f2, f3, f4, f5, f6, f7, f8, f9, f10⟩ := hf
  obtain ⟨l1, l2⟩ := hl
  have ha : a = 0 := by omega
  have h0 : s.numVisited = 0 := by omega
  subst ha
  have hr : route s = [] := by unfold route; rw [h0]; rfl
  refine ⟨rfl, h0, ?_, ?_, ?_⟩
  · match hv : s.visited, f1, l2 with
    | [b], _, l2 => simp at l2; rw [l2]
  · rw [h0] at f8
    match ht : s.trajectory, f2, f8 with
    | [c], _, f8 => simp at f8; rw [f8]
  · rw [f9, hr]; rfl

/-- EXACT behaviour for `n = 1` (any table `D`, any penalty): the single legal move is rewarded with
minus the distance between the city and the city that index `−1` gathers -/
theorem dense_n1_exact (D : Dist) (pen : Rat) (s : State) (a : Nat) (hf : Feasible 1 s) (hl : legal s a) :
    (step 1 D pen true s a).2.reward = [-(dist D 0 (-1))] ∧
    (step 1 D pen true s a).2.stepType = .last ∧ (step 1 D pen true s a).1.numVisited = 1 := by
  obtain ⟨ha, h0, hv, ht, hp⟩ := n1_state s a hf hl
  subst ha
  obtain ⟨coords, position, visited, trajectory, numVisited⟩ := s
  simp only [] at h0 hv ht hp
  subst h0 hv ht hp
  refine ⟨?_, ?_, ?_⟩
  · simp [step, isValid, update, reward, denseReward, condLast, termination, Jx.getWC, Jx.setWD,
      Jx.clampIdx, Jx.wrapIdx]
    grind
  · simp [step, isValid, update, condLast, termination, Jx.getWC, Jx.setWD, Jx.clampIdx, Jx.wrapIdx]
  · simp [step, isValid, update, Jx.getWC, Jx.setWD, Jx.clampIdx, Jx.wrapIdx]

/-- the sparse reward of that move is minus the closed tour through the single city, `−D[0][0]` -/
theorem sparse_n1_exact (D : Dist) (pen : Rat) (s : State) (a : Nat) (hf : Feasible 1 s) (hl : legal s a) :
    (step 1 D pen false s a).2.reward = [-(dist D 0 0)] := by
  obtain ⟨ha, h0, hv, ht, hp⟩ := n1_state s a hf hl
  subst ha
  obtain ⟨coords, position, visited, trajectory, numVisited⟩ := s
  simp only [] at h0 hv ht hp
  subst h0 hv ht hp
  simp [step, isValid, update, reward, sparseReward, tourLength, condLast, termination, Jx.getWC,
    Jx.setWD, Jx.clampIdx, Jx.wrapIdx]
  grind

theorem travelled_n1 (D : Dist) (pen : Rat) (s : State) (a : Nat) (hf : Feasible 1 s) (hl : legal s a) :
    travelled 1 D s = 0 ∧ travelled 1 D (step 1 D pen true s a).1 = dist D 0 0 := by
  obtain ⟨ha, h0, hv, ht, hp⟩ := n1_state s a hf hl
  subst ha
  obtain ⟨coords, position, visited, trajectory, numVisited⟩ := s
  simp only [] at h0 hv ht hp
  subst h0 hv ht hp
  refine ⟨?_, ?_⟩
  · simp [travelled, route, pathLen]
  · simp [travelled, route, pathLen, tourLen, step, isValid, update, Jx.getWC, Jx.setWD, Jx.clampIdx, Jx.wrapIdx]
    grind

/-- without `WrapOK` the telescoping law is FALSE for `n = 1`: on the (malformed, 1 × 2) table `[[0, 5]]`
the move is rewarded `−5` although nothing is travelled.  Model-level only: the distances the code
computes come from `n` coordinates, so its table always has `n` columns. -/
theorem dense_n1_needs_shape :
    Feasible 1 (reset 1 [[0, 0]]).1 ∧ legal (reset 1 [[0, 0]]).1 0 ∧
    (step 1 [[0, 5]] (-2) true (reset 1 [[0, 0]]).1 0).2.reward = [-5] ∧
    travelled 1 [[0, 5]] (reset 1 [[0, 0]]).1 -
      travelled 1 [[0, 5]] (step 1 [[0, 5]] (-2) true (reset 1 [[0, 0]]).1 0).1 = 0 := by decide +kernel

/-- C08 (dense) for EVERY `n`: the reward of an accepted move is minus the increase of the distance
travelled (closing leg included when the tour completes) -/
theorem dense_telescopes_all (n : Nat) (D : Dist) (pen : Rat) (s : State) (a : Nat) (hw : WrapOK n D)
    (hf : Feasible n s) (hl : legal s a) :
    (step n D pen true s a).2.reward = [travelled n D s - travelled n D (step n D pen true s a).1] := by
  by_cases hn : 2 ≤ n
  · exact dense_telescopes n D pen s a hn hf hl
  · have han := (legal_facts n s a hf hl).1
    have h1 : n = 1 := by omega
    subst h1
    rw [(dense_n1_exact D pen s a hf hl).1, (travelled_n1 D pen s a hf hl).1,
      (travelled_n1 D pen s a hf hl).2, hw rfl]
    congr 1
    grind

/-- C08 (dense, whole episodes) for every `n` -/
theorem dense_return_all (n : Nat) (D : Dist) (pen : Rat) (hw : WrapOK n D) (as : List Nat) :
    ∀ s, Feasible n s → AllLegal n D pen true s as →
      (play n D pen true s as).2 = travelled n D s - travelled n D (play n D pen true s as).1 ∧
      Feasible n (play n D pen true s as).1 := by
  induction as with
  | nil => intro s hf _; simp only [play]; exact ⟨by grind, hf⟩
  | cons a as ih =>
    intro s hf hal
    obtain ⟨hl, hrest⟩ := hal
    have hf' := step_feasible n D pen true s a hf hl
    obtain ⟨h1, h2⟩ := ih _ hf' hrest
    simp only [play]
    rw [h1, dense_telescopes_all n D pen s a hw hf hl]
    refine ⟨?_, h2⟩
    simp only [List.sum_cons, List.sum_nil]
    grind

theorem travelled_reset (n : Nat) (D : Dist) (coords : List (List Rat)) :
    travelled n D (reset n coords).1 = 0 := by
  unfold travelled route reset
  simp [pathLen, tourLen]

/-- a complete feasible state has no legal move -/
theorem no_legal_of_complete (n : Nat) (s : State) (hf : Feasible n s) (hc : s.numVisited = (n : Int))
    (a : Nat) : ¬ legal s a := by
  intro hl
  have := (legal_facts n s a hf hl).2.2.1
  omega

/-- C08 for every `n` (including the degenerate `n = 0`, where the only episode is the empty one, and `n = 1`):
on a complete legal episode from a fresh state, dense return = sparse return = −(closed tour length) -/
theorem dense_eq_sparse_all (n : Nat) (D : Dist) (pen : Rat) (hw : WrapOK n D) (coords : List (List Rat))
    (as : List Nat) (hal : AllLegal n D pen true (reset n coords).1 as)
    (hc : (play n D pen true (reset n coords).1 as).1.numVisited = (n : Int)) :
    (play n D pen true (reset n coords).1 as).2 = objective D (play n D pen true (reset n coords).1 as).1 ∧
    (play n D pen false (reset n coords).1 as).2 = (play n D pen true (reset n coords).1 as).2 := by
  have hf0 := reset_feasible n coords
  obtain ⟨h1, h2⟩ := dense_return_all n D pen hw as _ hf0 hal
  have ht0 := travelled_reset n D coords
  have hd : (play n D pen true (reset n coords).1 as).2 = objective D (play n D pen true (reset n coords).1 as).1 := by
    rw [h1, ht0, travelled_complete n D _ h2 hc]; unfold objective; grind
  refine ⟨hd, ?_⟩
  by_cases hn : n = 0
  · -- no city: no legal move, the episode is empty
    subst hn
    cases as with
    | nil => rfl
    | cons a as =>
      exfalso
      exact no_legal_of_complete 0 _ hf0 (by simp [reset]) a hal.1
  · have hs := sparse_return n D pen as _ hf0 (by simp [reset]; omega) ((allLegal_indep n D pen as _).1 hal)
    rw [hs, ← play_fst_indep, if_pos hc, hd]; rfl

/-- C09 for every `n`: on feasible states with cities left, the transliterated `step` IS `stepSpec` -/
theorem step_eq_spec_all (n : Nat) (D : Dist) (pen : Rat) (dense : Bool) (s : State) (a : Nat)
    (hw : WrapOK n D) (hf : Feasible n s) (hrun : s.numVisited < n) (ha : a < n) :
    step n D pen dense s (a : Int) = stepSpec n D pen dense s a := by
  by_cases hn : 2 ≤ n
  · exact step_eq_spec n D pen dense s a hn hf hrun ha
  · have h1 : n = 1 := by omega
    subst h1
    have ha0 : a = 0 := by omega
    subst ha0
    -- with one city and nothing visited the only action is legal
    obtain ⟨f1, f2, f3, f4, f5, f6, f7, f8, f9, f10⟩ := hf
    have h0 : s.numVisited = 0 := by omega
    have hl : legal s 0 := by
      refine ⟨by omega, ?_⟩
      rw [h0] at f10
      match hv : s.visited, f1, f10 with
      | [b], _, f10 =>
        cases b
        · rfl
        · simp [Jx.countTrue] at f10
    have hf : Feasible 1 s := ⟨f1, f2, f3, f4, f5, f6, f7, f8, f9, f10⟩
    obtain ⟨han, hk, hkn, hv, hupd, hroute⟩ := legal_facts 1 s 0 hf hl
    have hs' : (step 1 D pen dense s (0 : Nat)).1 = updated s 0 := by rw [step_fst, hv, if_pos rfl, hupd]
    have hsp : updated s 0 = visit s 0 := by
      unfold updated visit; congr 1; omega
    have hobs : obsOf (step 1 D pen dense s (0 : Nat)).1 = observe (step 1 D pen dense s (0 : Nat)).1 :=
      feasible_obs 1 _ (step_feasible 1 D pen dense s 0 hf hl)
    have hrew : reward dense D pen s (step 1 D pen dense s (0 : Nat)).1 (isValid s ((0 : Nat) : Int)) =
        if dense then travelled 1 D s - travelled 1 D (step 1 D pen dense s (0 : Nat)).1
        else if (step 1 D pen dense s (0 : Nat)).1.numVisited = ((1 : Nat) : Int)
             then -(tourLen D (step 1 D pen dense s (0 : Nat)).1.trajectory) else 0 := by
      have h0 := step_reward 1 D pen dense s ((0 : Nat) : Int)
      cases dense
      · have h1 := sparse_reward 1 D pen s 0 hf hl
        rw [h0] at h1
        simpa using h1
      · have h1 := dense_telescopes_all 1 D pen s 0 hw hf hl
        rw [h0] at h1
        simpa using h1
    apply Prod.ext
    · rw [hs', hsp]; unfold stepSpec; rw [if_pos hl]
    · rw [step_snd, hrew, hobs, hv]
      simp only [Bool.not_true, Bool.or_false]
      rw [hs', hsp]
      unfold stepSpec condLast
      rw [if_pos hl]
      simp only [beq_iff_eq]

end TSP
