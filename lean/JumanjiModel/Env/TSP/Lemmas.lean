import JumanjiModel.Env.TSP.Model
import JumanjiModel.Prim.Lemmas
namespace TSP
open Jm

/-! ### lists -/

theorem take_succ_set {α} (l : List α) (k : Nat) (a : α) (hk : k < l.length) :
    (l.set k a).take (k + 1) = l.take k ++ [a] := by
  induction l generalizing k with
  | nil => simp at hk
  | cons x xs ih =>
    cases k with
    | zero => simp
    | succ k => simp at hk; simp [ih k hk]

theorem drop_succ_set {α} (l : List α) (k : Nat) (a : α) :
    (l.set k a).drop (k + 1) = l.drop (k + 1) := by
  induction l generalizing k with
  | nil => simp
  | cons x xs ih =>
    cases k with
    | zero => simp
    | succ k => simp [ih k]

theorem countTrue_le (ps : List Bool) : Jx.countTrue ps ≤ ps.length := by
  unfold Jx.countTrue; exact List.length_filter_le _ _

theorem countTrue_set (ps : List Bool) (a : Nat) (ha : a < ps.length) (hp : ps.getD a true = false) :
    Jx.countTrue (ps.set a true) = Jx.countTrue ps + 1 := by
  induction ps generalizing a with
  | nil => simp at ha
  | cons p ps ih =>
    cases a with
    | zero =>
      simp [List.getD_eq_getElem?_getD] at hp
      subst hp
      simp [Jx.countTrue]
    | succ a =>
      simp at ha
      have hp' : ps.getD a true = false := by simpa [List.getD_eq_getElem?_getD] using hp
      have := ih a ha hp'
      unfold Jx.countTrue at this ⊢
      cases p <;> simp [List.filter_cons] at this ⊢ <;> omega

/-- an unvisited entry keeps the count below the length -/
theorem countTrue_lt (ps : List Bool) (a : Nat) (ha : a < ps.length) (hp : ps.getD a true = false) :
    Jx.countTrue ps < ps.length := by
  have h1 := countTrue_set ps a ha hp
  have h2 := countTrue_le (ps.set a true)
  simp at h2; omega

theorem countTrue_pos (ps : List Bool) (a : Nat) (ha : a < ps.length) (hp : ps.getD a true = true) :
    0 < Jx.countTrue ps := by
  unfold Jx.countTrue
  apply List.length_pos_of_mem (a := true)
  rw [List.mem_filter]
  refine ⟨?_, rfl⟩
  rw [List.getD_eq_getElem?_getD, List.getElem?_eq_getElem ha] at hp
  simp at hp
  rw [← hp]; exact List.getElem_mem _

theorem countTrue_all (ps : List Bool) (h : ps.all id = true) : Jx.countTrue ps = ps.length := by
  unfold Jx.countTrue
  rw [List.filter_eq_self.2]
  intro b hb
  cases b
  · simp at h; exact absurd hb h
  · rfl

/-! ### C04 -/

theorem mask_iff_legal (s : State) (a : Nat) : (obsOf s).mask.getD a false = true ↔ legal s a := by
  unfold obsOf legal
  simp only []
  by_cases ha : a < s.visited.length
  · simp [List.getD_eq_getElem?_getD, List.getElem?_map, List.getElem?_eq_getElem ha, ha]
  · simp [List.getD_eq_getElem?_getD, ha]

theorem isValid_iff_legal (s : State) (a : Nat) (ha : a < s.visited.length) :
    isValid s (a : Int) = true ↔ legal s a := by
  unfold isValid legal
  rw [Jx.getWC_nat _ _ ha]
  simp [List.getD_eq_getElem?_getD, List.getElem?_eq_getElem ha, ha]

theorem step_fst (n : Nat) (D : Dist) (pen : Rat) (dense : Bool) (s : State) (a : Int) :
    (step n D pen dense s a).1 = if isValid s a = true then update s a else s := rfl

theorem step_snd (n : Nat) (D : Dist) (pen : Rat) (dense : Bool) (s : State) (a : Int) :
    (step n D pen dense s a).2 =
      condLast (((step n D pen dense s a).1.numVisited == (n : Int)) || !(isValid s a))
        [reward dense D pen s (step n D pen dense s a).1 (isValid s a)]
        (obsOf (step n D pen dense s a).1) := rfl

/-! ### C05 -/

/-- an already visited city ends the episode with the penalty and leaves the state untouched -/
theorem illegal_step (n : Nat) (D : Dist) (pen : Rat) (dense : Bool) (s : State) (a : Nat)
    (hf : Feasible n s) (hrun : s.numVisited < n) (ha : a < n) (hl : ¬ legal s a) :
    (step n D pen dense s a).1 = s ∧ (step n D pen dense s a).2.stepType = .last ∧
    (step n D pen dense s a).2.reward = [pen] ∧ (step n D pen dense s a).2.discount = [0] := by
  obtain ⟨f1, f2, f3, f4, f5, f6, f7, f8, f9, f10⟩ := hf
  have hav : a < s.visited.length := by omega
  have hv : isValid s (a : Int) = false := by
    cases hh : isValid s (a : Int)
    · rfl
    · exact absurd ((isValid_iff_legal s a hav).1 hh) hl
  have hs : (step n D pen dense s a).1 = s := by rw [step_fst]; simp [hv]
  have hvis : s.visited.getD a true = true := by
    cases hh : s.visited.getD a true
    · exact absurd ⟨hav, hh⟩ hl
    · rfl
  have hpos := countTrue_pos s.visited a hav hvis
  have hnv0 : (s.numVisited == 0) = false := by
    have : s.numVisited ≠ 0 := by omega
    simpa using this
  have hnall : s.visited.all id = false := by
    cases hh : s.visited.all id
    · rfl
    · have := countTrue_all s.visited hh; omega
  have hr : reward dense D pen s s false = pen := by
    unfold reward denseReward sparseReward
    cases dense <;> simp [hnv0, hnall]
  have e : (step n D pen dense s a).2 = termination [pen] (obsOf s) := by
    rw [step_snd, hs]
    simp only [hv, Bool.not_false, Bool.or_true, condLast, if_true, hr]
  rw [e]
  exact ⟨hs, rfl, rfl, rfl⟩


/-- `_update_state` for an in-range city and counter: plain `set`s -/
def updated (s : State) (a : Nat) : State :=
  { coords := s.coords, position := (a : Int), visited := s.visited.set a true,
    trajectory := s.trajectory.set s.numVisited.toNat (a : Int),
    numVisited := ((s.numVisited.toNat + 1 : Nat) : Int) }

/-- facts about a legal move in a feasible state, used by several theorems -/
theorem legal_facts (n : Nat) (s : State) (a : Nat) (hf : Feasible n s) (hl : legal s a) :
    a < n ∧ s.numVisited = ((s.numVisited.toNat : Nat) : Int) ∧ s.numVisited.toNat < n ∧
    isValid s (a : Int) = true ∧
    update s (a : Int) = updated s a ∧
    route (update s (a : Int)) = route s ++ [(a : Int)] := by
  obtain ⟨f1, f2, f3, f4, f5, f6, f7, f8, f9, f10⟩ := hf
  obtain ⟨l1, l2⟩ := hl
  have hk : s.numVisited = ((s.numVisited.toNat : Nat) : Int) := by omega
  have hlt := countTrue_lt s.visited a l1 l2
  have hkn : s.numVisited.toNat < n := by omega
  have hupd : update s (a : Int) = updated s a := by
    unfold update updated
    rw [Jx.setWD_nat _ _ l1]
    conv => lhs; rw [hk]
    rw [Jx.setWD_nat _ _ (by omega : s.numVisited.toNat < s.trajectory.length)]
    simp
  refine ⟨by omega, hk, hkn, (isValid_iff_legal s a l1).2 ⟨l1, l2⟩, hupd, ?_⟩
  rw [hupd]
  unfold route updated
  simp only []
  have : ((s.numVisited.toNat + 1 : Nat) : Int).toNat = s.numVisited.toNat + 1 := by omega
  rw [this, take_succ_set _ _ _ (by omega)]

/-- C06: visiting an unvisited city keeps the partial tour feasible -/
theorem update_feasible (n : Nat) (s : State) (a : Nat) (hf : Feasible n s) (hl : legal s a) :
    Feasible n (update s (a : Int)) := by
  obtain ⟨han, hk, hkn, hv, hupd, hroute⟩ := legal_facts n s a hf hl
  obtain ⟨f1, f2, f3, f4, f5, f6, f7, f8, f9, f10⟩ := hf
  obtain ⟨l1, l2⟩ := hl
  have hnotin : (a : Int) ∉ route s := by
    intro hm
    have := (f7 a han).2 hm
    rw [List.getD_eq_getElem?_getD, List.getElem?_eq_getElem l1] at this l2
    simp at this l2
    rw [this] at l2; cases l2
  unfold Feasible
  rw [hroute]
  rw [hupd]
  unfold updated
  simp only []
  refine ⟨by simp [f1], by simp [f2], by omega, by omega, ?_, ?_, ?_, ?_, ?_, ?_⟩
  · rw [List.nodup_append]
    refine ⟨f5, by simp, ?_⟩
    intro x hx y hy
    simp at hy
    subst hy
    intro e; subst e; exact hnotin hx
  · intro c hc
    rcases List.mem_append.1 hc with h | h
    · exact f6 c h
    · simp at h; omega
  · intro i hi
    have hiv : i < s.visited.length := by omega
    rw [List.mem_append]
    simp only [List.getD_eq_getElem?_getD, List.getElem?_set, List.mem_singleton]
    by_cases e : a = i
    · subst e
      simp [l1]
    · have e' : ¬ (i : Int) = (a : Int) := by omega
      simp only [e, if_false, e', or_false]
      have := f7 i hi
      rw [List.getD_eq_getElem?_getD] at this
      exact this
  · have : ((s.numVisited.toNat + 1 : Nat) : Int).toNat = s.numVisited.toNat + 1 := by omega
    rw [this, drop_succ_set]
    intro c hc
    apply f8
    have e : s.trajectory.drop (s.numVisited.toNat + 1) = (s.trajectory.drop s.numVisited.toNat).drop 1 := by
      rw [List.drop_drop]
    rw [e] at hc
    exact List.mem_of_mem_drop hc
  · simp
  · rw [countTrue_set _ _ l1 l2]; omega

theorem step_feasible (n : Nat) (D : Dist) (pen : Rat) (dense : Bool) (s : State) (a : Nat)
    (hf : Feasible n s) (hl : legal s a) : Feasible n (step n D pen dense s a).1 := by
  rw [step_fst, (legal_facts n s a hf hl).2.2.2.1, if_pos rfl]
  exact update_feasible n s a hf hl

theorem reset_feasible (n : Nat) (coords : List (List Rat)) : Feasible n (reset n coords).1 := by
  unfold reset Feasible route
  simp [Jx.countTrue]
  intro i hi
  simp [hi]

/-- C06/C11: an accepted move ends the episode exactly when every city has been visited -/
theorem complete_is_solution (n : Nat) (D : Dist) (pen : Rat) (dense : Bool) (s : State) (a : Nat)
    (hf : Feasible n s) (hl : legal s a) (hlast : (step n D pen dense s a).2.stepType = .last) :
    IsSolution n (step n D pen dense s a).1 := by
  refine ⟨step_feasible n D pen dense s a hf hl, ?_⟩
  have hv := (legal_facts n s a hf hl).2.2.2.1
  rw [step_snd] at hlast
  simp only [hv, Bool.not_true, Bool.or_false, condLast] at hlast
  split at hlast
  · rename_i h; simpa using h
  · simp [transition] at hlast

/-- C11: a step that does not end the episode visits one more city, and cities remain -/
theorem progress (n : Nat) (D : Dist) (pen : Rat) (dense : Bool) (s : State) (a : Int)
    (hnl : (step n D pen dense s a).2.stepType ≠ .last) :
    (step n D pen dense s a).1.numVisited = s.numVisited + 1 ∧
    (step n D pen dense s a).1.numVisited ≠ n := by
  rw [step_snd] at hnl
  unfold condLast at hnl
  split at hnl
  · simp [termination] at hnl
  · rename_i h
    simp only [Bool.or_eq_true, not_or, Bool.not_eq_true', Bool.not_eq_false] at h
    obtain ⟨h1, h2⟩ := h
    constructor
    · rw [step_fst, if_pos h2]; rfl
    · simpa using h1


theorem getLastD_concat' {α} (l : List α) (a d : α) : (l ++ [a]).getLastD d = a := by
  induction l generalizing d with
  | nil => rfl
  | cons x xs ih => rw [List.cons_append, List.getLastD_cons]; exact ih x

theorem rat_arith1 (p x y : Rat) : -x - y = p - ((p + x) + y) := by grind
theorem rat_arith2 (p x : Rat) : -x = p - (p + x) := by grind

/-! ### C12 -/

theorem feasible_obs (n : Nat) (s : State) (hf : Feasible n s) : obsOf s = observe s := by
  obtain ⟨f1, f2, f3, f4, f5, f6, f7, f8, f9, f10⟩ := hf
  unfold obsOf observe
  rw [← f9]
  congr 1
  apply List.ext_getElem?
  intro i
  by_cases hi : i < s.visited.length
  · simp [hi, legal, List.getD_eq_getElem?_getD]
  · simp [hi]

/-- the observation returned by `step` is the documented view of the new state -/
theorem obs_faithful (n : Nat) (D : Dist) (pen : Rat) (dense : Bool) (s : State) (a : Nat)
    (hf : Feasible n s) (ha : a < n) :
    (step n D pen dense s a).2.obs = observe (step n D pen dense s a).1 := by
  have e : (step n D pen dense s a).2.obs = obsOf (step n D pen dense s a).1 := by
    rw [step_snd]; unfold condLast; split <;> rfl
  rw [e]
  by_cases hl : legal s a
  · exact feasible_obs n _ (step_feasible n D pen dense s a hf hl)
  · have hav : a < s.visited.length := by have := hf.1; omega
    have hv : isValid s (a : Int) = false := by
      cases hh : isValid s (a : Int)
      · rfl
      · exact absurd ((isValid_iff_legal s a hav).1 hh) hl
    have hs : (step n D pen dense s a).1 = s := by rw [step_fst]; simp [hv]
    rw [hs]; exact feasible_obs n s hf

/-! ### C08 -/

theorem pathLen_append (D : Dist) (l : List Int) (a : Int) :
    pathLen D (l ++ [a]) = pathLen D l + (if l = [] then 0 else dist D (l.getLastD (-1)) a) := by
  induction l with
  | nil => simp [pathLen]; grind
  | cons x xs ih =>
    cases xs with
    | nil => simp [pathLen]; grind
    | cons y rest =>
      simp only [List.cons_append, pathLen] at ih ⊢
      rw [ih]
      simp
      grind

/-- the L1 tour length (`roll` and `zipWith`) is the length of the closed tour -/
theorem tourLength_eq (D : Dist) (l : List Int) : tourLength D l = tourLen D l := by
  have key : ∀ (xs : List Int) (x c : Int),
      (List.zipWith (fun i j => dist D i j) (x :: xs) (xs ++ [c])).sum
        = pathLen D (x :: xs) + dist D ((x :: xs).getLastD c) c := by
    intro xs
    induction xs with
    | nil => intro x c; simp [pathLen]; grind
    | cons y ys ih =>
      intro x c
      simp only [List.cons_append, List.zipWith_cons_cons, List.sum_cons, pathLen]
      rw [ih y c]
      simp
      grind
  cases l with
  | nil => simp [tourLength, tourLen]
  | cons c rest =>
    unfold tourLength tourLen
    simp only [List.drop_succ_cons, List.drop_zero, List.take_succ_cons, List.take_zero]
    exact key rest c c

theorem all_iff_count (ps : List Bool) : ps.all id = true ↔ Jx.countTrue ps = ps.length := by
  constructor
  · exact countTrue_all ps
  · intro h
    unfold Jx.countTrue at h
    rw [List.length_filter_eq_length_iff] at h
    simpa using h

/-- C08 (dense): the reward of an accepted move is minus the increase of the distance travelled
(closing leg included when the tour completes) -/
theorem dense_telescopes (n : Nat) (D : Dist) (pen : Rat) (s : State) (a : Nat) (hn : 2 ≤ n)
    (hf : Feasible n s) (hl : legal s a) :
    (step n D pen true s a).2.reward =
      [travelled n D s - travelled n D (step n D pen true s a).1] := by
  have hf' := step_feasible n D pen true s a hf hl
  obtain ⟨han, hk, hkn, hv, hupd, hroute⟩ := legal_facts n s a hf hl
  have hs' : (step n D pen true s a).1 = update s (a : Int) := by rw [step_fst, hv, if_pos rfl]
  obtain ⟨f1, f2, f3, f4, f5, f6, f7, f8, f9, f10⟩ := hf
  have hr : (step n D pen true s a).2.reward = [denseReward D pen s (update s (a : Int)) true] := by
    rw [step_snd, hs', hv]; unfold condLast reward; split <;> simp [termination, transition]
  rw [hr, hs']
  -- all visited ↔ counter = n
  have hall : (update s (a : Int)).visited.all id = decide ((update s (a : Int)).numVisited = (n : Int)) := by
    rw [hs'] at hf'
    obtain ⟨g1, _, _, _, _, _, _, _, _, g10⟩ := hf'
    rw [Bool.eq_iff_iff, all_iff_count, g1]
    simp only [decide_eq_true_eq]
    omega
  have hnv' : (update s (a : Int)).numVisited = s.numVisited + 1 := rfl
  have hpos' : (update s (a : Int)).position = (a : Int) := rfl
  have hsn : ¬ s.numVisited = (n : Int) := by omega
  unfold denseReward travelled
  simp only [hall, hpos', if_true, hroute, hsn, if_false, hnv']
  by_cases h0 : s.numVisited = 0
  · -- first move: nothing travelled, and (n ≥ 2) the tour is not complete
    have hr0 : route s = [] := by unfold route; rw [h0]; simp
    have hne : ¬ ((1 : Int) = (n : Int)) := by omega
    simp [h0, hr0, hne, pathLen]; grind
  · have hne0 : route s ≠ [] := by
      unfold route
      intro e
      have hlen : (List.take s.numVisited.toNat s.trajectory).length = 0 := by rw [e]; rfl
      rw [List.length_take] at hlen
      omega
    have hb : (s.numVisited == 0) = false := by simpa using h0
    rw [pathLen_append, if_neg hne0, ← f9]
    simp only [hb, Bool.false_eq_true, if_false]
    by_cases hc : s.numVisited + 1 = (n : Int)
    · simp only [hc, decide_true, if_true]
      -- the initial city is the head of the route
      obtain ⟨c, rest, hcr⟩ := List.exists_cons_of_ne_nil hne0
      have hinit : s.trajectory.getD 0 (-1) = c := by
        have : (route s).getD 0 (-1) = c := by rw [hcr]; rfl
        unfold route at this
        rw [List.getD_eq_getElem?_getD, List.getElem?_take] at this
        have hk0 : 0 < s.numVisited.toNat := by omega
        simp only [hk0, if_true] at this
        rw [List.getD_eq_getElem?_getD]; exact this
      rw [hinit, hcr]
      unfold tourLen
      simp only [List.cons_append]
      rw [← List.cons_append, pathLen_append]
      have e1 : ((c :: rest) ++ [(a : Int)]).getLastD c = (a : Int) := getLastD_concat' _ _ _
      have e2 : (c :: rest).getLastD (-1) = s.position := by rw [f9, hcr]
      rw [e1, e2, if_neg (List.cons_ne_nil _ _)]
      congr 1
      exact rat_arith1 _ _ _
    · simp only [hc, decide_false, Bool.false_eq_true, if_false]
      congr 1
      exact rat_arith2 _ _

/-- C08 (sparse): zero until the tour is complete, then minus the length of the closed tour -/
theorem sparse_reward (n : Nat) (D : Dist) (pen : Rat) (s : State) (a : Nat)
    (hf : Feasible n s) (hl : legal s a) :
    (step n D pen false s a).2.reward =
      [if (step n D pen false s a).1.numVisited = (n : Int)
       then -(tourLen D (step n D pen false s a).1.trajectory) else 0] := by
  obtain ⟨han, hk, hkn, hv, hupd, hroute⟩ := legal_facts n s a hf hl
  have hs' : (step n D pen false s a).1 = update s (a : Int) := by rw [step_fst, hv, if_pos rfl]
  have hr : (step n D pen false s a).2.reward = [sparseReward D pen s (update s (a : Int)) true] := by
    rw [step_snd, hs', hv]; unfold condLast reward; split <;> simp [termination, transition]
  rw [hr, hs']
  unfold sparseReward
  simp only [hf.1, Bool.not_true, Bool.or_false, if_true, tourLength_eq, beq_iff_eq]

/-- in a complete feasible state the distance travelled is the length of the closed tour through
`trajectory`, i.e. minus the objective -/
theorem travelled_complete (n : Nat) (D : Dist) (s : State) (hf : Feasible n s)
    (hc : s.numVisited = (n : Int)) : travelled n D s = tourLen D s.trajectory := by
  unfold travelled route
  rw [if_pos hc, hc]
  have : ((n : Int)).toNat = n := by omega
  rw [this, List.take_of_length_le (by rw [hf.2.1]; exact Nat.le_refl _)]

theorem step_fst_indep (n : Nat) (D : Dist) (pen : Rat) (d1 d2 : Bool) (s : State) (a : Int) :
    (step n D pen d1 s a).1 = (step n D pen d2 s a).1 := rfl

/-- C08 (dense, whole episodes): along any sequence of legal moves the sum of the dense rewards is minus
the increase of the distance travelled; feasibility is kept -/
theorem dense_return (n : Nat) (D : Dist) (pen : Rat) (hn : 2 ≤ n) (as : List Nat) :
    ∀ s, Feasible n s → AllLegal n D pen true s as →
      (play n D pen true s as).2 = travelled n D s - travelled n D (play n D pen true s as).1 ∧
      Feasible n (play n D pen true s as).1 := by
  induction as with
  | nil => intro s hf _; simp only [play]; exact ⟨by grind, hf⟩
  | cons a as ih =>
    intro s hf hal
    obtain ⟨hl, hrest⟩ := hal
    have hf' := step_feasible n D pen true s a hf hl
    obtain ⟨h1, h2⟩ := ih _ hf' hrest
    simp only [play]
    rw [h1, dense_telescopes n D pen s a hn hf hl]
    refine ⟨?_, h2⟩
    simp only [List.sum_cons, List.sum_nil]
    grind

/-- C08 (sparse, whole episodes): the sum of the sparse rewards along legal moves from a state with cities
left is minus the closed tour length if the tour got completed, and 0 otherwise -/
theorem sparse_return (n : Nat) (D : Dist) (pen : Rat) (as : List Nat) :
    ∀ s, Feasible n s → s.numVisited < (n : Int) → AllLegal n D pen false s as →
      (play n D pen false s as).2 =
        if (play n D pen false s as).1.numVisited = (n : Int)
        then -(tourLen D (play n D pen false s as).1.trajectory) else 0 := by
  induction as with
  | nil =>
    intro s _ hlt _
    have hne : ¬ s.numVisited = (n : Int) := by omega
    show (0 : Rat) = if s.numVisited = (n : Int) then _ else 0
    rw [if_neg hne]
  | cons a as ih =>
    intro s hf hlt hal
    obtain ⟨hl, hrest⟩ := hal
    have hf' := step_feasible n D pen false s a hf hl
    simp only [play]
    rw [sparse_reward n D pen s a hf hl]
    by_cases hc : (step n D pen false s a).1.numVisited = (n : Int)
    · -- complete: no further legal move exists
      cases as with
      | nil => simp only [play, hc, if_true, List.sum_cons, List.sum_nil]; grind
      | cons b bs =>
        exfalso
        have := (legal_facts n _ b hf' hrest.1).2.2.1
        omega
    · have hlt' : (step n D pen false s a).1.numVisited < (n : Int) := by
        have := hf'.2.2.2.1; omega
      rw [ih _ hf' hlt' hrest, if_neg hc]
      simp only [List.sum_cons, List.sum_nil]
      grind

theorem play_fst_indep (n : Nat) (D : Dist) (pen : Rat) (as : List Nat) :
    ∀ s, (play n D pen true s as).1 = (play n D pen false s as).1 := by
  induction as with
  | nil => intro s; rfl
  | cons a as ih => intro s; simp only [play]; rw [step_fst_indep n D pen true false, ih]

theorem allLegal_indep (n : Nat) (D : Dist) (pen : Rat) (as : List Nat) :
    ∀ s, AllLegal n D pen true s as ↔ AllLegal n D pen false s as := by
  induction as with
  | nil => intro s; simp [AllLegal]
  | cons a as ih => intro s; simp only [AllLegal]; rw [step_fst_indep n D pen true false, ih]

/-- C08: on a complete legal episode from a fresh state, the dense return, the sparse return and the
objective (minus the closed tour length recomputed from the final trajectory) coincide -/
theorem dense_eq_sparse (n : Nat) (D : Dist) (pen : Rat) (hn : 2 ≤ n) (coords : List (List Rat))
    (as : List Nat) (hal : AllLegal n D pen true (reset n coords).1 as)
    (hc : (play n D pen true (reset n coords).1 as).1.numVisited = (n : Int)) :
    (play n D pen true (reset n coords).1 as).2 = objective D (play n D pen true (reset n coords).1 as).1 ∧
    (play n D pen false (reset n coords).1 as).2 = (play n D pen true (reset n coords).1 as).2 := by
  have hf0 := reset_feasible n coords
  obtain ⟨h1, h2⟩ := dense_return n D pen hn as _ hf0 hal
  have ht0 : travelled n D (reset n coords).1 = 0 := by
    unfold travelled route reset
    have : ¬ ((0 : Int) = (n : Int)) := by omega
    simp [this, pathLen]
  have hd : (play n D pen true (reset n coords).1 as).2 = objective D (play n D pen true (reset n coords).1 as).1 := by
    rw [h1, ht0, travelled_complete n D _ h2 hc]; unfold objective; grind
  refine ⟨hd, ?_⟩
  have hs := sparse_return n D pen as _ hf0 (by simp [reset]; omega) ((allLegal_indep n D pen as _).1 hal)
  rw [hs, ← play_fst_indep, if_pos hc, hd]; rfl

theorem step_reward (n : Nat) (D : Dist) (pen : Rat) (dense : Bool) (s : State) (a : Int) :
    (step n D pen dense s a).2.reward = [reward dense D pen s (step n D pen dense s a).1 (isValid s a)] := by
  rw [step_snd]; unfold condLast; split <;> rfl

/-- C09: on feasible states with cities left, the transliterated `step` IS the rule book `stepSpec` -/
theorem step_eq_spec (n : Nat) (D : Dist) (pen : Rat) (dense : Bool) (s : State) (a : Nat) (hn : 2 ≤ n)
    (hf : Feasible n s) (hrun : s.numVisited < n) (ha : a < n) :
    step n D pen dense s (a : Int) = stepSpec n D pen dense s a := by
  by_cases hl : legal s a
  · obtain ⟨han, hk, hkn, hv, hupd, hroute⟩ := legal_facts n s a hf hl
    have hs' : (step n D pen dense s a).1 = updated s a := by rw [step_fst, hv, if_pos rfl, hupd]
    have hsp : updated s a = visit s a := by
      unfold updated visit; congr 1; omega
    have hobs : obsOf (step n D pen dense s a).1 = observe (step n D pen dense s a).1 :=
      feasible_obs n _ (step_feasible n D pen dense s a hf hl)
    have hrew : reward dense D pen s (step n D pen dense s a).1 (isValid s (a : Int)) =
        if dense then travelled n D s - travelled n D (step n D pen dense s a).1
        else if (step n D pen dense s a).1.numVisited = (n : Int)
             then -(tourLen D (step n D pen dense s a).1.trajectory) else 0 := by
      have h0 := step_reward n D pen dense s (a : Int)
      cases dense
      · have h1 := sparse_reward n D pen s a hf hl
        rw [h0] at h1
        simpa using h1
      · have h1 := dense_telescopes n D pen s a hn hf hl
        rw [h0] at h1
        simpa using h1
    apply Prod.ext
    · rw [hs', hsp]; unfold stepSpec; rw [if_pos hl]
    · rw [step_snd, hrew, hobs, hv]
      simp only [Bool.not_true, Bool.or_false]
      rw [hs', hsp]
      unfold stepSpec condLast
      rw [if_pos hl]
      simp only [beq_iff_eq]
  · obtain ⟨h1, h2, h3, h4⟩ := illegal_step n D pen dense s a hf hrun ha hl
    have hobs : (step n D pen dense s a).2.obs = observe s := by
      rw [obs_faithful n D pen dense s a hf ha, h1]
    unfold stepSpec
    rw [if_neg hl]
    apply Prod.ext h1
    show (step n D pen dense s a).2 = termination [pen] (observe s)
    rw [← hobs, ← h3]
    cases hts : (step n D pen dense s a).2 with
    | mk st r d o =>
      rw [hts] at h2 h4
      simp only [] at h2 h4
      subst h2; subst h4
      rfl

end TSP
