/-
TSP (jumanji/environments/routing/tsp/{env,reward,generator,types}.py).  Import-free.

L1 = transliteration of `step`, `_update_state`, `_state_to_observation`, `DenseReward`, `SparseReward`,
`compute_tour_length`.  Euclidean distances are NOT computed here: the matrix
`D[i][j] = ‖coordinates[i] − coordinates[j]‖` is a parameter (the adapter supplies the float32 values the
code computes), as is the invalid-move penalty `pen = −num_cities·√2`.  City indices that the code uses to
gather coordinates (`coordinates[position]`, `coordinates[trajectory]`) keep their JAX semantics
(wrap once, then clamp), e.g. `position = −1` before the first move reads the LAST city.
L2 = `legal`, `Feasible`, `IsSolution`, `tourLen`, `observe` — the rules.
-/
import JumanjiModel.Prim.Idx
import JumanjiModel.Prim.Grid
import JumanjiModel.Core.TimeStep
namespace TSP
open Jm

structure State where
  coords : List (List Rat)
  position : Int
  visited : List Bool
  trajectory : List Int
  numVisited : Int
  deriving Repr, DecidableEq

structure Obs where
  coords : List (List Rat)
  position : Int
  trajectory : List Int
  mask : List Bool
  deriving Repr, DecidableEq

abbrev Dist := List (List Rat)

/-- distance between the cities that `coordinates[i]` and `coordinates[j]` gather -/
def dist (D : Dist) (i j : Int) : Rat := Jx.Grid.getWC D 0 i j

/-! ### L1 -/

/-- `_state_to_observation` -/
def obsOf (s : State) : Obs :=
  { coords := s.coords, position := s.position, trajectory := s.trajectory,
    mask := s.visited.map (fun v => !v) }

/-- `is_valid = ~state.visited_mask[action]` -/
def isValid (s : State) (a : Int) : Bool := !(Jx.getWC s.visited false a)

/-- `_update_state` -/
def update (s : State) (a : Int) : State :=
  { coords := s.coords, position := a,
    visited := Jx.setWD s.visited a true,
    trajectory := Jx.setWD s.trajectory s.numVisited a,
    numVisited := s.numVisited + 1 }

/-- `compute_tour_length`: `sorted = coordinates[trajectory]; shifted = roll(sorted, -1);
norm(sorted - shifted, axis=1).sum()` -/
def tourLength (D : Dist) (traj : List Int) : Rat :=
  (List.zipWith (fun i j => dist D i j) traj (traj.drop 1 ++ traj.take 1)).sum

/-- `SparseReward.__call__` -/
def sparseReward (D : Dist) (pen : Rat) (s : State) (s' : State) (valid : Bool) : Rat :=
  let numCities : Int := s.visited.length
  let isDone := (s'.numVisited == numCities) || !valid
  if isDone then (if valid then -(tourLength D s'.trajectory) else pen) else 0

/-- `DenseReward.__call__` -/
def denseReward (D : Dist) (pen : Rat) (s : State) (s' : State) (valid : Bool) : Rat :=
  let r := if valid then -(dist D s.position s'.position) else pen
  let r := if s.numVisited == 0 then 0 else r
  let initial := s.trajectory.getD 0 (-1)
  if s'.visited.all id then r - dist D s'.position initial else r

def reward (dense : Bool) (D : Dist) (pen : Rat) (s s' : State) (valid : Bool) : Rat :=
  if dense then denseReward D pen s s' valid else sparseReward D pen s s' valid

/-- `step`; `n = self.num_cities` -/
def step (n : Nat) (D : Dist) (pen : Rat) (dense : Bool) (s : State) (a : Int) : State × TimeStep Obs :=
  let valid := isValid s a
  let s' := if valid then update s a else s
  let r := reward dense D pen s s' valid
  let isDone := (s'.numVisited == (n : Int)) || !valid
  (s', condLast isDone [r] (obsOf s'))

/-- `reset` / `UniformGenerator.__call__`, given the sampled coordinates -/
def reset (n : Nat) (coords : List (List Rat)) : State × TimeStep Obs :=
  let s : State := { coords := coords, position := -1, visited := List.replicate n false,
                     trajectory := List.replicate n (-1), numVisited := 0 }
  (s, restart (obsOf s))

/-! ### L2: the rules -/

/-- a city may be visited iff it exists and has not been visited yet -/
def legal (s : State) (a : Nat) : Prop := a < s.visited.length ∧ s.visited.getD a true = false

instance (s : State) (a : Nat) : Decidable (legal s a) := by unfold legal; infer_instance

/-- the route so far: the filled part of `trajectory` -/
def route (s : State) : List Int := s.trajectory.take s.numVisited.toNat

/-- hard constraints of a partial tour, recomputed from the raw arrays: no city twice, the visited mask
is exactly the set of cities on the route, the unfilled part of the trajectory is `-1`, the position is
the last city of the route (`-1` before the first move), the counter is the length of the route. -/
def Feasible (n : Nat) (s : State) : Prop :=
  s.visited.length = n ∧ s.trajectory.length = n ∧ 0 ≤ s.numVisited ∧ s.numVisited ≤ n ∧
  (route s).Nodup ∧ (∀ c ∈ route s, 0 ≤ c ∧ c < n) ∧
  (∀ i, i < n → (s.visited.getD i false = true ↔ (i : Int) ∈ route s)) ∧
  (∀ c ∈ s.trajectory.drop s.numVisited.toNat, c = -1) ∧
  s.position = (route s).getLastD (-1) ∧
  (Jx.countTrue s.visited : Int) = s.numVisited

instance (n : Nat) (s : State) : Decidable (Feasible n s) := by unfold Feasible; infer_instance

/-- a complete tour: every city exactly once -/
def IsSolution (n : Nat) (s : State) : Prop := Feasible n s ∧ s.numVisited = n

instance (n : Nat) (s : State) : Decidable (IsSolution n s) := by unfold IsSolution; infer_instance

/-- length of the open path through the cities of `cs` in order -/
def pathLen (D : Dist) : List Int → Rat
  | [] => 0
  | [_] => 0
  | x :: y :: rest => dist D x y + pathLen D (y :: rest)

/-- length of the closed tour: the path plus the way back from the last to the first city -/
def tourLen (D : Dist) (cs : List Int) : Rat :=
  match cs with
  | [] => 0
  | c :: _ => pathLen D cs + dist D (cs.getLastD c) c

/-- distance travelled so far: the open path, closed back to the start once every city is visited -/
def travelled (n : Nat) (D : Dist) (s : State) : Rat :=
  if s.numVisited = (n : Int) then tourLen D (route s) else pathLen D (route s)


/-- play a list of cities from `s`; returns the final state and the sum of the rewards -/
def play (n : Nat) (D : Dist) (pen : Rat) (dense : Bool) : State → List Nat → State × Rat
  | s, [] => (s, 0)
  | s, a :: as =>
    let r := step n D pen dense s (a : Int)
    let q := play n D pen dense r.1 as
    (q.1, r.2.reward.sum + q.2)

/-- every city of the list is legal when its turn comes -/
def AllLegal (n : Nat) (D : Dist) (pen : Rat) (dense : Bool) : State → List Nat → Prop
  | _, [] => True
  | s, a :: as => legal s a ∧ AllLegal n D pen dense (step n D pen dense s (a : Int)).1 as

def AllLegal.dec (n : Nat) (D : Dist) (pen : Rat) (dense : Bool) :
    (s : State) → (as : List Nat) → Decidable (AllLegal n D pen dense s as)
  | _, [] => isTrue trivial
  | s, a :: as =>
    have := AllLegal.dec n D pen dense (step n D pen dense s (a : Int)).1 as
    inferInstanceAs (Decidable (legal s a ∧ AllLegal n D pen dense (step n D pen dense s (a : Int)).1 as))

instance (n : Nat) (D : Dist) (pen : Rat) (dense : Bool) (s : State) (as : List Nat) :
    Decidable (AllLegal n D pen dense s as) := AllLegal.dec n D pen dense s as

/-- objective of a finished episode: minus the tour length -/
def objective (D : Dist) (s : State) : Rat := -(tourLen D s.trajectory)

/-- the documented observation: coordinates, last visited city (`-1` if none), route, cities that can
still be visited -/
def observe (s : State) : Obs :=
  { coords := s.coords, position := (route s).getLastD (-1), trajectory := s.trajectory,
    mask := (List.range s.visited.length).map (fun a => decide (legal s a)) }

/-- the salesman moves to city `a`: it becomes the position, is marked visited and is appended to the route -/
def visit (s : State) (a : Nat) : State :=
  { coords := s.coords, position := (a : Int), visited := List.set s.visited a true,
    trajectory := List.set s.trajectory s.numVisited.toNat (a : Int), numVisited := s.numVisited + 1 }

/-- the rules of one move, written directly (reference model of C09): a legal move visits the city; the
dense reward is minus the distance added to the tour (the way back to the start included when the tour
completes), the sparse reward is minus the closed tour length at completion and 0 before; the episode ends
when every city is visited.  An illegal move ends the episode with the penalty and changes nothing. -/
def stepSpec (n : Nat) (D : Dist) (pen : Rat) (dense : Bool) (s : State) (a : Nat) : State × TimeStep Obs :=
  if legal s a then
    let s' : State := visit s a
    let r : Rat := if dense then travelled n D s - travelled n D s'
                   else if s'.numVisited = (n : Int) then -(tourLen D s'.trajectory) else 0
    (s', if s'.numVisited = (n : Int) then termination [r] (observe s') else transition [r] (observe s'))
  else (s, termination [pen] (observe s))

/-- generator certificate (C10): `n` coordinate pairs in the unit square, nothing visited yet -/
def InstanceOK (n : Nat) (s : State) : Prop :=
  s.coords.length = n ∧ (∀ p ∈ s.coords, p.length = 2 ∧ ∀ x ∈ p, 0 ≤ x ∧ x ≤ 1) ∧
  s.visited = List.replicate n false ∧ s.trajectory = List.replicate n (-1) ∧ s.numVisited = 0 ∧
  s.position = -1

instance (n : Nat) (s : State) : Decidable (InstanceOK n s) := by unfold InstanceOK; infer_instance

/-- `D` is a distance table for `n` cities: square, symmetric, zero diagonal, non-negative -/
def DistOK (n : Nat) (D : Dist) : Prop :=
  D.length = n ∧ (∀ row ∈ D, row.length = n) ∧
  (∀ i, i < n → ∀ j, j < n → (D.getD i []).getD j 0 = (D.getD j []).getD i 0 ∧ 0 ≤ (D.getD i []).getD j 0) ∧
  (∀ i, i < n → (D.getD i []).getD i 0 = 0)

instance (n : Nat) (D : Dist) : Decidable (DistOK n D) := by unfold DistOK; infer_instance

/-- C05 judge: the documented effect of an illegal action: LAST, the penalty, the state untouched -/
def illegalOk (pen tol : Rat) (s s' : State) (ts : TimeStep Obs) : Bool :=
  ts.stepType == .last && ts.discount == [0] && decide (s' = s) &&
  (match ts.reward with
   | [r] => decide (r - pen ≤ tol) && decide (pen - r ≤ tol)
   | _ => false)

/-! ### the generator, draws as parameters (C10) -/

/-- `UniformGenerator.__call__`; `u` = what `jax.random.uniform(sample_key, (num_cities, 2), minval=0, maxval=1)`
returned.  (`reset` returns this state unchanged.) -/
def generate (n : Nat) (u : List (List Rat)) : State :=
  { coords := u, position := -1, visited := List.replicate n false,
    trajectory := List.replicate n (-1), numVisited := 0 }

/-- the support of the uniform draw: `n` rows of 2 numbers of the half-open interval `[0, 1)` -/
def validUniform (n : Nat) (u : List (List Rat)) : Prop :=
  u.length = n ∧ ∀ p ∈ u, p.length = 2 ∧ ∀ x ∈ p, 0 ≤ x ∧ x < 1

instance (n : Nat) (u : List (List Rat)) : Decidable (validUniform n u) := by unfold validUniform; infer_instance

/-- generator certificate, evaluated on the implementation's reset states: `n` rows of 2 coordinates in `[0, 1)`,
nothing visited, position −1, trajectory all −1, counter 0 -/
def GenCert (n : Nat) (s : State) : Prop :=
  s.coords.length = n ∧ (∀ p ∈ s.coords, p.length = 2 ∧ ∀ x ∈ p, 0 ≤ x ∧ x < 1) ∧
  s.visited = List.replicate n false ∧ s.position = -1 ∧ s.trajectory = List.replicate n (-1) ∧
  s.numVisited = 0

instance (n : Nat) (s : State) : Decidable (GenCert n s) := by unfold GenCert; infer_instance

end TSP
