/-
TSP: the generator with its draws as parameters (C10) and whole-episode feasibility (C06).
-/
import JumanjiModel.Env.TSP.Lemmas
import JumanjiModel.Env.TSP.Bounds
namespace TSP
open Jm

theorem reset_eq_generate (n : Nat) (u : List (List Rat)) : (reset n u).1 = generate n u := rfl

/-- every valid draw gives a state satisfying the certificate -/
theorem generate_cert (n : Nat) (u : List (List Rat)) (h : validUniform n u) : GenCert n (generate n u) :=
  ⟨h.1, h.2, rfl, rfl, rfl, rfl⟩

/-- a state satisfying the certificate IS the generator's output for the draw read off it -/
theorem cert_eq_generate (n : Nat) (s : State) (h : GenCert n s) : s = generate n s.coords := by
  obtain ⟨_, _, hv, hp, ht, hn⟩ := h
  cases s; simp_all [generate]

/-- certificate ⇒ advertised invariants: the coordinates are a valid draw (hence lie in the declared box `[0,1]`),
the state is the documented fresh state, and it is a feasible (empty) partial tour -/
theorem cert_sound (n : Nat) (s : State) (h : GenCert n s) :
    validUniform n s.coords ∧ validDraw n s.coords ∧ InstanceOK n s ∧ Feasible n s := by
  have hbox : ∀ p ∈ s.coords, p.length = 2 ∧ ∀ x ∈ p, 0 ≤ x ∧ x ≤ 1 := fun p hp =>
    ⟨(h.2.1 p hp).1, fun x hx => ⟨((h.2.1 p hp).2 x hx).1, Rat.le_of_lt ((h.2.1 p hp).2 x hx).2⟩⟩
  refine ⟨⟨h.1, h.2.1⟩, ⟨h.1, hbox⟩, ⟨h.1, hbox, h.2.2.1, h.2.2.2.2.1, h.2.2.2.2.2, h.2.2.2.1⟩, ?_⟩
  rw [cert_eq_generate n s h, ← reset_eq_generate]; exact reset_feasible n _

/-! ### whole episodes -/

/-- the mask-respecting sequences: every city is chosen with its bit set in the mask of the current observation -/
def AllMasked (n : Nat) (D : Dist) (pen : Rat) (dense : Bool) : State → List Nat → Prop
  | _, [] => True
  | s, a :: as => (obsOf s).mask.getD a false = true ∧ AllMasked n D pen dense (step n D pen dense s (a : Int)).1 as

theorem allMasked_iff (n : Nat) (D : Dist) (pen : Rat) (dense : Bool) (as : List Nat) :
    ∀ s, AllMasked n D pen dense s as ↔ AllLegal n D pen dense s as := by
  induction as with
  | nil => intro s; simp [AllMasked, AllLegal]
  | cons a as ih => intro s; simp only [AllMasked, AllLegal, mask_iff_legal, ih]

theorem allLegal_take (n : Nat) (D : Dist) (pen : Rat) (dense : Bool) (as : List Nat) :
    ∀ s k, AllLegal n D pen dense s as → AllLegal n D pen dense s (as.take k) := by
  induction as with
  | nil => intro s k h; simpa using h
  | cons a as ih =>
    intro s k h
    cases k with
    | zero => simp [AllLegal]
    | succ k => simp only [List.take_succ_cons, AllLegal] at h ⊢; exact ⟨h.1, ih _ k h.2⟩

/-- feasibility after the whole of a legal sequence -/
theorem feasible_play (n : Nat) (D : Dist) (pen : Rat) (dense : Bool) (as : List Nat) :
    ∀ s, Feasible n s → AllLegal n D pen dense s as → Feasible n (play n D pen dense s as).1 := by
  induction as with
  | nil => intro s hf _; simpa [play] using hf
  | cons a as ih =>
    intro s hf hal
    simp only [AllLegal] at hal
    simp only [play]
    exact ih _ (step_feasible n D pen dense s a hf hal.1) hal.2

/-- feasibility after every prefix of a legal sequence -/
theorem feasible_along (n : Nat) (D : Dist) (pen : Rat) (dense : Bool) (s : State) (as : List Nat)
    (hf : Feasible n s) (hal : AllLegal n D pen dense s as) (k : Nat) :
    Feasible n (play n D pen dense s (as.take k)).1 :=
  feasible_play n D pen dense _ s hf (allLegal_take n D pen dense as s k hal)

/-- the number of moves of a legal sequence from a feasible state is at most the number of cities left -/
theorem play_numVisited (n : Nat) (D : Dist) (pen : Rat) (dense : Bool) (as : List Nat) :
    ∀ s, Feasible n s → AllLegal n D pen dense s as →
      (play n D pen dense s as).1.numVisited = s.numVisited + as.length := by
  induction as with
  | nil => intro s _ _; simp [play]
  | cons a as ih =>
    intro s hf hal
    simp only [AllLegal] at hal
    simp only [play]
    rw [ih _ (step_feasible n D pen dense s a hf hal.1) hal.2]
    have hv : isValid s (a : Int) = true := (isValid_iff_legal s a hal.1.1).2 hal.1
    have : (step n D pen dense s (a : Int)).1.numVisited = s.numVisited + 1 := by
      simp [step, hv, update]
    rw [this]; simp only [List.length_cons]; omega

end TSP
