/-
TSP: proved value bounds of the observation (property C01).

`obsBounds n` = the interval in which every listed leaf of the model's observation provably stays
(`n` = num_cities; keys = leaf paths of `TSP.observation_spec`).  The leaf `position` is NOT listed:
the spec declares `DiscreteArray(num_cities)` = [0, n−1] but `reset` emits −1 (known finding F5); what
is provable for it is `positionBounds n` = [−1, n−1] (all observations) and [0, n−1] for every
observation returned by `step` from a feasible state (`step_position_declared`).
`ObsInv n` (coordinates in the unit square, trajectory entries and position in [−1, n−1]) is the
invariant: established by `reset`, preserved by every `step` with an action of the action spec.
-/
import JumanjiModel.Env.TSP.Lemmas
import JumanjiModel.Core.ObsBoundsCO
namespace TSP
open Jm Jm.OB

def obsBounds (n : Nat) : Table :=
  [("coordinates", some 0, some 1),
   ("trajectory", some ((-1 : Int) : Rat), some (((n : Int) - 1 : Int) : Rat)),
   ("action_mask", some 0, some 1)]

/-- provable, but wider than the declared `DiscreteArray(num_cities)` (finding F5) -/
def positionBounds (n : Nat) : Table :=
  [("position", some ((-1 : Int) : Rat), some (((n : Int) - 1 : Int) : Rat))]

def obsLeaves (o : Obs) : Leaves :=
  [("coordinates", o.coords.flatten), ("position", [(o.position : Rat)]),
   ("trajectory", o.trajectory.map (fun (c : Int) => (c : Rat))), ("action_mask", o.mask.map b2r)]

/-- what `jax.random.uniform(key, (num_cities, 2), minval=0, maxval=1)` can produce -/
def validDraw (n : Nat) (coords : List (List Rat)) : Prop :=
  coords.length = n ∧ ∀ p ∈ coords, p.length = 2 ∧ ∀ x ∈ p, 0 ≤ x ∧ x ≤ 1

instance (n : Nat) (c : List (List Rat)) : Decidable (validDraw n c) := by unfold validDraw; infer_instance

def ObsInv (n : Nat) (s : State) : Prop :=
  (∀ p ∈ s.coords, ∀ x ∈ p, 0 ≤ x ∧ x ≤ 1) ∧ (∀ c ∈ s.trajectory, -1 ≤ c ∧ c < n) ∧
  (-1 ≤ s.position ∧ s.position < n)

instance (n : Nat) (s : State) : Decidable (ObsInv n s) := by unfold ObsInv; infer_instance

theorem reset_obsInv (n : Nat) (coords : List (List Rat)) (h : validDraw n coords) :
    ObsInv n (reset n coords).1 := by
  refine ⟨fun p hp => (h.2 p hp).2, ?_, ?_⟩
  · intro c hc
    simp only [reset] at hc
    have := List.eq_of_mem_replicate hc
    omega
  · simp only [reset]; omega

theorem step_obsInv (n : Nat) (D : Dist) (pen : Rat) (dense : Bool) (s : State) (a : Int)
    (ha : 0 ≤ a ∧ a < n) (h : ObsInv n s) : ObsInv n (step n D pen dense s a).1 := by
  simp only [step]
  split
  · refine ⟨h.1, ?_, ?_⟩
    · intro c hc
      simp only [update] at hc
      rcases mem_setWD hc with hc | rfl
      · exact h.2.1 c hc
      · omega
    · simp only [update]; omega
  · exact h

theorem int_iv {lo hi c : Int} (h1 : lo ≤ c) (h2 : c ≤ hi) : inIv (some (lo : Rat)) (some (hi : Rat)) (c : Rat) :=
  ⟨Rat.intCast_le_intCast.mpr h1, Rat.intCast_le_intCast.mpr h2⟩

theorem obsOf_in_bounds (n : Nat) (s : State) (h : ObsInv n s) :
    InBounds (obsBounds n) (obsLeaves (obsOf s)) := by
  refine inBounds_cons _ _ _ _ _ _ rfl ?_ <| inBounds_cons _ _ _ _ _ _ rfl ?_ <|
    inBounds_cons _ _ _ _ _ _ rfl (bools_in01 _) <| inBounds_nil _
  · exact flat_in _ _ _ (fun p hp x hx => h.1 p hp x hx)
  · intro v hv
    rcases List.mem_map.mp hv with ⟨c, hc, rfl⟩
    have := h.2.1 c hc
    exact int_iv this.1 (by omega)

theorem obsOf_position_in_bounds (n : Nat) (s : State) (h : ObsInv n s) :
    InBounds (positionBounds n) (obsLeaves (obsOf s)) := by
  refine inBounds_cons _ _ _ _ _ _ rfl ?_ <| inBounds_nil _
  intro v hv
  rcases List.mem_singleton.mp hv with rfl
  exact int_iv h.2.2.1 (by have := h.2.2.2; simp only [obsOf]; omega)

theorem step_obs (n : Nat) (D : Dist) (pen : Rat) (dense : Bool) (s : State) (a : Int) :
    (step n D pen dense s a).2.obs = obsOf (step n D pen dense s a).1 := by
  simp only [step]; exact condLast_obs _ _ _

theorem reset_obs_in_bounds (n : Nat) (coords : List (List Rat)) (h : validDraw n coords) :
    InBounds (obsBounds n) (obsLeaves (reset n coords).2.obs) :=
  obsOf_in_bounds n _ (reset_obsInv n coords h)

theorem step_obs_in_bounds (n : Nat) (D : Dist) (pen : Rat) (dense : Bool) (s : State) (a : Int)
    (ha : 0 ≤ a ∧ a < n) (h : ObsInv n s) :
    InBounds (obsBounds n) (obsLeaves (step n D pen dense s a).2.obs) := by
  rw [step_obs]; exact obsOf_in_bounds n _ (step_obsInv n D pen dense s a ha h)

theorem reset_position_in_bounds (n : Nat) (coords : List (List Rat)) (h : validDraw n coords) :
    InBounds (positionBounds n) (obsLeaves (reset n coords).2.obs) :=
  obsOf_position_in_bounds n _ (reset_obsInv n coords h)

theorem step_position_in_bounds (n : Nat) (D : Dist) (pen : Rat) (dense : Bool) (s : State) (a : Int)
    (ha : 0 ≤ a ∧ a < n) (h : ObsInv n s) :
    InBounds (positionBounds n) (obsLeaves (step n D pen dense s a).2.obs) := by
  rw [step_obs]; exact obsOf_position_in_bounds n _ (step_obsInv n D pen dense s a ha h)

/-- the reset observation has `position = -1`, outside the declared `DiscreteArray(num_cities)` -/
theorem reset_position (n : Nat) (coords : List (List Rat)) : (reset n coords).2.obs.position = -1 := rfl

theorem getLastD_mem_cons {α} (xs : List α) (x : α) : xs.getLastD x ∈ x :: xs := by
  induction xs generalizing x with
  | nil => simp
  | cons y ys ih => rw [List.getLastD_cons]; exact List.mem_cons_of_mem _ (ih y)

theorem getLastD_mem_or {α} (l : List α) (d : α) : l.getLastD d ∈ l ∨ l.getLastD d = d := by
  cases l with
  | nil => right; rfl
  | cons x xs => left; rw [List.getLastD_cons]; exact getLastD_mem_cons xs x

/-- a feasible state's trajectory and position are within the proved bounds -/
theorem feasible_obsInv (n : Nat) (s : State) (hf : Feasible n s)
    (hc : ∀ p ∈ s.coords, ∀ x ∈ p, 0 ≤ x ∧ x ≤ 1) : ObsInv n s := by
  obtain ⟨hvl, htl, h0, hn, hnd, hrange, hvis, hrest, hpos, hcnt⟩ := hf
  have hsplit : s.trajectory = route s ++ s.trajectory.drop s.numVisited.toNat := by
    unfold route; exact (List.take_append_drop _ _).symm
  refine ⟨hc, ?_, ?_⟩
  · intro c hcm
    rw [hsplit] at hcm
    rcases List.mem_append.mp hcm with hcm | hcm
    · have := hrange c hcm; omega
    · have := hrest c hcm; omega
  · rw [hpos]
    rcases getLastD_mem_or (route s) (-1) with hm | hm
    · have := hrange _ hm; omega
    · rw [hm]; omega

/-- every observation returned by `step` from a feasible state (any action of the action spec, valid or
not) has its position inside the DECLARED interval [0, n−1]: only the reset observation leaves it -/
theorem step_position_declared (n : Nat) (D : Dist) (pen : Rat) (dense : Bool) (s : State) (a : Nat)
    (hf : Feasible n s) (ha : a < n) :
    0 ≤ (step n D pen dense s a).2.obs.position ∧ (step n D pen dense s a).2.obs.position < n := by
  rw [step_obs]
  simp only [step, obsOf]
  split
  · simp only [update]; omega
  · rename_i hv
    obtain ⟨hvl, htl, h0, hn, hnd, hrange, hvis, hrest, hpos, hcnt⟩ := hf
    have hleg : ¬ legal s a := fun hl => hv ((isValid_iff_legal s a (by omega)).mpr hl)
    have hva : s.visited.getD a false = true := by
      unfold legal at hleg
      cases hx : s.visited.getD a false with
      | true => rfl
      | false =>
        exfalso; apply hleg; refine ⟨by omega, ?_⟩
        rw [List.getD_eq_getElem?_getD] at hx ⊢
        rw [List.getElem?_eq_getElem (by omega)] at hx ⊢
        simpa using hx
    have hmem : (a : Int) ∈ route s := (hvis a ha).mp hva
    rw [hpos]
    cases hr : route s with
    | nil => rw [hr] at hmem; cases hmem
    | cons x xs =>
      have hm : (x :: xs).getLastD (-1) ∈ route s := by
        rw [hr, List.getLastD_cons]; exact getLastD_mem_cons xs x
      have := hrange _ hm
      omega

end TSP
