/-
BinPack: `reset` (Bounds.lean: `make_container`, `[container] + (max_num_ems-1) * [empty_ems()]`, `_unpack_items`,
`_make_observation_and_extras`) establishes the hypotheses from which the C06 / C08 / C11 chains start
(`ResetShape`, `Fresh`; audit r1 entry 6), and its observation is the documented function of the reset state
(reset form of `obs_faithful`).
-/
import JumanjiModel.Env.BinPack.Bounds
set_option linter.unusedVariables false
set_option linter.unusedSimpArgs false
namespace BinPack
open Jm

theorem reset_fst (cfg : Cfg) (rnd : Rat → Rat) (dm : Dims) (maxEms : Nat) (items : List Item) (m : List Bool) :
    (reset cfg rnd dm maxEms items m).1 =
      (makeObs cfg rnd { container := boxOf dm
                         ems := boxOf dm :: List.replicate (maxEms - 1) ⟨0, 0, 0, 0, 0, 0⟩
                         emsMask := true :: List.replicate (maxEms - 1) false
                         items := items, itemsMask := m
                         itemsPlaced := List.replicate items.length false
                         itemsLoc := List.replicate items.length ⟨0, 0, 0⟩
                         actionMask := [], sortedIdx := [] }).1 := rfl

/-- the caches of the reset state are fresh -/
theorem reset_fresh (cfg : Cfg) (rnd : Rat → Rat) (dm : Dims) (maxEms : Nat) (items : List Item) (m : List Bool) :
    Fresh cfg rnd (reset cfg rnd dm maxEms items m).1 := by
  rw [reset_fst]; exact makeObs_fresh _ _ _

theorem range_map_eq_zero (n : Nat) :
    (List.range (n + 1)).map (fun k => decide (k = 0)) = true :: List.replicate n false := by
  rw [List.range_succ_eq_map, List.map_cons, List.map_map]
  congr 1
  apply List.ext_getElem <;> simp

theorem reset_WF (cfg : Cfg) (rnd : Rat → Rat) (dm : Dims) (maxEms : Nat) (items : List Item) (m : List Bool)
    (hm : m.length = items.length) : WF (reset cfg rnd dm maxEms items m).1 := by
  rw [reset_fst, makeObs_fst]
  simp [WF, hm]

/-- `reset` with a container of positive sides and an item mask as long as the item arrays gives a `ResetShape` state -/
theorem reset_shape (cfg : Cfg) (rnd : Rat → Rat) (dm : Dims) (maxEms : Nat) (items : List Item) (m : List Bool)
    (hx : 0 < dm.cx) (hy : 0 < dm.cy) (hz : 0 < dm.cz) (hm : m.length = items.length) :
    ResetShape (reset cfg rnd dm maxEms items m).1 := by
  have hw := reset_WF cfg rnd dm maxEms items m hm
  rw [reset_fst, makeObs_fst] at hw ⊢
  refine ⟨hw, rfl, rfl, rfl, hx, hy, hz, rfl, ?_, rfl, rfl⟩
  show true :: List.replicate (maxEms - 1) false = _
  simp only [List.length_cons, List.length_replicate]
  exact (range_map_eq_zero _).symm

/-- the same from `validReset` -/
theorem reset_shape_of_valid (cfg : Cfg) (rnd : Rat → Rat) (dm : Dims) (maxEms n : Nat) (items : List Item)
    (m : List Bool) (h : validReset dm n items m) : ResetShape (reset cfg rnd dm maxEms items m).1 :=
  reset_shape cfg rnd dm maxEms items m h.1 h.2.1 h.2.2.1 (by rw [h.2.2.2.2.1, h.2.2.2.1])

/-- reset form of `obs_faithful`: the first observation is the documented function of the reset state -/
theorem reset_obs_faithful (cfg : Cfg) (rnd : Rat → Rat) (dm : Dims) (maxEms : Nat) (items : List Item)
    (m : List Bool) (hm : m.length = items.length) :
    (reset cfg rnd dm maxEms items m).2.obs = observe cfg rnd (reset cfg rnd dm maxEms items m).1 := by
  rw [reset_fst, observe_makeObs]
  show (makeObs cfg rnd _).2 = _
  apply makeObs_snd
  simp [WF, hm]

/-- the first timestep is FIRST with reward 0 and discount 1 -/
theorem reset_first (cfg : Cfg) (rnd : Rat → Rat) (dm : Dims) (maxEms : Nat) (items : List Item) (m : List Bool) :
    (reset cfg rnd dm maxEms items m).2.stepType = .first := rfl

end BinPack
