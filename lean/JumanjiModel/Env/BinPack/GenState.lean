/-
BinPack, C10 gap of audit r1: `generate_solution` tied to the reset instance.
`solvedState c maxEms bs` = the state `_generate_solved_instance` builds from the item spaces `bs` (every space an
item placed at its own corner, no active EMS); `unpackItems` = `Generator._unpack_items` (what `__call__` returns).
For `bs` a tiling of the container (`splitGenerate_tiles`): the solution is a perfect packing of the SAME items as the
reset state, feasible, and complete (nothing more can be packed); the reset state has `ResetShape` and positive items.
(The padding slots of the real buffers — `items_mask = False` — are omitted: `bs` lists the active spaces only.)
-/
import JumanjiModel.Env.BinPack.SplitGen
import JumanjiModel.Env.BinPack.CoverLemmas
set_option linter.unusedVariables false
set_option linter.unusedSimpArgs false
namespace BinPack
open Jm

/-- `location_from_space` -/
def cornerOf (b : Space) : Loc := ⟨b.x1, b.y1, b.z1⟩

/-- `RandomGenerator._generate_solved_instance` for the item spaces `bs` -/
def solvedState (c : Space) (maxEms : Nat) (bs : List Space) : State :=
  { container := c
    ems := c :: List.replicate (maxEms - 1) ⟨0, 0, 0, 0, 0, 0⟩
    emsMask := List.replicate (1 + (maxEms - 1)) false
    items := bs.map itemFromSpace
    itemsMask := List.replicate bs.length true
    itemsPlaced := List.replicate bs.length true
    itemsLoc := bs.map cornerOf
    actionMask := [], sortedIdx := (List.range (1 + (maxEms - 1))).map (fun (k : Nat) => (k : Int)) }

/-- `Generator._unpack_items` -/
def unpackItems (s : State) : State :=
  { s with emsMask := (List.range s.emsMask.length).map (fun k => decide (k = 0))
           itemsPlaced := List.replicate s.items.length false
           itemsLoc := List.replicate s.items.length ⟨0, 0, 0⟩ }

theorem spaceFrom_itemFromSpace (b : Space) : spaceFrom (itemFromSpace b) (cornerOf b) = b := by
  cases b
  simp only [spaceFrom, itemFromSpace, cornerOf, Space.mk.injEq]
  refine ⟨trivial, by omega, trivial, by omega, trivial, by omega⟩

theorem replicate_getD_true (n i : Nat) (h : i < n) : (List.replicate n true).getD i false = true := by
  simp [List.getD_eq_getElem?_getD, List.getElem?_replicate, h]

theorem solved_placedSpace (c : Space) (maxEms : Nat) (bs : List Space) (i : Nat) (hi : i < bs.length) :
    placedSpace (solvedState c maxEms bs) i = bs[i] := by
  unfold placedSpace solvedState
  simp only [List.getD_eq_getElem?_getD, List.getElem?_map, List.getElem?_eq_getElem hi, Option.map_some,
    Option.getD_some]
  exact spaceFrom_itemFromSpace _

theorem solved_placedBoxes (c : Space) (maxEms : Nat) (bs : List Space) :
    placedBoxes (solvedState c maxEms bs) = bs := by
  unfold placedBoxes
  have hlen : (solvedState c maxEms bs).items.length = bs.length := by simp [solvedState]
  rw [hlen]
  have hf : (List.range bs.length).filter (fun i => (solvedState c maxEms bs).itemsPlaced.getD i false) =
      List.range bs.length := by
    apply List.filter_eq_self.mpr
    intro i hi
    exact replicate_getD_true _ _ (List.mem_range.mp hi)
  rw [hf]
  apply List.ext_getElem
  · simp
  · intro i h1 h2
    simp only [List.getElem_map, List.getElem_range]
    exact solved_placedSpace c maxEms bs i h2

theorem solved_WF (c : Space) (maxEms : Nat) (bs : List Space) : WF (solvedState c maxEms bs) := by
  simp [WF, solvedState]; omega

/-- the generated solution: a perfect packing (exactly the present items placed, inside the container, pairwise
non-overlapping, volumes adding up), feasible in the sense of C06, and complete -/
theorem solved_perfect (c : Space) (maxEms : Nat) (bs : List Space) (h : Tiles c bs) (cfg : Cfg) (rnd : Rat → Rat) :
    PerfectPacking (solvedState c maxEms bs) ∧ PlacedNonneg (solvedState c maxEms bs) ∧
    Feasible (solvedState c maxEms bs) ∧ Complete cfg rnd (solvedState c maxEms bs) := by
  have hw := solved_WF c maxEms bs
  have hpp := (perfectPacking_iff_tiles (solvedState c maxEms bs)).2
    ⟨hw, rfl, by rw [solved_placedBoxes]; exact h⟩
  refine ⟨hpp.1, hpp.2, ⟨hw, hpp.1.2.2.1.1, hpp.1.2.2.1.2, ?_, ?_⟩, ?_⟩
  · intro k hk hm
    have : (solvedState c maxEms bs).emsMask.getD k false = false := by
      simp [solvedState, List.getD_eq_getElem?_getD, List.getElem?_replicate]
      split <;> rfl
    rw [this] at hm; exact absurd hm (by decide)
  · intro k hk hm
    have : (solvedState c maxEms bs).emsMask.getD k false = false := by
      simp [solvedState, List.getD_eq_getElem?_getD, List.getElem?_replicate]
      split <;> rfl
    rw [this] at hm; exact absurd hm (by decide)
  · intro e i hl
    obtain ⟨_, _, hi, hnp, _⟩ := hl
    have hi' : i < bs.length := by simpa [solvedState] using hi
    have : (solvedState c maxEms bs).itemsPlaced.getD i true = true := by
      simp [solvedState, List.getD_eq_getElem?_getD, List.getElem?_replicate, hi']
    rw [this] at hnp; exact absurd hnp (by decide)

/-- the reset state `__call__` returns is the SAME instance (container, items, item mask) with nothing placed; it has
`ResetShape`, and its items are positive when the spaces are non-empty and proper -/
theorem unpack_reset (c : Space) (maxEms : Nat) (bs : List Space) (hc1 : c.x1 = 0 ∧ c.y1 = 0 ∧ c.z1 = 0)
    (hc2 : 0 < c.x2 ∧ 0 < c.y2 ∧ 0 < c.z2) :
    (unpackItems (solvedState c maxEms bs)).container = (solvedState c maxEms bs).container ∧
    (unpackItems (solvedState c maxEms bs)).items = (solvedState c maxEms bs).items ∧
    (unpackItems (solvedState c maxEms bs)).itemsMask = (solvedState c maxEms bs).itemsMask ∧
    ResetShape (unpackItems (solvedState c maxEms bs)) := by
  refine ⟨rfl, rfl, rfl, ?_⟩
  unfold ResetShape
  refine ⟨?_, hc1.1, hc1.2.1, hc1.2.2, hc2.1, hc2.2.1, hc2.2.2, rfl, ?_, rfl, rfl⟩
  · simp [WF, unpackItems, solvedState]; omega
  · show (List.range (List.replicate (1 + (maxEms - 1)) false).length).map (fun k => decide (k = 0)) =
      (List.range (c :: List.replicate (maxEms - 1) (⟨0, 0, 0, 0, 0, 0⟩ : Space)).length).map (fun k => decide (k = 0))
    simp only [List.length_replicate, List.length_cons]
    rw [Nat.add_comm]

theorem unpack_itemsPositive (c : Space) (maxEms : Nat) (bs : List Space) (h : ∀ b ∈ bs, b.isEmpty = false) :
    ItemsPositive (unpackItems (solvedState c maxEms bs)) := by
  intro i hi _
  have hi' : i < bs.length := by simpa [unpackItems, solvedState] using hi
  have hb := h bs[i] (List.getElem_mem hi')
  have : (unpackItems (solvedState c maxEms bs)).items.getD i default = itemFromSpace bs[i] := by
    simp [unpackItems, solvedState, List.getD_eq_getElem?_getD, hi']
  rw [this]
  simp only [Space.isEmpty, Bool.or_eq_false_iff, decide_eq_false_iff_not] at hb
  simp only [itemFromSpace]
  omega

end BinPack
