/-
BinPack — C01 spec membership (wave 4): the declared specs as `Sp` values (`obsSpec cfg n dm`, `actionSpec cfg n`; `n` =
`generator.max_num_items`, `dm` = `generator.container_dims`; equal to the generated literals of the catalogue
configurations, Props/Env/BinPack.lean), the model observation as spec-level arrays (`toNValue`, shapes READ OFF the values),
the invariant `SpecInv` (`BoundsInv` + consistent array lengths + `n` items + a buffer of at least `obs_num_ems` EMSs +
positive container sides), established by `reset` and preserved by EVERY step (any integers as action, any admissible draw
of the EMS update; no hypothesis at all for the deterministic `step₁`), membership of the observation of `reset` and of every
`step` (terminal step included), whole episodes, the converse (`obs_valid_only`), reward / discount / action spec.

Float leaves (`normalize_dimensions`): exact quotients, as in Env/BinPack/Bounds.lean.

FINDING (`reset_obs_not_valid`): the constructor does not check `obs_num_ems ≤ generator.max_num_ems`; with a smaller buffer
the observation has `max_num_ems` EMS rows and `observation_spec.validate` rejects it.
-/
import JumanjiModel.Env.BinPack.Bounds
import JumanjiModel.Env.BinPack.Step1
import JumanjiModel.Env.BinPack.ResetLemmas
import JumanjiModel.Env.PackSpecValid
namespace BinPack
open Jm Jm.OB Sp PzS PkS

/-! ### the declared specs (env.py `observation_spec`, `action_spec`) -/

/-- `max(self.generator.container_dims)` -/
def maxDim (dm : Dims) : Int := max dm.cx (max dm.cy dm.cz)

/-- upper bound of the length leaves: `1.0` (normalised) resp. `max_dim` (raw) -/
def hiR (norm : Bool) (dm : Dims) : Rat := if norm then 1 else (maxDim dm : Rat)
/-- dtype of the length leaves: `float` (normalised) resp. `int32` (raw) -/
def dtOf (norm : Bool) : DType := if norm then .float32 else .int32

def lenLeaf (cfg : Cfg) (dm : Dims) (m : Nat) (nm : String) : Leaf :=
  .bounded [m] (dtOf cfg.normalize) nm [] [0] [] [hiR cfg.normalize dm]

/-- `observation_spec` (paths as `speclib.flatten_spec` lists them): `ems.{x1,x2,y1,y2,z1,z2}` BoundedArray((obs_num_ems,),
float, 0, 1) resp. (…, int32, 0, max_dim); `ems_mask` bool (obs_num_ems,); `items.{x_len,y_len,z_len}` (max_num_items,) with
the same dtype and bounds; `items_mask`, `items_placed` bool (max_num_items,); `action_mask` bool (obs_num_ems, max_num_items) -/
def obsSpec (cfg : Cfg) (n : Nat) (dm : Dims) : Sp.Nested :=
  [("ems.x1", lenLeaf cfg dm cfg.obsNum "x1"), ("ems.x2", lenLeaf cfg dm cfg.obsNum "x2"),
   ("ems.y1", lenLeaf cfg dm cfg.obsNum "y1"), ("ems.y2", lenLeaf cfg dm cfg.obsNum "y2"),
   ("ems.z1", lenLeaf cfg dm cfg.obsNum "z1"), ("ems.z2", lenLeaf cfg dm cfg.obsNum "z2"),
   ("ems_mask", .bounded [cfg.obsNum] .bool "ems_mask" [] [0] [] [1]),
   ("items.x_len", lenLeaf cfg dm n "x_len"), ("items.y_len", lenLeaf cfg dm n "y_len"),
   ("items.z_len", lenLeaf cfg dm n "z_len"),
   ("items_mask", .bounded [n] .bool "items_mask" [] [0] [] [1]),
   ("items_placed", .bounded [n] .bool "items_placed" [] [0] [] [1]),
   ("action_mask", .bounded [cfg.obsNum, n] .bool "action_mask" [] [0] [] [1])]

/-- `action_spec`: MultiDiscreteArray([obs_num_ems, max_num_items], int32) -/
def actionSpec (cfg : Cfg) (n : Nat) : Leaf := .multiDiscrete [2] [cfg.obsNum, n] .int32 "action"

/-- a model observation as the arrays the implementation emits; the shapes are READ OFF the values -/
def toNValue (norm : Bool) (o : Obs) : NValue :=
  [("ems.x1", ⟨shape1 o.ems, dtOf norm, o.ems.map (·.x1)⟩), ("ems.x2", ⟨shape1 o.ems, dtOf norm, o.ems.map (·.x2)⟩),
   ("ems.y1", ⟨shape1 o.ems, dtOf norm, o.ems.map (·.y1)⟩), ("ems.y2", ⟨shape1 o.ems, dtOf norm, o.ems.map (·.y2)⟩),
   ("ems.z1", ⟨shape1 o.ems, dtOf norm, o.ems.map (·.z1)⟩), ("ems.z2", ⟨shape1 o.ems, dtOf norm, o.ems.map (·.z2)⟩),
   ("ems_mask", ⟨shape1 o.emsMask, .bool, ofBools o.emsMask⟩),
   ("items.x_len", ⟨shape1 o.items, dtOf norm, o.items.map (·.xl)⟩),
   ("items.y_len", ⟨shape1 o.items, dtOf norm, o.items.map (·.yl)⟩),
   ("items.z_len", ⟨shape1 o.items, dtOf norm, o.items.map (·.zl)⟩),
   ("items_mask", ⟨shape1 o.itemsMask, .bool, ofBools o.itemsMask⟩),
   ("items_placed", ⟨shape1 o.itemsPlaced, .bool, ofBools o.itemsPlaced⟩),
   ("action_mask", ⟨shape2 o.actionMask, .bool, ofBools o.actionMask.flatten⟩)]

def actionArr (e i : Int) : Arr := ⟨[2], .int32, [(e : Rat), (i : Rat)]⟩

def In (hi v : Rat) : Prop := 0 ≤ v ∧ v ≤ hi

/-- what membership amounts to -/
def ObsOK (cfg : Cfg) (n : Nat) (dm : Dims) (o : Obs) : Prop :=
  o.ems.length = cfg.obsNum ∧
  (∀ e ∈ o.ems, In (hiR cfg.normalize dm) e.x1 ∧ In (hiR cfg.normalize dm) e.x2 ∧ In (hiR cfg.normalize dm) e.y1 ∧
    In (hiR cfg.normalize dm) e.y2 ∧ In (hiR cfg.normalize dm) e.z1 ∧ In (hiR cfg.normalize dm) e.z2) ∧
  o.emsMask.length = cfg.obsNum ∧
  o.items.length = n ∧
  (∀ it ∈ o.items, In (hiR cfg.normalize dm) it.xl ∧ In (hiR cfg.normalize dm) it.yl ∧ In (hiR cfg.normalize dm) it.zl) ∧
  o.itemsMask.length = n ∧ o.itemsPlaced.length = n ∧
  Rect2 o.actionMask cfg.obsNum n

theorem map_in' {α : Type} (l : List α) (f : α → Rat) (hi : Rat) (h : ∀ a ∈ l, In hi (f a)) :
    ∀ x ∈ l.map f, (0 : Rat) ≤ x ∧ x ≤ hi := by
  intro x hx
  obtain ⟨a, ha, rfl⟩ := List.mem_map.mp hx
  exact h a ha

theorem obs_valid (cfg : Cfg) (n : Nat) (dm : Dims) (hO : 0 < cfg.obsNum) (o : Obs) (h : ObsOK cfg n dm o) :
    (obsSpec cfg n dm).valid (toNValue cfg.normalize o) = true := by
  obtain ⟨h1, h2, h3, h4, h5, h6, h7, h8⟩ := h
  have ve : ∀ (nm : String) (f : SpaceQ → Rat), (∀ e ∈ o.ems, In (hiR cfg.normalize dm) (f e)) →
      (lenLeaf cfg dm cfg.obsNum nm).valid ⟨shape1 o.ems, dtOf cfg.normalize, o.ems.map f⟩ = true := fun nm f hf =>
    valid_bounded1 cfg.obsNum (dtOf cfg.normalize) nm 0 (hiR cfg.normalize dm) o.ems (fun l => l.map f) (by simp) h1
      (map_in' _ _ _ hf)
  have vi : ∀ (nm : String) (f : ItemQ → Rat), (∀ e ∈ o.items, In (hiR cfg.normalize dm) (f e)) →
      (lenLeaf cfg dm n nm).valid ⟨shape1 o.items, dtOf cfg.normalize, o.items.map f⟩ = true := fun nm f hf =>
    valid_bounded1 n (dtOf cfg.normalize) nm 0 (hiR cfg.normalize dm) o.items (fun l => l.map f) (by simp) h4
      (map_in' _ _ _ hf)
  have v1 := ve "x1" (·.x1) (fun e he => (h2 e he).1)
  have v2 := ve "x2" (·.x2) (fun e he => (h2 e he).2.1)
  have v3 := ve "y1" (·.y1) (fun e he => (h2 e he).2.2.1)
  have v4 := ve "y2" (·.y2) (fun e he => (h2 e he).2.2.2.1)
  have v5 := ve "z1" (·.z1) (fun e he => (h2 e he).2.2.2.2.1)
  have v6 := ve "z2" (·.z2) (fun e he => (h2 e he).2.2.2.2.2)
  have v7 := valid_bounded1 cfg.obsNum .bool "ems_mask" 0 1 o.emsMask ofBools ofBools_length h3 (ofBools_bounds _)
  have v8 := vi "x_len" (·.xl) (fun e he => (h5 e he).1)
  have v9 := vi "y_len" (·.yl) (fun e he => (h5 e he).2.1)
  have v10 := vi "z_len" (·.zl) (fun e he => (h5 e he).2.2)
  have v11 := valid_bounded1 n .bool "items_mask" 0 1 o.itemsMask ofBools ofBools_length h6 (ofBools_bounds _)
  have v12 := valid_bounded1 n .bool "items_placed" 0 1 o.itemsPlaced ofBools ofBools_length h7 (ofBools_bounds _)
  have v13 := valid_bounded2 cfg.obsNum n .bool "action_mask" 0 1 o.actionMask ofBools ofBools_length h8 hO
    (ofBools_bounds _)
  simp only [Nested.valid, obsSpec, toNValue, List.map_cons, List.map_nil, List.zipWith_cons_cons, List.zipWith_nil_right,
    List.all_cons, List.all_nil, id, v1, v2, v3, v4, v5, v6, v7, v8, v9, v10, v11, v12, v13]
  decide

theorem in_of_mem_map {α : Type} {l : List α} {f : α → Rat} {hi : Rat}
    (h : ∀ x ∈ l.map f, (0 : Rat) ≤ x ∧ x ≤ hi) : ∀ a ∈ l, In hi (f a) :=
  fun a ha => h (f a) (List.mem_map.mpr ⟨a, ha, rfl⟩)

/-- … and conversely `validate` accepts nothing else: `obs_num_ems` EMS rows and `n` item rows with all coordinates in
`[0, 1]` resp. `[0, max_dim]`, masks of the declared lengths, an `obs_num_ems × n` action mask -/
theorem obs_valid_only (cfg : Cfg) (n : Nat) (dm : Dims) (o : Obs)
    (h : (obsSpec cfg n dm).valid (toNValue cfg.normalize o) = true) :
    o.ems.length = cfg.obsNum ∧
    (∀ e ∈ o.ems, In (hiR cfg.normalize dm) e.x1 ∧ In (hiR cfg.normalize dm) e.x2 ∧ In (hiR cfg.normalize dm) e.y1 ∧
      In (hiR cfg.normalize dm) e.y2 ∧ In (hiR cfg.normalize dm) e.z1 ∧ In (hiR cfg.normalize dm) e.z2) ∧
    o.emsMask.length = cfg.obsNum ∧ o.items.length = n ∧
    (∀ it ∈ o.items, In (hiR cfg.normalize dm) it.xl ∧ In (hiR cfg.normalize dm) it.yl ∧ In (hiR cfg.normalize dm) it.zl) ∧
    o.itemsMask.length = n ∧ o.itemsPlaced.length = n ∧ shape2 o.actionMask = [cfg.obsNum, n] := by
  simp only [Nested.valid, obsSpec, toNValue, lenLeaf, List.map_cons, List.map_nil, List.zipWith_cons_cons,
    List.zipWith_nil_right, List.all_cons, List.all_nil, id, Bool.and_true, Bool.and_eq_true, beq_self_eq_true, true_and] at h
  obtain ⟨h1, h2, h3, h4, h5, h6, h7, h8, h9, h10, h11, h12, h13⟩ := h
  rw [valid_scalar_bounded_iff] at h1 h2 h3 h4 h5 h6 h7 h8 h9 h10 h11 h12 h13
  have e1 := in_of_mem_map h1.2.2.2
  have e2 := in_of_mem_map h2.2.2.2
  have e3 := in_of_mem_map h3.2.2.2
  have e4 := in_of_mem_map h4.2.2.2
  have e5 := in_of_mem_map h5.2.2.2
  have e6 := in_of_mem_map h6.2.2.2
  have i1 := in_of_mem_map h8.2.2.2
  have i2 := in_of_mem_map h9.2.2.2
  have i3 := in_of_mem_map h10.2.2.2
  refine ⟨by simpa [shape1] using h1.1, fun e he => ⟨e1 e he, e2 e he, e3 e he, e4 e he, e5 e he, e6 e he⟩,
    by simpa [shape1] using h7.1, by simpa [shape1] using h8.1, fun e he => ⟨i1 e he, i2 e he, i3 e he⟩,
    by simpa [shape1] using h11.1, by simpa [shape1] using h12.1, h13.1⟩

/-! ### the invariant -/

/-- `BoundsInv` (container = `[0,cx]×[0,cy]×[0,cz]`, every EMS slot inside it, no item larger than it), consistent array
lengths, `n` items, at least `obs_num_ems` EMS slots, positive container sides.  The two cached fields are not mentioned. -/
def SpecInv (cfg : Cfg) (n : Nat) (dm : Dims) (s : State) : Prop :=
  BoundsInv dm s ∧ WF s ∧ s.items.length = n ∧ cfg.obsNum ≤ s.ems.length ∧ 0 < dm.cx ∧ 0 < dm.cy ∧ 0 < dm.cz
instance (cfg : Cfg) (n : Nat) (dm : Dims) (s : State) : Decidable (SpecInv cfg n dm s) := by
  unfold SpecInv; infer_instance

theorem makeObs_specInv (cfg : Cfg) (rnd : Rat → Rat) (n : Nat) (dm : Dims) (s : State) (h : SpecInv cfg n dm s) :
    SpecInv cfg n dm (makeObs cfg rnd s).1 := by
  obtain ⟨h1, h2, h3, h4, h5⟩ := h
  exact ⟨makeObs_inv cfg rnd dm s h1, by rw [makeObs_fst]; exact h2, by rw [makeObs_fst]; exact h3,
    by rw [makeObs_fst]; exact h4, h5⟩

/-- the state `step` hands to `_make_observation_and_extras`: the packed state when the cached mask admits the action,
the unchanged state otherwise -/
theorem mid_specInv (cfg : Cfg) (n : Nat) (dm : Dims) (s : State) (e i : Int) (d : EmsDraw) (h : SpecInv cfg n dm s)
    (hd : stepValid s e i = true → validDraw s e i d ∧ validDrawAll s e i d) :
    SpecInv cfg n dm (if stepValid s e i then packItem s (Jx.getWC s.sortedIdx 0 e) i d else s) := by
  have hB := mid_inv dm s e i d h.1 (fun hv => (hd hv).2)
  obtain ⟨h1, h2, h3, h4, h5⟩ := h
  split
  · rename_i hv
    rw [if_pos hv] at hB
    obtain ⟨hl1, hl2, _⟩ := (hd hv).1
    refine ⟨hB, packItem_WF s h2 _ _ d (by rw [hl1, hl2]), h3, ?_, h5⟩
    show cfg.obsNum ≤ d.ems.length
    rw [hl1]; exact h4
  · exact ⟨h1, h2, h3, h4, h5⟩

/-- EVERY step (any integers as action, valid or not, terminal or not) whose EMS draw — if the step packs an item — is
admissible preserves the invariant -/
theorem step_specInv (cfg : Cfg) (rnd : Rat → Rat) (n : Nat) (dm : Dims) (s : State) (e i : Int) (d : EmsDraw)
    (h : SpecInv cfg n dm s) (hd : stepValid s e i = true → validDraw s e i d ∧ validDrawAll s e i d) :
    SpecInv cfg n dm (step cfg rnd s e i d).1 := by
  rw [step_fst]; exact makeObs_specInv cfg rnd n dm _ (mid_specInv cfg n dm s e i d h hd)

/-- the deterministic step (`_update_ems` transliterated): no hypothesis on the EMS update -/
theorem step₁_specInv (cfg : Cfg) (rnd : Rat → Rat) (n : Nat) (dm : Dims) (s : State) (e i : Int)
    (h : SpecInv cfg n dm s) : SpecInv cfg n dm (step₁ cfg rnd s e i).1 :=
  step_specInv cfg rnd n dm s e i _ h (fun _ => updateEms_validDraw s h.2.1 e i)

theorem reset_specInv (cfg : Cfg) (rnd : Rat → Rat) (dm : Dims) (maxEms n : Nat) (items : List Item)
    (itemsMask : List Bool) (h : validReset dm n items itemsMask) (hE : cfg.obsNum ≤ maxEms) (hE1 : 1 ≤ maxEms) :
    SpecInv cfg n dm (reset cfg rnd dm maxEms items itemsMask).1 := by
  refine ⟨reset_inv cfg rnd dm maxEms n items itemsMask h,
    reset_WF cfg rnd dm maxEms items itemsMask (by rw [h.2.2.2.2.1, h.2.2.2.1]), ?_, ?_, h.1, h.2.1, h.2.2.1⟩
  · rw [reset_fst, makeObs_fst]; exact h.2.2.2.1
  · rw [reset_fst, makeObs_fst]
    show cfg.obsNum ≤ (boxOf dm :: List.replicate (maxEms - 1) (⟨0, 0, 0, 0, 0, 0⟩ : Space)).length
    simp only [List.length_cons, List.length_replicate]; omega

/-! ### membership of the observations -/

theorem le_maxDim (dm : Dims) : dm.cx ≤ maxDim dm ∧ dm.cy ≤ maxDim dm ∧ dm.cz ≤ maxDim dm := by
  unfold maxDim; omega

theorem in_of_inIv (norm : Bool) (dm : Dims) (c : Int) (hc : c ≤ maxDim dm) (v : Rat)
    (h : inIv (some 0) (hiOf norm c) v) : In (hiR norm dm) v := by
  simp only [inIv, hiOf] at h
  refine ⟨h.1, ?_⟩
  unfold hiR
  cases norm
  · simp only [Bool.false_eq_true, if_false] at h ⊢
    exact Rat.le_trans h.2 (Rat.intCast_le_intCast.mpr hc)
  · simpa using h.2

theorem obsIdx_length (cfg : Cfg) (rnd : Rat → Rat) (s : State) (hw : WF s) (hE : cfg.obsNum ≤ s.ems.length) :
    (obsIdx cfg rnd s).length = cfg.obsNum := by
  unfold obsIdx; rw [List.length_take, sortedOf_length rnd s hw]; omega

theorem makeObs_obsOK (cfg : Cfg) (rnd : Rat → Rat) (n : Nat) (dm : Dims) (s : State) (h : SpecInv cfg n dm s) :
    ObsOK cfg n dm (makeObs cfg rnd s).2 := by
  obtain ⟨hB, hw, hn, hE, _⟩ := h
  have hidx := obsIdx_length cfg rnd s hw hE
  have hc : s.container = boxOf dm := hB.1
  have hEms := obsEms_inBox cfg rnd dm s hB
  have hI := hB.2.2.2.2.2
  obtain ⟨mx, my, mz⟩ := le_maxDim dm
  refine ⟨?_, ?_, ?_, ?_, ?_, ?_, ?_, ?_⟩
  · rw [makeObs_ems]; simp [obsEms, hidx]
  · rw [makeObs_ems, hc]
    intro q hq
    obtain ⟨e, he, rfl⟩ := List.mem_map.mp hq
    obtain ⟨a1, a2, a3, a4, a5, a6⟩ := emsQ_coords cfg.normalize dm e (hEms e he)
    exact ⟨in_of_inIv _ dm _ mx _ a1, in_of_inIv _ dm _ mx _ a2, in_of_inIv _ dm _ my _ a3, in_of_inIv _ dm _ my _ a4,
      in_of_inIv _ dm _ mz _ a5, in_of_inIv _ dm _ mz _ a6⟩
  · show (obsEmsMask cfg rnd s).length = cfg.obsNum
    simp [obsEmsMask, hidx]
  · rw [makeObs_items]; simp [hn]
  · rw [makeObs_items, hc]
    intro q hq
    obtain ⟨it, hit, rfl⟩ := List.mem_map.mp hq
    obtain ⟨a1, a2, a3⟩ := itemQ_coords cfg.normalize dm it (hI it hit)
    exact ⟨in_of_inIv _ dm _ mx _ a1, in_of_inIv _ dm _ my _ a2, in_of_inIv _ dm _ mz _ a3⟩
  · show s.itemsMask.length = n
    rw [hw.2.1, hn]
  · show s.itemsPlaced.length = n
    rw [hw.2.2.1, hn]
  · show Rect2 (maskOf cfg rnd s) cfg.obsNum n
    unfold maskOf
    refine ⟨by simp [obsEms, obsEmsMask, hidx], ?_⟩
    intro row hrow
    rw [List.mem_iff_getElem] at hrow
    obtain ⟨k, hk, rfl⟩ := hrow
    simp [hn]

/-- C01: the observation `_make_observation_and_extras` builds from ANY state with the invariant is a member -/
theorem makeObs_valid (cfg : Cfg) (rnd : Rat → Rat) (n : Nat) (dm : Dims) (hO : 0 < cfg.obsNum) (s : State)
    (h : SpecInv cfg n dm s) : (obsSpec cfg n dm).valid (toNValue cfg.normalize (makeObs cfg rnd s).2) = true :=
  obs_valid cfg n dm hO _ (makeObs_obsOK cfg rnd n dm s h)

/-- C01: the `reset` observation for every generator output (`validReset`: any `n` items that fit, any item mask) and every
buffer size `max_num_ems ≥ obs_num_ems` -/
theorem reset_obs_valid (cfg : Cfg) (rnd : Rat → Rat) (dm : Dims) (maxEms n : Nat) (hO : 0 < cfg.obsNum)
    (items : List Item) (itemsMask : List Bool) (h : validReset dm n items itemsMask) (hE : cfg.obsNum ≤ maxEms) :
    (obsSpec cfg n dm).valid (toNValue cfg.normalize (reset cfg rnd dm maxEms items itemsMask).2.obs) = true := by
  have hinv := reset_specInv cfg rnd dm maxEms n items itemsMask h hE (by omega)
  rw [reset_fst] at hinv
  show (obsSpec cfg n dm).valid (toNValue cfg.normalize (makeObs cfg rnd _).2) = true
  apply makeObs_valid cfg rnd n dm hO
  obtain ⟨h1, h2, h3, h4, h5⟩ := hinv
  rw [makeObs_fst] at h1 h2 h3 h4
  exact ⟨h1, h2, h3, h4, h5⟩

/-- C01: the observation of EVERY step (any integers as action, valid or not, MID or LAST, either reward function) -/
theorem step_obs_valid (cfg : Cfg) (rnd : Rat → Rat) (n : Nat) (dm : Dims) (hO : 0 < cfg.obsNum) (s : State) (e i : Int)
    (d : EmsDraw) (h : SpecInv cfg n dm s) (hd : stepValid s e i = true → validDraw s e i d ∧ validDrawAll s e i d) :
    (obsSpec cfg n dm).valid (toNValue cfg.normalize (step cfg rnd s e i d).2.obs) = true := by
  rw [step_obs]; exact makeObs_valid cfg rnd n dm hO _ (mid_specInv cfg n dm s e i d h hd)

theorem step₁_obs_valid (cfg : Cfg) (rnd : Rat → Rat) (n : Nat) (dm : Dims) (hO : 0 < cfg.obsNum) (s : State) (e i : Int)
    (h : SpecInv cfg n dm s) :
    (obsSpec cfg n dm).valid (toNValue cfg.normalize (step₁ cfg rnd s e i).2.obs) = true :=
  step_obs_valid cfg rnd n dm hO s e i _ h (fun _ => updateEms_validDraw s h.2.1 e i)

/-- whole episodes of the deterministic step: along the rollout of ANY actions (any integers) from `reset`, every emitted
observation is a member of the spec (BinPack has no time limit: every index) -/
theorem rollout_obs_valid (cfg : Cfg) (rnd : Rat → Rat) (dm : Dims) (maxEms n : Nat) (hO : 0 < cfg.obsNum)
    (items : List Item) (itemsMask : List Bool) (h : validReset dm n items itemsMask) (hE : cfg.obsNum ≤ maxEms)
    (as : List (Int × Int)) (j : Nat) (e : State × TimeStep Obs)
    (he : (Ep.rollout (fun s (a : Int × Int) => step₁ cfg rnd s a.1 a.2) (reset cfg rnd dm maxEms items itemsMask).1 as)[j]?
      = some e) :
    (obsSpec cfg n dm).valid (toNValue cfg.normalize e.2.obs) = true := by
  obtain ⟨s', a, hinv, _, rfl⟩ := rollout_inv_idx (fun s (a : Int × Int) => step₁ cfg rnd s a.1 a.2)
    (fun _ s => SpecInv cfg n dm s) (fun _ => True)
    (fun _ s a h _ => step₁_specInv cfg rnd n dm s a.1 a.2 h) 0 _
    (reset_specInv cfg rnd dm maxEms n items itemsMask h hE (by omega)) as (fun _ _ => trivial) j e he
  exact step₁_obs_valid cfg rnd n dm hO s' a.1 a.2 hinv

/-- every draw of a relational play is admissible when its turn comes (only the steps that pack an item use their draw) -/
def DrawsOK (cfg : Cfg) (rnd : Rat → Rat) : State → List (Int × Int × EmsDraw) → Prop
  | _, [] => True
  | s, a :: as =>
    (stepValid s a.1 a.2.1 = true → validDraw s a.1 a.2.1 a.2.2 ∧ validDrawAll s a.1 a.2.1 a.2.2) ∧
    DrawsOK cfg rnd (step cfg rnd s a.1 a.2.1 a.2.2).1 as

/-- whole episodes of the RELATIONAL step: along the rollout of any actions (any integers) and any admissible EMS draws
from a state with the invariant, every emitted observation is a member of the spec -/
theorem rollout_obs_valid_rel (cfg : Cfg) (rnd : Rat → Rat) (n : Nat) (dm : Dims) (hO : 0 < cfg.obsNum) :
    ∀ (as : List (Int × Int × EmsDraw)) (s : State), SpecInv cfg n dm s → DrawsOK cfg rnd s as →
      ∀ (j : Nat) (e : State × TimeStep Obs),
        (Ep.rollout (fun s (a : Int × Int × EmsDraw) => step cfg rnd s a.1 a.2.1 a.2.2) s as)[j]? = some e →
        (obsSpec cfg n dm).valid (toNValue cfg.normalize e.2.obs) = true := by
  intro as
  induction as with
  | nil => intro s _ _ j e he; simp [Ep.rollout] at he
  | cons a as ih =>
    intro s hs hd j e he
    obtain ⟨hd1, hd2⟩ := hd
    cases j with
    | zero =>
      simp only [Ep.rollout, List.getElem?_cons_zero, Option.some.injEq] at he
      subst he
      exact step_obs_valid cfg rnd n dm hO s a.1 a.2.1 a.2.2 hs hd1
    | succ j =>
      simp only [Ep.rollout, List.getElem?_cons_succ] at he
      exact ih _ (step_specInv cfg rnd n dm s a.1 a.2.1 a.2.2 hs hd1) hd2 j e he

/-- FINDING: with a buffer smaller than `obs_num_ems` (the constructor does not compare the two) the observation has only
`max_num_ems` EMS rows and is NOT a member of the declared spec — at `reset` already -/
theorem reset_obs_not_valid (cfg : Cfg) (rnd : Rat → Rat) (dm : Dims) (maxEms n : Nat) (items : List Item)
    (itemsMask : List Bool) (hm : itemsMask.length = items.length) (hE1 : 1 ≤ maxEms) (hE : maxEms < cfg.obsNum) :
    (obsSpec cfg n dm).valid (toNValue cfg.normalize (reset cfg rnd dm maxEms items itemsMask).2.obs) = false := by
  rw [Bool.eq_false_iff]
  intro hv
  have hlen := (obs_valid_only cfg n dm _ hv).1
  have key : ∀ s0 : State, WF s0 → s0.ems.length = maxEms → (makeObs cfg rnd s0).2.ems.length = maxEms := by
    intro s0 hw hl
    rw [makeObs_ems, List.length_map]
    unfold obsEms obsIdx
    rw [List.length_map, List.length_take, sortedOf_length rnd _ hw, hl]; omega
  have : (reset cfg rnd dm maxEms items itemsMask).2.obs.ems.length = maxEms :=
    key _ (by simp [WF, hm]) (by simp only [List.length_cons, List.length_replicate]; omega)
  omega

/-! ### reward, discount, action spec -/

theorem step_protocol (cfg : Cfg) (rnd : Rat → Rat) (s : State) (e i : Int) (d : EmsDraw) :
    StepOK none false (step cfg rnd s e i d).2 = true := by
  show StepOK none false (condLast _ [_] _) = true
  exact condLast_stepOK _ _ _

theorem step_reward_discount_valid (cfg : Cfg) (rnd : Rat → Rat) (s : State) (e i : Int) (d : EmsDraw) :
    rewardSpec.valid (scalarArr (step cfg rnd s e i d).2.reward) = true ∧
    discountSpec.valid (scalarArr (step cfg rnd s e i d).2.discount) = true :=
  stepOK_reward_discount_valid false _ (step_protocol cfg rnd s e i d)

theorem reset_reward_discount_valid (cfg : Cfg) (rnd : Rat → Rat) (dm : Dims) (maxEms : Nat) (items : List Item)
    (m : List Bool) :
    rewardSpec.valid (scalarArr (reset cfg rnd dm maxEms items m).2.reward) = true ∧
    discountSpec.valid (scalarArr (reset cfg rnd dm maxEms items m).2.discount) = true := by
  unfold reset; simp only [restart]; exact ⟨by decide, by decide⟩

theorem actionSpec_generate (cfg : Cfg) (n : Nat) : (actionSpec cfg n).generate = actionArr 0 0 := by
  simp [actionSpec, Leaf.generate, Leaf.lower, Leaf.shape, Leaf.dtype, actionArr]

/-- membership in `action_spec` is exactly "EMS slot < obs_num_ems and item < max_num_items" -/
theorem actionSpec_valid_iff (cfg : Cfg) (n : Nat) (e i : Nat) :
    (actionSpec cfg n).valid (actionArr (e : Int) (i : Int)) = true ↔ e < cfg.obsNum ∧ i < n := by
  rw [Leaf.valid_iff]
  simp only [actionSpec, Leaf.shape, Leaf.dtype, Leaf.lower, Leaf.upper, actionArr, prod]
  constructor
  · rintro ⟨_, _, _, h⟩
    rcases h with ⟨h, _⟩ | ⟨lo, hi, hl, hu, hall⟩
    · simp at h
    · simp only [Option.some.injEq] at hl hu
      subst hl; subst hu
      have h0 := hall 0 (by simp) (by simp)
      have h1 := hall 1 (by simp) (by simp)
      simp only [List.map_cons, List.map_nil, List.zip_cons_cons, List.getElem_cons_zero, List.getElem_cons_succ] at h0 h1
      have a0 : ((e : Int) : Rat) ≤ (((cfg.obsNum : Nat) : Int) - 1 : Int) := h0.2
      have a1 : ((i : Int) : Rat) ≤ (((n : Nat) : Int) - 1 : Int) := h1.2
      have b0 := Rat.intCast_le_intCast.mp a0
      have b1 := Rat.intCast_le_intCast.mp a1
      omega
  · rintro ⟨hr, hx⟩
    refine ⟨trivial, trivial, by simp, Or.inr ⟨_, _, rfl, rfl, ?_⟩⟩
    intro k h1 h2
    have hk : k = 0 ∨ k = 1 := by simp at h1; omega
    rcases hk with rfl | rfl
    · simp only [List.map_cons, List.map_nil, List.zip_cons_cons, List.getElem_cons_zero]
      exact ⟨by exact_mod_cast Int.natCast_nonneg e,
        Rat.intCast_le_intCast.mpr (by omega : (e : Int) ≤ ((cfg.obsNum : Nat) : Int) - 1)⟩
    · simp only [List.map_cons, List.map_nil, List.zip_cons_cons, List.getElem_cons_succ, List.getElem_cons_zero]
      exact ⟨by exact_mod_cast Int.natCast_nonneg i,
        Rat.intCast_le_intCast.mpr (by omega : (i : Int) ≤ ((n : Nat) : Int) - 1)⟩

theorem actionSpec_WF (cfg : Cfg) (n : Nat) (hO : 0 < cfg.obsNum) (hn : 0 < n) (hb1 : cfg.obsNum ≤ 2147483648)
    (hb2 : n ≤ 2147483648) : (actionSpec cfg n).WF = true := by
  have fitsI : ∀ z : Int, -2147483648 ≤ z → z ≤ 2147483647 → DType.int32.fits ((z : Int) : Rat) = true := by
    intro z h1 h2; simp [DType.fits, DType.intRange, Rat.den_intCast, Rat.num_intCast, h1, h2]
  have h4 : DType.int32.fits (((((cfg.obsNum : Nat) : Int) - 1 : Int)) : Rat) = true := fitsI _ (by omega) (by omega)
  have hd : DType.int32.fits (((((n : Nat) : Int) - 1 : Int)) : Rat) = true := fitsI _ (by omega) (by omega)
  simp only [actionSpec, Leaf.WF, Leaf.WF0, Leaf.fitsDType, List.all_cons, List.all_nil, h4, hd]
  simp [prod, DType.isInt, hO, hn]

/-- `action_spec.generate_value()` = (0, 0): the spec is well-formed, the value is a member, and the step answers it from
every state with the invariant with a protocol-conform timestep whose observation is a member of the observation spec -/
theorem accepts_generate_value (cfg : Cfg) (rnd : Rat → Rat) (n : Nat) (dm : Dims) (hO : 0 < cfg.obsNum) (hn : 0 < n)
    (hb1 : cfg.obsNum ≤ 2147483648) (hb2 : n ≤ 2147483648) (s : State) (h : SpecInv cfg n dm s) :
    (actionSpec cfg n).WF = true ∧ (actionSpec cfg n).valid (actionSpec cfg n).generate = true ∧
    (actionSpec cfg n).generate = actionArr 0 0 ∧ StepOK none false (step₁ cfg rnd s 0 0).2 = true ∧
    (obsSpec cfg n dm).valid (toNValue cfg.normalize (step₁ cfg rnd s 0 0).2.obs) = true :=
  ⟨actionSpec_WF cfg n hO hn hb1 hb2, Leaf.generate_valid _ (actionSpec_WF cfg n hO hn hb1 hb2), actionSpec_generate cfg n,
   step_protocol cfg rnd s 0 0 _, step₁_obs_valid cfg rnd n dm hO s 0 0 h⟩

end BinPack
