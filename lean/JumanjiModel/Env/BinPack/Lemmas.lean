/- Lemmas and proofs for BinPack (statements of the properties are in Props/Env/BinPack.lean). -/
import JumanjiModel.Env.BinPack.Model
import JumanjiModel.Prim.Lemmas
namespace BinPack
open Jm

/-! ### spaces -/

theorem incl_iff (a b : Space) : a.isIncluded b = true ↔
    b.x1 ≤ a.x1 ∧ a.x2 ≤ b.x2 ∧ b.y1 ≤ a.y1 ∧ a.y2 ≤ b.y2 ∧ b.z1 ≤ a.z1 ∧ a.z2 ≤ b.z2 := by
  simp [Space.isIncluded, and_assoc]

theorem inter_false_iff (a b : Space) : a.intersect b = false ↔
    (min a.x2 b.x2 ≤ max a.x1 b.x1 ∨ min a.y2 b.y2 ≤ max a.y1 b.y1 ∨ min a.z2 b.z2 ≤ max a.z1 b.z1) := by
  simp [Space.intersect, Space.isEmpty, Space.intersection]; omega

theorem inter_comm (a b : Space) : a.intersect b = b.intersect a := by
  cases h : b.intersect a
  · rw [inter_false_iff] at *; omega
  · cases h' : a.intersect b
    · rw [inter_false_iff] at h'
      have : b.intersect a = false := by rw [inter_false_iff]; omega
      simp [this] at h
    · rfl

/-- a subset of a space that is clear of `p` is clear of `p` -/
theorem inter_mono (a e p : Space) (h : a.isIncluded e = true) (hp : e.intersect p = false) :
    a.intersect p = false := by
  rw [incl_iff] at h; rw [inter_false_iff] at *; omega

theorem incl_trans (a b c : Space) (h1 : a.isIncluded b = true) (h2 : b.isIncluded c = true) :
    a.isIncluded c = true := by
  rw [incl_iff] at *; omega

theorem incl_refl (a : Space) : a.isIncluded a = true := by rw [incl_iff]; omega

/-- the cut of `e` with a half-space around the item is a subset of `e` … -/
theorem hyperInter_incl (it e : Space) (d : Dir) : (hyperInter it d e).isIncluded e = true := by
  rw [incl_iff]; cases d <;> simp [hyperInter] <;> omega

/-- … and does not intersect the item -/
theorem hyperInter_clear (it e : Space) (d : Dir) : (hyperInter it d e).intersect it = false := by
  rw [inter_false_iff]; cases d <;> simp [hyperInter] <;> omega

/-- an item that fits in an EMS and is put into its min-corner lies inside the EMS -/
theorem corner_incl (it : Item) (e : Space) (h : itemFitsInItem it (itemFromSpace e) = true) :
    (spaceFrom it ⟨e.x1, e.y1, e.z1⟩).isIncluded e = true := by
  rw [incl_iff]
  simp only [itemFitsInItem, Bool.and_eq_true, decide_eq_true_eq] at h
  simp only [itemFromSpace] at h
  simp only [spaceFrom]; omega

/-! ### `argsortDesc` -/

theorem before_trans (key : Nat → Rat) {a b c : Nat} (h1 : before key a b) (h2 : before key b c) :
    before key a c := by
  unfold before at *; grind

theorem before_total (key : Nat → Rat) {a b : Nat} (h : a ≠ b) : before key a b ∨ before key b a := by
  unfold before; grind

theorem before_irrefl (key : Nat → Rat) (a : Nat) : ¬ before key a a := by
  unfold before; grind

theorem insertIdx_perm (key : Nat → Rat) (i : Nat) (l : List Nat) : (insertIdx key i l).Perm (i :: l) := by
  induction l with
  | nil => simp [insertIdx]
  | cons j js ih =>
    unfold insertIdx; split
    · exact (List.Perm.cons j ih).trans (List.Perm.swap i j js)
    · exact List.Perm.refl _

theorem insertIdx_pairwise (key : Nat → Rat) (i : Nat) (l : List Nat) (hl : l.Pairwise (before key))
    (hi : i ∉ l) : (insertIdx key i l).Pairwise (before key) := by
  induction l with
  | nil => simp [insertIdx]
  | cons j js ih =>
    rw [List.pairwise_cons] at hl
    unfold insertIdx; split
    · rename_i hb
      rw [List.pairwise_cons]
      refine ⟨?_, ih hl.2 (by simp at hi; exact hi.2)⟩
      intro x hx
      have := (insertIdx_perm key i js).mem_iff.mp hx
      simp at this
      rcases this with rfl | h
      · exact hb
      · exact hl.1 x h
    · rename_i hb
      have hij : i ≠ j := by simp at hi; exact hi.1
      have hbij : before key i j := by
        rcases before_total key hij with h | h
        · exact h
        · exact absurd h hb
      rw [List.pairwise_cons]
      refine ⟨?_, List.pairwise_cons.mpr hl⟩
      intro x hx
      simp at hx
      rcases hx with rfl | h
      · exact hbij
      · exact before_trans key hbij (hl.1 x h)

theorem foldr_insert_perm (key : Nat → Rat) (l : List Nat) : (l.foldr (insertIdx key) []).Perm l := by
  induction l with
  | nil => simp
  | cons i is ih => exact (insertIdx_perm key i _).trans (List.Perm.cons i ih)

theorem foldr_insert_pairwise (key : Nat → Rat) (l : List Nat) (hn : l.Nodup) :
    (l.foldr (insertIdx key) []).Pairwise (before key) := by
  induction l with
  | nil => simp
  | cons i is ih =>
    rw [List.nodup_cons] at hn
    refine insertIdx_pairwise key i _ (ih hn.2) ?_
    intro h
    exact hn.1 ((foldr_insert_perm key is).mem_iff.mp h)

/-- the sorted index list is a permutation of `0 … n-1` -/
theorem argsortDesc_perm (keys : List Rat) : (argsortDesc keys).Perm (List.range keys.length) :=
  foldr_insert_perm _ _

/-- … in which every index comes before all later ones: larger key first, equal keys by index -/
theorem argsortDesc_pairwise (keys : List Rat) :
    (argsortDesc keys).Pairwise (before (fun k => keys.getD k 0)) :=
  foldr_insert_pairwise _ _ List.nodup_range

theorem argsortDesc_length (keys : List Rat) : (argsortDesc keys).length = keys.length := by
  rw [(argsortDesc_perm keys).length_eq, List.length_range]

theorem mem_argsortDesc (keys : List Rat) (k : Nat) : k ∈ argsortDesc keys ↔ k < keys.length := by
  rw [(argsortDesc_perm keys).mem_iff, List.mem_range]

theorem argsortDesc_getD_lt (keys : List Rat) (e : Nat) (he : e < keys.length) :
    (argsortDesc keys).getD e 0 < keys.length := by
  rw [← mem_argsortDesc]
  have : e < (argsortDesc keys).length := by rw [argsortDesc_length]; exact he
  rw [List.getD_eq_getElem?_getD, List.getElem?_eq_getElem this]
  simp

/-! ### the mask -/

theorem take_eq_map_range {α} (l : List α) (m : Nat) (d : α) :
    l.take m = (List.range (min m l.length)).map (fun e => l.getD e d) := by
  apply List.ext_getElem
  · simp
  · intro i h1 h2
    simp at h1 h2
    simp [List.getD_eq_getElem?_getD, List.getElem?_eq_getElem (show i < l.length by omega)]

theorem emsKeys_length (rnd : Rat → Rat) (s : State) (h : WF s) : (emsKeys rnd s).length = s.ems.length := by
  unfold emsKeys; rw [List.length_zipWith, h.1]; simp

theorem sortedOf_length (rnd : Rat → Rat) (s : State) (h : WF s) : (sortedOf rnd s).length = s.ems.length := by
  unfold sortedOf; rw [argsortDesc_length, emsKeys_length rnd s h]

theorem shownEms_lt (rnd : Rat → Rat) (s : State) (h : WF s) (e : Nat) (he : e < s.ems.length) :
    shownEms rnd s e < s.ems.length := by
  unfold shownEms sortedOf
  have := argsortDesc_getD_lt (emsKeys rnd s) e (by rw [emsKeys_length rnd s h]; exact he)
  rwa [emsKeys_length rnd s h] at this

theorem allowed_eq_canPack (s : State) (k i : Nat) (hi : i < s.items.length) :
    isActionAllowed (s.ems.getD k default) (s.emsMask.getD k false) (s.items.getD i default)
      (s.itemsMask.getD i false) (s.itemsPlaced.getD i true) = decide (canPack s k i) := by
  unfold isActionAllowed canPack
  simp only [itemFitsInItem]
  simp only [itemFromSpace]
  rw [Bool.eq_iff_iff]
  simp [hi, and_assoc]

/-- the L1 mask (`_get_action_mask` over the gathered largest EMSs) is the table of L2 legality -/
theorem maskOf_eq_legalMask (cfg : Cfg) (rnd : Rat → Rat) (s : State) (h : WF s) :
    maskOf cfg rnd s = legalMask cfg rnd s := by
  unfold maskOf legalMask obsEms obsEmsMask obsIdx
  rw [List.zipWith_map, List.zipWith_self, take_eq_map_range _ _ 0, sortedOf_length rnd s h, List.map_map]
  apply List.map_congr_left
  intro e _
  apply List.map_congr_left
  intro i hi
  exact allowed_eq_canPack s _ i (List.mem_range.mp hi)

theorem legalMask_getD (cfg : Cfg) (rnd : Rat → Rat) (s : State) (e i : Nat) :
    ((legalMask cfg rnd s).getD e []).getD i false = decide (legal cfg rnd s e i) := by
  unfold legalMask legal shownEms
  by_cases he : e < min cfg.obsNum s.ems.length
  · by_cases hi : i < s.items.length
    · have h1 : e < cfg.obsNum := by omega
      have h2 : e < s.ems.length := by omega
      simp [List.getD_eq_getElem?_getD, he, hi, h1, h2]
    · simp [List.getD_eq_getElem?_getD, he, hi, canPack]
  · simp [List.getD_eq_getElem?_getD, he]
    intro h1 h2; omega

/-- C04: the mask bit of `(e, i)` is set exactly when the rules allow the action -/
theorem mask_iff_legal (cfg : Cfg) (rnd : Rat → Rat) (s : State) (h : WF s) (e i : Nat) :
    ((maskOf cfg rnd s).getD e []).getD i false = true ↔ legal cfg rnd s e i := by
  rw [maskOf_eq_legalMask cfg rnd s h, legalMask_getD]; simp

/-! ### packing preserves feasibility, for every EMS update in the relation -/

/-- the state after `_pack_item` with in-range indices -/
def packed (s : State) (k i : Nat) (d : EmsDraw) : State :=
  { s with itemsLoc := s.itemsLoc.set i ⟨(s.ems.getD k default).x1, (s.ems.getD k default).y1, (s.ems.getD k default).z1⟩
           itemsPlaced := s.itemsPlaced.set i true
           ems := d.ems, emsMask := d.mask }

/-- the space the new item occupies -/
def cornerSpace (s : State) (k i : Nat) : Space :=
  spaceFrom (s.items.getD i default) ⟨(s.ems.getD k default).x1, (s.ems.getD k default).y1, (s.ems.getD k default).z1⟩

theorem getD_set {α} (l : List α) (i j : Nat) (v d : α) (hi : i < l.length) :
    (l.set i v).getD j d = if j = i then v else l.getD j d := by
  simp only [List.getD_eq_getElem?_getD, List.getElem?_set]
  by_cases h : i = j
  · subst h; simp [hi]
  · have : ¬ j = i := fun h' => h h'.symm
    simp [h, this]

theorem packed_placedSpace (s : State) (k i : Nat) (d : EmsDraw) (hw : WF s) (hi : i < s.items.length) (j : Nat) :
    placedSpace (packed s k i d) j = if j = i then cornerSpace s k i else placedSpace s j := by
  unfold placedSpace packed cornerSpace
  simp only []
  rw [getD_set _ _ _ _ _ (by rw [hw.2.2.2]; exact hi)]
  split <;> simp_all

theorem packed_placed (s : State) (k i : Nat) (d : EmsDraw) (hw : WF s) (hi : i < s.items.length) (j : Nat) :
    (packed s k i d).itemsPlaced.getD j false = if j = i then true else s.itemsPlaced.getD j false := by
  unfold packed
  simp only []
  rw [getD_set _ _ _ _ _ (by rw [hw.2.2.1]; exact hi)]

theorem pack_feasible (s : State) (k i : Nat) (d : EmsDraw) (hf : Feasible s)
    (hk : k < s.ems.length) (hc : canPack s k i)
    (hr : EmsRel s.ems s.emsMask (cornerSpace s k i) d) : Feasible (packed s k i d) := by
  obtain ⟨hw, hin, hdis, hein, hecl⟩ := hf
  obtain ⟨hi, hnp, _, hact, hx, hy, hz⟩ := hc
  obtain ⟨hl1, hl2, hrel⟩ := hr
  -- the new item lies inside the chosen EMS
  have hnew_in : (cornerSpace s k i).isIncluded (s.ems.getD k default) = true := by
    apply corner_incl
    simp only [itemFitsInItem, Bool.and_eq_true]
    simp only [itemFromSpace]
    exact ⟨⟨decide_eq_true hx, decide_eq_true hy⟩, decide_eq_true hz⟩
  have hnew_cont : (cornerSpace s k i).isIncluded s.container = true :=
    incl_trans _ _ _ hnew_in (hein k hk hact)
  have hnew_clear : ∀ j, j < s.items.length → s.itemsPlaced.getD j false = true →
      (cornerSpace s k i).intersect (placedSpace s j) = false :=
    fun j hj hp => inter_mono _ _ _ hnew_in (hecl k hk hact j hj hp)
  -- every new active EMS is inside some old active EMS and clear of the new item
  have hsub : ∀ j, j < d.ems.length → d.mask.getD j false = true →
      ∃ k', k' < s.ems.length ∧ s.emsMask.getD k' false = true ∧
        (d.ems.getD j default).isIncluded (s.ems.getD k' default) = true ∧
        (d.ems.getD j default).intersect (cornerSpace s k i) = false := by
    intro j hj hm
    obtain ⟨k', hk', hm', h⟩ := hrel j (by omega) hm
    refine ⟨k', hk', hm', ?_⟩
    rcases h with ⟨heq, hcl⟩ | ⟨dir, _, heq⟩
    · rw [heq]; exact ⟨incl_refl _, by rw [inter_comm]; exact hcl⟩
    · rw [heq]; exact ⟨hyperInter_incl _ _ _, hyperInter_clear _ _ _⟩
  have hlen : (packed s k i d).items.length = s.items.length := rfl
  refine ⟨?_, ?_, ?_, ?_, ?_⟩
  · refine ⟨?_, hw.2.1, ?_, ?_⟩
    · show d.mask.length = d.ems.length; omega
    · show (s.itemsPlaced.set i true).length = s.items.length; simp [hw.2.2.1]
    · show (s.itemsLoc.set i _).length = s.items.length; simp [hw.2.2.2]
  · intro j hj hp
    rw [packed_placedSpace s k i d hw hi]
    rw [packed_placed s k i d hw hi] at hp
    show Space.isIncluded _ s.container = true
    split
    · exact hnew_cont
    · rename_i hne; simp [hne] at hp; exact hin j hj hp
  · intro a ha b hb hab hpa hpb
    rw [packed_placedSpace s k i d hw hi, packed_placedSpace s k i d hw hi]
    rw [packed_placed s k i d hw hi] at hpa hpb
    by_cases h1 : a = i
    · have h2 : ¬ b = i := fun h => hab (h1.trans h.symm)
      simp [h2] at hpb
      simp [h1, h2]
      exact hnew_clear b hb hpb
    · simp [h1] at hpa
      by_cases h2 : b = i
      · simp [h1, h2]
        rw [inter_comm]; exact hnew_clear a ha hpa
      · simp [h2] at hpb
        simp [h1, h2]
        exact hdis a ha b hb hab hpa hpb
  · intro j hj hm
    obtain ⟨k', hk', hm', hincl, _⟩ := hsub j hj hm
    exact incl_trans _ _ _ hincl (hein k' hk' hm')
  · intro j hj hm b hb hpb
    obtain ⟨k', hk', hm', hincl, hclr⟩ := hsub j hj hm
    rw [packed_placedSpace s k i d hw hi]
    rw [packed_placed s k i d hw hi] at hpb
    show Space.intersect (d.ems.getD j default) _ = false
    split
    · exact hclr
    · rename_i hne; simp [hne] at hpb
      exact inter_mono _ _ _ hincl (hecl k' hk' hm' b hb hpb)

/-! ### `step` -/

theorem legalMask_length (cfg : Cfg) (rnd : Rat → Rat) (s : State) :
    (legalMask cfg rnd s).length = min cfg.obsNum s.ems.length := by
  simp [legalMask]

theorem legalMask_row_length (cfg : Cfg) (rnd : Rat → Rat) (s : State) (e : Nat)
    (he : e < min cfg.obsNum s.ems.length) : ((legalMask cfg rnd s).getD e []).length = s.items.length := by
  simp [legalMask, List.getD_eq_getElem?_getD, he]

/-- the action is inside the action spec -/
def InSpec (cfg : Cfg) (s : State) (e i : Nat) : Prop := e < min cfg.obsNum s.ems.length ∧ i < s.items.length

/-- C04: with fresh caches, the validity test of `step` agrees with the rules -/
theorem stepValid_iff_legal (cfg : Cfg) (rnd : Rat → Rat) (s : State) (hw : WF s) (hf : Fresh cfg rnd s)
    (e i : Nat) (hs : InSpec cfg s e i) : stepValid s e i = true ↔ legal cfg rnd s e i := by
  unfold stepValid
  have h1 : Jx.getWC (legalMask cfg rnd s) [] (e : Int) = (legalMask cfg rnd s).getD e [] :=
    Jx.getWC_nat _ _ (by rw [legalMask_length]; exact hs.1)
  rw [hf.1, maskOf_eq_legalMask cfg rnd s hw, h1,
    Jx.getWC_nat _ _ (by rw [legalMask_row_length cfg rnd s e hs.1]; exact hs.2), legalMask_getD]
  simp

theorem makeObs_fst (cfg : Cfg) (rnd : Rat → Rat) (s : State) :
    (makeObs cfg rnd s).1 = { s with sortedIdx := (sortedOf rnd s).map (fun (k : Nat) => (k : Int)),
                                      actionMask := maskOf cfg rnd s } := rfl

theorem makeObs_fresh_id (cfg : Cfg) (rnd : Rat → Rat) (s : State) (hf : Fresh cfg rnd s) :
    (makeObs cfg rnd s).1 = s := by
  rw [makeObs_fst]; obtain ⟨h1, h2⟩ := hf; rw [← h1, ← h2]

/-- the caches written by `_make_observation_and_extras` are fresh (they do not depend on each other) -/
theorem makeObs_fresh (cfg : Cfg) (rnd : Rat → Rat) (s : State) : Fresh cfg rnd (makeObs cfg rnd s).1 := by
  rw [makeObs_fst]; exact ⟨rfl, rfl⟩

theorem step_fst (cfg : Cfg) (rnd : Rat → Rat) (s : State) (e i : Int) (d : EmsDraw) :
    (step cfg rnd s e i d).1 =
      (makeObs cfg rnd (if stepValid s e i then packItem s (Jx.getWC s.sortedIdx 0 e) i d else s)).1 := rfl

/-- every state produced by `step` has fresh caches -/
theorem step_fresh (cfg : Cfg) (rnd : Rat → Rat) (s : State) (e i : Int) (d : EmsDraw) :
    Fresh cfg rnd (step cfg rnd s e i d).1 := by
  rw [step_fst]; exact makeObs_fresh _ _ _

/-- C05 -/
theorem illegal_step (cfg : Cfg) (rnd : Rat → Rat) (s : State) (hw : WF s) (hf : Fresh cfg rnd s)
    (e i : Nat) (hs : InSpec cfg s e i) (d : EmsDraw) (h : ¬ legal cfg rnd s e i) :
    (step cfg rnd s e i d).1 = s ∧ (step cfg rnd s e i d).2.stepType = .last ∧
    (step cfg rnd s e i d).2.reward = [if cfg.dense then 0 else utilisation s] ∧
    (step cfg rnd s e i d).2.discount = [0] := by
  have hv : stepValid s e i = false := by
    cases hv : stepValid s (e : Int) (i : Int)
    · rfl
    · exact absurd ((stepValid_iff_legal cfg rnd s hw hf e i hs).mp hv) h
  have h1 : (step cfg rnd s e i d).1 = s := by
    rw [step_fst, hv]; simp only [Bool.false_eq_true, if_false]; exact makeObs_fresh_id cfg rnd s hf
  refine ⟨h1, ?_, ?_, ?_⟩
  · simp [step, hv, condLast, termination]
  · simp only [step, hv, condLast, termination, reward]
    simp only [Bool.false_eq_true, if_false, Bool.not_false, Bool.or_true, if_true]
    rw [makeObs_fresh_id cfg rnd s hf]
  · simp [step, hv, condLast, termination, zerosR, RShape.size]

/-! ### a legal step -/

theorem sortedIdx_getWC (cfg : Cfg) (rnd : Rat → Rat) (s : State) (hw : WF s) (hf : Fresh cfg rnd s)
    (e : Nat) (he : e < s.ems.length) : Jx.getWC s.sortedIdx 0 (e : Int) = ((shownEms rnd s e : Nat) : Int) := by
  rw [hf.2, Jx.getWC_nat _ _ (by rw [List.length_map, sortedOf_length rnd s hw]; exact he)]
  unfold shownEms
  have : e < (sortedOf rnd s).length := by rw [sortedOf_length rnd s hw]; exact he
  simp [List.getD_eq_getElem?_getD, List.getElem?_eq_getElem this]

theorem packItem_eq_packed (s : State) (hw : WF s) (k i : Nat) (hk : k < s.ems.length)
    (hi : i < s.items.length) (d : EmsDraw) : packItem s (k : Int) (i : Int) d = packed s k i d := by
  have h1 : Jx.setWD s.itemsPlaced (i : Int) true = s.itemsPlaced.set i true :=
    Jx.setWD_nat _ _ (by rw [hw.2.2.1]; exact hi)
  have h2 : ∀ v, Jx.setWD s.itemsLoc (i : Int) v = s.itemsLoc.set i v :=
    fun v => Jx.setWD_nat _ _ (by rw [hw.2.2.2]; exact hi)
  unfold packItem packed
  simp only [Jx.getWC_nat _ _ hk, h1, h2]

theorem newItemSpace_eq (cfg : Cfg) (rnd : Rat → Rat) (s : State) (hw : WF s) (hf : Fresh cfg rnd s)
    (e i : Nat) (hs : InSpec cfg s e i) : newItemSpace s e i = cornerSpace s (shownEms rnd s e) i := by
  have he : e < s.ems.length := by have := hs.1; omega
  have hk := shownEms_lt rnd s hw e he
  unfold newItemSpace cornerSpace
  simp only []
  rw [sortedIdx_getWC cfg rnd s hw hf e he, Jx.getWC_nat _ _ hk, Jx.getWC_nat _ _ hs.2,
    Jx.setWD_nat _ _ (by rw [hw.2.2.2]; exact hs.2),
    Jx.getWC_nat _ _ (by rw [List.length_set, hw.2.2.2]; exact hs.2),
    getD_set _ _ _ _ _ (by rw [hw.2.2.2]; exact hs.2)]
  simp

/-- the successor state of a legal action -/
theorem legal_step_fst (cfg : Cfg) (rnd : Rat → Rat) (s : State) (hw : WF s) (hf : Fresh cfg rnd s)
    (e i : Nat) (hs : InSpec cfg s e i) (d : EmsDraw) (hl : legal cfg rnd s e i) :
    (step cfg rnd s e i d).1 = (makeObs cfg rnd (packed s (shownEms rnd s e) i d)).1 := by
  have he : e < s.ems.length := by have := hs.1; omega
  rw [step_fst, (stepValid_iff_legal cfg rnd s hw hf e i hs).mpr hl]
  simp only [if_true]
  rw [sortedIdx_getWC cfg rnd s hw hf e he, packItem_eq_packed s hw _ i (shownEms_lt rnd s hw e he) hs.2]

theorem feasible_makeObs (cfg : Cfg) (rnd : Rat → Rat) (s : State) (h : Feasible s) :
    Feasible (makeObs cfg rnd s).1 := h

/-- C06: a legal action keeps the state feasible, whatever EMS update in the relation is drawn -/
theorem step_feasible (cfg : Cfg) (rnd : Rat → Rat) (s : State) (hF : Feasible s) (hf : Fresh cfg rnd s)
    (e i : Nat) (hs : InSpec cfg s e i) (d : EmsDraw) (hl : legal cfg rnd s e i)
    (hd : validDraw s e i d) : Feasible (step cfg rnd s e i d).1 := by
  have hw := hF.1
  have he : e < s.ems.length := by have := hs.1; omega
  rw [legal_step_fst cfg rnd s hw hf e i hs d hl]
  apply feasible_makeObs
  unfold validDraw at hd
  rw [newItemSpace_eq cfg rnd s hw hf e i hs] at hd
  exact pack_feasible s _ i d hF (shownEms_lt rnd s hw e he) hl.2.2 hd

/-- C06: the reset state of the generators is feasible -/
theorem reset_feasible (s : State) (h : ResetShape s) : Feasible s := by
  obtain ⟨hw, _, _, _, _, _, _, hhead, hmask, hpl, _⟩ := h
  have hnp : ∀ i, s.itemsPlaced.getD i false = false := by
    intro i; rw [hpl]; simp [List.getD_eq_getElem?_getD, List.getElem?_replicate]; split <;> rfl
  refine ⟨hw, ?_, ?_, ?_, ?_⟩
  · intro i _ hp; rw [hnp i] at hp; exact absurd hp (by decide)
  · intro i _ j _ _ hp; rw [hnp i] at hp; exact absurd hp (by decide)
  · intro k hk hm
    rw [hmask] at hm
    simp [List.getD_eq_getElem?_getD, hk] at hm
    subst hm
    cases hems : s.ems with
    | nil => rw [hems] at hk; simp at hk
    | cons a as =>
      rw [hems] at hhead; simp at hhead
      simp [hhead]; exact incl_refl _
  · intro k _ _ i _ hp; rw [hnp i] at hp; exact absurd hp (by decide)

/-! ### progress (C11) and rewards (C08) -/

theorem step_mid_valid (cfg : Cfg) (rnd : Rat → Rat) (s : State) (e i : Int) (d : EmsDraw)
    (h : (step cfg rnd s e i d).2.stepType ≠ .last) : stepValid s e i = true := by
  cases hv : stepValid s e i
  · exfalso; apply h; simp [step, hv, condLast, termination]
  · rfl

theorem countTrue_set (l : List Bool) (i : Nat) (hi : i < l.length) (h : l.getD i true = false) :
    Jx.countTrue (l.set i true) = Jx.countTrue l + 1 := by
  induction l generalizing i with
  | nil => simp at hi
  | cons b bs ih =>
    cases i with
    | zero =>
      simp at h; subst h
      simp [Jx.countTrue, List.filter]
    | succ j =>
      have hj : j < bs.length := by simp at hi; exact hi
      have := ih j hj (by simpa using h)
      simp only [List.set_cons_succ]
      unfold Jx.countTrue at *
      cases b <;> simp [List.filter] at * <;> omega

/-- C11: a step that does not end the episode packs exactly one more item -/
theorem progress (cfg : Cfg) (rnd : Rat → Rat) (s : State) (hw : WF s) (hf : Fresh cfg rnd s)
    (e i : Nat) (hs : InSpec cfg s e i) (d : EmsDraw)
    (h : (step cfg rnd s e i d).2.stepType ≠ .last) :
    Jx.countTrue (step cfg rnd s e i d).1.itemsPlaced = Jx.countTrue s.itemsPlaced + 1 := by
  have hv := step_mid_valid cfg rnd s e i d h
  have hl := (stepValid_iff_legal cfg rnd s hw hf e i hs).mp hv
  rw [legal_step_fst cfg rnd s hw hf e i hs d hl]
  show Jx.countTrue (s.itemsPlaced.set i true) = _
  exact countTrue_set _ _ (by rw [hw.2.2.1]; exact hs.2) hl.2.2.2.1

theorem sum_map_range_update (f g : Nat → Int) (n i : Nat) (c : Int) (hi : i < n)
    (hne : ∀ j, j ≠ i → g j = f j) (heq : g i = f i + c) :
    ((List.range n).map g).sum = ((List.range n).map f).sum + c := by
  induction n with
  | zero => omega
  | succ m ih =>
    rw [List.range_succ, List.map_append, List.map_append, List.sum_append, List.sum_append]
    by_cases h : i = m
    · subst h
      have : (List.range i).map g = (List.range i).map f := by
        apply List.map_congr_left; intro j hj; exact hne j (by have := List.mem_range.mp hj; omega)
      rw [this]; simp [heq]; omega
    · have := ih (by omega)
      rw [this]; simp [hne m (fun h' => h h'.symm)]; omega

theorem packed_placedVolume (s : State) (hw : WF s) (k i : Nat) (d : EmsDraw) (hi : i < s.items.length)
    (hnp : s.itemsPlaced.getD i true = false) :
    placedVolume (packed s k i d) = placedVolume s + (s.items.getD i default).volume := by
  unfold placedVolume
  show ((List.range s.items.length).map (fun j =>
      if (s.itemsPlaced.set i true).getD j false then (s.items.getD j default).volume else 0)).sum = _
  apply sum_map_range_update _ _ _ i _ hi
  · intro j hj
    rw [getD_set _ _ _ _ _ (by rw [hw.2.2.1]; exact hi)]; simp [hj]
  · have hlt : i < s.itemsPlaced.length := by rw [hw.2.2.1]; exact hi
    have : s.itemsPlaced.getD i false = false := by
      simp only [List.getD_eq_getElem?_getD, List.getElem?_eq_getElem hlt, Option.getD_some] at hnp ⊢
      exact hnp
    rw [getD_set _ _ _ _ _ hlt, if_pos rfl, this]; simp

theorem utilisation_makeObs (cfg : Cfg) (rnd : Rat → Rat) (s : State) :
    utilisation (makeObs cfg rnd s).1 = utilisation s := rfl

/-- C08: the dense reward of a legal step is the increase of the volume utilisation -/
theorem dense_telescopes (cfg : Cfg) (rnd : Rat → Rat) (s : State) (hw : WF s) (hf : Fresh cfg rnd s)
    (e i : Nat) (hs : InSpec cfg s e i) (d : EmsDraw) (hl : legal cfg rnd s e i) (hd : cfg.dense = true) :
    utilisation (step cfg rnd s e i d).1 = utilisation s + (step cfg rnd s e i d).2.reward.sum := by
  have hv := (stepValid_iff_legal cfg rnd s hw hf e i hs).mpr hl
  have hr : (step cfg rnd s e i d).2.reward =
      [((s.items.getD i default).volume : Rat) / (s.container.volume : Rat)] := by
    simp only [step, hv, reward, hd, if_true, condLast]
    rw [Jx.getWC_nat _ _ hs.2]
    split <;> rfl
  rw [hr, legal_step_fst cfg rnd s hw hf e i hs d hl, utilisation_makeObs]
  unfold utilisation
  rw [packed_placedVolume s hw _ i d hs.2 hl.2.2.2.1]
  show ((placedVolume s + (s.items.getD i default).volume : Int) : Rat) / (s.container.volume : Rat) = _
  simp [Rat.intCast_add, Rat.div_def, Rat.add_mul, Rat.add_zero]

/-- C08: the sparse reward is zero until the episode ends and then the volume utilisation -/
theorem sparse_reward (cfg : Cfg) (rnd : Rat → Rat) (s : State) (e i : Int) (d : EmsDraw)
    (hd : cfg.dense = false) :
    (step cfg rnd s e i d).2.reward =
      [if (step cfg rnd s e i d).2.stepType = .last then utilisation (step cfg rnd s e i d).1 else 0] := by
  simp only [step, reward, hd, condLast]
  split <;> simp_all [termination, transition]
  split <;> simp

/-! ### observations (C12) -/

theorem packItem_WF (s : State) (hw : WF s) (k i : Int) (d : EmsDraw) (hd : d.mask.length = d.ems.length) :
    WF (packItem s k i d) := by
  unfold packItem WF
  simp only [Jx.setWD_length]
  exact ⟨hd, hw.2.1, hw.2.2.1, hw.2.2.2⟩

theorem observe_makeObs (cfg : Cfg) (rnd : Rat → Rat) (s : State) :
    observe cfg rnd (makeObs cfg rnd s).1 = observe cfg rnd s := rfl

/-- L1 observation builder = documented observation function -/
theorem makeObs_snd (cfg : Cfg) (rnd : Rat → Rat) (s : State) (hw : WF s) :
    (makeObs cfg rnd s).2 = observe cfg rnd s := by
  have hidx : obsIdx cfg rnd s = (List.range (min cfg.obsNum s.ems.length)).map (shownEms rnd s) := by
    unfold obsIdx; rw [take_eq_map_range _ _ 0, sortedOf_length rnd s hw]; rfl
  unfold makeObs observe
  simp only [maskOf_eq_legalMask cfg rnd s hw, obsEms, obsEmsMask, hidx, List.map_map]
  cases cfg.normalize <;>
    simp [Function.comp_def, normSpace, normItem, Space.toQ, Item.toQ, itemFromSpace]

theorem condLast_obs {O} (done : Bool) (r : List Rat) (o : O) : (condLast done r o).obs = o := by
  unfold condLast; split <;> rfl

/-- C12: the observation returned by `step` is the documented function of the successor state -/
theorem obs_faithful (cfg : Cfg) (rnd : Rat → Rat) (s : State) (hw : WF s) (e i : Int) (d : EmsDraw)
    (hd : d.mask.length = d.ems.length) :
    (step cfg rnd s e i d).2.obs = observe cfg rnd (step cfg rnd s e i d).1 := by
  rw [step_fst, observe_makeObs]
  show (condLast _ _ _).obs = _
  rw [condLast_obs]
  apply makeObs_snd
  split
  · exact packItem_WF s hw _ _ d hd
  · exact hw

theorem emsKeys_getD (rnd : Rat → Rat) (s : State) (hw : WF s) (k : Nat) (hk : k < s.ems.length) :
    (emsKeys rnd s).getD k 0 =
      Space.volumeF rnd (s.ems.getD k default) * (if s.emsMask.getD k false then 1 else 0) := by
  have hk' : k < s.emsMask.length := by rw [hw.1]; exact hk
  unfold emsKeys
  simp [List.getD_eq_getElem?_getD, List.getElem?_zipWith, List.getElem?_eq_getElem hk, List.getElem?_eq_getElem hk']

/-- C12: the shown EMSs are the first `obs_num_ems` entries of a list that enumerates every EMS
slot exactly once, by decreasing (float) volume of the active EMSs — inactive slots count as
volume 0 — and by increasing slot number among equal volumes -/
theorem sortedOf_spec (rnd : Rat → Rat) (s : State) (hw : WF s) :
    (sortedOf rnd s).Perm (List.range s.ems.length) ∧
    (sortedOf rnd s).Pairwise (before (fun k => (emsKeys rnd s).getD k 0)) := by
  unfold sortedOf
  refine ⟨?_, argsortDesc_pairwise _⟩
  have := argsortDesc_perm (emsKeys rnd s)
  rwa [emsKeys_length rnd s hw] at this

theorem observe_emsMask (cfg : Cfg) (rnd : Rat → Rat) (s : State) (hw : WF s) :
    (observe cfg rnd s).emsMask = ((sortedOf rnd s).take cfg.obsNum).map (fun k => s.emsMask.getD k false) := by
  rw [take_eq_map_range _ _ 0, sortedOf_length rnd s hw]
  simp [observe, shownEms, Function.comp_def]

/-- C12: with `normalize_dimensions`, slot `e` of the observation shows the coordinates of the `e`-th
largest EMS, each divided by the container length on its axis; without, the integer coordinates -/
theorem observe_ems_getD (cfg : Cfg) (rnd : Rat → Rat) (s : State) (e : Nat)
    (he : e < min cfg.obsNum s.ems.length) :
    (observe cfg rnd s).ems[e]? = some (
      let k := shownEms rnd s e
      let em := s.ems.getD k default
      let c := s.container
      if cfg.normalize then
        ⟨(em.x1 : Rat) / (c.x2 - c.x1 : Int), (em.x2 : Rat) / (c.x2 - c.x1 : Int),
         (em.y1 : Rat) / (c.y2 - c.y1 : Int), (em.y2 : Rat) / (c.y2 - c.y1 : Int),
         (em.z1 : Rat) / (c.z2 - c.z1 : Int), (em.z2 : Rat) / (c.z2 - c.z1 : Int)⟩
      else ⟨em.x1, em.x2, em.y1, em.y2, em.z1, em.z2⟩) := by
  simp only [observe, List.getElem?_map, List.getElem?_range he, Option.map_some, itemFromSpace]
  cases cfg.normalize <;> simp

theorem observe_items (cfg : Cfg) (rnd : Rat → Rat) (s : State) (i : Nat) (hi : i < s.items.length) :
    (observe cfg rnd s).items[i]? = some (
      let it := s.items.getD i default
      let c := s.container
      if cfg.normalize then
        ⟨(it.xl : Rat) / (c.x2 - c.x1 : Int), (it.yl : Rat) / (c.y2 - c.y1 : Int), (it.zl : Rat) / (c.z2 - c.z1 : Int)⟩
      else ⟨it.xl, it.yl, it.zl⟩) := by
  simp only [observe, List.getElem?_map, List.getElem?_eq_getElem hi, Option.map_some, itemFromSpace,
    List.getD_eq_getElem?_getD, Option.getD_some]
  cases cfg.normalize <;> simp

theorem getD_getD_of_lt (l : List (List Bool)) (e i : Nat) (he : e < l.length) (hi : i < l[e].length) :
    (l.getD e []).getD i false = l[e][i] := by
  simp [List.getD_eq_getElem?_getD, List.getElem?_eq_getElem he, List.getElem?_eq_getElem hi]

theorem completeB_iff (cfg : Cfg) (rnd : Rat → Rat) (s : State) :
    completeB cfg rnd s = true ↔ Complete cfg rnd s := by
  unfold completeB Complete
  constructor
  · intro h e i hl
    have h1 := legalMask_getD cfg rnd s e i
    rw [decide_eq_true hl] at h1
    simp only [Bool.not_eq_true', List.any_eq_false] at h
    have he : e < (legalMask cfg rnd s).length := by
      rw [legalMask_length]; exact Nat.lt_min.mpr ⟨hl.1, hl.2.1⟩
    have hrow := h ((legalMask cfg rnd s)[e]) (List.getElem_mem he)
    have hi : i < ((legalMask cfg rnd s)[e]).length := by
      have := legalMask_row_length cfg rnd s e (by rw [← legalMask_length]; exact he)
      rw [List.getD_eq_getElem?_getD, List.getElem?_eq_getElem he, Option.getD_some] at this
      rw [this]; exact hl.2.2.1
    rw [getD_getD_of_lt _ e i he hi] at h1
    apply hrow
    rw [List.any_eq_true]
    exact ⟨_, List.getElem_mem hi, by rw [h1]; rfl⟩
  · intro h
    simp only [Bool.not_eq_true', List.any_eq_false]
    intro row hrow
    simp only [Bool.not_eq_true, List.any_eq_false]
    intro b hb
    obtain ⟨e, he, rfl⟩ := List.getElem_of_mem hrow
    obtain ⟨i, hi, rfl⟩ := List.getElem_of_mem hb
    have h1 := legalMask_getD cfg rnd s e i
    rw [getD_getD_of_lt _ e i he hi] at h1
    rw [h1]; simp [h e i]

/-! ### whole episodes of legal play -/

/-- `Run cfg rnd s₀ n s`: `s` is reached from `s₀` by `n` legal in-spec actions, each with an EMS
update taken from the relation -/
inductive Run (cfg : Cfg) (rnd : Rat → Rat) : State → Nat → State → Prop
  | nil (s : State) : Run cfg rnd s 0 s
  | snoc {s₀ : State} {n : Nat} {s : State} (e i : Nat) (d : EmsDraw) :
      Run cfg rnd s₀ n s → InSpec cfg s e i → legal cfg rnd s e i → validDraw s e i d →
      Run cfg rnd s₀ (n + 1) (step cfg rnd s e i d).1

theorem legal_step_count (cfg : Cfg) (rnd : Rat → Rat) (s : State) (hw : WF s) (hf : Fresh cfg rnd s)
    (e i : Nat) (hs : InSpec cfg s e i) (d : EmsDraw) (hl : legal cfg rnd s e i) :
    Jx.countTrue (step cfg rnd s e i d).1.itemsPlaced = Jx.countTrue s.itemsPlaced + 1 ∧
    (step cfg rnd s e i d).1.items = s.items := by
  rw [legal_step_fst cfg rnd s hw hf e i hs d hl]
  refine ⟨?_, rfl⟩
  show Jx.countTrue (s.itemsPlaced.set i true) = _
  exact countTrue_set _ _ (by rw [hw.2.2.1]; exact hs.2) hl.2.2.2.1

theorem countTrue_le (l : List Bool) : Jx.countTrue l ≤ l.length := by
  unfold Jx.countTrue; exact List.length_filter_le _ _

theorem countTrue_replicate_false (n : Nat) : Jx.countTrue (List.replicate n false) = 0 := by
  unfold Jx.countTrue; simp

/-- C06 / C11 along a whole episode: from a reset state with fresh caches, every state of legal play
is feasible, has fresh caches, and after `n` steps exactly `n` items are placed -/
theorem run_invariant (cfg : Cfg) (rnd : Rat → Rat) (s₀ : State) (h0 : ResetShape s₀)
    (hf0 : Fresh cfg rnd s₀) (n : Nat) (s : State) (hr : Run cfg rnd s₀ n s) :
    Feasible s ∧ Fresh cfg rnd s ∧ Jx.countTrue s.itemsPlaced = n ∧ s.items = s₀.items := by
  induction hr with
  | nil =>
    refine ⟨reset_feasible _ h0, hf0, ?_, rfl⟩
    rw [h0.2.2.2.2.2.2.2.2.2.1]; exact countTrue_replicate_false _
  | snoc e i d _ hs hl hd ih =>
    obtain ⟨hF, hf, hc, hi⟩ := ih
    have := legal_step_count cfg rnd _ hF.1 hf e i hs d hl
    exact ⟨step_feasible cfg rnd _ hF hf e i hs d hl hd, step_fresh _ _ _ _ _ _, by rw [this.1, hc],
      by rw [this.2, hi]⟩

/-- C11: an episode of legal play has at most as many steps as there are items -/
theorem horizon (cfg : Cfg) (rnd : Rat → Rat) (s₀ : State) (h0 : ResetShape s₀)
    (hf0 : Fresh cfg rnd s₀) (n : Nat) (s : State) (hr : Run cfg rnd s₀ n s) : n ≤ s₀.items.length := by
  obtain ⟨hF, _, hc, hi⟩ := run_invariant cfg rnd s₀ h0 hf0 n s hr
  rw [← hc, ← hi, ← hF.1.2.2.1]; exact countTrue_le _

/-! ### the splitting generator (C10) -/

/-- all sides non-negative -/
def Space.Proper (b : Space) : Prop := b.x1 ≤ b.x2 ∧ b.y1 ≤ b.y2 ∧ b.z1 ≤ b.z2

/-- the boxes `bs` tile the container `c`: proper boxes inside `c`, pairwise non-overlapping, whose
volumes add up to the volume of `c` -/
def Tiles (c : Space) (bs : List Space) : Prop :=
  (∀ b, b ∈ bs → b.Proper ∧ b.isIncluded c = true) ∧
  bs.Pairwise (fun a b => a.intersect b = false) ∧ (bs.map Space.volume).sum = c.volume

/- `cutLo`, `cutHi`, `axLo`, `axHi` (the two halves of a box cut at a coordinate of an axis) are defined in Model.lean -/

/-- the three splitting steps of `RandomGenerator` start from this -/
theorem tiles_base (c : Space) (hc : c.Proper) : Tiles c [c] := by
  refine ⟨?_, by simp, by simp⟩
  intro b hb; simp at hb; subst hb; exact ⟨hc, incl_refl _⟩

theorem cut_facts (ax : Nat) (b : Space) (p : Int) (hb : b.Proper) (h1 : axLo ax b ≤ p) (h2 : p ≤ axHi ax b) :
    (cutLo ax b p).Proper ∧ (cutHi ax b p).Proper ∧ (cutLo ax b p).isIncluded b = true ∧
    (cutHi ax b p).isIncluded b = true ∧ (cutLo ax b p).intersect (cutHi ax b p) = false ∧
    (cutLo ax b p).volume + (cutHi ax b p).volume = b.volume := by
  unfold Space.Proper at *
  rw [incl_iff, incl_iff, inter_false_iff]
  unfold cutLo cutHi axLo axHi at *
  unfold Space.volume
  split <;> simp only [] at * <;> refine ⟨by omega, by omega, by omega, by omega, by omega, ?_⟩ <;> grind

/-- cutting one box of a tiling in two along an axis gives a tiling (`_split_item_once`, and each cut
of `_split_item_multiple_times`) -/
theorem tiles_cut (c : Space) (l₁ l₂ : List Space) (b : Space) (ax : Nat) (p : Int)
    (h : Tiles c (l₁ ++ b :: l₂)) (h1 : axLo ax b ≤ p) (h2 : p ≤ axHi ax b) :
    Tiles c (l₁ ++ cutLo ax b p :: cutHi ax b p :: l₂) := by
  obtain ⟨hin, hpw, hsum⟩ := h
  have hb := hin b (by simp)
  obtain ⟨f1, f2, f3, f4, f5, f6⟩ := cut_facts ax b p hb.1 h1 h2
  refine ⟨?_, ?_, ?_⟩
  · intro x hx
    simp only [List.mem_append, List.mem_cons] at hx
    rcases hx with hx | rfl | rfl | hx
    · exact hin x (by simp [hx])
    · exact ⟨f1, incl_trans _ _ _ f3 hb.2⟩
    · exact ⟨f2, incl_trans _ _ _ f4 hb.2⟩
    · exact hin x (by simp [hx])
  · rw [List.pairwise_append] at hpw ⊢
    obtain ⟨p1, p2, p3⟩ := hpw
    rw [List.pairwise_cons] at p2
    refine ⟨p1, ?_, ?_⟩
    · rw [List.pairwise_cons, List.pairwise_cons]
      refine ⟨?_, ?_, p2.2⟩
      · intro x hx
        simp only [List.mem_cons] at hx
        rcases hx with rfl | hx
        · exact f5
        · exact inter_mono _ _ _ f3 (p2.1 x hx)
      · intro x hx; exact inter_mono _ _ _ f4 (p2.1 x hx)
    · intro x hx y hy
      simp only [List.mem_cons] at hy
      rcases hy with rfl | rfl | hy
      · rw [inter_comm]; exact inter_mono _ _ _ f3 (by rw [inter_comm]; exact p3 x hx b (by simp))
      · rw [inter_comm]; exact inter_mono _ _ _ f4 (by rw [inter_comm]; exact p3 x hx b (by simp))
      · exact p3 x hx y (by simp [hy])
  · simp only [List.map_append, List.map_cons, List.sum_append, List.sum_cons] at hsum ⊢
    omega

/-- removing an empty box from a tiling gives a tiling (`items_mask &= ~items_spaces.is_empty()`) -/
theorem tiles_drop_empty (c : Space) (l₁ l₂ : List Space) (b : Space)
    (h : Tiles c (l₁ ++ b :: l₂)) (he : b.isEmpty = true) : Tiles c (l₁ ++ l₂) := by
  obtain ⟨hin, hpw, hsum⟩ := h
  have hb := (hin b (by simp)).1
  have hv : b.volume = 0 := by
    unfold Space.Proper at hb
    simp only [Space.isEmpty, Bool.or_eq_true, decide_eq_true_eq] at he
    unfold Space.volume
    rcases he with (he | he) | he
    · have : b.x2 - b.x1 = 0 := by omega
      simp [this]
    · have : b.y2 - b.y1 = 0 := by omega
      simp [this]
    · have : b.z2 - b.z1 = 0 := by omega
      simp [this]
  refine ⟨?_, ?_, ?_⟩
  · intro x hx
    simp only [List.mem_append] at hx
    rcases hx with hx | hx
    · exact hin x (by simp [hx])
    · exact hin x (by simp [hx])
  · rw [List.pairwise_append] at hpw ⊢
    obtain ⟨p1, p2, p3⟩ := hpw
    rw [List.pairwise_cons] at p2
    exact ⟨p1, p2.2, fun x hx y hy => p3 x hx y (by simp [hy])⟩
  · simp only [List.map_append, List.map_cons, List.sum_append, List.sum_cons] at hsum ⊢
    omega

theorem perm_sum_int {l l' : List Int} (h : l.Perm l') : l.sum = l'.sum := by
  induction h with
  | nil => rfl
  | cons x _ ih => simp [ih]
  | swap x y l => simp; omega
  | trans _ _ ih1 ih2 => exact ih1.trans ih2

/-- the order of the boxes (the slot `argmin(items_mask)` a new piece is written to) does not matter -/
theorem tiles_perm (c : Space) (l l' : List Space) (h : Tiles c l) (hp : l.Perm l') : Tiles c l' := by
  obtain ⟨hin, hpw, hsum⟩ := h
  refine ⟨fun b hb => hin b (hp.mem_iff.mpr hb), ?_, ?_⟩
  · exact (hp.pairwise_iff (fun {a b} hab => by rw [inter_comm]; exact hab)).mp hpw
  · rw [← hsum]; exact (perm_sum_int (hp.map Space.volume)).symm

end BinPack
