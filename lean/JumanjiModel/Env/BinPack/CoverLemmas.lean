/-
BinPack, C10/C06: from the volume certificate to point-wise exact cover.

`Tiles c bs` (Lemmas.lean) says: proper boxes inside `c`, pairwise non-overlapping, volumes adding up to the
volume of `c`.  Here the counting argument over unit cells is carried out: a box with integer corners is the
disjoint union of the unit cells `[x,x+1)×[y,y+1)×[z,z+1)` with `(x,y,z)` in the half-open box
(`Space.hasCell`); the number of its cells is its volume; the cells of pairwise non-overlapping boxes are
pairwise different and all lie in `c`; as many different cells of `c` as `c` has cells are ALL cells of `c`.
Hence every unit cell of the container lies in exactly one box (`tiles_exact_cover`).

The index-level certificate `PerfectPacking s` that the driver evaluates on the state returned by
`generate_solution` is the list-level `Tiles s.container (placedBoxes s)` (`perfectPacking_iff_tiles`), so
every unit cell of the container is covered by exactly one placed item (`perfectPacking_exact_cover`).
-/
import JumanjiModel.Env.BinPack.Lemmas
set_option linter.unusedVariables false
set_option linter.unusedSimpArgs false
namespace BinPack
open Jm

/-- the unit cell with min-corner `(x, y, z)` -/
abbrev Cell := Int × Int × Int

/-- the unit cell `[x,x+1)×[y,y+1)×[z,z+1)` lies in the box (integer corners: iff its min-corner lies in
the half-open box) -/
def Space.hasCell (b : Space) (p : Cell) : Bool :=
  decide (b.x1 ≤ p.1) && decide (p.1 < b.x2) && decide (b.y1 ≤ p.2.1) && decide (p.2.1 < b.y2) &&
  decide (b.z1 ≤ p.2.2) && decide (p.2.2 < b.z2)

theorem hasCell_iff (b : Space) (p : Cell) : b.hasCell p = true ↔
    b.x1 ≤ p.1 ∧ p.1 < b.x2 ∧ b.y1 ≤ p.2.1 ∧ p.2.1 < b.y2 ∧ b.z1 ≤ p.2.2 ∧ p.2.2 < b.z2 := by
  simp [Space.hasCell, and_assoc]

/-- two boxes that share a unit cell overlap -/
theorem hasCell_disjoint (a b : Space) (h : a.intersect b = false) (p : Cell) (ha : a.hasCell p = true) :
    b.hasCell p = false := by
  cases hb : b.hasCell p
  · rfl
  · exfalso
    rw [hasCell_iff] at ha hb
    rw [inter_false_iff] at h
    omega

theorem hasCell_mono (a c : Space) (h : a.isIncluded c = true) (p : Cell) (ha : a.hasCell p = true) :
    c.hasCell p = true := by
  rw [hasCell_iff] at *; rw [incl_iff] at h; omega

/-! ### the list of unit cells of a box -/

/-- the integers of `[lo, hi)` -/
def cells1 (lo hi : Int) : List Int := (List.range (hi - lo).toNat).map (fun (i : Nat) => lo + (i : Int))

theorem mem_cells1 (lo hi x : Int) : x ∈ cells1 lo hi ↔ lo ≤ x ∧ x < hi := by
  unfold cells1
  rw [List.mem_map]
  constructor
  · rintro ⟨i, hi', rfl⟩
    have := List.mem_range.1 hi'
    omega
  · rintro ⟨h1, h2⟩
    exact ⟨(x - lo).toNat, List.mem_range.2 (by omega), by omega⟩

theorem cells1_length (lo hi : Int) : (cells1 lo hi).length = (hi - lo).toNat := by simp [cells1]

theorem cells1_nodup (lo hi : Int) : (cells1 lo hi).Nodup := by
  unfold cells1 List.Nodup
  rw [List.pairwise_map]
  exact List.Pairwise.imp (fun {a b} (h : a ≠ b) => by omega) List.nodup_range

def Space.cells (b : Space) : List Cell :=
  (cells1 b.x1 b.x2).flatMap fun x => (cells1 b.y1 b.y2).flatMap fun y =>
    (cells1 b.z1 b.z2).map fun z => (x, y, z)

theorem mem_cells (b : Space) (p : Cell) : p ∈ b.cells ↔ b.hasCell p = true := by
  obtain ⟨x, y, z⟩ := p
  unfold Space.cells
  rw [hasCell_iff]
  simp only [List.mem_flatMap, List.mem_map, mem_cells1, Prod.mk.injEq]
  constructor
  · rintro ⟨x', hx, y', hy, z', hz, rfl, rfl, rfl⟩
    exact ⟨hx.1, hx.2, hy.1, hy.2, hz.1, hz.2⟩
  · rintro ⟨h1, h2, h3, h4, h5, h6⟩
    exact ⟨x, ⟨h1, h2⟩, y, ⟨h3, h4⟩, z, ⟨h5, h6⟩, rfl, rfl, rfl⟩

theorem length_flatMap_const {α β} (l : List α) (f : α → List β) (k : Nat) (h : ∀ a, (f a).length = k) :
    (l.flatMap f).length = l.length * k := by
  induction l with
  | nil => simp
  | cons a as ih => simp [List.flatMap_cons, h, ih, Nat.add_mul, Nat.add_comm]

theorem cells_length_nat (b : Space) :
    b.cells.length = (b.x2 - b.x1).toNat * ((b.y2 - b.y1).toNat * (b.z2 - b.z1).toNat) := by
  unfold Space.cells
  rw [length_flatMap_const _ _ ((b.y2 - b.y1).toNat * (b.z2 - b.z1).toNat), cells1_length]
  intro x
  rw [length_flatMap_const _ _ ((b.z2 - b.z1).toNat), cells1_length]
  intro y
  simp [cells1_length]

/-- a proper box has as many unit cells as its volume -/
theorem cells_length (b : Space) (hb : b.Proper) : (b.cells.length : Int) = b.volume := by
  rw [cells_length_nat]
  unfold Space.Proper at hb
  unfold Space.volume
  rw [Int.natCast_mul, Int.natCast_mul, Int.toNat_of_nonneg (by omega), Int.toNat_of_nonneg (by omega),
    Int.toNat_of_nonneg (by omega), Int.mul_assoc]

theorem cells_nodup (b : Space) : b.cells.Nodup := by
  unfold Space.cells List.Nodup
  rw [List.pairwise_flatMap]
  refine ⟨fun x _ => ?_, ?_⟩
  · rw [List.pairwise_flatMap]
    refine ⟨fun y _ => ?_, ?_⟩
    · rw [List.pairwise_map]
      exact List.Pairwise.imp (fun {a b} (h : a ≠ b) => by simp [h]) (cells1_nodup _ _)
    · refine List.Pairwise.imp (fun {a b} (h : a ≠ b) => ?_) (cells1_nodup b.y1 b.y2)
      intro p hp q hq
      obtain ⟨_, _, rfl⟩ := List.mem_map.1 hp
      obtain ⟨_, _, rfl⟩ := List.mem_map.1 hq
      simp [h]
  · refine List.Pairwise.imp (fun {a b} (h : a ≠ b) => ?_) (cells1_nodup b.x1 b.x2)
    intro p hp q hq
    obtain ⟨_, _, hp'⟩ := List.mem_flatMap.1 hp
    obtain ⟨_, _, hq'⟩ := List.mem_flatMap.1 hq
    obtain ⟨_, _, rfl⟩ := List.mem_map.1 hp'
    obtain ⟨_, _, rfl⟩ := List.mem_map.1 hq'
    simp [h]

/-! ### counting -/

/-- pigeonhole: a duplicate-free list inside `C` that is at least as long as `C` contains every element of `C` -/
theorem mem_of_nodup_length {α} [DecidableEq α] (L C : List α) (hL : L.Nodup) (hsub : ∀ p ∈ L, p ∈ C)
    (hlen : C.length ≤ L.length) : ∀ p ∈ C, p ∈ L := by
  intro p hp
  apply Classical.byContradiction
  intro hnot
  have hsub' : L ⊆ C.erase p := by
    intro q hq
    have hne : q ≠ p := fun e => hnot (e ▸ hq)
    exact (List.mem_erase_of_ne hne).2 (hsub q hq)
  have h1 := hL.length_le_of_subset hsub'
  rw [List.length_erase_of_mem hp] at h1
  have : 0 < C.length := List.length_pos_of_mem hp
  omega

theorem allCells_length (bs : List Space) (h : ∀ b ∈ bs, b.Proper) :
    ((bs.flatMap Space.cells).length : Int) = (bs.map Space.volume).sum := by
  induction bs with
  | nil => simp
  | cons b bs ih =>
    rw [List.flatMap_cons, List.length_append, Int.natCast_add, cells_length b (h b (by simp)),
      ih (fun b' hb' => h b' (by simp [hb']))]
    simp

theorem allCells_nodup (bs : List Space) (h : bs.Pairwise (fun a b => a.intersect b = false)) :
    (bs.flatMap Space.cells).Nodup := by
  unfold List.Nodup
  rw [List.pairwise_flatMap]
  refine ⟨fun b _ => cells_nodup b, ?_⟩
  refine List.Pairwise.imp (fun {a b} (hab : a.intersect b = false) => ?_) h
  intro p hp q hq hpq
  subst hpq
  have := hasCell_disjoint a b hab p ((mem_cells a p).1 hp)
  rw [(mem_cells b p).1 hq] at this
  exact Bool.noConfusion this

/-- number of boxes of `bs` that contain the unit cell `p` -/
def coverCount (bs : List Space) (p : Cell) : Nat := bs.countP (fun b => b.hasCell p)

theorem coverCount_eq_one (bs : List Space) (h : bs.Pairwise (fun a b => a.intersect b = false)) (p : Cell)
    (hex : ∃ b ∈ bs, b.hasCell p = true) : coverCount bs p = 1 := by
  unfold coverCount
  induction bs with
  | nil => obtain ⟨b, hb, _⟩ := hex; simp at hb
  | cons a as ih =>
    rw [List.pairwise_cons] at h
    rw [List.countP_cons]
    by_cases ha : a.hasCell p = true
    · have : as.countP (fun b => b.hasCell p) = 0 := by
        rw [List.countP_eq_zero]
        intro b hb
        rw [hasCell_disjoint a b (h.1 b hb) p ha]
        exact Bool.noConfusion
      rw [this, ha]; rfl
    · obtain ⟨b, hb, hbp⟩ := hex
      have hb' : b ∈ as := by
        rcases List.mem_cons.1 hb with rfl | hb'
        · exact absurd hbp ha
        · exact hb'
      rw [ih h.2 ⟨b, hb', hbp⟩]
      simp [ha]

/-- C10, point-wise exact cover: in a tiling every unit cell of the container lies in exactly one box … -/
theorem tiles_exact_cover (c : Space) (bs : List Space) (h : Tiles c bs) (p : Cell) (hp : c.hasCell p = true) :
    coverCount bs p = 1 := by
  obtain ⟨hin, hpw, hsum⟩ := h
  have hcp : c.Proper := by
    rw [hasCell_iff] at hp; unfold Space.Proper; omega
  apply coverCount_eq_one bs hpw p
  have hlen : c.cells.length ≤ (bs.flatMap Space.cells).length := by
    have h1 := allCells_length bs (fun b hb => (hin b hb).1)
    have h2 := cells_length c hcp
    omega
  have hsub : ∀ q ∈ bs.flatMap Space.cells, q ∈ c.cells := by
    intro q hq
    obtain ⟨b, hb, hqb⟩ := List.mem_flatMap.1 hq
    exact (mem_cells c q).2 (hasCell_mono b c (hin b hb).2 q ((mem_cells b q).1 hqb))
  have := mem_of_nodup_length _ _ (allCells_nodup bs hpw) hsub hlen p ((mem_cells c p).2 hp)
  obtain ⟨b, hb, hpb⟩ := List.mem_flatMap.1 this
  exact ⟨b, hb, (mem_cells b p).1 hpb⟩

/-- … and a unit cell outside the container lies in none -/
theorem tiles_outside (c : Space) (bs : List Space) (h : Tiles c bs) (p : Cell) (hp : c.hasCell p = false) :
    coverCount bs p = 0 := by
  unfold coverCount
  rw [List.countP_eq_zero]
  intro b hb hbp
  have := hasCell_mono b c (h.1 b hb).2 p hbp
  rw [hp] at this
  exact Bool.noConfusion this

/-- the same, as existence and uniqueness of the covering box's position in the list -/
theorem tiles_exists_unique (c : Space) (bs : List Space) (h : Tiles c bs) (p : Cell) (hp : c.hasCell p = true) :
    ∃ k, (∃ hk : k < bs.length, bs[k].hasCell p = true) ∧
      ∀ k', (∃ hk : k' < bs.length, bs[k'].hasCell p = true) → k' = k := by
  have h1 := tiles_exact_cover c bs h p hp
  have hpos : 0 < coverCount bs p := by omega
  unfold coverCount at hpos
  rw [List.countP_pos_iff] at hpos
  obtain ⟨b, hb, hbp⟩ := hpos
  obtain ⟨k, hk, rfl⟩ := List.getElem_of_mem hb
  refine ⟨k, ⟨hk, hbp⟩, ?_⟩
  rintro k' ⟨hk', hbp'⟩
  apply Classical.byContradiction
  intro hne
  have hpw := List.pairwise_iff_getElem.1 h.2.1
  rcases Nat.lt_or_gt_of_ne hne with hlt | hgt
  · have := hasCell_disjoint _ _ (hpw k' k hk' hk hlt) p hbp'
    rw [hbp] at this; exact Bool.noConfusion this
  · have := hasCell_disjoint _ _ (hpw k k' hk hk' hgt) p hbp
    rw [hbp'] at this; exact Bool.noConfusion this

/-! ### the index-level certificate `PerfectPacking` is the list-level `Tiles` -/

/-- the boxes occupied by the placed items, in index order -/
def placedBoxes (s : State) : List Space :=
  ((List.range s.items.length).filter (fun i => s.itemsPlaced.getD i false)).map (placedSpace s)

/-- placed items have non-negative sides (implied by `ItemsPositive` on the present items) -/
def PlacedNonneg (s : State) : Prop :=
  ∀ i, i < s.items.length → s.itemsPlaced.getD i false = true →
    0 ≤ (s.items.getD i default).xl ∧ 0 ≤ (s.items.getD i default).yl ∧ 0 ≤ (s.items.getD i default).zl

instance (s : State) : Decidable (PlacedNonneg s) := by unfold PlacedNonneg; infer_instance

theorem placedNonneg_of_positive (s : State) (hp : ItemsPositive s) (hm : s.itemsPlaced = s.itemsMask) :
    PlacedNonneg s := by
  intro i hi hpl
  rw [hm] at hpl
  obtain ⟨h1, h2, h3⟩ := hp i hi hpl
  omega

theorem mem_placedBoxes (s : State) (b : Space) : b ∈ placedBoxes s ↔
    ∃ i, i < s.items.length ∧ s.itemsPlaced.getD i false = true ∧ placedSpace s i = b := by
  unfold placedBoxes
  simp only [List.mem_map, List.mem_filter, List.mem_range]
  constructor
  · rintro ⟨i, ⟨hi, hp⟩, rfl⟩; exact ⟨i, hi, hp, rfl⟩
  · rintro ⟨i, hi, hp, rfl⟩; exact ⟨i, ⟨hi, hp⟩, rfl⟩

theorem placedSpace_volume (s : State) (i : Nat) : (placedSpace s i).volume = (s.items.getD i default).volume := by
  unfold placedSpace spaceFrom Space.volume Item.volume
  have e : ∀ a b : Int, a + b - a = b := fun a b => by omega
  simp only [e]

theorem placedSpace_proper (s : State) (i : Nat) : (placedSpace s i).Proper ↔
    0 ≤ (s.items.getD i default).xl ∧ 0 ≤ (s.items.getD i default).yl ∧ 0 ≤ (s.items.getD i default).zl := by
  unfold placedSpace spaceFrom Space.Proper
  simp only []
  omega

theorem sum_filter_map (l : List Nat) (p : Nat → Bool) (f : Nat → Int) :
    ((l.filter p).map f).sum = (l.map (fun i => if p i then f i else 0)).sum := by
  induction l with
  | nil => rfl
  | cons a as ih =>
    by_cases h : p a = true
    · simp [List.filter_cons, h, ih]
    · simp [List.filter_cons, h, ih]

theorem placedBoxes_volume (s : State) : ((placedBoxes s).map Space.volume).sum = placedVolume s := by
  unfold placedBoxes placedVolume
  rw [List.map_map, sum_filter_map]
  apply congrArg
  apply List.map_congr_left
  intro i _
  simp only [Function.comp]
  rw [placedSpace_volume]

theorem placedBoxes_pairwise (s : State) :
    (placedBoxes s).Pairwise (fun a b => a.intersect b = false) ↔
    ∀ i, i < s.items.length → ∀ j, j < s.items.length → i < j → s.itemsPlaced.getD i false = true →
      s.itemsPlaced.getD j false = true → (placedSpace s i).intersect (placedSpace s j) = false := by
  unfold placedBoxes
  rw [List.pairwise_map, List.pairwise_filter, List.pairwise_iff_getElem]
  simp only [List.length_range, List.getElem_range]
  constructor
  · intro h i hi j hj hij hpi hpj; exact h i j hi hj hij hpi hpj
  · intro h i j hi hj hij hpi hpj; exact h i hi j hj hij hpi hpj

/-- the link: under `PlacedNonneg`, "items inside ∧ pairwise disjoint ∧ volumes add up" at index level is
exactly the list-level `Tiles` of the placed boxes -/
theorem itemsFeasible_iff_tiles (s : State) :
    (PlacedNonneg s ∧ ItemsFeasible s ∧ placedVolume s = s.container.volume) ↔
      Tiles s.container (placedBoxes s) := by
  unfold Tiles
  rw [placedBoxes_volume, placedBoxes_pairwise]
  constructor
  · rintro ⟨hnn, ⟨hin, hdis⟩, hv⟩
    refine ⟨?_, ?_, hv⟩
    · intro b hb
      obtain ⟨i, hi, hp, rfl⟩ := (mem_placedBoxes s b).1 hb
      exact ⟨(placedSpace_proper s i).2 (hnn i hi hp), hin i hi hp⟩
    · intro i hi j hj hij hpi hpj
      exact hdis i hi j hj (by omega) hpi hpj
  · rintro ⟨hmem, hpw, hv⟩
    refine ⟨?_, ⟨?_, ?_⟩, hv⟩
    · intro i hi hp
      exact (placedSpace_proper s i).1 (hmem _ ((mem_placedBoxes s _).2 ⟨i, hi, hp, rfl⟩)).1
    · intro i hi hp
      exact (hmem _ ((mem_placedBoxes s _).2 ⟨i, hi, hp, rfl⟩)).2
    · intro i hi j hj hne hpi hpj
      rcases Nat.lt_or_gt_of_ne hne with hlt | hgt
      · exact hpw i hi j hj hlt hpi hpj
      · rw [inter_comm]; exact hpw j hj i hi hgt hpj hpi

/-- C10: the certificate the driver checks on `generate_solution` is a tiling of the container -/
theorem perfectPacking_iff_tiles (s : State) :
    (PerfectPacking s ∧ PlacedNonneg s) ↔
      (WF s ∧ s.itemsPlaced = s.itemsMask ∧ Tiles s.container (placedBoxes s)) := by
  rw [← itemsFeasible_iff_tiles]
  unfold PerfectPacking
  constructor
  · rintro ⟨⟨h1, h2, h3, h4⟩, h5⟩; exact ⟨h1, h2, h5, h3, h4⟩
  · rintro ⟨h1, h2, h5, h3, h4⟩; exact ⟨⟨h1, h2, h3, h4⟩, h5⟩

/-- C10/C06, point-wise exact cover at index level: in a perfect packing every unit cell of the container
lies in exactly one placed item -/
theorem perfectPacking_exact_cover (s : State) (hp : PerfectPacking s) (hnn : PlacedNonneg s) (p : Cell)
    (hc : s.container.hasCell p = true) :
    ∃ i, (i < s.items.length ∧ s.itemsPlaced.getD i false = true ∧ (placedSpace s i).hasCell p = true) ∧
      ∀ j, (j < s.items.length ∧ s.itemsPlaced.getD j false = true ∧ (placedSpace s j).hasCell p = true) →
        j = i := by
  have ht := ((perfectPacking_iff_tiles s).1 ⟨hp, hnn⟩).2.2
  have h1 := tiles_exact_cover _ _ ht p hc
  have hpos : 0 < coverCount (placedBoxes s) p := by omega
  unfold coverCount at hpos
  rw [List.countP_pos_iff] at hpos
  obtain ⟨b, hb, hbp⟩ := hpos
  obtain ⟨i, hi, hpi, rfl⟩ := (mem_placedBoxes s b).1 hb
  refine ⟨i, ⟨hi, hpi, hbp⟩, ?_⟩
  rintro j ⟨hj, hpj, hjp⟩
  apply Classical.byContradiction
  intro hne
  have := hasCell_disjoint _ _ (hp.2.2.1.2 j hj i hi hne hpj hpi) p hjp
  rw [hbp] at this; exact Bool.noConfusion this

/-- and no unit cell outside the container lies in a placed item -/
theorem perfectPacking_outside (s : State) (hp : PerfectPacking s) (p : Cell)
    (hc : s.container.hasCell p = false) (i : Nat) (hi : i < s.items.length)
    (hpi : s.itemsPlaced.getD i false = true) : (placedSpace s i).hasCell p = false := by
  cases h : (placedSpace s i).hasCell p
  · rfl
  · have := hasCell_mono _ _ (hp.2.2.1.1 i hi hpi) p h
    rw [hc] at this; exact Bool.noConfusion this

end BinPack
