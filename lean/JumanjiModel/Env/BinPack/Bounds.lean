/-
BinPack: proved value bounds of the observation (property C01).

`obsBounds cfg dm` = the interval in which every leaf of the model's observation provably stays (keys =
the leaf paths of `BinPack.observation_spec`; `dm` = the generator's `container_dims`); `obsLeaves` =
the observation flattened to those leaves.  Per axis the EMS coordinates and the item side lengths lie
in `[0, container side]` (raw observation) resp. `[0, 1]` (`normalize_dimensions`); the declared spec
has `[0, max(container_dims)]` resp. `[0, 1]`.

The observation shows EMS slots whether or not they are active, and `EmsRel` (the relation of the
R-model) only speaks about ACTIVE slots of the successor buffer.  The bounds therefore need a relation
on ALL slots, `EmsRelAll`: every slot of the successor buffer still holds what it held before, or was
overwritten (`_add_ems`) with a NON-EMPTY cut `hyperplane(item, axis, dir) ∩ e` of an old slot `e`
(`_get_intersections_dict` masks empty cuts out).  A non-empty cut of a space inside the box is inside
the box wherever the item is, so no hypothesis on the action is needed.

`BoundsInv dm s` (container = `[0,cx]×[0,cy]×[0,cz]`, every EMS slot inside it, every item not larger
than it) is the invariant: established by `reset` (any items that fit), preserved by every `step`
whose draw is in `EmsRelAll`.
-/
import JumanjiModel.Env.BinPack.Lemmas
import JumanjiModel.Core.ObsBoundsCO
namespace BinPack
open Jm Jm.OB

/-- `generator.container_dims` -/
structure Dims where
  cx : Int
  cy : Int
  cz : Int
  deriving Repr, DecidableEq

/-- upper end of a length leaf on an axis of container length `c` -/
def hiOf (norm : Bool) (c : Int) : Option Rat := some (if norm then 1 else (c : Rat))

/-- proved intervals -/
def obsBounds (cfg : Cfg) (dm : Dims) : Table :=
  [("ems.x1", some 0, hiOf cfg.normalize dm.cx), ("ems.x2", some 0, hiOf cfg.normalize dm.cx),
   ("ems.y1", some 0, hiOf cfg.normalize dm.cy), ("ems.y2", some 0, hiOf cfg.normalize dm.cy),
   ("ems.z1", some 0, hiOf cfg.normalize dm.cz), ("ems.z2", some 0, hiOf cfg.normalize dm.cz),
   ("ems_mask", some 0, some 1),
   ("items.x_len", some 0, hiOf cfg.normalize dm.cx), ("items.y_len", some 0, hiOf cfg.normalize dm.cy),
   ("items.z_len", some 0, hiOf cfg.normalize dm.cz),
   ("items_mask", some 0, some 1), ("items_placed", some 0, some 1), ("action_mask", some 0, some 1)]

def obsLeaves (o : Obs) : Leaves :=
  [("ems.x1", o.ems.map (·.x1)), ("ems.x2", o.ems.map (·.x2)),
   ("ems.y1", o.ems.map (·.y1)), ("ems.y2", o.ems.map (·.y2)),
   ("ems.z1", o.ems.map (·.z1)), ("ems.z2", o.ems.map (·.z2)),
   ("ems_mask", o.emsMask.map b2r),
   ("items.x_len", o.items.map (·.xl)), ("items.y_len", o.items.map (·.yl)), ("items.z_len", o.items.map (·.zl)),
   ("items_mask", o.itemsMask.map b2r), ("items_placed", o.itemsPlaced.map b2r),
   ("action_mask", o.actionMask.flatten.map b2r)]

/-! ### reset -/

def boxOf (dm : Dims) : Space := ⟨0, dm.cx, 0, dm.cy, 0, dm.cz⟩

/-- `BinPack.reset` with any of the shipped generators (`make_container`, `[container] + (max_num_ems-1) *
[empty_ems()]`, `_unpack_items`): the items and their mask are draw parameters -/
def reset (cfg : Cfg) (rnd : Rat → Rat) (dm : Dims) (maxEms : Nat) (items : List Item) (itemsMask : List Bool) :
    State × TimeStep Obs :=
  let s0 : State :=
    { container := boxOf dm
      ems := boxOf dm :: List.replicate (maxEms - 1) ⟨0, 0, 0, 0, 0, 0⟩
      emsMask := true :: List.replicate (maxEms - 1) false
      items := items, itemsMask := itemsMask
      itemsPlaced := List.replicate items.length false
      itemsLoc := List.replicate items.length ⟨0, 0, 0⟩
      actionMask := [], sortedIdx := [] }
  let so := makeObs cfg rnd s0
  (so.1, restart so.2)

def ItemFits (dm : Dims) (it : Item) : Prop :=
  0 ≤ it.xl ∧ it.xl ≤ dm.cx ∧ 0 ≤ it.yl ∧ it.yl ≤ dm.cy ∧ 0 ≤ it.zl ∧ it.zl ≤ dm.cz

instance (dm : Dims) (it : Item) : Decidable (ItemFits dm it) := by unfold ItemFits; infer_instance

/-- what the generators produce: a container with POSITIVE sides (with a zero side the normalised observation
of the code is 0/0 = nan, while Lean's `x / 0 = 0` would make the bounds hold vacuously; audit r1 entry 17) and `n`
items (present or padding), none larger than the container on any axis -/
def validReset (dm : Dims) (n : Nat) (items : List Item) (itemsMask : List Bool) : Prop :=
  0 < dm.cx ∧ 0 < dm.cy ∧ 0 < dm.cz ∧ items.length = n ∧ itemsMask.length = n ∧ ∀ it ∈ items, ItemFits dm it

instance (dm : Dims) (n : Nat) (items : List Item) (m : List Bool) : Decidable (validReset dm n items m) := by
  unfold validReset; infer_instance

/-! ### the relation on all slots of the successor EMS buffer, and the invariant -/

/-- every slot `j` of the successor buffer holds the old slot `j`, or a non-empty cut of some old slot -/
def EmsRelAll (old : List Space) (it : Space) (d : EmsDraw) : Prop :=
  ∀ j, j < d.ems.length →
    d.ems.getD j default = old.getD j default ∨
    ∃ k, k < old.length ∧ ∃ dir, dir ∈ Dir.all ∧
      d.ems.getD j default = hyperInter it dir (old.getD k default) ∧ (d.ems.getD j default).isEmpty = false

instance (old : List Space) (it : Space) (d : EmsDraw) : Decidable (EmsRelAll old it d) := by
  unfold EmsRelAll; infer_instance

/-- the draw is admissible (all slots) for the action `(e, i)` in `s` -/
def validDrawAll (s : State) (e i : Int) (d : EmsDraw) : Prop := EmsRelAll s.ems (newItemSpace s e i) d

instance (s : State) (e i : Int) (d : EmsDraw) : Decidable (validDrawAll s e i d) := by
  unfold validDrawAll; infer_instance

def InBox (dm : Dims) (e : Space) : Prop :=
  0 ≤ e.x1 ∧ e.x1 ≤ dm.cx ∧ 0 ≤ e.x2 ∧ e.x2 ≤ dm.cx ∧ 0 ≤ e.y1 ∧ e.y1 ≤ dm.cy ∧ 0 ≤ e.y2 ∧ e.y2 ≤ dm.cy ∧
  0 ≤ e.z1 ∧ e.z1 ≤ dm.cz ∧ 0 ≤ e.z2 ∧ e.z2 ≤ dm.cz

instance (dm : Dims) (e : Space) : Decidable (InBox dm e) := by unfold InBox; infer_instance

/-- the bounds invariant -/
def BoundsInv (dm : Dims) (s : State) : Prop :=
  s.container = boxOf dm ∧ 0 ≤ dm.cx ∧ 0 ≤ dm.cy ∧ 0 ≤ dm.cz ∧
  (∀ e ∈ s.ems, InBox dm e) ∧ (∀ it ∈ s.items, ItemFits dm it)

instance (dm : Dims) (s : State) : Decidable (BoundsInv dm s) := by unfold BoundsInv; infer_instance

/-! ### proofs -/

theorem inBox_default (dm : Dims) (hx : 0 ≤ dm.cx) (hy : 0 ≤ dm.cy) (hz : 0 ≤ dm.cz) : InBox dm default := by
  show InBox dm ⟨0, 0, 0, 0, 0, 0⟩
  simp [InBox]; omega

theorem getD_inBox (dm : Dims) (hx : 0 ≤ dm.cx) (hy : 0 ≤ dm.cy) (hz : 0 ≤ dm.cz) (l : List Space)
    (h : ∀ e ∈ l, InBox dm e) (k : Nat) : InBox dm (l.getD k default) := by
  by_cases hk : k < l.length
  · have : l.getD k default = l[k] := by simp [List.getD_eq_getElem?_getD, hk]
    rw [this]; exact h _ (List.getElem_mem hk)
  · have : l.getD k default = default := by
      simp [List.getD_eq_getElem?_getD, List.getElem?_eq_none (Nat.le_of_not_lt hk)]
    rw [this]; exact inBox_default dm hx hy hz

/-- a non-empty cut of a space inside the box is inside the box (wherever the item is) -/
theorem hyperInter_inBox (dm : Dims) (it e : Space) (dir : Dir) (he : InBox dm e)
    (hne : (hyperInter it dir e).isEmpty = false) : InBox dm (hyperInter it dir e) := by
  unfold InBox at *
  cases dir <;> simp [hyperInter, Space.isEmpty] at hne ⊢ <;> omega

theorem emsRelAll_inBox (dm : Dims) (hx : 0 ≤ dm.cx) (hy : 0 ≤ dm.cy) (hz : 0 ≤ dm.cz) (old : List Space)
    (it : Space) (d : EmsDraw) (h : ∀ e ∈ old, InBox dm e) (hr : EmsRelAll old it d) : ∀ e ∈ d.ems, InBox dm e := by
  intro e he
  obtain ⟨j, hj, rfl⟩ := List.getElem_of_mem he
  have := hr j hj
  have hg : d.ems.getD j default = d.ems[j] := by simp [List.getD_eq_getElem?_getD, hj]
  rw [hg] at this
  rcases this with h1 | ⟨k, _, dir, _, h2, h3⟩
  · rw [h1]; exact getD_inBox dm hx hy hz old h j
  · rw [h2] at h3 ⊢; exact hyperInter_inBox dm it _ dir (getD_inBox dm hx hy hz old h k) h3

theorem makeObs_inv (cfg : Cfg) (rnd : Rat → Rat) (dm : Dims) (s : State) (h : BoundsInv dm s) :
    BoundsInv dm (makeObs cfg rnd s).1 := by rw [makeObs_fst]; exact h

theorem step_inv (cfg : Cfg) (rnd : Rat → Rat) (dm : Dims) (s : State) (e i : Int) (d : EmsDraw)
    (h : BoundsInv dm s) (hd : stepValid s e i = true → validDrawAll s e i d) :
    BoundsInv dm (step cfg rnd s e i d).1 := by
  rw [step_fst]; apply makeObs_inv
  split
  · rename_i hv
    obtain ⟨hc, hx, hy, hz, he, hi⟩ := h
    exact ⟨hc, hx, hy, hz, emsRelAll_inBox dm hx hy hz s.ems _ d he (hd hv), hi⟩
  · exact h

theorem reset_inv (cfg : Cfg) (rnd : Rat → Rat) (dm : Dims) (maxEms n : Nat) (items : List Item)
    (itemsMask : List Bool) (h : validReset dm n items itemsMask) :
    BoundsInv dm (reset cfg rnd dm maxEms items itemsMask).1 := by
  obtain ⟨hx, hy, hz, _, _, hi⟩ := h
  have hx := Int.le_of_lt hx; have hy := Int.le_of_lt hy; have hz := Int.le_of_lt hz
  show BoundsInv dm (makeObs cfg rnd _).1
  apply makeObs_inv
  refine ⟨rfl, hx, hy, hz, ?_, hi⟩
  intro e he
  rcases List.mem_cons.mp he with rfl | he
  · simp [InBox, boxOf]; omega
  · rw [List.eq_of_mem_replicate he]; exact inBox_default dm hx hy hz

/-- `a / c` (normalised) resp. `a` (raw) for an integer `0 ≤ a ≤ c` -/
theorem scaled_in (norm : Bool) (a c : Int) (h0 : 0 ≤ a) (h1 : a ≤ c) :
    inIv (some 0) (hiOf norm c) (if norm then (a : Rat) / (c : Rat) else (a : Rat)) := by
  cases norm
  · simp only [inIv, hiOf, Bool.false_eq_true, if_false]
    exact ⟨Rat.intCast_nonneg.mpr h0, Rat.intCast_le_intCast.mpr h1⟩
  · simp only [inIv, hiOf, if_true]
    by_cases hc : c = 0
    · have : a = 0 := by omega
      subst hc; subst this; simp [Rat.div_def]; decide
    · have hcp : (0 : Rat) < (c : Rat) := Rat.intCast_pos.mpr (by omega)
      have hinv : (0 : Rat) ≤ (c : Rat)⁻¹ := Rat.le_of_lt (Rat.inv_pos.mpr hcp)
      rw [Rat.div_def]
      refine ⟨Rat.mul_nonneg (Rat.intCast_nonneg.mpr h0) hinv, ?_⟩
      have := Rat.mul_le_mul_of_nonneg_right (Rat.intCast_le_intCast.mpr h1) hinv
      rwa [Rat.mul_inv_cancel _ (by intro h; rw [h] at hcp; exact absurd hcp (by decide))] at this

theorem obsEms_inBox (cfg : Cfg) (rnd : Rat → Rat) (dm : Dims) (s : State) (h : BoundsInv dm s) :
    ∀ e ∈ obsEms cfg rnd s, InBox dm e := by
  intro e he
  obtain ⟨_, hx, hy, hz, hems, _⟩ := h
  simp only [obsEms, List.mem_map] at he
  obtain ⟨k, _, rfl⟩ := he
  exact getD_inBox dm hx hy hz s.ems hems k

/-- the EMS part of the observation as one map over the shown EMSs -/
def emsQ (norm : Bool) (c : Space) (e : Space) : SpaceQ := if norm then normSpace c e else e.toQ
def itemQ (norm : Bool) (c : Space) (i : Item) : ItemQ := if norm then normItem c i else i.toQ

theorem makeObs_ems (cfg : Cfg) (rnd : Rat → Rat) (s : State) :
    (makeObs cfg rnd s).2.ems = (obsEms cfg rnd s).map (emsQ cfg.normalize s.container) := by
  simp only [makeObs]; cases cfg.normalize <;> simp [emsQ]

theorem makeObs_items (cfg : Cfg) (rnd : Rat → Rat) (s : State) :
    (makeObs cfg rnd s).2.items = s.items.map (itemQ cfg.normalize s.container) := by
  simp only [makeObs]; cases cfg.normalize <;> simp [itemQ]

theorem map_in {α β} (l : List α) (g : α → β) (f : β → Rat) (lo hi : Option Rat)
    (h : ∀ a ∈ l, inIv lo hi (f (g a))) : ∀ v ∈ (l.map g).map f, inIv lo hi v := by
  intro v hv
  simp only [List.map_map, List.mem_map, Function.comp] at hv
  obtain ⟨a, ha, rfl⟩ := hv
  exact h a ha

theorem emsQ_coords (norm : Bool) (dm : Dims) (e : Space) (h : InBox dm e) :
    inIv (some 0) (hiOf norm dm.cx) (emsQ norm (boxOf dm) e).x1 ∧ inIv (some 0) (hiOf norm dm.cx) (emsQ norm (boxOf dm) e).x2 ∧
    inIv (some 0) (hiOf norm dm.cy) (emsQ norm (boxOf dm) e).y1 ∧ inIv (some 0) (hiOf norm dm.cy) (emsQ norm (boxOf dm) e).y2 ∧
    inIv (some 0) (hiOf norm dm.cz) (emsQ norm (boxOf dm) e).z1 ∧ inIv (some 0) (hiOf norm dm.cz) (emsQ norm (boxOf dm) e).z2 := by
  obtain ⟨a1, a2, a3, a4, a5, a6, a7, a8, a9, a10, a11, a12⟩ := h
  have X1 := scaled_in norm e.x1 dm.cx a1 a2
  have X2 := scaled_in norm e.x2 dm.cx a3 a4
  have Y1 := scaled_in norm e.y1 dm.cy a5 a6
  have Y2 := scaled_in norm e.y2 dm.cy a7 a8
  have Z1 := scaled_in norm e.z1 dm.cz a9 a10
  have Z2 := scaled_in norm e.z2 dm.cz a11 a12
  cases norm <;>
    simpa [emsQ, normSpace, Space.toQ, itemFromSpace, boxOf] using ⟨X1, X2, Y1, Y2, Z1, Z2⟩

theorem itemQ_coords (norm : Bool) (dm : Dims) (it : Item) (h : ItemFits dm it) :
    inIv (some 0) (hiOf norm dm.cx) (itemQ norm (boxOf dm) it).xl ∧ inIv (some 0) (hiOf norm dm.cy) (itemQ norm (boxOf dm) it).yl ∧
    inIv (some 0) (hiOf norm dm.cz) (itemQ norm (boxOf dm) it).zl := by
  obtain ⟨a1, a2, a3, a4, a5, a6⟩ := h
  have X := scaled_in norm it.xl dm.cx a1 a2
  have Y := scaled_in norm it.yl dm.cy a3 a4
  have Z := scaled_in norm it.zl dm.cz a5 a6
  cases norm <;>
    simpa [itemQ, normItem, Item.toQ, itemFromSpace, boxOf] using ⟨X, Y, Z⟩

/-- the observation `_make_observation_and_extras` builds from a state with the invariant is in bounds -/
theorem makeObs_in_bounds (cfg : Cfg) (rnd : Rat → Rat) (dm : Dims) (s : State) (h : BoundsInv dm s) :
    InBounds (obsBounds cfg dm) (obsLeaves (makeObs cfg rnd s).2) := by
  have hE := obsEms_inBox cfg rnd dm s h
  have hc : s.container = boxOf dm := h.1
  have hI := h.2.2.2.2.2
  have E := fun e he => emsQ_coords cfg.normalize dm e (hE e he)
  have I := fun it hit => itemQ_coords cfg.normalize dm it (hI it hit)
  unfold obsBounds obsLeaves
  rw [makeObs_ems, makeObs_items, hc]
  refine inBounds_cons _ _ _ _ _ _ rfl (map_in _ _ _ _ _ fun e he => (E e he).1) <|
    inBounds_cons _ _ _ _ _ _ rfl (map_in _ _ _ _ _ fun e he => (E e he).2.1) <|
    inBounds_cons _ _ _ _ _ _ rfl (map_in _ _ _ _ _ fun e he => (E e he).2.2.1) <|
    inBounds_cons _ _ _ _ _ _ rfl (map_in _ _ _ _ _ fun e he => (E e he).2.2.2.1) <|
    inBounds_cons _ _ _ _ _ _ rfl (map_in _ _ _ _ _ fun e he => (E e he).2.2.2.2.1) <|
    inBounds_cons _ _ _ _ _ _ rfl (map_in _ _ _ _ _ fun e he => (E e he).2.2.2.2.2) <|
    inBounds_cons _ _ _ _ _ _ rfl (bools_in01 _) <|
    inBounds_cons _ _ _ _ _ _ rfl (map_in _ _ _ _ _ fun e he => (I e he).1) <|
    inBounds_cons _ _ _ _ _ _ rfl (map_in _ _ _ _ _ fun e he => (I e he).2.1) <|
    inBounds_cons _ _ _ _ _ _ rfl (map_in _ _ _ _ _ fun e he => (I e he).2.2) <|
    inBounds_cons _ _ _ _ _ _ rfl (bools_in01 _) <|
    inBounds_cons _ _ _ _ _ _ rfl (bools_in01 _) <|
    inBounds_cons _ _ _ _ _ _ rfl (bools_in01 _) <| inBounds_nil _

theorem step_obs (cfg : Cfg) (rnd : Rat → Rat) (s : State) (e i : Int) (d : EmsDraw) :
    (step cfg rnd s e i d).2.obs =
      (makeObs cfg rnd (if stepValid s e i then packItem s (Jx.getWC s.sortedIdx 0 e) i d else s)).2 := by
  show (condLast _ _ _).obs = _
  rw [Jm.OB.condLast_obs]; rfl

theorem mid_inv (dm : Dims) (s : State) (e i : Int) (d : EmsDraw)
    (h : BoundsInv dm s) (hd : stepValid s e i = true → validDrawAll s e i d) :
    BoundsInv dm (if stepValid s e i then packItem s (Jx.getWC s.sortedIdx 0 e) i d else s) := by
  split
  · rename_i hv
    obtain ⟨hc, hx, hy, hz, he, hi⟩ := h
    exact ⟨hc, hx, hy, hz, emsRelAll_inBox dm hx hy hz s.ems _ d he (hd hv), hi⟩
  · exact h

theorem reset_obs_in_bounds (cfg : Cfg) (rnd : Rat → Rat) (dm : Dims) (maxEms n : Nat) (items : List Item)
    (itemsMask : List Bool) (h : validReset dm n items itemsMask) :
    InBounds (obsBounds cfg dm) (obsLeaves (reset cfg rnd dm maxEms items itemsMask).2.obs) := by
  obtain ⟨hx, hy, hz, _, _, hi⟩ := h
  have hx := Int.le_of_lt hx; have hy := Int.le_of_lt hy; have hz := Int.le_of_lt hz
  show InBounds _ (obsLeaves (makeObs cfg rnd _).2)
  apply makeObs_in_bounds
  refine ⟨rfl, hx, hy, hz, ?_, hi⟩
  intro e he
  rcases List.mem_cons.mp he with rfl | he
  · simp [InBox, boxOf]; omega
  · rw [List.eq_of_mem_replicate he]; exact inBox_default dm hx hy hz

theorem step_obs_in_bounds (cfg : Cfg) (rnd : Rat → Rat) (dm : Dims) (s : State) (e i : Int) (d : EmsDraw)
    (h : BoundsInv dm s) (hd : stepValid s e i = true → validDrawAll s e i d) :
    InBounds (obsBounds cfg dm) (obsLeaves (step cfg rnd s e i d).2.obs) := by
  rw [step_obs]; exact makeObs_in_bounds cfg rnd dm _ (mid_inv dm s e i d h hd)

end BinPack
