/-
BinPack, audit r1 entry 9: an L2 objective that is INDEPENDENT of the function the L1 reward calls.
`coveredFraction s` = (number of unit cells of the container that lie in some placed item) / (number of unit
cells of the container), counted cell by cell (`Space.cells`, `coverCount`, CoverLemmas.lean).  For a feasible
packing it equals `utilisation s` = Σ placed item volumes / container volume, the quantity `SparseReward` pays
and `DenseReward` telescopes to.
-/
import JumanjiModel.Env.BinPack.CoverLemmas
import JumanjiModel.Env.BinPack.Step1
set_option linter.unusedVariables false
set_option linter.unusedSimpArgs false
namespace BinPack
open Jm

/-- number of unit cells of the container that lie in at least one placed item -/
def coveredCells (s : State) : Nat :=
  (s.container.cells.filter (fun p => decide (0 < coverCount (placedBoxes s) p))).length

/-- L2 objective: the fraction of the container (counted in unit cells) that is filled -/
def coveredFraction (s : State) : Rat := (coveredCells s : Rat) / (s.container.cells.length : Rat)

theorem mem_allCells (bs : List Space) (p : Cell) :
    p ∈ bs.flatMap Space.cells ↔ ∃ b, b ∈ bs ∧ b.hasCell p = true := by
  simp only [List.mem_flatMap, mem_cells]

theorem coveredCells_eq (s : State) (hF : ItemsFeasible s) (hnn : PlacedNonneg s) :
    (coveredCells s : Int) = placedVolume s := by
  obtain ⟨hin, hdis⟩ := hF
  have hpw : (placedBoxes s).Pairwise (fun a b => a.intersect b = false) := by
    rw [placedBoxes_pairwise]
    intro i hi j hj hij hpi hpj
    exact hdis i hi j hj (by omega) hpi hpj
  have hproper : ∀ b ∈ placedBoxes s, b.Proper := by
    intro b hb
    obtain ⟨i, hi, hp, rfl⟩ := (mem_placedBoxes s b).1 hb
    exact (placedSpace_proper s i).2 (hnn i hi hp)
  rw [← placedBoxes_volume, ← allCells_length _ hproper]
  congr 1
  unfold coveredCells
  apply List.Perm.length_eq
  rw [List.perm_ext_iff_of_nodup ((cells_nodup _).filter _) (allCells_nodup _ hpw)]
  intro p
  rw [mem_allCells, List.mem_filter, mem_cells]
  simp only [decide_eq_true_eq, coverCount, List.countP_pos_iff]
  constructor
  · rintro ⟨_, b, hb, hbp⟩; exact ⟨b, hb, hbp⟩
  · rintro ⟨b, hb, hbp⟩
    obtain ⟨i, hi, hp, rfl⟩ := (mem_placedBoxes s b).1 hb
    exact ⟨hasCell_mono _ _ (hin i hi hp) p hbp, _, hb, hbp⟩

/-- ENTRY 9: for a feasible packing (items with non-negative sides inside a proper container, pairwise
non-overlapping) the volume utilisation the rewards are made of is the fraction of unit cells covered -/
theorem utilisation_eq_covered (s : State) (hF : ItemsFeasible s) (hnn : PlacedNonneg s)
    (hc : s.container.Proper) : utilisation s = coveredFraction s := by
  unfold utilisation coveredFraction
  rw [← coveredCells_eq s hF hnn, ← cells_length _ hc]
  simp [Rat.intCast_natCast]

/-! ### along episodes from a reset state -/

/-- what legal play never changes: the container, the items and their mask; and only present items get placed -/
theorem run_static (cfg : Cfg) (rnd : Rat → Rat) (s₀ : State) (h0 : ResetShape s₀) (hf0 : Fresh cfg rnd s₀)
    (n : Nat) (s : State) (hr : Run cfg rnd s₀ n s) :
    s.container = s₀.container ∧ s.items = s₀.items ∧ s.itemsMask = s₀.itemsMask ∧
    ∀ i, s.itemsPlaced.getD i false = true → s.itemsMask.getD i false = true := by
  induction hr with
  | nil =>
    refine ⟨rfl, rfl, rfl, fun i hi => ?_⟩
    rw [h0.2.2.2.2.2.2.2.2.2.1] at hi
    simp [List.getD_eq_getElem?_getD, List.getElem?_replicate] at hi
    split at hi <;> simp at hi
  | @snoc _ sp e i d hrun hs hl hd ih =>
    obtain ⟨hF, hf, _, _⟩ := run_invariant cfg rnd s₀ h0 hf0 _ _ hrun
    obtain ⟨h1, h2, h3, h4⟩ := ih
    rw [legal_step_fst cfg rnd _ hF.1 hf e i hs d hl]
    refine ⟨h1, h2, h3, fun j hj => ?_⟩
    have hj' : (packed sp (shownEms rnd sp e) i d).itemsPlaced.getD j false = true := hj
    rw [packed_placed sp _ _ _ hF.1 hs.2] at hj'
    show (List.getD sp.itemsMask j false) = true
    by_cases hji : j = i
    · subst hji; exact hl.2.2.2.2.1
    · rw [if_neg hji] at hj'; exact h4 j hj'

/-- ENTRY 9, whole episodes: on every state reached by legal play from a reset state whose present items have
positive sides, the volume utilisation is the fraction of unit cells of the container that are covered -/
theorem run_utilisation_eq_covered (cfg : Cfg) (rnd : Rat → Rat) (s₀ : State) (h0 : ResetShape s₀)
    (hf0 : Fresh cfg rnd s₀) (hpos : ItemsPositive s₀) (n : Nat) (s : State) (hr : Run cfg rnd s₀ n s) :
    utilisation s = coveredFraction s := by
  obtain ⟨hF, _, _, _⟩ := run_invariant cfg rnd s₀ h0 hf0 n s hr
  obtain ⟨hc, hi, hm, hsub⟩ := run_static cfg rnd s₀ h0 hf0 n s hr
  apply utilisation_eq_covered s ⟨hF.2.1, hF.2.2.1⟩
  · intro i hlt hp
    have := hpos i (by rw [← hi]; exact hlt) (by rw [← hm]; exact hsub i hp)
    rw [hi]; omega
  · rw [hc]
    obtain ⟨_, hx, hy, hz, hx2, hy2, hz2, _⟩ := h0
    unfold Space.Proper; omega

end BinPack
