/-
BinPack: the transliterated `_update_ems` (`updateEms`, Model.lean) satisfies the relation of the R-model.

`updateEmsCore_rel`: for EVERY buffer whose mask and coordinate arrays have the same length and EVERY item
space, the buffer computed by `updateEmsCore` is in `EmsRel` (active slots) and in `EmsRelAll` (all slots).
Neither feasibility of the state nor legality of the action is needed.  Consequently every theorem about
`step … d` with a hypothesis `validDraw s e i d` / `validDrawAll s e i d` specialises to the deterministic step
`step₁` without that hypothesis (section "the deterministic step").

What the proof uses of the code: the successor buffer starts as `(ems, ems_mask_after_intersect)` and is only
changed by `add_the_ems`, which writes a candidate `hyperplane ∩ ems[k]` whose flag is set; a flag can only be
set when `ems_mask[k]` is set and the cut is non-empty (the initial `intersections_mask_dict`), and the
inclusion filtering of `_get_intersections_dict` only clears flags.
-/
import JumanjiModel.Env.BinPack.Lemmas
import JumanjiModel.Env.BinPack.Bounds
import JumanjiModel.Env.BinPack.EpisodeLemmas
set_option linter.unusedVariables false
set_option linter.unusedSimpArgs false
namespace BinPack
open Jm

/-! ### `_add_ems`: every slot is unchanged or holds a flagged candidate -/

theorem addOneEms_cases (st : List Space × List Bool) (c : Space × Bool) :
    addOneEms st c = st ∨
    (c.2 = true ∧ ∃ idx, addOneEms st c = (List.set st.1 idx c.1, List.set st.2 idx true)) := by
  unfold addOneEms
  split
  · rename_i h
    right
    simp only [Bool.and_eq_true] at h
    exact ⟨h.1, _, rfl⟩
  · left; rfl

theorem getD_set' {α} (l : List α) (i j : Nat) (v d : α) :
    (l.set i v).getD j d = if j = i ∧ i < l.length then v else l.getD j d := by
  by_cases hi : i < l.length
  · rw [getD_set l i j v d hi]; simp [hi]
  · rw [List.set_eq_of_length_le (Nat.le_of_not_lt hi)]; simp [hi]

/-- the result of feeding the candidates `cands` to `add_one_ems`, starting from `(ems, mask)` -/
def SlotSpec (cands : List (Space × Bool)) (ems : List Space) (mask : List Bool)
    (r : List Space × List Bool) : Prop :=
  r.1.length = ems.length ∧ r.2.length = mask.length ∧
  ∀ j, (r.1.getD j default = ems.getD j default ∧ (r.2.getD j false = true → mask.getD j false = true)) ∨
       (j < ems.length ∧ ∃ c, c ∈ cands ∧ c.2 = true ∧ r.1.getD j default = c.1)

theorem addAll_spec (cands : List (Space × Bool)) :
    ∀ (ems : List Space) (mask : List Bool), mask.length = ems.length →
      SlotSpec cands ems mask (cands.foldl addOneEms (ems, mask)) := by
  induction cands with
  | nil => intro ems mask _; exact ⟨rfl, rfl, fun j => Or.inl ⟨rfl, id⟩⟩
  | cons c cs ih =>
    intro ems mask hl
    rw [List.foldl_cons]
    rcases addOneEms_cases (ems, mask) c with h | ⟨hc, idx, h⟩
    · rw [h]
      obtain ⟨h1, h2, h3⟩ := ih ems mask hl
      refine ⟨h1, h2, fun j => ?_⟩
      rcases h3 j with h | ⟨hj, c', hc', h⟩
      · exact Or.inl h
      · exact Or.inr ⟨hj, c', List.mem_cons_of_mem _ hc', h⟩
    · rw [h]
      obtain ⟨h1, h2, h3⟩ := ih (List.set ems idx c.1) (List.set mask idx true) (by simp [hl])
      simp only [List.length_set] at h1 h2 h3
      refine ⟨h1, h2, fun j => ?_⟩
      rcases h3 j with ⟨ha, hb⟩ | ⟨hj, c', hc', h⟩
      · rw [getD_set'] at ha
        rw [getD_set'] at hb
        by_cases hji : j = idx ∧ idx < ems.length
        · right
          rw [if_pos hji] at ha
          exact ⟨by omega, c, List.mem_cons_self, hc, ha⟩
        · left
          rw [if_neg hji] at ha
          rw [if_neg (by rw [hl]; exact hji)] at hb
          exact ⟨ha, hb⟩
      · exact Or.inr ⟨hj, c', List.mem_cons_of_mem _ hc', h⟩

/-! ### `_get_intersections_dict`: the filtering only clears flags -/

/-- every flag set in `M` is set in `M'` -/
def MaskSub (M M' : List (List Bool)) : Prop :=
  ∀ j k, (M.getD j []).getD k false = true → (M'.getD j []).getD k false = true

theorem andNot_sub (m r : List Bool) (k : Nat) (h : (andNot m r).getD k false = true) : m.getD k false = true := by
  unfold andNot at h
  simp only [List.getD_eq_getElem?_getD, List.getElem?_zipWith] at h ⊢
  cases hm : m[k]? <;> cases hr : r[k]? <;> simp_all

theorem foldl_maskSub {α} (f : List (List Bool) → α → List (List Bool)) (hf : ∀ M x, MaskSub (f M x) M)
    (l : List α) : ∀ M, MaskSub (l.foldl f M) M := by
  induction l with
  | nil => intro M d k h; exact h
  | cons x xs ih => intro M d k h; exact hf M x d k (ih (f M x) d k h)

theorem filterMasks_sub (I : Dir → List Space) (M0 : List (List Bool)) : MaskSub (filterMasks I M0) M0 := by
  unfold filterMasks
  apply foldl_maskSub
  intro M d
  apply foldl_maskSub
  intro M' a j k h
  simp only [] at h
  rw [getD_set'] at h
  split at h
  · rename_i hj; rw [hj.1]; exact andNot_sub _ _ k h
  · exact h

theorem dirAll_map_getD {α} (f : Dir → List α) (d : Dir) : (Dir.all.map f).getD d.idx [] = f d := by
  cases d <;> rfl

theorem zipWith_getD_true {α β} (f : α → β → Bool) (a : List α) (b : List β) (k : Nat)
    (h : (List.zipWith f a b).getD k false = true) :
    ∃ x y, a[k]? = some x ∧ b[k]? = some y ∧ f x y = true := by
  simp only [List.getD_eq_getElem?_getD, List.getElem?_zipWith] at h
  cases ha : a[k]? <;> cases hb : b[k]? <;> simp_all

theorem interMask0_true (it : Space) (ems : List Space) (mask : List Bool) (d : Dir) (k : Nat)
    (h : (interMask0 it ems mask d).getD k false = true) :
    k < ems.length ∧ mask.getD k false = true ∧ (hyperInter it d (ems.getD k default)).isEmpty = false := by
  unfold interMask0 at h
  obtain ⟨em, mai, h1, _, h3⟩ := zipWith_getD_true _ _ _ k h
  rw [List.getElem?_zip_eq_some] at h1
  obtain ⟨he, hm⟩ := h1
  have hk : k < ems.length := by
    rcases Nat.lt_or_ge k ems.length with h' | h'
    · exact h'
    · rw [List.getElem?_eq_none h'] at he; cases he
  simp only [Bool.and_eq_true, Bool.not_eq_true'] at h3
  refine ⟨hk, ?_, ?_⟩
  · simp [List.getD_eq_getElem?_getD, hm, h3.1.1]
  · simp [List.getD_eq_getElem?_getD, he, h3.1.2]

theorem maskAfterIntersect_true (it : Space) (ems : List Space) (mask : List Bool) (k : Nat)
    (h : (maskAfterIntersect it ems mask).getD k false = true) :
    it.intersect (ems.getD k default) = false ∧ mask.getD k false = true := by
  unfold maskAfterIntersect at h
  simp only [List.getD_eq_getElem?_getD, List.getElem?_zipWith] at h ⊢
  cases he : ems[k]? <;> cases hm : mask[k]? <;> simp_all

theorem maskAfterIntersect_length (it : Space) (ems : List Space) (mask : List Bool) (hl : mask.length = ems.length) :
    (maskAfterIntersect it ems mask).length = ems.length := by
  simp [maskAfterIntersect, hl]

/-- a flagged candidate is a non-empty cut of an ACTIVE old EMS -/
theorem candidate_spec (it : Space) (ems : List Space) (mask : List Bool) (c : Space × Bool)
    (hc : c ∈ emsCandidates it ems mask) (ht : c.2 = true) :
    ∃ dir, dir ∈ Dir.all ∧ ∃ k, k < ems.length ∧ mask.getD k false = true ∧
      c.1 = hyperInter it dir (ems.getD k default) ∧ c.1.isEmpty = false := by
  unfold emsCandidates at hc
  simp only [List.mem_flatMap] at hc
  obtain ⟨d, hd, hcz⟩ := hc
  obtain ⟨k, hk, hget⟩ := List.getElem_of_mem hcz
  rw [List.getElem_zip] at hget
  have hkz := hk
  rw [List.length_zip] at hkz
  have hk1 : k < (interEms it ems d).length := by omega
  have hk2 : k < ((filterMasks (interEms it ems) (Dir.all.map (interMask0 it ems mask))).getD d.idx []).length := by omega
  have hke : k < ems.length := by simpa [interEms] using hk1
  have h1 : c.1 = hyperInter it d (ems.getD k default) := by
    rw [← hget]; simp [interEms, List.getD_eq_getElem?_getD, hke]
  have h2 : ((filterMasks (interEms it ems) (Dir.all.map (interMask0 it ems mask))).getD d.idx []).getD k false = true := by
    rw [List.getD_eq_getElem?_getD, List.getElem?_eq_getElem hk2]
    rw [← hget] at ht; simpa using ht
  have h3 := filterMasks_sub _ _ d.idx k h2
  rw [dirAll_map_getD] at h3
  obtain ⟨_, hm, hne⟩ := interMask0_true it ems mask d k h3
  exact ⟨d, hd, k, hke, hm, h1, by rw [h1]; exact hne⟩

/-! ### the main theorem -/

theorem updateEmsCore_slots (it : Space) (ems : List Space) (mask : List Bool) (hl : mask.length = ems.length) :
    SlotSpec (emsCandidates it ems mask) ems (maskAfterIntersect it ems mask)
      ((updateEmsCore it ems mask).ems, (updateEmsCore it ems mask).mask) :=
  addAll_spec _ ems _ (maskAfterIntersect_length it ems mask hl)

/-- the transliterated `_update_ems` is in the relation `EmsRel` (active slots) … -/
theorem updateEmsCore_rel (it : Space) (ems : List Space) (mask : List Bool) (hl : mask.length = ems.length) :
    EmsRel ems mask it (updateEmsCore it ems mask) := by
  obtain ⟨h1, h2, h3⟩ := updateEmsCore_slots it ems mask hl
  simp only [] at h1 h2 h3
  refine ⟨h1, by rw [h2, maskAfterIntersect_length it ems mask hl], fun j hj hm => ?_⟩
  rcases h3 j with ⟨ha, hb⟩ | ⟨_, c, hc, ht, hce⟩
  · obtain ⟨hni, hmk⟩ := maskAfterIntersect_true it ems mask j (hb hm)
    exact ⟨j, hj, hmk, Or.inl ⟨ha, hni⟩⟩
  · obtain ⟨dir, hdir, k, hk, hmk, hc1, _⟩ := candidate_spec it ems mask c hc ht
    exact ⟨k, hk, hmk, Or.inr ⟨dir, hdir, by rw [hce, hc1]⟩⟩

/-- … and in `EmsRelAll` (all slots, active or not) -/
theorem updateEmsCore_relAll (it : Space) (ems : List Space) (mask : List Bool) (hl : mask.length = ems.length) :
    EmsRelAll ems it (updateEmsCore it ems mask) := by
  obtain ⟨h1, h2, h3⟩ := updateEmsCore_slots it ems mask hl
  simp only [] at h1 h2 h3
  intro j hj
  rcases h3 j with ⟨ha, _⟩ | ⟨_, c, hc, ht, hce⟩
  · exact Or.inl ha
  · obtain ⟨dir, hdir, k, hk, _, hc1, hne⟩ := candidate_spec it ems mask c hc ht
    exact Or.inr ⟨k, hk, dir, hdir, by rw [hce, hc1], by rw [hce]; exact hne⟩

theorem updateEmsCore_lengths (it : Space) (ems : List Space) (mask : List Bool) (hl : mask.length = ems.length) :
    (updateEmsCore it ems mask).ems.length = ems.length ∧ (updateEmsCore it ems mask).mask.length = ems.length :=
  ⟨(updateEmsCore_rel it ems mask hl).1, (updateEmsCore_rel it ems mask hl).2.1⟩

/-- ENTRY 2 OF THE AUDIT: for every state with consistent array shapes and EVERY action (legal or not, inside the
action spec or not) the EMS buffer computed by the transliterated `_update_ems` is an admissible draw of the
relational model, for both relations -/
theorem updateEms_validDraw (s : State) (hw : WF s) (e i : Int) :
    validDraw s e i (updateEms s e i) ∧ validDrawAll s e i (updateEms s e i) :=
  ⟨updateEmsCore_rel _ _ _ hw.1, updateEmsCore_relAll _ _ _ hw.1⟩

theorem updateEms_shape (s : State) (hw : WF s) (e i : Int) :
    (updateEms s e i).mask.length = (updateEms s e i).ems.length := by
  obtain ⟨h1, h2⟩ := updateEmsCore_lengths (newItemSpace s e i) s.ems s.emsMask hw.1
  unfold updateEms; rw [h1, h2]

end BinPack
