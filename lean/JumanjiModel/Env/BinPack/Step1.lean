/-
BinPack: the deterministic step `step₁ cfg rnd s e i = step cfg rnd s e i (updateEms s e i)` (EMS update = the
transliterated `_update_ems`).  Every theorem of the relational model that carries a hypothesis
`validDraw` / `validDrawAll` on a free draw is specialised here to `step₁`, WITHOUT that hypothesis
(`updateEms_validDraw`, UpdateEms.lean).  Episodes are lists of actions `(e, i)`; `play₁`, `LegalPlay₁`,
`EndsAtLast₁`, `Run₁` are the draw-free forms of `play`, `LegalPlay`, `EndsAtLast`, `Run`.
-/
import JumanjiModel.Env.BinPack.UpdateEms
set_option linter.unusedVariables false
set_option linter.unusedSimpArgs false
namespace BinPack
open Jm Jm.OB

/-! ### one step -/

theorem step₁_WF (cfg : Cfg) (rnd : Rat → Rat) (s : State) (hw : WF s) (e i : Int) : WF (step₁ cfg rnd s e i).1 := by
  unfold step₁
  rw [step_fst, makeObs_fst]
  have : WF (if stepValid s e i then packItem s (Jx.getWC s.sortedIdx 0 e) i (updateEms s e i) else s) := by
    split
    · exact packItem_WF s hw _ _ _ (updateEms_shape s hw e i)
    · exact hw
  exact this

theorem step₁_fresh (cfg : Cfg) (rnd : Rat → Rat) (s : State) (e i : Int) : Fresh cfg rnd (step₁ cfg rnd s e i).1 :=
  step_fresh cfg rnd s e i _

/-- C06 without a hypothesis on the EMS update -/
theorem step₁_feasible (cfg : Cfg) (rnd : Rat → Rat) (s : State) (hF : Feasible s) (hf : Fresh cfg rnd s)
    (e i : Nat) (hs : InSpec cfg s e i) (hl : legal cfg rnd s e i) : Feasible (step₁ cfg rnd s e i).1 :=
  step_feasible cfg rnd s hF hf e i hs _ hl (updateEms_validDraw s hF.1 e i).1

/-- C01 without a hypothesis on the EMS update: ANY action `(e, i) : Int × Int` -/
theorem step₁_obs_in_bounds (cfg : Cfg) (rnd : Rat → Rat) (dm : Dims) (s : State) (e i : Int)
    (h : BoundsInv dm s) (hw : WF s) :
    InBounds (obsBounds cfg dm) (obsLeaves (step₁ cfg rnd s e i).2.obs) :=
  step_obs_in_bounds cfg rnd dm s e i _ h (fun _ => (updateEms_validDraw s hw e i).2)

theorem step₁_inv (cfg : Cfg) (rnd : Rat → Rat) (dm : Dims) (s : State) (e i : Int)
    (h : BoundsInv dm s) (hw : WF s) : BoundsInv dm (step₁ cfg rnd s e i).1 :=
  step_inv cfg rnd dm s e i _ h (fun _ => (updateEms_validDraw s hw e i).2)

/-- C12 without a hypothesis on the EMS update -/
theorem obs_faithful₁ (cfg : Cfg) (rnd : Rat → Rat) (s : State) (hw : WF s) (e i : Int) :
    (step₁ cfg rnd s e i).2.obs = observe cfg rnd (step₁ cfg rnd s e i).1 :=
  obs_faithful cfg rnd s hw e i _ (updateEms_shape s hw e i)

/-! ### `Run₁`: episodes of legal play under the deterministic step -/

/-- `Run₁ cfg rnd s₀ n s`: `s` is reached from `s₀` by `n` legal in-spec actions of `step₁` -/
inductive Run₁ (cfg : Cfg) (rnd : Rat → Rat) : State → Nat → State → Prop
  | nil (s : State) : Run₁ cfg rnd s 0 s
  | snoc {s₀ : State} {n : Nat} {s : State} (e i : Nat) :
      Run₁ cfg rnd s₀ n s → InSpec cfg s e i → legal cfg rnd s e i →
      Run₁ cfg rnd s₀ (n + 1) (step₁ cfg rnd s e i).1

/-- every deterministic run is a run of the relational model -/
theorem run₁_run (cfg : Cfg) (rnd : Rat → Rat) (s₀ : State) (h0 : ResetShape s₀) (hf0 : Fresh cfg rnd s₀)
    (n : Nat) (s : State) (hr : Run₁ cfg rnd s₀ n s) : Run cfg rnd s₀ n s := by
  induction hr with
  | nil => exact Run.nil _
  | snoc e i _ hs hl ih =>
    have hF := (run_invariant cfg rnd s₀ h0 hf0 _ _ ih).1
    exact Run.snoc e i _ ih hs hl (updateEms_validDraw _ hF.1 e i).1

/-! ### whole episodes as action lists -/

abbrev Act₁ := Nat × Nat

/-- play a list of actions with `step₁`: the final state and the sum of the rewards -/
def play₁ (cfg : Cfg) (rnd : Rat → Rat) : State → List Act₁ → State × Rat
  | s, [] => (s, 0)
  | s, a :: as =>
    let r := step₁ cfg rnd s a.1 a.2
    let q := play₁ cfg rnd r.1 as
    (q.1, r.2.reward.sum + q.2)

/-- every action is in the action spec and legal when its turn comes -/
def LegalPlay₁ (cfg : Cfg) (rnd : Rat → Rat) : State → List Act₁ → Prop
  | _, [] => True
  | s, a :: as => InSpec cfg s a.1 a.2 ∧ legal cfg rnd s a.1 a.2 ∧ LegalPlay₁ cfg rnd (step₁ cfg rnd s a.1 a.2).1 as

/-- every action is in the action spec (legal or not) -/
def InSpecPlay₁ (cfg : Cfg) (rnd : Rat → Rat) : State → List Act₁ → Prop
  | _, [] => True
  | s, a :: as => InSpec cfg s a.1 a.2 ∧ InSpecPlay₁ cfg rnd (step₁ cfg rnd s a.1 a.2).1 as

/-- the last timestep is LAST and no earlier one is -/
def EndsAtLast₁ (cfg : Cfg) (rnd : Rat → Rat) : State → List Act₁ → Prop
  | _, [] => False
  | s, [a] => (step₁ cfg rnd s a.1 a.2).2.stepType = .last
  | s, a :: b :: as => (step₁ cfg rnd s a.1 a.2).2.stepType ≠ .last ∧
      EndsAtLast₁ cfg rnd (step₁ cfg rnd s a.1 a.2).1 (b :: as)

/-- number (1-based) of the first LAST timestep of the play, if any -/
def firstLast₁ (cfg : Cfg) (rnd : Rat → Rat) : State → List Act₁ → Option Nat
  | _, [] => none
  | s, a :: as =>
    if (step₁ cfg rnd s a.1 a.2).2.stepType = .last then some 1
    else (firstLast₁ cfg rnd (step₁ cfg rnd s a.1 a.2).1 as).map (· + 1)

/-- the same action list with the EMS updates `_update_ems` computes attached: an episode of the R-model -/
def withDraws (cfg : Cfg) (rnd : Rat → Rat) : State → List Act₁ → List Act
  | _, [] => []
  | s, a :: as => (a.1, a.2, updateEms s a.1 a.2) :: withDraws cfg rnd (step₁ cfg rnd s a.1 a.2).1 as

theorem withDraws_length (cfg : Cfg) (rnd : Rat → Rat) (as : List Act₁) :
    ∀ s, (withDraws cfg rnd s as).length = as.length := by
  induction as with
  | nil => intro s; rfl
  | cons a as ih => intro s; simp [withDraws, ih]

theorem withDraws_dense (cfg : Cfg) (b : Bool) (rnd : Rat → Rat) (as : List Act₁) :
    ∀ s, withDraws (withDense cfg b) rnd s as = withDraws cfg rnd s as := by
  induction as with
  | nil => intro s; rfl
  | cons a as ih =>
    intro s
    simp only [withDraws]
    rw [show (step₁ (withDense cfg b) rnd s a.1 a.2).1 = (step₁ cfg rnd s a.1 a.2).1 from rfl, ih]

theorem play₁_eq (cfg : Cfg) (rnd : Rat → Rat) (as : List Act₁) :
    ∀ s, play₁ cfg rnd s as = play cfg rnd s (withDraws cfg rnd s as) := by
  induction as with
  | nil => intro s; rfl
  | cons a as ih => intro s; simp only [play₁, play, withDraws]; rw [ih]; rfl

theorem endsAtLast₁_iff (cfg : Cfg) (rnd : Rat → Rat) (as : List Act₁) :
    ∀ s, EndsAtLast₁ cfg rnd s as ↔ EndsAtLast cfg rnd s (withDraws cfg rnd s as) := by
  induction as with
  | nil => intro s; exact Iff.rfl
  | cons a as ih =>
    intro s
    cases as with
    | nil => exact Iff.rfl
    | cons c cs =>
      have := ih (step₁ cfg rnd s a.1 a.2).1
      simp only [withDraws, EndsAtLast₁, EndsAtLast] at this ⊢
      rw [this]; rfl

theorem legalPlay₁_legalPlay (cfg : Cfg) (rnd : Rat → Rat) (as : List Act₁) :
    ∀ s, Feasible s → Fresh cfg rnd s → LegalPlay₁ cfg rnd s as → LegalPlay cfg rnd s (withDraws cfg rnd s as) := by
  induction as with
  | nil => intro s _ _ _; trivial
  | cons a as ih =>
    intro s hF hf h
    obtain ⟨hs, hl, hrest⟩ := h
    exact ⟨hs, hl, (updateEms_validDraw s hF.1 a.1 a.2).1,
      ih _ (step₁_feasible cfg rnd s hF hf a.1 a.2 hs hl) (step₁_fresh cfg rnd s a.1 a.2) hrest⟩

theorem legalPlay₁_run₁ (cfg : Cfg) (rnd : Rat → Rat) (as : List Act₁) :
    ∀ s₀ s, ∀ n, Run₁ cfg rnd s₀ n s → LegalPlay₁ cfg rnd s as →
      Run₁ cfg rnd s₀ (n + as.length) (play₁ cfg rnd s as).1 := by
  induction as with
  | nil => intro s₀ s n hr _; exact hr
  | cons a as ih =>
    intro s₀ s n hr h
    obtain ⟨hs, hl, hrest⟩ := h
    have := ih s₀ _ (n + 1) (Run₁.snoc a.1 a.2 hr hs hl) hrest
    simp only [List.length_cons, play₁]
    rw [show n + (as.length + 1) = n + 1 + as.length by omega]
    exact this

/-- C08, the combined episode theorem for the deterministic step: NO hypothesis on EMS updates -/
theorem episode_returns₁ (cfg : Cfg) (rnd : Rat → Rat) (s₀ : State) (h0 : ResetShape s₀) (hf0 : Fresh cfg rnd s₀)
    (as : List Act₁) (hlp : LegalPlay₁ cfg rnd s₀ as) (he : EndsAtLast₁ cfg rnd s₀ as) :
    (play₁ (withDense cfg true) rnd s₀ as).1 = (play₁ cfg rnd s₀ as).1 ∧
    (play₁ (withDense cfg false) rnd s₀ as).1 = (play₁ cfg rnd s₀ as).1 ∧
    (play₁ (withDense cfg true) rnd s₀ as).2 = utilisation (play₁ cfg rnd s₀ as).1 ∧
    (play₁ (withDense cfg false) rnd s₀ as).2 = utilisation (play₁ cfg rnd s₀ as).1 ∧
    Run₁ cfg rnd s₀ as.length (play₁ cfg rnd s₀ as).1 ∧ Feasible (play₁ cfg rnd s₀ as).1 ∧
    Complete cfg rnd (play₁ cfg rnd s₀ as).1 := by
  have hF0 := reset_feasible s₀ h0
  have H := episode_returns cfg rnd s₀ h0 hf0 (withDraws cfg rnd s₀ as)
    (legalPlay₁_legalPlay cfg rnd as s₀ hF0 hf0 hlp) ((endsAtLast₁_iff cfg rnd as s₀).1 he)
  rw [play₁_eq, play₁_eq, play₁_eq, withDraws_dense, withDraws_dense]
  obtain ⟨a, b, c, d, _, f, g⟩ := H
  refine ⟨a, b, c, d, ?_, f, g⟩
  have := legalPlay₁_run₁ cfg rnd as s₀ s₀ 0 (Run₁.nil _) hlp
  rw [play₁_eq] at this
  simpa using this

/-! ### entry 16: LAST is emitted within `number of items` steps of ANY in-spec play -/

theorem countTrue_lt_of_unplaced (l : List Bool) (i : Nat) (hi : i < l.length) (h : l.getD i true = false) :
    Jx.countTrue l < l.length := by
  have h1 := countTrue_set l i hi h
  have h2 := countTrue_le (l.set i true)
  rw [List.length_set] at h2
  omega

theorem legal_unplaced (cfg : Cfg) (rnd : Rat → Rat) (s : State) (hw : WF s) (e i : Nat) (hl : legal cfg rnd s e i) :
    Jx.countTrue s.itemsPlaced < s.items.length := by
  obtain ⟨_, _, hi, hnp, _⟩ := hl
  rw [← hw.2.2.1]
  exact countTrue_lt_of_unplaced _ i (by rw [hw.2.2.1]; exact hi) hnp

/-- a non-LAST step leaves a state in which some action is legal -/
theorem mid_has_legal (cfg : Cfg) (rnd : Rat → Rat) (s : State) (hw : WF s) (e i : Int)
    (h : (step₁ cfg rnd s e i).2.stepType ≠ .last) : ∃ e' i', legal cfg rnd (step₁ cfg rnd s e i).1 e' i' := by
  have hw' := step₁_WF cfg rnd s hw e i
  have hf' := step₁_fresh cfg rnd s e i
  unfold step₁ at h hw' hf' ⊢
  rw [step_stepType] at h
  cases hany : ((step cfg rnd s e i (updateEms s e i)).1.actionMask.any fun r => r.any id)
  · rw [hany] at h; simp at h
  · rw [List.any_eq_true] at hany
    obtain ⟨row, hrow, hr⟩ := hany
    rw [List.any_eq_true] at hr
    obtain ⟨b, hb, hbt⟩ := hr
    obtain ⟨e', he', rfl⟩ := List.getElem_of_mem hrow
    obtain ⟨i', hi', rfl⟩ := List.getElem_of_mem hb
    refine ⟨e', i', ?_⟩
    rw [← mask_iff_legal cfg rnd _ hw', ← hf'.1, getD_getD_of_lt _ e' i' he' hi']
    exact hbt

theorem first_last_aux (cfg : Cfg) (rnd : Rat → Rat) (as : List Act₁) :
    ∀ s, Feasible s → Fresh cfg rnd s → InSpecPlay₁ cfg rnd s as →
      max 1 (s.items.length - Jx.countTrue s.itemsPlaced) ≤ as.length →
      ∃ t, firstLast₁ cfg rnd s as = some t ∧ 1 ≤ t ∧ t ≤ max 1 (s.items.length - Jx.countTrue s.itemsPlaced) := by
  induction as with
  | nil => intro s _ _ _ h; simp at h
  | cons a as ih =>
    intro s hF hf hp hlen
    obtain ⟨hs, hrest⟩ := hp
    by_cases hlast : (step₁ cfg rnd s a.1 a.2).2.stepType = .last
    · exact ⟨1, by simp [firstLast₁, hlast], Nat.le_refl _, by omega⟩
    · have hv := step_mid_valid cfg rnd s a.1 a.2 _ hlast
      have hl := (stepValid_iff_legal cfg rnd s hF.1 hf a.1 a.2 hs).mp hv
      have hF' := step₁_feasible cfg rnd s hF hf a.1 a.2 hs hl
      have hf' := step₁_fresh cfg rnd s a.1 a.2
      have hcnt := legal_step_count cfg rnd s hF.1 hf a.1 a.2 hs (updateEms s a.1 a.2) hl
      obtain ⟨e', i', hl'⟩ := mid_has_legal cfg rnd s hF.1 a.1 a.2 hlast
      have hun := legal_unplaced cfg rnd _ hF'.1 e' i' hl'
      unfold step₁ at hF' hf' hun hrest ih
      rw [hcnt.1, hcnt.2] at hun
      have hlen' : max 1 ((step cfg rnd s a.1 a.2 (updateEms s a.1 a.2)).1.items.length -
          Jx.countTrue (step cfg rnd s a.1 a.2 (updateEms s a.1 a.2)).1.itemsPlaced) ≤ as.length := by
        rw [hcnt.1, hcnt.2]; simp only [List.length_cons] at hlen; omega
      obtain ⟨t, ht, ht1, ht2⟩ := ih _ hF' hf' hrest hlen'
      rw [hcnt.1, hcnt.2] at ht2
      refine ⟨t + 1, ?_, by omega, by omega⟩
      simp only [firstLast₁, hlast, if_false]
      unfold step₁
      rw [ht]; rfl

/-- ENTRY 16: play ANY in-spec actions (legal or not) from a reset state with `step₁`: if the list is at least as
long as the number of item slots, a LAST timestep is emitted, and the first one comes no later than step
`number of item slots` -/
theorem first_last_le (cfg : Cfg) (rnd : Rat → Rat) (s₀ : State) (h0 : ResetShape s₀) (hf0 : Fresh cfg rnd s₀)
    (as : List Act₁) (hp : InSpecPlay₁ cfg rnd s₀ as) (hlen : max 1 s₀.items.length ≤ as.length) :
    ∃ t, firstLast₁ cfg rnd s₀ as = some t ∧ 1 ≤ t ∧ t ≤ max 1 s₀.items.length := by
  have hc : Jx.countTrue s₀.itemsPlaced = 0 := by
    rw [h0.2.2.2.2.2.2.2.2.2.1]; exact countTrue_replicate_false _
  have := first_last_aux cfg rnd as s₀ (reset_feasible s₀ h0) hf0 hp (by rw [hc]; simpa using hlen)
  rw [hc] at this
  simpa using this

/-! ### the same bound counted in PRESENT items (padding slots of `items_mask = False` excluded) -/

theorem countTrue_cons (a : Bool) (l : List Bool) : Jx.countTrue (a :: l) = (if a then 1 else 0) + Jx.countTrue l := by
  unfold Jx.countTrue; cases a <;> simp [List.filter_cons] <;> omega

theorem countTrue_le_of_sub (p : List Bool) : ∀ m : List Bool, p.length = m.length →
    (∀ i, p.getD i false = true → m.getD i false = true) → Jx.countTrue p ≤ Jx.countTrue m := by
  induction p with
  | nil => intro m _ _; simp [Jx.countTrue]
  | cons a p ih =>
    intro m hl hs
    cases m with
    | nil => simp at hl
    | cons b m =>
      have h0 := hs 0
      have := ih m (by simpa using hl) (fun i hi => by simpa using hs (i + 1) (by simpa using hi))
      rw [countTrue_cons, countTrue_cons]
      cases a <;> cases b <;> simp_all <;> omega

theorem countTrue_lt_of_sub (p : List Bool) : ∀ (m : List Bool) (i : Nat), p.length = m.length →
    (∀ i, p.getD i false = true → m.getD i false = true) → i < m.length → m.getD i false = true →
    p.getD i true = false → Jx.countTrue p < Jx.countTrue m := by
  induction p with
  | nil => intro m i hl _ hi _ _; simp at hl; rw [← hl] at hi; simp at hi
  | cons a p ih =>
    intro m i hl hs hi hm hp
    cases m with
    | nil => simp at hl
    | cons b m =>
      have hs' : ∀ i, p.getD i false = true → m.getD i false = true :=
        fun i hi => by simpa using hs (i + 1) (by simpa using hi)
      have hl' : p.length = m.length := by simpa using hl
      rw [countTrue_cons, countTrue_cons]
      cases i with
      | zero =>
        simp at hm hp; subst hm; subst hp
        have := countTrue_le_of_sub p m hl' hs'
        simp; omega
      | succ j =>
        have := ih m j hl' hs' (by simpa using hi) (by simpa using hm) (by simpa using hp)
        have h0 := hs 0
        cases a <;> cases b <;> simp_all <;> omega

/-- only present items are placed -/
def PlacedSubMask (s : State) : Prop := ∀ i, s.itemsPlaced.getD i false = true → s.itemsMask.getD i false = true

theorem legal_step_sub (cfg : Cfg) (rnd : Rat → Rat) (s : State) (hw : WF s) (hf : Fresh cfg rnd s)
    (e i : Nat) (hs : InSpec cfg s e i) (d : EmsDraw) (hl : legal cfg rnd s e i) (h : PlacedSubMask s) :
    PlacedSubMask (step cfg rnd s e i d).1 ∧ (step cfg rnd s e i d).1.itemsMask = s.itemsMask := by
  rw [legal_step_fst cfg rnd s hw hf e i hs d hl]
  refine ⟨fun j hj => ?_, rfl⟩
  have hj' : (packed s (shownEms rnd s e) i d).itemsPlaced.getD j false = true := hj
  rw [packed_placed s _ _ _ hw hs.2] at hj'
  show (List.getD s.itemsMask j false) = true
  by_cases hji : j = i
  · subst hji; exact hl.2.2.2.2.1
  · rw [if_neg hji] at hj'; exact h j hj'

theorem legal_unplaced_present (cfg : Cfg) (rnd : Rat → Rat) (s : State) (hw : WF s) (h : PlacedSubMask s) (e i : Nat)
    (hl : legal cfg rnd s e i) : Jx.countTrue s.itemsPlaced < Jx.countTrue s.itemsMask := by
  obtain ⟨_, _, hi, hnp, hm, _⟩ := hl
  exact countTrue_lt_of_sub _ _ i (by rw [hw.2.2.1, hw.2.1]) h (by rw [hw.2.1]; exact hi) hm hnp

theorem first_last_present_aux (cfg : Cfg) (rnd : Rat → Rat) (as : List Act₁) :
    ∀ s, Feasible s → Fresh cfg rnd s → PlacedSubMask s → InSpecPlay₁ cfg rnd s as →
      max 1 (Jx.countTrue s.itemsMask - Jx.countTrue s.itemsPlaced) ≤ as.length →
      ∃ t, firstLast₁ cfg rnd s as = some t ∧ 1 ≤ t ∧ t ≤ max 1 (Jx.countTrue s.itemsMask - Jx.countTrue s.itemsPlaced) := by
  induction as with
  | nil => intro s _ _ _ _ h; simp at h
  | cons a as ih =>
    intro s hF hf hsub hp hlen
    obtain ⟨hs, hrest⟩ := hp
    by_cases hlast : (step₁ cfg rnd s a.1 a.2).2.stepType = .last
    · exact ⟨1, by simp [firstLast₁, hlast], Nat.le_refl _, by omega⟩
    · have hv := step_mid_valid cfg rnd s a.1 a.2 _ hlast
      have hl := (stepValid_iff_legal cfg rnd s hF.1 hf a.1 a.2 hs).mp hv
      have hF' := step₁_feasible cfg rnd s hF hf a.1 a.2 hs hl
      have hf' := step₁_fresh cfg rnd s a.1 a.2
      have hcnt := legal_step_count cfg rnd s hF.1 hf a.1 a.2 hs (updateEms s a.1 a.2) hl
      obtain ⟨hsub', hmask⟩ := legal_step_sub cfg rnd s hF.1 hf a.1 a.2 hs (updateEms s a.1 a.2) hl hsub
      obtain ⟨e', i', hl'⟩ := mid_has_legal cfg rnd s hF.1 a.1 a.2 hlast
      unfold step₁ at hF' hf' hrest ih hl'
      have hun := legal_unplaced_present cfg rnd _ hF'.1 hsub' e' i' hl'
      rw [hcnt.1, hmask] at hun
      have hlen' : max 1 (Jx.countTrue (step cfg rnd s a.1 a.2 (updateEms s a.1 a.2)).1.itemsMask -
          Jx.countTrue (step cfg rnd s a.1 a.2 (updateEms s a.1 a.2)).1.itemsPlaced) ≤ as.length := by
        rw [hcnt.1, hmask]; simp only [List.length_cons] at hlen; omega
      obtain ⟨t, ht, ht1, ht2⟩ := ih _ hF' hf' hsub' hrest hlen'
      rw [hcnt.1, hmask] at ht2
      refine ⟨t + 1, ?_, by omega, by omega⟩
      simp only [firstLast₁, hlast, if_false]
      unfold step₁
      rw [ht]; rfl

/-- ENTRY 16, sharp form: the first LAST timestep of ANY in-spec play from a reset state comes no later than step
`max 1 (number of PRESENT items)` (`jnp.sum(items_mask)`; padding slots do not count) -/
theorem first_last_le_present (cfg : Cfg) (rnd : Rat → Rat) (s₀ : State) (h0 : ResetShape s₀) (hf0 : Fresh cfg rnd s₀)
    (as : List Act₁) (hp : InSpecPlay₁ cfg rnd s₀ as) (hlen : max 1 (Jx.countTrue s₀.itemsMask) ≤ as.length) :
    ∃ t, firstLast₁ cfg rnd s₀ as = some t ∧ 1 ≤ t ∧ t ≤ max 1 (Jx.countTrue s₀.itemsMask) := by
  have hpl := h0.2.2.2.2.2.2.2.2.2.1
  have hc : Jx.countTrue s₀.itemsPlaced = 0 := by rw [hpl]; exact countTrue_replicate_false _
  have hsub : PlacedSubMask s₀ := by
    intro i hi
    rw [hpl] at hi
    simp [List.getD_eq_getElem?_getD, List.getElem?_replicate] at hi
    split at hi <;> simp at hi
  have := first_last_present_aux cfg rnd as s₀ (reset_feasible s₀ h0) hf0 hsub hp (by rw [hc]; simpa using hlen)
  rw [hc] at this
  simpa using this

end BinPack
