/-
BinPack, C08: whole episodes.  One episode = a list of actions `(e, i, d)` (`d` = the EMS buffer drawn from
the relation `EmsRel`) played from a reset state; `play` returns the final state and the sum of the rewards.
The reward function is the flag `cfg.dense`; the state transition, the step type and the legality of an action
do not depend on it, so the SAME action list can be played under both reward functions.

Result (`episode_returns`): for every legal episode from a reset state whose last timestep is LAST and no
earlier one (the episode as the environment sees it)
    dense return = sparse return = volume utilisation of the final state,
the two runs end in the same state, that state is reached by the `Run` relation of Lemmas.lean, is feasible,
and nothing more can be packed there (`Complete`).
-/
import JumanjiModel.Env.BinPack.Lemmas
set_option linter.unusedVariables false
set_option linter.unusedSimpArgs false
namespace BinPack
open Jm

instance (cfg : Cfg) (s : State) (e i : Nat) : Decidable (InSpec cfg s e i) := by unfold InSpec; infer_instance

/-- one action of an episode: observed EMS slot, item, and the EMS buffer `_update_ems` produced -/
abbrev Act := Nat × Nat × EmsDraw

/-- the same environment with the other reward function -/
def withDense (cfg : Cfg) (b : Bool) : Cfg := { cfg with dense := b }

/-- play a list of actions: the final state and the sum of the rewards -/
def play (cfg : Cfg) (rnd : Rat → Rat) : State → List Act → State × Rat
  | s, [] => (s, 0)
  | s, a :: as =>
    let r := step cfg rnd s a.1 a.2.1 a.2.2
    let q := play cfg rnd r.1 as
    (q.1, r.2.reward.sum + q.2)

/-- every action is in the action spec, legal when its turn comes, and its EMS update is in the relation -/
def LegalPlay (cfg : Cfg) (rnd : Rat → Rat) : State → List Act → Prop
  | _, [] => True
  | s, a :: as => InSpec cfg s a.1 a.2.1 ∧ legal cfg rnd s a.1 a.2.1 ∧ validDraw s a.1 a.2.1 a.2.2 ∧
      LegalPlay cfg rnd (step cfg rnd s a.1 a.2.1 a.2.2).1 as

/-- the episode as the environment sees it: the last timestep is LAST and no earlier one is -/
def EndsAtLast (cfg : Cfg) (rnd : Rat → Rat) : State → List Act → Prop
  | _, [] => False
  | s, [a] => (step cfg rnd s a.1 a.2.1 a.2.2).2.stepType = .last
  | s, a :: b :: as => (step cfg rnd s a.1 a.2.1 a.2.2).2.stepType ≠ .last ∧
      EndsAtLast cfg rnd (step cfg rnd s a.1 a.2.1 a.2.2).1 (b :: as)

/-! ### nothing but the reward depends on the reward function -/

theorem step_fst_dense (cfg : Cfg) (b : Bool) (rnd : Rat → Rat) (s : State) (e i : Int) (d : EmsDraw) :
    (step (withDense cfg b) rnd s e i d).1 = (step cfg rnd s e i d).1 := rfl

theorem condLast_stepType {O} (b : Bool) (r : List Rat) (o : O) :
    (condLast b r o).stepType = if b = true then .last else .mid := by
  cases b <;> rfl

theorem step_stepType (cfg : Cfg) (rnd : Rat → Rat) (s : State) (e i : Int) (d : EmsDraw) :
    (step cfg rnd s e i d).2.stepType =
      if (!((step cfg rnd s e i d).1.actionMask.any fun r => r.any id) || !stepValid s e i) = true
      then .last else .mid := by
  simp only [step, makeObs, condLast_stepType]
  rfl

theorem step_type_dense (cfg : Cfg) (b : Bool) (rnd : Rat → Rat) (s : State) (e i : Int) (d : EmsDraw) :
    (step (withDense cfg b) rnd s e i d).2.stepType = (step cfg rnd s e i d).2.stepType := by
  rw [step_stepType, step_stepType, step_fst_dense]

theorem legal_dense (cfg : Cfg) (b : Bool) (rnd : Rat → Rat) (s : State) (e i : Nat) :
    legal (withDense cfg b) rnd s e i ↔ legal cfg rnd s e i := Iff.rfl

theorem inSpec_dense (cfg : Cfg) (b : Bool) (s : State) (e i : Nat) :
    InSpec (withDense cfg b) s e i ↔ InSpec cfg s e i := Iff.rfl

theorem fresh_dense (cfg : Cfg) (b : Bool) (rnd : Rat → Rat) (s : State) :
    Fresh (withDense cfg b) rnd s ↔ Fresh cfg rnd s := Iff.rfl

theorem legalPlay_dense (cfg : Cfg) (b : Bool) (rnd : Rat → Rat) (as : List Act) :
    ∀ s, LegalPlay (withDense cfg b) rnd s as ↔ LegalPlay cfg rnd s as := by
  induction as with
  | nil => intro s; exact Iff.rfl
  | cons a as ih =>
    intro s
    simp only [LegalPlay]
    rw [step_fst_dense, ih, legal_dense, inSpec_dense]

theorem endsAtLast_dense (cfg : Cfg) (b : Bool) (rnd : Rat → Rat) (as : List Act) :
    ∀ s, EndsAtLast (withDense cfg b) rnd s as ↔ EndsAtLast cfg rnd s as := by
  induction as with
  | nil => intro s; exact Iff.rfl
  | cons a as ih =>
    intro s
    cases as with
    | nil => simp only [EndsAtLast]; rw [step_type_dense]
    | cons c cs =>
      simp only [EndsAtLast]
      rw [step_type_dense, step_fst_dense, ih]

theorem play_fst_dense (cfg : Cfg) (b : Bool) (rnd : Rat → Rat) (as : List Act) :
    ∀ s, (play (withDense cfg b) rnd s as).1 = (play cfg rnd s as).1 := by
  induction as with
  | nil => intro s; rfl
  | cons a as ih => intro s; simp only [play]; rw [step_fst_dense, ih]

/-! ### legal play and the `Run` relation -/

theorem run_cons (cfg : Cfg) (rnd : Rat → Rat) (s₀ : State) (e i : Nat) (d : EmsDraw)
    (hs : InSpec cfg s₀ e i) (hl : legal cfg rnd s₀ e i) (hd : validDraw s₀ e i d) (n : Nat) (s : State)
    (hr : Run cfg rnd (step cfg rnd s₀ e i d).1 n s) : Run cfg rnd s₀ (n + 1) s := by
  induction hr with
  | nil => exact Run.snoc e i d (Run.nil s₀) hs hl hd
  | snoc e' i' d' _ hs' hl' hd' ih => exact Run.snoc e' i' d' ih hs' hl' hd'

/-- a legal action list is a `Run` … -/
theorem legalPlay_run (cfg : Cfg) (rnd : Rat → Rat) (as : List Act) :
    ∀ s, LegalPlay cfg rnd s as → Run cfg rnd s as.length (play cfg rnd s as).1 := by
  induction as with
  | nil => intro s _; exact Run.nil s
  | cons a as ih =>
    intro s h
    obtain ⟨hs, hl, hd, hrest⟩ := h
    exact run_cons cfg rnd s a.1 a.2.1 a.2.2 hs hl hd _ _ (ih _ hrest)

theorem play_append (cfg : Cfg) (rnd : Rat → Rat) (as bs : List Act) :
    ∀ s, (play cfg rnd s (as ++ bs)).1 = (play cfg rnd (play cfg rnd s as).1 bs).1 := by
  induction as with
  | nil => intro s; rfl
  | cons a as ih => intro s; simp only [List.cons_append, play]; rw [ih]

theorem legalPlay_append (cfg : Cfg) (rnd : Rat → Rat) (as bs : List Act) :
    ∀ s, LegalPlay cfg rnd s (as ++ bs) ↔
      (LegalPlay cfg rnd s as ∧ LegalPlay cfg rnd (play cfg rnd s as).1 bs) := by
  induction as with
  | nil => intro s; simp [LegalPlay, play]
  | cons a as ih =>
    intro s
    simp only [List.cons_append, LegalPlay, play]
    rw [ih]
    simp only [and_assoc]

/-- … and every `Run` is the play of a legal action list -/
theorem run_legalPlay (cfg : Cfg) (rnd : Rat → Rat) (s₀ : State) (n : Nat) (s : State)
    (hr : Run cfg rnd s₀ n s) :
    ∃ as : List Act, as.length = n ∧ LegalPlay cfg rnd s₀ as ∧ (play cfg rnd s₀ as).1 = s := by
  induction hr with
  | nil => exact ⟨[], rfl, trivial, rfl⟩
  | snoc e i d _ hs hl hd ih =>
    obtain ⟨as, hlen, hlp, hfin⟩ := ih
    refine ⟨as ++ [(e, i, d)], by simp [hlen], ?_, ?_⟩
    · rw [legalPlay_append]
      refine ⟨hlp, ?_⟩
      rw [hfin]
      exact ⟨hs, hl, hd, trivial⟩
    · rw [play_append, hfin]; rfl

/-! ### returns -/

/-- dense reward, whole episodes: along legal play the return is the increase of the volume utilisation;
feasibility and freshness of the caches are kept -/
theorem dense_return (cfg : Cfg) (rnd : Rat → Rat) (hd : cfg.dense = true) (as : List Act) :
    ∀ s, Feasible s → Fresh cfg rnd s → LegalPlay cfg rnd s as →
      utilisation (play cfg rnd s as).1 = utilisation s + (play cfg rnd s as).2 ∧
      Feasible (play cfg rnd s as).1 ∧ Fresh cfg rnd (play cfg rnd s as).1 := by
  induction as with
  | nil => intro s hF hf _; exact ⟨(Rat.add_zero _).symm, hF, hf⟩
  | cons a as ih =>
    intro s hF hf h
    obtain ⟨hs, hl, hdr, hrest⟩ := h
    have hF' := step_feasible cfg rnd s hF hf a.1 a.2.1 hs a.2.2 hl hdr
    have hf' := step_fresh cfg rnd s a.1 a.2.1 a.2.2
    obtain ⟨h1, h2, h3⟩ := ih _ hF' hf' hrest
    refine ⟨?_, h2, h3⟩
    simp only [play]
    rw [h1, dense_telescopes cfg rnd s hF.1 hf a.1 a.2.1 hs a.2.2 hl hd]
    grind

/-- sparse reward, whole episodes: if the last timestep is LAST and no earlier one, the return is the
volume utilisation of the final state (no further hypothesis) -/
theorem sparse_return (cfg : Cfg) (rnd : Rat → Rat) (hd : cfg.dense = false) (as : List Act) :
    ∀ s, EndsAtLast cfg rnd s as → (play cfg rnd s as).2 = utilisation (play cfg rnd s as).1 := by
  induction as with
  | nil => intro s h; exact h.elim
  | cons a as ih =>
    intro s h
    cases as with
    | nil =>
      have hl : (step cfg rnd s a.1 a.2.1 a.2.2).2.stepType = .last := h
      simp only [play]
      rw [sparse_reward cfg rnd s a.1 a.2.1 a.2.2 hd, if_pos hl]
      simp only [List.sum_cons, List.sum_nil]
      grind
    | cons c cs =>
      obtain ⟨hnl, hrest⟩ := h
      have := ih _ hrest
      simp only [play] at this ⊢
      rw [sparse_reward cfg rnd s a.1 a.2.1 a.2.2 hd, if_neg hnl, this]
      simp only [List.sum_cons, List.sum_nil]
      grind

theorem utilisation_reset (s : State) (h : ResetShape s) : utilisation s = 0 := by
  have hpl := h.2.2.2.2.2.2.2.2.2.1
  have : placedVolume s = 0 := by
    unfold placedVolume
    rw [hpl]
    have hz : ∀ (m i : Nat), (List.replicate m false).getD i false = false := by
      intro m i
      rw [List.getD_eq_getElem?_getD, List.getElem?_replicate]
      split <;> rfl
    have : ∀ (m : Nat) (l : List Nat), (l.map (fun i =>
        if (List.replicate m false).getD i false then (s.items.getD i default).volume else 0)).sum = 0 := by
      intro m l
      induction l with
      | nil => rfl
      | cons a as ih => rw [List.map_cons, List.sum_cons, ih, hz]; simp
    exact this _ _
  unfold utilisation
  rw [this, Rat.div_def]
  exact Rat.zero_mul _

/-- when legal play ends with a LAST timestep, nothing more can be packed in the final state -/
theorem last_complete (cfg : Cfg) (rnd : Rat → Rat) (s : State) (hF : Feasible s) (hf : Fresh cfg rnd s)
    (e i : Nat) (hs : InSpec cfg s e i) (d : EmsDraw) (hl : legal cfg rnd s e i) (hd : validDraw s e i d)
    (hlast : (step cfg rnd s e i d).2.stepType = .last) : Complete cfg rnd (step cfg rnd s e i d).1 := by
  have hv := (stepValid_iff_legal cfg rnd s hF.1 hf e i hs).mpr hl
  have hF' := step_feasible cfg rnd s hF hf e i hs d hl hd
  have hf' := step_fresh cfg rnd s e i d
  rw [← completeB_iff]
  unfold completeB
  rw [← maskOf_eq_legalMask cfg rnd _ hF'.1, ← hf'.1]
  -- the step is LAST although the action was valid: the new mask is empty
  cases hany : ((step cfg rnd s e i d).1.actionMask.any fun r => r.any id)
  · rfl
  · exfalso
    have : (step cfg rnd s e i d).2.stepType = .mid := by
      rw [step_stepType, hany, hv]
      rfl
    rw [this] at hlast
    exact StepType.noConfusion hlast

theorem final_complete (cfg : Cfg) (rnd : Rat → Rat) (as : List Act) :
    ∀ s, Feasible s → Fresh cfg rnd s → LegalPlay cfg rnd s as → EndsAtLast cfg rnd s as →
      Complete cfg rnd (play cfg rnd s as).1 := by
  induction as with
  | nil => intro s _ _ _ h; exact h.elim
  | cons a as ih =>
    intro s hF hf hlp he
    obtain ⟨hs, hl, hdr, hrest⟩ := hlp
    cases as with
    | nil => exact last_complete cfg rnd s hF hf a.1 a.2.1 hs a.2.2 hl hdr he
    | cons c cs =>
      exact ih _ (step_feasible cfg rnd s hF hf a.1 a.2.1 hs a.2.2 hl hdr) (step_fresh cfg rnd s a.1 a.2.1 a.2.2)
        hrest he.2

/-- C08, the combined episode theorem: play the SAME legal action list from a reset state under the dense and
under the sparse reward function; if the episode ends (last timestep LAST, none before) then both runs end
in the same state `s`, dense return = sparse return = volume utilisation of `s`; `s` is reached by `Run`,
is feasible and complete -/
theorem episode_returns (cfg : Cfg) (rnd : Rat → Rat) (s₀ : State) (h0 : ResetShape s₀) (hf0 : Fresh cfg rnd s₀)
    (as : List Act) (hlp : LegalPlay cfg rnd s₀ as) (he : EndsAtLast cfg rnd s₀ as) :
    (play (withDense cfg true) rnd s₀ as).1 = (play cfg rnd s₀ as).1 ∧
    (play (withDense cfg false) rnd s₀ as).1 = (play cfg rnd s₀ as).1 ∧
    (play (withDense cfg true) rnd s₀ as).2 = utilisation (play cfg rnd s₀ as).1 ∧
    (play (withDense cfg false) rnd s₀ as).2 = utilisation (play cfg rnd s₀ as).1 ∧
    Run cfg rnd s₀ as.length (play cfg rnd s₀ as).1 ∧ Feasible (play cfg rnd s₀ as).1 ∧
    Complete cfg rnd (play cfg rnd s₀ as).1 := by
  have hF0 := reset_feasible s₀ h0
  have hD := dense_return (withDense cfg true) rnd rfl as s₀ hF0 ((fresh_dense cfg true rnd s₀).2 hf0)
    ((legalPlay_dense cfg true rnd as s₀).2 hlp)
  have hS := sparse_return (withDense cfg false) rnd rfl as s₀ ((endsAtLast_dense cfg false rnd as s₀).2 he)
  rw [play_fst_dense] at hD hS
  refine ⟨play_fst_dense cfg true rnd as s₀, play_fst_dense cfg false rnd as s₀, ?_, hS,
    legalPlay_run cfg rnd as s₀ hlp, hD.2.1, final_complete cfg rnd as s₀ hF0 hf0 hlp he⟩
  have := hD.1
  rw [utilisation_reset s₀ h0] at this
  rw [this]; grind

end BinPack
