/-
BinPack (jumanji/environments/packing/bin_pack/{env,space,types,reward,generator}.py).  Import-free.
Relational (R) model, DESIGN 3.5 / Appendix A.4.

L1 = transliteration of `Space.{intersection,intersect,is_empty,is_included,volume,hyperplane}`,
`item_fits_in_item`, `space_from_item_and_location`, `_get_set_of_largest_ems`, `_get_action_mask`,
`_normalize_ems_and_items`, `_make_observation_and_extras`, `_pack_item`, `step`, `DenseReward`,
`SparseReward`.  Two things are parameters:
* `rnd : Rat → Rat` is the float32 rounding of `Space.volume()` (the volumes only decide the ORDER
  in which EMSs are shown, `jnp.argsort(-ems_volumes)`; `Jx.roundF32` in the bridge).  Rewards and
  normalised observations are exact rationals (compared with the floats within tolerance).
* `_update_ems` (delete intersected EMSs, add hyperplane intersections, filter by inclusion,
  overwrite `argmin(ems_mask)`) is NOT transliterated: the successor EMS buffer is a draw
  `d : EmsDraw` constrained by the decidable relation `EmsRel` ("every new active EMS is an old
  active EMS that does not intersect the new item, or `hyperplane(item, axis, dir) ∩ e` for an old
  active `e`").  Everything proved about `step` holds for every draw in the relation.

L2 = the rules written from the docstrings / docs/environments/bin_pack.md: `legal`, `Feasible`
(items inside the container and pairwise non-overlapping + the EMS invariant), `utilisation`,
`observe`.
-/
import JumanjiModel.Prim.Idx
import JumanjiModel.Core.TimeStep
namespace BinPack
open Jm

/-! ### spaces, items, locations (space.py, types.py) -/

structure Space where
  x1 : Int
  x2 : Int
  y1 : Int
  y2 : Int
  z1 : Int
  z2 : Int
  deriving Repr, DecidableEq, Inhabited

structure Item where
  xl : Int
  yl : Int
  zl : Int
  deriving Repr, DecidableEq, Inhabited

structure Loc where
  x : Int
  y : Int
  z : Int
  deriving Repr, DecidableEq, Inhabited

namespace Space
/-- `Space.intersection` -/
def intersection (a b : Space) : Space :=
  ⟨max a.x1 b.x1, min a.x2 b.x2, max a.y1 b.y1, min a.y2 b.y2, max a.z1 b.z1, min a.z2 b.z2⟩

/-- `Space.is_empty`: at least one dimension is negative or zero -/
def isEmpty (a : Space) : Bool := decide (a.x1 ≥ a.x2) || decide (a.y1 ≥ a.y2) || decide (a.z1 ≥ a.z2)

/-- `Space.intersect` -/
def intersect (a b : Space) : Bool := !(intersection a b).isEmpty

/-- `Space.is_included`: `a` is included in `b` -/
def isIncluded (a b : Space) : Bool :=
  decide (a.x1 ≥ b.x1) && decide (a.x2 ≤ b.x2) && decide (a.y1 ≥ b.y1) && decide (a.y2 ≤ b.y2) &&
  decide (a.z1 ≥ b.z1) && decide (a.z2 ≤ b.z2)

/-- exact volume -/
def volume (a : Space) : Int := (a.x2 - a.x1) * (a.y2 - a.y1) * (a.z2 - a.z1)

/-- `Space.volume()` as computed: three int→float conversions and two float products -/
def volumeF (rnd : Rat → Rat) (a : Space) : Rat :=
  rnd (rnd (rnd ((a.x2 - a.x1 : Int) : Rat) * rnd ((a.y2 - a.y1 : Int) : Rat)) * rnd ((a.z2 - a.z1 : Int) : Rat))
end Space

/-- the six `(axis, direction)` pairs, in the order of `itertools.product("xyz", ["lower","upper"])` -/
inductive Dir | xLower | xUpper | yLower | yUpper | zLower | zUpper
  deriving Repr, DecidableEq, Inhabited

def Dir.all : List Dir := [.xLower, .xUpper, .yLower, .yUpper, .zLower, .zUpper]

/-- `item_space.hyperplane(axis, direction).intersection(e)`: the half-space below / above the
item on one axis, cut with `e` (the ±inf bounds of the hyperplane disappear in the max / min) -/
def hyperInter (it : Space) (d : Dir) (e : Space) : Space :=
  match d with
  | .xLower => { e with x2 := min it.x1 e.x2 }
  | .xUpper => { e with x1 := max it.x2 e.x1 }
  | .yLower => { e with y2 := min it.y1 e.y2 }
  | .yUpper => { e with y1 := max it.y2 e.y1 }
  | .zLower => { e with z2 := min it.z1 e.z2 }
  | .zUpper => { e with z1 := max it.z2 e.z1 }

/-- `item_from_space` -/
def itemFromSpace (s : Space) : Item := ⟨s.x2 - s.x1, s.y2 - s.y1, s.z2 - s.z1⟩

/-- `item_fits_in_item` -/
def itemFitsInItem (a b : Item) : Bool := decide (a.xl ≤ b.xl) && decide (a.yl ≤ b.yl) && decide (a.zl ≤ b.zl)

/-- `space_from_item_and_location` -/
def spaceFrom (it : Item) (l : Loc) : Space := ⟨l.x, l.x + it.xl, l.y, l.y + it.yl, l.z, l.z + it.zl⟩

def Item.volume (it : Item) : Int := it.xl * it.yl * it.zl

/-! ### state, configuration, observation -/

structure State where
  container : Space
  ems : List Space
  emsMask : List Bool
  items : List Item
  itemsMask : List Bool
  itemsPlaced : List Bool
  itemsLoc : List Loc
  /-- cached by `_make_observation_and_extras`; `step` tests the action against this copy -/
  actionMask : List (List Bool)
  /-- cached by `_make_observation_and_extras`; `step` resolves the observed EMS id through it -/
  sortedIdx : List Int
  deriving Repr, DecidableEq

structure Cfg where
  obsNum : Nat
  normalize : Bool
  dense : Bool
  deriving Repr, DecidableEq

structure SpaceQ where
  x1 : Rat
  x2 : Rat
  y1 : Rat
  y2 : Rat
  z1 : Rat
  z2 : Rat
  deriving Repr, DecidableEq

structure ItemQ where
  xl : Rat
  yl : Rat
  zl : Rat
  deriving Repr, DecidableEq

structure Obs where
  ems : List SpaceQ
  emsMask : List Bool
  items : List ItemQ
  itemsMask : List Bool
  itemsPlaced : List Bool
  actionMask : List (List Bool)
  deriving Repr, DecidableEq

/-- the nondeterministic part of a valid step: the EMS buffer after `_update_ems` -/
structure EmsDraw where
  ems : List Space
  mask : List Bool
  deriving Repr, DecidableEq

/-! ### `jnp.argsort(-keys)` (stable): indices by decreasing key, ties by increasing index -/

/-- `a` is listed before `b` -/
def before (key : Nat → Rat) (a b : Nat) : Prop := key a > key b ∨ (key a = key b ∧ a < b)
instance (key : Nat → Rat) (a b : Nat) : Decidable (before key a b) := by unfold before; infer_instance

def insertIdx (key : Nat → Rat) (i : Nat) : List Nat → List Nat
  | [] => [i]
  | j :: js => if before key j i then j :: insertIdx key i js else i :: j :: js

def argsortDesc (keys : List Rat) : List Nat :=
  (List.range keys.length).foldr (insertIdx (fun k => keys.getD k 0)) []

/-! ### L1: `_make_observation_and_extras` -/

/-- `ems.volume() * ems_mask` -/
def emsKeys (rnd : Rat → Rat) (s : State) : List Rat :=
  List.zipWith (fun e m => Space.volumeF rnd e * (if m then 1 else 0)) s.ems s.emsMask

/-- `sorted_ems_indexes` -/
def sortedOf (rnd : Rat → Rat) (s : State) : List Nat := argsortDesc (emsKeys rnd s)

/-- `obs_ems_indexes = sorted_ems_indexes[: obs_num_ems]` -/
def obsIdx (cfg : Cfg) (rnd : Rat → Rat) (s : State) : List Nat := (sortedOf rnd s).take cfg.obsNum

def obsEms (cfg : Cfg) (rnd : Rat → Rat) (s : State) : List Space :=
  (obsIdx cfg rnd s).map (fun k => s.ems.getD k default)

def obsEmsMask (cfg : Cfg) (rnd : Rat → Rat) (s : State) : List Bool :=
  (obsIdx cfg rnd s).map (fun k => s.emsMask.getD k false)

/-- `is_action_allowed` -/
def isActionAllowed (e : Space) (em : Bool) (it : Item) (im ip : Bool) : Bool :=
  !ip && im && em && itemFitsInItem it (itemFromSpace e)

/-- `_get_action_mask` (the two nested vmaps) -/
def maskOf (cfg : Cfg) (rnd : Rat → Rat) (s : State) : List (List Bool) :=
  List.zipWith (fun e em =>
      (List.range s.items.length).map (fun i =>
        isActionAllowed e em (s.items.getD i default) (s.itemsMask.getD i false) (s.itemsPlaced.getD i true)))
    (obsEms cfg rnd s) (obsEmsMask cfg rnd s)

def Space.toQ (e : Space) : SpaceQ := ⟨e.x1, e.x2, e.y1, e.y2, e.z1, e.z2⟩
def Item.toQ (i : Item) : ItemQ := ⟨i.xl, i.yl, i.zl⟩

/-- `_normalize_ems_and_items`: every coordinate divided by the container length on its axis -/
def normSpace (c : Space) (e : Space) : SpaceQ :=
  let n := itemFromSpace c
  ⟨(e.x1 : Rat) / n.xl, (e.x2 : Rat) / n.xl, (e.y1 : Rat) / n.yl, (e.y2 : Rat) / n.yl,
   (e.z1 : Rat) / n.zl, (e.z2 : Rat) / n.zl⟩

def normItem (c : Space) (i : Item) : ItemQ :=
  let n := itemFromSpace c
  ⟨(i.xl : Rat) / n.xl, (i.yl : Rat) / n.yl, (i.zl : Rat) / n.zl⟩

/-- `_make_observation_and_extras`: refreshes the two cached fields and builds the observation -/
def makeObs (cfg : Cfg) (rnd : Rat → Rat) (s : State) : State × Obs :=
  let sorted := sortedOf rnd s
  let oe := obsEms cfg rnd s
  let om := obsEmsMask cfg rnd s
  let am := maskOf cfg rnd s
  let s' := { s with sortedIdx := sorted.map (fun (k : Nat) => (k : Int)), actionMask := am }
  let o : Obs :=
    { ems := if cfg.normalize then oe.map (normSpace s.container) else oe.map Space.toQ
      emsMask := om
      items := if cfg.normalize then s.items.map (normItem s.container) else s.items.map Item.toQ
      itemsMask := s.itemsMask, itemsPlaced := s.itemsPlaced, actionMask := am }
  (s', o)

/-! ### L1: `step` -/

/-- volume utilisation: `sum(item_volume(items) * items_placed) / container.volume()` -/
def placedVolume (s : State) : Int :=
  ((List.range s.items.length).map (fun i =>
    if s.itemsPlaced.getD i false then (s.items.getD i default).volume else 0)).sum

def utilisation (s : State) : Rat := (placedVolume s : Rat) / (s.container.volume : Rat)

/-- `action_is_valid = state.action_mask[tuple(action)]` (the cached mask) -/
def stepValid (s : State) (e i : Int) : Bool := Jx.getWC (Jx.getWC s.actionMask [] e) false i

/-- the space the chosen item occupies if the action `(e, i)` is played -/
def newItemSpace (s : State) (e i : Int) : Space :=
  let emsId := Jx.getWC s.sortedIdx 0 e
  let em := Jx.getWC s.ems default emsId
  let loc := Jx.setWD s.itemsLoc i ⟨em.x1, em.y1, em.z1⟩
  spaceFrom (Jx.getWC s.items default i) (Jx.getWC loc default i)

/-- `_pack_item`, with the result of `_update_ems` supplied by the draw -/
def packItem (s : State) (emsId i : Int) (d : EmsDraw) : State :=
  let em := Jx.getWC s.ems default emsId
  { s with itemsLoc := Jx.setWD s.itemsLoc i ⟨em.x1, em.y1, em.z1⟩
           itemsPlaced := Jx.setWD s.itemsPlaced i true
           ems := d.ems, emsMask := d.mask }

/-- `DenseReward` / `SparseReward` -/
def reward (dense : Bool) (s : State) (i : Int) (s' : State) (valid done : Bool) : Rat :=
  if dense then
    (if valid then ((Jx.getWC s.items default i).volume : Rat) / (s.container.volume : Rat) else 0)
  else (if done then utilisation s' else 0)

def step (cfg : Cfg) (rnd : Rat → Rat) (s : State) (e i : Int) (d : EmsDraw) : State × TimeStep Obs :=
  let valid := stepValid s e i
  let emsId := Jx.getWC s.sortedIdx 0 e
  let s1 := if valid then packItem s emsId i d else s
  let (s2, o) := makeObs cfg rnd s1
  let done := !(s2.actionMask.any (fun r => r.any id)) || !valid
  let r := reward cfg.dense s i s2 valid done
  (s2, condLast done [r] o)

/-! ### the relation on `_update_ems` (DESIGN A.4) -/

/-- every new active EMS is an old active EMS that does not intersect the new item, or the cut of
an old active EMS with one of the six half-spaces around the item; the buffer keeps its size -/
def EmsRel (old : List Space) (oldMask : List Bool) (it : Space) (d : EmsDraw) : Prop :=
  d.ems.length = old.length ∧ d.mask.length = old.length ∧
  ∀ j, j < old.length → d.mask.getD j false = true →
    ∃ k, k < old.length ∧ oldMask.getD k false = true ∧
      ((d.ems.getD j default = old.getD k default ∧ it.intersect (old.getD k default) = false) ∨
       ∃ dir, dir ∈ Dir.all ∧ d.ems.getD j default = hyperInter it dir (old.getD k default))

instance (old : List Space) (oldMask : List Bool) (it : Space) (d : EmsDraw) :
    Decidable (EmsRel old oldMask it d) := by unfold EmsRel; infer_instance

/-- the draw is admissible for the action `(e, i)` in `s` -/
def validDraw (s : State) (e i : Int) (d : EmsDraw) : Prop :=
  EmsRel s.ems s.emsMask (newItemSpace s e i) d

instance (s : State) (e i : Int) (d : EmsDraw) : Decidable (validDraw s e i d) := by
  unfold validDraw; infer_instance

/-! ### L2: the rules -/

/-- array shapes are consistent -/
def WF (s : State) : Prop :=
  s.emsMask.length = s.ems.length ∧ s.itemsMask.length = s.items.length ∧
  s.itemsPlaced.length = s.items.length ∧ s.itemsLoc.length = s.items.length

instance (s : State) : Decidable (WF s) := by unfold WF; infer_instance

/-- the EMS shown in slot `e` of the observation: the `e`-th in decreasing order of volume -/
def shownEms (rnd : Rat → Rat) (s : State) (e : Nat) : Nat := (sortedOf rnd s).getD e 0

/-- item `i` may be put into EMS `k`: the item exists and is not yet placed, the EMS is active and
the item is not larger than the EMS on any axis -/
def canPack (s : State) (k i : Nat) : Prop :=
  i < s.items.length ∧ s.itemsPlaced.getD i true = false ∧ s.itemsMask.getD i false = true ∧
  s.emsMask.getD k false = true ∧
  (s.items.getD i default).xl ≤ (s.ems.getD k default).x2 - (s.ems.getD k default).x1 ∧
  (s.items.getD i default).yl ≤ (s.ems.getD k default).y2 - (s.ems.getD k default).y1 ∧
  (s.items.getD i default).zl ≤ (s.ems.getD k default).z2 - (s.ems.getD k default).z1

instance (s : State) (k i : Nat) : Decidable (canPack s k i) := by unfold canPack; infer_instance

/-- action `(e, i)` = "put item `i` into the corner of the `e`-th largest EMS" is allowed iff the
slot is one of the `obs_num_ems` shown ones and the item may be put into the EMS shown there -/
def legal (cfg : Cfg) (rnd : Rat → Rat) (s : State) (e i : Nat) : Prop :=
  e < cfg.obsNum ∧ e < s.ems.length ∧ canPack s (shownEms rnd s e) i

instance (cfg : Cfg) (rnd : Rat → Rat) (s : State) (e i : Nat) : Decidable (legal cfg rnd s e i) := by
  unfold legal; infer_instance

/-- L2 legality in the layout of the `action_mask` (`obs_num_ems × max_num_items`); entry `[e][i]`
is `decide (legal cfg rnd s e i)` (lemma `legalMask_getD`), with the sort hoisted out of the loops -/
def legalMask (cfg : Cfg) (rnd : Rat → Rat) (s : State) : List (List Bool) :=
  let sorted := sortedOf rnd s
  (List.range (min cfg.obsNum s.ems.length)).map (fun e =>
    let k := sorted.getD e 0
    (List.range s.items.length).map (fun i => decide (canPack s k i)))

/-- the space occupied by item `i` -/
def placedSpace (s : State) (i : Nat) : Space := spaceFrom (s.items.getD i default) (s.itemsLoc.getD i default)

/-- placed items lie inside the container -/
def ItemsInside (s : State) : Prop :=
  ∀ i, i < s.items.length → s.itemsPlaced.getD i false = true →
    (placedSpace s i).isIncluded s.container = true

/-- placed items do not overlap pairwise -/
def ItemsDisjoint (s : State) : Prop :=
  ∀ i, i < s.items.length → ∀ j, j < s.items.length → i ≠ j → s.itemsPlaced.getD i false = true →
    s.itemsPlaced.getD j false = true → (placedSpace s i).intersect (placedSpace s j) = false

/-- every active EMS lies inside the container -/
def EmsInside (s : State) : Prop :=
  ∀ k, k < s.ems.length → s.emsMask.getD k false = true →
    (s.ems.getD k default).isIncluded s.container = true

/-- no active EMS intersects a placed item -/
def EmsClear (s : State) : Prop :=
  ∀ k, k < s.ems.length → s.emsMask.getD k false = true → ∀ i, i < s.items.length →
    s.itemsPlaced.getD i false = true → (s.ems.getD k default).intersect (placedSpace s i) = false

instance (s : State) : Decidable (ItemsInside s) := by unfold ItemsInside; infer_instance
instance (s : State) : Decidable (ItemsDisjoint s) := by unfold ItemsDisjoint; infer_instance
instance (s : State) : Decidable (EmsInside s) := by unfold EmsInside; infer_instance
instance (s : State) : Decidable (EmsClear s) := by unfold EmsClear; infer_instance

/-- only the part that speaks about the items: the problem's hard constraint (C06) -/
def ItemsFeasible (s : State) : Prop := ItemsInside s ∧ ItemsDisjoint s

instance (s : State) : Decidable (ItemsFeasible s) := by unfold ItemsFeasible; infer_instance

/-- hard constraints (C06): placed items lie inside the container and do not overlap pairwise;
together with the EMS invariant that makes this inductive: every active EMS lies inside the
container and intersects no placed item -/
def Feasible (s : State) : Prop := WF s ∧ ItemsInside s ∧ ItemsDisjoint s ∧ EmsInside s ∧ EmsClear s

instance (s : State) : Decidable (Feasible s) := by unfold Feasible; infer_instance

/-- the cached fields are what `_make_observation_and_extras` computes from the rest -/
def Fresh (cfg : Cfg) (rnd : Rat → Rat) (s : State) : Prop :=
  s.actionMask = maskOf cfg rnd s ∧ s.sortedIdx = (sortedOf rnd s).map (fun (k : Nat) => (k : Int))

instance (cfg : Cfg) (rnd : Rat → Rat) (s : State) : Decidable (Fresh cfg rnd s) := by
  unfold Fresh; infer_instance

/-- a packing to which nothing more can be added through the shown EMSs (how an episode of legal
play ends) -/
def Complete (cfg : Cfg) (rnd : Rat → Rat) (s : State) : Prop :=
  ∀ e i, ¬ legal cfg rnd s e i

/-- executable form of `Complete` (lemma `completeB_iff`) -/
def completeB (cfg : Cfg) (rnd : Rat → Rat) (s : State) : Bool :=
  !((legalMask cfg rnd s).any (fun r => r.any id))

/-- documented observation: the `obs_num_ems` largest EMSs in decreasing order of volume with their
activity bits, all items, both divided by the container dimensions when `normalize_dimensions`,
the item masks, and the legality of every `(slot, item)` pair -/
def observe (cfg : Cfg) (rnd : Rat → Rat) (s : State) : Obs :=
  let shown := (List.range (min cfg.obsNum s.ems.length)).map (shownEms rnd s)
  let c := itemFromSpace s.container
  let scale (v l : Int) : Rat := if cfg.normalize then (v : Rat) / (l : Rat) else (v : Rat)
  { ems := shown.map (fun k => let e := s.ems.getD k default
                               ⟨scale e.x1 c.xl, scale e.x2 c.xl, scale e.y1 c.yl, scale e.y2 c.yl,
                                scale e.z1 c.zl, scale e.z2 c.zl⟩)
    emsMask := shown.map (fun k => s.emsMask.getD k false)
    items := s.items.map (fun i => ⟨scale i.xl c.xl, scale i.yl c.yl, scale i.zl c.zl⟩)
    itemsMask := s.itemsMask
    itemsPlaced := s.itemsPlaced
    actionMask := legalMask cfg rnd s }

/-- the part of the state an invalid action must leave untouched (everything except the two
recomputed caches) -/
def problemPart (s : State) : State := { s with actionMask := [], sortedIdx := [] }

/-! ### generator certificates (C10) -/

/-- the reset state of every shipped generator: one active EMS equal to the container, no item
placed, all locations zero, container anchored at the origin with positive sides -/
def ResetShape (s : State) : Prop :=
  WF s ∧ s.container.x1 = 0 ∧ s.container.y1 = 0 ∧ s.container.z1 = 0 ∧
  0 < s.container.x2 ∧ 0 < s.container.y2 ∧ 0 < s.container.z2 ∧
  s.ems.head? = some s.container ∧ s.emsMask = (List.range s.ems.length).map (fun k => decide (k = 0)) ∧
  s.itemsPlaced = List.replicate s.items.length false ∧
  s.itemsLoc = List.replicate s.items.length ⟨0, 0, 0⟩

instance (s : State) : Decidable (ResetShape s) := by unfold ResetShape; infer_instance

/-- every present item has positive sides -/
def ItemsPositive (s : State) : Prop :=
  ∀ i, i < s.items.length → s.itemsMask.getD i false = true →
    0 < (s.items.getD i default).xl ∧ 0 < (s.items.getD i default).yl ∧ 0 < (s.items.getD i default).zl

instance (s : State) : Decidable (ItemsPositive s) := by unfold ItemsPositive; infer_instance

/-- total volume of the present items -/
def presentVolume (s : State) : Int :=
  ((List.range s.items.length).map (fun i =>
    if s.itemsMask.getD i false then (s.items.getD i default).volume else 0)).sum

/-- certificate that a state (the generator's `generate_solution`) is a perfect packing of the
instance: exactly the present items are placed, inside the container, pairwise non-overlapping,
and their volumes add up to the container volume -/
def PerfectPacking (s : State) : Prop :=
  WF s ∧ s.itemsPlaced = s.itemsMask ∧ ItemsFeasible s ∧ placedVolume s = s.container.volume

instance (s : State) : Decidable (PerfectPacking s) := by unfold PerfectPacking; infer_instance

end BinPack
