/-
BinPack (jumanji/environments/packing/bin_pack/{env,space,types,reward,generator}.py).  Import-free.
Relational (R) model, DESIGN 3.5 / Appendix A.4.

L1 = transliteration of `Space.{intersection,intersect,is_empty,is_included,volume,hyperplane}`,
`item_fits_in_item`, `space_from_item_and_location`, `_get_set_of_largest_ems`, `_get_action_mask`,
`_normalize_ems_and_items`, `_make_observation_and_extras`, `_pack_item`, `step`, `DenseReward`,
`SparseReward`.  Two things are parameters:
* `rnd : Rat → Rat` is the float32 rounding of `Space.volume()` (the volumes only decide the ORDER
  in which EMSs are shown, `jnp.argsort(-ems_volumes)`; `Jx.roundF32` in the bridge).  Rewards and
  normalised observations are exact rationals (compared with the floats within tolerance).
* `_update_ems` / `_get_intersections_dict` / `_add_ems` exist in two forms.  The L1 transliteration
  `updateEms` (delete intersected EMSs, the six families of hyperplane cuts, emptiness / inclusion
  filtering, the scan writing to `argmin(ems_mask)`) gives the deterministic step `step₁`.  The
  relational form: `step … (d : EmsDraw)` takes the successor EMS buffer as a draw constrained by the
  decidable relation `EmsRel` ("every new active EMS is an old active EMS that does not intersect the
  new item, or `hyperplane(item, axis, dir) ∩ e` for an old active `e`"); what is proved about it holds
  for every draw in the relation, and `updateEms` is in the relation (UpdateEms.lean).
* `RandomGenerator`'s splitting loop is transliterated as `splitGenerate` (list of active spaces, the
  float32 cut arithmetic literal, random choices as `SplitDraw`s).

L2 = the rules written from the docstrings / docs/environments/bin_pack.md: `legal`, `Feasible`
(items inside the container and pairwise non-overlapping + the EMS invariant), `utilisation`,
`observe`.
-/
import JumanjiModel.Prim.Idx
import JumanjiModel.Core.TimeStep
namespace BinPack
open Jm

/-! ### spaces, items, locations (space.py, types.py) -/

structure Space where
  x1 : Int
  x2 : Int
  y1 : Int
  y2 : Int
  z1 : Int
  z2 : Int
  deriving Repr, DecidableEq, Inhabited

structure Item where
  xl : Int
  yl : Int
  zl : Int
  deriving Repr, DecidableEq, Inhabited

structure Loc where
  x : Int
  y : Int
  z : Int
  deriving Repr, DecidableEq, Inhabited

namespace Space
/-- `Space.intersection` -/
def intersection (a b : Space) : Space :=
  ⟨max a.x1 b.x1, min a.x2 b.x2, max a.y1 b.y1, min a.y2 b.y2, max a.z1 b.z1, min a.z2 b.z2⟩

/-- `Space.is_empty`: at least one dimension is negative or zero -/
def isEmpty (a : Space) : Bool := decide (a.x1 ≥ a.x2) || decide (a.y1 ≥ a.y2) || decide (a.z1 ≥ a.z2)

/-- `Space.intersect` -/
def intersect (a b : Space) : Bool := !(intersection a b).isEmpty

/-- `Space.is_included`: `a` is included in `b` -/
def isIncluded (a b : Space) : Bool :=
  decide (a.x1 ≥ b.x1) && decide (a.x2 ≤ b.x2) && decide (a.y1 ≥ b.y1) && decide (a.y2 ≤ b.y2) &&
  decide (a.z1 ≥ b.z1) && decide (a.z2 ≤ b.z2)

/-- exact volume -/
def volume (a : Space) : Int := (a.x2 - a.x1) * (a.y2 - a.y1) * (a.z2 - a.z1)

/-- `Space.volume()` as computed: three int→float conversions and two float products -/
def volumeF (rnd : Rat → Rat) (a : Space) : Rat :=
  rnd (rnd (rnd ((a.x2 - a.x1 : Int) : Rat) * rnd ((a.y2 - a.y1 : Int) : Rat)) * rnd ((a.z2 - a.z1 : Int) : Rat))
end Space

/-- the six `(axis, direction)` pairs, in the order of `itertools.product("xyz", ["lower","upper"])` -/
inductive Dir | xLower | xUpper | yLower | yUpper | zLower | zUpper
  deriving Repr, DecidableEq, Inhabited

def Dir.all : List Dir := [.xLower, .xUpper, .yLower, .yUpper, .zLower, .zUpper]

/-- `item_space.hyperplane(axis, direction).intersection(e)`: the half-space below / above the
item on one axis, cut with `e` (the ±inf bounds of the hyperplane disappear in the max / min) -/
def hyperInter (it : Space) (d : Dir) (e : Space) : Space :=
  match d with
  | .xLower => { e with x2 := min it.x1 e.x2 }
  | .xUpper => { e with x1 := max it.x2 e.x1 }
  | .yLower => { e with y2 := min it.y1 e.y2 }
  | .yUpper => { e with y1 := max it.y2 e.y1 }
  | .zLower => { e with z2 := min it.z1 e.z2 }
  | .zUpper => { e with z1 := max it.z2 e.z1 }

/-- `item_from_space` -/
def itemFromSpace (s : Space) : Item := ⟨s.x2 - s.x1, s.y2 - s.y1, s.z2 - s.z1⟩

/-- `item_fits_in_item` -/
def itemFitsInItem (a b : Item) : Bool := decide (a.xl ≤ b.xl) && decide (a.yl ≤ b.yl) && decide (a.zl ≤ b.zl)

/-- `space_from_item_and_location` -/
def spaceFrom (it : Item) (l : Loc) : Space := ⟨l.x, l.x + it.xl, l.y, l.y + it.yl, l.z, l.z + it.zl⟩

def Item.volume (it : Item) : Int := it.xl * it.yl * it.zl

/-! ### state, configuration, observation -/

structure State where
  container : Space
  ems : List Space
  emsMask : List Bool
  items : List Item
  itemsMask : List Bool
  itemsPlaced : List Bool
  itemsLoc : List Loc
  /-- cached by `_make_observation_and_extras`; `step` tests the action against this copy -/
  actionMask : List (List Bool)
  /-- cached by `_make_observation_and_extras`; `step` resolves the observed EMS id through it -/
  sortedIdx : List Int
  deriving Repr, DecidableEq

structure Cfg where
  obsNum : Nat
  normalize : Bool
  dense : Bool
  deriving Repr, DecidableEq

structure SpaceQ where
  x1 : Rat
  x2 : Rat
  y1 : Rat
  y2 : Rat
  z1 : Rat
  z2 : Rat
  deriving Repr, DecidableEq

structure ItemQ where
  xl : Rat
  yl : Rat
  zl : Rat
  deriving Repr, DecidableEq

structure Obs where
  ems : List SpaceQ
  emsMask : List Bool
  items : List ItemQ
  itemsMask : List Bool
  itemsPlaced : List Bool
  actionMask : List (List Bool)
  deriving Repr, DecidableEq

/-- the nondeterministic part of a valid step: the EMS buffer after `_update_ems` -/
structure EmsDraw where
  ems : List Space
  mask : List Bool
  deriving Repr, DecidableEq

/-! ### `jnp.argsort(-keys)` (stable): indices by decreasing key, ties by increasing index -/

/-- `a` is listed before `b` -/
def before (key : Nat → Rat) (a b : Nat) : Prop := key a > key b ∨ (key a = key b ∧ a < b)
instance (key : Nat → Rat) (a b : Nat) : Decidable (before key a b) := by unfold before; infer_instance

def insertIdx (key : Nat → Rat) (i : Nat) : List Nat → List Nat
  | [] => [i]
  | j :: js => if before key j i then j :: insertIdx key i js else i :: j :: js

def argsortDesc (keys : List Rat) : List Nat :=
  (List.range keys.length).foldr (insertIdx (fun k => keys.getD k 0)) []

/-! ### L1: `_make_observation_and_extras` -/

/-- `ems.volume() * ems_mask` -/
def emsKeys (rnd : Rat → Rat) (s : State) : List Rat :=
  List.zipWith (fun e m => Space.volumeF rnd e * (if m then 1 else 0)) s.ems s.emsMask

/-- `sorted_ems_indexes` -/
def sortedOf (rnd : Rat → Rat) (s : State) : List Nat := argsortDesc (emsKeys rnd s)

/-- `obs_ems_indexes = sorted_ems_indexes[: obs_num_ems]` -/
def obsIdx (cfg : Cfg) (rnd : Rat → Rat) (s : State) : List Nat := (sortedOf rnd s).take cfg.obsNum

def obsEms (cfg : Cfg) (rnd : Rat → Rat) (s : State) : List Space :=
  (obsIdx cfg rnd s).map (fun k => s.ems.getD k default)

def obsEmsMask (cfg : Cfg) (rnd : Rat → Rat) (s : State) : List Bool :=
  (obsIdx cfg rnd s).map (fun k => s.emsMask.getD k false)

/-- `is_action_allowed` -/
def isActionAllowed (e : Space) (em : Bool) (it : Item) (im ip : Bool) : Bool :=
  !ip && im && em && itemFitsInItem it (itemFromSpace e)

/-- `_get_action_mask` (the two nested vmaps) -/
def maskOf (cfg : Cfg) (rnd : Rat → Rat) (s : State) : List (List Bool) :=
  List.zipWith (fun e em =>
      (List.range s.items.length).map (fun i =>
        isActionAllowed e em (s.items.getD i default) (s.itemsMask.getD i false) (s.itemsPlaced.getD i true)))
    (obsEms cfg rnd s) (obsEmsMask cfg rnd s)

def Space.toQ (e : Space) : SpaceQ := ⟨e.x1, e.x2, e.y1, e.y2, e.z1, e.z2⟩
def Item.toQ (i : Item) : ItemQ := ⟨i.xl, i.yl, i.zl⟩

/-- `_normalize_ems_and_items`: every coordinate divided by the container length on its axis -/
def normSpace (c : Space) (e : Space) : SpaceQ :=
  let n := itemFromSpace c
  ⟨(e.x1 : Rat) / n.xl, (e.x2 : Rat) / n.xl, (e.y1 : Rat) / n.yl, (e.y2 : Rat) / n.yl,
   (e.z1 : Rat) / n.zl, (e.z2 : Rat) / n.zl⟩

def normItem (c : Space) (i : Item) : ItemQ :=
  let n := itemFromSpace c
  ⟨(i.xl : Rat) / n.xl, (i.yl : Rat) / n.yl, (i.zl : Rat) / n.zl⟩

/-- `_make_observation_and_extras`: refreshes the two cached fields and builds the observation -/
def makeObs (cfg : Cfg) (rnd : Rat → Rat) (s : State) : State × Obs :=
  let sorted := sortedOf rnd s
  let oe := obsEms cfg rnd s
  let om := obsEmsMask cfg rnd s
  let am := maskOf cfg rnd s
  let s' := { s with sortedIdx := sorted.map (fun (k : Nat) => (k : Int)), actionMask := am }
  let o : Obs :=
    { ems := if cfg.normalize then oe.map (normSpace s.container) else oe.map Space.toQ
      emsMask := om
      items := if cfg.normalize then s.items.map (normItem s.container) else s.items.map Item.toQ
      itemsMask := s.itemsMask, itemsPlaced := s.itemsPlaced, actionMask := am }
  (s', o)

/-! ### L1: `step` -/

/-- volume utilisation: `sum(item_volume(items) * items_placed) / container.volume()` -/
def placedVolume (s : State) : Int :=
  ((List.range s.items.length).map (fun i =>
    if s.itemsPlaced.getD i false then (s.items.getD i default).volume else 0)).sum

def utilisation (s : State) : Rat := (placedVolume s : Rat) / (s.container.volume : Rat)

/-- `action_is_valid = state.action_mask[tuple(action)]` (the cached mask) -/
def stepValid (s : State) (e i : Int) : Bool := Jx.getWC (Jx.getWC s.actionMask [] e) false i

/-- the space the chosen item occupies if the action `(e, i)` is played -/
def newItemSpace (s : State) (e i : Int) : Space :=
  let emsId := Jx.getWC s.sortedIdx 0 e
  let em := Jx.getWC s.ems default emsId
  let loc := Jx.setWD s.itemsLoc i ⟨em.x1, em.y1, em.z1⟩
  spaceFrom (Jx.getWC s.items default i) (Jx.getWC loc default i)

/-- `_pack_item`, with the result of `_update_ems` supplied by the draw -/
def packItem (s : State) (emsId i : Int) (d : EmsDraw) : State :=
  let em := Jx.getWC s.ems default emsId
  { s with itemsLoc := Jx.setWD s.itemsLoc i ⟨em.x1, em.y1, em.z1⟩
           itemsPlaced := Jx.setWD s.itemsPlaced i true
           ems := d.ems, emsMask := d.mask }

/-- `DenseReward` / `SparseReward` -/
def reward (dense : Bool) (s : State) (i : Int) (s' : State) (valid done : Bool) : Rat :=
  if dense then
    (if valid then ((Jx.getWC s.items default i).volume : Rat) / (s.container.volume : Rat) else 0)
  else (if done then utilisation s' else 0)

def step (cfg : Cfg) (rnd : Rat → Rat) (s : State) (e i : Int) (d : EmsDraw) : State × TimeStep Obs :=
  let valid := stepValid s e i
  let emsId := Jx.getWC s.sortedIdx 0 e
  let s1 := if valid then packItem s emsId i d else s
  let (s2, o) := makeObs cfg rnd s1
  let done := !(s2.actionMask.any (fun r => r.any id)) || !valid
  let r := reward cfg.dense s i s2 valid done
  (s2, condLast done [r] o)

/-! ### the relation on `_update_ems` (DESIGN A.4) -/

/-- every new active EMS is an old active EMS that does not intersect the new item, or the cut of
an old active EMS with one of the six half-spaces around the item; the buffer keeps its size -/
def EmsRel (old : List Space) (oldMask : List Bool) (it : Space) (d : EmsDraw) : Prop :=
  d.ems.length = old.length ∧ d.mask.length = old.length ∧
  ∀ j, j < old.length → d.mask.getD j false = true →
    ∃ k, k < old.length ∧ oldMask.getD k false = true ∧
      ((d.ems.getD j default = old.getD k default ∧ it.intersect (old.getD k default) = false) ∨
       ∃ dir, dir ∈ Dir.all ∧ d.ems.getD j default = hyperInter it dir (old.getD k default))

instance (old : List Space) (oldMask : List Bool) (it : Space) (d : EmsDraw) :
    Decidable (EmsRel old oldMask it d) := by unfold EmsRel; infer_instance

/-- the draw is admissible for the action `(e, i)` in `s` -/
def validDraw (s : State) (e i : Int) (d : EmsDraw) : Prop :=
  EmsRel s.ems s.emsMask (newItemSpace s e i) d

instance (s : State) (e i : Int) (d : EmsDraw) : Decidable (validDraw s e i d) := by
  unfold validDraw; infer_instance

/-! ### L1: `_update_ems`, `_get_intersections_dict`, `_add_ems` (env.py)

Transliteration of the code that maintains the EMS buffer when an item is packed.  All arrays have the
length `n = max_num_ems` of the buffer.  The cuts `hyperplane(item, axis, dir) ∩ ems[k]` are float arrays in
the code (the hyperplane has ±inf bounds) that are cast back to int32 when written into the buffer; they
hold integers, exact below 2^24, and are modelled as integers. -/

/-- `ems_mask_after_intersect = ~item_space.intersect(state.ems) & state.ems_mask` -/
def maskAfterIntersect (it : Space) (ems : List Space) (mask : List Bool) : List Bool :=
  List.zipWith (fun e m => !(it.intersect e) && m) ems mask

/-- `intersections_ems_dict[dir] = item_space.hyperplane(axis, direction).intersection(state.ems)` -/
def interEms (it : Space) (ems : List Space) (d : Dir) : List Space := ems.map (hyperInter it d)

/-- the initial `intersections_mask_dict[dir]`:
`state.ems_mask & ~inter.is_empty() & ~(inter.is_included(state.ems) & ems_mask_after_intersect)` -/
def interMask0 (it : Space) (ems : List Space) (mask : List Bool) (d : Dir) : List Bool :=
  List.zipWith (fun (em : Space × Bool) (mai : Bool) =>
      em.2 && !(hyperInter it d em.1).isEmpty && !((hyperInter it d em.1).isIncluded em.1 && mai))
    (ems.zip mask) (maskAfterIntersect it ems mask)

/-- `to_remove` of one (direction, alternative direction) pair: entry `a` is set when some `b` (`b ≠ a` when the
two directions are the same) has `dE[a] ⊆ aE[b]` under both masks and not `aE[b] ⊆ dE[a]` under both masks
(`directions_included_in_alt_directions & ~alt_directions_included_in_directions.T`, `any` over `b`).  The two
masks are tested first (both conjuncts of the code contain `dM[a] & aM[b]`, so the value is the same) -/
def toRemove (same : Bool) (dE aE : List Space) (dM aM : List Bool) : List Bool :=
  (dE.zip dM).zipIdx.map fun xa =>
    xa.1.2 && (aE.zip aM).zipIdx.any fun yb =>
      yb.1.2 &&
      (let offDiag := !(same && xa.2 == yb.2)
       let dInA := xa.1.1.isIncluded yb.1.1 && offDiag
       let aInD := yb.1.1.isIncluded xa.1.1 && offDiag
       dInA && !aInD)

/-- `mask &= ~to_remove` -/
def andNot (m r : List Bool) : List Bool := List.zipWith (fun a b => a && !b) m r

/-- position of a direction in the dictionaries (`itertools.product("xyz", ["lower", "upper"])`) -/
def Dir.idx : Dir → Nat
  | .xLower => 0 | .xUpper => 1 | .yLower => 2 | .yUpper => 3 | .zLower => 4 | .zUpper => 5

/-- the double loop of `_get_intersections_dict` over (direction, alternative direction); `M` is
`intersections_mask_dict` as a list in dictionary order.  As in the Python, the mask of the outer direction used
inside `to_remove` is the one read when the outer iteration starts (`direction_intersections_mask`), the mask of the
alternative direction is the current dictionary entry, and the dictionary entry of the outer direction is updated
after every inner iteration -/
def filterMasks (I : Dir → List Space) (M0 : List (List Bool)) : List (List Bool) :=
  Dir.all.foldl (fun M d =>
    let dM := M.getD d.idx []
    Dir.all.foldl (fun M a =>
      let rm := toRemove (decide (d = a)) (I d) (I a) dM (M.getD a.idx [])
      List.set M d.idx (andNot (M.getD d.idx []) rm)) M) M0

/-- `add_one_ems` (the body of the scan in `_add_ems`): the candidate `c.1` with flag `c.2` is written to slot
`argmin(ems_mask)` (the first inactive slot; slot 0 when all are active) unless it is included in an active
EMS of the buffer -/
def addOneEms (st : List Space × List Bool) (c : Space × Bool) : List Space × List Bool :=
  if c.2 && !((List.zipWith (fun (e : Space) (m : Bool) => m && c.1.isIncluded e) st.1 st.2).any id) then
    (List.set st.1 (Jx.argminBool st.2) c.1, List.set st.2 (Jx.argminBool st.2) true)
  else st

/-- the candidates in the order `_update_ems` feeds them to `_add_ems`: direction by direction (dictionary
order), inside a direction by increasing slot number (`jax.lax.scan`) -/
def emsCandidates (it : Space) (ems : List Space) (mask : List Bool) : List (Space × Bool) :=
  let I := interEms it ems
  let M := filterMasks I (Dir.all.map (interMask0 it ems mask))
  Dir.all.flatMap (fun d => (I d).zip (M.getD d.idx []))

/-- `_update_ems` on the buffer `(ems, mask)` for the new item space `it` -/
def updateEmsCore (it : Space) (ems : List Space) (mask : List Bool) : EmsDraw :=
  let r := (emsCandidates it ems mask).foldl addOneEms (ems, maskAfterIntersect it ems mask)
  ⟨r.1, r.2⟩

/-- `_update_ems(state, item_id)` as called by `_pack_item` for the action `(e, i)` -/
def updateEms (s : State) (e i : Int) : EmsDraw := updateEmsCore (newItemSpace s e i) s.ems s.emsMask

/-- the deterministic L1 step: `step` with the EMS update computed by the transliterated `_update_ems` -/
def step₁ (cfg : Cfg) (rnd : Rat → Rat) (s : State) (e i : Int) : State × TimeStep Obs :=
  step cfg rnd s e i (updateEms s e i)

/-- the two halves of `b` cut at coordinate `p` of axis `ax` (0 = x, 1 = y, otherwise z) -/
def cutLo (ax : Nat) (b : Space) (p : Int) : Space :=
  match ax with | 0 => { b with x2 := p } | 1 => { b with y2 := p } | _ => { b with z2 := p }
def cutHi (ax : Nat) (b : Space) (p : Int) : Space :=
  match ax with | 0 => { b with x1 := p } | 1 => { b with y1 := p } | _ => { b with z1 := p }
def axLo (ax : Nat) (b : Space) : Int := match ax with | 0 => b.x1 | 1 => b.y1 | _ => b.z1
def axHi (ax : Nat) (b : Space) : Int := match ax with | 0 => b.x2 | 1 => b.y2 | _ => b.z2

/-! ### L1: `RandomGenerator._split_container_into_items_spaces`, `_split_along_axis`, `_split_item_once`,
`_split_item_multiple_times` (generator.py)

The generator keeps a buffer of `max_num_items` spaces with a mask; here the state is the LIST of the spaces whose
mask is set (the slot bookkeeping — `argmin(items_mask)` as free slot, copying the coordinates of the split space to
it — is abstracted: the order of a tiling is irrelevant, `tiles_perm`).  What is transliterated literally is the
arithmetic that decides WHERE the cuts are: the float32 expressions `self._split_eps * axis_len`,
`axis_len / num_split`, `i * axis_len / num_split`, `(i + 1) * axis_len / num_split` in the order the code evaluates
them (int32 → float32 conversion of each operand, one rounding per operation, `jnp.array(·, jnp.int32)` truncating
towards zero), with `rnd` the float32 rounding.  The random choices of one iteration of the `while_loop` are a
`SplitDraw`. -/

structure GenCfg where
  /-- `max_num_items` -/
  maxItems : Nat
  /-- `_split_num_same_items` -/
  splitNum : Nat
  /-- `_split_eps` -/
  eps : Rat
  deriving Repr, DecidableEq

structure SplitDraw where
  /-- `jax.random.randint(axis_key, (), 0, 3)` -/
  axis : Nat
  /-- `item_id = jax.random.choice(…, p = where(items_mask, item_length, 0))`, as a position in the list of active spaces -/
  item : Nat
  /-- `jax.random.uniform(mode_key) < prob_split_one_item` -/
  once : Bool
  /-- `axis_split = jax.random.randint(split_key, (), axis_min, axis_max)` (used when `once`) -/
  split : Int
  /-- `num_split = jax.random.randint(split_key, (), 1, split_num_same_items + 1)` (used otherwise) -/
  num : Nat
  deriving Repr, DecidableEq

/-- `jnp.array(x, jnp.int32)` of a float: truncation towards zero -/
def truncI (q : Rat) : Int := if 0 ≤ q then q.floor else -((-q).floor)

/-- the box `b` with its extent on axis `ax` replaced by `[lo, hi]` (`coord.at[free_index].set(coord[item_id])`
followed by the two assignments on the axis) -/
def setAx (ax : Nat) (b : Space) (lo hi : Int) : Space := cutLo ax (cutHi ax b lo) hi

/-- `initial_item_axis_1 + jnp.array(j * axis_len / num_split, jnp.int32)`: int32 product, both operands converted
to float32, float32 division, truncation -/
def splitCut (rnd : Rat → Rat) (a1 len : Int) (k j : Nat) : Int :=
  a1 + truncI (rnd (rnd (((j : Int) * len : Int) : Rat) / rnd (((k : Nat) : Int) : Rat)))

/-- `jnp.array(self._split_eps * axis_len, jnp.int32)` -/
def splitPad (rnd : Rat → Rat) (eps : Rat) (len : Int) : Int := truncI (rnd (rnd eps * rnd (len : Rat)))

/-- consecutive pieces of `b` on axis `ax`: `[lo, q₁], [q₁, q₂], …` -/
def piecesFrom (ax : Nat) (b : Space) (lo : Int) : List Int → List Space
  | [] => []
  | q :: qs => setAx ax b lo q :: piecesFrom ax b q qs

/-- the spaces that replace `b`: `_split_item_once` gives `[a1, split]` and `[split, a2]`;
`_split_item_multiple_times` gives `[a1, cut 1], [cut 1, cut 2], …, [cut (k-1), cut k]` -/
def splitPieces (rnd : Rat → Rat) (b : Space) (d : SplitDraw) : List Space :=
  let a1 := axLo d.axis b
  let len := axHi d.axis b - a1
  if d.once then [cutLo d.axis b d.split, cutHi d.axis b d.split]
  else piecesFrom d.axis b a1 ((List.range d.num).map (fun j => splitCut rnd a1 len d.num (j + 1)))

/-- what the samplers can return: an active space; `randint(axis_min, axis_max)` lies in `[axis_min, axis_max)` and
is `axis_min` when the interval is empty; `randint(1, split_num_same_items + 1)` -/
def validSplitDraw (g : GenCfg) (rnd : Rat → Rat) (bs : List Space) (d : SplitDraw) : Prop :=
  d.item < bs.length ∧
  (let b := bs.getD d.item default
   let a1 := axLo d.axis b
   let a2 := axHi d.axis b
   let pad := splitPad rnd g.eps (a2 - a1)
   if d.once then (if a1 + pad < a2 - pad then a1 + pad ≤ d.split ∧ d.split < a2 - pad else d.split = a1 + pad)
   else 1 ≤ d.num ∧ d.num ≤ g.splitNum)

instance (g : GenCfg) (rnd : Rat → Rat) (bs : List Space) (d : SplitDraw) : Decidable (validSplitDraw g rnd bs d) := by
  unfold validSplitDraw; infer_instance

/-- one iteration of the `while_loop` (`_split_space_into_sub_spaces`): replace the chosen space by its pieces, then
`items_mask &= ~items_spaces.is_empty()` -/
def splitStep (rnd : Rat → Rat) (bs : List Space) (d : SplitDraw) : List Space :=
  (bs.take d.item ++ splitPieces rnd (bs.getD d.item default) d ++ bs.drop (d.item + 1)).filter (fun b => !b.isEmpty)

/-- `cond_fun`: `num_placed_items < max_num_items - split_num_same_items + 1` -/
def splitCond (g : GenCfg) (bs : List Space) : Bool :=
  decide ((bs.length : Int) < (g.maxItems : Int) - (g.splitNum : Int) + 1)

/-- the `while_loop`, one draw per iteration (it stops when `cond_fun` fails or the draws are used up) -/
def splitLoop (g : GenCfg) (rnd : Rat → Rat) : List Space → List SplitDraw → List Space
  | bs, [] => bs
  | bs, d :: ds => if splitCond g bs then splitLoop g rnd (splitStep rnd bs d) ds else bs

/-- `_split_container_into_items_spaces(container, key)`: the item spaces of the generated instance -/
def splitGenerate (g : GenCfg) (rnd : Rat → Rat) (c : Space) (ds : List SplitDraw) : List Space :=
  splitLoop g rnd [c] ds

/-- every draw is admissible when its turn comes -/
def ValidSplitDraws (g : GenCfg) (rnd : Rat → Rat) : List Space → List SplitDraw → Prop
  | _, [] => True
  | bs, d :: ds => splitCond g bs = true → (validSplitDraw g rnd bs d ∧ ValidSplitDraws g rnd (splitStep rnd bs d) ds)

/-! ### L2: the rules -/

/-- array shapes are consistent -/
def WF (s : State) : Prop :=
  s.emsMask.length = s.ems.length ∧ s.itemsMask.length = s.items.length ∧
  s.itemsPlaced.length = s.items.length ∧ s.itemsLoc.length = s.items.length

instance (s : State) : Decidable (WF s) := by unfold WF; infer_instance

/-- the EMS shown in slot `e` of the observation: the `e`-th in decreasing order of volume -/
def shownEms (rnd : Rat → Rat) (s : State) (e : Nat) : Nat := (sortedOf rnd s).getD e 0

/-- item `i` may be put into EMS `k`: the item exists and is not yet placed, the EMS is active and
the item is not larger than the EMS on any axis -/
def canPack (s : State) (k i : Nat) : Prop :=
  i < s.items.length ∧ s.itemsPlaced.getD i true = false ∧ s.itemsMask.getD i false = true ∧
  s.emsMask.getD k false = true ∧
  (s.items.getD i default).xl ≤ (s.ems.getD k default).x2 - (s.ems.getD k default).x1 ∧
  (s.items.getD i default).yl ≤ (s.ems.getD k default).y2 - (s.ems.getD k default).y1 ∧
  (s.items.getD i default).zl ≤ (s.ems.getD k default).z2 - (s.ems.getD k default).z1

instance (s : State) (k i : Nat) : Decidable (canPack s k i) := by unfold canPack; infer_instance

/-- action `(e, i)` = "put item `i` into the corner of the `e`-th largest EMS" is allowed iff the
slot is one of the `obs_num_ems` shown ones and the item may be put into the EMS shown there -/
def legal (cfg : Cfg) (rnd : Rat → Rat) (s : State) (e i : Nat) : Prop :=
  e < cfg.obsNum ∧ e < s.ems.length ∧ canPack s (shownEms rnd s e) i

instance (cfg : Cfg) (rnd : Rat → Rat) (s : State) (e i : Nat) : Decidable (legal cfg rnd s e i) := by
  unfold legal; infer_instance

/-- L2 legality in the layout of the `action_mask` (`obs_num_ems × max_num_items`); entry `[e][i]`
is `decide (legal cfg rnd s e i)` (lemma `legalMask_getD`), with the sort hoisted out of the loops -/
def legalMask (cfg : Cfg) (rnd : Rat → Rat) (s : State) : List (List Bool) :=
  let sorted := sortedOf rnd s
  (List.range (min cfg.obsNum s.ems.length)).map (fun e =>
    let k := sorted.getD e 0
    (List.range s.items.length).map (fun i => decide (canPack s k i)))

/-- the space occupied by item `i` -/
def placedSpace (s : State) (i : Nat) : Space := spaceFrom (s.items.getD i default) (s.itemsLoc.getD i default)

/-- placed items lie inside the container -/
def ItemsInside (s : State) : Prop :=
  ∀ i, i < s.items.length → s.itemsPlaced.getD i false = true →
    (placedSpace s i).isIncluded s.container = true

/-- placed items do not overlap pairwise -/
def ItemsDisjoint (s : State) : Prop :=
  ∀ i, i < s.items.length → ∀ j, j < s.items.length → i ≠ j → s.itemsPlaced.getD i false = true →
    s.itemsPlaced.getD j false = true → (placedSpace s i).intersect (placedSpace s j) = false

/-- every active EMS lies inside the container -/
def EmsInside (s : State) : Prop :=
  ∀ k, k < s.ems.length → s.emsMask.getD k false = true →
    (s.ems.getD k default).isIncluded s.container = true

/-- no active EMS intersects a placed item -/
def EmsClear (s : State) : Prop :=
  ∀ k, k < s.ems.length → s.emsMask.getD k false = true → ∀ i, i < s.items.length →
    s.itemsPlaced.getD i false = true → (s.ems.getD k default).intersect (placedSpace s i) = false

instance (s : State) : Decidable (ItemsInside s) := by unfold ItemsInside; infer_instance
instance (s : State) : Decidable (ItemsDisjoint s) := by unfold ItemsDisjoint; infer_instance
instance (s : State) : Decidable (EmsInside s) := by unfold EmsInside; infer_instance
instance (s : State) : Decidable (EmsClear s) := by unfold EmsClear; infer_instance

/-- only the part that speaks about the items: the problem's hard constraint (C06) -/
def ItemsFeasible (s : State) : Prop := ItemsInside s ∧ ItemsDisjoint s

instance (s : State) : Decidable (ItemsFeasible s) := by unfold ItemsFeasible; infer_instance

/-- hard constraints (C06): placed items lie inside the container and do not overlap pairwise;
together with the EMS invariant that makes this inductive: every active EMS lies inside the
container and intersects no placed item -/
def Feasible (s : State) : Prop := WF s ∧ ItemsInside s ∧ ItemsDisjoint s ∧ EmsInside s ∧ EmsClear s

instance (s : State) : Decidable (Feasible s) := by unfold Feasible; infer_instance

/-- the cached fields are what `_make_observation_and_extras` computes from the rest -/
def Fresh (cfg : Cfg) (rnd : Rat → Rat) (s : State) : Prop :=
  s.actionMask = maskOf cfg rnd s ∧ s.sortedIdx = (sortedOf rnd s).map (fun (k : Nat) => (k : Int))

instance (cfg : Cfg) (rnd : Rat → Rat) (s : State) : Decidable (Fresh cfg rnd s) := by
  unfold Fresh; infer_instance

/-- a packing to which nothing more can be added through the shown EMSs (how an episode of legal
play ends) -/
def Complete (cfg : Cfg) (rnd : Rat → Rat) (s : State) : Prop :=
  ∀ e i, ¬ legal cfg rnd s e i

/-- executable form of `Complete` (lemma `completeB_iff`) -/
def completeB (cfg : Cfg) (rnd : Rat → Rat) (s : State) : Bool :=
  !((legalMask cfg rnd s).any (fun r => r.any id))

/-- documented observation: the `obs_num_ems` largest EMSs in decreasing order of volume with their
activity bits, all items, both divided by the container dimensions when `normalize_dimensions`,
the item masks, and the legality of every `(slot, item)` pair -/
def observe (cfg : Cfg) (rnd : Rat → Rat) (s : State) : Obs :=
  let shown := (List.range (min cfg.obsNum s.ems.length)).map (shownEms rnd s)
  let c := itemFromSpace s.container
  let scale (v l : Int) : Rat := if cfg.normalize then (v : Rat) / (l : Rat) else (v : Rat)
  { ems := shown.map (fun k => let e := s.ems.getD k default
                               ⟨scale e.x1 c.xl, scale e.x2 c.xl, scale e.y1 c.yl, scale e.y2 c.yl,
                                scale e.z1 c.zl, scale e.z2 c.zl⟩)
    emsMask := shown.map (fun k => s.emsMask.getD k false)
    items := s.items.map (fun i => ⟨scale i.xl c.xl, scale i.yl c.yl, scale i.zl c.zl⟩)
    itemsMask := s.itemsMask
    itemsPlaced := s.itemsPlaced
    actionMask := legalMask cfg rnd s }

/-- the part of the state an invalid action must leave untouched (everything except the two
recomputed caches) -/
def problemPart (s : State) : State := { s with actionMask := [], sortedIdx := [] }

/-! ### generator certificates (C10) -/

/-- the reset state of every shipped generator: one active EMS equal to the container, no item
placed, all locations zero, container anchored at the origin with positive sides -/
def ResetShape (s : State) : Prop :=
  WF s ∧ s.container.x1 = 0 ∧ s.container.y1 = 0 ∧ s.container.z1 = 0 ∧
  0 < s.container.x2 ∧ 0 < s.container.y2 ∧ 0 < s.container.z2 ∧
  s.ems.head? = some s.container ∧ s.emsMask = (List.range s.ems.length).map (fun k => decide (k = 0)) ∧
  s.itemsPlaced = List.replicate s.items.length false ∧
  s.itemsLoc = List.replicate s.items.length ⟨0, 0, 0⟩

instance (s : State) : Decidable (ResetShape s) := by unfold ResetShape; infer_instance

/-- every present item has positive sides -/
def ItemsPositive (s : State) : Prop :=
  ∀ i, i < s.items.length → s.itemsMask.getD i false = true →
    0 < (s.items.getD i default).xl ∧ 0 < (s.items.getD i default).yl ∧ 0 < (s.items.getD i default).zl

instance (s : State) : Decidable (ItemsPositive s) := by unfold ItemsPositive; infer_instance

/-- total volume of the present items -/
def presentVolume (s : State) : Int :=
  ((List.range s.items.length).map (fun i =>
    if s.itemsMask.getD i false then (s.items.getD i default).volume else 0)).sum

/-- certificate that a state (the generator's `generate_solution`) is a perfect packing of the
instance: exactly the present items are placed, inside the container, pairwise non-overlapping,
and their volumes add up to the container volume -/
def PerfectPacking (s : State) : Prop :=
  WF s ∧ s.itemsPlaced = s.itemsMask ∧ ItemsFeasible s ∧ placedVolume s = s.container.volume

instance (s : State) : Decidable (PerfectPacking s) := by unfold PerfectPacking; infer_instance

end BinPack
