/-
BinPack, audit r1 entry 11: the transliterated splitting generator (`splitGenerate`, Model.lean) tiles the container.

`splitGenerate_tiles`: for every container with non-negative sides, every list of admissible draws and every rounding
`rnd` that is monotone and exact on the integers `0 … B` (`RndOK rnd B`; float32: `B = 2^24 - 1`, exact arithmetic:
`rnd = id`, any `B`), provided `max 1 split_num_same_items · (container side) ≤ B` on every axis and
`0 ≤ split_eps ≤ 1`:  `Tiles container (splitGenerate g rnd container draws)`.

Where the rounding matters: the k pieces of `_split_item_multiple_times` end at `a1 + int32(f32(f32(j·len) / f32(k)))`,
j = 1 … k, and the LAST one must be `a1 + len` for the pieces to fill the space: `f32(k·len) / f32(k)` is exactly
`len` because `k·len`, `k` and `len` are exactly representable and IEEE division is correctly rounded.  (With the
reassociated expression `j · f32(len / k)` this fails, e.g. `len = 10, k = 3`.)  The cuts are monotone in `j` because
`rnd` and the truncation are.
-/
import JumanjiModel.Env.BinPack.Lemmas
import JumanjiModel.Prim.FloatLemmas
set_option linter.unusedVariables false
set_option linter.unusedSimpArgs false
namespace BinPack
open Jm

/-- the rounding is monotone and exact on the integers `0 … B` -/
structure RndOK (rnd : Rat → Rat) (B : Int) : Prop where
  mono : ∀ x y : Rat, x ≤ y → rnd x ≤ rnd y
  fixInt : ∀ n : Int, 0 ≤ n → n ≤ B → rnd (n : Rat) = (n : Rat)

theorem rndOK_id (B : Int) : RndOK id B := ⟨fun _ _ h => h, fun _ _ _ => rfl⟩

/-! ### truncation -/

theorem truncI_nonneg {q : Rat} (h : 0 ≤ q) : truncI q = q.floor := by unfold truncI; rw [if_pos h]

theorem truncI_int (n : Int) (h : 0 ≤ n) : truncI (n : Rat) = n := by
  rw [truncI_nonneg (Rat.intCast_nonneg.mpr h), Rat.floor_intCast]

theorem truncI_mono {p q : Rat} (hp : 0 ≤ p) (h : p ≤ q) : truncI p ≤ truncI q := by
  rw [truncI_nonneg hp, truncI_nonneg (Rat.le_trans hp h)]; exact Rat.floor_monotone h

theorem truncI_ge_zero {q : Rat} (h : 0 ≤ q) : 0 ≤ truncI q := by
  rw [truncI_nonneg h, Rat.le_floor_iff]; simpa using h

theorem truncI_le_int {q : Rat} (n : Int) (h0 : 0 ≤ q) (h : q ≤ (n : Rat)) : truncI q ≤ n := by
  have := truncI_mono h0 h
  rwa [truncI_int n (by
    have : (0 : Rat) ≤ (n : Rat) := Rat.le_trans h0 h
    exact Rat.intCast_nonneg.mp this)] at this

/-! ### boxes on an axis -/

theorem setAx_lo_hi (ax : Nat) (b : Space) (lo q : Int) : cutLo ax (cutHi ax b lo) q = setAx ax b lo q := by
  unfold setAx; rfl

theorem cutHi_cutHi (ax : Nat) (b : Space) (lo q : Int) : cutHi ax (cutHi ax b lo) q = cutHi ax b q := by
  rcases ax with _ | _ | _ <;> rfl

theorem cutHi_self (ax : Nat) (b : Space) : cutHi ax b (axLo ax b) = b := by
  rcases ax with _ | _ | _ <;> rfl

theorem axLo_cutHi (ax : Nat) (b : Space) (q : Int) : axLo ax (cutHi ax b q) = q := by
  rcases ax with _ | _ | _ <;> rfl

theorem axHi_cutHi (ax : Nat) (b : Space) (q : Int) : axHi ax (cutHi ax b q) = axHi ax b := by
  rcases ax with _ | _ | _ <;> rfl

theorem cutHi_top_empty (ax : Nat) (b : Space) : (cutHi ax b (axHi ax b)).isEmpty = true := by
  rcases ax with _ | _ | _ <;> simp [cutHi, axHi, Space.isEmpty]

/-- an increasing chain `lo ≤ q₁ ≤ q₂ ≤ … ≤ qₙ = hi` (`lo = hi` when the list is empty) -/
def ChainTo (lo : Int) : List Int → Int → Prop
  | [], hi => lo = hi
  | q :: qs, hi => lo ≤ q ∧ ChainTo q qs hi

theorem chainTo_le (qs : List Int) : ∀ lo hi, ChainTo lo qs hi → lo ≤ hi := by
  induction qs with
  | nil => intro lo hi h; exact Int.le_of_eq h
  | cons q qs ih => intro lo hi h; exact Int.le_trans h.1 (ih q hi h.2)

/-- cutting the remainder `[lo, top]` of `b` along an increasing chain of positions that ends at the top gives a tiling -/
theorem tiles_pieces (c : Space) (ax : Nat) (b : Space) (l₂ : List Space) (qs : List Int) :
    ∀ (l₁ : List Space) (lo : Int), Tiles c (l₁ ++ cutHi ax b lo :: l₂) → ChainTo lo qs (axHi ax b) →
      Tiles c (l₁ ++ piecesFrom ax b lo qs ++ l₂) := by
  induction qs with
  | nil =>
    intro l₁ lo h hch
    have hch' : lo = axHi ax b := hch
    subst hch'
    simpa [piecesFrom] using tiles_drop_empty c l₁ l₂ _ h (cutHi_top_empty ax b)
  | cons q qs ih =>
    intro l₁ lo h hch
    obtain ⟨h1, h2⟩ := hch
    have hq := chainTo_le qs q _ h2
    have := tiles_cut c l₁ l₂ (cutHi ax b lo) ax q h (by rw [axLo_cutHi]; exact h1) (by rw [axHi_cutHi]; exact hq)
    rw [setAx_lo_hi, cutHi_cutHi] at this
    have h3 := ih (l₁ ++ [setAx ax b lo q]) q (by simpa using this) h2
    simpa [piecesFrom] using h3

theorem tiles_filter (c : Space) (l : List Space) :
    ∀ l₁, Tiles c (l₁ ++ l) → Tiles c (l₁ ++ l.filter (fun b => !b.isEmpty)) := by
  induction l with
  | nil => intro l₁ h; simpa using h
  | cons b bs ih =>
    intro l₁ h
    cases hb : b.isEmpty
    · have := ih (l₁ ++ [b]) (by simpa using h)
      simpa [List.filter_cons, hb] using this
    · have := ih l₁ (tiles_drop_empty c l₁ bs b h hb)
      simpa [List.filter_cons, hb] using this

/-! ### the cut positions of `_split_item_multiple_times` -/

theorem intCast_natCast_pos {k : Nat} (hk : 1 ≤ k) : (0 : Rat) < (((k : Nat) : Int) : Rat) := by
  exact Rat.intCast_pos.mpr (by omega)

theorem splitCut_chain (rnd : Rat → Rat) (B : Int) (hr : RndOK rnd B) (a1 len : Int) (k : Nat) (hlen : 0 ≤ len)
    (hk : 1 ≤ k) (hB : (k : Int) * len ≤ B) (hkB : (k : Int) ≤ B) :
    ∀ (n j : Nat), j + n = k →
      ChainTo (splitCut rnd a1 len k j) ((List.range n).map (fun t => splitCut rnd a1 len k (j + t + 1))) (a1 + len) := by
  have hkpos := intCast_natCast_pos hk
  have hkfix : rnd (((k : Nat) : Int) : Rat) = (((k : Nat) : Int) : Rat) := hr.fixInt _ (by omega) hkB
  have hmul : ∀ j : Nat, j ≤ k → (j : Int) * len ≤ B := fun j hj =>
    Int.le_trans (Int.mul_le_mul_of_nonneg_right (by omega) hlen) hB
  have hval : ∀ j : Nat, j ≤ k →
      rnd (rnd (((j : Int) * len : Int) : Rat) / rnd (((k : Nat) : Int) : Rat)) =
      rnd ((((j : Int) * len : Int) : Rat) / (((k : Nat) : Int) : Rat)) := by
    intro j hj
    rw [hr.fixInt _ (Int.mul_nonneg (by omega) hlen) (hmul j hj), hkfix]
  have hnn : ∀ j : Nat, j ≤ k →
      (0 : Rat) ≤ rnd ((((j : Int) * len : Int) : Rat) / (((k : Nat) : Int) : Rat)) := by
    intro j hj
    have h0 : rnd 0 = 0 := by simpa using hr.fixInt 0 (Int.le_refl _) (by omega)
    have : (0 : Rat) ≤ (((j : Int) * len : Int) : Rat) / (((k : Nat) : Int) : Rat) := by
      rw [Rat.div_def]
      exact Rat.mul_nonneg (Rat.intCast_nonneg.mpr (Int.mul_nonneg (by omega) hlen))
        (Rat.le_of_lt (Rat.inv_pos.mpr hkpos))
    have := hr.mono _ _ this
    rwa [h0] at this
  intro n
  induction n with
  | zero =>
    intro j hj
    have hjk : j = k := by omega
    subst hjk
    show splitCut rnd a1 len j j = a1 + len
    unfold splitCut
    rw [hval j (Nat.le_refl _)]
    have : (((j : Int) * len : Int) : Rat) / (((j : Nat) : Int) : Rat) = (len : Rat) := by
      rw [Rat.intCast_mul, Rat.mul_comm]
      exact Rat.mul_div_cancel (by intro h; rw [h] at hkpos; exact absurd hkpos (by decide))
    rw [this, hr.fixInt len hlen (by
      have : (1 : Int) * len ≤ (j : Int) * len := Int.mul_le_mul_of_nonneg_right (by omega) hlen
      omega), truncI_int len hlen]
  | succ n ih =>
    intro j hj
    rw [List.range_succ_eq_map, List.map_cons, List.map_map]
    refine ⟨?_, ?_⟩
    · unfold splitCut
      rw [hval j (by omega), hval (j + 0 + 1) (by omega)]
      apply Int.add_le_add_left
      apply truncI_mono (hnn j (by omega))
      apply hr.mono
      apply Jx.rat_div_le_div_right hkpos
      apply Rat.intCast_le_intCast.mpr
      apply Int.mul_le_mul_of_nonneg_right _ hlen
      omega
    · have := ih (j + 1) (by omega)
      have e : ((fun t => splitCut rnd a1 len k (j + t + 1)) ∘ Nat.succ) =
          (fun t => splitCut rnd a1 len k (j + 1 + t + 1)) := by
        funext t; simp only [Function.comp]; congr 1; omega
      rw [e]
      exact this

theorem splitCut_zero (rnd : Rat → Rat) (B : Int) (hr : RndOK rnd B) (a1 len : Int) (k : Nat) (hk : 1 ≤ k)
    (hB0 : 0 ≤ B) (hkB : (k : Int) ≤ B) : splitCut rnd a1 len k 0 = a1 := by
  unfold splitCut
  have h0 : rnd ((0 : Int) : Rat) = ((0 : Int) : Rat) := hr.fixInt 0 (Int.le_refl _) hB0
  have : (((0 : Nat) : Int) * len : Int) = 0 := by simp
  rw [this]
  have h0' : rnd 0 = 0 := by simpa using h0
  have hz : rnd ((0 : Int) : Rat) / rnd (((k : Nat) : Int) : Rat) = 0 := by
    rw [h0, Rat.div_def]; simp
  rw [hz, h0']
  have : truncI 0 = 0 := by simpa using truncI_int 0 (Int.le_refl _)
  rw [this]; omega

/-- `0 ≤ int32(f32(f32(eps) · f32(len))) ≤ len` for `0 ≤ eps ≤ 1` -/
theorem splitPad_bounds (rnd : Rat → Rat) (B : Int) (hr : RndOK rnd B) (eps : Rat) (he0 : 0 ≤ eps) (he1 : eps ≤ 1)
    (len : Int) (hlen : 0 ≤ len) (hB : len ≤ B) (hB1 : 1 ≤ B) :
    0 ≤ splitPad rnd eps len ∧ splitPad rnd eps len ≤ len := by
  have h0 : rnd 0 = 0 := by simpa using hr.fixInt 0 (Int.le_refl _) (by omega)
  have h1 : rnd 1 = 1 := by simpa using hr.fixInt 1 (by omega) hB1
  have hl : rnd (len : Rat) = (len : Rat) := hr.fixInt len hlen hB
  have hlq : (0 : Rat) ≤ (len : Rat) := Rat.intCast_nonneg.mpr hlen
  have e0 : 0 ≤ rnd eps := by have := hr.mono _ _ he0; rwa [h0] at this
  have e1 : rnd eps ≤ 1 := by have := hr.mono _ _ he1; rwa [h1] at this
  have p0 : (0 : Rat) ≤ rnd eps * rnd (len : Rat) := by rw [hl]; exact Rat.mul_nonneg e0 hlq
  have p1 : rnd eps * rnd (len : Rat) ≤ (len : Rat) := by
    rw [hl]
    have := Rat.mul_le_mul_of_nonneg_right e1 hlq
    rwa [Rat.one_mul] at this
  have r0 : 0 ≤ rnd (rnd eps * rnd (len : Rat)) := by have := hr.mono _ _ p0; rwa [h0] at this
  have r1 : rnd (rnd eps * rnd (len : Rat)) ≤ (len : Rat) := Rat.le_trans (hr.mono _ _ p1) (by rw [hl]; exact Rat.le_refl)
  unfold splitPad
  exact ⟨truncI_ge_zero r0, truncI_le_int len r0 r1⟩

/-! ### one iteration and the loop -/

theorem axis_le_of_incl (ax : Nat) (b c : Space) (h : b.isIncluded c = true) :
    axLo ax c ≤ axLo ax b ∧ axHi ax b ≤ axHi ax c := by
  rw [incl_iff] at h
  unfold axLo axHi
  split <;> omega

theorem proper_axis (ax : Nat) (b : Space) (h : b.Proper) : axLo ax b ≤ axHi ax b := by
  unfold Space.Proper at h
  unfold axLo axHi
  split <;> omega

/-- the sizes for which the float32 arithmetic of the generator is exact -/
def GenBound (g : GenCfg) (c : Space) (B : Int) : Prop :=
  1 ≤ B ∧ (g.splitNum : Int) ≤ B ∧ ∀ ax, (max 1 g.splitNum : Nat) * (axHi ax c - axLo ax c) ≤ B

theorem splitStep_tiles (g : GenCfg) (rnd : Rat → Rat) (B : Int) (hr : RndOK rnd B) (c : Space)
    (hB : GenBound g c B) (he0 : 0 ≤ g.eps) (he1 : g.eps ≤ 1) (bs : List Space) (h : Tiles c bs) (d : SplitDraw)
    (hd : validSplitDraw g rnd bs d) : Tiles c (splitStep rnd bs d) := by
  obtain ⟨hi, hv⟩ := hd
  obtain ⟨hB1, hBk, hBax⟩ := hB
  have hsplit : bs = bs.take d.item ++ bs.getD d.item default :: bs.drop (d.item + 1) := by
    rw [List.getD_eq_getElem?_getD, List.getElem?_eq_getElem hi, Option.getD_some, List.getElem_cons_drop,
      List.take_append_drop]
  generalize hb : bs.getD d.item default = b at hv hsplit
  have hbmem : b ∈ bs := by rw [hsplit]; simp
  obtain ⟨hbp, hbin⟩ := h.1 b hbmem
  have hax := axis_le_of_incl d.axis b c hbin
  have hpl := proper_axis d.axis b hbp
  have hlenB : axHi d.axis b - axLo d.axis b ≤ B := by
    have h1 := hBax d.axis
    have h2 : (1 : Int) * (axHi d.axis c - axLo d.axis c) ≤ ((max 1 g.splitNum : Nat) : Int) * (axHi d.axis c - axLo d.axis c) :=
      Int.mul_le_mul_of_nonneg_right (by omega) (by omega)
    omega
  rw [hsplit] at h
  unfold splitStep
  rw [hb]
  have key : Tiles c (bs.take d.item ++ splitPieces rnd b d ++ bs.drop (d.item + 1)) := by
    unfold splitPieces
    simp only [] at hv ⊢
    cases hon : d.once
    · -- `_split_item_multiple_times`
      rw [hon] at hv
      simp only [Bool.false_eq_true, if_false] at hv ⊢
      obtain ⟨hk1, hk2⟩ := hv
      have hkB : (d.num : Int) ≤ B := by omega
      have hmulB : (d.num : Int) * (axHi d.axis b - axLo d.axis b) ≤ B := by
        have h1 := hBax d.axis
        have h2 : (d.num : Int) * (axHi d.axis b - axLo d.axis b) ≤
            ((max 1 g.splitNum : Nat) : Int) * (axHi d.axis c - axLo d.axis c) :=
          Int.mul_le_mul (by omega) (by omega) (by omega) (by omega)
        omega
      have hch := splitCut_chain rnd B hr (axLo d.axis b) (axHi d.axis b - axLo d.axis b) d.num (by omega) hk1
        hmulB hkB d.num 0 (by omega)
      rw [splitCut_zero rnd B hr _ _ _ hk1 (by omega) hkB] at hch
      have e : axLo d.axis b + (axHi d.axis b - axLo d.axis b) = axHi d.axis b := by omega
      rw [e] at hch
      simp only [Nat.zero_add] at hch
      apply tiles_pieces c d.axis b _ _ _ _ _ hch
      rw [cutHi_self]; exact h
    · -- `_split_item_once`
      rw [hon] at hv
      simp only [if_true] at hv ⊢
      obtain ⟨hp0, hp1⟩ := splitPad_bounds rnd B hr g.eps he0 he1 (axHi d.axis b - axLo d.axis b) (by omega) hlenB hB1
      have := tiles_cut c (bs.take d.item) (bs.drop (d.item + 1)) b d.axis d.split h
        (by split at hv <;> omega) (by split at hv <;> omega)
      simpa using this
  have := tiles_filter c _ [] (by simpa using key)
  simpa using this

theorem splitLoop_tiles (g : GenCfg) (rnd : Rat → Rat) (B : Int) (hr : RndOK rnd B) (c : Space)
    (hB : GenBound g c B) (he0 : 0 ≤ g.eps) (he1 : g.eps ≤ 1) (ds : List SplitDraw) :
    ∀ bs, Tiles c bs → ValidSplitDraws g rnd bs ds → Tiles c (splitLoop g rnd bs ds) := by
  induction ds with
  | nil => intro bs h _; exact h
  | cons d ds ih =>
    intro bs h hv
    unfold splitLoop
    cases hc : splitCond g bs
    · simpa using h
    · simp only [if_true]
      obtain ⟨h1, h2⟩ := hv hc
      exact ih _ (splitStep_tiles g rnd B hr c hB he0 he1 bs h d h1) h2

/-- ENTRY 11: the item spaces produced by the transliterated `_split_container_into_items_spaces` tile the container,
for every list of admissible draws -/
theorem splitGenerate_tiles (g : GenCfg) (rnd : Rat → Rat) (B : Int) (hr : RndOK rnd B) (c : Space) (hc : c.Proper)
    (hB : GenBound g c B) (he0 : 0 ≤ g.eps) (he1 : g.eps ≤ 1) (ds : List SplitDraw)
    (hv : ValidSplitDraws g rnd [c] ds) : Tiles c (splitGenerate g rnd c ds) :=
  splitLoop_tiles g rnd B hr c hB he0 he1 ds [c] (tiles_base c hc) hv

/-- every generated item space is non-empty (the certificate `items_positive`) -/
theorem splitLoop_nonempty (g : GenCfg) (rnd : Rat → Rat) (ds : List SplitDraw) :
    ∀ bs, (∀ b ∈ bs, b.isEmpty = false) → ∀ b ∈ splitLoop g rnd bs ds, b.isEmpty = false := by
  induction ds with
  | nil => intro bs h; exact h
  | cons d ds ih =>
    intro bs h
    unfold splitLoop
    split
    · apply ih
      intro b hb
      unfold splitStep at hb
      simpa using (List.mem_filter.mp hb).2
    · exact h

/-- the loop never produces more than `max_num_items` spaces … needs `cond_fun`; the count after one iteration -/
theorem piecesFrom_length (ax : Nat) (b : Space) (qs : List Int) : ∀ lo, (piecesFrom ax b lo qs).length = qs.length := by
  induction qs with
  | nil => intro lo; rfl
  | cons q qs ih => intro lo; simp [piecesFrom, ih]

/-! ### float32 -/

/-- `Jx.roundF32` is monotone and exact on the integers below `2^24` -/
theorem rndOK_f32 : RndOK Jx.roundF32 16777215 := by
  refine ⟨fun x y h => Jx.roundF32_mono h, fun n h0 hB => ?_⟩
  have := Jx.roundF32_fix n.toNat 0 (by omega) (by decide)
  have e : ((n.toNat : Nat) : Rat) = (n : Rat) := by
    have h1 : ((n.toNat : Nat) : Rat) = (((n.toNat : Nat) : Int) : Rat) := (Rat.intCast_natCast _).symm
    rw [h1, Int.toNat_of_nonneg h0]
  have hp : Jx.pow2 0 = 1 := by decide +kernel
  rw [hp, Rat.mul_one, e] at this
  exact this

end BinPack
