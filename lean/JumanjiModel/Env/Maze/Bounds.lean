/-
Maze, property C01: the interval in which every numeric leaf of the MODEL's observation provably stays
(`obsBounds`, a function of the configuration only), the flattened leaves of an observation (`obsLeaves`, keys =
dotted paths of the leaves of the real `observation_spec`), and the transliteration of `Maze.reset` on top of
the generator's output.  Import-free.  Proofs: Env/Maze/BoundsLemmas.lean, theorems: Props/Env/Maze.lean (C01).
-/
import JumanjiModel.Env.Maze.Model
namespace Maze
open Jm

/-- `reset`: `state = generator(key)` (the generated state `g` is the draw), the mask is recomputed, the
observation copies the state, `restart` -/
def reset (cfg : Cfg) (g : State) : State × TimeStep Obs :=
  let s : State := { g with actionMask := computeMask cfg g.walls g.agent }
  (s, restart (obsOf s))

/-- closed integer interval as a pair of optional rational ends -/
def ivInt (lo hi : Int) : Option Rat × Option Rat := (some (lo : Rat), some (hi : Rat))

def b2r (b : Bool) : Rat := if b then 1 else 0

/-- value bounds of the observation leaves, from the configuration only:
positions inside the grid, booleans 0..1, `step_count` between 0 and `time_limit` (the terminal step
reaches `time_limit`) -/
def obsBounds (cfg : Cfg) : List (String × Option Rat × Option Rat) :=
  [("agent_position.row", ivInt 0 ((cfg.numRows : Int) - 1)),
   ("agent_position.col", ivInt 0 ((cfg.numCols : Int) - 1)),
   ("target_position.row", ivInt 0 ((cfg.numRows : Int) - 1)),
   ("target_position.col", ivInt 0 ((cfg.numCols : Int) - 1)),
   ("walls", ivInt 0 1),
   ("step_count", ivInt 0 cfg.timeLimit),
   ("action_mask", ivInt 0 1)]

/-- all values of every leaf of an observation -/
def obsLeaves (o : Obs) : List (String × List Rat) :=
  [("agent_position.row", [(o.agent.1 : Rat)]),
   ("agent_position.col", [(o.agent.2 : Rat)]),
   ("target_position.row", [(o.target.1 : Rat)]),
   ("target_position.col", [(o.target.2 : Rat)]),
   ("walls", (List.flatten o.walls).map b2r),
   ("step_count", [(o.stepCount : Rat)]),
   ("action_mask", o.actionMask.map b2r)]

/-- `v` lies in the interval (`none` = unbounded on that side) -/
def inIv (iv : Option Rat × Option Rat) (v : Rat) : Prop :=
  (∀ l, iv.1 = some l → l ≤ v) ∧ (∀ h, iv.2 = some h → v ≤ h)

/-- every value of every leaf listed in `obsBounds cfg` lies in its interval -/
def ObsInBounds (cfg : Cfg) (o : Obs) : Prop :=
  ∀ k iv, (k, iv) ∈ obsBounds cfg → ∀ vs, (k, vs) ∈ obsLeaves o → ∀ v ∈ vs, inIv iv v

end Maze
