/- Facts about `Jx.Grid` lookups on in-range indices of a well-shaped grid (used by Maze and Cleaner). -/
import JumanjiModel.Prim.Grid
import JumanjiModel.Prim.Lemmas
namespace Jx.Grid
variable {α : Type}

theorem shaped_length {g : Grid α} {nr nc : Nat} (h : shaped g nr nc = true) : List.length g = nr := by
  unfold shaped at h; simp at h; exact h.1

theorem shaped_row {g : Grid α} {nr nc : Nat} (h : shaped g nr nc = true) {r : Nat} (hr : r < nr) :
    (List.getD g r []).length = nc := by
  have hl := shaped_length h
  unfold shaped at h; simp at h
  have hr' : r < List.length g := by omega
  rw [List.getD_eq_getElem?_getD, List.getElem?_eq_getElem hr']
  exact h.2 _ (List.getElem_mem hr')

/-- a traced gather on in-range indices of a well-shaped grid is the plain lookup -/
theorem getWC_eq_get {g : Grid α} {nr nc : Nat} (h : shaped g nr nc = true) (d : α) {r c : Int}
    (hr0 : 0 ≤ r) (hr : r < (nr : Int)) (hc0 : 0 ≤ c) (hc : c < (nc : Int)) :
    getWC g d r c = get g d r.toNat c.toNat := by
  obtain ⟨n, rfl⟩ := Int.eq_ofNat_of_zero_le hr0
  obtain ⟨m, rfl⟩ := Int.eq_ofNat_of_zero_le hc0
  have hl := shaped_length h
  have hrn : n < List.length g := by omega
  have hrow := shaped_row h (r := n) (by omega)
  have hcn : m < (List.getD g n []).length := by omega
  unfold getWC get
  simp only [Int.toNat_natCast]
  rw [Jx.getWC_nat g [] hrn, Jx.getWC_nat _ d hcn]
end Jx.Grid
