/-
Maze: proofs for the statement audit r2 (entries 6, 15, 16 and the Maze gaps): `step` versus legality (C04), the
transliterated generators (C10), the reset observation (C12), whole plays and the time limit (C11), shapes (C01).
-/
import JumanjiModel.Env.Maze.Generator
import JumanjiModel.Env.Maze.Lemmas
import JumanjiModel.Env.Maze.BoundsLemmas
import JumanjiModel.Env.Maze.MazeGenLemmas
namespace Maze
open Jm

/-! ### C04: what `step` does with a legal / an illegal action -/

theorem dest_ne (p : Pos) (a : Nat) (ha : a < 4) : dest p a ≠ p := by
  intro h
  have h1 := congrArg Prod.fst h
  have h2 := congrArg Prod.snd h
  unfold dest at h1 h2
  match a, ha with
  | 0, _ => simp [dir] at h1; omega
  | 1, _ => simp [dir] at h2; omega
  | 2, _ => simp [dir] at h1; omega
  | 3, _ => simp [dir] at h2; omega

theorem step_agent (cfg : Cfg) (s : State) (hi : Inv cfg s) (a : Nat) (ha : a < 4) :
    (step cfg s (a : Int)).1.agent = if legal cfg s a then dest s.agent a else s.agent := by
  rw [step_next cfg s hi a ha]; rfl

/-- `step` moves the agent to the cell in direction `a` exactly when the rules allow the move; otherwise
the agent stays where it is -/
theorem step_moves_iff (cfg : Cfg) (s : State) (hi : Inv cfg s) (a : Nat) (ha : a < 4) :
    ((step cfg s (a : Int)).1.agent = dest s.agent a ↔ legal cfg s a) ∧
    ((step cfg s (a : Int)).1.agent = s.agent ↔ ¬ legal cfg s a) := by
  rw [step_agent cfg s hi a ha]
  by_cases hl : legal cfg s a
  · rw [if_pos hl]
    exact ⟨⟨fun _ => hl, fun _ => rfl⟩, ⟨fun h => absurd h (dest_ne s.agent a ha), fun h => absurd hl h⟩⟩
  · rw [if_neg hl]
    exact ⟨⟨fun h => absurd h.symm (dest_ne s.agent a ha), fun h => absurd h hl⟩, ⟨fun _ => hl, fun _ => rfl⟩⟩

/-! ### C10: the generators -/

theorem flatten_getD {α} (g : Jx.Grid α) (nr nc : Nat) (d : α) (hs : Jx.Grid.shaped g nr nc = true)
    (r c : Nat) (hr : r < nr) (hc : c < nc) :
    (List.flatten g).getD (r * nc + c) d = Jx.Grid.get g d r c := by
  unfold Jx.Grid.shaped at hs
  simp only [Bool.and_eq_true, beq_iff_eq, List.all_eq_true] at hs
  obtain ⟨h1, h2⟩ := hs
  induction g generalizing nr r with
  | nil => simp at h1; omega
  | cons row rest ih =>
    simp at h1
    subst h1
    have hrow := h2 row (by simp)
    cases r with
    | zero =>
      simp [Jx.Grid.get, List.getD_eq_getElem?_getD]
      rw [List.getElem?_append_left (by omega)]
    | succ r =>
      have := ih rest.length r (by omega) rfl (fun x hx => h2 x (by simp [hx]))
      simp only [Jx.Grid.get, List.getD_eq_getElem?_getD] at this ⊢
      simp only [List.flatten_cons]
      rw [List.getElem?_append_right (by rw [hrow, Nat.succ_mul]; omega)]
      have e : (r + 1) * nc + c - row.length = r * nc + c := by rw [hrow, Nat.succ_mul]; omega
      rw [e, this]
      simp

theorem div_mod_lt {n nr nc : Nat} (h : n < nr * nc) : n / nc < nr ∧ n % nc < nc := by
  have hc : 0 < nc := by
    rcases Nat.eq_zero_or_pos nc with h0 | h0
    · subst h0; simp at h
    · exact h0
  exact ⟨(Nat.div_lt_iff_lt_mul hc).2 h, Nat.mod_lt _ hc⟩

/-- a cell index of non-zero probability is a free cell of the grid -/
theorem free_of_flat (cfg : Cfg) (walls : Jx.Grid Bool)
    (hs : Jx.Grid.shaped walls cfg.numRows cfg.numCols = true) (k : Nat)
    (hk : k < cfg.numRows * cfg.numCols) (hw : flatWall walls k = false) : free cfg walls (posOf cfg k) := by
  obtain ⟨h1, h2⟩ := div_mod_lt hk
  refine ⟨⟨Int.natCast_nonneg _, by simp only [posOf]; exact_mod_cast h1, Int.natCast_nonneg _,
    by simp only [posOf]; exact_mod_cast h2⟩, ?_⟩
  unfold isWall posOf
  simp only [Int.toNat_natCast]
  rw [← flatten_getD walls cfg.numRows cfg.numCols true hs _ _ h1 h2, Nat.div_add_mod']
  exact hw

theorem posOf_inj (cfg : Cfg) (i j : Nat) (h : posOf cfg i = posOf cfg j) : i = j := by
  unfold posOf at h
  have h1 := congrArg Prod.fst h
  have h2 := congrArg Prod.snd h
  simp only [Int.natCast_inj] at h1 h2
  rw [← Nat.div_add_mod i cfg.numCols, ← Nat.div_add_mod j cfg.numCols, h1, h2]

theorem isRDM_shaped {m : Jx.Grid Bool} {nr nc : Nat} (h : MazeGen.isRecursiveDivisionMaze m nr nc = true) :
    Jx.Grid.shaped m nr nc = true := by
  unfold MazeGen.isRecursiveDivisionMaze at h
  simp only [Bool.and_eq_true] at h
  exact h.1

/-- the cell `(column, row)` of `MazeGenLemmas` for a flat index -/
def cellOf (cfg : Cfg) (k : Nat) : MazeGen.Cell := (k % cfg.numCols, k / cfg.numCols)

/-- C10: for ALL admissible draws, `reset` of the generated state is consistent (agent and target on free cells
of the grid, walls of the configured shape, fresh mask), agent and target are on DIFFERENT cells, the counter is 0,
and the target can be reached from the agent by 4-neighbour steps through free cells -/
theorem generated_wellformed (cfg : Cfg) (d : GenDraw) (hv : validGenDraw cfg d) :
    Consistent cfg (reset cfg (generate cfg d)).1 ∧
    (reset cfg (generate cfg d)).1.agent ≠ (reset cfg (generate cfg d)).1.target ∧
    (reset cfg (generate cfg d)).1.stepCount = 0 ∧
    MazeGen.Reach (MazeGen.Ok d.walls 0 0 cfg.numCols cfg.numRows) (cellOf cfg d.i) (cellOf cfg d.j) := by
  obtain ⟨hm, hi, hj, hij, hwi, hwj⟩ := hv
  have hs := isRDM_shaped hm
  have hfi := free_of_flat cfg d.walls hs d.i hi hwi
  have hfj := free_of_flat cfg d.walls hs d.j hj hwj
  refine ⟨reset_consistent cfg (generate cfg d) hs hfi hfj, ?_, rfl, ?_⟩
  · show posOf cfg d.i ≠ posOf cfg d.j
    exact fun h => hij (posOf_inj cfg _ _ h)
  · have hok : ∀ k, k < cfg.numRows * cfg.numCols → flatWall d.walls k = false →
        MazeGen.Ok d.walls 0 0 cfg.numCols cfg.numRows (cellOf cfg k) := by
      intro k hk hw
      obtain ⟨h1, h2⟩ := div_mod_lt hk
      refine ⟨⟨Nat.zero_le _, by simp only [cellOf]; omega, Nat.zero_le _, by simp only [cellOf]; omega⟩, ?_⟩
      unfold MazeGen.wall cellOf
      simp only []
      rw [← flatten_getD d.walls cfg.numRows cfg.numCols true hs _ _ h1 h2, Nat.div_add_mod']
      exact hw
    exact (MazeGen.connected_of_cert d.walls cfg.numRows cfg.numCols hm).1 _ _ (hok _ hi hwi) (hok _ hj hwj)

/-- soundness of the certificate `generatedBy` the driver evaluates on the implementation's reset states -/
theorem generatedBy_sound (cfg : Cfg) (s : State) (h : generatedBy cfg s = true) :
    Consistent cfg s ∧ s.agent ≠ s.target ∧ s.stepCount = 0 ∧
    MazeGen.Conn s.walls 0 0 cfg.numCols cfg.numRows := by
  unfold generatedBy at h
  simp only [Bool.and_eq_true, decide_eq_true_eq] at h
  obtain ⟨hv, he⟩ := h
  obtain ⟨h1, h2, h3, _⟩ := generated_wellformed cfg _ hv
  rw [he] at h1 h2 h3
  exact ⟨h1, h2, h3, (MazeGen.connected_of_cert s.walls cfg.numRows cfg.numCols hv.1).1⟩

/-! ### C12: the reset observation -/

theorem reset_obs_faithful (cfg : Cfg) (g : State)
    (hs : Jx.Grid.shaped g.walls cfg.numRows cfg.numCols = true) :
    (reset cfg g).2.obs = observe cfg (reset cfg g).1 ∧ (reset cfg g).2.stepType = .first := by
  refine ⟨?_, rfl⟩
  show obsOf (reset cfg g).1 = observe cfg (reset cfg g).1
  have hm : (reset cfg g).1.actionMask = legalMask cfg (reset cfg g).1 :=
    computeMask_eq cfg (reset cfg g).1 hs
  unfold obsOf observe
  rw [hm]

/-! ### C11: whole plays -/

theorem time_limit_last' (cfg : Cfg) (s : State) (a : Int) (ht : s.stepCount + 1 ≥ cfg.timeLimit) :
    (step cfg s a).2.stepType = .last := by
  show (condLast (_ || _ || decide (s.stepCount + 1 ≥ cfg.timeLimit)) _ _).stepType = .last
  rw [condLast_last]
  simp [ht]

theorem after_walls (cfg : Cfg) (s : State) (as : List Int) : (EpRun.after (step cfg) s as).walls = s.walls := by
  induction as generalizing s with
  | nil => rfl
  | cons a as ih => simp only [EpRun.after]; rw [ih]; rfl

/-- never later: the transition whose step number reaches the limit (and every later one) is LAST -/
theorem run_last_at_limit (cfg : Cfg) (s : State) (as : List Int) (k : Nat) (p : State × TimeStep Obs)
    (h : (run cfg s as)[k]? = some p) (hk : s.stepCount + k + 1 ≥ cfg.timeLimit) : p.2.stepType = .last :=
  EpRun.run_last_at_limit (step cfg) (·.stepCount) (·.stepType = .last) cfg.timeLimit (step_count cfg)
    (time_limit_last' cfg) s as k p h hk

/-- a play that is long enough contains a LAST at or before the step at which the counter reaches the limit -/
theorem run_exists_last (cfg : Cfg) (s : State) (as : List Int) (h0 : s.stepCount < cfg.timeLimit)
    (hlen : cfg.timeLimit - s.stepCount ≤ as.length) :
    ∃ (k : Nat) (p : State × TimeStep Obs), s.stepCount + k + 1 ≤ cfg.timeLimit ∧
      (run cfg s as)[k]? = some p ∧ p.2.stepType = .last :=
  EpRun.run_exists_last (step cfg) (·.stepCount) (·.stepType = .last) cfg.timeLimit (step_count cfg)
    (time_limit_last' cfg) s as h0 hlen

/-- never earlier: every transition of every play is LAST iff its successor state is at the target, is stuck, or
its step number has reached the limit -/
theorem run_last_iff (cfg : Cfg) (s : State) (hs : Jx.Grid.shaped s.walls cfg.numRows cfg.numCols = true)
    (as : List Int) (k : Nat) (p : State × TimeStep Obs) (h : (run cfg s as)[k]? = some p) :
    p.2.stepType = .last ↔ (atTarget p.1 ∨ stuck cfg p.1 ∨ s.stepCount + k + 1 ≥ cfg.timeLimit) := by
  obtain ⟨hlt, rfl⟩ := EpRun.run_get_eq (step cfg) s as k p h
  have hw : Jx.Grid.shaped (EpRun.after (step cfg) s (as.take k)).walls cfg.numRows cfg.numCols = true := by
    rw [after_walls]; exact hs
  rw [last_iff cfg _ _ hw]
  unfold endsSpec
  rw [step_count, EpRun.after_count (step cfg) (·.stepCount) (step_count cfg), List.length_take,
    Nat.min_eq_left (by omega)]
  constructor
  · rintro (h | h | h)
    · exact Or.inl h
    · exact Or.inr (Or.inr h)
    · exact Or.inr (Or.inl h)
  · rintro (h | h | h)
    · exact Or.inl h
    · exact Or.inr (Or.inr h)
    · exact Or.inr (Or.inl h)

/-- so, when the target is not reached and the agent is not stuck, the FIRST LAST of a play is exactly the step
at which the counter reaches the limit -/
theorem run_first_last_eq (cfg : Cfg) (s : State) (hs : Jx.Grid.shaped s.walls cfg.numRows cfg.numCols = true)
    (h0 : s.stepCount < cfg.timeLimit) (as : List Int) (k : Nat) (p : State × TimeStep Obs)
    (h : (run cfg s as)[k]? = some p) (hlast : p.2.stepType = .last)
    (hno : EpRun.NoLastBefore (step cfg) (·.stepType = .last) s as k)
    (hother : ¬ atTarget p.1 ∧ ¬ stuck cfg p.1) : s.stepCount + k + 1 = cfg.timeLimit := by
  have hge : s.stepCount + k + 1 ≥ cfg.timeLimit := by
    rcases (run_last_iff cfg s hs as k p h).1 hlast with h1 | h1 | h1
    · exact absurd h1 hother.1
    · exact absurd h1 hother.2
    · exact h1
  cases k with
  | zero => omega
  | succ k =>
    have hk' : k < as.length := by have := EpRun.run_get_lt _ _ _ _ _ h; omega
    have hq := EpRun.run_get (step cfg) s as k hk'
    have hprev := hno k _ (by omega) hq
    have : ¬ (s.stepCount + k + 1 ≥ cfg.timeLimit) := fun hg => hprev (run_last_at_limit cfg s as k _ hq hg)
    push_cast
    omega

/-! ### C01: shapes -/

theorem computeMask_length (cfg : Cfg) (w : Jx.Grid Bool) (p : Pos) : (computeMask cfg w p).length = 4 := by
  unfold computeMask moves; simp

theorem reset_obs_shaped (cfg : Cfg) (g : State) (hs : Jx.Grid.shaped g.walls cfg.numRows cfg.numCols = true) :
    ObsShaped cfg (reset cfg g).2.obs := ⟨hs, computeMask_length cfg _ _⟩

theorem step_obs_shaped (cfg : Cfg) (s : State) (hs : Jx.Grid.shaped s.walls cfg.numRows cfg.numCols = true)
    (a : Int) : ObsShaped cfg (step cfg s a).2.obs := by
  have ho : (step cfg s a).2.obs = obsOf (step cfg s a).1 := by
    show (condLast _ _ _).obs = _
    rw [condLast_obs]; rfl
  rw [ho]
  exact ⟨hs, computeMask_length cfg _ _⟩

end Maze
