/-
Maze — C01 spec membership (wave 4): the declared specs as `Sp` values (`obsSpec cfg`, `actionSpec`; equal to the generated
literals of the three catalogue configurations, Props/Env/Maze.lean), the model observation as the spec-level arrays the
implementation emits (`toNValue`: the seven leaves in the order of the spec, shapes READ OFF the values), membership of the
observation of `reset` (every generated state, every admissible generator draw, the toy state) and of EVERY `step` from a
state satisfying the invariant `SpecInv` (= `Consistent`: walls of the configured shape, fresh cached mask, agent and target
on free cells), which reset establishes and every in-spec action (legal or not, terminal or not) preserves; whole rollouts;
the converse (`obs_valid_only`); reward / discount / action spec.

`step_count` is declared as an UNBOUNDED `Array((), int32)`: no hypothesis on the counter is needed, and the membership
holds along rollouts of any length (also past the first LAST).
-/
import JumanjiModel.Env.Maze.BoundsLemmas
import JumanjiModel.Env.Maze.RunLemmas
import JumanjiModel.Env.PackSpecValid
import JumanjiModel.Env.SpecValidW3
import JumanjiModel.Env.RoutingSpecValid
namespace Maze
open Jm Sp PzS PkS

/-! ### the declared specs (env.py `observation_spec`, `action_spec`) -/

/-- `BoundedArray((), int32, 0, n − 1, name)`: one coordinate of a `Position` -/
def coordSpec (n : Nat) (nm : String) : Leaf :=
  .bounded [] .int32 nm [] [((0 : Int) : Rat)] [] [((((n : Nat) : Int) - 1 : Int) : Rat)]

/-- `observation_spec` (flattened, in the order of the `Spec(...)` call): the two `PositionSpec`s (`row` in
`[0, num_rows − 1]`, `col` in `[0, num_cols − 1]`), `walls` BoundedArray((R, C), bool), `step_count` Array((), int32) —
unbounded —, `action_mask` BoundedArray((4,), bool) -/
def obsSpec (cfg : Cfg) : Sp.Nested :=
  [("agent_position.row", coordSpec cfg.numRows "row_coordinate"),
   ("agent_position.col", coordSpec cfg.numCols "col_coordinate"),
   ("target_position.row", coordSpec cfg.numRows "row_coordinate"),
   ("target_position.col", coordSpec cfg.numCols "col_coordinate"),
   ("walls", .bounded [cfg.numRows, cfg.numCols] .bool "walls" [] [0] [] [1]),
   ("step_count", .array [] .int32 "step_count"),
   ("action_mask", .bounded [4] .bool "action_mask" [] [0] [] [1])]

/-- `action_spec`: DiscreteArray(4, int32) -/
def actionSpec : Leaf := .discrete 4 .int32 "action"

/-- a model observation as the arrays the implementation emits (leaves in the order of the spec) -/
def toNValue (o : Obs) : NValue :=
  [("agent_position.row", ⟨[], .int32, [(o.agent.1 : Rat)]⟩),
   ("agent_position.col", ⟨[], .int32, [(o.agent.2 : Rat)]⟩),
   ("target_position.row", ⟨[], .int32, [(o.target.1 : Rat)]⟩),
   ("target_position.col", ⟨[], .int32, [(o.target.2 : Rat)]⟩),
   ("walls", ⟨shape2 o.walls, .bool, ofBools (List.flatten o.walls)⟩),
   ("step_count", ⟨[], .int32, [(o.stepCount : Rat)]⟩),
   ("action_mask", ⟨shape1 o.actionMask, .bool, ofBools o.actionMask⟩)]

def actionArr (a : Int) : Arr := ⟨[], .int32, [(a : Rat)]⟩

/-- what membership amounts to -/
def ObsOK (cfg : Cfg) (o : Obs) : Prop :=
  inGrid cfg o.agent ∧ inGrid cfg o.target ∧ Rect2 o.walls cfg.numRows cfg.numCols ∧ o.actionMask.length = 4

theorem valid_coord (n : Nat) (nm : String) (v : Int) (h : 0 ≤ v ∧ v < (n : Int)) :
    (coordSpec n nm).valid ⟨[], .int32, [(v : Rat)]⟩ = true :=
  PzS3.valid_scalar_int .int32 nm 0 (((n : Nat) : Int) - 1) v ⟨h.1, by omega⟩

theorem valid_coord_iff (n : Nat) (nm : String) (v : Int) :
    (coordSpec n nm).valid ⟨[], .int32, [(v : Rat)]⟩ = true ↔ 0 ≤ v ∧ v < (n : Int) := by
  unfold coordSpec
  rw [PzS3.valid_scalar_int_iff]
  omega

theorem obs_valid (cfg : Cfg) (o : Obs) (h : ObsOK cfg o) : (obsSpec cfg).valid (toNValue o) = true := by
  obtain ⟨⟨a1, a2, a3, a4⟩, ⟨t1, t2, t3, t4⟩, hw, hm⟩ := h
  have v1 := valid_coord cfg.numRows "row_coordinate" o.agent.1 ⟨a1, a2⟩
  have v2 := valid_coord cfg.numCols "col_coordinate" o.agent.2 ⟨a3, a4⟩
  have v3 := valid_coord cfg.numRows "row_coordinate" o.target.1 ⟨t1, t2⟩
  have v4 := valid_coord cfg.numCols "col_coordinate" o.target.2 ⟨t3, t4⟩
  have v5 := valid_bounded2 cfg.numRows cfg.numCols .bool "walls" 0 1 o.walls ofBools ofBools_length hw (by omega)
    (ofBools_bounds _)
  have v6 : (Leaf.array [] .int32 "step_count").valid ⟨[], .int32, [(o.stepCount : Rat)]⟩ = true :=
    valid_array _ _ _ _ (by simp [prod])
  have v7 := valid_bounded1 4 .bool "action_mask" 0 1 o.actionMask ofBools ofBools_length hm (ofBools_bounds _)
  simp [Nested.valid, obsSpec, toNValue, v1, v2, v3, v4, v5, v6, v7]

/-- … and conversely `validate` accepts nothing else: both positions on cells of the grid, `walls` of the declared shape, a
4-entry mask (the counter is unconstrained: the spec declares an unbounded `Array`) -/
theorem obs_valid_only (cfg : Cfg) (o : Obs) (h : (obsSpec cfg).valid (toNValue o) = true) :
    inGrid cfg o.agent ∧ inGrid cfg o.target ∧ shape2 o.walls = [cfg.numRows, cfg.numCols] ∧ o.actionMask.length = 4 := by
  simp only [Nested.valid, obsSpec, toNValue, List.map_cons, List.map_nil, List.zipWith_cons_cons, List.zipWith_nil_right,
    List.all_cons, List.all_nil, id, Bool.and_true, Bool.and_eq_true, beq_self_eq_true, true_and] at h
  obtain ⟨h1, h2, h3, h4, h5, _, h7⟩ := h
  rw [valid_coord_iff] at h1 h2 h3 h4
  rw [valid_scalar_bounded_iff] at h5 h7
  refine ⟨⟨h1.1, h1.2, h2.1, h2.2⟩, ⟨h3.1, h3.2, h4.1, h4.2⟩, h5.1, ?_⟩
  have := h7.1
  simpa [shape1] using this

/-! ### the invariant -/

/-- the invariant behind the membership theorems: the physically possible configurations (C07's `Consistent`) -/
def SpecInv (cfg : Cfg) (s : State) : Prop := Consistent cfg s
instance (cfg : Cfg) (s : State) : Decidable (SpecInv cfg s) := by unfold SpecInv; infer_instance

theorem obsOf_ok (cfg : Cfg) (s : State) (h : SpecInv cfg s) : ObsOK cfg (obsOf s) := by
  obtain ⟨⟨hs, hm⟩, ha, ht⟩ := h
  refine ⟨ha.1, ht.1, rect2_of_shaped hs, ?_⟩
  show s.actionMask.length = 4
  rw [hm]; exact legalMask_length cfg s

theorem step_obs_eq (cfg : Cfg) (s : State) (a : Int) : (step cfg s a).2.obs = obsOf (step cfg s a).1 := by
  show (condLast _ _ _).obs = _
  rw [condLast_obs]; rfl

theorem reset_specInv (cfg : Cfg) (g : State) (hs : Jx.Grid.shaped g.walls cfg.numRows cfg.numCols = true)
    (ha : free cfg g.walls g.agent) (ht : free cfg g.walls g.target) : SpecInv cfg (reset cfg g).1 :=
  reset_consistent cfg g hs ha ht

theorem step_specInv (cfg : Cfg) (s : State) (h : SpecInv cfg s) (a : Nat) (ha : a < 4) :
    SpecInv cfg (step cfg s (a : Int)).1 := step_consistent cfg s h a ha

/-! ### C01: reset / step / rollouts emit members of the declared spec -/

/-- the `reset` observation on top of ANY generated state with walls of the configured shape, agent and target on free
cells (any counter) -/
theorem reset_obs_valid (cfg : Cfg) (g : State) (hs : Jx.Grid.shaped g.walls cfg.numRows cfg.numCols = true)
    (ha : free cfg g.walls g.agent) (ht : free cfg g.walls g.target) :
    (obsSpec cfg).valid (toNValue (reset cfg g).2.obs) = true :=
  obs_valid cfg _ (obsOf_ok cfg _ (reset_specInv cfg g hs ha ht))

/-- `RandomGenerator`: for EVERY admissible draw (a recursive-division maze, two different free cells) -/
theorem generate_obs_valid (cfg : Cfg) (d : GenDraw) (hv : validGenDraw cfg d) :
    (obsSpec cfg).valid (toNValue (reset cfg (generate cfg d)).2.obs) = true ∧
    SpecInv cfg (reset cfg (generate cfg d)).1 :=
  ⟨obs_valid cfg _ (obsOf_ok cfg _ (generated_wellformed cfg d hv).1), (generated_wellformed cfg d hv).1⟩

/-- the observation of EVERY step with an in-spec action (legal or a no-op, MID or LAST) from a state satisfying the invariant -/
theorem step_obs_valid (cfg : Cfg) (s : State) (h : SpecInv cfg s) (a : Nat) (ha : a < 4) :
    (obsSpec cfg).valid (toNValue (step cfg s (a : Int)).2.obs) = true := by
  rw [step_obs_eq]
  exact obs_valid cfg _ (obsOf_ok cfg _ (step_specInv cfg s h a ha))

/-- whole episodes and beyond: along the rollout (`Ep.rollout` = the L1 step iterated, no stop at LAST) of ANY in-spec
actions from a state satisfying the invariant, EVERY emitted observation is a member of the spec -/
theorem rollout_obs_valid (cfg : Cfg) (s : State) (h : SpecInv cfg s) (as : List Nat) (has : ∀ a ∈ as, a < 4)
    (j : Nat) (e : State × TimeStep Obs)
    (he : (Ep.rollout (fun s (a : Nat) => step cfg s (a : Int)) s as)[j]? = some e) :
    (obsSpec cfg).valid (toNValue e.2.obs) = true ∧ SpecInv cfg e.1 := by
  obtain ⟨s', a, hinv, ha, rfl⟩ := rollout_inv_idx (fun s (a : Nat) => step cfg s (a : Int))
    (fun _ s => SpecInv cfg s) (fun a => a < 4) (fun _ s a h ha => step_specInv cfg s h a ha) 0 s h as has j e he
  exact ⟨step_obs_valid cfg s' hinv a ha, step_specInv cfg s' hinv a ha⟩

/-! ### reward, discount, action spec -/

theorem step_protocol (cfg : Cfg) (s : State) (a : Int) : StepOK none false (step cfg s a).2 = true := by
  unfold step; exact condLast_stepOK _ _ _

theorem step_reward_discount_valid (cfg : Cfg) (s : State) (a : Int) :
    PzS.rewardSpec.valid (scalarArr (step cfg s a).2.reward) = true ∧
    discountSpec.valid (scalarArr (step cfg s a).2.discount) = true :=
  stepOK_reward_discount_valid false _ (step_protocol cfg s a)

theorem reset_reward_discount_valid (cfg : Cfg) (g : State) :
    PzS.rewardSpec.valid (scalarArr (reset cfg g).2.reward) = true ∧
    discountSpec.valid (scalarArr (reset cfg g).2.discount) = true := by
  unfold reset; simp only [restart]; exact ⟨by decide, by decide⟩

/-- membership in `action_spec` is exactly "one of the four directions" -/
theorem actionSpec_valid_iff (a : Int) : actionSpec.valid (actionArr a) = true ↔ 0 ≤ a ∧ a < 4 := by
  have := PzS.valid_discrete_iff 4 "action" a
  simpa [actionSpec, actionArr] using this

/-- `action_spec.generate_value()` = 0 (Up): the action spec is well-formed, the generated value is a member, `step` answers it
in EVERY state with a protocol-conform timestep, and from a state satisfying the invariant with an observation in the spec -/
theorem accepts_generate_value (cfg : Cfg) (s : State) :
    actionSpec.WF = true ∧ actionSpec.valid actionSpec.generate = true ∧ actionSpec.generate = actionArr 0 ∧
    StepOK none false (step cfg s 0).2 = true ∧
    (SpecInv cfg s → (obsSpec cfg).valid (toNValue (step cfg s 0).2.obs) = true) :=
  ⟨by decide, by decide, by decide, step_protocol cfg s 0, fun h => step_obs_valid cfg s h 0 (by omega)⟩

end Maze
