import JumanjiModel.Env.Maze.Model
import JumanjiModel.Prim.Lemmas
import JumanjiModel.Env.Maze.GridLemmas
namespace Maze
open Jm

theorem get_indep {α} {g : Jx.Grid α} {nr nc : Nat} (h : Jx.Grid.shaped g nr nc = true) (d d' : α) {r c : Nat}
    (hr : r < nr) (hc : c < nc) : Jx.Grid.get g d r c = Jx.Grid.get g d' r c := by
  have hrow := Jx.Grid.shaped_row h hr
  unfold Jx.Grid.get
  have hc' : c < (List.getD g r []).length := by omega
  generalize List.getD g r [] = row at *
  rw [List.getD_eq_getElem?_getD, List.getD_eq_getElem?_getD, List.getElem?_eq_getElem hc']
  rfl

/-- the bounds-and-wall test of the code, at any displacement, is the rules' `free` for a well-shaped grid -/
theorem isMoveValid_iff (cfg : Cfg) (walls : Jx.Grid Bool) (p mv : Pos)
    (hs : Jx.Grid.shaped walls cfg.numRows cfg.numCols = true) :
    isMoveValid cfg walls p mv = true ↔ free cfg walls (p.1 + mv.1, p.2 + mv.2) := by
  unfold isMoveValid free inGrid isWall
  simp only [Bool.and_eq_true, decide_eq_true_eq, Bool.not_eq_true']
  constructor
  · rintro ⟨⟨⟨⟨h1, h2⟩, h3⟩, h4⟩, h5⟩
    rw [Jx.Grid.getWC_eq_get hs false h1 h2 h3 h4] at h5
    refine ⟨⟨h1, h2, h3, h4⟩, ?_⟩
    rw [← get_indep hs false true (by omega) (by omega)]; exact h5
  · rintro ⟨⟨h1, h2, h3, h4⟩, h5⟩
    refine ⟨⟨⟨⟨h1, h2⟩, h3⟩, h4⟩, ?_⟩
    rw [Jx.Grid.getWC_eq_get hs false h1 h2 h3 h4, get_indep hs false true (by omega) (by omega)]; exact h5

theorem isMoveValid_eq (cfg : Cfg) (walls : Jx.Grid Bool) (p mv : Pos)
    (hs : Jx.Grid.shaped walls cfg.numRows cfg.numCols = true) :
    isMoveValid cfg walls p mv = decide (free cfg walls (p.1 + mv.1, p.2 + mv.2)) := by
  rw [Bool.eq_iff_iff, isMoveValid_iff cfg walls p mv hs]; simp

/-- the mask computed by the code is the mask prescribed by the rules -/
theorem computeMask_eq (cfg : Cfg) (s : State) (hs : Jx.Grid.shaped s.walls cfg.numRows cfg.numCols = true) :
    computeMask cfg s.walls s.agent = legalMask cfg s := by
  unfold computeMask legalMask moves legal dest
  simp only [List.map, List.range, List.range.loop, isMoveValid_eq cfg s.walls s.agent _ hs, dir]
  simp

theorem legalMask_getD (cfg : Cfg) (s : State) (a : Nat) :
    (legalMask cfg s).getD a false = true ↔ legal cfg s a := by
  unfold legalMask
  by_cases h : a < 4
  · simp [List.getD_eq_getElem?_getD, List.getElem?_map, List.getElem?_range h]
  · have : ¬ legal cfg s a := fun hl => h hl.1
    rw [List.getD_eq_getElem?_getD, List.getElem?_eq_none (by simp; omega)]
    simp [this]

theorem mask_iff_legal (cfg : Cfg) (s : State) (hs : Jx.Grid.shaped s.walls cfg.numRows cfg.numCols = true)
    (a : Nat) : (computeMask cfg s.walls s.agent).getD a false = true ↔ legal cfg s a := by
  rw [computeMask_eq cfg s hs]; exact legalMask_getD cfg s a

theorem legalMask_length (cfg : Cfg) (s : State) : (legalMask cfg s).length = 4 := by
  unfold legalMask; simp

/-- the validity test `step` applies (a lookup in the cached mask) agrees with the rules -/
theorem step_agrees (cfg : Cfg) (s : State) (hi : Inv cfg s) (a : Nat) (ha : a < 4) :
    Jx.getWC s.actionMask false (a : Int) = true ↔ legal cfg s a := by
  rw [hi.2, Jx.getWC_nat _ _ (by rw [legalMask_length]; exact ha)]
  exact legalMask_getD cfg s a

theorem switchMove_dir (a : Nat) (ha : a < 4) (p : Pos) : switchMove (a : Int) p = dest p a := by
  unfold switchMove dest
  match a, ha with
  | 0, _ => simp [dir]; omega
  | 1, _ => simp [dir]
  | 2, _ => simp [dir]
  | 3, _ => simp [dir]; omega

theorem switchMove_noop (p : Pos) : switchMove 4 p = p := by
  unfold switchMove; simp

theorem legalMask_congr (cfg : Cfg) (s t : State) (hw : t.walls = s.walls) (ha : t.agent = s.agent) :
    legalMask cfg t = legalMask cfg s := by
  unfold legalMask
  apply List.map_congr_left
  intro a _
  exact decide_eq_decide.2 (by unfold legal; rw [hw, ha])

theorem stuck_iff (cfg : Cfg) (s : State) : (legalMask cfg s).any id = false ↔ stuck cfg s := by
  unfold stuck legalMask
  simp [List.any_eq_false]

/-- the successor's cached mask is the fresh mask of the successor (needs only well-shaped walls) -/
theorem step_mask_fresh (cfg : Cfg) (s : State) (a : Int)
    (hs : Jx.Grid.shaped s.walls cfg.numRows cfg.numCols = true) :
    (step cfg s a).1.actionMask = legalMask cfg (step cfg s a).1 := by
  have h : (step cfg s a).1.actionMask = computeMask cfg (step cfg s a).1.walls (step cfg s a).1.agent := rfl
  rw [h]; exact computeMask_eq cfg _ hs

theorem step_walls (cfg : Cfg) (s : State) (a : Int) : (step cfg s a).1.walls = s.walls := rfl
theorem step_target (cfg : Cfg) (s : State) (a : Int) : (step cfg s a).1.target = s.target := rfl
theorem step_count (cfg : Cfg) (s : State) (a : Int) : (step cfg s a).1.stepCount = s.stepCount + 1 := rfl

/-- the timestep of ANY step is the documented function of the successor state -/
theorem step_ts (cfg : Cfg) (s : State) (a : Int)
    (hs : Jx.Grid.shaped s.walls cfg.numRows cfg.numCols = true) :
    (step cfg s a).2 = condLast (decide (endsSpec cfg (step cfg s a).1)) [rewardSpec (step cfg s a).1]
      (observe cfg (step cfg s a).1) := by
  have hm := step_mask_fresh cfg s a hs
  generalize hs' : (step cfg s a).1 = s' at hm
  have e : (step cfg s a).2 = condLast (!(s'.actionMask.any id) || decide (s'.agent = s'.target) ||
      decide (s'.stepCount ≥ cfg.timeLimit)) [if decide (s'.agent = s'.target) then 1 else 0] (obsOf s') := by
    rw [← hs']; rfl
  rw [e]
  have ho : obsOf s' = observe cfg s' := by unfold obsOf observe; rw [hm]
  have hr : (if decide (s'.agent = s'.target) then (1 : Rat) else 0) = rewardSpec s' := by
    unfold rewardSpec atTarget; simp
  have hd : (!(s'.actionMask.any id) || decide (s'.agent = s'.target) || decide (s'.stepCount ≥ cfg.timeLimit)) =
      decide (endsSpec cfg s') := by
    rw [Bool.eq_iff_iff, decide_eq_true_iff]
    unfold endsSpec atTarget
    rw [hm]
    have := stuck_iff cfg s'
    simp only [Bool.or_eq_true, Bool.not_eq_true', decide_eq_true_eq, this]
    constructor
    · rintro ((h | h) | h)
      · exact Or.inr (Or.inr h)
      · exact Or.inl h
      · exact Or.inr (Or.inl h)
    · rintro (h | h | h)
      · exact Or.inl (Or.inr h)
      · exact Or.inr h
      · exact Or.inl (Or.inl h)
  rw [ho, hr, hd]

/-- the successor state of an in-spec action is the one the rules prescribe -/
theorem step_next (cfg : Cfg) (s : State) (hi : Inv cfg s) (a : Nat) (ha : a < 4) :
    (step cfg s (a : Int)).1 = nextSpec cfg s a := by
  have hag := step_agrees cfg s hi a ha
  have hp : (step cfg s (a : Int)).1.agent = if legal cfg s a then dest s.agent a else s.agent := by
    show switchMove (if Jx.getWC s.actionMask false (a : Int) = true then (a : Int) else 4) s.agent = _
    by_cases hl : legal cfg s a
    · rw [if_pos (hag.2 hl), if_pos hl, switchMove_dir a ha]
    · have : ¬ Jx.getWC s.actionMask false (a : Int) = true := fun h => hl (hag.1 h)
      rw [if_neg this, if_neg hl, switchMove_noop]
  have hm := step_mask_fresh cfg s (a : Int) hi.1
  generalize hs' : (step cfg s (a : Int)).1 = s' at hm hp
  have hw : s'.walls = s.walls := by rw [← hs']; rfl
  have ht : s'.target = s.target := by rw [← hs']; rfl
  have hc : s'.stepCount = s.stepCount + 1 := by rw [← hs']; rfl
  unfold nextSpec
  simp only []
  have hlm : legalMask cfg s' = legalMask cfg
      { s with agent := if legal cfg s a then dest s.agent a else s.agent, stepCount := s.stepCount + 1 } :=
    legalMask_congr cfg _ s' (by simp [hw]) (by simp [hp])
  cases s'
  simp_all

/-- C09: under the invariant the transliterated `step` IS the rules' `stepSpec` -/
theorem step_refines (cfg : Cfg) (s : State) (hi : Inv cfg s) (a : Nat) (ha : a < 4) :
    step cfg s (a : Int) = stepSpec cfg s a := by
  have h1 := step_next cfg s hi a ha
  have h2 := step_ts cfg s (a : Int) hi.1
  rw [h1] at h2
  unfold stepSpec
  exact Prod.ext h1 h2

/-! ### consequences -/

theorem condLast_obs {O} (d : Bool) (r : List Rat) (o : O) : (condLast d r o).obs = o := by
  unfold condLast; split <;> rfl
theorem condLast_reward {O} (d : Bool) (r : List Rat) (o : O) : (condLast d r o).reward = r := by
  unfold condLast; split <;> rfl
theorem condLast_last {O} (d : Bool) (r : List Rat) (o : O) : (condLast d r o).stepType = .last ↔ d = true := by
  unfold condLast termination transition; split <;> simp_all
theorem condLast_discount {O} (d : Bool) (r : List Rat) (o : O) :
    (condLast d r o).discount = if d then [0] else [1] := by
  unfold condLast termination transition; split <;> simp_all [zerosR, onesR, RShape.size]

/-- C12 -/
theorem obs_faithful (cfg : Cfg) (s : State) (a : Int)
    (hs : Jx.Grid.shaped s.walls cfg.numRows cfg.numCols = true) :
    (step cfg s a).2.obs = observe cfg (step cfg s a).1 := by
  rw [step_ts cfg s a hs, condLast_obs]

theorem reward_eq (cfg : Cfg) (s : State) (a : Int)
    (hs : Jx.Grid.shaped s.walls cfg.numRows cfg.numCols = true) :
    (step cfg s a).2.reward = [objective (step cfg s a).1] := by
  rw [step_ts cfg s a hs, condLast_reward]; rfl

theorem last_iff (cfg : Cfg) (s : State) (a : Int)
    (hs : Jx.Grid.shaped s.walls cfg.numRows cfg.numCols = true) :
    (step cfg s a).2.stepType = .last ↔ endsSpec cfg (step cfg s a).1 := by
  rw [step_ts cfg s a hs, condLast_last]; simp

theorem mid_reward_zero (cfg : Cfg) (s : State) (a : Int)
    (hs : Jx.Grid.shaped s.walls cfg.numRows cfg.numCols = true)
    (hm : (step cfg s a).2.stepType ≠ .last) : (step cfg s a).2.reward = [0] := by
  rw [reward_eq cfg s a hs]
  have : ¬ atTarget (step cfg s a).1 := fun h => hm ((last_iff cfg s a hs).2 (Or.inl h))
  unfold objective; rw [if_neg this]

theorem time_limit_last (cfg : Cfg) (s : State) (a : Int)
    (hs : Jx.Grid.shaped s.walls cfg.numRows cfg.numCols = true)
    (ht : s.stepCount + 1 ≥ cfg.timeLimit) : (step cfg s a).2.stepType = .last := by
  rw [last_iff cfg s a hs]; exact Or.inr (Or.inl (by rw [step_count]; exact ht))

/-- C05: an illegal in-spec action is ignored -/
theorem illegal_ignored (cfg : Cfg) (s : State) (hi : Inv cfg s) (a : Nat) (ha : a < 4) (hl : ¬ legal cfg s a) :
    (step cfg s (a : Int)).1.agent = s.agent ∧ (step cfg s (a : Int)).1.walls = s.walls ∧
    (step cfg s (a : Int)).1.target = s.target ∧ (step cfg s (a : Int)).1.stepCount = s.stepCount + 1 ∧
    illegalIgnored cfg s (step cfg s (a : Int)).1 (step cfg s (a : Int)).2 = true := by
  have hag : (step cfg s (a : Int)).1.agent = s.agent := by
    rw [step_next cfg s hi a ha]; unfold nextSpec; simp [hl]
  refine ⟨hag, rfl, rfl, rfl, ?_⟩
  have hts := step_ts cfg s (a : Int) hi.1
  have hm := step_mask_fresh cfg s (a : Int) hi.1
  have h1 : (step cfg s (a : Int)).2.reward = [rewardSpec (step cfg s (a : Int)).1] := by
    rw [hts, condLast_reward]
  have h2 := last_iff cfg s (a : Int) hi.1
  have h3 : (step cfg s (a : Int)).2.stepType ≠ .first := by
    rw [hts]; unfold condLast termination transition; split <;> simp
  unfold illegalIgnored
  simp only [Bool.and_eq_true, decide_eq_true_eq, bne_iff_ne, ne_eq]
  exact ⟨⟨⟨⟨⟨⟨⟨hag, rfl⟩, rfl⟩, rfl⟩, hm⟩, h1⟩, h2⟩, h3⟩

/-- C07: any in-spec action keeps the configuration physically possible -/
theorem step_consistent (cfg : Cfg) (s : State) (hc : Consistent cfg s) (a : Nat) (ha : a < 4) :
    Consistent cfg (step cfg s (a : Int)).1 := by
  obtain ⟨hi, hfa, hft⟩ := hc
  refine ⟨⟨hi.1, step_mask_fresh cfg s (a : Int) hi.1⟩, ?_, hft⟩
  rw [step_walls, step_next cfg s hi a ha]
  unfold nextSpec; simp only []
  by_cases hl : legal cfg s a
  · rw [if_pos hl]; exact hl.2
  · rw [if_neg hl]; exact hfa

theorem step_conserved (cfg : Cfg) (s : State) (a : Int) : conserved s (step cfg s a).1 = true := by
  unfold conserved; simp [step_walls, step_target]

/-! ### whole episodes (C08) -/

/-- state after playing the actions `as` from `s` -/
def runState (cfg : Cfg) (s : State) : List Int → State
  | [] => s
  | a :: as => runState cfg (step cfg s a).1 as

/-- sum of the rewards of playing `as` from `s` -/
def runReturn (cfg : Cfg) (s : State) : List Int → Rat
  | [] => 0
  | a :: as => (step cfg s a).2.reward.sum + runReturn cfg (step cfg s a).1 as

/-- `as` is one episode: every step except possibly the final one is not LAST -/
def isEpisode (cfg : Cfg) (s : State) : List Int → Prop
  | [] => True
  | [_] => True
  | a :: b :: as => (step cfg s a).2.stepType ≠ .last ∧ isEpisode cfg (step cfg s a).1 (b :: as)

theorem episode_return (cfg : Cfg) (s : State) (as : List Int) (hne : as ≠ [])
    (hs : Jx.Grid.shaped s.walls cfg.numRows cfg.numCols = true) (he : isEpisode cfg s as) :
    runReturn cfg s as = objective (runState cfg s as) := by
  induction as generalizing s with
  | nil => exact absurd rfl hne
  | cons a as ih =>
    cases as with
    | nil =>
      simp only [runReturn, runState]
      rw [reward_eq cfg s a hs]; simp [Rat.add_zero]
    | cons b as =>
      simp only [runReturn, runState]
      have h0 := mid_reward_zero cfg s a hs he.1
      have := ih (step cfg s a).1 (by simp) (by rw [step_walls]; exact hs) he.2
      simp only [runReturn, runState] at this
      rw [h0, this]; simp [Rat.zero_add]
end Maze
