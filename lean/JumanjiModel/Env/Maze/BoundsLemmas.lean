/- Proofs of the C01 value bounds of Maze. -/
import JumanjiModel.Env.Maze.Bounds
import JumanjiModel.Env.Maze.Lemmas
namespace Maze
open Jm

theorem inIv_int {lo hi x : Int} (h1 : lo ≤ x) (h2 : x ≤ hi) : inIv (ivInt lo hi) (x : Rat) := by
  refine ⟨fun l hl => ?_, fun h hh => ?_⟩
  · simp only [ivInt, Option.some.injEq] at hl; subst hl; exact Rat.intCast_le_intCast.mpr h1
  · simp only [ivInt, Option.some.injEq] at hh; subst hh; exact Rat.intCast_le_intCast.mpr h2

theorem inIv_b2r (b : Bool) : inIv (ivInt 0 1) (b2r b) := by
  cases b
  · exact inIv_int (x := 0) (by omega) (by omega)
  · exact inIv_int (x := 1) (by omega) (by omega)

theorem inIv_bools (bs : List Bool) : ∀ v ∈ bs.map b2r, inIv (ivInt 0 1) v := by
  intro v hv
  obtain ⟨b, _, rfl⟩ := List.mem_map.mp hv
  exact inIv_b2r b

/-- the observation of a state whose agent and target are inside the grid and whose counter is in
`[0, time_limit]` is within bounds -/
theorem obsOf_in_bounds (cfg : Cfg) (s : State) (ha : inGrid cfg s.agent) (ht : inGrid cfg s.target)
    (h0 : 0 ≤ s.stepCount) (h1 : s.stepCount ≤ cfg.timeLimit) : ObsInBounds cfg (obsOf s) := by
  obtain ⟨a1, a2, a3, a4⟩ := ha
  obtain ⟨t1, t2, t3, t4⟩ := ht
  intro k iv hk vs hvs v hv
  simp only [obsBounds, List.mem_cons, Prod.mk.injEq, List.not_mem_nil, or_false] at hk
  simp only [obsLeaves, obsOf, List.mem_cons, Prod.mk.injEq, List.not_mem_nil, or_false] at hvs
  rcases hk with ⟨rfl, rfl⟩ | ⟨rfl, rfl⟩ | ⟨rfl, rfl⟩ | ⟨rfl, rfl⟩ | ⟨rfl, rfl⟩ | ⟨rfl, rfl⟩ | ⟨rfl, rfl⟩ <;>
    rcases hvs with ⟨hk', rfl⟩ | ⟨hk', rfl⟩ | ⟨hk', rfl⟩ | ⟨hk', rfl⟩ | ⟨hk', rfl⟩ | ⟨hk', rfl⟩ | ⟨hk', rfl⟩ <;>
    first
    | (exfalso; revert hk'; decide)
    | (simp only [List.mem_singleton] at hv; subst hv; apply inIv_int <;> omega)
    | exact inIv_bools _ v hv

theorem reset_obs_in_bounds (cfg : Cfg) (g : State) (ha : inGrid cfg g.agent) (ht : inGrid cfg g.target)
    (h0 : g.stepCount = 0) (htl : 0 ≤ cfg.timeLimit) : ObsInBounds cfg (reset cfg g).2.obs := by
  show ObsInBounds cfg (obsOf _)
  apply obsOf_in_bounds <;> simp_all

theorem step_obs_in_bounds (cfg : Cfg) (s : State) (hc : Consistent cfg s) (h0 : 0 ≤ s.stepCount)
    (h1 : s.stepCount < cfg.timeLimit) (a : Nat) (ha : a < 4) :
    ObsInBounds cfg (step cfg s (a : Int)).2.obs := by
  have hc' := step_consistent cfg s hc a ha
  have ho : (step cfg s (a : Int)).2.obs = obsOf (step cfg s (a : Int)).1 := by
    show (condLast _ _ _).obs = _
    rw [condLast_obs]; rfl
  rw [ho]
  apply obsOf_in_bounds cfg _ hc'.2.1.1 hc'.2.2.1
  · rw [step_count]; omega
  · rw [step_count]; omega

theorem reset_consistent (cfg : Cfg) (g : State)
    (hs : Jx.Grid.shaped g.walls cfg.numRows cfg.numCols = true) (ha : free cfg g.walls g.agent)
    (ht : free cfg g.walls g.target) : Consistent cfg (reset cfg g).1 := by
  refine ⟨⟨hs, ?_⟩, ha, ht⟩
  show computeMask cfg g.walls g.agent = legalMask cfg _
  rw [computeMask_eq cfg g hs]
  exact (legalMask_congr cfg g _ rfl rfl).symm

end Maze
