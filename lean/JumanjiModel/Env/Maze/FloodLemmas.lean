/-
Soundness of the executable flood-fill check `MazeGen.connected` (the `connected` flag of the `instance`
ops): if it answers `true`, the free cells of the grid are 4-connected (`MazeGen.Conn`).
-/
import JumanjiModel.Env.Maze.MazeGenLemmas
namespace MazeGen

theorem getD_map_range {β} (f : Nat → β) (n i : Nat) (d : β) :
    ((List.range n).map f).getD i d = if i < n then f i else d := by
  by_cases h : i < n
  · simp [List.getD_eq_getElem?_getD, h]
  · rw [List.getD_eq_getElem?_getD, List.getElem?_eq_none (by simp; omega)]; simp [h]

theorem vget_table (nr nc : Nat) (f : Nat → Nat → Bool) (r c : Nat) :
    vget ((List.range nr).map fun r => (List.range nc).map fun c => f r c) r c =
      (decide (r < nr) && decide (c < nc) && f r c) := by
  unfold vget Jx.Grid.get
  rw [getD_map_range]
  by_cases hr : r < nr
  · rw [if_pos hr, getD_map_range]
    by_cases hc : c < nc <;> simp [hr, hc]
  · rw [if_neg hr]; simp [hr]

theorem mem_coords (nr nc r c : Nat) : (r, c) ∈ Jx.Grid.coords nr nc ↔ r < nr ∧ c < nc := by
  unfold Jx.Grid.coords
  simp [List.mem_flatMap, List.mem_map, List.mem_range]

/-- every visited cell is a free cell of the grid reachable from the seed -/
def Good (m : Jx.Grid Bool) (nr nc : Nat) (seed : Cell) (v : Jx.Grid Bool) : Prop :=
  ∀ r c, vget v r c = true → Ok m 0 0 nc nr (c, r) ∧ Reach (Ok m 0 0 nc nr) seed (c, r)

theorem good_floodStep (m : Jx.Grid Bool) (nr nc : Nat) (seed : Cell) (v : Jx.Grid Bool)
    (hg : Good m nr nc seed v) : Good m nr nc seed (floodStep m nr nc v) := by
  intro r c hv
  unfold floodStep at hv
  rw [vget_table] at hv
  simp only [Bool.and_eq_true, Bool.or_eq_true, decide_eq_true_eq, Bool.not_eq_true'] at hv
  obtain ⟨⟨hr, hc⟩, hfree, hn⟩ := hv
  have hok : Ok m 0 0 nc nr (c, r) := ⟨by unfold InCh; simp only []; omega, hfree⟩
  refine ⟨hok, ?_⟩
  rcases hn with (((h | ⟨h0, h⟩) | h) | ⟨h0, h⟩) | h
  · exact (hg r c h).2
  · exact Reach.tail (hg (r - 1) c h).2 (Or.inl ⟨rfl, Or.inl (by simp only []; omega)⟩) hok
  · exact Reach.tail (hg (r + 1) c h).2 (Or.inl ⟨rfl, Or.inr (by simp only [])⟩) hok
  · exact Reach.tail (hg r (c - 1) h).2 (Or.inr ⟨rfl, Or.inl (by simp only []; omega)⟩) hok
  · exact Reach.tail (hg r (c + 1) h).2 (Or.inr ⟨rfl, Or.inr (by simp only [])⟩) hok

theorem good_flood (m : Jx.Grid Bool) (nr nc : Nat) (seed : Cell) :
    ∀ fuel v, Good m nr nc seed v → Good m nr nc seed (flood fuel m nr nc v)
  | 0, _, hg => hg
  | fuel + 1, v, hg => by
    unfold flood
    simp only []
    split
    · exact hg
    · exact good_flood m nr nc seed fuel _ (good_floodStep m nr nc seed v hg)

/-- soundness of the flood-fill connectivity check -/
theorem conn_of_connected (m : Jx.Grid Bool) (nr nc : Nat) (h : connected m nr nc = true) :
    Conn m 0 0 nc nr := by
  unfold connected at h
  split at h
  · -- no free cell at all
    rename_i hnone
    intro p q hp _
    have hin := hp.1; unfold InCh at hin
    have := List.find?_eq_none.1 hnone (p.2, p.1) ((mem_coords nr nc p.2 p.1).2 ⟨by omega, by omega⟩)
    simp only [Bool.not_eq_true, Bool.not_eq_false'] at this
    exact absurd hp.2 (by simp [this])
  · rename_i r0 c0 hsome
    have hmem := List.mem_of_find?_eq_some hsome
    have hb := (mem_coords nr nc r0 c0).1 hmem
    have hfree := List.find?_some hsome
    simp only [Bool.not_eq_true'] at hfree
    have hseed : Ok m 0 0 nc nr (c0, r0) := ⟨by unfold InCh; simp only []; omega, hfree⟩
    have g0 : Good m nr nc (c0, r0)
        ((List.range nr).map fun r => (List.range nc).map fun c => decide (r = r0 ∧ c = c0)) := by
      intro r c hv
      rw [vget_table] at hv
      simp only [Bool.and_eq_true, decide_eq_true_eq] at hv
      obtain ⟨_, h1, h2⟩ := hv
      subst h1; subst h2
      exact ⟨hseed, Reach.refl _⟩
    have gf := good_flood m nr nc (c0, r0) (nr * nc) _ g0
    simp only [List.all_eq_true, List.mem_range, Bool.or_eq_true] at h
    have hub : ∀ p, Ok m 0 0 nc nr p → Reach (Ok m 0 0 nc nr) (c0, r0) p := by
      intro p hp
      have hin := hp.1; unfold InCh at hin
      rcases h p.2 (by omega) p.1 (by omega) with hw | hv
      · exact absurd hp.2 (by simp [hw])
      · exact (gf p.2 p.1 hv).2
    intro p q hp hq
    exact Reach.trans (Reach.symm hseed (hub p hp)) (hub q hq)

end MazeGen
