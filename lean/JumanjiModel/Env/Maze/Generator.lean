/-
Maze generators (jumanji/environments/routing/maze/generator.py) and the play-out `run`.  Import-free (core +
Model/MazeGen/Bounds of this environment).

`RandomGenerator.__call__(key)`:
    walls = generate_maze(num_cols, num_rows, maze_key).astype(bool)
    idx   = jax.random.choice(agent_key, arange(num_rows * num_cols), (2,), replace=False, p=~walls.flatten())
    (agent_row, target_row), (agent_col, target_col) = jnp.divmod(idx, num_cols)
    State(agent_position, target_position, walls, action_mask=None, key, step_count=0)
The draws are the wall map `walls` (the output of the recursive-division routine, described by the certificate
`MazeGen.isRecursiveDivisionMaze`, A.5) and the two flat cell indices `i`, `j` returned by `choice`: sampling WITHOUT
replacement from the cells of non-zero probability, i.e. two DIFFERENT indices of cells that are not walls.
`ToyGenerator`: the hard-coded 5x5 maze, agent (0,0), target (0,4).
-/
import JumanjiModel.Env.Maze.Model
import JumanjiModel.Env.Maze.MazeGen
import JumanjiModel.Env.Maze.Bounds
import JumanjiModel.Env.EpisodeRun
namespace Maze
open Jm

/-- the draws of `RandomGenerator.__call__` -/
structure GenDraw where
  walls : Jx.Grid Bool
  i : Nat
  j : Nat
  deriving Repr, DecidableEq

/-- `jnp.divmod(index, num_cols)` -/
def posOf (cfg : Cfg) (k : Nat) : Pos := (((k / cfg.numCols : Nat) : Int), ((k % cfg.numCols : Nat) : Int))

/-- `walls.flatten()[k]` (positions that do not exist have probability 0, like walls) -/
def flatWall (walls : Jx.Grid Bool) (k : Nat) : Bool := (List.flatten walls).getD k true

/-- the state `RandomGenerator.__call__` returns (`action_mask=None`: an empty list; `reset` overwrites it) -/
def generate (cfg : Cfg) (d : GenDraw) : State :=
  { agent := posOf cfg d.i, target := posOf cfg d.j, walls := d.walls, actionMask := [], stepCount := 0 }

/-- admissible draws: a recursive-division maze of the configured size; two different cell indices of non-zero
probability `~walls.flatten()` -/
def validGenDraw (cfg : Cfg) (d : GenDraw) : Prop :=
  MazeGen.isRecursiveDivisionMaze d.walls cfg.numRows cfg.numCols = true ∧
  d.i < cfg.numRows * cfg.numCols ∧ d.j < cfg.numRows * cfg.numCols ∧ d.i ≠ d.j ∧
  flatWall d.walls d.i = false ∧ flatWall d.walls d.j = false

instance (cfg : Cfg) (d : GenDraw) : Decidable (validGenDraw cfg d) := by unfold validGenDraw; infer_instance

/-- the draws read off a reset state -/
def drawOf (cfg : Cfg) (s : State) : GenDraw :=
  { walls := s.walls, i := s.agent.1.toNat * cfg.numCols + s.agent.2.toNat,
    j := s.target.1.toNat * cfg.numCols + s.target.2.toNat }

/-- C10 certificate evaluated by `maze.instance` on the implementation's reset state: it IS the model's
`reset ∘ generate` of admissible draws (the draws read off the state) -/
def generatedBy (cfg : Cfg) (s : State) : Bool :=
  decide (validGenDraw cfg (drawOf cfg s)) && decide ((reset cfg (generate cfg (drawOf cfg s))).1 = s)

/-- `ToyGenerator.__call__` -/
def toyState : State :=
  { agent := (0, 0), target := (0, 4),
    walls := [[false, true, false, false, false],
              [false, true, false, true, true],
              [false, true, false, false, false],
              [false, false, false, true, true],
              [false, false, false, false, false]],
    actionMask := [], stepCount := 0 }

/-- certificate for the toy generator: the reset state is the model's reset of `toyState` -/
def toyGenerated (cfg : Cfg) (s : State) : Bool := decide ((reset cfg toyState).1 = s)

/-- the play-out of the L1 `step`: (successor state, timestep) for every action of `as`, in order -/
def run (cfg : Cfg) : State → List Int → List (State × TimeStep Obs) := EpRun.run (step cfg)

/-- C01: shapes of the observation leaves (scalars `[]`) -/
def obsShapes (cfg : Cfg) : List (String × List Nat) :=
  [("agent_position.row", []), ("agent_position.col", []), ("target_position.row", []),
   ("target_position.col", []), ("walls", [cfg.numRows, cfg.numCols]), ("step_count", []), ("action_mask", [4])]

/-- the observation has the shapes `obsShapes cfg` lists -/
def ObsShaped (cfg : Cfg) (o : Obs) : Prop :=
  Jx.Grid.shaped o.walls cfg.numRows cfg.numCols = true ∧ o.actionMask.length = 4

end Maze
