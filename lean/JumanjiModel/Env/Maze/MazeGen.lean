/-
Certificates for the recursive-division maze generator
(jumanji/environments/commons/maze_utils/maze_generation.py), shared by Maze and Cleaner (C10).
Import-free, executable, total.

* `valid`  — DESIGN Appendix A.5 `IsRecursiveDivisionMaze`: re-discovers the division of a chamber
  (a full wall line at an odd offset with exactly one passage at an even offset, recursively valid
  sub-chambers; chambers of width or height ≤ 1 are empty).
* `connected` — decidable 4-connectivity of the free cells by flood fill with fuel.
* `Connected` — the Prop it decides (paths of free cells), used by the theorems.
-/
import JumanjiModel.Prim.Grid
namespace MazeGen

/-- wall map lookup, `x` = column, `y` = row; cells that do not exist count as walls -/
def wall (m : Jx.Grid Bool) (x y : Nat) : Bool := Jx.Grid.get m true y x

/-- all cells of the chamber `(x, y, w, h)` are empty -/
def allEmpty (m : Jx.Grid Bool) (x y w h : Nat) : Bool :=
  (List.range h).all fun dy => (List.range w).all fun dx => !wall m (x + dx) (y + dy)

/-- offsets `d < n` at which `f d` is empty -/
def gaps (n : Nat) (isWall : Nat → Bool) : List Nat := (List.range n).filter (fun d => !isWall d)

/-- a wall line of length `n` with exactly one gap, at an even offset -/
def oneEvenGap (n : Nat) (isWall : Nat → Bool) : Bool :=
  match gaps n isWall with
  | [g] => g % 2 == 0
  | _ => false

/-- `IsRecursiveDivisionMaze` restricted to the chamber `(x, y, w, h)`; `fuel ≥ w + h + 1` suffices -/
def valid : Nat → Jx.Grid Bool → Nat → Nat → Nat → Nat → Bool
  | 0, _, _, _, _, _ => false
  | fuel + 1, m, x, y, w, h =>
    if w ≤ 1 || h ≤ 1 then allEmpty m x y w h
    else if w ≥ h then
      -- `split_horizontally`: a vertical wall at an odd column offset `dx`
      (List.range w).any fun dx =>
        dx % 2 == 1 && oneEvenGap h (fun dy => wall m (x + dx) (y + dy)) &&
        valid fuel m x y dx h && valid fuel m (x + dx + 1) y (w - dx - 1) h
    else
      -- `split_vertically`: a horizontal wall at an odd row offset `dy`
      (List.range h).any fun dy =>
        dy % 2 == 1 && oneEvenGap w (fun dx => wall m (x + dx) (y + dy)) &&
        valid fuel m x y w dy && valid fuel m x (y + dy + 1) w (h - dy - 1)

/-- the whole `nr × nc` maze is a recursive-division maze -/
def isRecursiveDivisionMaze (m : Jx.Grid Bool) (nr nc : Nat) : Bool :=
  Jx.Grid.shaped m nr nc && valid (nr + nc + 1) m 0 0 nc nr

/-- cells with both coordinates even are empty -/
def evenCellsFree (m : Jx.Grid Bool) (nr nc : Nat) : Bool :=
  (List.range nr).all fun r => (List.range nc).all fun c => !(r % 2 == 0 && c % 2 == 0) || !wall m c r

/-! ### connectivity by flood fill -/

def vget (v : Jx.Grid Bool) (r c : Nat) : Bool := Jx.Grid.get v false r c

/-- one round: a free cell becomes visited when it or one of its 4 neighbours is visited -/
def floodStep (m : Jx.Grid Bool) (nr nc : Nat) (v : Jx.Grid Bool) : Jx.Grid Bool :=
  (List.range nr).map fun r => (List.range nc).map fun c =>
    !wall m c r &&
      (vget v r c || (decide (0 < r) && vget v (r - 1) c) || vget v (r + 1) c ||
       (decide (0 < c) && vget v r (c - 1)) || vget v r (c + 1))

def flood : Nat → Jx.Grid Bool → Nat → Nat → Jx.Grid Bool → Jx.Grid Bool
  | 0, _, _, _, v => v
  | fuel + 1, m, nr, nc, v =>
    let v' := floodStep m nr nc v
    if v' == v then v else flood fuel m nr nc v'

/-- first free cell in row-major order -/
def firstFree (m : Jx.Grid Bool) (nr nc : Nat) : Option (Nat × Nat) :=
  (Jx.Grid.coords nr nc).find? (fun p => !wall m p.2 p.1)

/-- every free cell is reachable from the first free cell through free cells -/
def connected (m : Jx.Grid Bool) (nr nc : Nat) : Bool :=
  match firstFree m nr nc with
  | none => true
  | some (r0, c0) =>
    let v0 : Jx.Grid Bool :=
      (List.range nr).map fun r => (List.range nc).map fun c => decide (r = r0 ∧ c = c0)
    let v := flood (nr * nc) m nr nc v0
    (List.range nr).all fun r => (List.range nc).all fun c => wall m c r || vget v r c

/-- number of free cells -/
def freeCount (m : Jx.Grid Bool) (nr nc : Nat) : Nat :=
  ((Jx.Grid.coords nr nc).filter (fun p => !wall m p.2 p.1)).length

end MazeGen
