/-
C10 (DESIGN Appendix A.5): the certificate `MazeGen.valid` (IsRecursiveDivisionMaze) implies that the
(even, even) cells of the chamber are free and that the free cells of the chamber are 4-connected.
-/
import JumanjiModel.Env.Maze.MazeGen
namespace MazeGen

/-- a cell `(x, y)` = (column, row) -/
abbrev Cell := Nat × Nat

/-- 4-neighbourhood -/
def Adj (p q : Cell) : Prop :=
  (p.1 = q.1 ∧ (p.2 + 1 = q.2 ∨ q.2 + 1 = p.2)) ∨ (p.2 = q.2 ∧ (p.1 + 1 = q.1 ∨ q.1 + 1 = p.1))

/-- `p` lies in the chamber with corner `(x, y)`, width `w`, height `h` -/
def InCh (x y w h : Nat) (p : Cell) : Prop := x ≤ p.1 ∧ p.1 < x + w ∧ y ≤ p.2 ∧ p.2 < y + h

/-- `p` is a free cell of the chamber -/
def Ok (m : Jx.Grid Bool) (x y w h : Nat) (p : Cell) : Prop := InCh x y w h p ∧ wall m p.1 p.2 = false

/-- `q` can be reached from `p` by 4-neighbour steps through cells satisfying `ok` -/
inductive Reach (ok : Cell → Prop) : Cell → Cell → Prop
  | refl (p : Cell) : Reach ok p p
  | tail {p q r : Cell} : Reach ok p q → Adj q r → ok r → Reach ok p r

/-- all free cells of the chamber are mutually reachable inside the chamber -/
def Conn (m : Jx.Grid Bool) (x y w h : Nat) : Prop :=
  ∀ p q, Ok m x y w h p → Ok m x y w h q → Reach (Ok m x y w h) p q

theorem Adj.symm {p q : Cell} (h : Adj p q) : Adj q p := by
  unfold Adj at *; omega

theorem Reach.trans {ok : Cell → Prop} {p q r : Cell} (h1 : Reach ok p q) (h2 : Reach ok q r) : Reach ok p r := by
  induction h2 with
  | refl => exact h1
  | tail _ ha ho ih => exact Reach.tail ih ha ho

theorem Reach.mono {ok ok' : Cell → Prop} (hm : ∀ p, ok p → ok' p) {p q : Cell} (h : Reach ok p q) :
    Reach ok' p q := by
  induction h with
  | refl => exact Reach.refl _
  | tail _ ha ho ih => exact Reach.tail ih ha (hm _ ho)

theorem Reach.head {ok : Cell → Prop} {p q r : Cell} (ha : Adj p q) (hq : ok q) (h : Reach ok q r) :
    Reach ok p r := Reach.trans (Reach.tail (Reach.refl p) ha hq) h

theorem Reach.ok_end {ok : Cell → Prop} {p q : Cell} (hp : ok p) (h : Reach ok p q) : ok q := by
  cases h with
  | refl => exact hp
  | tail _ _ ho => exact ho

theorem Reach.symm {ok : Cell → Prop} {p q : Cell} (hp : ok p) (h : Reach ok p q) : Reach ok q p := by
  induction h with
  | refl => exact Reach.refl _
  | tail h1 ha _ ih => exact Reach.head ha.symm (Reach.ok_end hp h1) ih

/-- walking along a row -/
theorem reach_right (ok : Cell → Prop) (a b : Nat) : ∀ n, (∀ i, i ≤ n → ok (a + i, b)) → Reach ok (a, b) (a + n, b)
  | 0, _ => Reach.refl _
  | n + 1, h => by
    have ih := reach_right ok a b n (fun i hi => h i (by omega))
    refine Reach.tail ih ?_ (h (n + 1) (by omega))
    exact Or.inr ⟨rfl, Or.inl (by simp only []; omega)⟩

/-- walking along a column -/
theorem reach_down (ok : Cell → Prop) (a b : Nat) : ∀ n, (∀ i, i ≤ n → ok (a, b + i)) → Reach ok (a, b) (a, b + n)
  | 0, _ => Reach.refl _
  | n + 1, h => by
    have ih := reach_down ok a b n (fun i hi => h i (by omega))
    refine Reach.tail ih ?_ (h (n + 1) (by omega))
    exact Or.inl ⟨rfl, Or.inl (by simp only []; omega)⟩

theorem reach_hline (ok : Cell → Prop) (a a' b : Nat) (h : ∀ i, (a ≤ i ∧ i ≤ a') ∨ (a' ≤ i ∧ i ≤ a) → ok (i, b)) :
    Reach ok (a, b) (a', b) := by
  by_cases hle : a ≤ a'
  · have := reach_right ok a b (a' - a) (fun i hi => h (a + i) (by omega))
    have e : a + (a' - a) = a' := by omega
    rw [e] at this; exact this
  · have := reach_right ok a' b (a - a') (fun i hi => h (a' + i) (by omega))
    have e : a' + (a - a') = a := by omega
    rw [e] at this
    exact Reach.symm (h a' (by omega)) this

theorem reach_vline (ok : Cell → Prop) (a b b' : Nat) (h : ∀ i, (b ≤ i ∧ i ≤ b') ∨ (b' ≤ i ∧ i ≤ b) → ok (a, i)) :
    Reach ok (a, b) (a, b') := by
  by_cases hle : b ≤ b'
  · have := reach_down ok a b (b' - b) (fun i hi => h (b + i) (by omega))
    have e : b + (b' - b) = b' := by omega
    rw [e] at this; exact this
  · have := reach_down ok a b' (b - b') (fun i hi => h (b' + i) (by omega))
    have e : b' + (b - b') = b := by omega
    rw [e] at this
    exact Reach.symm (h b' (by omega)) this

/-- an empty rectangle is connected -/
theorem conn_of_empty (m : Jx.Grid Bool) (x y w h : Nat)
    (he : ∀ p, InCh x y w h p → wall m p.1 p.2 = false) : Conn m x y w h := by
  intro p q hp hq
  obtain ⟨px, py⟩ := p
  obtain ⟨qx, qy⟩ := q
  have hp' := hp.1; have hq' := hq.1
  unfold InCh at hp' hq'; simp only [] at hp' hq'
  have h1 : Reach (Ok m x y w h) (px, py) (qx, py) :=
    reach_hline _ px qx py (fun i hi => by
      have hin : InCh x y w h (i, py) := by unfold InCh; simp only []; omega
      exact ⟨hin, he _ hin⟩)
  have h2 : Reach (Ok m x y w h) (qx, py) (qx, qy) :=
    reach_vline _ qx py qy (fun i hi => by
      have hin : InCh x y w h (qx, i) := by unfold InCh; simp only []; omega
      exact ⟨hin, he _ hin⟩)
  exact Reach.trans h1 h2


theorem allEmpty_spec {m : Jx.Grid Bool} {x y w h : Nat} (he : allEmpty m x y w h = true) (p : Cell)
    (hin : InCh x y w h p) : wall m p.1 p.2 = false := by
  unfold allEmpty at he
  simp only [List.all_eq_true, List.mem_range, Bool.not_eq_true'] at he
  unfold InCh at hin
  have := he (p.2 - y) (by omega) (p.1 - x) (by omega)
  have e1 : x + (p.1 - x) = p.1 := by omega
  have e2 : y + (p.2 - y) = p.2 := by omega
  rw [e1, e2] at this; exact this

theorem oneEvenGap_spec {n : Nat} {f : Nat → Bool} (h : oneEvenGap n f = true) :
    ∃ g, g < n ∧ g % 2 = 0 ∧ f g = false ∧ ∀ d, d < n → f d = false → d = g := by
  unfold oneEvenGap at h
  split at h
  · rename_i g heq
    have hmem : ∀ d, d ∈ gaps n f ↔ (d < n ∧ f d = false) := by
      intro d; unfold gaps; simp [List.mem_filter]
    have hg : g ∈ gaps n f := by rw [heq]; simp
    have hg' := (hmem g).1 hg
    refine ⟨g, hg'.1, by simpa using h, hg'.2, ?_⟩
    intro d hd hf
    have : d ∈ gaps n f := (hmem d).2 ⟨hd, hf⟩
    rw [heq] at this; simpa using this
  · exact absurd h (by simp)

/-- a chamber split by a vertical wall with one gap is connected if both sides are -/
theorem conn_vsplit (m : Jx.Grid Bool) (x y w h dx g : Nat) (hx : x % 2 = 0) (hy : y % 2 = 0)
    (hdx : dx < w) (hodd : dx % 2 = 1) (hg : g < h) (hge : g % 2 = 0)
    (hgap : wall m (x + dx) (y + g) = false)
    (hwall : ∀ d, d < h → wall m (x + dx) (y + d) = false → d = g)
    (cL : Conn m x y dx h) (cR : Conn m (x + dx + 1) y (w - dx - 1) h)
    (eL : ∀ p, InCh x y dx h p → p.1 % 2 = 0 → p.2 % 2 = 0 → wall m p.1 p.2 = false)
    (eR : ∀ p, InCh (x + dx + 1) y (w - dx - 1) h p → p.1 % 2 = 0 → p.2 % 2 = 0 → wall m p.1 p.2 = false) :
    Conn m x y w h := by
  have hG : Ok m x y w h (x + dx, y + g) := ⟨by unfold InCh; simp only []; omega, hgap⟩
  have hub : ∀ p, Ok m x y w h p → Reach (Ok m x y w h) p (x + dx, y + g) := by
    intro p hp
    obtain ⟨px, py⟩ := p
    have hin := hp.1; unfold InCh at hin; simp only [] at hin
    have hfree : wall m px py = false := hp.2
    by_cases h1 : px = x + dx
    · subst h1
      have e : y + (py - y) = py := by omega
      have := hwall (py - y) (by omega) (by rw [e]; exact hfree)
      have e2 : py = y + g := by omega
      subst e2; exact Reach.refl _
    · by_cases h2 : px < x + dx
      · have hL : InCh x y dx h (x + dx - 1, y + g) := by unfold InCh; simp only []; omega
        have okL : Ok m x y dx h (x + dx - 1, y + g) :=
          ⟨hL, eL _ hL (by simp only []; omega) (by simp only []; omega)⟩
        have okp : Ok m x y dx h (px, py) := ⟨by unfold InCh; simp only []; omega, hfree⟩
        have r := (cL _ _ okp okL).mono (ok' := Ok m x y w h)
          (fun q hq => ⟨by have := hq.1; unfold InCh at this ⊢; omega, hq.2⟩)
        refine Reach.tail r ?_ hG
        exact Or.inr ⟨rfl, Or.inl (by simp only []; omega)⟩
      · have hR : InCh (x + dx + 1) y (w - dx - 1) h (x + dx + 1, y + g) := by
          unfold InCh; simp only []; omega
        have okR : Ok m (x + dx + 1) y (w - dx - 1) h (x + dx + 1, y + g) :=
          ⟨hR, eR _ hR (by simp only []; omega) (by simp only []; omega)⟩
        have okp : Ok m (x + dx + 1) y (w - dx - 1) h (px, py) :=
          ⟨by unfold InCh; simp only []; omega, hfree⟩
        have r := (cR _ _ okp okR).mono (ok' := Ok m x y w h)
          (fun q hq => ⟨by have := hq.1; unfold InCh at this ⊢; omega, hq.2⟩)
        refine Reach.tail r ?_ hG
        exact Or.inr ⟨rfl, Or.inr (by simp only [])⟩
  intro p q hp hq
  exact Reach.trans (hub p hp) (Reach.symm hq (hub q hq))

/-- a chamber split by a horizontal wall with one gap is connected if both sides are -/
theorem conn_hsplit (m : Jx.Grid Bool) (x y w h dy g : Nat) (hx : x % 2 = 0) (hy : y % 2 = 0)
    (hdy : dy < h) (hodd : dy % 2 = 1) (hg : g < w) (hge : g % 2 = 0)
    (hgap : wall m (x + g) (y + dy) = false)
    (hwall : ∀ d, d < w → wall m (x + d) (y + dy) = false → d = g)
    (cT : Conn m x y w dy) (cB : Conn m x (y + dy + 1) w (h - dy - 1))
    (eT : ∀ p, InCh x y w dy p → p.1 % 2 = 0 → p.2 % 2 = 0 → wall m p.1 p.2 = false)
    (eB : ∀ p, InCh x (y + dy + 1) w (h - dy - 1) p → p.1 % 2 = 0 → p.2 % 2 = 0 → wall m p.1 p.2 = false) :
    Conn m x y w h := by
  have hG : Ok m x y w h (x + g, y + dy) := ⟨by unfold InCh; simp only []; omega, hgap⟩
  have hub : ∀ p, Ok m x y w h p → Reach (Ok m x y w h) p (x + g, y + dy) := by
    intro p hp
    obtain ⟨px, py⟩ := p
    have hin := hp.1; unfold InCh at hin; simp only [] at hin
    have hfree : wall m px py = false := hp.2
    by_cases h1 : py = y + dy
    · subst h1
      have e : x + (px - x) = px := by omega
      have := hwall (px - x) (by omega) (by rw [e]; exact hfree)
      have e2 : px = x + g := by omega
      subst e2; exact Reach.refl _
    · by_cases h2 : py < y + dy
      · have hT : InCh x y w dy (x + g, y + dy - 1) := by unfold InCh; simp only []; omega
        have okT : Ok m x y w dy (x + g, y + dy - 1) :=
          ⟨hT, eT _ hT (by simp only []; omega) (by simp only []; omega)⟩
        have okp : Ok m x y w dy (px, py) := ⟨by unfold InCh; simp only []; omega, hfree⟩
        have r := (cT _ _ okp okT).mono (ok' := Ok m x y w h)
          (fun q hq => ⟨by have := hq.1; unfold InCh at this ⊢; omega, hq.2⟩)
        refine Reach.tail r ?_ hG
        exact Or.inl ⟨rfl, Or.inl (by simp only []; omega)⟩
      · have hB : InCh x (y + dy + 1) w (h - dy - 1) (x + g, y + dy + 1) := by
          unfold InCh; simp only []; omega
        have okB : Ok m x (y + dy + 1) w (h - dy - 1) (x + g, y + dy + 1) :=
          ⟨hB, eB _ hB (by simp only []; omega) (by simp only []; omega)⟩
        have okp : Ok m x (y + dy + 1) w (h - dy - 1) (px, py) :=
          ⟨by unfold InCh; simp only []; omega, hfree⟩
        have r := (cB _ _ okp okB).mono (ok' := Ok m x y w h)
          (fun q hq => ⟨by have := hq.1; unfold InCh at this ⊢; omega, hq.2⟩)
        refine Reach.tail r ?_ hG
        exact Or.inl ⟨rfl, Or.inr (by simp only [])⟩
  intro p q hp hq
  exact Reach.trans (hub p hp) (Reach.symm hq (hub q hq))


/-- the three shapes a valid chamber can have -/
theorem valid_cases {fuel : Nat} {m : Jx.Grid Bool} {x y w h : Nat} (hv : valid (fuel + 1) m x y w h = true) :
    ((w ≤ 1 ∨ h ≤ 1) ∧ allEmpty m x y w h = true) ∨
    (∃ dx, dx < w ∧ dx % 2 = 1 ∧ oneEvenGap h (fun dy => wall m (x + dx) (y + dy)) = true ∧
        valid fuel m x y dx h = true ∧ valid fuel m (x + dx + 1) y (w - dx - 1) h = true) ∨
    (∃ dy, dy < h ∧ dy % 2 = 1 ∧ oneEvenGap w (fun dx => wall m (x + dx) (y + dy)) = true ∧
        valid fuel m x y w dy = true ∧ valid fuel m x (y + dy + 1) w (h - dy - 1) = true) := by
  unfold valid at hv
  split at hv
  · rename_i hc
    exact Or.inl ⟨by simpa using hc, hv⟩
  · split at hv
    · simp only [List.any_eq_true, List.mem_range, Bool.and_eq_true, beq_iff_eq] at hv
      obtain ⟨dx, hdx, ⟨⟨hodd, hgap⟩, hl⟩, hr⟩ := hv
      exact Or.inr (Or.inl ⟨dx, hdx, hodd, hgap, hl, hr⟩)
    · simp only [List.any_eq_true, List.mem_range, Bool.and_eq_true, beq_iff_eq] at hv
      obtain ⟨dy, hdy, ⟨⟨hodd, hgap⟩, hl⟩, hr⟩ := hv
      exact Or.inr (Or.inr ⟨dy, hdy, hodd, hgap, hl, hr⟩)

/-- Lemma 1 of A.5: in a valid chamber with even corner every (even, even) cell is free -/
theorem even_free_of_valid : ∀ (fuel : Nat) (m : Jx.Grid Bool) (x y w h : Nat),
    valid fuel m x y w h = true → x % 2 = 0 → y % 2 = 0 →
    ∀ p, InCh x y w h p → p.1 % 2 = 0 → p.2 % 2 = 0 → wall m p.1 p.2 = false
  | 0, _, _, _, _, _, hv, _, _ => by simp [valid] at hv
  | fuel + 1, m, x, y, w, h, hv, hx, hy => by
    intro p hin h1 h2
    rcases valid_cases hv with ⟨_, he⟩ | ⟨dx, hdx, hodd, _, hl, hr⟩ | ⟨dy, hdy, hodd, _, hl, hr⟩
    · exact allEmpty_spec he p hin
    · unfold InCh at hin
      by_cases hlt : p.1 < x + dx
      · exact even_free_of_valid fuel m x y dx h hl hx hy p (by unfold InCh; omega) h1 h2
      · exact even_free_of_valid fuel m (x + dx + 1) y (w - dx - 1) h hr (by omega) hy p
          (by unfold InCh; omega) h1 h2
    · unfold InCh at hin
      by_cases hlt : p.2 < y + dy
      · exact even_free_of_valid fuel m x y w dy hl hx hy p (by unfold InCh; omega) h1 h2
      · exact even_free_of_valid fuel m x (y + dy + 1) w (h - dy - 1) hr hx (by omega) p
          (by unfold InCh; omega) h1 h2

/-- Lemma 2 of A.5: the free cells of a valid chamber with even corner are 4-connected inside it -/
theorem conn_of_valid : ∀ (fuel : Nat) (m : Jx.Grid Bool) (x y w h : Nat),
    valid fuel m x y w h = true → x % 2 = 0 → y % 2 = 0 → Conn m x y w h
  | 0, _, _, _, _, _, hv, _, _ => by simp [valid] at hv
  | fuel + 1, m, x, y, w, h, hv, hx, hy => by
    rcases valid_cases hv with ⟨_, he⟩ | ⟨dx, hdx, hodd, hgap, hl, hr⟩ | ⟨dy, hdy, hodd, hgap, hl, hr⟩
    · exact conn_of_empty m x y w h (fun p hin => allEmpty_spec he p hin)
    · obtain ⟨g, hg, hge, hfree, huniq⟩ := oneEvenGap_spec hgap
      exact conn_vsplit m x y w h dx g hx hy hdx hodd hg hge hfree huniq
        (conn_of_valid fuel m x y dx h hl hx hy)
        (conn_of_valid fuel m (x + dx + 1) y (w - dx - 1) h hr (by omega) hy)
        (even_free_of_valid fuel m x y dx h hl hx hy)
        (even_free_of_valid fuel m (x + dx + 1) y (w - dx - 1) h hr (by omega) hy)
    · obtain ⟨g, hg, hge, hfree, huniq⟩ := oneEvenGap_spec hgap
      exact conn_hsplit m x y w h dy g hx hy hdy hodd hg hge hfree huniq
        (conn_of_valid fuel m x y w dy hl hx hy)
        (conn_of_valid fuel m x (y + dy + 1) w (h - dy - 1) hr hx (by omega))
        (even_free_of_valid fuel m x y w dy hl hx hy)
        (even_free_of_valid fuel m x (y + dy + 1) w (h - dy - 1) hr hx (by omega))

/-- C10: a maze that passes the recursive-division certificate has all its free cells 4-connected and
all its (even, even) cells — in particular the origin — free -/
theorem connected_of_cert (m : Jx.Grid Bool) (nr nc : Nat) (hc : isRecursiveDivisionMaze m nr nc = true) :
    Conn m 0 0 nc nr ∧
    (∀ x y, x < nc → y < nr → x % 2 = 0 → y % 2 = 0 → wall m x y = false) := by
  unfold isRecursiveDivisionMaze at hc
  simp only [Bool.and_eq_true] at hc
  refine ⟨conn_of_valid _ m 0 0 nc nr hc.2 rfl rfl, ?_⟩
  intro x y hx hy h1 h2
  exact even_free_of_valid _ m 0 0 nc nr hc.2 rfl rfl (x, y) (by unfold InCh; simp only []; omega) h1 h2

end MazeGen
