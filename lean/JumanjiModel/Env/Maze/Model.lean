/-
Maze (jumanji/environments/routing/maze/{env,types,constants}.py).  Import-free.

L1 = transliteration of `step`, `_compute_action_mask`, `_observation_from_state`:
  * the validity test of `step` reads the CACHED `state.action_mask[action]` (traced gather: wrap, clamp);
  * `jax.lax.switch` clamps its index into `[0, 4]`;
  * `walls[row, col]` is a traced gather (wrap + clamp) evaluated even when the bounds test fails.
L2 = the rules as documented (docs/environments/maze.md and the class docstring): the agent moves one cell
up/right/down/left; a move that leaves the grid or enters a wall is a no-op; reward 1 exactly when the target
is reached; the episode ends at the target or at the time limit (the code additionally ends it when no move
is possible at all, which L2 records as `stuck`).
-/
import JumanjiModel.Prim.Idx
import JumanjiModel.Prim.Grid
import JumanjiModel.Core.TimeStep
namespace Maze
open Jm

structure Cfg where
  numRows : Nat
  numCols : Nat
  timeLimit : Int
  deriving Repr, DecidableEq

/-- `Position(row, col)` -/
abbrev Pos := Int × Int

structure State where
  agent : Pos
  target : Pos
  walls : Jx.Grid Bool
  actionMask : List Bool
  stepCount : Int
  deriving Repr, DecidableEq

structure Obs where
  agent : Pos
  target : Pos
  walls : Jx.Grid Bool
  actionMask : List Bool
  stepCount : Int
  deriving Repr, DecidableEq

/-! ### L1 -/

/-- `constants.MOVES`: Up, Right, Down, Left -/
def moves : List Pos := [(-1, 0), (0, 1), (1, 0), (0, -1)]

/-- `is_move_valid` inside `_compute_action_mask` -/
def isMoveValid (cfg : Cfg) (walls : Jx.Grid Bool) (p : Pos) (mv : Pos) : Bool :=
  let row := p.1 + mv.1
  let col := p.2 + mv.2
  decide (row ≥ 0) && decide (row < (cfg.numRows : Int)) && decide (col ≥ 0) &&
    decide (col < (cfg.numCols : Int)) && !(Jx.Grid.getWC walls false row col)

/-- `_compute_action_mask` (vmap over `MOVES`) -/
def computeMask (cfg : Cfg) (walls : Jx.Grid Bool) (p : Pos) : List Bool :=
  moves.map (isMoveValid cfg walls p)

/-- the five branches of `jax.lax.switch(action, [...], position)`; the index is clamped to `[0, 4]` -/
def switchMove (a : Int) (p : Pos) : Pos :=
  if a ≤ 0 then (p.1 - 1, p.2)
  else if a = 1 then (p.1, p.2 + 1)
  else if a = 2 then (p.1 + 1, p.2)
  else if a = 3 then (p.1, p.2 - 1)
  else p

/-- `_observation_from_state`: copies the state fields (including the cached mask) -/
def obsOf (s : State) : Obs :=
  { agent := s.agent, target := s.target, walls := s.walls, actionMask := s.actionMask,
    stepCount := s.stepCount }

def step (cfg : Cfg) (s : State) (a : Int) : State × TimeStep Obs :=
  -- action = select(state.action_mask[action], action, 4)
  let a' : Int := if Jx.getWC s.actionMask false a then a else 4
  let p := switchMove a' s.agent
  let mask := computeMask cfg s.walls p
  let s' : State := { agent := p, target := s.target, walls := s.walls, actionMask := mask,
                      stepCount := s.stepCount + 1 }
  let o := obsOf s'
  let noActions := !(mask.any id)
  let reached := decide (s'.agent = s'.target)
  let timeUp := decide (s'.stepCount ≥ cfg.timeLimit)
  let done := noActions || reached || timeUp
  let r : Rat := if reached then 1 else 0
  (s', condLast done [r] o)

/-! ### L2: the rules -/

/-- direction of action `a`: 0 up, 1 right, 2 down, 3 left (row grows downwards) -/
def dir : Nat → Pos
  | 0 => (-1, 0)
  | 1 => (0, 1)
  | 2 => (1, 0)
  | 3 => (0, -1)
  | _ => (0, 0)

/-- the cell reached from `p` by action `a` -/
def dest (p : Pos) (a : Nat) : Pos := (p.1 + (dir a).1, p.2 + (dir a).2)

/-- `p` is a cell of the `numRows × numCols` grid -/
def inGrid (cfg : Cfg) (p : Pos) : Prop :=
  0 ≤ p.1 ∧ p.1 < (cfg.numRows : Int) ∧ 0 ≤ p.2 ∧ p.2 < (cfg.numCols : Int)

instance (cfg : Cfg) (p : Pos) : Decidable (inGrid cfg p) := by unfold inGrid; infer_instance

/-- plain lookup (no wrapping); cells that do not exist count as walls -/
def isWall (walls : Jx.Grid Bool) (p : Pos) : Bool := Jx.Grid.get walls true p.1.toNat p.2.toNat

/-- `p` is a cell of the grid that is not a wall -/
def free (cfg : Cfg) (walls : Jx.Grid Bool) (p : Pos) : Prop := inGrid cfg p ∧ isWall walls p = false

instance (cfg : Cfg) (w : Jx.Grid Bool) (p : Pos) : Decidable (free cfg w p) := by
  unfold free; infer_instance

/-- a move is legal iff it is one of the four directions and leads to a free cell of the grid -/
def legal (cfg : Cfg) (s : State) (a : Nat) : Prop := a < 4 ∧ free cfg s.walls (dest s.agent a)

instance (cfg : Cfg) (s : State) (a : Nat) : Decidable (legal cfg s a) := by unfold legal; infer_instance

/-- the mask the rules prescribe for a state -/
def legalMask (cfg : Cfg) (s : State) : List Bool := (List.range 4).map (fun a => decide (legal cfg s a))

/-- documented observation: positions, walls, step count, and the mask of the moves that are possible NOW -/
def observe (cfg : Cfg) (s : State) : Obs :=
  { agent := s.agent, target := s.target, walls := s.walls, actionMask := legalMask cfg s,
    stepCount := s.stepCount }

def atTarget (s : State) : Prop := s.agent = s.target
instance (s : State) : Decidable (atTarget s) := by unfold atTarget; infer_instance

/-- no move is possible (cannot happen in a connected maze with two free cells) -/
def stuck (cfg : Cfg) (s : State) : Prop := ∀ a, a < 4 → ¬ legal cfg s a
instance (cfg : Cfg) (s : State) : Decidable (stuck cfg s) := by unfold stuck; infer_instance

/-- the successor the rules prescribe: move if legal else stay; count the step; refresh the mask -/
def nextSpec (cfg : Cfg) (s : State) (a : Nat) : State :=
  let s1 : State := { s with agent := if legal cfg s a then dest s.agent a else s.agent,
                             stepCount := s.stepCount + 1 }
  { s1 with actionMask := legalMask cfg s1 }

/-- why an episode ends -/
def endsSpec (cfg : Cfg) (s' : State) : Prop := atTarget s' ∨ s'.stepCount ≥ cfg.timeLimit ∨ stuck cfg s'
instance (cfg : Cfg) (s : State) : Decidable (endsSpec cfg s) := by unfold endsSpec; infer_instance

/-- reward 1 when the target is reached, 0 otherwise -/
def rewardSpec (s' : State) : Rat := if atTarget s' then 1 else 0

def stepSpec (cfg : Cfg) (s : State) (a : Nat) : State × TimeStep Obs :=
  let s' := nextSpec cfg s a
  (s', condLast (decide (endsSpec cfg s')) [rewardSpec s'] (observe cfg s'))

/-- the return of an episode, recomputed from its final state -/
def objective (s : State) : Rat := if atTarget s then 1 else 0

/-- shape of the walls and freshness of the cached mask -/
def Inv (cfg : Cfg) (s : State) : Prop :=
  Jx.Grid.shaped s.walls cfg.numRows cfg.numCols = true ∧ s.actionMask = legalMask cfg s
instance (cfg : Cfg) (s : State) : Decidable (Inv cfg s) := by unfold Inv; infer_instance

/-- physically possible configuration: well-shaped walls, agent and target on free cells of the grid,
the stored mask agrees with the walls around the agent -/
def Consistent (cfg : Cfg) (s : State) : Prop :=
  Inv cfg s ∧ free cfg s.walls s.agent ∧ free cfg s.walls s.target
instance (cfg : Cfg) (s : State) : Decidable (Consistent cfg s) := by unfold Consistent; infer_instance

/-- C05 on a transition `(s, a, s', ts)` with `a` illegal: nothing moved, only the step counter advanced,
the mask is the one of the unchanged position, reward and end of episode have their ordinary causes -/
def illegalIgnored (cfg : Cfg) (s : State) (s' : State) (ts : TimeStep Obs) : Bool :=
  decide (s'.agent = s.agent) && decide (s'.target = s.target) && decide (s'.walls = s.walls) &&
  decide (s'.stepCount = s.stepCount + 1) && decide (s'.actionMask = legalMask cfg s') &&
  decide (ts.reward = [rewardSpec s']) && decide ((ts.stepType = .last) ↔ endsSpec cfg s') &&
  (ts.stepType != .first)

/-- C07: what a step never changes -/
def conserved (s s' : State) : Bool := decide (s'.walls = s.walls) && decide (s'.target = s.target)

end Maze
