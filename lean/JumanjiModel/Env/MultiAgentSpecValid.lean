/-
C01 (spec membership, wave 4) — vocabulary shared by the multi-agent environments Connector, LevelBasedForaging and
RobotWarehouse on top of Env/PackSpecValid.lean:

* `rewardSpecN k` / `discountSpecN k`: `Array((k,), float)` / `BoundedArray((k,), float, 0, 1)` and membership of the reward /
  discount of every protocol-conform timestep of shape `(k,)` (`vecArr`: the shape is READ OFF the value);
* `actionSpecN k m`: `MultiDiscreteArray([m] * k, int32)`: well-formed, `generate_value()` = the all-zero joint action,
  membership ⇔ `k` entries each in `0 … m − 1`;
* the scalar `step_count` leaf `BoundedArray((), int32, 0, T)` for an integer `T`, rectangular Boolean masks.
-/
import JumanjiModel.Env.PackSpecValid
namespace MaS
open Sp PzS PkS Jm

/-! ### reward / discount of shape `(k,)` -/

def rewardSpecN (k : Nat) : Leaf := .array [k] .float32 "reward"
def discountSpecN (k : Nat) : Leaf := .bounded [k] .float32 "discount" [] [0] [] [1]
/-- a per-agent reward / discount of the model as an array value; the shape is read off the value -/
def vecArr (r : List Rat) : Arr := ⟨[r.length], .float32, r⟩

theorem reward_valid_iff (k : Nat) (r : List Rat) : (rewardSpecN k).valid (vecArr r) = true ↔ r.length = k := by
  rw [Leaf.valid_iff]
  simp only [rewardSpecN, vecArr, Leaf.shape, Leaf.dtype, Leaf.lower, Leaf.upper, prod_one]
  constructor
  · rintro ⟨h, _⟩; simpa using h
  · intro h; exact ⟨by rw [h], trivial, h, by simp⟩

theorem discount_valid_iff (k : Nat) (d : List Rat) :
    (discountSpecN k).valid (vecArr d) = true ↔ d.length = k ∧ ∀ x ∈ d, 0 ≤ x ∧ x ≤ 1 := by
  unfold discountSpecN
  rw [valid_scalar_bounded_iff]
  simp only [vecArr, prod_one]
  constructor
  · rintro ⟨h, _, _, h4⟩; exact ⟨by simpa using h, h4⟩
  · rintro ⟨h, h4⟩; exact ⟨by rw [h], trivial, h, h4⟩

/-- a protocol-conform timestep of shape `(k,)` has a reward accepted by `reward_spec` and a discount accepted by
`discount_spec` -/
theorem stepOK_reward_discount_valid {O : Type} (k : Nat) (truncOK : Bool) (ts : TimeStep O)
    (h : StepOK (some k) truncOK ts = true) :
    (rewardSpecN k).valid (vecArr ts.reward) = true ∧ (discountSpecN k).valid (vecArr ts.discount) = true := by
  simp only [StepOK, Bool.and_eq_true, beq_iff_eq, RShape.size] at h
  obtain ⟨⟨⟨⟨⟨_, hr⟩, hd⟩, h01⟩, _⟩, _⟩ := h
  refine ⟨(reward_valid_iff k _).2 hr, (discount_valid_iff k _).2 ⟨hd, ?_⟩⟩
  intro x hx
  simp only [allIn01, List.all_eq_true, Bool.and_eq_true, decide_eq_true_eq] at h01
  exact h01 x hx

theorem restart_reward_discount_valid {O : Type} (k : Nat) (o : O) :
    (rewardSpecN k).valid (vecArr (restart o (some k)).reward) = true ∧
    (discountSpecN k).valid (vecArr (restart o (some k)).discount) = true := by
  refine ⟨(reward_valid_iff k _).2 (by simp [restart, zerosR, RShape.size]),
    (discount_valid_iff k _).2 ⟨by simp [restart, onesR, RShape.size], ?_⟩⟩
  intro x hx
  simp only [restart, onesR, List.mem_replicate] at hx
  rw [hx.2]; exact ⟨by decide, by decide⟩

/-! ### the joint action spec `MultiDiscreteArray([m] * k, int32)` -/

def actionSpecN (k m : Nat) : Leaf := .multiDiscrete [k] (List.replicate k m) .int32 "action"
/-- a joint action as the array handed to `step`; the shape is read off the value -/
def actionArr (as : List Int) : Arr := ⟨[as.length], .int32, ofInts as⟩

theorem actionSpecN_generate (k m : Nat) : (actionSpecN k m).generate = actionArr (List.replicate k 0) := by
  simp [actionSpecN, Leaf.generate, Leaf.lower, Leaf.shape, Leaf.dtype, actionArr, ofInts]

theorem actionSpecN_WF (k m : Nat) (hm : 0 < m) (hbig : m ≤ 2147483648) : (actionSpecN k m).WF = true := by
  have fitsI : ∀ z : Int, -2147483648 ≤ z → z ≤ 2147483647 → DType.int32.fits ((z : Int) : Rat) = true := by
    intro z h1 h2; simp [DType.fits, DType.intRange, Rat.den_intCast, Rat.num_intCast, h1, h2]
  have hf : DType.int32.fits (((((m : Nat) : Int) - 1 : Int)) : Rat) = true := fitsI _ (by omega) (by omega)
  simp only [actionSpecN, Leaf.WF, Leaf.WF0, Leaf.fitsDType, Bool.and_eq_true, List.all_eq_true, List.mem_replicate]
  refine ⟨⟨⟨by simp [prod], ?_⟩, by decide⟩, ?_⟩
  · intro x hx; rw [hx.2]; simpa using hm
  · intro x hx; rw [hx.2]; exact hf

/-- membership in the joint action spec: `k` entries, each one of the `m` action numbers -/
theorem actionSpecN_valid_iff (k m : Nat) (as : List Int) :
    (actionSpecN k m).valid (actionArr as) = true ↔ as.length = k ∧ ∀ a ∈ as, 0 ≤ a ∧ a < (m : Int) := by
  rw [Leaf.valid_iff]
  simp only [actionSpecN, Leaf.shape, Leaf.dtype, Leaf.lower, Leaf.upper, actionArr, prod_one, reduceCtorEq, false_and,
    false_or, Option.some.injEq, List.cons.injEq, and_true, true_and]
  constructor
  · rintro ⟨h1, _, lo, hi, rfl, rfl, hall⟩
    refine ⟨h1, ?_⟩
    intro a ha
    obtain ⟨j, hj, rfl⟩ := List.getElem_of_mem ha
    have := hall j (by simp [ofInts]; exact hj) (by simp; omega)
    simp only [ofInts, List.getElem_map, List.getElem_zip, List.getElem_replicate] at this
    have a0 := Rat.intCast_le_intCast.mp (by simpa using this.1 : ((0 : Int) : Rat) ≤ ((as[j] : Int) : Rat))
    have a1 := Rat.intCast_le_intCast.mp this.2
    omega
  · rintro ⟨h1, h2⟩
    refine ⟨h1, by simp [ofInts, h1], _, _, rfl, rfl, ?_⟩
    intro j hj1 hj2
    have hj : j < as.length := by simpa [ofInts] using hj1
    have := h2 as[j] (List.getElem_mem hj)
    simp only [ofInts, List.getElem_map, List.getElem_zip, List.getElem_replicate]
    exact ⟨by simpa using (Rat.intCast_le_intCast (a := 0) (b := as[j])).mpr this.1,
      Rat.intCast_le_intCast.mpr (by omega)⟩

theorem actionSpecN_accepts_generate (k m : Nat) (hm : 0 < m) (hbig : m ≤ 2147483648) :
    (actionSpecN k m).WF = true ∧ (actionSpecN k m).valid (actionSpecN k m).generate = true ∧
    (actionSpecN k m).generate = actionArr (List.replicate k 0) :=
  ⟨actionSpecN_WF k m hm hbig, Leaf.generate_valid _ (actionSpecN_WF k m hm hbig), actionSpecN_generate k m⟩

/-! ### the scalar counter `BoundedArray((), int32, 0, T)` -/

theorem valid_counter (nm : String) (T v : Int) (h0 : 0 ≤ v) (h1 : v ≤ T) :
    (Leaf.bounded [] .int32 nm [] [0] [] [(T : Rat)]).valid ⟨[], .int32, [(v : Rat)]⟩ = true := by
  refine valid_scalar_bounded _ _ _ _ _ _ (by simp [prod]) ?_
  intro x hx
  simp only [List.mem_cons, List.not_mem_nil, or_false] at hx
  subst hx
  exact ⟨by simpa using (Rat.intCast_le_intCast (a := 0) (b := v)).mpr h0, Rat.intCast_le_intCast.mpr h1⟩

theorem valid_counter_only (nm : String) (T v : Int)
    (h : (Leaf.bounded [] .int32 nm [] [0] [] [(T : Rat)]).valid ⟨[], .int32, [(v : Rat)]⟩ = true) : 0 ≤ v ∧ v ≤ T := by
  rw [valid_scalar_bounded_iff] at h
  have := h.2.2.2 (v : Rat) (by simp)
  exact ⟨(Rat.intCast_le_intCast (a := 0)).mp (by simpa using this.1), Rat.intCast_le_intCast.mp this.2⟩

/-! ### rectangular Boolean masks -/

theorem valid_mask (a b : Nat) (nm : String) (m : List (List Bool)) (h : Rect2 m a b) (ha : 0 < a) :
    (Leaf.bounded [a, b] .bool nm [] [0] [] [1]).valid ⟨shape2 m, .bool, ofBools m.flatten⟩ = true :=
  valid_bounded2 a b .bool nm 0 1 m ofBools ofBools_length h ha (ofBools_bounds _)

theorem valid_mask_only (a b : Nat) (nm : String) (m : List (List Bool))
    (h : (Leaf.bounded [a, b] .bool nm [] [0] [] [1]).valid ⟨shape2 m, .bool, ofBools m.flatten⟩ = true) :
    shape2 m = [a, b] ∧ m.flatten.length = a * b := by
  rw [valid_scalar_bounded_iff] at h
  exact ⟨h.1, by simpa [ofBools_length, prod_two] using h.2.2.1⟩

theorem mem_flatten_of {α : Type} {P : α → Prop} {g : List (List α)} (h : ∀ r ∈ g, ∀ v ∈ r, P v) :
    ∀ v ∈ g.flatten, P v := by
  intro v hv
  obtain ⟨r, hr, hv'⟩ := List.mem_flatten.mp hv
  exact h r hr v hv'

end MaS
