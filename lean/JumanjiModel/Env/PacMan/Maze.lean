/-
PacMan, properties C10 / C07: the maze table (what `AsciiGenerator` derives from the ASCII diagram and what
`reset` puts into the state), the state `reset` builds from it, reachability by legal moves, the executable
checker of a table (`tableCheck`, with a distance certificate for connectivity so that the kernel only makes one
linear pass over the cells) and whole-episode runs.  Core Lean only (imports the model).
Proofs: Env/PacMan/MazeLemmas.lean; the shipped table: Gen/PacManMaze.lean (generated);
theorems: Props/Env/PacMan.lean (C10, C07).

`x` = row, `y` = column; the player is `(x, y)`, everything else a `(column, row)` pair (`CR`).
-/
import JumanjiModel.Env.PacMan.Bounds
namespace PacMan
open Jm

/-- the deterministic content of a freshly generated state: numeric maze, player start, ghost starts, pellet
list, power-up list, scatter targets -/
structure MazeTable where
  grid : IGrid
  player : Int × Int            -- (x, y) = (row, column)
  ghosts : List CR
  pellets : List CR
  powerUps : List CR
  scatter : List CR
  deriving Repr, DecidableEq

/-- `AsciiGenerator.__call__`: the state built from the table (fields the model carries) -/
def MazeTable.toState (t : MazeTable) : State :=
  { grid := t.grid, pellets := t.pellets.length, frightened := 0, pelletLocs := t.pellets,
    powerUps := t.powerUps, player := t.player, ghosts := t.ghosts, initGhosts := t.ghosts,
    oldGhosts := t.ghosts, ghostInitSteps := [0, 0, 0, 0], ghostActions := [1, 1, 1, 1],
    lastDirection := 0, dead := false, ghostStarts := [1, 5, 10, 15], stepCount := 0,
    ghostEaten := [true, true, true, true], score := 0 }

/-- the table read off a state (`scatter` is not part of the model state, it is passed separately) -/
def MazeTable.ofState (s : State) (scatter : List CR) : MazeTable :=
  { grid := s.grid, player := s.player, ghosts := s.ghosts, pellets := s.pelletLocs, powerUps := s.powerUps,
    scatter := scatter }

/-- the table the ASCII parser yields -/
def MazeTable.ofAscii (maze : List (List Char)) : Option MazeTable :=
  let p := parse maze
  p.player.map (fun pl =>
    { grid := p.grid, player := (pl.2, pl.1), ghosts := p.ghosts, pellets := p.cookies, powerUps := p.powerUps,
      scatter := p.scatter })

/-! ## reachability (L2) -/

/-- `q` is reached from `p` by a sequence of legal moves (each one of the four directions, with wrap-around at
the border, into a non-wall cell) -/
inductive Reach (g : IGrid) (p : Int × Int) : Int × Int → Prop
  | refl : Reach g p p
  | move {q : Int × Int} (a : Nat) : Reach g p q → a < 4 → free g (target g q a).1 (target g q a).2 →
      Reach g p (target g q a)

/-- every free cell can be reached from `p` -/
def Connected (g : IGrid) (p : Int × Int) : Prop := ∀ x y, free g x y → Reach g p (x, y)

/-- what C10 asks of a maze table -/
structure MazeTableOK (t : MazeTable) : Prop where
  shaped : Jx.Grid.shaped t.grid (xSize t.grid) (ySize t.grid) = true
  rows_pos : 0 < xSize t.grid
  cols_pos : 0 < ySize t.grid
  binary : BinaryCells t.grid
  player_free : free t.grid t.player.1 t.player.2
  four_ghosts : t.ghosts.length = 4
  ghosts_free : ∀ c ∈ t.ghosts, freeCR t.grid c
  player_not_ghost : crOfPlayer t.player ∉ t.ghosts
  pellets_free : ∀ c ∈ t.pellets, freeCR t.grid c
  pellets_nodup : t.pellets.Nodup
  powerUps_free : ∀ c ∈ t.powerUps, freeCR t.grid c
  powerUps_nodup : t.powerUps.Nodup
  four_scatter : t.scatter.length = 4
  scatter_free : ∀ c ∈ t.scatter, freeCR t.grid c
  connected : Connected t.grid t.player

/-! ## the executable checker -/

def allFree (g : IGrid) (l : List CR) : Bool := l.all (fun c => decide (freeCR g c))

def nodupB : List CR → Bool
  | [] => true
  | a :: l => l.all (fun b => !(a.1 == b.1 && a.2 == b.2)) && nodupB l

def binaryB (g : IGrid) : Bool := g.all (fun row => row.all (fun v => v == 0 || v == 1))

/-- the certificate: a grid of distances from the player start (walls: any value) -/
abbrev DistCert := List (List Nat)

def distAt (dist : DistCert) (q : Int × Int) : Nat := Jx.Grid.get dist 0 q.1.toNat q.2.toNat

/-- a free cell is the start, or one of the four moves leads from it to a free cell whose distance is one
less and from which the opposite move leads back -/
def cellOK (g : IGrid) (p : Int × Int) (dist : DistCert) (q : Int × Int) : Bool :=
  !decide (free g q.1 q.2) || decide (q = p) ||
  (List.range 4).any (fun a =>
    let q' := target g q a
    decide (free g q'.1 q'.2) && decide (distAt dist q' + 1 = distAt dist q) &&
    decide (target g q' ((a + 2) % 4) = q))

def connCheck (g : IGrid) (p : Int × Int) (dist : DistCert) : Bool :=
  (List.range (xSize g)).all (fun r => (List.range (ySize g)).all (fun c => cellOK g p dist ((r : Int), (c : Int))))

def tableCheck (t : MazeTable) (dist : DistCert) : Bool :=
  Jx.Grid.shaped t.grid (xSize t.grid) (ySize t.grid) && decide (0 < xSize t.grid) && decide (0 < ySize t.grid) &&
  binaryB t.grid && decide (free t.grid t.player.1 t.player.2) &&
  decide (t.ghosts.length = 4) && allFree t.grid t.ghosts &&
  t.ghosts.all (fun c => !(c.1 == t.player.2 && c.2 == t.player.1)) &&
  allFree t.grid t.pellets && nodupB t.pellets && allFree t.grid t.powerUps && nodupB t.powerUps &&
  decide (t.scatter.length = 4) && allFree t.grid t.scatter &&
  connCheck t.grid t.player dist

/-! ### computing a certificate (executable only; whatever it returns is validated by `tableCheck`) -/

def setDist (dist : DistCert) (q : Int × Int) (v : Nat) : DistCert :=
  Jx.Grid.set dist q.1.toNat q.2.toNat v

/-- one BFS layer: free, not yet visited cells one move away from the frontier -/
def bfsLayer (g : IGrid) (seen : List (Int × Int)) : List (Int × Int) → List (Int × Int) → List (Int × Int)
  | [], acc => acc.reverse
  | q :: rest, acc =>
    let new := ((List.range 4).map (target g q)).filter
      (fun q' => decide (free g q'.1 q'.2) && !seen.contains q' && !acc.contains q')
    bfsLayer g seen rest (new.eraseDups.reverse ++ acc)

def bfsLoop (g : IGrid) : Nat → Nat → List (Int × Int) → List (Int × Int) → DistCert → DistCert
  | 0, _, _, _, dist => dist
  | fuel + 1, d, seen, frontier, dist =>
    if frontier.isEmpty then dist else
    let next := bfsLayer g seen frontier []
    bfsLoop g fuel (d + 1) (next ++ seen) next (next.foldl (fun acc q => setDist acc q (d + 1)) dist)

/-- breadth-first distances from `p` (0 for `p`, walls and unreachable cells) -/
def bfsDist (g : IGrid) (p : Int × Int) : DistCert :=
  bfsLoop g (xSize g * ySize g + 1) 0 [p] [p] (Jx.Grid.mk (xSize g) (ySize g) 0)

/-! ## whole episodes -/

/-- the states of an episode: the start state and the successor after every (action, ghost draw) -/
def trace (tl : Int) (s : State) : List (Int × Draw) → List State
  | [] => [s]
  | (a, d) :: rest => s :: trace tl (step tl s a d).1 rest

/-- the player's cell after the actions `as` have been played: `step` moves the player by `nextPlayer` (the L1 move +
wall test), whatever the ghosts do -/
def walk (s : State) : List Int → Int × Int
  | [] => s.player
  | a :: as => walk { s with player := nextPlayer s a } as

/-- every ghost draw of the episode is admissible in the state where it is used -/
def validRun (tl : Int) (s : State) : List (Int × Draw) → Bool
  | [] => true
  | (a, d) :: rest => validGhostDraw s d && validRun tl (step tl s a d).1 rest

/-- (audit r5 #1) NO DEAD END: every free cell has at least two moves (of the four, with wrap-around) leading to a free cell.
This is the condition under which the real ghost policy (`ghost_move`, utils.py: the reverse direction and walls cost `inf`,
`random.choice` among the minimal-cost directions) always has a finite-cost direction, i.e. never walks into a wall; on a cell
whose only free neighbour is the one the ghost came from all four directions cost `inf`, all are "minimal", and a wall can be
chosen (the chosen cell is never re-checked). -/
def noDeadEndB (g : IGrid) : Bool :=
  (List.range (xSize g)).all fun r => (List.range (ySize g)).all fun c =>
    !decide (free g r c) ||
    decide (2 ≤ ((List.range 4).filter (fun a =>
      decide (free g (target g ((r : Int), (c : Int)) a).1 (target g ((r : Int), (c : Int)) a).2))).length)

end PacMan
