/-
PacMan, property C01: the interval in which every numeric leaf of the MODEL's observation provably stays
(`obsBounds`, a function of the configuration only: maze extents and time limit), the flattened leaves of an
observation (`obsLeaves`, keys = dotted paths of the leaves of the real `observation_spec`), the invariant the
bounds rest on (`BoundsInv`, preserved by every step for every admissible ghost draw) and the transliteration of
`PacMan.reset` on top of the generator's state.  Import-free.
Proofs: Env/PacMan/BoundsLemmas.lean, theorems: Props/Env/PacMan.lean (C01).

`x` = row (`x_size` rows), `y` = column (`y_size` columns); ghosts, pellets, power-ups are (column, row) pairs.
-/
import JumanjiModel.Env.PacMan.Model
namespace PacMan
open Jm

/-- what the bounds depend on: `x_size` = rows, `y_size` = columns of the maze, `time_limit` -/
structure BCfg where
  xSize : Nat
  ySize : Nat
  timeLimit : Int
  deriving Repr, DecidableEq

/-- `reset`: `state = generator(key)` (the generated state `g`), `restart(_observation_from_state(state))` -/
def reset (g : State) : State × TimeStep Obs := (g, restart (observe g))

/-- closed integer interval as a pair of optional rational ends -/
def ivInt (lo hi : Int) : Option Rat × Option Rat := (some (lo : Rat), some (hi : Rat))

def b2r (b : Bool) : Rat := if b then 1 else 0

/-- value bounds of the observation leaves, from the configuration only: maze cells 0/1; the player's row
`x < x_size` and column `y < y_size`; every coordinate of a (column, row) pair below the larger extent (eaten
pellets / power-ups are zeroed); `frightened_state_time` at most 30 and at least `−time_limit` (it is
decremented on every step, also below zero); mask 0..1; the score never negative (no upper bound proved) -/
def obsBounds (cfg : BCfg) : List (String × Option Rat × Option Rat) :=
  [("grid", ivInt 0 1),
   ("player_locations.x", ivInt 0 ((cfg.xSize : Int) - 1)),
   ("player_locations.y", ivInt 0 ((cfg.ySize : Int) - 1)),
   ("ghost_locations", ivInt 0 (max (cfg.xSize : Int) (cfg.ySize : Int) - 1)),
   ("power_up_locations", ivInt 0 (max (cfg.xSize : Int) (cfg.ySize : Int) - 1)),
   ("frightened_state_time", ivInt (-cfg.timeLimit) 30),
   ("pellet_locations", ivInt 0 (max (cfg.xSize : Int) (cfg.ySize : Int) - 1)),
   ("action_mask", ivInt 0 1),
   ("score", (some 0, none))]

/-- all values of every leaf of an observation -/
def obsLeaves (o : Obs) : List (String × List Rat) :=
  let ints (xs : List Int) : List Rat := xs.map (fun (v : Int) => (v : Rat))
  let pairs (ps : List CR) : List Rat := ints (ps.flatMap (fun p => [p.1, p.2]))
  [("grid", ints (List.flatten o.grid)),
   ("player_locations.x", [(o.player.1 : Rat)]),
   ("player_locations.y", [(o.player.2 : Rat)]),
   ("ghost_locations", pairs o.ghosts),
   ("power_up_locations", pairs o.powerUps),
   ("frightened_state_time", [(o.frightened : Rat)]),
   ("pellet_locations", pairs o.pelletLocs),
   ("action_mask", o.mask.map b2r),
   ("score", [(o.score : Rat)])]

/-- `v` lies in the interval (`none` = unbounded on that side) -/
def inIv (iv : Option Rat × Option Rat) (v : Rat) : Prop :=
  (∀ l, iv.1 = some l → l ≤ v) ∧ (∀ h, iv.2 = some h → v ≤ h)

/-- every value of every leaf listed in `obsBounds cfg` lies in its interval -/
def ObsInBounds (cfg : BCfg) (o : Obs) : Prop :=
  ∀ k iv, (k, iv) ∈ obsBounds cfg → ∀ vs, (k, vs) ∈ obsLeaves o → ∀ v ∈ vs, inIv iv v

/-- a (column, row) pair lies inside the maze -/
def inMaze (cfg : BCfg) (c : CR) : Prop :=
  0 ≤ c.1 ∧ c.1 < (cfg.ySize : Int) ∧ 0 ≤ c.2 ∧ c.2 < (cfg.xSize : Int)

/-- all entries of the maze are 0 or 1 -/
def BinaryCells (g : IGrid) : Prop := ∀ x ∈ List.flatten g, x = 0 ∨ x = 1

/-- the invariant the bounds rest on: a non-empty rectangular 0/1 maze of the configured extents, the player,
the ghosts, the ghosts' origins, the pellet and power-up entries inside it, the frightened timer between
`−step_count` and 30, score and step counter non-negative -/
def BoundsInv (cfg : BCfg) (s : State) : Prop :=
  xSize s.grid = cfg.xSize ∧ ySize s.grid = cfg.ySize ∧ 0 < cfg.xSize ∧ 0 < cfg.ySize ∧
  BinaryCells s.grid ∧
  (0 ≤ s.player.1 ∧ s.player.1 < (cfg.xSize : Int) ∧ 0 ≤ s.player.2 ∧ s.player.2 < (cfg.ySize : Int)) ∧
  (∀ c ∈ s.ghosts, inMaze cfg c) ∧ (∀ c ∈ s.initGhosts, inMaze cfg c) ∧
  (∀ c ∈ s.pelletLocs, inMaze cfg c) ∧ (∀ c ∈ s.powerUps, inMaze cfg c) ∧
  (-s.stepCount ≤ s.frightened ∧ s.frightened ≤ 30) ∧ 0 ≤ s.score ∧ 0 ≤ s.stepCount

instance (cfg : BCfg) (s : State) : Decidable (BoundsInv cfg s) := by
  unfold BoundsInv BinaryCells inMaze; infer_instance

end PacMan
