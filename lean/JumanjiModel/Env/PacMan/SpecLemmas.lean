/-
PacMan — wave 3: the declared `observation_spec` as an `Sp` value and membership of everything `reset` / `step` emit
(C01), with the invariant `SpecInv` established by `reset` for every admissible maze table and preserved by every step
for every admissible ghost draw; the reset observation (C12); the reaction of `step` (the player moves iff the action is
legal; C04); LAST iff limit, death or no pellet left, and exact episode length (C11).  Helper lemmas and proofs; the
thin statements are in Props/Env/PacMan.lean.
-/
import JumanjiModel.Env.PacMan.BoundsLemmas
import JumanjiModel.Env.PacMan.ConsistentLemmas
import JumanjiModel.Env.PacMan.MazeLemmas
import JumanjiModel.Env.PuzzleSpecValid
import JumanjiModel.Core.EpisodeLemmas
namespace PacMan
open Jm Sp PzS

/-! ### the declared spec (env.py `observation_spec`) -/

/-- `observation_spec` in the order of its children (`nPellets` = number of rows of `generator.pellet_spaces`):
`grid` BoundedArray((x_size, y_size), int32, 0, 1); `player_locations` = Position spec with `y` in [0, y_size − 1] and
`x` in [0, x_size − 1]; `ghost_locations`, `power_up_locations` Array((4, 2), int32); `frightened_state_time`
Array((), int32); `pellet_locations` Array((nPellets, 2), int32); `action_mask` BoundedArray((5,), bool, 0, 1);
`score` Array((), int32) (whose NAME is "frightened_state_time" in the source — copied line) -/
def obsSpec (cfg : BCfg) (nPellets : Nat) : Sp.Nested :=
  [("grid", .bounded [cfg.xSize, cfg.ySize] .int32 "grid" [] [0] [] [1]),
   ("player_locations.y", .bounded [] .int32 "y_coordinate" [] [0] [] [(((cfg.ySize : Int) - 1 : Int) : Rat)]),
   ("player_locations.x", .bounded [] .int32 "x_coordinate" [] [0] [] [(((cfg.xSize : Int) - 1 : Int) : Rat)]),
   ("ghost_locations", .array [4, 2] .int32 "ghost_locations"),
   ("power_up_locations", .array [4, 2] .int32 "power_up_locations"),
   ("frightened_state_time", .array [] .int32 "frightened_state_time"),
   ("pellet_locations", .array [nPellets, 2] .int32 "pellet_locations"),
   ("action_mask", .bounded [5] .bool "action_mask" [] [0] [] [1]),
   ("score", .array [] .int32 "frightened_state_time")]

/-- `action_spec`: DiscreteArray(5) (int32) -/
def actionSpec : Leaf := .discrete 5 .int32 "action"

def innerDim {α : Type} (d : Nat) : List (List α) → Nat
  | [] => d
  | r :: _ => r.length

def flatPairs (ps : List CR) : List Int := ps.flatMap (fun p => [p.1, p.2])

/-- a model observation as the arrays the implementation emits (all int32 except the boolean mask); shapes are read
off the value -/
def toNValue (cfg : BCfg) (o : Obs) : NValue :=
  [("grid", ⟨[List.length o.grid, innerDim cfg.ySize o.grid], .int32, ofInts (List.flatten o.grid)⟩),
   ("player_locations.y", ⟨[], .int32, [(o.player.2 : Rat)]⟩),
   ("player_locations.x", ⟨[], .int32, [(o.player.1 : Rat)]⟩),
   ("ghost_locations", ⟨[o.ghosts.length, 2], .int32, ofInts (flatPairs o.ghosts)⟩),
   ("power_up_locations", ⟨[o.powerUps.length, 2], .int32, ofInts (flatPairs o.powerUps)⟩),
   ("frightened_state_time", ⟨[], .int32, [(o.frightened : Rat)]⟩),
   ("pellet_locations", ⟨[o.pelletLocs.length, 2], .int32, ofInts (flatPairs o.pelletLocs)⟩),
   ("action_mask", ⟨[o.mask.length], .bool, ofBools o.mask⟩),
   ("score", ⟨[], .int32, [(o.score : Rat)]⟩)]

theorem flatPairs_length (ps : List CR) : (flatPairs ps).length = ps.length * 2 := by
  induction ps with
  | nil => rfl
  | cons p t ih =>
    simp only [flatPairs, List.flatMap_cons, List.length_append, List.length_cons, List.length_nil] at ih ⊢; omega

theorem shaped_rows {g : IGrid} {nr nc : Nat} (h : Jx.Grid.shaped g nr nc = true) :
    List.length g = nr ∧ ∀ r ∈ g, r.length = nc := by
  unfold Jx.Grid.shaped at h
  simp only [Bool.and_eq_true, beq_iff_eq, List.all_eq_true] at h
  exact h

theorem innerDim_of_rows {α : Type} (d m : Nat) (g : List (List α)) (h : ∀ r ∈ g, r.length = m) (h0 : g = [] → d = m) :
    innerDim d g = m := by
  cases g with
  | nil => exact h0 rfl
  | cons r t => exact h r (by simp)

theorem valid_scalar_int (nm : String) (hi x : Int) (h1 : 0 ≤ x) (h2 : x ≤ hi) :
    (Leaf.bounded [] .int32 nm [] [0] [] [(hi : Rat)]).valid ⟨[], .int32, [(x : Rat)]⟩ = true := by
  refine valid_scalar_bounded _ _ _ _ _ _ (by simp [prod]) ?_
  intro y hy
  simp only [List.mem_cons, List.not_mem_nil, or_false] at hy
  subst hy
  exact ⟨by simpa using Rat.intCast_le_intCast.mpr h1, Rat.intCast_le_intCast.mpr h2⟩

theorem valid_pairs_array (n : Nat) (nm : String) (ps : List CR) (h : ps.length = n) :
    (Leaf.array [n, 2] .int32 nm).valid ⟨[ps.length, 2], .int32, ofInts (flatPairs ps)⟩ = true := by
  rw [h]
  exact valid_array _ _ _ _ (by rw [ofInts, List.length_map, flatPairs_length, h, prod_two])

/-- the invariant behind membership: the state is consistent (C07) and lists no pellet twice, it satisfies the bounds
invariant for the configured extents, it carries four power-up rows and `nPellets` pellet rows -/
def SpecInv (cfg : BCfg) (nPellets : Nat) (s : State) : Prop :=
  Consistent s ∧ (nonzero s.pelletLocs).Nodup ∧ BoundsInv cfg s ∧ s.powerUps.length = 4 ∧
  s.pelletLocs.length = nPellets

instance (cfg : BCfg) (nP : Nat) (s : State) : Decidable (SpecInv cfg nP s) := by unfold SpecInv; infer_instance

/-- C01: the observation of a state satisfying the invariant is a member of `observation_spec` -/
theorem obs_valid (cfg : BCfg) (nP : Nat) (s : State) (hI : SpecInv cfg nP s) :
    (obsSpec cfg nP).valid (toNValue cfg (observe s)) = true := by
  obtain ⟨hC, _, hB, hp4, hpn⟩ := hI
  obtain ⟨hx, hy, hx0, hy0, hbin, hpl, _⟩ := hB
  have hsh : Jx.Grid.shaped s.grid cfg.xSize cfg.ySize = true := by rw [← hx, ← hy]; exact hC.1
  obtain ⟨hgl, hgr⟩ := shaped_rows hsh
  have k1 : (Leaf.bounded [cfg.xSize, cfg.ySize] .int32 "grid" [] [0] [] [1]).valid
      ⟨[List.length s.grid, innerDim cfg.ySize s.grid], .int32, ofInts (List.flatten s.grid)⟩ = true := by
    rw [hgl, innerDim_of_rows cfg.ySize cfg.ySize s.grid hgr (fun _ => rfl)]
    refine valid_scalar_bounded _ _ _ _ _ _ ?_ ?_
    · rw [ofInts, List.length_map, length_flatten_const s.grid cfg.ySize hgr, hgl, prod_two]
    · have := ofInts_bounds (List.flatten s.grid) 0 1 (cells_range hbin)
      simpa using this
  have k2 := valid_scalar_int "y_coordinate" ((cfg.ySize : Int) - 1) s.player.2 hpl.2.2.1 (by omega)
  have k3 := valid_scalar_int "x_coordinate" ((cfg.xSize : Int) - 1) s.player.1 hpl.1 (by omega)
  have k4 := valid_pairs_array 4 "ghost_locations" s.ghosts hC.2.2.2.2.1
  have k5 := valid_pairs_array 4 "power_up_locations" s.powerUps hp4
  have k6 : (Leaf.array [] .int32 "frightened_state_time").valid ⟨[], .int32, [(s.frightened : Rat)]⟩ = true :=
    valid_array _ _ _ _ (by simp [prod])
  have k7 := valid_pairs_array nP "pellet_locations" s.pelletLocs hpn
  have k8 : (Leaf.bounded [5] .bool "action_mask" [] [0] [] [1]).valid
      ⟨[(maskOf s).length], .bool, ofBools (maskOf s)⟩ = true := by
    have hl : (maskOf s).length = 5 := by simp [maskOf]
    rw [hl]
    exact valid_scalar_bounded _ _ _ _ _ _ (by rw [ofBools, List.length_map, hl, prod_one]) (ofBools_bounds _)
  have k9 : (Leaf.array [] .int32 "frightened_state_time").valid ⟨[], .int32, [(s.score : Rat)]⟩ = true :=
    valid_array _ _ _ _ (by simp [prod])
  simp only [Nested.valid, obsSpec, toNValue, observe, List.map_cons, List.map_nil, List.zipWith_cons_cons,
    List.zipWith_nil_right, List.all_cons, List.all_nil, id, Bool.and_true, Bool.and_eq_true, beq_self_eq_true, true_and]
  exact ⟨k1, k2, k3, k4, k5, k6, k7, k8, k9⟩

/-- what `validate` accepts (so membership is not hollow): the maze has `x_size` rows and `x_size · y_size` cells, all
0/1, the player's row is in [0, x_size − 1] and its column in [0, y_size − 1], there are four ghost rows, four
power-up rows and `nPellets` pellet rows -/
theorem obs_valid_only (cfg : BCfg) (nP : Nat) (o : Obs) (h : (obsSpec cfg nP).valid (toNValue cfg o) = true) :
    List.length o.grid = cfg.xSize ∧ (List.flatten o.grid).length = cfg.xSize * cfg.ySize ∧
    (∀ v ∈ List.flatten o.grid, v = 0 ∨ v = 1) ∧
    (0 ≤ o.player.1 ∧ o.player.1 ≤ (cfg.xSize : Int) - 1) ∧ (0 ≤ o.player.2 ∧ o.player.2 ≤ (cfg.ySize : Int) - 1) ∧
    o.ghosts.length = 4 ∧ o.powerUps.length = 4 ∧ o.pelletLocs.length = nP ∧ o.mask.length = 5 := by
  simp only [Nested.valid, obsSpec, toNValue, List.map_cons, List.map_nil, List.zipWith_cons_cons, List.zipWith_nil_right,
    List.all_cons, List.all_nil, id, Bool.and_true, Bool.and_eq_true, beq_self_eq_true, true_and] at h
  obtain ⟨h1, h2, h3, h4, h5, _, h7, h8, _⟩ := h
  rw [valid_scalar_bounded_iff] at h1 h2 h3 h8
  rw [Leaf.valid_iff] at h4 h5 h7
  obtain ⟨s1, _, l1, b1⟩ := h1
  simp only [List.cons.injEq, and_true] at s1
  have e4 := h4.1; have e5 := h5.1; have e7 := h7.1; have e8 := h8.1
  simp only [Leaf.shape, List.cons.injEq, and_true] at e4 e5 e7 e8
  refine ⟨s1.1, by rw [ofInts, List.length_map] at l1; simpa [prod] using l1, ?_, ?_, ?_, e4, e5, e7, e8⟩
  · intro v hv
    have := b1 (v : Rat) (by simp only [ofInts, List.mem_map]; exact ⟨v, hv, rfl⟩)
    have a1 : 0 ≤ v := by simpa using (Rat.intCast_le_intCast (a := 0) (b := v)).mp (by simpa using this.1)
    have a2 : v ≤ 1 := by simpa using (Rat.intCast_le_intCast (a := v) (b := 1)).mp (by simpa using this.2)
    omega
  · have := h3.2.2.2 (o.player.1 : Rat) (by simp)
    exact ⟨(Rat.intCast_le_intCast (a := 0)).mp (by simpa using this.1), Rat.intCast_le_intCast.mp this.2⟩
  · have := h2.2.2.2 (o.player.2 : Rat) (by simp)
    exact ⟨(Rat.intCast_le_intCast (a := 0)).mp (by simpa using this.1), Rat.intCast_le_intCast.mp this.2⟩

theorem eatAt_length (locs : List CR) (pc : CR) : (eatAt locs pc).length = locs.length := by simp [eatAt]

/-- the invariant is preserved by EVERY step: any action value, any time limit, any admissible ghost draw -/
theorem step_specInv (cfg : BCfg) (nP : Nat) (tl : Int) (s : State) (a : Int) (d : Draw) (hI : SpecInv cfg nP s)
    (hd : validGhostDraw s d = true) : SpecInv cfg nP (step tl s a d).1 := by
  obtain ⟨hC, hN, hB, hp4, hpn⟩ := hI
  obtain ⟨c1, c2⟩ := step_consistent tl s a d hC hN hd
  refine ⟨c1, c2, step_boundsInv cfg tl s a d hB hd, ?_, ?_⟩
  · show (eatAt s.powerUps _).length = 4
    rw [eatAt_length]; exact hp4
  · show (eatAt s.pelletLocs _).length = nP
    rw [eatAt_length]; exact hpn

/-- `reset` establishes the invariant for EVERY maze table satisfying the C10 specification that carries four
power-ups, with the extents of its own maze and its own number of pellets -/
theorem reset_specInv (t : MazeTable) (h : MazeTableOK t) (h4 : t.powerUps.length = 4) (tl : Int) :
    SpecInv ⟨xSize t.grid, ySize t.grid, tl⟩ t.pellets.length (reset t.toState).1 := by
  obtain ⟨c1, c2⟩ := reset_consistent t h
  refine ⟨c1, c2, ?_, h4, rfl⟩
  refine boundsInv_of_consistent _ _ c1 h.binary rfl rfl ⟨?_, ?_⟩ ?_ ?_
  · show -(0 : Int) ≤ 0
    omega
  · show (0 : Int) ≤ 30
    omega
  · show (0 : Int) ≤ 0
    omega
  · show (0 : Int) ≤ 0
    omega

theorem step_obs_valid (cfg : BCfg) (nP : Nat) (tl : Int) (s : State) (a : Int) (d : Draw) (hI : SpecInv cfg nP s)
    (hd : validGhostDraw s d = true) : (obsSpec cfg nP).valid (toNValue cfg (step tl s a d).2.obs) = true := by
  rw [obs_faithful]
  exact obs_valid cfg nP _ (step_specInv cfg nP tl s a d hI hd)

theorem reset_obs_valid (t : MazeTable) (h : MazeTableOK t) (h4 : t.powerUps.length = 4) (tl : Int) :
    (obsSpec ⟨xSize t.grid, ySize t.grid, tl⟩ t.pellets.length).valid
      (toNValue ⟨xSize t.grid, ySize t.grid, tl⟩ (reset t.toState).2.obs) = true :=
  obs_valid _ _ _ (reset_specInv t h h4 tl)

/-- whole episodes: every state of every episode with admissible ghost draws satisfies the invariant -/
theorem trace_specInv (cfg : BCfg) (nP : Nat) (tl : Int) (ads : List (Int × Draw)) (s : State)
    (hI : SpecInv cfg nP s) (hv : validRun tl s ads = true) : ∀ s' ∈ trace tl s ads, SpecInv cfg nP s' := by
  induction ads generalizing s with
  | nil => intro s' hs'; simp only [trace, List.mem_singleton] at hs'; subst hs'; exact hI
  | cons ad rest ih =>
    obtain ⟨a, d⟩ := ad
    simp only [validRun, Bool.and_eq_true] at hv
    intro s' hs'
    simp only [trace, List.mem_cons] at hs'
    rcases hs' with rfl | hs'
    · exact hI
    · exact ih _ (step_specInv cfg nP tl s a d hI hv.1) hv.2 s' hs'

/-! ### C12: reset -/

theorem reset_obs_faithful (g : State) :
    (reset g).2.obs = observe (reset g).1 ∧ (reset g).2.stepType = .first ∧ (reset g).1 = g := ⟨rfl, rfl, rfl⟩

/-! ### C04: the reaction of `step` -/

theorem step_player (tl : Int) (s : State) (a : Int) (d : Draw) : (step tl s a d).1.player = nextPlayer s a := rfl

theorem binary_of_cells {g : IGrid} (h : BinaryCells g) : Binary g := by
  intro r c
  unfold Jx.Grid.get
  simp only [List.getD_eq_getElem?_getD]
  cases h1 : g[r]? with
  | none => simp
  | some row =>
    simp only [Option.getD_some]
    cases h2 : row[c]? with
    | none => simp
    | some x =>
      simp only [Option.getD_some]
      exact h x (List.mem_flatten.mpr ⟨row, List.mem_of_getElem? h1, List.mem_of_getElem? h2⟩)

theorem inside_of_consistent {s : State} (hC : Consistent s) : Inside s := by
  obtain ⟨_, _, _, hpl, _⟩ := hC
  exact ⟨hpl.1, hpl.2.1, hpl.2.2.1, hpl.2.2.2.1⟩

/-- C04 along whole episodes: in every state of every episode (admissible ghost draws) that starts in a consistent state
on a 0/1 maze whose borders mirror each other, every mask bit is set exactly when the rules allow the action -/
theorem mask_iff_legal_along (tl : Int) (ads : List (Int × Draw)) (s : State) (hC : Consistent s)
    (hN : (nonzero s.pelletLocs).Nodup) (hbin : BinaryCells s.grid) (hb : BorderSymmetric s.grid)
    (hv : validRun tl s ads = true) :
    ∀ s' ∈ trace tl s ads, ∀ a : Nat, a ≤ 4 → ((maskOf s').getD a false = true ↔ legal s' a) := by
  intro s' hs' a ha
  obtain ⟨hC', _, hg⟩ := trace_consistent tl ads s hC hN hv s' hs'
  refine mask_iff_legal s' a ha hC'.1 (inside_of_consistent hC') ?_ ?_
  · rw [hg]; exact binary_of_cells hbin
  · rw [hg]; exact hb

/-- C12 at L2 strength: the mask shown in the observation emitted by `step` is the set of moves the rules allow in the
SUCCESSOR state (not a stale or shifted one) -/
theorem obs_mask_documented (tl : Int) (s : State) (a : Int) (d : Draw) (hC : Consistent s)
    (hN : (nonzero s.pelletLocs).Nodup) (hbin : BinaryCells s.grid) (hb : BorderSymmetric s.grid)
    (hd : validGhostDraw s d = true) (b : Nat) (hb4 : b ≤ 4) :
    ((step tl s a d).2.obs.mask.getD b false = true ↔ legal (step tl s a d).1 b) := by
  rw [obs_faithful]
  have hC' := (step_consistent tl s a d hC hN hd).1
  have hg : (step tl s a d).1.grid = s.grid := (maze_fixed tl s a d).1
  show (maskOf (step tl s a d).1).getD b false = true ↔ _
  refine mask_iff_legal _ b hb4 hC'.1 (inside_of_consistent hC') ?_ ?_
  · rw [hg]; exact binary_of_cells hbin
  · rw [hg]; exact hb

/-- C05 from the reset-established invariant: on a consistent state of a maze with at least two rows and columns an
illegal action 0..4 is ignored -/
theorem illegal_ignored_of_consistent (tl : Int) (s : State) (a : Nat) (d : Draw) (ha : a ≤ 4) (hC : Consistent s)
    (hX : 2 ≤ xSize s.grid) (hY : 2 ≤ ySize s.grid) (hill : ¬ legal s a) : IllegalIgnored s (step tl s (a : Int) d).1 :=
  illegal_ignored tl s a d ha hC.1 (inside_of_consistent hC) hX hY hill

/-! ### `action_spec.generate_value()` -/

theorem condLast_ok {O : Type} (b : Bool) (x : Rat) (o : O) : StepOK none false (condLast b [x] o) = true := by
  cases b <;> rfl

/-- `generate_value()` = 0 is a member of `DiscreteArray(5)`, and `step` answers it in EVERY state, for every time limit
and ghost draw, with a protocol-conform timestep -/
theorem accepts_generate_value (tl : Int) (s : State) (d : Draw) :
    actionSpec.WF = true ∧ actionSpec.valid actionSpec.generate = true ∧
    actionSpec.generate = ⟨[], .int32, [0]⟩ ∧ StepOK none false (step tl s 0 d).2 = true := by
  refine ⟨by decide, by decide, by decide, ?_⟩
  unfold step
  exact condLast_ok _ _ _

/-! ### C11: LAST iff limit, death or no pellet left -/

theorem condLast_stepType {O} (b : Bool) (r : List Rat) (o : O) :
    (condLast b r o).stepType = if b then StepType.last else StepType.mid := by
  cases b <;> rfl

theorem step_last_iff (tl : Int) (s : State) (a : Int) (d : Draw) :
    (step tl s a d).2.stepType = .last ↔
      (((step tl s a d).1.dead = true ∨ (step tl s a d).1.pellets = 0) ∨ tl ≤ s.stepCount + 1) := by
  have h : (step tl s a d).2.stepType =
      (if (decide ((step tl s a d).1.stepCount ≥ tl) || (step tl s a d).1.dead || decide ((step tl s a d).1.pellets = 0))
       then StepType.last else StepType.mid) := by
    unfold step; exact condLast_stepType _ _ _
  rw [h, (time_limit tl s a d).1]
  by_cases h1 : tl ≤ s.stepCount + 1 <;> cases h2 : (step tl s a d).1.dead <;>
    by_cases h3 : (step tl s a d).1.pellets = 0 <;> simp [h1, h3]

end PacMan
