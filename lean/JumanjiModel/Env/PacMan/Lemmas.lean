/- Proofs for PacMan (helper lemmas + the statements re-exported by Props/Env/PacMan.lean). -/
import JumanjiModel.Env.PacMan.Model
import JumanjiModel.Prim.Lemmas
namespace PacMan
open Jm

/-- in-range lookup: the JAX gather is the plain lookup -/
theorem gridGetWC_inrange (g : IGrid) (hs : Jx.Grid.shaped g (xSize g) (ySize g) = true)
    {x y : Int} (hx : 0 ≤ x ∧ x < (xSize g : Int)) (hy : 0 ≤ y ∧ y < (ySize g : Int)) :
    Jx.Grid.getWC g 0 x y = Jx.Grid.get g 0 x.toNat y.toNat := by
  obtain ⟨xn, rfl⟩ := Int.eq_ofNat_of_zero_le hx.1
  obtain ⟨yn, rfl⟩ := Int.eq_ofNat_of_zero_le hy.1
  have hxn : xn < g.length := by have := hx.2; simp [xSize] at this; omega
  simp only [Jx.Grid.getWC, Jx.Grid.get, Int.toNat_natCast]
  rw [Jx.getWC_nat g [] hxn]
  have hrow : (g.getD xn []).length = ySize g := by
    simp [Jx.Grid.shaped, xSize] at hs
    have := hs (g.getD xn []) (by simp [List.getD, hxn])
    simpa using this
  have hyn : yn < (g.getD xn []).length := by have := hy.2; rw [hrow]; omega
  rw [Jx.getWC_nat _ 0 hyn]

theorem pred_mod (x X : Int) (hx : 0 ≤ x ∧ x < X) : (x - 1) % X = if x = 0 then X - 1 else x - 1 := by
  split
  · next h =>
    subst h
    have : (0 - 1 : Int) % X = (0 - 1 + X * 1) % X := (Int.add_mul_emod_self_left _ _ _).symm
    have e : (0 - 1 + X * 1 : Int) = X - 1 := by omega
    rw [this, e]; exact Int.emod_eq_of_lt (by omega) (by omega)
  · exact Int.emod_eq_of_lt (by omega) (by omega)

theorem succ_mod (x X : Int) (hx : 0 ≤ x ∧ x < X) : (x + 1) % X = if x + 1 = X then 0 else x + 1 := by
  split
  · next h => rw [h]; exact Int.emod_self
  · exact Int.emod_eq_of_lt (by omega) (by omega)

theorem self_mod (x X : Int) (hx : 0 ≤ x ∧ x < X) : x % X = x := Int.emod_eq_of_lt hx.1 hx.2

/-- the player is inside the maze -/
def Inside (s : State) : Prop :=
  0 ≤ s.player.1 ∧ s.player.1 < (xSize s.grid : Int) ∧ 0 ≤ s.player.2 ∧ s.player.2 < (ySize s.grid : Int)

/-- `player_step` agrees with the wrap-around target of the rules -/
theorem playerStep_eq_target (s : State) (a : Nat) (ha : a ≤ 4) (hp : Inside s) :
    playerStep s.grid s.player (a : Int) = target s.grid s.player a := by
  obtain ⟨h1, h2, h3, h4⟩ := hp
  have hx := self_mod s.player.1 (xSize s.grid) ⟨h1, h2⟩
  have hy := self_mod s.player.2 (ySize s.grid) ⟨h3, h4⟩
  have : a = 0 ∨ a = 1 ∨ a = 2 ∨ a = 3 ∨ a = 4 := by omega
  rcases this with rfl | rfl | rfl | rfl | rfl <;> simp [playerStep, target, hx, hy]

theorem target_inside (s : State) (a : Nat) (hp : Inside s) :
    0 ≤ (target s.grid s.player a).1 ∧ (target s.grid s.player a).1 < (xSize s.grid : Int) ∧
    0 ≤ (target s.grid s.player a).2 ∧ (target s.grid s.player a).2 < (ySize s.grid : Int) := by
  obtain ⟨h1, h2, h3, h4⟩ := hp
  have hX : (0 : Int) < xSize s.grid := by omega
  have hY : (0 : Int) < ySize s.grid := by omega
  unfold target
  split <;> simp only [] <;>
    refine ⟨?_, ?_, ?_, ?_⟩ <;>
    first | assumption | exact Int.emod_nonneg _ (by omega) | exact Int.emod_lt_of_pos _ (by omega)

theorem target_ne (s : State) (a : Nat) (ha : a < 4) (hp : Inside s)
    (hX : 2 ≤ xSize s.grid) (hY : 2 ≤ ySize s.grid) : target s.grid s.player a ≠ s.player := by
  obtain ⟨h1, h2, h3, h4⟩ := hp
  have p1 := pred_mod s.player.1 (xSize s.grid) ⟨h1, h2⟩
  have p2 := pred_mod s.player.2 (ySize s.grid) ⟨h3, h4⟩
  have s1 := succ_mod s.player.1 (xSize s.grid) ⟨h1, h2⟩
  have s2 := succ_mod s.player.2 (ySize s.grid) ⟨h3, h4⟩
  have : a = 0 ∨ a = 1 ∨ a = 2 ∨ a = 3 := by omega
  intro h
  rcases this with rfl | rfl | rfl | rfl <;> simp only [target] at h
  · have := congrArg Prod.fst h; simp only [] at this; rw [p1] at this; split at this <;> omega
  · have := congrArg Prod.snd h; simp only [] at this; rw [p2] at this; split at this <;> omega
  · have := congrArg Prod.fst h; simp only [] at this; rw [s1] at this; split at this <;> omega
  · have := congrArg Prod.snd h; simp only [] at this; rw [s2] at this; split at this <;> omega

/-- C04 (reaction): an action is legal iff `step` moves the player -/
theorem legal_iff_moves (s : State) (a : Nat) (ha : a ≤ 4)
    (hs : Jx.Grid.shaped s.grid (xSize s.grid) (ySize s.grid) = true) (hp : Inside s)
    (hX : 2 ≤ xSize s.grid) (hY : 2 ≤ ySize s.grid) :
    legal s a ↔ nextPlayer s (a : Int) ≠ s.player := by
  have ht := target_inside s a hp
  unfold nextPlayer legal free
  simp only [playerStep_eq_target s a ha hp]
  rw [gridGetWC_inrange s.grid hs ⟨ht.1, ht.2.1⟩ ⟨ht.2.2.1, ht.2.2.2⟩]
  by_cases h4 : a < 4
  · have hne := target_ne s a h4 hp hX hY
    by_cases hg : Jx.Grid.get s.grid 0 (target s.grid s.player a).1.toNat (target s.grid s.player a).2.toNat = 1
    · simp [hg, hne, h4, ht]
    · simp [hg, h4]
  · have : a = 4 := by omega
    subst this
    simp [target]

/-- C05: an illegal action leaves the player in place and only what lies on its own cell is
eaten; maze untouched -/
theorem illegal_ignored (tl : Int) (s : State) (a : Nat) (d : Draw) (ha : a ≤ 4)
    (hs : Jx.Grid.shaped s.grid (xSize s.grid) (ySize s.grid) = true) (hp : Inside s)
    (hX : 2 ≤ xSize s.grid) (hY : 2 ≤ ySize s.grid) (hill : ¬ legal s a) :
    IllegalIgnored s (step tl s (a : Int) d).1 := by
  have h := (not_congr (legal_iff_moves s a ha hs hp hX hY)).mp hill
  simp only [ne_eq, Decidable.not_not] at h
  simp [IllegalIgnored, step, h]

theorem condLast_obs {O} (b : Bool) (r : List Rat) (o : O) : (condLast b r o).obs = o := by
  cases b <;> rfl

/-- C12: the observation is `observe` of the successor state -/
theorem obs_faithful (tl : Int) (s : State) (a : Int) (d : Draw) :
    (step tl s a d).2.obs = observe (step tl s a d).1 := by
  unfold step; exact condLast_obs _ _ _

/-- C11: the counter advances by one and the step is LAST once it reaches the limit -/
theorem time_limit (tl : Int) (s : State) (a : Int) (d : Draw) :
    (step tl s a d).1.stepCount = s.stepCount + 1 ∧
    (s.stepCount + 1 ≥ tl → (step tl s a d).2.stepType = .last) := by
  refine ⟨rfl, fun h => ?_⟩
  simp [step, condLast, h, termination]

/-- C07: the maze and the ghosts' origins never change -/
theorem maze_fixed (tl : Int) (s : State) (a : Int) (d : Draw) :
    (step tl s a d).1.grid = s.grid ∧ (step tl s a d).1.initGhosts = s.initGhosts := ⟨rfl, rfl⟩


theorem clampIdx_pred (n : Nat) (x : Int) (hx : 0 ≤ x ∧ x < n) :
    Jx.clampIdx n (x - 1) = if x = 0 then n - 1 else (x - 1).toNat := by
  unfold Jx.clampIdx Jx.wrapIdx; simp only []
  repeat' split
  all_goals omega

theorem clampIdx_succ (n : Nat) (x : Int) (hx : 0 ≤ x ∧ x < n) :
    Jx.clampIdx n (x + 1) = if x + 1 = n then n - 1 else (x + 1).toNat := by
  unfold Jx.clampIdx Jx.wrapIdx; simp only []
  repeat' split
  all_goals omega

theorem clampIdx_self (n : Nat) (x : Int) (hx : 0 ≤ x ∧ x < n) : Jx.clampIdx n x = x.toNat := by
  unfold Jx.clampIdx Jx.wrapIdx; simp only []
  repeat' split
  all_goals omega

/-- the JAX gather on a rectangular grid = plain lookup at the clamped indices -/
theorem gridGetWC_clamp (g : IGrid) (hs : Jx.Grid.shaped g (xSize g) (ySize g) = true)
    (hX : 0 < xSize g) (i j : Int) :
    Jx.Grid.getWC g 0 i j = Jx.Grid.get g 0 (Jx.clampIdx (xSize g) i) (Jx.clampIdx (ySize g) j) := by
  have hlt : Jx.clampIdx (xSize g) i < g.length := Jx.clampIdx_lt hX i
  have hrow : (g.getD (Jx.clampIdx (xSize g) i) []).length = ySize g := by
    simp [Jx.Grid.shaped, xSize] at hs
    have := hs (g.getD (Jx.clampIdx g.length i) []) (by simp [List.getD, xSize] at hlt ⊢; simp [hlt])
    simpa [xSize] using this
  simp only [Jx.Grid.getWC, Jx.Grid.get, Jx.getWC]
  show (g.getD (Jx.clampIdx g.length i) []).getD _ 0 = _
  simp only [xSize] at hrow ⊢
  rw [hrow]

/-- every cell of the maze is 0 (wall) or 1 (free) -/
def Binary (g : IGrid) : Prop := ∀ r c, Jx.Grid.get g 0 r c = 0 ∨ Jx.Grid.get g 0 r c = 1

/-- C04: the mask bit of `a` is set exactly when the rules allow the move, provided the player
stands on a free cell and every tunnel has two open ends -/
theorem mask_iff_legal (s : State) (a : Nat) (ha : a ≤ 4)
    (hs : Jx.Grid.shaped s.grid (xSize s.grid) (ySize s.grid) = true) (hp : Inside s)
    (hbin : Binary s.grid) (hb : BorderSymmetric s.grid) :
    (maskOf s).getD a false = true ↔ legal s a := by
  obtain ⟨h1, h2, h3, h4⟩ := hp
  have hX : 0 < xSize s.grid := by omega
  have p1 := pred_mod s.player.1 (xSize s.grid) ⟨h1, h2⟩
  have p2 := pred_mod s.player.2 (ySize s.grid) ⟨h3, h4⟩
  have s1 := succ_mod s.player.1 (xSize s.grid) ⟨h1, h2⟩
  have s2 := succ_mod s.player.2 (ySize s.grid) ⟨h3, h4⟩
  have c1 := clampIdx_pred (xSize s.grid) s.player.1 ⟨h1, h2⟩
  have c2 := clampIdx_pred (ySize s.grid) s.player.2 ⟨h3, h4⟩
  have d1 := clampIdx_succ (xSize s.grid) s.player.1 ⟨h1, h2⟩
  have d2 := clampIdx_succ (ySize s.grid) s.player.2 ⟨h3, h4⟩
  have e1 := clampIdx_self (xSize s.grid) s.player.1 ⟨h1, h2⟩
  have e2 := clampIdx_self (ySize s.grid) s.player.2 ⟨h3, h4⟩
  have bin : ∀ r c, Jx.Grid.get s.grid 0 r c ≠ 0 ↔ Jx.Grid.get s.grid 0 r c = 1 := by
    intro r c; rcases hbin r c with h | h <;> simp [h]
  obtain ⟨hb1, hb2⟩ := hb
  have : a = 0 ∨ a = 1 ∨ a = 2 ∨ a = 3 ∨ a = 4 := by omega
  rcases this with rfl | rfl | rfl | rfl | rfl
  · simp only [maskOf, legal, free, target, List.getD_cons_zero, decide_eq_true_eq,
      gridGetWC_clamp s.grid hs hX, bin, c1, e2, p1]
    split
    · next _ => simp; omega
    · simp; omega
  · simp only [maskOf, legal, free, target, List.getD_cons_succ, List.getD_cons_zero, decide_eq_true_eq,
      gridGetWC_clamp s.grid hs hX, bin, c2, e1, p2]
    split
    · next _ => simp; omega
    · simp; omega
  · simp only [maskOf, legal, free, target, List.getD_cons_succ, List.getD_cons_zero, decide_eq_true_eq,
      gridGetWC_clamp s.grid hs hX, bin, d1, e2, s1]
    split
    · next h0 =>
      have := hb2 s.player.2.toNat (by omega)
      simp [this]; omega
    · simp; omega
  · simp only [maskOf, legal, free, target, List.getD_cons_succ, List.getD_cons_zero, decide_eq_true_eq,
      gridGetWC_clamp s.grid hs hX, bin, d2, e1, s2]
    split
    · next h0 =>
      have := hb1 s.player.1.toNat (by omega)
      simp [this]; omega
    · simp; omega
  · simp [maskOf, legal]


/-- C07 (player part): whatever in-spec action is played, the player stays inside the maze on a
free cell -/
theorem player_stays_free (tl : Int) (s : State) (a : Nat) (d : Draw) (ha : a ≤ 4)
    (hs : Jx.Grid.shaped s.grid (xSize s.grid) (ySize s.grid) = true)
    (hf : free s.grid s.player.1 s.player.2) :
    free (step tl s (a : Int) d).1.grid (step tl s (a : Int) d).1.player.1 (step tl s (a : Int) d).1.player.2 := by
  have hp : Inside s := ⟨hf.1, hf.2.1, hf.2.2.1, hf.2.2.2.1⟩
  have ht := target_inside s a hp
  show free s.grid (nextPlayer s a).1 (nextPlayer s a).2
  unfold nextPlayer
  simp only [playerStep_eq_target s a ha hp]
  rw [gridGetWC_inrange s.grid hs ⟨ht.1, ht.2.1⟩ ⟨ht.2.2.1, ht.2.2.2⟩]
  split
  · next h => exact ⟨ht.1, ht.2.1, ht.2.2.1, ht.2.2.2, h⟩
  · exact hf

/-! ### audit r5 #4: the "other cause" `dead` at the level of the rules -/

theorem ghostCollision_done (s : State) (np : Int × Int) (path og old : CR) (e : Bool) :
    (ghostCollision s np path og old e).done = true ↔ (s.frightened ≤ 0 ∧ touches s np path old) := by
  unfold ghostCollision touches
  simp only []
  by_cases hf : s.frightened > 0
  · have hf' : ¬ s.frightened ≤ 0 := by omega
    simp only [hf, hf', decide_true, Bool.true_and, false_and, iff_false]
    split <;> simp_all
  · have hf' : s.frightened ≤ 0 := by omega
    simp only [hf, hf', decide_false, Bool.false_and, true_and]
    split
    · rename_i h; simp at h ⊢; simpa [Bool.or_eq_true, Bool.and_eq_true, decide_eq_true_eq, or_assoc] using h
    · rename_i h; simp at h ⊢; exact ⟨h.1.1, h.1.2, h.2⟩

theorem ghostCollisions_any_done (s : State) (np : Int × Int) : ∀ (ps os qs : List CR) (es : List Bool),
    (ghostCollisions s np ps os qs es).any (·.done) = true ↔
      (s.frightened ≤ 0 ∧ ∃ (i : Nat) (p o q : CR) (e : Bool), ps[i]? = some p ∧ os[i]? = some o ∧ qs[i]? = some q ∧
        es[i]? = some e ∧ touches s np p q) := by
  intro ps
  induction ps with
  | nil => intro os qs es; simp [ghostCollisions]
  | cons p ps ih =>
    intro os qs es
    cases os with
    | nil => simp [ghostCollisions]
    | cons o os =>
      cases qs with
      | nil => simp [ghostCollisions]
      | cons q qs =>
        cases es with
        | nil => simp [ghostCollisions]
        | cons e es =>
          simp only [ghostCollisions, List.any_cons, Bool.or_eq_true, ghostCollision_done, ih]
          constructor
          · rintro (⟨h1, h2⟩ | ⟨h1, i, p', o', q', e', a, b, c, d, t⟩)
            · exact ⟨h1, 0, p, o, q, e, rfl, rfl, rfl, rfl, h2⟩
            · exact ⟨h1, i + 1, p', o', q', e', by simpa using a, by simpa using b, by simpa using c, by simpa using d, t⟩
          · rintro ⟨h1, i, p', o', q', e', a, b, c, d, t⟩
            cases i with
            | zero =>
              simp at a b c d; subst a; subst c
              exact Or.inl ⟨h1, t⟩
            | succ i =>
              exact Or.inr ⟨h1, i, p', o', q', e', by simpa using a, by simpa using b, by simpa using c, by simpa using d, t⟩

theorem dead_iff (tl : Int) (s : State) (a : Int) (d : Draw) :
    (step tl s a d).1.dead = true ↔
      (s.frightened ≤ 0 ∧ ∃ (i : Nat) (p o q : CR) (e : Bool), d.paths[i]? = some p ∧ s.initGhosts[i]? = some o ∧
        s.oldGhosts[i]? = some q ∧ s.ghostEaten[i]? = some e ∧ touches s (nextPlayer s a) p q) := by
  rw [← ghostCollisions_any_done]; rfl

end PacMan
