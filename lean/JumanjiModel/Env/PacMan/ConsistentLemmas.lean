/- Proofs that `Consistent` (C07) is preserved by every PacMan step. -/
import JumanjiModel.Env.PacMan.BoundsLemmas
namespace PacMan
open Jm

/-- cell (0,0) of a non-empty maze does not depend on the default of the lookup -/
theorem get00_indep (g : IGrid) (d d' : Int) (hx : 0 < xSize g) (hy : 0 < ySize g) :
    Jx.Grid.get g d 0 0 = Jx.Grid.get g d' 0 0 := by
  cases g with
  | nil => simp [xSize] at hx
  | cons row rest =>
    cases row with
    | nil => simp [ySize] at hy
    | cons v vs => simp [Jx.Grid.get]

/-- the player's next cell is free, for EVERY action value -/
theorem nextPlayer_free (s : State) (a : Int)
    (hs : Jx.Grid.shaped s.grid (xSize s.grid) (ySize s.grid) = true)
    (hx : 0 < xSize s.grid) (hy : 0 < ySize s.grid)
    (hf : free s.grid s.player.1 s.player.2) :
    free s.grid (nextPlayer s a).1 (nextPlayer s a).2 := by
  have hr := playerStep_range s.grid s.player a hx hy
  unfold nextPlayer
  simp only []
  rw [gridGetWC_inrange s.grid hs ⟨hr.1, hr.2.1⟩ ⟨hr.2.2.1, hr.2.2.2⟩]
  split
  · next h => exact ⟨hr.1, hr.2.1, hr.2.2.1, hr.2.2.2, h⟩
  · exact hf

theorem ghostCollisions_length (s : State) (np : Int × Int) :
    ∀ (ps os qs : List CR) (es : List Bool),
      (ghostCollisions s np ps os qs es).length =
        min (min ps.length os.length) (min qs.length es.length) := by
  intro ps
  induction ps with
  | nil => intro os qs es; simp [ghostCollisions]
  | cons p ps ih =>
    intro os qs es
    cases os with
    | nil => simp [ghostCollisions]
    | cons o' os =>
      cases qs with
      | nil => simp [ghostCollisions]
      | cons q qs =>
        cases es with
        | nil => simp [ghostCollisions]
        | cons e es =>
          simp only [ghostCollisions, List.length_cons, ih]
          omega

/-- an admissible ghost draw puts every ghost on a free cell -/
theorem draw_free {s : State} {d : Draw} (hg : ∀ c ∈ s.ghosts, freeCR s.grid c)
    (hd : validGhostDraw s d = true) : ∀ p ∈ d.paths, freeCR s.grid p := by
  unfold validGhostDraw at hd
  simp only [Bool.and_eq_true, beq_iff_eq, List.all_eq_true, id] at hd
  obtain ⟨⟨⟨hl1, _⟩, hall⟩, hl3⟩ := hd
  intro p hp
  obtain ⟨i, hi, hget⟩ := List.getElem_of_mem hp
  have hig : i < s.ghosts.length := by omega
  have his : i < s.ghostStarts.length := by omega
  have hiz : i < (s.ghosts.zip d.paths).length := by simp; omega
  have hmem : ghostMoveOK s.grid s.ghosts[i] d.paths[i] s.ghostStarts[i] ∈
      List.zipWith (fun (cp : CR × CR) st => ghostMoveOK s.grid cp.1 cp.2 st) (s.ghosts.zip d.paths) s.ghostStarts := by
    apply List.mem_iff_getElem.mpr
    refine ⟨i, by simp; omega, ?_⟩
    simp
  have hok := hall _ hmem
  unfold ghostMoveOK at hok
  simp only [Bool.or_eq_true, Bool.and_eq_true, decide_eq_true_eq] at hok
  rw [← hget]
  rcases hok with h | ⟨_, h⟩
  · rw [h]; exact hg _ (List.getElem_mem hig)
  · exact h

theorem draw_lengths {s : State} {d : Draw} (hd : validGhostDraw s d = true) :
    d.paths.length = s.ghosts.length ∧ d.actions.length = s.ghosts.length := by
  unfold validGhostDraw at hd
  simp only [Bool.and_eq_true, beq_iff_eq] at hd
  exact ⟨hd.1.1.1, hd.1.1.2⟩

theorem eatAt_zero (locs : List CR) : eatAt locs (0, 0) = locs := by
  unfold eatAt
  induction locs with
  | nil => rfl
  | cons l ls ih =>
    simp only [List.map_cons, ih]
    split
    · next h => rw [h]
    · rfl

/-- eating at a cell other than (0,0) removes exactly that cell from the remaining entries -/
theorem nonzero_eatAt (locs : List CR) (pc : CR) (hpc : pc ≠ (0, 0)) :
    nonzero (eatAt locs pc) = (nonzero locs).filter (· ≠ pc) := by
  unfold nonzero eatAt
  induction locs with
  | nil => rfl
  | cons l ls ih =>
    simp only [List.map_cons, List.filter_cons, ih]
    by_cases h1 : l = pc
    · subst h1
      simp [hpc]
    · by_cases h2 : l = (0, 0)
      · simp [h2]
      · simp [h1, h2]

theorem nonzero_eatAt_sublist (locs : List CR) (pc : CR) :
    (nonzero (eatAt locs pc)).Sublist (nonzero locs) := by
  by_cases hpc : pc = (0, 0)
  · subst hpc; rw [eatAt_zero]; exact List.Sublist.refl _
  · rw [nonzero_eatAt locs pc hpc]; exact List.filter_sublist

theorem nodup_filter_ne_length (l : List CR) (pc : CR) (hN : l.Nodup) :
    ((l.filter (· ≠ pc)).length : Int) = (l.length : Int) - (if pc ∈ l then 1 else 0) := by
  induction l with
  | nil => simp
  | cons x xs ih =>
    have hx : x ∉ xs := (List.nodup_cons.mp hN).1
    have hN' : xs.Nodup := (List.nodup_cons.mp hN).2
    have ih' := ih hN'
    by_cases h : x = pc
    · subst h
      have hself : xs.filter (· ≠ x) = xs := by
        apply List.filter_eq_self.mpr
        intro a ha
        simp only [ne_eq, decide_eq_true_eq]
        intro hax; subst hax; exact hx ha
      rw [List.filter_cons]
      simp only [ne_eq, not_true_eq_false, decide_false, Bool.false_eq_true, if_false, hself,
        List.mem_cons, true_or, if_true, List.length_cons]
      omega
    · have hmem : (pc ∈ x :: xs) ↔ pc ∈ xs := by
        simp only [List.mem_cons]
        constructor
        · rintro (h' | h')
          · exact absurd h'.symm h
          · exact h'
        · exact Or.inr
      simp only [List.filter_cons, ne_eq, h, not_false_eq_true, decide_true, if_true,
        List.length_cons, hmem]
      rw [Int.natCast_add, ih']
      split <;> omega

theorem contains_iff_mem_nonzero (locs : List CR) (pc : CR) (hpc : pc ≠ (0, 0)) :
    locs.contains pc = true ↔ pc ∈ nonzero locs := by
  unfold nonzero
  simp [List.mem_filter, hpc]

/-- C07: EVERY step (any action value, any time limit, any admissible ghost draw) preserves the
consistency predicate, provided no pellet cell is listed twice — which is preserved as well -/
theorem step_consistent (tl : Int) (s : State) (a : Int) (d : Draw) (hC : Consistent s)
    (hN : (nonzero s.pelletLocs).Nodup) (hd : validGhostDraw s d = true) :
    Consistent (step tl s a d).1 ∧ (nonzero (step tl s a d).1.pelletLocs).Nodup := by
  obtain ⟨hs, hx0, hy0, hpl, hg4, hig4, hog4, hst4, hge4, hga4, hgi4, hg, hig, hpel, hpow, hcnt⟩ := hC
  obtain ⟨hdp, hda⟩ := draw_lengths hd
  have hnp := nextPlayer_free s a hs hx0 hy0 hpl
  have hlen : (ghostCollisions s (nextPlayer s a) d.paths s.initGhosts s.oldGhosts s.ghostEaten).length = 4 := by
    rw [ghostCollisions_length]; omega
  have hsub : ∀ locs : List CR, (∀ c ∈ nonzero locs, freeCR s.grid c) →
      ∀ c ∈ nonzero (eatAt locs (crOfPlayer (nextPlayer s a))), freeCR s.grid c :=
    fun locs h c hc => h c ((nonzero_eatAt_sublist locs _).subset hc)
  refine ⟨⟨hs, hx0, hy0, hnp, ?_, hig4, hg4, ?_, ?_, ?_, ?_, ?_, hig, hsub _ hpel, hsub _ hpow, ?_⟩, ?_⟩
  · show ((ghostCollisions s (nextPlayer s a) d.paths s.initGhosts s.oldGhosts s.ghostEaten).map (·.pos)).length = 4
    rw [List.length_map]; exact hlen
  · show (s.ghostStarts.map (· - 1)).length = 4
    rw [List.length_map]; exact hst4
  · show ((ghostCollisions s (nextPlayer s a) d.paths s.initGhosts s.oldGhosts s.ghostEaten).map (·.eaten)).length = 4
    rw [List.length_map]; exact hlen
  · show d.actions.length = 4
    omega
  · show (s.ghostInitSteps.map (· - 1)).length = 4
    rw [List.length_map]; exact hgi4
  · intro c hc
    have hc' : c ∈ (ghostCollisions s (nextPlayer s a) d.paths s.initGhosts s.oldGhosts s.ghostEaten).map (·.pos) := hc
    obtain ⟨o, ho, rfl⟩ := List.mem_map.mp hc'
    rcases ghostCollisions_pos s _ _ _ _ _ o ho with h | h
    · exact draw_free hg hd _ h
    · exact hig _ h
  · intro h00
    have h00' : Jx.Grid.get s.grid 1 0 0 = 0 := h00
    have hpc : crOfPlayer (nextPlayer s a) ≠ (0, 0) := by
      intro hpc
      unfold crOfPlayer at hpc
      have e1 : (nextPlayer s a).2 = 0 := congrArg Prod.fst hpc
      have e2 : (nextPlayer s a).1 = 0 := congrArg Prod.snd hpc
      have hv := hnp.2.2.2.2
      rw [e1, e2] at hv
      have := get00_indep s.grid 0 1 hx0 hy0
      simp only [Int.toNat_zero] at hv
      omega
    show s.pellets - (if s.pelletLocs.contains (crOfPlayer (nextPlayer s a)) = true then 1 else 0) =
      ((nonzero (eatAt s.pelletLocs (crOfPlayer (nextPlayer s a)))).length : Int)
    rw [nonzero_eatAt _ _ hpc, nodup_filter_ne_length _ _ hN, hcnt h00']
    simp only [contains_iff_mem_nonzero _ _ hpc]
  · exact List.Nodup.sublist (nonzero_eatAt_sublist s.pelletLocs _) hN

/-! ### the generated states list no cell twice -/

theorem zipIdx_pairwise_snd {α} (l : List α) (k : Nat) :
    List.Pairwise (fun (a b : α × Nat) => a.2 ≠ b.2) (l.zipIdx k) := by
  rw [List.pairwise_iff_getElem]
  intro i j hi hj hij
  rw [List.getElem_zipIdx, List.getElem_zipIdx]
  simp only [ne_eq]
  omega

/-- `cellsWith` enumerates distinct cells -/
theorem cellsWith_nodup (maze : List (List Char)) (p : Char → Bool) : (cellsWith maze p).Nodup := by
  unfold cellsWith List.Nodup
  rw [List.pairwise_flatMap]
  constructor
  · rintro ⟨row, x⟩ _
    simp only []
    rw [List.pairwise_filterMap]
    refine List.Pairwise.imp ?_ (zipIdx_pairwise_snd row 0)
    rintro ⟨c1, y1⟩ ⟨c2, y2⟩ hne b hb b' hb'
    simp only [] at hb hb' hne
    split at hb
    · split at hb'
      · simp only [Option.some.injEq] at hb hb'
        subst hb; subst hb'
        intro h
        have := congrArg Prod.fst h
        simp only [] at this
        omega
      · simp at hb'
    · simp at hb
  · refine List.Pairwise.imp ?_ (zipIdx_pairwise_snd maze 0)
    rintro ⟨r1, x1⟩ ⟨r2, x2⟩ hne c1 hc1 c2 hc2
    simp only [] at hc1 hc2 hne
    obtain ⟨⟨ch1, y1⟩, _, h1⟩ := List.mem_filterMap.mp hc1
    obtain ⟨⟨ch2, y2⟩, _, h2⟩ := List.mem_filterMap.mp hc2
    simp only [] at h1 h2
    split at h1
    · split at h2
      · simp only [Option.some.injEq] at h1 h2
        subst h1; subst h2
        intro h
        have := congrArg Prod.snd h
        simp only [] at this
        omega
      · simp at h2
    · simp at h1

theorem nodup_nonzero {l : List CR} (h : l.Nodup) : (nonzero l).Nodup :=
  List.Nodup.sublist List.filter_sublist h

/-- every state the ASCII generator builds lists no pellet cell twice -/
theorem resetState_nodup (maze : List (List Char)) (s : State) (h : resetState maze = some s) :
    (nonzero s.pelletLocs).Nodup := by
  unfold resetState at h
  simp only [Option.map_eq_some_iff] at h
  obtain ⟨pl, _, rfl⟩ := h
  exact nodup_nonzero (l := cellsWith maze (· ≠ 'X')) (cellsWith_nodup maze _)

end PacMan
