/- Proofs for Env/PacMan/Maze.lean: the table checker is sound, `reset` of a checked table is `Consistent`,
consistency along whole episodes. -/
import JumanjiModel.Env.PacMan.Maze
import JumanjiModel.Env.PacMan.ConsistentLemmas
namespace PacMan
open Jm

theorem allFree_sound {g : IGrid} {l : List CR} (h : allFree g l = true) : ∀ c ∈ l, freeCR g c := by
  unfold allFree at h
  intro c hc
  have := (List.all_eq_true.mp h) c hc
  simpa using this

theorem nodupB_sound : ∀ l : List CR, nodupB l = true → l.Nodup
  | [], _ => List.nodup_nil
  | a :: l, h => by
    unfold nodupB at h
    simp only [Bool.and_eq_true, List.all_eq_true] at h
    refine List.nodup_cons.mpr ⟨?_, nodupB_sound l h.2⟩
    intro hm
    have := h.1 a hm
    simp at this

theorem binaryB_sound {g : IGrid} (h : binaryB g = true) : BinaryCells g := by
  unfold binaryB at h
  unfold BinaryCells
  intro x hx
  obtain ⟨row, hr, hxr⟩ := List.mem_flatten.mp hx
  have h1 := (List.all_eq_true.mp h) row hr
  have h2 := (List.all_eq_true.mp h1) x hxr
  simpa using h2

theorem cellOK_of_connCheck {g : IGrid} {p : Int × Int} {dist : DistCert} (h : connCheck g p dist = true)
    (q : Int × Int) (hq : free g q.1 q.2) : cellOK g p dist q = true := by
  unfold connCheck at h
  obtain ⟨h0, h1, h2, h3, _⟩ := hq
  have hr := (List.all_eq_true.mp h) q.1.toNat (List.mem_range.mpr (by omega))
  have hc := (List.all_eq_true.mp hr) q.2.toNat (List.mem_range.mpr (by omega))
  have e1 : ((q.1.toNat : Nat) : Int) = q.1 := Int.toNat_of_nonneg h0
  have e2 : ((q.2.toNat : Nat) : Int) = q.2 := Int.toNat_of_nonneg h2
  rw [e1, e2] at hc
  exact hc

/-- the distance certificate is sound: induction on the certified distance -/
theorem reach_of_connCheck {g : IGrid} {p : Int × Int} {dist : DistCert} (h : connCheck g p dist = true) :
    ∀ (d : Nat) (q : Int × Int), free g q.1 q.2 → distAt dist q = d → Reach g p q := by
  intro d
  induction d using Nat.strongRecOn with
  | _ d ih =>
    intro q hq hd
    have hc := cellOK_of_connCheck h q hq
    unfold cellOK at hc
    simp only [Bool.or_eq_true, Bool.not_eq_true', decide_eq_false_iff_not, decide_eq_true_eq,
      List.any_eq_true, Bool.and_eq_true, List.mem_range] at hc
    rcases hc with (hc | hc) | ⟨a, _, ⟨hf, hdist⟩, hback⟩
    · exact absurd hq hc
    · rw [hc]; exact Reach.refl
    · have hr := ih (distAt dist (target g q a)) (by omega) (target g q a) hf rfl
      have hm := Reach.move ((a + 2) % 4) hr (by omega) (by rw [hback]; exact hq)
      rw [hback] at hm
      exact hm

theorem connected_of_connCheck {g : IGrid} {p : Int × Int} {dist : DistCert} (h : connCheck g p dist = true) :
    Connected g p := fun x y hf => reach_of_connCheck h _ (x, y) hf rfl

/-- the executable checker is sound for the C10 specification of a maze table -/
theorem tableCheck_sound (t : MazeTable) (dist : DistCert) (h : tableCheck t dist = true) : MazeTableOK t := by
  unfold tableCheck at h
  simp only [Bool.and_eq_true, decide_eq_true_eq] at h
  obtain ⟨⟨⟨⟨⟨⟨⟨⟨⟨⟨⟨⟨⟨⟨hs, hx⟩, hy⟩, hb⟩, hp⟩, hg4⟩, hgf⟩, hpg⟩, hpf⟩, hpn⟩, huf⟩, hun⟩, hs4⟩, hsf⟩, hc⟩ := h
  refine ⟨hs, hx, hy, binaryB_sound hb, hp, hg4, allFree_sound hgf, ?_, allFree_sound hpf, nodupB_sound _ hpn,
    allFree_sound huf, nodupB_sound _ hun, hs4, allFree_sound hsf, connected_of_connCheck hc⟩
  intro hm
  have := (List.all_eq_true.mp hpg) _ hm
  simp [crOfPlayer] at this

theorem nonzero_subset {l : List CR} {c : CR} (h : c ∈ nonzero l) : c ∈ l := (List.mem_filter.mp h).1

/-- C10 ⇒ C07: for ANY maze table satisfying the specification, the state `reset` returns is consistent and
lists no pellet twice -/
theorem reset_consistent (t : MazeTable) (h : MazeTableOK t) :
    Consistent (reset t.toState).1 ∧ (nonzero (reset t.toState).1.pelletLocs).Nodup := by
  refine ⟨⟨h.shaped, h.rows_pos, h.cols_pos, h.player_free, h.four_ghosts, h.four_ghosts, h.four_ghosts,
    rfl, rfl, rfl, rfl, h.ghosts_free, h.ghosts_free, fun c hc => h.pellets_free c (nonzero_subset hc),
    fun c hc => h.powerUps_free c (nonzero_subset hc), ?_⟩, nodup_nonzero h.pellets_nodup⟩
  intro h00
  have h00' : Jx.Grid.get t.grid 1 0 0 = 0 := h00
  have hnz : nonzero t.pellets = t.pellets := by
    unfold nonzero
    apply List.filter_eq_self.mpr
    intro c hc
    simp only [ne_eq, decide_eq_true_eq]
    intro h0
    subst h0
    have hf := (h.pellets_free _ hc).2.2.2.2
    have := get00_indep t.grid 0 1 h.rows_pos h.cols_pos
    simp only [Int.toNat_zero] at hf
    omega
  show ((t.pellets.length : Nat) : Int) = ((nonzero t.pellets).length : Int)
  rw [hnz]

/-- the existing ASCII transliteration `resetState` is `toState` of the parsed table -/
theorem resetState_eq_ofAscii (maze : List (List Char)) :
    resetState maze = (MazeTable.ofAscii maze).map MazeTable.toState := by
  unfold resetState MazeTable.ofAscii
  simp only [Option.map_map]
  rfl

/-- consistency along a whole episode: every state of the trace is consistent, lists no pellet twice and
has the maze of the start state -/
theorem trace_consistent (tl : Int) : ∀ (ads : List (Int × Draw)) (s : State), Consistent s →
    (nonzero s.pelletLocs).Nodup → validRun tl s ads = true →
    ∀ s' ∈ trace tl s ads, Consistent s' ∧ (nonzero s'.pelletLocs).Nodup ∧ s'.grid = s.grid
  | [], s, hC, hN, _ => by
    intro s' hs'
    simp only [trace, List.mem_singleton] at hs'
    subst hs'
    exact ⟨hC, hN, rfl⟩
  | (a, d) :: rest, s, hC, hN, hv => by
    intro s' hs'
    simp only [validRun, Bool.and_eq_true] at hv
    simp only [trace, List.mem_cons] at hs'
    rcases hs' with rfl | hs'
    · exact ⟨hC, hN, rfl⟩
    · have hstep := step_consistent tl s a d hC hN hv.1
      have := trace_consistent tl rest (step tl s a d).1 hstep.1 hstep.2 hv.2 s' hs'
      exact ⟨this.1, this.2.1, this.2.2.trans (maze_fixed tl s a d).1⟩

/-! ### reachability is realised by the L1 step function -/

/-- `walk` reads only the maze and the player's cell -/
theorem walk_congr : ∀ (as : List Int) (s1 s2 : State), s1.grid = s2.grid → s1.player = s2.player →
    walk s1 as = walk s2 as
  | [], _, _, _, hp => hp
  | a :: as, s1, s2, hg, hp => by
    have hn : nextPlayer s1 a = nextPlayer s2 a := by unfold nextPlayer; rw [hg, hp]
    exact walk_congr as _ _ hg hn

/-- the player of the last state of an episode is `walk` of the actions, for every ghost draw -/
theorem trace_last_player (tl : Int) : ∀ (ads : List (Int × Draw)) (s : State),
    ∃ s', (trace tl s ads).getLast? = some s' ∧ s'.player = walk s (ads.map (·.1)) ∧ s'.grid = s.grid
  | [], s => ⟨s, rfl, rfl, rfl⟩
  | (a, d) :: rest, s => by
    obtain ⟨s', h1, h2, h3⟩ := trace_last_player tl rest (step tl s a d).1
    refine ⟨s', ?_, ?_, h3⟩
    · cases hr : trace tl (step tl s a d).1 rest with
      | nil => rw [hr] at h1; simp at h1
      | cons x xs => rw [hr] at h1; simp only [trace, hr]; rw [List.getLast?_cons_cons]; exact h1
    · rw [h2]; exact walk_congr _ _ _ rfl rfl

theorem walk_append (s : State) (as : List Int) (a : Int) :
    walk s (as ++ [a]) = nextPlayer { s with player := walk s as } a := by
  induction as generalizing s with
  | nil => rfl
  | cons b bs ih => simp only [List.cons_append, walk]; rw [ih]

/-- a legal move is carried out by the L1 move + wall test -/
theorem nextPlayer_of_free (s : State) (a : Nat) (ha : a < 4)
    (hs : Jx.Grid.shaped s.grid (xSize s.grid) (ySize s.grid) = true) (hp : Inside s)
    (hf : free s.grid (target s.grid s.player a).1 (target s.grid s.player a).2) :
    nextPlayer s (a : Int) = target s.grid s.player a := by
  unfold nextPlayer
  simp only [playerStep_eq_target s a (by omega) hp]
  rw [gridGetWC_inrange s.grid hs ⟨hf.1, hf.2.1⟩ ⟨hf.2.2.1, hf.2.2.2.1⟩]
  simp [hf.2.2.2.2]

theorem reach_free {g : IGrid} {p q : Int × Int} (hp : free g p.1 p.2) (h : Reach g p q) : free g q.1 q.2 := by
  cases h with
  | refl => exact hp
  | move a _ _ hf => exact hf

/-- every cell reached by legal moves is reached by playing actions 0..3 through the L1 step function -/
theorem reach_walk (s : State) (hs : Jx.Grid.shaped s.grid (xSize s.grid) (ySize s.grid) = true)
    (hp : free s.grid s.player.1 s.player.2) (q : Int × Int) (h : Reach s.grid s.player q) :
    ∃ as : List Int, (∀ a ∈ as, 0 ≤ a ∧ a < 4) ∧ walk s as = q := by
  induction h with
  | refl => exact ⟨[], by simp, rfl⟩
  | @move q' a hr ha hf ih =>
    obtain ⟨as, hall, hw⟩ := ih
    have hq' := reach_free hp hr
    refine ⟨as ++ [(a : Int)], ?_, ?_⟩
    · intro b hb
      rcases List.mem_append.mp hb with hb | hb
      · exact hall b hb
      · simp only [List.mem_singleton] at hb; subst hb; omega
    · rw [walk_append, hw]
      exact nextPlayer_of_free { s with player := q' } a ha hs ⟨hq'.1, hq'.2.1, hq'.2.2.1, hq'.2.2.2.1⟩ hf

/-- on a checked table every free cell can be walked to from `reset` with the L1 step function, whatever the
ghosts do (the episode's step types are not considered: `step` keeps moving the player after the episode is over) -/
theorem all_cells_walkable (t : MazeTable) (h : MazeTableOK t) (x y : Int) (hf : free t.grid x y) :
    ∃ as : List Int, (∀ a ∈ as, 0 ≤ a ∧ a < 4) ∧
      ∀ (tl : Int) (ds : List Draw), ds.length = as.length →
        ∃ s', (trace tl (reset t.toState).1 (as.zip ds)).getLast? = some s' ∧ s'.player = (x, y) := by
  obtain ⟨as, hall, hw⟩ := reach_walk t.toState h.shaped h.player_free (x, y) (h.connected x y hf)
  refine ⟨as, hall, fun tl ds hl => ?_⟩
  obtain ⟨s', h1, h2, _⟩ := trace_last_player tl (as.zip ds) (reset t.toState).1
  refine ⟨s', h1, ?_⟩
  have hm : (as.zip ds).map (·.1) = as := List.map_fst_zip (by omega)
  rw [h2, hm]
  exact hw

end PacMan
