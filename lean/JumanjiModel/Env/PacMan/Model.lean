/-
PacMan (jumanji/environments/routing/pac_man/{env,utils,generator,constants}.py).  Import-free.
R model: the player's move, the wall test, the action mask, ghost collisions, pellets, power-ups,
score, the time limit and the ASCII parser are functions (L1 transliteration); the ghost policy
(`ghost_move`: softmax sampling over float distances) is a DRAW — the positions `ghost_move`
returns and the actions it chose — constrained by the decidable relation `validGhostDraw`
("each ghost stays or moves to a walkable neighbour, across the border with wrap-around").

Coordinates as in the source: `grid[x][y]`, `x` = row, `y` = column, `1` = free, `0` = wall;
`x_size` = number of rows, `y_size` = number of columns.  The player is `(x, y)`; ghosts, pellets
and power-ups are `(y, x)` pairs = (column, row).  Player actions 0..4 move to
row-1, column-1, row+1, column+1, stay (the source calls them up, right, down, left, no-op).
-/
import JumanjiModel.Prim.Idx
import JumanjiModel.Prim.Grid
import JumanjiModel.Core.TimeStep
namespace PacMan
open Jm

abbrev IGrid := List (List Int)
/-- a `(column, row)` pair, the layout of `ghost_locations`, `pellet_locations`, … -/
abbrev CR := Int × Int

structure State where
  grid : IGrid
  pellets : Int
  frightened : Int
  pelletLocs : List CR
  powerUps : List CR
  player : Int × Int            -- (x, y) = (row, column)
  ghosts : List CR
  initGhosts : List CR
  oldGhosts : List CR
  ghostInitSteps : List Int
  ghostActions : List Int
  lastDirection : Int
  dead : Bool
  ghostStarts : List Int
  stepCount : Int
  ghostEaten : List Bool
  score : Int
  deriving Repr, DecidableEq

structure Obs where
  grid : IGrid
  player : Int × Int
  ghosts : List CR
  powerUps : List CR
  frightened : Int
  pelletLocs : List CR
  mask : List Bool
  score : Int
  deriving Repr, DecidableEq

structure Draw where
  paths : List CR               -- `ghost_paths` returned by `ghost_move`
  actions : List Int            -- `ghost_actions`
  deriving Repr, DecidableEq

/-! ## L1 -/

def xSize (g : IGrid) : Nat := g.length
def ySize (g : IGrid) : Nat := (g.headD []).length

/-- `player_step(state, action, x_size, y_size, steps=1)` (`lax.switch` clamps the index) -/
def playerStep (g : IGrid) (p : Int × Int) (action : Int) : Int × Int :=
  let a : Int := if action < 0 then 0 else if action > 4 then 4 else action
  let xs : Int := xSize g
  let ys : Int := ySize g
  if a = 0 then ((p.1 - 1) % xs, p.2 % ys)
  else if a = 1 then (p.1 % xs, (p.2 - 1) % ys)
  else if a = 2 then ((p.1 + 1) % xs, p.2 % ys)
  else if a = 3 then (p.1 % xs, (p.2 + 1) % ys)
  else (p.1 % xs, p.2 % ys)

/-- `check_wall_collisions`: the new position if it is free, else the old one -/
def nextPlayer (s : State) (action : Int) : Int × Int :=
  let np := playerStep s.grid s.player action
  if Jx.Grid.getWC s.grid 0 np.1 np.2 = 1 then np else s.player

/-- `_compute_action_mask`: `grid[x][y]` of the four neighbours WITHOUT wrap-around (negative
indices wrap, too large ones are clamped by the gather), no-op always masked out -/
def maskOf (s : State) : List Bool :=
  let (x, y) := s.player
  [decide (Jx.Grid.getWC s.grid 0 (x - 1) y ≠ 0), decide (Jx.Grid.getWC s.grid 0 x (y - 1) ≠ 0),
   decide (Jx.Grid.getWC s.grid 0 (x + 1) y ≠ 0), decide (Jx.Grid.getWC s.grid 0 x (y + 1) ≠ 0), false]

def observe (s : State) : Obs :=
  ⟨s.grid, s.player, s.ghosts, s.powerUps, s.frightened, s.pelletLocs, maskOf s, s.score⟩

structure GhostOut where
  pos : CR
  done : Bool
  reward : Rat
  eaten : Bool
  deriving Repr

/-- `check_collisions` of one ghost (`path` = its new position, `old` = `old_ghost_locations`) -/
def ghostCollision (s : State) (np : Int × Int) (path og old : CR) (edible : Bool) : GhostOut :=
  let isEat := decide (s.frightened > 0)
  -- ghost (col,row) vs player (row,col)
  let cond1 := decide (path.2 = np.1) && decide (path.1 = np.2)
  let cond2 := decide (path.2 = s.player.1) && decide (path.1 = s.player.2)
  let cond3 := decide (old.2 = np.1) && decide (old.1 = np.2)
  let cond := cond1 || cond2 || cond3
  let ghostReset := isEat && cond
  let r : GhostOut :=
    if cond then (if ghostReset then ⟨og, false, 200, false⟩ else ⟨path, true, 0, edible⟩)
    else ⟨path, false, 0, edible⟩
  { r with reward := r.reward * (if edible then 1 else 0) }

def ghostCollisions (s : State) (np : Int × Int) : List CR → List CR → List CR → List Bool → List GhostOut
  | p :: ps, o :: os, q :: qs, e :: es => ghostCollision s np p o q e :: ghostCollisions s np ps os qs es
  | _, _, _, _ => []

/-- the rule behind `done` of `check_ghost_collisions`: the ghost's new cell is the player's new cell, or the ghost's new cell
is the player's old cell, or the ghost's old cell is the player's new cell (ghost cells are (column, row), player cells (row, column)) -/
def touches (s : State) (np : Int × Int) (path old : CR) : Prop :=
  (path.2 = np.1 ∧ path.1 = np.2) ∨ (path.2 = s.player.1 ∧ path.1 = s.player.2) ∨ (old.2 = np.1 ∧ old.1 = np.2)
instance (s : State) (np : Int × Int) (path old : CR) : Decidable (touches s np path old) := by unfold touches; infer_instance


def crOfPlayer (p : Int × Int) : CR := (p.2, p.1)

/-- rows equal to the player's cell are zeroed (`locations * mask`) -/
def eatAt (locs : List CR) (pc : CR) : List CR := locs.map (fun l => if l = pc then (0, 0) else l)

def sumRat (xs : List Rat) : Rat := xs.foldl (· + ·) 0

/-- `step` (= `_update_state` + termination), given the ghost draw -/
def step (timeLimit : Int) (s : State) (action : Int) (d : Draw) : State × TimeStep Obs :=
  let np := nextPlayer s action
  let outs := ghostCollisions s np d.paths s.initGhosts s.oldGhosts s.ghostEaten
  let dead := outs.any (·.done)
  let ghostRew := sumRat (outs.map (·.reward))
  let pc := crOfPlayer np
  let eat := s.powerUps.contains pc
  let powerUps := eatAt s.powerUps pc
  let ate := s.pelletLocs.contains pc
  let pelletLocs := eatAt s.pelletLocs pc
  let pellets := s.pellets - (if ate then 1 else 0)
  let reward : Rat := (if ate then 10 else 0) + (if eat then 50 else 0) + ghostRew
  let steps := s.stepCount + 1
  let s' : State :=
    { grid := s.grid, pellets := pellets,
      frightened := if eat then 30 else s.frightened - 1,
      pelletLocs := pelletLocs, powerUps := powerUps, player := np,
      ghosts := outs.map (·.pos), initGhosts := s.initGhosts, oldGhosts := s.ghosts,
      ghostInitSteps := s.ghostInitSteps.map (· - 1), ghostActions := d.actions,
      lastDirection := action, dead := dead, ghostStarts := s.ghostStarts.map (· - 1),
      stepCount := steps, ghostEaten := outs.map (·.eaten),
      score := s.score + reward.floor }
  let done := decide (steps ≥ timeLimit) || dead || decide (pellets = 0)
  (s', condLast done [reward] (observe s'))

/-! ### the ASCII parser (`generate_maze_from_ascii`) -/

structure Parsed where
  grid : IGrid
  cookies : List CR
  powerUps : List CR
  ghosts : List CR
  player : Option CR
  initTargets : List CR
  scatter : List CR
  deriving Repr, DecidableEq

def cellsWith (maze : List (List Char)) (p : Char → Bool) : List CR :=
  (maze.zipIdx).flatMap (fun (row, x) =>
    (row.zipIdx).filterMap (fun (ch, y) => if p ch then some ((y : Int), (x : Int)) else none))

def parse (maze : List (List Char)) : Parsed :=
  { grid := maze.map (fun row => row.map (fun ch => if ch = 'X' then 0 else 1)),
    cookies := cellsWith maze (· ≠ 'X'),
    powerUps := cellsWith maze (· = 'O'),
    ghosts := cellsWith maze (· = 'G'),
    player := (cellsWith maze (· = 'P')).getLast?,
    initTargets := cellsWith maze (· = 'T'),
    scatter := cellsWith maze (· = 'S') }

/-- the state `AsciiGenerator.__call__` builds (fields the model carries) -/
def resetState (maze : List (List Char)) : Option State :=
  let p := parse maze
  p.player.map (fun pl =>
  { grid := p.grid, pellets := p.cookies.length, frightened := 0, pelletLocs := p.cookies,
    powerUps := p.powerUps, player := (pl.2, pl.1), ghosts := p.ghosts, initGhosts := p.ghosts,
    oldGhosts := p.ghosts, ghostInitSteps := [0, 0, 0, 0], ghostActions := [1, 1, 1, 1],
    lastDirection := 0, dead := false, ghostStarts := [1, 5, 10, 15], stepCount := 0,
    ghostEaten := [true, true, true, true], score := 0 })

/-! ## L2: the rules -/

def free (g : IGrid) (x y : Int) : Prop :=
  0 ≤ x ∧ x < (xSize g : Int) ∧ 0 ≤ y ∧ y < (ySize g : Int) ∧ Jx.Grid.get g 0 x.toNat y.toNat = 1
instance (g : IGrid) (x y : Int) : Decidable (free g x y) := by unfold free; infer_instance

/-- the cell a move leads to; the maze wraps around at its borders (tunnels) -/
def target (g : IGrid) (p : Int × Int) (a : Nat) : Int × Int :=
  let xs : Int := xSize g
  let ys : Int := ySize g
  match a with
  | 0 => ((p.1 - 1) % xs, p.2)
  | 1 => (p.1, (p.2 - 1) % ys)
  | 2 => ((p.1 + 1) % xs, p.2)
  | 3 => (p.1, (p.2 + 1) % ys)
  | _ => p

/-- a move is legal iff it is one of the four directions and the cell it leads to is not a wall -/
def legal (s : State) (a : Nat) : Prop :=
  a < 4 ∧ free s.grid (target s.grid s.player a).1 (target s.grid s.player a).2
instance (s : State) (a : Nat) : Decidable (legal s a) := by unfold legal; infer_instance

/-- the last row/column mirrors the first one, so every tunnel has two open ends -/
def BorderSymmetric (g : IGrid) : Prop :=
  (∀ r, r < xSize g → Jx.Grid.get g 0 r (ySize g - 1) = Jx.Grid.get g 0 r 0) ∧
  (∀ c, c < ySize g → Jx.Grid.get g 0 (xSize g - 1) c = Jx.Grid.get g 0 0 c)

instance (g : IGrid) : Decidable (BorderSymmetric g) := by
  unfold BorderSymmetric
  have h1 : Decidable (∀ r, r < xSize g → Jx.Grid.get g 0 r (ySize g - 1) = Jx.Grid.get g 0 r 0) :=
    decidable_of_iff (∀ r ∈ List.range (xSize g), Jx.Grid.get g 0 r (ySize g - 1) = Jx.Grid.get g 0 r 0)
      (by simp [List.mem_range])
  have h2 : Decidable (∀ c, c < ySize g → Jx.Grid.get g 0 (xSize g - 1) c = Jx.Grid.get g 0 0 c) :=
    decidable_of_iff (∀ c ∈ List.range (ySize g), Jx.Grid.get g 0 (xSize g - 1) c = Jx.Grid.get g 0 0 c)
      (by simp [List.mem_range])
  infer_instance

def freeCR (g : IGrid) (c : CR) : Prop := free g c.2 c.1
instance (g : IGrid) (c : CR) : Decidable (freeCR g c) := by unfold freeCR; infer_instance

/-- the four neighbours of a ghost cell, with wrap-around -/
def neighbours (g : IGrid) (c : CR) : List CR :=
  let xs : Int := xSize g
  let ys : Int := ySize g
  [((c.1 - 1) % ys, c.2), (c.1, (c.2 - 1) % xs), ((c.1 + 1) % ys, c.2), (c.1, (c.2 + 1) % xs)]

/-- one ghost's move is admissible: it stays, or goes to a walkable neighbour; while its start
delay is running (`ghost_starts > 0`) it stays -/
def ghostMoveOK (g : IGrid) (cur path : CR) (start : Int) : Bool :=
  decide (path = cur) || (decide (start ≤ 0) && (neighbours g cur).contains path && decide (freeCR g path))

def validGhostDraw (s : State) (d : Draw) : Bool :=
  d.paths.length == s.ghosts.length && d.actions.length == s.ghosts.length &&
  (List.zipWith (fun (cp : CR × CR) st => ghostMoveOK s.grid cp.1 cp.2 st)
    (s.ghosts.zip d.paths) s.ghostStarts).all id &&
  s.ghostStarts.length == s.ghosts.length

/-- relation on an observed transition: every ghost stayed, moved to a walkable neighbour, or
returned to its origin -/
def ghostsRelOK (s s' : State) : Bool :=
  s'.ghosts.length == s.ghosts.length &&
  (List.zipWith (fun (cp : CR × CR) (og : CR) =>
      decide (cp.2 = og) || decide (cp.2 = cp.1) ||
      ((neighbours s.grid cp.1).contains cp.2 && decide (freeCR s.grid cp.2)))
    (s.ghosts.zip s'.ghosts) s.initGhosts).all id

def nonzero (locs : List CR) : List CR := locs.filter (· ≠ (0, 0))

/-- physical consistency: rectangular maze; player and ghosts (and the ghosts' origins) inside
the maze on free cells; four ghosts; remaining pellets and power-ups lie on free cells and, when
cell (0,0) is a wall, the pellet counter is the number of remaining pellets -/
def Consistent (s : State) : Prop :=
  Jx.Grid.shaped s.grid (xSize s.grid) (ySize s.grid) = true ∧ 0 < xSize s.grid ∧ 0 < ySize s.grid ∧
  free s.grid s.player.1 s.player.2 ∧
  s.ghosts.length = 4 ∧ s.initGhosts.length = 4 ∧ s.oldGhosts.length = 4 ∧ s.ghostStarts.length = 4 ∧
  s.ghostEaten.length = 4 ∧ s.ghostActions.length = 4 ∧ s.ghostInitSteps.length = 4 ∧
  (∀ c ∈ s.ghosts, freeCR s.grid c) ∧ (∀ c ∈ s.initGhosts, freeCR s.grid c) ∧
  (∀ c ∈ nonzero s.pelletLocs, freeCR s.grid c) ∧ (∀ c ∈ nonzero s.powerUps, freeCR s.grid c) ∧
  (Jx.Grid.get s.grid 1 0 0 = 0 → s.pellets = (nonzero s.pelletLocs).length)

instance (s : State) : Decidable (Consistent s) := by unfold Consistent; infer_instance

/-- C05: an illegal action leaves the player where it is, and nothing but what lies on the
player's own cell is eaten -/
def IllegalIgnored (s s' : State) : Prop :=
  s'.player = s.player ∧
  s'.pelletLocs = eatAt s.pelletLocs (crOfPlayer s.player) ∧
  s'.powerUps = eatAt s.powerUps (crOfPlayer s.player) ∧ s'.grid = s.grid
instance (s s' : State) : Decidable (IllegalIgnored s s') := by unfold IllegalIgnored; infer_instance

/-- C07 conserved / monotone quantities over a transition: the maze never changes, pellets and
power-ups only disappear (a location is unchanged or zeroed), the counter drops by at most one -/
def Conserved (s s' : State) : Prop :=
  s'.grid = s.grid ∧ s'.initGhosts = s.initGhosts ∧
  s'.pelletLocs.length = s.pelletLocs.length ∧ s'.powerUps.length = s.powerUps.length ∧
  (∀ p ∈ s.pelletLocs.zip s'.pelletLocs, p.2 = p.1 ∨ p.2 = (0, 0)) ∧
  (∀ p ∈ s.powerUps.zip s'.powerUps, p.2 = p.1 ∨ p.2 = (0, 0)) ∧
  (s'.pellets = s.pellets ∨ s'.pellets = s.pellets - 1)
instance (s s' : State) : Decidable (Conserved s s') := by unfold Conserved; infer_instance

/-- C10: the ASCII maze is well formed -/
def MazeOK (maze : List (List Char)) : Prop :=
  let p := parse maze
  Jx.Grid.shaped p.grid (xSize p.grid) (ySize p.grid) = true ∧ 0 < xSize p.grid ∧ 0 < ySize p.grid ∧
  (cellsWith maze (· = 'P')).length = 1 ∧ p.ghosts.length = 4 ∧ p.powerUps.length = 4 ∧
  p.scatter.length = 4 ∧ p.initTargets.length = 4
instance (maze : List (List Char)) : Decidable (MazeOK maze) := by unfold MazeOK; infer_instance

end PacMan
