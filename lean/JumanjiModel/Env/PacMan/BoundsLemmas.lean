/- Proofs of the C01 value bounds of PacMan. -/
import JumanjiModel.Env.PacMan.Bounds
import JumanjiModel.Env.PacMan.Lemmas
namespace PacMan
open Jm

theorem inIv_int {lo hi x : Int} (h1 : lo ≤ x) (h2 : x ≤ hi) : inIv (ivInt lo hi) (x : Rat) := by
  refine ⟨fun l hl => ?_, fun h hh => ?_⟩
  · simp only [ivInt, Option.some.injEq] at hl; subst hl; exact Rat.intCast_le_intCast.mpr h1
  · simp only [ivInt, Option.some.injEq] at hh; subst hh; exact Rat.intCast_le_intCast.mpr h2

theorem inIv_lo {x : Int} (h1 : 0 ≤ x) : inIv (some (0 : Rat), none) (x : Rat) := by
  refine ⟨fun l hl => ?_, fun h hh => ?_⟩
  · simp only [Option.some.injEq] at hl; subst hl
    have : ((0 : Int) : Rat) ≤ (x : Rat) := Rat.intCast_le_intCast.mpr h1
    simpa using this
  · simp at hh

theorem inIv_b2r (b : Bool) : inIv (ivInt 0 1) (b2r b) := by
  cases b
  · exact inIv_int (x := 0) (by omega) (by omega)
  · exact inIv_int (x := 1) (by omega) (by omega)

theorem inIv_bools (bs : List Bool) : ∀ v ∈ bs.map b2r, inIv (ivInt 0 1) v := by
  intro v hv
  obtain ⟨b, _, rfl⟩ := List.mem_map.mp hv
  exact inIv_b2r b

theorem inIv_ints {lo hi : Int} (xs : List Int) (h : ∀ x ∈ xs, lo ≤ x ∧ x ≤ hi) :
    ∀ v ∈ xs.map (fun (v : Int) => (v : Rat)), inIv (ivInt lo hi) v := by
  intro v hv
  obtain ⟨x, hx, rfl⟩ := List.mem_map.mp hv
  exact inIv_int (h x hx).1 (h x hx).2

theorem pairs_range {cfg : BCfg} {ps : List CR} (h : ∀ p ∈ ps, inMaze cfg p) :
    ∀ x ∈ ps.flatMap (fun p => [p.1, p.2]),
      (0 : Int) ≤ x ∧ x ≤ max (cfg.xSize : Int) (cfg.ySize : Int) - 1 := by
  intro x hx
  obtain ⟨p, hp, hxp⟩ := List.mem_flatMap.mp hx
  obtain ⟨a1, a2, a3, a4⟩ := h p hp
  simp only [List.mem_cons, List.not_mem_nil, or_false] at hxp
  rcases hxp with rfl | rfl <;> omega

theorem cells_range {g : IGrid} (h : BinaryCells g) : ∀ x ∈ List.flatten g, (0 : Int) ≤ x ∧ x ≤ 1 := by
  intro x hx
  rcases h x hx with rfl | rfl <;> omega

/-- the observation of a state satisfying the invariant whose counter is at most `time_limit` is within
bounds -/
theorem observe_in_bounds (cfg : BCfg) (s : State) (hi : BoundsInv cfg s) (h1 : s.stepCount ≤ cfg.timeLimit) :
    ObsInBounds cfg (observe s) := by
  obtain ⟨_, _, _, _, hbin, ⟨p1, p2, p3, p4⟩, hg, _, hpel, hpow, ⟨f1, f2⟩, hsc, _⟩ := hi
  intro k iv hk vs hvs v hv
  simp only [obsBounds, List.mem_cons, Prod.mk.injEq, List.not_mem_nil, or_false] at hk
  simp only [obsLeaves, observe, List.mem_cons, Prod.mk.injEq, List.not_mem_nil, or_false] at hvs
  rcases hk with ⟨rfl, rfl⟩ | ⟨rfl, rfl⟩ | ⟨rfl, rfl⟩ | ⟨rfl, rfl⟩ | ⟨rfl, rfl⟩ | ⟨rfl, rfl⟩ | ⟨rfl, rfl⟩ |
      ⟨rfl, rfl⟩ | ⟨rfl, rfl⟩ <;>
    rcases hvs with ⟨hk', rfl⟩ | ⟨hk', rfl⟩ | ⟨hk', rfl⟩ | ⟨hk', rfl⟩ | ⟨hk', rfl⟩ | ⟨hk', rfl⟩ | ⟨hk', rfl⟩ |
      ⟨hk', rfl⟩ | ⟨hk', rfl⟩ <;>
    first
    | (exfalso; revert hk'; decide)
    | (simp only [List.mem_singleton] at hv; subst hv; apply inIv_int <;> omega)
    | (simp only [List.mem_singleton] at hv; subst hv; exact inIv_lo hsc)
    | exact inIv_bools _ v hv
    | exact inIv_ints _ (cells_range hbin) v hv
    | exact inIv_ints _ (pairs_range hg) v hv
    | exact inIv_ints _ (pairs_range hpel) v hv
    | exact inIv_ints _ (pairs_range hpow) v hv

/-! ### the invariant is preserved by every step -/

theorem ghostCollision_pos (s : State) (np : Int × Int) (path og old : CR) (e : Bool) :
    (ghostCollision s np path og old e).pos = path ∨ (ghostCollision s np path og old e).pos = og := by
  unfold ghostCollision
  simp only []
  split
  · split
    · exact Or.inr rfl
    · exact Or.inl rfl
  · exact Or.inl rfl

theorem ghostCollisions_pos (s : State) (np : Int × Int) :
    ∀ (ps os qs : List CR) (es : List Bool), ∀ o ∈ ghostCollisions s np ps os qs es, o.pos ∈ ps ∨ o.pos ∈ os := by
  intro ps
  induction ps with
  | nil => intro os qs es o ho; simp [ghostCollisions] at ho
  | cons p ps ih =>
    intro os qs es o ho
    cases os with
    | nil => simp [ghostCollisions] at ho
    | cons o' os =>
      cases qs with
      | nil => simp [ghostCollisions] at ho
      | cons q qs =>
        cases es with
        | nil => simp [ghostCollisions] at ho
        | cons e es =>
          simp only [ghostCollisions, List.mem_cons] at ho
          rcases ho with rfl | ho
          · rcases ghostCollision_pos s np p o' q e with h | h
            · exact Or.inl (by rw [h]; exact List.mem_cons_self)
            · exact Or.inr (by rw [h]; exact List.mem_cons_self)
          · rcases ih os qs es o ho with h | h
            · exact Or.inl (List.mem_cons_of_mem _ h)
            · exact Or.inr (List.mem_cons_of_mem _ h)

theorem freeCR_inMaze {cfg : BCfg} {g : IGrid} (hx : xSize g = cfg.xSize) (hy : ySize g = cfg.ySize) {c : CR}
    (h : freeCR g c) : inMaze cfg c := by
  obtain ⟨h1, h2, h3, h4, _⟩ := h
  rw [hx] at h2; rw [hy] at h4
  exact ⟨h3, h4, h1, h2⟩

/-- an admissible ghost draw keeps every ghost inside the maze -/
theorem draw_inMaze {cfg : BCfg} {s : State} {d : Draw} (hx : xSize s.grid = cfg.xSize)
    (hy : ySize s.grid = cfg.ySize) (hg : ∀ c ∈ s.ghosts, inMaze cfg c) (hd : validGhostDraw s d = true) :
    ∀ p ∈ d.paths, inMaze cfg p := by
  unfold validGhostDraw at hd
  simp only [Bool.and_eq_true, beq_iff_eq, List.all_eq_true, id] at hd
  obtain ⟨⟨⟨hl1, _⟩, hall⟩, hl3⟩ := hd
  intro p hp
  obtain ⟨i, hi, hget⟩ := List.getElem_of_mem hp
  have hig : i < s.ghosts.length := by omega
  have his : i < s.ghostStarts.length := by omega
  have hiz : i < (s.ghosts.zip d.paths).length := by simp; omega
  have hmem : ghostMoveOK s.grid s.ghosts[i] d.paths[i] s.ghostStarts[i] ∈
      List.zipWith (fun (cp : CR × CR) st => ghostMoveOK s.grid cp.1 cp.2 st) (s.ghosts.zip d.paths) s.ghostStarts := by
    apply List.mem_iff_getElem.mpr
    refine ⟨i, by simp; omega, ?_⟩
    simp
  have hok := hall _ hmem
  unfold ghostMoveOK at hok
  simp only [Bool.or_eq_true, Bool.and_eq_true, decide_eq_true_eq] at hok
  rw [← hget]
  rcases hok with h | ⟨_, h⟩
  · rw [h]; exact hg _ (List.getElem_mem hig)
  · exact freeCR_inMaze hx hy h

theorem emod_range (a : Int) {n : Nat} (hn : 0 < n) : 0 ≤ a % (n : Int) ∧ a % (n : Int) < (n : Int) :=
  ⟨Int.emod_nonneg _ (by omega), Int.emod_lt_of_pos _ (by omega)⟩

theorem playerStep_range (g : IGrid) (p : Int × Int) (a : Int) (hx : 0 < xSize g) (hy : 0 < ySize g) :
    0 ≤ (playerStep g p a).1 ∧ (playerStep g p a).1 < (xSize g : Int) ∧
    0 ≤ (playerStep g p a).2 ∧ (playerStep g p a).2 < (ySize g : Int) := by
  unfold playerStep
  simp only []
  repeat' split
  all_goals exact ⟨(emod_range _ hx).1, (emod_range _ hx).2, (emod_range _ hy).1, (emod_range _ hy).2⟩

theorem eatAt_inMaze {cfg : BCfg} (h0 : 0 < cfg.xSize) (h1 : 0 < cfg.ySize) {locs : List CR} (pc : CR)
    (h : ∀ c ∈ locs, inMaze cfg c) : ∀ c ∈ eatAt locs pc, inMaze cfg c := by
  intro c hc
  unfold eatAt at hc
  obtain ⟨l, hl, rfl⟩ := List.mem_map.mp hc
  split
  · exact ⟨by simp, by simp; omega, by simp, by simp; omega⟩
  · exact h l hl

theorem foldl_add_nonneg (xs : List Rat) (h : ∀ x ∈ xs, 0 ≤ x) :
    ∀ acc : Rat, 0 ≤ acc → 0 ≤ xs.foldl (· + ·) acc := by
  induction xs with
  | nil => intro acc ha; simpa using ha
  | cons x xs ih =>
    intro acc ha
    simp only [List.foldl_cons]
    exact ih (fun y hy => h y (List.mem_cons_of_mem _ hy)) _
      (Rat.add_nonneg ha (h x List.mem_cons_self))

theorem ghostCollision_reward_nonneg (s : State) (np : Int × Int) (path og old : CR) (e : Bool) :
    0 ≤ (ghostCollision s np path og old e).reward := by
  unfold ghostCollision
  simp only []
  have h01 : (0 : Rat) ≤ (if e = true then (1 : Rat) else 0) := by split <;> decide
  apply Rat.mul_nonneg _ h01
  split
  · split
    · exact (by decide : (0 : Rat) ≤ 200)
    · exact (by decide : (0 : Rat) ≤ 0)
  · exact (by decide : (0 : Rat) ≤ 0)

theorem ghostCollisions_reward_nonneg (s : State) (np : Int × Int) :
    ∀ (ps os qs : List CR) (es : List Bool), ∀ o ∈ ghostCollisions s np ps os qs es, 0 ≤ o.reward := by
  intro ps
  induction ps with
  | nil => intro os qs es o ho; simp [ghostCollisions] at ho
  | cons p ps ih =>
    intro os qs es o ho
    cases os with
    | nil => simp [ghostCollisions] at ho
    | cons o' os =>
      cases qs with
      | nil => simp [ghostCollisions] at ho
      | cons q qs =>
        cases es with
        | nil => simp [ghostCollisions] at ho
        | cons e es =>
          simp only [ghostCollisions, List.mem_cons] at ho
          rcases ho with rfl | ho
          · exact ghostCollision_reward_nonneg s np p o' q e
          · exact ih os qs es o ho

/-- EVERY step (any action value) with an admissible ghost draw preserves the invariant -/
theorem step_boundsInv (cfg : BCfg) (tl : Int) (s : State) (a : Int) (d : Draw) (hi : BoundsInv cfg s)
    (hd : validGhostDraw s d = true) : BoundsInv cfg (step tl s a d).1 := by
  obtain ⟨hx, hy, hx0, hy0, hbin, hpl, hg, hig, hpel, hpow, ⟨f1, f2⟩, hsc, hst⟩ := hi
  have hnp : 0 ≤ (nextPlayer s a).1 ∧ (nextPlayer s a).1 < (cfg.xSize : Int) ∧
      0 ≤ (nextPlayer s a).2 ∧ (nextPlayer s a).2 < (cfg.ySize : Int) := by
    unfold nextPlayer
    simp only []
    split
    · have := playerStep_range s.grid s.player a (by omega) (by omega)
      rw [hx, hy] at this
      exact this
    · exact hpl
  refine ⟨hx, hy, hx0, hy0, hbin, hnp, ?_, hig, ?_, ?_, ?_, ?_, ?_⟩
  · intro c hc
    have hc' : c ∈ (ghostCollisions s (nextPlayer s a) d.paths s.initGhosts s.oldGhosts s.ghostEaten).map (·.pos) := hc
    obtain ⟨o, ho, rfl⟩ := List.mem_map.mp hc'
    rcases ghostCollisions_pos s _ _ _ _ _ o ho with h | h
    · exact draw_inMaze hx hy hg hd _ h
    · exact hig _ h
  · exact eatAt_inMaze hx0 hy0 _ hpel
  · exact eatAt_inMaze hx0 hy0 _ hpow
  · have hf : (step tl s a d).1.frightened =
        if s.powerUps.contains (crOfPlayer (nextPlayer s a)) = true then 30 else s.frightened - 1 := rfl
    have hc : (step tl s a d).1.stepCount = s.stepCount + 1 := rfl
    rw [hf, hc]
    split <;> omega
  · show 0 ≤ s.score + Rat.floor _
    have : (0 : Int) ≤ Rat.floor ((if s.pelletLocs.contains (crOfPlayer (nextPlayer s a)) = true then (10 : Rat) else 0) +
        (if s.powerUps.contains (crOfPlayer (nextPlayer s a)) = true then (50 : Rat) else 0) +
        sumRat ((ghostCollisions s (nextPlayer s a) d.paths s.initGhosts s.oldGhosts s.ghostEaten).map (·.reward))) := by
      apply Rat.le_floor_iff.mpr
      apply Rat.add_nonneg
      · apply Rat.add_nonneg
        · split <;> decide
        · split <;> decide
      · unfold sumRat
        apply foldl_add_nonneg _ _ 0 (by decide)
        intro x hxm
        obtain ⟨o, ho, rfl⟩ := List.mem_map.mp hxm
        exact ghostCollisions_reward_nonneg s _ _ _ _ _ o ho
    omega
  · show 0 ≤ s.stepCount + 1
    omega

theorem step_obs_in_bounds (cfg : BCfg) (s : State) (a : Int) (d : Draw) (hi : BoundsInv cfg s)
    (hd : validGhostDraw s d = true) (h1 : s.stepCount < cfg.timeLimit) :
    ObsInBounds cfg (step cfg.timeLimit s a d).2.obs := by
  rw [obs_faithful]
  apply observe_in_bounds cfg _ (step_boundsInv cfg cfg.timeLimit s a d hi hd)
  rw [(time_limit cfg.timeLimit s a d).1]; omega

theorem reset_obs_in_bounds (cfg : BCfg) (g : State) (hi : BoundsInv cfg g)
    (h1 : g.stepCount ≤ cfg.timeLimit) : ObsInBounds cfg (reset g).2.obs := by
  show ObsInBounds cfg (observe g)
  exact observe_in_bounds cfg g hi h1

/-- a consistent state on a 0/1 maze of the configured extents whose timer, score and counter are in range
satisfies the invariant -/
theorem boundsInv_of_consistent (cfg : BCfg) (s : State) (hC : Consistent s) (hbin : BinaryCells s.grid)
    (hx : xSize s.grid = cfg.xSize) (hy : ySize s.grid = cfg.ySize)
    (hf : -s.stepCount ≤ s.frightened ∧ s.frightened ≤ 30) (hsc : 0 ≤ s.score) (hst : 0 ≤ s.stepCount) :
    BoundsInv cfg s := by
  obtain ⟨_, hx0, hy0, hpl, _, _, _, _, _, _, _, hg, hig, hpel, hpow, _⟩ := hC
  have hz : inMaze cfg (0, 0) := ⟨by simp, by simp; omega, by simp, by simp; omega⟩
  have hnz : ∀ (locs : List CR), (∀ c ∈ nonzero locs, freeCR s.grid c) → ∀ c ∈ locs, inMaze cfg c := by
    intro locs h c hc
    by_cases h0 : c = (0, 0)
    · rw [h0]; exact hz
    · exact freeCR_inMaze hx hy (h c (List.mem_filter.mpr ⟨hc, by simpa using h0⟩))
  refine ⟨hx, hy, by omega, by omega, hbin, ?_, fun c hc => freeCR_inMaze hx hy (hg c hc),
    fun c hc => freeCR_inMaze hx hy (hig c hc), hnz _ hpel, hnz _ hpow, hf, hsc, hst⟩
  obtain ⟨h1, h2, h3, h4, _⟩ := hpl
  rw [hx] at h2; rw [hy] at h4
  exact ⟨h1, h2, h3, h4⟩

end PacMan
