/-
RubiksCube — C01: value bounds of the observation leaves (definitions; proofs in BoundsLemmas.lean).

Real spec: `cube` BoundedArray(int8, 0, 5) of shape (6, n, n), `step_count` BoundedArray(int32, 0, time_limit).
-/
import JumanjiModel.Env.RubiksCube.Model
import JumanjiModel.Env.PuzzleBounds
namespace RubiksCube
open Jm PzB

/-- interval of every observation leaf, as a function of the configuration -/
def obsBounds (cfg : Cfg) : Table := [("cube", iv 0 5), ("step_count", iv 0 cfg.timeLimit)]

/-- the numeric leaves of an observation, flattened -/
def obsLeaves (o : Obs) : Leaves := [("cube", ints3 o.cube), ("step_count", [o.stepCount])]

/-- every sticker carries one of the six face colours 0..5 -/
def ColoursInRange (c : Cube Int) : Prop := ∀ v ∈ c.flatten.flatten, 0 ≤ v ∧ v ≤ 5

instance (c : Cube Int) : Decidable (ColoursInRange c) := by unfold ColoursInRange; infer_instance

theorem obs_in_bounds (cfg : Cfg) (o : Obs) (h : ColoursInRange o.cube)
    (hs : 0 ≤ o.stepCount ∧ o.stepCount ≤ cfg.timeLimit) : ObsInBounds (obsBounds cfg) (obsLeaves o) := by
  refine ⟨by simp [obsBounds, obsLeaves], ?_⟩
  intro k b hk vs hvs
  simp only [obsBounds, obsLeaves, List.mem_cons, Prod.mk.injEq, List.not_mem_nil, or_false] at hk hvs
  rcases hk with ⟨rfl, rfl⟩ | ⟨rfl, rfl⟩ <;> rcases hvs with ⟨h', rfl⟩ | ⟨h', rfl⟩ <;>
    first
      | exact absurd h' (by decide)
      | exact allIn_ints _ _ _ h
      | exact allIn_single _ _ _ hs

end RubiksCube
