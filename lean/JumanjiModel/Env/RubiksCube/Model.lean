/-
RubiksCube (jumanji/environments/logic/rubiks_cube/{env,utils,reward,generator,constants}.py).  Import-free.

L1 = transliteration of `do_rotation`, the six `generate_*_move` index tables, `generate_all_moves`,
`flatten_action` / `unflatten_action`, `rotate_cube` (`lax.switch`, index clamped), `is_solved`,
`SparseRewardFn`, `scramble_solved_cube` and `RubiksCube.step`.  The move functions are polymorphic in the
sticker type (the implementation only moves data around), so they can be run on a cube whose stickers are
their own positions.

L2 = the physical cube, written from docs/environments/rubiks_cube.md (face order and orientation of each
face, clockwise = as seen when looking directly at the face) without looking at the index tables: every
sticker is a point of ℤ³ on the surface of the cube `[-n, n]³` (`emb`), a quarter turn of layer `d` of face
`f` is the 90° rotation about the outward normal of `f` applied to the points of that layer (`physTurn`),
and a move of the array is that rotation read through `emb` (`srcPos`, `applyMove`).
-/
import JumanjiModel.Prim.Idx
import JumanjiModel.Prim.Grid
import JumanjiModel.Core.TimeStep
namespace RubiksCube
open Jm Jx

/-- `(6, n, n)` array: face, row, column -/
abbrev Cube (α : Type) := List (Grid α)

/-! ## L1: transliteration of utils.py -/

section L1
variable {α : Type}

/-- `cube.shape[-1]` -/
def cubeSize (c : Cube α) : Nat := ((c.headD []).headD []).length

/-- `cube[f, r, k]` for in-range static indices (`none` outside) -/
def get3? (c : Cube α) (p : Nat × Nat × Nat) : Option α :=
  match c[p.1]? with
  | none => none
  | some g => match g[p.2.1]? with
    | none => none
    | some row => row[p.2.2]?

/-- `cube.at[f, r, k].set(v)` for in-range indices (dropped outside) -/
def set3 (c : Cube α) (p : Nat × Nat × Nat) (v : α) : Cube α :=
  match c[p.1]? with
  | none => c
  | some g => List.set c p.1 (Grid.set g p.2.1 p.2.2 v)

/-- the values of `CubeMovementAmount` in enumeration order: CLOCKWISE = 1, ANTI_CLOCKWISE = -1,
HALF_TURN = 2 -/
def amountValues : List Int := [1, -1, 2]

def zip3 (a b c : List Nat) : List (Nat × Nat × Nat) := List.zip a (List.zip b c)

/-- `do_rotation`.  `jnp.rot90(m, k=-amount)`: `k` is taken modulo 4 (`k = 3` is the clockwise quarter
turn of the array).  The gather `cube[adjacent_faces, rows, columns]` reads `4 n` stickers, `jnp.roll`
shifts them by `n * amount` (modulo `4 n`) and the scatter writes them back at the same (pairwise distinct)
places.  All index arrays are constants in `[0, n)` because `generate_all_moves` only uses
`depth < n // 2`, so no wrap/clamp case can arise. -/
def doRotation (cube : Cube α) (face : Nat) (amount : Int) (depth : Nat)
    (adjacentFaces cols rows : List Nat) : Cube α :=
  let n := cubeSize cube
  let cube1 := if depth = 0 then
      List.set cube face (Grid.rot90k (cube.getD face []) ((-amount) % 4).toNat)
    else cube
  let adj := adjacentFaces.flatMap (fun f => List.replicate n f)      -- jnp.repeat
  let idx := zip3 adj rows cols
  let strip := idx.filterMap (get3? cube1)
  let rolled := Jx.roll strip ((n * amount) % (4 * n)).toNat
  (List.zip idx rolled).foldl (fun cb pv => set3 cb pv.1 pv.2) cube1

def arange (n : Nat) : List Nat := List.range n
def flipRange (n : Nat) : List Nat := (List.range n).reverse       -- jnp.flip(jnp.arange(n))
def rep (v n : Nat) : List Nat := List.replicate n v               -- jnp.repeat(v, n)

/-- `generate_up_move` -/
def upMove (amount : Int) (depth : Nat) (cube : Cube α) : Cube α :=
  let n := cubeSize cube
  doRotation cube 0 amount depth [1, 4, 3, 2]
    (arange n ++ arange n ++ arange n ++ arange n)
    (rep depth n ++ rep depth n ++ rep depth n ++ rep depth n)

/-- `generate_front_move` -/
def frontMove (amount : Int) (depth : Nat) (cube : Cube α) : Cube α :=
  let n := cubeSize cube
  doRotation cube 1 amount depth [0, 2, 5, 4]
    (arange n ++ rep depth n ++ flipRange n ++ rep (n - 1 - depth) n)
    (rep (n - 1 - depth) n ++ arange n ++ rep depth n ++ flipRange n)

/-- `generate_right_move` -/
def rightMove (amount : Int) (depth : Nat) (cube : Cube α) : Cube α :=
  let n := cubeSize cube
  doRotation cube 2 amount depth [0, 3, 5, 1]
    (rep (n - 1 - depth) n ++ rep depth n ++ rep (n - 1 - depth) n ++ rep (n - 1 - depth) n)
    (flipRange n ++ arange n ++ flipRange n ++ flipRange n)

/-- `generate_back_move` -/
def backMove (amount : Int) (depth : Nat) (cube : Cube α) : Cube α :=
  let n := cubeSize cube
  doRotation cube 3 amount depth [0, 4, 5, 2]
    (flipRange n ++ rep depth n ++ arange n ++ rep (n - 1 - depth) n)
    (rep depth n ++ arange n ++ rep (n - 1 - depth) n ++ flipRange n)

/-- `generate_left_move` -/
def leftMove (amount : Int) (depth : Nat) (cube : Cube α) : Cube α :=
  let n := cubeSize cube
  doRotation cube 4 amount depth [0, 1, 5, 3]
    (rep depth n ++ rep depth n ++ rep depth n ++ rep (n - 1 - depth) n)
    (arange n ++ arange n ++ arange n ++ flipRange n)

/-- `generate_down_move` -/
def downMove (amount : Int) (depth : Nat) (cube : Cube α) : Cube α :=
  let n := cubeSize cube
  doRotation cube 5 amount depth [1, 2, 3, 4]
    (arange n ++ arange n ++ arange n ++ arange n)
    (rep (n - 1 - depth) n ++ rep (n - 1 - depth) n ++ rep (n - 1 - depth) n ++ rep (n - 1 - depth) n)

/-- `generate_all_moves`: `for f in [up, front, right, back, left, down] for depth in range(n // 2)
for amount in CubeMovementAmount` -/
def allMoves (n : Nat) : List (Cube α → Cube α) :=
  [upMove, frontMove, rightMove, backMove, leftMove, downMove].flatMap (fun f =>
    (List.range (n / 2)).flatMap (fun depth => amountValues.map (fun amount => f amount depth)))

/-- `rotate_cube`: `jax.lax.switch(flattened_action, all_moves, cube)`; `lax.switch` clamps the index into
`[0, len - 1]` -/
def rotateCube (cube : Cube α) (flat : Int) : Cube α :=
  let moves : List (Cube α → Cube α) := allMoves (cubeSize cube)
  let i : Nat := if flat < 0 then 0 else if flat ≥ (moves.length : Int) then moves.length - 1 else flat.toNat
  (moves.getD i id) cube

end L1

/-- `flatten_action`: `face * 3 * (n // 2) + depth * 3 + amount` -/
def flattenAction (n : Nat) (a : Int × Int × Int) : Int :=
  a.1 * 3 * ((n / 2 : Nat) : Int) + a.2.1 * 3 + a.2.2

/-- `unflatten_action`: `divmod(flat, 3)` then `divmod(·, n // 2)` (floor division) -/
def unflattenAction (n : Nat) (flat : Int) : Int × Int × Int :=
  let faceAndDepth := flat / 3
  let amount := flat % 3
  (faceAndDepth / ((n / 2 : Nat) : Int), faceAndDepth % ((n / 2 : Nat) : Int), amount)

/-- `make_solved_cube`: face `f` filled with `f` -/
def solvedCube (n : Nat) : Cube Int :=
  (List.range 6).map (fun (f : Nat) => List.replicate n (List.replicate n (f : Int)))

def maxL (xs : List Int) : Int := xs.foldl max (xs.headD 0)
def minL (xs : List Int) : Int := xs.foldl min (xs.headD 0)

/-- `is_solved`: `array_equal(max over each face, min over each face)` -/
def isSolved (c : Cube Int) : Bool :=
  c.map (fun g => maxL g.flatten) == c.map (fun g => minL g.flatten)

/-- `scramble_solved_cube`: `lax.scan` of `rotate_cube` over the flat actions from the solved cube -/
def scramble (n : Nat) (flats : List Int) : Cube Int :=
  flats.foldl rotateCube (solvedCube n)

structure State where
  cube : Cube Int
  stepCount : Int
  deriving Repr, DecidableEq

structure Obs where
  cube : Cube Int
  stepCount : Int
  deriving Repr, DecidableEq

structure Cfg where
  n : Nat
  timeLimit : Int
  deriving Repr

/-- `_state_to_observation` -/
def observe (s : State) : Obs := { cube := s.cube, stepCount := s.stepCount }

/-- `SparseRewardFn` -/
def sparseReward (s : State) : Rat := if isSolved s.cube then 1 else 0

/-- `RubiksCube.step` -/
def step (cfg : Cfg) (s : State) (a : Int × Int × Int) : State × TimeStep Obs :=
  let flat := flattenAction cfg.n a
  let cube := rotateCube s.cube flat
  let stepCount := s.stepCount + 1
  let next : State := { cube := cube, stepCount := stepCount }
  let reward := sparseReward next
  let solved := isSolved cube
  let done := decide (stepCount ≥ cfg.timeLimit) || solved
  (next, condLast done [reward] (observe next))

/-- `Generator.__call__` after the scramble actions have been drawn -/
def genState (n : Nat) (flats : List Int) : State := { cube := scramble n flats, stepCount := 0 }

/-- `RubiksCube.reset` after the scramble actions have been drawn: the generated state and
`restart(observation=_state_to_observation(state))` -/
def reset (cfg : Cfg) (flats : List Int) : State × TimeStep Obs :=
  let s := genState cfg.n flats
  (s, restart (observe s))

/-- an episode without auto-reset: `step` iterated over the action list; every (successor state, timestep) is listed and,
like the implementation, stepping simply continues after LAST -/
def run (cfg : Cfg) : State → List (Int × Int × Int) → List (State × TimeStep Obs)
  | _, [] => []
  | s, a :: as => step cfg s a :: run cfg (step cfg s a).1 as

/-! ## L2: the physical cube -/

/-- a sticker position of the array: face (0 up, 1 front, 2 right, 3 back, 4 left, 5 down), row, column -/
structure Pos where
  f : Nat
  r : Nat
  c : Nat
  deriving Repr, DecidableEq, Inhabited

structure V3 where
  x : Int
  y : Int
  z : Int
  deriving Repr, DecidableEq

def Pos.Valid (n : Nat) (p : Pos) : Prop := p.f < 6 ∧ p.r < n ∧ p.c < n
instance (n : Nat) (p : Pos) : Decidable (p.Valid n) := by unfold Pos.Valid; infer_instance

/-- centred, doubled coordinate of index `i` of `0 … n-1`: `-(n-1), -(n-1)+2, …, n-1` -/
def ctr (n : Nat) (i : Nat) : Int := 2 * (i : Int) - ((n : Int) - 1)

/-- The centre of the sticker at array position `p`, in the frame x → right face, y → up face,
z → front face; the cube is `[-n, n]³` and a sticker lies on the face plane (`± n`).  Orientation of the
faces as documented: UP is read with LEFT on the left and BACK pointing up, FRONT/RIGHT/BACK/LEFT with UP
pointing up and resp. LEFT/FRONT/RIGHT/BACK on the left, DOWN with LEFT on the left and FRONT pointing up. -/
def emb (n : Nat) (p : Pos) : V3 :=
  match p.f with
  | 0 => ⟨ctr n p.c, n, ctr n p.r⟩
  | 1 => ⟨ctr n p.c, -ctr n p.r, n⟩
  | 2 => ⟨n, -ctr n p.r, -ctr n p.c⟩
  | 3 => ⟨-ctr n p.c, -ctr n p.r, -n⟩
  | 4 => ⟨-n, -ctr n p.r, ctr n p.c⟩
  | _ => ⟨ctr n p.c, -n, -ctr n p.r⟩

/-- index of a centred coordinate -/
def unctr (n : Nat) (t : Int) : Nat := ((t + ((n : Int) - 1)) / 2).toNat

/-- the array position of a surface point (inverse of `emb`) -/
def unemb (n : Nat) (v : V3) : Pos :=
  if v.y = n then ⟨0, unctr n v.z, unctr n v.x⟩
  else if v.z = n then ⟨1, unctr n (-v.y), unctr n v.x⟩
  else if v.x = n then ⟨2, unctr n (-v.y), unctr n (-v.z)⟩
  else if v.z = -n then ⟨3, unctr n (-v.y), unctr n (-v.x)⟩
  else if v.x = -n then ⟨4, unctr n (-v.y), unctr n v.z⟩
  else ⟨5, unctr n (-v.z), unctr n v.x⟩

/-- quarter turn about the outward normal of face `f`, clockwise for somebody looking directly at `f`
(rotation by −90° about the normal: `v ↦ v × a + a (a · v)`) -/
def cwTurn (f : Nat) (v : V3) : V3 :=
  match f with
  | 0 => ⟨-v.z, v.y, v.x⟩      -- up, normal +y
  | 1 => ⟨v.y, -v.x, v.z⟩      -- front, normal +z
  | 2 => ⟨v.x, v.z, -v.y⟩      -- right, normal +x
  | 3 => ⟨-v.y, v.x, v.z⟩      -- back, normal −z
  | 4 => ⟨v.x, -v.z, v.y⟩      -- left, normal −x
  | _ => ⟨v.z, v.y, -v.x⟩      -- down, normal −y

/-- coordinate along the outward normal of face `f` -/
def height (f : Nat) (v : V3) : Int :=
  match f with
  | 0 => v.y | 1 => v.z | 2 => v.x | 3 => -v.z | 4 => -v.x | _ => -v.y

/-- the stickers carried by layer `d` of face `f` (`d = 0` is the outer layer): those on the sides of the
slice of cubies at depth `d`, plus the stickers of the face itself for the outer layer -/
def inLayer (n : Nat) (f d : Nat) (v : V3) : Prop :=
  height f v = (n : Int) - 1 - 2 * d ∨ (d = 0 ∧ height f v = n)
instance (n f d : Nat) (v : V3) : Decidable (inLayer n f d v) := by unfold inLayer; infer_instance

def iter {β : Type} (g : β → β) : Nat → β → β
  | 0, x => x
  | k + 1, x => g (iter g k x)

/-- number of clockwise quarter turns of a direction index: 0 clockwise, 1 anticlockwise, 2 half turn -/
def quarterTurns (amt : Nat) : Nat := match amt with | 0 => 1 | 1 => 3 | _ => 2

/-- where the physical move (face `f`, layer `d`, direction `amt`) takes a surface point -/
def physTurn (n f d amt : Nat) (v : V3) : V3 :=
  if inLayer n f d v then iter (cwTurn f) (quarterTurns amt) v else v

/-- the opposite direction: clockwise ↔ anticlockwise, half turn ↔ half turn -/
def invAmt (amt : Nat) : Nat := match amt with | 0 => 1 | 1 => 0 | _ => 2

/-- the position whose sticker ends up at `p`: after the move, the sticker at `p` is the one that was at
`srcPos … p` (the physical move in the opposite direction, read through `emb`) -/
def srcPos (n f d amt : Nat) (p : Pos) : Pos := unemb n (physTurn n f d (invAmt amt) (emb n p))

/-- where the sticker at `p` goes -/
def dstPos (n f d amt : Nat) (p : Pos) : Pos := unemb n (physTurn n f d amt (emb n p))

section L2
variable {α : Type}

/-- the sticker at `p` (`dflt` outside the array) -/
def getP (dflt : α) (c : Cube α) (p : Pos) : α := ((c.getD p.f []).getD p.r []).getD p.c dflt

/-- the `(6, n, n)` array with `g p` at position `p` -/
def tabulate (n : Nat) (g : Pos → α) : Cube α :=
  (List.range 6).map (fun f => (List.range n).map (fun r => (List.range n).map (fun c => g ⟨f, r, c⟩)))

/-- all positions of the array in row-major order -/
def allPos (n : Nat) : List Pos :=
  (List.range 6).flatMap (fun f => (List.range n).flatMap (fun r => (List.range n).map (fun c => ⟨f, r, c⟩)))

/-- a `(6, n, n)` array -/
def Shaped (n : Nat) (c : Cube α) : Prop :=
  List.length c = 6 ∧ ∀ g ∈ c, List.length g = n ∧ ∀ row ∈ g, List.length row = n
def shapedB (n : Nat) (c : Cube α) : Bool :=
  List.length c == 6 && List.all c (fun g => List.length g == n && List.all g (fun row => List.length row == n))

/-- the move applied to a colouring: every position receives the sticker the physical move brings there -/
def applyMove [Inhabited α] (n f d amt : Nat) (c : Cube α) : Cube α :=
  tabulate n (fun p => getP default c (srcPos n f d amt p))

end L2

/-- an action of the action space `MultiDiscrete [6, n // 2, 3]` -/
structure Move where
  face : Nat
  depth : Nat
  amt : Nat
  deriving Repr, DecidableEq

/-- every action of the action space is legal (there is no mask) -/
def legal (n : Nat) (m : Move) : Prop := m.face < 6 ∧ m.depth < n / 2 ∧ m.amt < 3
instance (n : Nat) (m : Move) : Decidable (legal n m) := by unfold legal; infer_instance

def Move.inv (m : Move) : Move := { m with amt := invAmt m.amt }

/-- flat index of a move and back (rule level, on naturals) -/
def Move.flat (n : Nat) (m : Move) : Nat := m.face * 3 * (n / 2) + m.depth * 3 + m.amt
def Move.ofFlat (n : Nat) (i : Nat) : Move := ⟨i / 3 / (n / 2), i / 3 % (n / 2), i % 3⟩

def move {α : Type} [Inhabited α] (n : Nat) (c : Cube α) (m : Move) : Cube α := applyMove n m.face m.depth m.amt c

def playMoves {α : Type} [Inhabited α] (n : Nat) (c : Cube α) (ms : List Move) : Cube α := ms.foldl (move n) c

/-- the goal: face `f` entirely of colour `f` -/
def goal (n : Nat) : Cube Int := tabulate n (fun p => (p.f : Int))

/-- solved = every face is of one colour -/
def Monochrome (n : Nat) (c : Cube Int) : Prop :=
  ∀ p ∈ allPos n, getP 0 c p = getP 0 c ⟨p.f, 0, 0⟩
instance (n : Nat) (c : Cube Int) : Decidable (Monochrome n c) := by unfold Monochrome; infer_instance

/-- reachable from the goal by legal moves / solvable back to the goal by legal moves -/
def Reachable (n : Nat) (c : Cube Int) : Prop := ∃ ms : List Move, (∀ m ∈ ms, legal n m) ∧ playMoves n (goal n) ms = c
def Solvable (n : Nat) (c : Cube Int) : Prop := ∃ ms : List Move, (∀ m ∈ ms, legal n m) ∧ playMoves n c ms = goal n

/-- the move sequence undoing `ms` -/
def invMoves (ms : List Move) : List Move := (ms.map Move.inv).reverse

/-- rule-level step: turn the layer, count the step, reward 1 iff solved, LAST iff solved or time is up -/
def stepL2 (cfg : Cfg) (s : State) (m : Move) : State × TimeStep Obs :=
  let cube := move cfg.n s.cube m
  let next : State := { cube := cube, stepCount := s.stepCount + 1 }
  let solved := decide (Monochrome cfg.n cube)
  let r : Rat := if solved then 1 else 0
  let o : Obs := { cube := cube, stepCount := s.stepCount + 1 }
  (next, if solved || decide (cfg.timeLimit ≤ s.stepCount + 1) then termination [r] o else transition [r] o)

/-- every colour `0 … 5` occurs exactly `n²` times -/
def colourCountsOK (n : Nat) (c : Cube Int) : Bool :=
  (List.range 6).all (fun k => ((c.flatten.flatten).count (k : Int)) == n * n) &&
  (c.flatten.flatten).length == 6 * n * n

/-- same multiset of stickers -/
def sameStickers (c c' : Cube Int) : Bool :=
  let a := c.flatten.flatten
  let b := c'.flatten.flatten
  a.length == b.length && a.all (fun x => a.count x == b.count x)

/-- the cube whose stickers are their own positions (all distinct) -/
def labelCube (n : Nat) : Cube Pos := tabulate n id

/-- the cube whose stickers are their own flat indices `f n² + r n + c` -/
def indexCube (n : Nat) : Cube Int := tabulate n (fun p => ((p.f * n * n + p.r * n + p.c : Nat) : Int))

end RubiksCube
