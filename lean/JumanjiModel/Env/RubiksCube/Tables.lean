/-
RubiksCube: the L1 transliteration of the index tables of utils.py is the physical move, for the cube sizes
2 … 7 named by property C17.  For each size the kernel evaluates all 18·⌊n/2⌋ L1 moves on the cube whose
stickers are their own positions (List-encoded, `decide +kernel`) and compares with the table of the physical
source map; naturality of the L1 moves in the sticker type (`rotateCube_mapC`, all sizes) extends this to every
colouring.
-/
import JumanjiModel.Env.RubiksCube.Lemmas
namespace RubiksCube

theorem tableOK_2 : tableOK 2 = true := by decide +kernel
theorem tableOK_3 : tableOK 3 = true := by decide +kernel
theorem tableOK_4 : tableOK 4 = true := by decide +kernel
theorem tableOK_5 : tableOK 5 = true := by decide +kernel
theorem tableOK_6 : tableOK 6 = true := by decide +kernel
theorem tableOK_7 : tableOK 7 = true := by decide +kernel

theorem tableOK_of_size {n : Nat} (h : 2 ≤ n ∧ n ≤ 7) : tableOK n = true := by
  obtain ⟨h1, h2⟩ := h
  have : n = 2 ∨ n = 3 ∨ n = 4 ∨ n = 5 ∨ n = 6 ∨ n = 7 := by omega
  rcases this with rfl | rfl | rfl | rfl | rfl | rfl
  · exact tableOK_2
  · exact tableOK_3
  · exact tableOK_4
  · exact tableOK_5
  · exact tableOK_6
  · exact tableOK_7

end RubiksCube
