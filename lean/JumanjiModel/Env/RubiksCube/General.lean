/-
RubiksCube, ALL cube sizes: the L1 transliteration of utils.py (`rotateCube`: index tables, `rot90`, gather, `roll`,
scatter, `lax.switch` over `generate_all_moves`) is the physical move of the L2 model.

Plan: (1) the L1 primitives evaluated on tabulated arrays (`rot90k_tab2`, `set3_tabulate`, `gather_tabulate`,
`roll_four`, `scatterFn`); (2) `doRotation_tabulate`: `do_rotation` for a strip given as four blocks `τ k j`;
(3) the six index tables as data (`spec`, `strip`, `idx_eq`; the moves are `specMove f` by `rfl`); (4) geometry of
the strips: block `k+1` is block `k` turned clockwise (`strip_turn`), the face itself turns as `(r,c) ↦ (c,n-1-r)`
(`face_turn`), every other sticker is outside the layer (`outside_layer`); (5) `specMove_tabulate`,
`rotateCube_tabulate`, `tableOK_all`.
-/
import JumanjiModel.Env.RubiksCube.Lemmas
namespace RubiksCube
open Jm Jx

/-! ## general cube size: evaluating the L1 primitives on tabulated arrays -/
section tab
variable {α : Type}

theorem set_map_range {β : Type} (F : Nat → β) {m i : Nat} (v : β) :
    List.set ((List.range m).map F) i v = (List.range m).map (fun j => if j = i then v else F j) := by
  apply List.ext_getElem
  · simp
  · intro j h1 h2
    simp only [List.getElem_set, List.getElem_map, List.getElem_range]
    split
    · rename_i h; simp [h]
    · rename_i h; have : ¬ j = i := fun e => h e.symm
      simp [this]

theorem reverse_map_range {β : Type} (F : Nat → β) (m : Nat) :
    ((List.range m).map F).reverse = (List.range m).map (fun j => F (m - 1 - j)) := by
  apply List.ext_getElem
  · simp
  · intro j h1 h2
    simp at h1
    simp [List.getElem_reverse]

theorem map_range_congr {β : Type} {F G : Nat → β} {m : Nat} (h : ∀ j, j < m → F j = G j) :
    (List.range m).map F = (List.range m).map G :=
  List.map_congr_left (fun j hj => h j (List.mem_range.1 hj))

/-- 2-D tabulation -/
def tab2 (n : Nat) (h : Nat → Nat → α) : Grid α := (List.range n).map (fun r => (List.range n).map (fun k => h r k))

theorem transpose_tab2 {n : Nat} (hn : 0 < n) (h : Nat → Nat → α) :
    Grid.transpose (tab2 n h) = tab2 n (fun r k => h k r) := by
  have hlen : (tab2 n h).length = n := by simp [tab2]
  match hG : tab2 n h with
  | [] => rw [hG] at hlen; simp at hlen; omega
  | r0 :: t =>
    have h0 : r0.length = n := by
      have : (tab2 n h)[0]'(by omega) = r0 := by simp [hG]
      rw [← this]; simp [tab2]
    simp only [Grid.transpose, h0]
    rw [← hG]
    unfold tab2
    apply map_range_congr
    intro c hc
    rw [List.filterMap_map]
    have : (fun row : List α => row[c]?) ∘ (fun r => List.map (fun k => h r k) (List.range n)) =
        fun r => some (h r c) := by
      funext r; simp [hc]
    rw [this]
    simp [List.filterMap_eq_map, Function.comp_def]

theorem rot90_tab2 {n : Nat} (hn : 0 < n) (h : Nat → Nat → α) :
    Grid.rot90 (tab2 n h) = tab2 n (fun r k => h k (n - 1 - r)) := by
  unfold Grid.rot90; rw [transpose_tab2 hn]; unfold tab2; rw [reverse_map_range]

theorem tab2_congr {n : Nat} {h h' : Nat → Nat → α} (e : ∀ r k, r < n → k < n → h r k = h' r k) :
    tab2 n h = tab2 n h' := by
  unfold tab2
  exact map_range_congr (fun r hr => map_range_congr (fun k hk => e r k hr hk))

/-- `rot90k` for the three values used: 1 (anticlockwise array rotation), 2, 3 (clockwise) -/
theorem rot90k_tab2 {n : Nat} (hn : 0 < n) (h : Nat → Nat → α) :
    Grid.rot90k (tab2 n h) 1 = tab2 n (fun r k => h k (n - 1 - r)) ∧
    Grid.rot90k (tab2 n h) 2 = tab2 n (fun r k => h (n - 1 - r) (n - 1 - k)) ∧
    Grid.rot90k (tab2 n h) 3 = tab2 n (fun r k => h (n - 1 - k) r) := by
  have e1 : Grid.rot90k (tab2 n h) 1 = tab2 n (fun r k => h k (n - 1 - r)) := by
    simp only [Grid.rot90k]; exact rot90_tab2 hn h
  have e2 : Grid.rot90k (tab2 n h) 2 = tab2 n (fun r k => h (n - 1 - r) (n - 1 - k)) := by
    show Grid.rot90 (Grid.rot90k (tab2 n h) 1) = _
    rw [e1, rot90_tab2 hn]
  refine ⟨e1, e2, ?_⟩
  show Grid.rot90 (Grid.rot90k (tab2 n h) 2) = _
  rw [e2, rot90_tab2 hn]
  apply tab2_congr
  intro r k hr hk
  congr 1; omega

theorem tabulate_eq_tab2 (n : Nat) (g : Pos → α) :
    tabulate n g = (List.range 6).map (fun f => tab2 n (fun r k => g ⟨f, r, k⟩)) := rfl

theorem cubeSize_tabulate {n : Nat} (hn : 0 < n) (g : Pos → α) : cubeSize (tabulate n g) = n := by
  obtain ⟨m, rfl⟩ : ∃ m, n = m + 1 := ⟨n - 1, by omega⟩
  unfold cubeSize tabulate
  rw [List.range_succ_eq_map (n := 5), List.range_succ_eq_map (n := m)]
  simp

def toPos (q : Nat × Nat × Nat) : Pos := ⟨q.1, q.2.1, q.2.2⟩
def ofPos (p : Pos) : Nat × Nat × Nat := (p.f, p.r, p.c)

theorem get3?_tabulate {n : Nat} (g : Pos → α) {p : Pos} (h : p.Valid n) :
    get3? (tabulate n g) (ofPos p) = some (g p) := by
  obtain ⟨f, r, c⟩ := p
  obtain ⟨hf, hr, hc⟩ := h
  simp only at hf hr hc
  simp [get3?, ofPos, tabulate, hf, hr, hc]

theorem set3_tabulate [DecidableEq Pos] {n : Nat} (g : Pos → α) {q : Pos} (h : q.Valid n) (v : α) :
    set3 (tabulate n g) (ofPos q) v = tabulate n (fun p => if p = q then v else g p) := by
  obtain ⟨f, r, c⟩ := q
  obtain ⟨hf, hr, hc⟩ := h
  simp only at hf hr hc
  unfold set3 Grid.set
  simp only [ofPos, tabulate, List.getElem?_map, List.getElem?_range hf, List.getElem?_range hr, Option.map_some]
  rw [set_map_range, set_map_range, set_map_range]
  apply map_range_congr; intro f' hf'
  split
  · rename_i e; subst e
    apply map_range_congr; intro r' hr'
    split
    · rename_i e; subst e
      apply map_range_congr; intro c' hc'
      split
      · rename_i e; subst e; simp
      · rename_i e; simp [e]
    · rename_i e
      apply map_range_congr; intro c' hc'
      simp [e]
  · rename_i e
    apply map_range_congr; intro r' hr'
    apply map_range_congr; intro c' hc'
    simp [e]

/-- replacing face `face` of a tabulated cube by a tabulated grid -/
theorem setFace_tabulate {n face : Nat} (g : Pos → α) (h : Nat → Nat → α) :
    List.set (tabulate n g) face (tab2 n h) = tabulate n (fun p => if p.f = face then h p.r p.c else g p) := by
  rw [tabulate_eq_tab2, set_map_range, tabulate_eq_tab2]
  apply map_range_congr; intro f _
  split
  · rename_i e; simp [e]
  · rename_i e; simp [e]

theorem getD_tabulate {n face : Nat} (hf : face < 6) (g : Pos → α) :
    (tabulate n g).getD face [] = tab2 n (fun r k => g ⟨face, r, k⟩) := by
  rw [tabulate_eq_tab2]; simp [List.getD_eq_getElem?_getD, hf]

end tab

section scatter
variable {α : Type}

/-- the effect of a scatter (`.at[idx].set(vals)`, later writes win) as a function on positions -/
def scatterFn : List Pos → List α → (Pos → α) → Pos → α
  | q :: idx, v :: vals, h => scatterFn idx vals (fun p => if p = q then v else h p)
  | [], _, h => h
  | _ :: _, [], h => h

theorem foldl_set3_tabulate {n : Nat} (idx : List Pos) (hv : ∀ q ∈ idx, q.Valid n) (vals : List α) (h : Pos → α) :
    (List.zip (idx.map ofPos) vals).foldl (fun cb pv => set3 cb pv.1 pv.2) (tabulate n h) =
      tabulate n (scatterFn idx vals h) := by
  induction idx generalizing vals h with
  | nil => simp [scatterFn]
  | cons q t ih =>
    cases vals with
    | nil => simp [scatterFn]
    | cons v vs =>
      simp only [List.map_cons, List.zip_cons_cons, List.foldl_cons, scatterFn]
      rw [set3_tabulate h (hv q (by simp))]
      exact ih (fun q' hq' => hv q' (by simp [hq'])) vs _

theorem scatterFn_not_mem (idx : List Pos) (vals : List α) (h : Pos → α) {p : Pos} (hp : p ∉ idx) :
    scatterFn idx vals h p = h p := by
  induction idx generalizing vals h with
  | nil => simp [scatterFn]
  | cons q t ih =>
    cases vals with
    | nil => simp [scatterFn]
    | cons v vs =>
      simp only [scatterFn]
      rw [ih vs _ (fun hm => hp (by simp [hm]))]
      have : p ≠ q := fun e => hp (by simp [e])
      simp [this]

theorem scatterFn_append (idx idx' : List Pos) (vals vals' : List α) (h : Pos → α) (hl : idx.length = vals.length) :
    scatterFn (idx ++ idx') (vals ++ vals') h = scatterFn idx' vals' (scatterFn idx vals h) := by
  induction idx generalizing vals h with
  | nil => cases vals with
    | nil => simp [scatterFn]
    | cons _ _ => simp at hl
  | cons q t ih => cases vals with
    | nil => simp at hl
    | cons v vs =>
      simp only [List.cons_append, scatterFn]
      exact ih vs _ (by simpa using hl)

theorem scatterFn_getElem (idx : List Pos) (hn : idx.Nodup) (vals : List α) (h : Pos → α) {i : Nat}
    (hi : i < idx.length) (hi' : i < vals.length) : scatterFn idx vals h idx[i] = vals[i] := by
  induction idx generalizing vals h i with
  | nil => simp at hi
  | cons q t ih =>
    cases vals with
    | nil => simp at hi'
    | cons v vs =>
      simp only [scatterFn]
      rw [List.nodup_cons] at hn
      cases i with
      | zero =>
        simp only [List.getElem_cons_zero]
        rw [scatterFn_not_mem t vs _ hn.1]; simp
      | succ i => simpa using ih hn.2 vs _ (by simpa using hi) (by simpa using hi')

/-- a segment `σ 0, …, σ (n-1)` written with values `β 0, …, β (n-1)` -/
theorem scatterFn_seg {n : Nat} (σ : Nat → Pos) (β : Nat → α) (h : Pos → α)
    (inj : ∀ i j, i < n → j < n → σ i = σ j → i = j) :
    (∀ j, j < n → scatterFn ((List.range n).map σ) ((List.range n).map β) h (σ j) = β j) ∧
    (∀ p, (∀ j, j < n → σ j ≠ p) → scatterFn ((List.range n).map σ) ((List.range n).map β) h p = h p) := by
  constructor
  · intro j hj
    have hn : ((List.range n).map σ).Nodup := by
      unfold List.Nodup; rw [List.pairwise_map]
      refine List.Pairwise.imp_of_mem ?_ (List.nodup_range (n := n))
      intro a b ha hb hab e
      exact hab (inj a b (List.mem_range.1 ha) (List.mem_range.1 hb) e)
    have := scatterFn_getElem _ hn ((List.range n).map β) h (i := j) (by simpa using hj) (by simpa using hj)
    simpa using this
  · intro p hp
    apply scatterFn_not_mem
    simp only [List.mem_map, List.mem_range, not_exists, not_and]
    intro j hj; exact hp j hj

theorem gather_tabulate {n : Nat} (idx : List Pos) (hv : ∀ q ∈ idx, q.Valid n) (h : Pos → α) :
    (idx.map ofPos).filterMap (get3? (tabulate n h)) = idx.map h := by
  induction idx with
  | nil => rfl
  | cons q t ih =>
    simp only [List.map_cons, List.filterMap_cons, get3?_tabulate h (hv q (by simp))]
    rw [ih (fun q' hq' => hv q' (by simp [hq']))]

/-- rolling four blocks of equal length `n` by `s` blocks -/
theorem roll_four {n : Nat} (hn : 0 < n) (a0 a1 a2 a3 : List α) (h0 : a0.length = n) (h1 : a1.length = n)
    (h2 : a2.length = n) (h3 : a3.length = n) :
    Jx.roll (a0 ++ a1 ++ a2 ++ a3) n = a3 ++ a0 ++ a1 ++ a2 ∧
    Jx.roll (a0 ++ a1 ++ a2 ++ a3) (2 * n) = a2 ++ a3 ++ a0 ++ a1 ∧
    Jx.roll (a0 ++ a1 ++ a2 ++ a3) (3 * n) = a1 ++ a2 ++ a3 ++ a0 := by
  have hl : (a0 ++ a1 ++ a2 ++ a3).length = 4 * n := by simp [h0, h1, h2, h3]; omega
  have hne : ¬ 4 * n = 0 := by omega
  refine ⟨?_, ?_, ?_⟩
  · unfold Jx.roll
    simp only [hl, hne, if_false, Nat.mod_eq_of_lt (show n < 4 * n by omega)]
    have e : 4 * n - n = (a0 ++ a1 ++ a2).length := by simp [h0, h1, h2]; omega
    rw [e, List.drop_left, List.take_left]
    simp
  · unfold Jx.roll
    simp only [hl, hne, if_false, Nat.mod_eq_of_lt (show 2 * n < 4 * n by omega)]
    have e : 4 * n - 2 * n = (a0 ++ a1).length := by simp [h0, h1]; omega
    rw [e, List.append_assoc (a0 ++ a1), List.drop_left, List.take_left]
    simp
  · unfold Jx.roll
    simp only [hl, hne, if_false, Nat.mod_eq_of_lt (show 3 * n < 4 * n by omega)]
    have e : 4 * n - 3 * n = a0.length := by simp [h0]; omega
    rw [e, List.append_assoc a0, List.append_assoc a0, List.drop_left, List.take_left]

end scatter

section four
variable {α : Type}

def seg (n : Nat) (σ : Nat → Pos) : List Pos := (List.range n).map σ
def segV (n : Nat) (β : Nat → α) : List α := (List.range n).map β

theorem scatter4 {n : Nat} (σ : Nat → Nat → Pos) (β : Nat → Nat → α) (h : Pos → α)
    (inj : ∀ k k' j j', k < 4 → k' < 4 → j < n → j' < n → σ k j = σ k' j' → k = k' ∧ j = j') :
    (∀ k j, k < 4 → j < n →
      scatterFn (seg n (σ 0) ++ seg n (σ 1) ++ seg n (σ 2) ++ seg n (σ 3))
        (segV n (β 0) ++ segV n (β 1) ++ segV n (β 2) ++ segV n (β 3)) h (σ k j) = β k j) ∧
    (∀ p, (∀ k j, k < 4 → j < n → σ k j ≠ p) →
      scatterFn (seg n (σ 0) ++ seg n (σ 1) ++ seg n (σ 2) ++ seg n (σ 3))
        (segV n (β 0) ++ segV n (β 1) ++ segV n (β 2) ++ segV n (β 3)) h p = h p) := by
  have hl : ∀ k, (seg n (σ k)).length = (segV n (β k)).length := by intro k; simp [seg, segV]
  have e : ∀ h : Pos → α, scatterFn (seg n (σ 0) ++ seg n (σ 1) ++ seg n (σ 2) ++ seg n (σ 3))
        (segV n (β 0) ++ segV n (β 1) ++ segV n (β 2) ++ segV n (β 3)) h =
      scatterFn (seg n (σ 3)) (segV n (β 3)) (scatterFn (seg n (σ 2)) (segV n (β 2))
        (scatterFn (seg n (σ 1)) (segV n (β 1)) (scatterFn (seg n (σ 0)) (segV n (β 0)) h))) := by
    intro h
    rw [scatterFn_append _ _ _ _ _ (by simp [seg, segV]), scatterFn_append _ _ _ _ _ (by simp [seg, segV]),
      scatterFn_append _ _ _ _ _ (hl 0)]
  have injk : ∀ k, k < 4 → ∀ i j, i < n → j < n → σ k i = σ k j → i = j :=
    fun k hk i j hi hj e => (inj k k i j hk hk hi hj e).2
  have ne : ∀ k k' j, k < 4 → k' < 4 → k ≠ k' → j < n → ∀ j', j' < n → σ k' j' ≠ σ k j :=
    fun k k' j hk hk' hne hj j' hj' e => hne (inj k' k j' j hk' hk hj' hj e).1.symm
  have S := fun k (hk : k < 4) (h : Pos → α) => scatterFn_seg (σ k) (β k) h (injk k hk)
  constructor
  · intro k j hk hj
    rw [e]
    unfold seg segV
    have : k = 0 ∨ k = 1 ∨ k = 2 ∨ k = 3 := by omega
    rcases this with rfl | rfl | rfl | rfl
    · rw [(S 3 (by omega) _).2 _ (ne 0 3 j (by omega) (by omega) (by omega) hj),
        (S 2 (by omega) _).2 _ (ne 0 2 j (by omega) (by omega) (by omega) hj),
        (S 1 (by omega) _).2 _ (ne 0 1 j (by omega) (by omega) (by omega) hj), (S 0 (by omega) _).1 j hj]
    · rw [(S 3 (by omega) _).2 _ (ne 1 3 j (by omega) (by omega) (by omega) hj),
        (S 2 (by omega) _).2 _ (ne 1 2 j (by omega) (by omega) (by omega) hj), (S 1 (by omega) _).1 j hj]
    · rw [(S 3 (by omega) _).2 _ (ne 2 3 j (by omega) (by omega) (by omega) hj), (S 2 (by omega) _).1 j hj]
    · rw [(S 3 (by omega) _).1 j hj]
  · intro p hp
    rw [e]
    unfold seg segV
    rw [(S 3 (by omega) _).2 _ (fun j hj => hp 3 j (by omega) hj), (S 2 (by omega) _).2 _ (fun j hj => hp 2 j (by omega) hj),
      (S 1 (by omega) _).2 _ (fun j hj => hp 1 j (by omega) hj), (S 0 (by omega) _).2 _ (fun j hj => hp 0 j (by omega) hj)]

/-- the colouring after the (optional) rotation of the face itself: array rotation by `k` quarter turns
anticlockwise of face `face` when `depth = 0` -/
def faceRot (n face depth : Nat) (a : Nat) (g : Pos → α) : Pos → α := fun p =>
  if depth = 0 ∧ p.f = face then
    (match a with
     | 0 => g ⟨face, n - 1 - p.c, p.r⟩        -- amount 1: rot90 k = 3
     | 1 => g ⟨face, p.c, n - 1 - p.r⟩        -- amount -1: k = 1
     | _ => g ⟨face, n - 1 - p.r, n - 1 - p.c⟩)
  else g p

/-- number of blocks by which the strip is rolled -/
def rollBlocks (a : Nat) : Nat := match a with | 0 => 1 | 1 => 3 | _ => 2

/-- `do_rotation` on a tabulated cube, for a strip given by `τ k j` (block `k < 4`, offset `j < n`) -/
theorem doRotation_tabulate {n : Nat} (hn : 0 < n) (g : Pos → α) {face : Nat} (hf : face < 6) {a : Nat} (ha : a < 3)
    (depth : Nat) (adj cols rows : List Nat) (τ : Nat → Nat → Pos)
    (hidx : zip3 (adj.flatMap (fun f => List.replicate n f)) rows cols =
      (seg n (τ 0) ++ seg n (τ 1) ++ seg n (τ 2) ++ seg n (τ 3)).map ofPos)
    (hv : ∀ k j, k < 4 → j < n → (τ k j).Valid n)
    (inj : ∀ k k' j j', k < 4 → k' < 4 → j < n → j' < n → τ k j = τ k' j' → k = k' ∧ j = j') :
    ∃ R : Pos → α, doRotation (tabulate n g) face (amountValues.getD a 0) depth adj cols rows = tabulate n R ∧
      (∀ k j, k < 4 → j < n → R (τ k j) = faceRot n face depth a g (τ ((k + 4 - rollBlocks a) % 4) j)) ∧
      (∀ p, (∀ k j, k < 4 → j < n → τ k j ≠ p) → R p = faceRot n face depth a g p) := by
  -- the cube after the face rotation
  have h1 : (if depth = 0 then
        List.set (tabulate n g) face (Grid.rot90k ((tabulate n g).getD face []) ((-(amountValues.getD a 0)) % 4).toNat)
      else tabulate n g) = tabulate n (faceRot n face depth a g) := by
    by_cases hd : depth = 0
    · simp only [hd, if_true]
      rw [getD_tabulate hf]
      obtain ⟨r1, r2, r3⟩ := rot90k_tab2 hn (fun r k => g ⟨face, r, k⟩)
      have : a = 0 ∨ a = 1 ∨ a = 2 := by omega
      rcases this with rfl | rfl | rfl
      · have : ((-(amountValues.getD 0 0)) % 4).toNat = 3 := by decide
        rw [this, r3, setFace_tabulate]
        apply tabulate_congr; intro p _; simp [faceRot]
      · have : ((-(amountValues.getD 1 0)) % 4).toNat = 1 := by decide
        rw [this, r1, setFace_tabulate]
        apply tabulate_congr; intro p _; simp [faceRot]
      · have : ((-(amountValues.getD 2 0)) % 4).toNat = 2 := by decide
        rw [this, r2, setFace_tabulate]
        apply tabulate_congr; intro p _; simp [faceRot]
    · simp only [hd, if_false]
      apply tabulate_congr; intro p _; simp [faceRot, hd]
  have hvl : ∀ q ∈ seg n (τ 0) ++ seg n (τ 1) ++ seg n (τ 2) ++ seg n (τ 3), q.Valid n := by
    intro q hq
    simp only [seg, List.mem_append, List.mem_map, List.mem_range] at hq
    rcases hq with ((⟨j, hj, rfl⟩ | ⟨j, hj, rfl⟩) | ⟨j, hj, rfl⟩) | ⟨j, hj, rfl⟩
    · exact hv 0 j (by omega) hj
    · exact hv 1 j (by omega) hj
    · exact hv 2 j (by omega) hj
    · exact hv 3 j (by omega) hj
  let g1 := faceRot n face depth a g
  -- the rolled strip, block by block
  have hroll : Jx.roll ((seg n (τ 0) ++ seg n (τ 1) ++ seg n (τ 2) ++ seg n (τ 3)).map g1)
        (((n : Int) * amountValues.getD a 0) % (4 * (n : Int))).toNat =
      segV n (fun j => g1 (τ ((0 + 4 - rollBlocks a) % 4) j)) ++ segV n (fun j => g1 (τ ((1 + 4 - rollBlocks a) % 4) j)) ++
      segV n (fun j => g1 (τ ((2 + 4 - rollBlocks a) % 4) j)) ++ segV n (fun j => g1 (τ ((3 + 4 - rollBlocks a) % 4) j)) := by
    simp only [List.map_append]
    have hm : ∀ k, (seg n (τ k)).map g1 = segV n (fun j => g1 (τ k j)) := by
      intro k; simp [seg, segV, Function.comp_def]
    simp only [hm]
    have hlen : ∀ k, (segV n (fun j => g1 (τ k j))).length = n := by intro k; simp [segV]
    obtain ⟨q1, q2, q3⟩ := roll_four hn _ _ _ _ (hlen 0) (hlen 1) (hlen 2) (hlen 3)
    have : a = 0 ∨ a = 1 ∨ a = 2 := by omega
    rcases this with rfl | rfl | rfl
    · have : (((n : Int) * amountValues.getD 0 0) % (4 * (n : Int))).toNat = n := by
        simp only [amountValues, List.getD_cons_zero, Int.mul_one]
        rw [Int.emod_eq_of_lt (by omega) (by omega)]; simp
      rw [this, q1]; rfl
    · have : (((n : Int) * amountValues.getD 1 0) % (4 * (n : Int))).toNat = 3 * n := by
        simp only [amountValues, List.getD_cons_succ, List.getD_cons_zero]
        have : (n : Int) * -1 = 3 * (n : Int) + (-1) * (4 * (n : Int)) := by omega
        rw [this, Int.add_mul_emod_self_right, Int.emod_eq_of_lt (by omega) (by omega)]; omega
      rw [this, q3]; rfl
    · have : (((n : Int) * amountValues.getD 2 0) % (4 * (n : Int))).toNat = 2 * n := by
        simp only [amountValues, List.getD_cons_succ, List.getD_cons_zero]
        rw [Int.emod_eq_of_lt (by omega) (by omega)]; omega
      rw [this, q2]; rfl
  refine ⟨scatterFn (seg n (τ 0) ++ seg n (τ 1) ++ seg n (τ 2) ++ seg n (τ 3))
      (segV n (fun j => g1 (τ ((0 + 4 - rollBlocks a) % 4) j)) ++ segV n (fun j => g1 (τ ((1 + 4 - rollBlocks a) % 4) j)) ++
       segV n (fun j => g1 (τ ((2 + 4 - rollBlocks a) % 4) j)) ++ segV n (fun j => g1 (τ ((3 + 4 - rollBlocks a) % 4) j))) g1, ?_, ?_⟩
  · unfold doRotation
    simp only [cubeSize_tabulate hn]
    rw [h1, hidx, gather_tabulate _ hvl, hroll, foldl_set3_tabulate _ hvl]
  · obtain ⟨s1, s2⟩ := scatter4 τ (fun k j => g1 (τ ((k + 4 - rollBlocks a) % 4) j)) g1 inj
    exact ⟨s1, s2⟩

end four

/-! ## the six index tables -/

/-- how one index array of a block is generated: `arange(n)`, `flip(arange(n))`, `repeat(depth, n)`,
`repeat(n - 1 - depth, n)` -/
inductive Ix | ar | fl | lo | hi
  deriving DecidableEq, Repr

def Ix.eval (n d : Nat) : Ix → Nat → Nat
  | .ar, j => j
  | .fl, j => n - 1 - j
  | .lo, _ => d
  | .hi, _ => n - 1 - d

def Ix.list (n d : Nat) : Ix → List Nat
  | .ar => arange n
  | .fl => flipRange n
  | .lo => rep d n
  | .hi => rep (n - 1 - d) n

theorem Ix.list_eq (n d : Nat) (ix : Ix) : ix.list n d = (List.range n).map (ix.eval n d) := by
  cases ix
  · have : Ix.eval n d .ar = fun j => j := by funext j; rfl
    rw [this]; simp [Ix.list, arange]
  · have : Ix.eval n d .fl = fun j => n - 1 - j := by funext j; rfl
    rw [this]; simp only [Ix.list, flipRange]
    have := reverse_map_range (fun j => j) n
    simpa using this
  · have : Ix.eval n d .lo = fun _ => d := by funext j; rfl
    rw [this]; simp [Ix.list, rep, List.map_const']
  · have : Ix.eval n d .hi = fun _ => n - 1 - d := by funext j; rfl
    rw [this]; simp [Ix.list, rep, List.map_const']

/-- block `k` of the strip of face `f`: (adjacent face, row generator, column generator), read off the six
`generate_*_move` functions -/
def spec (f k : Nat) : Nat × Ix × Ix :=
  match f, k with
  | 0, 0 => (1, .lo, .ar) | 0, 1 => (4, .lo, .ar) | 0, 2 => (3, .lo, .ar) | 0, _ => (2, .lo, .ar)
  | 1, 0 => (0, .hi, .ar) | 1, 1 => (2, .ar, .lo) | 1, 2 => (5, .lo, .fl) | 1, _ => (4, .fl, .hi)
  | 2, 0 => (0, .fl, .hi) | 2, 1 => (3, .ar, .lo) | 2, 2 => (5, .fl, .hi) | 2, _ => (1, .fl, .hi)
  | 3, 0 => (0, .lo, .fl) | 3, 1 => (4, .ar, .lo) | 3, 2 => (5, .hi, .ar) | 3, _ => (2, .fl, .hi)
  | 4, 0 => (0, .ar, .lo) | 4, 1 => (1, .ar, .lo) | 4, 2 => (5, .ar, .lo) | 4, _ => (3, .fl, .hi)
  | _, 0 => (1, .hi, .ar) | _, 1 => (2, .hi, .ar) | _, 2 => (3, .hi, .ar) | _, _ => (4, .hi, .ar)

/-- position number `j` of block `k` of the strip of (face `f`, depth `d`) -/
def strip (n d f k j : Nat) : Pos :=
  ⟨(spec f k).1, (spec f k).2.1.eval n d j, (spec f k).2.2.eval n d j⟩

theorem zip3_seg (n a : Nat) (R C : Nat → Nat) :
    zip3 (List.replicate n a) ((List.range n).map R) ((List.range n).map C) =
      (seg n (fun j => ⟨a, R j, C j⟩)).map ofPos := by
  have : List.replicate n a = (List.range n).map (fun _ => a) := by simp [List.map_const']
  rw [this]; unfold zip3; rw [List.zip_map', List.zip_map']; simp [seg, ofPos, Function.comp_def]

theorem zip3_append {a a' b b' c c' : List Nat} (h1 : a.length = b.length) (h2 : b.length = c.length) :
    zip3 (a ++ a') (b ++ b') (c ++ c') = zip3 a b c ++ zip3 a' b' c' := by
  unfold zip3
  rw [List.zip_append h2, List.zip_append (by simp [h1, h2])]

/-- the index arrays of the move of face `f` are the four blocks of `strip` -/
theorem idx_eq (n d f : Nat) :
    zip3 ([(spec f 0).1, (spec f 1).1, (spec f 2).1, (spec f 3).1].flatMap (fun x => List.replicate n x))
      ((spec f 0).2.1.list n d ++ (spec f 1).2.1.list n d ++ (spec f 2).2.1.list n d ++ (spec f 3).2.1.list n d)
      ((spec f 0).2.2.list n d ++ (spec f 1).2.2.list n d ++ (spec f 2).2.2.list n d ++ (spec f 3).2.2.list n d) =
    (seg n (strip n d f 0) ++ seg n (strip n d f 1) ++ seg n (strip n d f 2) ++ seg n (strip n d f 3)).map ofPos := by
  simp only [List.flatMap_cons, List.flatMap_nil, List.append_nil, Ix.list_eq]
  rw [← List.append_assoc, ← List.append_assoc]
  rw [zip3_append (by simp) (by simp), zip3_append (by simp) (by simp), zip3_append (by simp) (by simp)]
  simp only [zip3_seg, List.map_append]
  rfl

section moves
variable {α : Type}

theorem upMove_eq (amount : Int) (d : Nat) (c : Cube α) : upMove amount d c =
    doRotation c 0 amount d [(spec 0 0).1, (spec 0 1).1, (spec 0 2).1, (spec 0 3).1]
      ((spec 0 0).2.2.list (cubeSize c) d ++ (spec 0 1).2.2.list (cubeSize c) d ++ (spec 0 2).2.2.list (cubeSize c) d ++ (spec 0 3).2.2.list (cubeSize c) d)
      ((spec 0 0).2.1.list (cubeSize c) d ++ (spec 0 1).2.1.list (cubeSize c) d ++ (spec 0 2).2.1.list (cubeSize c) d ++ (spec 0 3).2.1.list (cubeSize c) d) := rfl
theorem frontMove_eq (amount : Int) (d : Nat) (c : Cube α) : frontMove amount d c =
    doRotation c 1 amount d [(spec 1 0).1, (spec 1 1).1, (spec 1 2).1, (spec 1 3).1]
      ((spec 1 0).2.2.list (cubeSize c) d ++ (spec 1 1).2.2.list (cubeSize c) d ++ (spec 1 2).2.2.list (cubeSize c) d ++ (spec 1 3).2.2.list (cubeSize c) d)
      ((spec 1 0).2.1.list (cubeSize c) d ++ (spec 1 1).2.1.list (cubeSize c) d ++ (spec 1 2).2.1.list (cubeSize c) d ++ (spec 1 3).2.1.list (cubeSize c) d) := rfl
theorem rightMove_eq (amount : Int) (d : Nat) (c : Cube α) : rightMove amount d c =
    doRotation c 2 amount d [(spec 2 0).1, (spec 2 1).1, (spec 2 2).1, (spec 2 3).1]
      ((spec 2 0).2.2.list (cubeSize c) d ++ (spec 2 1).2.2.list (cubeSize c) d ++ (spec 2 2).2.2.list (cubeSize c) d ++ (spec 2 3).2.2.list (cubeSize c) d)
      ((spec 2 0).2.1.list (cubeSize c) d ++ (spec 2 1).2.1.list (cubeSize c) d ++ (spec 2 2).2.1.list (cubeSize c) d ++ (spec 2 3).2.1.list (cubeSize c) d) := rfl
theorem backMove_eq (amount : Int) (d : Nat) (c : Cube α) : backMove amount d c =
    doRotation c 3 amount d [(spec 3 0).1, (spec 3 1).1, (spec 3 2).1, (spec 3 3).1]
      ((spec 3 0).2.2.list (cubeSize c) d ++ (spec 3 1).2.2.list (cubeSize c) d ++ (spec 3 2).2.2.list (cubeSize c) d ++ (spec 3 3).2.2.list (cubeSize c) d)
      ((spec 3 0).2.1.list (cubeSize c) d ++ (spec 3 1).2.1.list (cubeSize c) d ++ (spec 3 2).2.1.list (cubeSize c) d ++ (spec 3 3).2.1.list (cubeSize c) d) := rfl
theorem leftMove_eq (amount : Int) (d : Nat) (c : Cube α) : leftMove amount d c =
    doRotation c 4 amount d [(spec 4 0).1, (spec 4 1).1, (spec 4 2).1, (spec 4 3).1]
      ((spec 4 0).2.2.list (cubeSize c) d ++ (spec 4 1).2.2.list (cubeSize c) d ++ (spec 4 2).2.2.list (cubeSize c) d ++ (spec 4 3).2.2.list (cubeSize c) d)
      ((spec 4 0).2.1.list (cubeSize c) d ++ (spec 4 1).2.1.list (cubeSize c) d ++ (spec 4 2).2.1.list (cubeSize c) d ++ (spec 4 3).2.1.list (cubeSize c) d) := rfl
theorem downMove_eq (amount : Int) (d : Nat) (c : Cube α) : downMove amount d c =
    doRotation c 5 amount d [(spec 5 0).1, (spec 5 1).1, (spec 5 2).1, (spec 5 3).1]
      ((spec 5 0).2.2.list (cubeSize c) d ++ (spec 5 1).2.2.list (cubeSize c) d ++ (spec 5 2).2.2.list (cubeSize c) d ++ (spec 5 3).2.2.list (cubeSize c) d)
      ((spec 5 0).2.1.list (cubeSize c) d ++ (spec 5 1).2.1.list (cubeSize c) d ++ (spec 5 2).2.1.list (cubeSize c) d ++ (spec 5 3).2.1.list (cubeSize c) d) := rfl

end moves

/-! ## geometry of the strips -/

theorem spec_facts : ∀ f, f < 6 → ∀ k, k < 4 →
    (spec f k).1 < 6 ∧ (spec f k).1 ≠ f ∧
    ((spec f k).2.1 = .ar ∨ (spec f k).2.1 = .fl ∨ (spec f k).2.2 = .ar ∨ (spec f k).2.2 = .fl) ∧
    (∀ k', k' < 4 → (spec f k).1 = (spec f k').1 → k = k') := by decide

theorem eval_lt {n d : Nat} (hd : d < n) (ix : Ix) {j : Nat} (hj : j < n) : ix.eval n d j < n := by
  cases ix <;> simp only [Ix.eval] <;> omega

theorem strip_valid {n d f k j : Nat} (hd : d < n) (hf : f < 6) (hk : k < 4) (hj : j < n) :
    (strip n d f k j).Valid n :=
  ⟨(spec_facts f hf k hk).1, eval_lt hd _ hj, eval_lt hd _ hj⟩

theorem strip_inj {n d f : Nat} (hf : f < 6) : ∀ k k' j j', k < 4 → k' < 4 → j < n → j' < n →
    strip n d f k j = strip n d f k' j' → k = k' ∧ j = j' := by
  intro k k' j j' hk hk' hj hj' e
  unfold strip at e
  simp only [Pos.mk.injEq] at e
  obtain ⟨e1, e2, e3⟩ := e
  have hkk : k = k' := (spec_facts f hf k hk).2.2.2 k' hk' e1
  subst hkk
  refine ⟨rfl, ?_⟩
  rcases (spec_facts f hf k hk).2.2.1 with h | h | h | h
  · rw [h] at e2; simp only [Ix.eval] at e2; exact e2
  · rw [h] at e2; simp only [Ix.eval] at e2; omega
  · rw [h] at e3; simp only [Ix.eval] at e3; exact e3
  · rw [h] at e3; simp only [Ix.eval] at e3; omega


/-- the blocks of a strip follow each other by a clockwise quarter turn of the layer, and lie in the layer -/
theorem strip_turn {n d : Nat} (hd : d < n) : ∀ f, f < 6 → ∀ k, k < 4 → ∀ j, j < n →
    emb n (strip n d f ((k + 1) % 4) j) = cwTurn f (emb n (strip n d f k j)) ∧
    height f (emb n (strip n d f k j)) = (n : Int) - 1 - 2 * d := by
  intro f hf k hk j hj
  have hf' : f = 0 ∨ f = 1 ∨ f = 2 ∨ f = 3 ∨ f = 4 ∨ f = 5 := by omega
  have hk' : k = 0 ∨ k = 1 ∨ k = 2 ∨ k = 3 := by omega
  rcases hf' with rfl | rfl | rfl | rfl | rfl | rfl <;> rcases hk' with rfl | rfl | rfl | rfl <;>
    simp [strip, spec, Ix.eval, emb, cwTurn, height, ctr] <;> omega

theorem strip_iter {n d : Nat} (hd : d < n) {f : Nat} (hf : f < 6) {k : Nat} (hk : k < 4) {j : Nat} (hj : j < n) (q : Nat) :
    emb n (strip n d f ((k + q) % 4) j) = iter (cwTurn f) q (emb n (strip n d f k j)) := by
  induction q with
  | zero => simp [iter, Nat.mod_eq_of_lt hk]
  | succ q ih =>
    simp only [iter]
    rw [← ih, ← (strip_turn hd f hf ((k + q) % 4) (Nat.mod_lt _ (by omega)) j hj).1]
    congr 2; omega

/-- a clockwise quarter turn of the outer layer takes the sticker `(r, c)` of the face to `(c, n-1-r)` -/
theorem face_turn {n : Nat} : ∀ f, f < 6 → ∀ r c, r < n → c < n →
    cwTurn f (emb n ⟨f, r, c⟩) = emb n ⟨f, c, n - 1 - r⟩ ∧ height f (emb n ⟨f, r, c⟩) = n := by
  intro f hf r c hr hc
  have hf' : f = 0 ∨ f = 1 ∨ f = 2 ∨ f = 3 ∨ f = 4 ∨ f = 5 := by omega
  rcases hf' with rfl | rfl | rfl | rfl | rfl | rfl <;>
    simp [emb, cwTurn, height, ctr] <;> omega

/-! a sticker that is neither on the strip nor (outer layer) on the turned face itself is not in the layer -/

theorem outside_layer_0 {n d : Nat} (hd : 2 * d + 2 ≤ n) : ∀ p : Pos, p.Valid n → ¬ (d = 0 ∧ p.f = 0) →
    (∀ k j, k < 4 → j < n → strip n d 0 k j ≠ p) → ¬ inLayer n 0 d (emb n p) := by
  intro p hp hnf hs hin
  obtain ⟨pf, r, c⟩ := p
  obtain ⟨hpf, hr, hc⟩ := hp
  simp only at hpf hr hc hnf
  have a0 := hs 0 r (by omega) hr; have a1 := hs 1 r (by omega) hr
  have a2 := hs 2 r (by omega) hr; have a3 := hs 3 r (by omega) hr
  have b0 := hs 0 c (by omega) hc; have b1 := hs 1 c (by omega) hc
  have b2 := hs 2 c (by omega) hc; have b3 := hs 3 c (by omega) hc
  have c0 := hs 0 (n - 1 - r) (by omega) (by omega); have c1 := hs 1 (n - 1 - r) (by omega) (by omega)
  have c2 := hs 2 (n - 1 - r) (by omega) (by omega); have c3 := hs 3 (n - 1 - r) (by omega) (by omega)
  have d0 := hs 0 (n - 1 - c) (by omega) (by omega); have d1 := hs 1 (n - 1 - c) (by omega) (by omega)
  have d2 := hs 2 (n - 1 - c) (by omega) (by omega); have d3 := hs 3 (n - 1 - c) (by omega) (by omega)
  clear hs
  have hp' : pf = 0 ∨ pf = 1 ∨ pf = 2 ∨ pf = 3 ∨ pf = 4 ∨ pf = 5 := by omega
  rcases hp' with rfl | rfl | rfl | rfl | rfl | rfl <;>
    simp [strip, spec, Ix.eval, inLayer, height, emb, ctr] at a0 a1 a2 a3 b0 b1 b2 b3 c0 c1 c2 c3 d0 d1 d2 d3 hin hnf <;>
    omega

theorem outside_layer_1 {n d : Nat} (hd : 2 * d + 2 ≤ n) : ∀ p : Pos, p.Valid n → ¬ (d = 0 ∧ p.f = 1) →
    (∀ k j, k < 4 → j < n → strip n d 1 k j ≠ p) → ¬ inLayer n 1 d (emb n p) := by
  intro p hp hnf hs hin
  obtain ⟨pf, r, c⟩ := p
  obtain ⟨hpf, hr, hc⟩ := hp
  simp only at hpf hr hc hnf
  have a0 := hs 0 r (by omega) hr; have a1 := hs 1 r (by omega) hr
  have a2 := hs 2 r (by omega) hr; have a3 := hs 3 r (by omega) hr
  have b0 := hs 0 c (by omega) hc; have b1 := hs 1 c (by omega) hc
  have b2 := hs 2 c (by omega) hc; have b3 := hs 3 c (by omega) hc
  have c0 := hs 0 (n - 1 - r) (by omega) (by omega); have c1 := hs 1 (n - 1 - r) (by omega) (by omega)
  have c2 := hs 2 (n - 1 - r) (by omega) (by omega); have c3 := hs 3 (n - 1 - r) (by omega) (by omega)
  have d0 := hs 0 (n - 1 - c) (by omega) (by omega); have d1 := hs 1 (n - 1 - c) (by omega) (by omega)
  have d2 := hs 2 (n - 1 - c) (by omega) (by omega); have d3 := hs 3 (n - 1 - c) (by omega) (by omega)
  clear hs
  have hp' : pf = 0 ∨ pf = 1 ∨ pf = 2 ∨ pf = 3 ∨ pf = 4 ∨ pf = 5 := by omega
  rcases hp' with rfl | rfl | rfl | rfl | rfl | rfl <;>
    simp [strip, spec, Ix.eval, inLayer, height, emb, ctr] at a0 a1 a2 a3 b0 b1 b2 b3 c0 c1 c2 c3 d0 d1 d2 d3 hin hnf <;>
    omega

theorem outside_layer_2 {n d : Nat} (hd : 2 * d + 2 ≤ n) : ∀ p : Pos, p.Valid n → ¬ (d = 0 ∧ p.f = 2) →
    (∀ k j, k < 4 → j < n → strip n d 2 k j ≠ p) → ¬ inLayer n 2 d (emb n p) := by
  intro p hp hnf hs hin
  obtain ⟨pf, r, c⟩ := p
  obtain ⟨hpf, hr, hc⟩ := hp
  simp only at hpf hr hc hnf
  have a0 := hs 0 r (by omega) hr; have a1 := hs 1 r (by omega) hr
  have a2 := hs 2 r (by omega) hr; have a3 := hs 3 r (by omega) hr
  have b0 := hs 0 c (by omega) hc; have b1 := hs 1 c (by omega) hc
  have b2 := hs 2 c (by omega) hc; have b3 := hs 3 c (by omega) hc
  have c0 := hs 0 (n - 1 - r) (by omega) (by omega); have c1 := hs 1 (n - 1 - r) (by omega) (by omega)
  have c2 := hs 2 (n - 1 - r) (by omega) (by omega); have c3 := hs 3 (n - 1 - r) (by omega) (by omega)
  have d0 := hs 0 (n - 1 - c) (by omega) (by omega); have d1 := hs 1 (n - 1 - c) (by omega) (by omega)
  have d2 := hs 2 (n - 1 - c) (by omega) (by omega); have d3 := hs 3 (n - 1 - c) (by omega) (by omega)
  clear hs
  have hp' : pf = 0 ∨ pf = 1 ∨ pf = 2 ∨ pf = 3 ∨ pf = 4 ∨ pf = 5 := by omega
  rcases hp' with rfl | rfl | rfl | rfl | rfl | rfl <;>
    simp [strip, spec, Ix.eval, inLayer, height, emb, ctr] at a0 a1 a2 a3 b0 b1 b2 b3 c0 c1 c2 c3 d0 d1 d2 d3 hin hnf <;>
    omega

theorem outside_layer_3 {n d : Nat} (hd : 2 * d + 2 ≤ n) : ∀ p : Pos, p.Valid n → ¬ (d = 0 ∧ p.f = 3) →
    (∀ k j, k < 4 → j < n → strip n d 3 k j ≠ p) → ¬ inLayer n 3 d (emb n p) := by
  intro p hp hnf hs hin
  obtain ⟨pf, r, c⟩ := p
  obtain ⟨hpf, hr, hc⟩ := hp
  simp only at hpf hr hc hnf
  have a0 := hs 0 r (by omega) hr; have a1 := hs 1 r (by omega) hr
  have a2 := hs 2 r (by omega) hr; have a3 := hs 3 r (by omega) hr
  have b0 := hs 0 c (by omega) hc; have b1 := hs 1 c (by omega) hc
  have b2 := hs 2 c (by omega) hc; have b3 := hs 3 c (by omega) hc
  have c0 := hs 0 (n - 1 - r) (by omega) (by omega); have c1 := hs 1 (n - 1 - r) (by omega) (by omega)
  have c2 := hs 2 (n - 1 - r) (by omega) (by omega); have c3 := hs 3 (n - 1 - r) (by omega) (by omega)
  have d0 := hs 0 (n - 1 - c) (by omega) (by omega); have d1 := hs 1 (n - 1 - c) (by omega) (by omega)
  have d2 := hs 2 (n - 1 - c) (by omega) (by omega); have d3 := hs 3 (n - 1 - c) (by omega) (by omega)
  clear hs
  have hp' : pf = 0 ∨ pf = 1 ∨ pf = 2 ∨ pf = 3 ∨ pf = 4 ∨ pf = 5 := by omega
  rcases hp' with rfl | rfl | rfl | rfl | rfl | rfl <;>
    simp [strip, spec, Ix.eval, inLayer, height, emb, ctr] at a0 a1 a2 a3 b0 b1 b2 b3 c0 c1 c2 c3 d0 d1 d2 d3 hin hnf <;>
    omega

theorem outside_layer_4 {n d : Nat} (hd : 2 * d + 2 ≤ n) : ∀ p : Pos, p.Valid n → ¬ (d = 0 ∧ p.f = 4) →
    (∀ k j, k < 4 → j < n → strip n d 4 k j ≠ p) → ¬ inLayer n 4 d (emb n p) := by
  intro p hp hnf hs hin
  obtain ⟨pf, r, c⟩ := p
  obtain ⟨hpf, hr, hc⟩ := hp
  simp only at hpf hr hc hnf
  have a0 := hs 0 r (by omega) hr; have a1 := hs 1 r (by omega) hr
  have a2 := hs 2 r (by omega) hr; have a3 := hs 3 r (by omega) hr
  have b0 := hs 0 c (by omega) hc; have b1 := hs 1 c (by omega) hc
  have b2 := hs 2 c (by omega) hc; have b3 := hs 3 c (by omega) hc
  have c0 := hs 0 (n - 1 - r) (by omega) (by omega); have c1 := hs 1 (n - 1 - r) (by omega) (by omega)
  have c2 := hs 2 (n - 1 - r) (by omega) (by omega); have c3 := hs 3 (n - 1 - r) (by omega) (by omega)
  have d0 := hs 0 (n - 1 - c) (by omega) (by omega); have d1 := hs 1 (n - 1 - c) (by omega) (by omega)
  have d2 := hs 2 (n - 1 - c) (by omega) (by omega); have d3 := hs 3 (n - 1 - c) (by omega) (by omega)
  clear hs
  have hp' : pf = 0 ∨ pf = 1 ∨ pf = 2 ∨ pf = 3 ∨ pf = 4 ∨ pf = 5 := by omega
  rcases hp' with rfl | rfl | rfl | rfl | rfl | rfl <;>
    simp [strip, spec, Ix.eval, inLayer, height, emb, ctr] at a0 a1 a2 a3 b0 b1 b2 b3 c0 c1 c2 c3 d0 d1 d2 d3 hin hnf <;>
    omega

theorem outside_layer_5 {n d : Nat} (hd : 2 * d + 2 ≤ n) : ∀ p : Pos, p.Valid n → ¬ (d = 0 ∧ p.f = 5) →
    (∀ k j, k < 4 → j < n → strip n d 5 k j ≠ p) → ¬ inLayer n 5 d (emb n p) := by
  intro p hp hnf hs hin
  obtain ⟨pf, r, c⟩ := p
  obtain ⟨hpf, hr, hc⟩ := hp
  simp only at hpf hr hc hnf
  have a0 := hs 0 r (by omega) hr; have a1 := hs 1 r (by omega) hr
  have a2 := hs 2 r (by omega) hr; have a3 := hs 3 r (by omega) hr
  have b0 := hs 0 c (by omega) hc; have b1 := hs 1 c (by omega) hc
  have b2 := hs 2 c (by omega) hc; have b3 := hs 3 c (by omega) hc
  have c0 := hs 0 (n - 1 - r) (by omega) (by omega); have c1 := hs 1 (n - 1 - r) (by omega) (by omega)
  have c2 := hs 2 (n - 1 - r) (by omega) (by omega); have c3 := hs 3 (n - 1 - r) (by omega) (by omega)
  have d0 := hs 0 (n - 1 - c) (by omega) (by omega); have d1 := hs 1 (n - 1 - c) (by omega) (by omega)
  have d2 := hs 2 (n - 1 - c) (by omega) (by omega); have d3 := hs 3 (n - 1 - c) (by omega) (by omega)
  clear hs
  have hp' : pf = 0 ∨ pf = 1 ∨ pf = 2 ∨ pf = 3 ∨ pf = 4 ∨ pf = 5 := by omega
  rcases hp' with rfl | rfl | rfl | rfl | rfl | rfl <;>
    simp [strip, spec, Ix.eval, inLayer, height, emb, ctr] at a0 a1 a2 a3 b0 b1 b2 b3 c0 c1 c2 c3 d0 d1 d2 d3 hin hnf <;>
    omega

/-- a sticker that is neither on the strip nor (outer layer) on the turned face itself is not in the layer -/
theorem outside_layer {n d : Nat} (hd : 2 * d + 2 ≤ n) : ∀ f, f < 6 → ∀ p : Pos, p.Valid n → ¬ (d = 0 ∧ p.f = f) →
    (∀ k j, k < 4 → j < n → strip n d f k j ≠ p) → ¬ inLayer n f d (emb n p) := by
  intro f hf
  have hf' : f = 0 ∨ f = 1 ∨ f = 2 ∨ f = 3 ∨ f = 4 ∨ f = 5 := by omega
  rcases hf' with rfl | rfl | rfl | rfl | rfl | rfl
  · exact outside_layer_0 hd
  · exact outside_layer_1 hd
  · exact outside_layer_2 hd
  · exact outside_layer_3 hd
  · exact outside_layer_4 hd
  · exact outside_layer_5 hd


section final
variable {α : Type}

/-- the move of face `f` written with the table `spec` -/
def specMove (f : Nat) (amount : Int) (d : Nat) (c : Cube α) : Cube α :=
  doRotation c f amount d [(spec f 0).1, (spec f 1).1, (spec f 2).1, (spec f 3).1]
    ((spec f 0).2.2.list (cubeSize c) d ++ (spec f 1).2.2.list (cubeSize c) d ++ (spec f 2).2.2.list (cubeSize c) d ++ (spec f 3).2.2.list (cubeSize c) d)
    ((spec f 0).2.1.list (cubeSize c) d ++ (spec f 1).2.1.list (cubeSize c) d ++ (spec f 2).2.1.list (cubeSize c) d ++ (spec f 3).2.1.list (cubeSize c) d)

theorem face_iter {n : Nat} {f : Nat} (hf : f < 6) {r c : Nat} (hr : r < n) (hc : c < n) :
    iter (cwTurn f) 1 (emb n ⟨f, r, c⟩) = emb n ⟨f, c, n - 1 - r⟩ ∧
    iter (cwTurn f) 2 (emb n ⟨f, r, c⟩) = emb n ⟨f, n - 1 - r, n - 1 - c⟩ ∧
    iter (cwTurn f) 3 (emb n ⟨f, r, c⟩) = emb n ⟨f, n - 1 - c, r⟩ := by
  have t1 := (face_turn f hf r c hr hc).1
  have t2 := (face_turn (n := n) f hf c (n - 1 - r) hc (by omega)).1
  have t3 := (face_turn (n := n) f hf (n - 1 - r) (n - 1 - c) (by omega) (by omega)).1
  have e : n - 1 - (n - 1 - r) = r := by omega
  refine ⟨by simp [iter, t1], by simp [iter, t1, t2], ?_⟩
  simp only [iter, t1, t2, t3, e]

/-- ALL cube sizes: the L1 move of face `f`, depth `d`, direction `a` on a tabulated cube is the physical move -/
theorem specMove_tabulate {n d f a : Nat} (hd : 2 * d + 2 ≤ n) (hf : f < 6) (ha : a < 3) (g : Pos → α) :
    specMove f (amountValues.getD a 0) d (tabulate n g) = tabulate n (fun p => g (srcPos n f d a p)) := by
  have hn : 0 < n := by omega
  have hdn : d < n := by omega
  unfold specMove
  rw [cubeSize_tabulate hn]
  obtain ⟨R, hR, h1, h2⟩ := doRotation_tabulate hn g hf ha d _ _ _ (strip n d f) (idx_eq n d f)
    (fun k j hk hj => strip_valid hdn hf hk hj) (strip_inj hf)
  rw [hR]
  apply tabulate_congr
  intro p hp
  by_cases hex : ∃ k j, k < 4 ∧ j < n ∧ strip n d f k j = p
  · obtain ⟨k, j, hk, hj, rfl⟩ := hex
    rw [h1 k j hk hj]
    have hk' : (k + 4 - rollBlocks a) % 4 < 4 := Nat.mod_lt _ (by omega)
    have hne : (strip n d f ((k + 4 - rollBlocks a) % 4) j).f ≠ f := (spec_facts f hf _ hk').2.1
    have e1 : faceRot n f d a g (strip n d f ((k + 4 - rollBlocks a) % 4) j) =
        g (strip n d f ((k + 4 - rollBlocks a) % 4) j) := by simp [faceRot, hne]
    rw [e1]
    congr 1
    have hin : inLayer n f d (emb n (strip n d f k j)) := Or.inl (strip_turn hdn f hf k hk j hj).2
    unfold srcPos physTurn
    rw [if_pos hin, ← strip_iter hdn hf hk hj, unemb_emb (strip_valid hdn hf (Nat.mod_lt _ (by omega)) hj)]
    congr 1
    have : a = 0 ∨ a = 1 ∨ a = 2 := by omega
    rcases this with rfl | rfl | rfl <;> simp [rollBlocks, quarterTurns, invAmt] <;> omega
  · have hs : ∀ k j, k < 4 → j < n → strip n d f k j ≠ p := fun k j hk hj e => hex ⟨k, j, hk, hj, e⟩
    rw [h2 p hs]
    by_cases hfd : d = 0 ∧ p.f = f
    · obtain ⟨pf, r, c⟩ := p
      obtain ⟨hd0, hpf⟩ := hfd
      simp only at hpf
      subst hpf hd0
      obtain ⟨_, hr, hc⟩ := hp
      simp only at hr hc
      have hin : inLayer n pf 0 (emb n ⟨pf, r, c⟩) := Or.inr ⟨rfl, (face_turn pf hf r c hr hc).2⟩
      obtain ⟨i1, i2, i3⟩ := face_iter (n := n) hf hr hc
      unfold srcPos physTurn
      rw [if_pos hin]
      have : a = 0 ∨ a = 1 ∨ a = 2 := by omega
      rcases this with rfl | rfl | rfl
      · have : quarterTurns (invAmt 0) = 3 := rfl
        rw [this, i3, unemb_emb ⟨hf, (by show n - 1 - c < n; omega), hr⟩]; simp [faceRot]
      · have : quarterTurns (invAmt 1) = 1 := rfl
        rw [this, i1, unemb_emb ⟨hf, hc, (by show n - 1 - r < n; omega)⟩]; simp [faceRot]
      · have : quarterTurns (invAmt 2) = 2 := rfl
        rw [this, i2, unemb_emb ⟨hf, (by show n - 1 - r < n; omega), (by show n - 1 - c < n; omega)⟩]; simp [faceRot]
    · have := outside_layer hd f hf p hp hfd hs
      rw [srcPos_outside f d a hp this]
      have : ¬ (d = 0 ∧ p.f = f) := hfd
      simp [faceRot, this]

end final

theorem length_flatMap_uniform {β γ : Type} (l : List β) (G : β → List γ) (m : Nat)
    (hG : ∀ x ∈ l, (G x).length = m) : (l.flatMap G).length = l.length * m := by
  induction l with
  | nil => simp
  | cons x t ih =>
    simp only [List.flatMap_cons, List.length_append, List.length_cons]
    rw [hG x (by simp), ih (fun y hy => hG y (by simp [hy])), Nat.succ_mul]; omega

theorem getD_flatMap_uniform {β γ : Type} (l : List β) (G : β → List γ) (m : Nat)
    (hG : ∀ x ∈ l, (G x).length = m) (q r : Nat) (hq : q < l.length) (hr : r < m) (dflt : γ) :
    (l.flatMap G).getD (q * m + r) dflt = (G l[q]).getD r dflt := by
  induction l generalizing q with
  | nil => simp at hq
  | cons x t ih =>
    have hx := hG x (by simp)
    simp only [List.flatMap_cons, List.getD_eq_getElem?_getD]
    cases q with
    | zero =>
      simp only [Nat.zero_mul, Nat.zero_add, List.getElem_cons_zero]
      rw [List.getElem?_append_left (by omega)]
    | succ q =>
      have e : (q + 1) * m + r = (G x).length + (q * m + r) := by rw [hx, Nat.succ_mul]; omega
      rw [e, List.getElem?_append_right (by omega), Nat.add_sub_cancel_left]
      have := ih (fun y hy => hG y (by simp [hy])) q (by simpa using hq)
      simpa [List.getD_eq_getElem?_getD] using this

section idx
variable {α : Type}

theorem gens_getElem (f : Nat) (hf : f < 6) :
    ([upMove, frontMove, rightMove, backMove, leftMove, downMove] : List (Int → Nat → Cube α → Cube α))[f]'(by simpa using hf)
      = specMove f := by
  have : f = 0 ∨ f = 1 ∨ f = 2 ∨ f = 3 ∨ f = 4 ∨ f = 5 := by omega
  rcases this with rfl | rfl | rfl | rfl | rfl | rfl <;> rfl

theorem allMoves_length (n : Nat) : (allMoves (α := α) n).length = 18 * (n / 2) := by
  unfold allMoves
  rw [length_flatMap_uniform _ _ ((n / 2) * 3)]
  · simp; omega
  · intro F _
    rw [length_flatMap_uniform _ _ 3]
    · simp
    · intro d _; simp [amountValues]

theorem allMoves_getD (n : Nat) (m : Move) (hm : legal n m) :
    (allMoves (α := α) n).getD (Move.flat n m) id = specMove m.face (amountValues.getD m.amt 0) m.depth := by
  obtain ⟨f, d, a⟩ := m
  obtain ⟨hf, hd, ha⟩ := hm
  simp only at hf hd ha
  unfold allMoves Move.flat
  simp only
  have e : f * 3 * (n / 2) + d * 3 + a = f * ((n / 2) * 3) + (d * 3 + a) := by
    rw [Nat.mul_assoc, Nat.mul_comm 3 (n / 2)]; omega
  rw [e]
  have hlt : d * 3 + a < (n / 2) * 3 := by omega
  rw [getD_flatMap_uniform _ _ ((n / 2) * 3) ?_ f (d * 3 + a) (by simpa using hf) hlt]
  · rw [gens_getElem f hf]
    rw [getD_flatMap_uniform _ _ 3 ?_ d a (by simpa using hd) ha]
    · simp only [List.getElem_range]
      have : a = 0 ∨ a = 1 ∨ a = 2 := by omega
      rcases this with rfl | rfl | rfl <;> simp [amountValues]
    · intro d' _; simp [amountValues]
  · intro F _
    rw [length_flatMap_uniform _ _ 3]
    · simp
    · intro d' _; simp [amountValues]

/-- ALL cube sizes: `rotate_cube` with the flat index of an action of the action space, on a tabulated cube, is
the physical move -/
theorem rotateCube_tabulate {n : Nat} (m : Move) (hm : legal n m) (g : Pos → α) :
    rotateCube (tabulate n g) ((Move.flat n m : Nat) : Int) =
      tabulate n (fun p => g (srcPos n m.face m.depth m.amt p)) := by
  have hd : 2 * m.depth + 2 ≤ n := by have := hm.2.1; omega
  have hn : 0 < n := by omega
  unfold rotateCube
  simp only [cubeSize_tabulate hn, allMoves_length]
  have hlt := flat_lt hm
  have h1 : ¬ ((Move.flat n m : Nat) : Int) < 0 := by omega
  have h2 : ¬ ((Move.flat n m : Nat) : Int) ≥ ((18 * (n / 2) : Nat) : Int) := by omega
  simp only [h1, h2, if_false, Int.toNat_natCast]
  rw [allMoves_getD n m hm]
  exact specMove_tabulate hd hm.1 hm.2.2 g

end idx

/-- ALL cube sizes: every L1 move acts on the position-labelled cube as the physical source map -/
theorem tableOK_all (n : Nat) : tableOK n = true := by
  unfold tableOK
  rw [List.all_eq_true]
  intro i hi
  have hi' := List.mem_range.1 hi
  have hl := legal_ofFlat hi'
  have := rotateCube_tabulate (Move.ofFlat n i) hl (id : Pos → Pos)
  rw [flat_ofFlat] at this
  simp only [beq_iff_eq]
  exact this

end RubiksCube
