/-
RubiksCube: lemmas and proofs.  Part 1: the geometry of the physical model (all cube sizes).
-/
import JumanjiModel.Env.RubiksCube.Model
namespace RubiksCube
open Jm Jx

/-! ### surface points -/

/-- a centred coordinate of an index `0 … n-1` -/
def Ctr (n : Nat) (t : Int) : Prop := -((n : Int) - 1) ≤ t ∧ t ≤ (n : Int) - 1 ∧ (t + ((n : Int) - 1)) % 2 = 0

/-- centre of a sticker: on one of the six face planes, the other two coordinates centred indices -/
def Good (n : Nat) (v : V3) : Prop :=
  (v.y = n ∧ Ctr n v.x ∧ Ctr n v.z) ∨ (v.z = n ∧ Ctr n v.x ∧ Ctr n v.y) ∨ (v.x = n ∧ Ctr n v.y ∧ Ctr n v.z) ∨
  (v.z = -n ∧ Ctr n v.x ∧ Ctr n v.y) ∨ (v.x = -n ∧ Ctr n v.y ∧ Ctr n v.z) ∨ (v.y = -n ∧ Ctr n v.x ∧ Ctr n v.z)

theorem ctr_Ctr {n i : Nat} (h : i < n) : Ctr n (ctr n i) := by
  unfold Ctr ctr; omega

theorem neg_Ctr {n : Nat} {t : Int} (h : Ctr n t) : Ctr n (-t) := by
  unfold Ctr at *; omega

theorem unctr_ctr {n i : Nat} (_h : i < n) : unctr n (ctr n i) = i := by
  unfold unctr ctr; omega

theorem unctr_neg_neg_ctr {n i : Nat} (_h : i < n) : unctr n (- -ctr n i) = i := by
  unfold unctr ctr; omega

theorem ctr_unctr {n : Nat} {t : Int} (h : Ctr n t) : ctr n (unctr n t) = t ∧ unctr n t < n := by
  unfold Ctr at h; unfold unctr ctr; omega

theorem good_emb {n : Nat} {p : Pos} (h : p.Valid n) : Good n (emb n p) := by
  obtain ⟨f, r, c⟩ := p
  obtain ⟨hf, hr, hc⟩ := h
  simp only at hf hr hc
  have h1 := ctr_Ctr hr
  have h2 := ctr_Ctr hc
  have h3 := neg_Ctr h1
  have h4 := neg_Ctr h2
  unfold Good emb
  match f, hf with
  | 0, _ => simp [*]
  | 1, _ => simp [*]
  | 2, _ => simp [*]
  | 3, _ => simp [*]
  | 4, _ => simp [*]
  | 5, _ => simp [*]

theorem unemb_emb {n : Nat} {p : Pos} (h : p.Valid n) : unemb n (emb n p) = p := by
  obtain ⟨f, r, c⟩ := p
  obtain ⟨hf, hr, hc⟩ := h
  simp only at hf hr hc
  have a1 := unctr_ctr hr
  have a2 := unctr_ctr hc
  have a3 := unctr_neg_neg_ctr hr
  have a4 := unctr_neg_neg_ctr hc
  have b1 : ctr n r ≠ n ∧ ctr n r ≠ -n ∧ -ctr n r ≠ n ∧ -ctr n r ≠ -n := by unfold ctr; omega
  have b2 : ctr n c ≠ n ∧ ctr n c ≠ -n ∧ -ctr n c ≠ n ∧ -ctr n c ≠ -n := by unfold ctr; omega
  have b3 : (n : Int) ≠ -n ∧ -(n : Int) ≠ n := by omega
  unfold unemb emb
  match f, hf with
  | 0, _ => simp [*]
  | 1, _ => simp [*]
  | 2, _ => simp [*]
  | 3, _ => simp [*]
  | 4, _ => simp [*]
  | 5, _ => simp [*]


theorem emb_unemb {n : Nat} {v : V3} (h : Good n v) : (unemb n v).Valid n ∧ emb n (unemb n v) = v := by
  obtain ⟨x, y, z⟩ := v
  have hn : (x = n → Ctr n x → False) ∧ (y = n → Ctr n y → False) ∧ (z = n → Ctr n z → False) ∧
      (x = -n → Ctr n x → False) ∧ (y = -n → Ctr n y → False) ∧ (z = -n → Ctr n z → False) := by
    unfold Ctr; omega
  unfold Good at h
  simp only at h
  rcases h with ⟨h0, h1, h2⟩ | ⟨h0, h1, h2⟩ | ⟨h0, h1, h2⟩ | ⟨h0, h1, h2⟩ | ⟨h0, h1, h2⟩ | ⟨h0, h1, h2⟩
  · have e1 := ctr_unctr h1; have e2 := ctr_unctr h2
    simp [unemb, emb, Pos.Valid, h0, e1, e2]
  · have e1 := ctr_unctr h1; have e2 := ctr_unctr (neg_Ctr h2)
    have : y ≠ n := fun e => hn.2.1 e h2
    simp [unemb, emb, Pos.Valid, h0, e1, e2, this]
  · have e1 := ctr_unctr (neg_Ctr h1); have e2 := ctr_unctr (neg_Ctr h2)
    have : y ≠ n := fun e => hn.2.1 e h1
    have : z ≠ n := fun e => hn.2.2.1 e h2
    simp [unemb, emb, Pos.Valid, h0, e1, e2, *]
  · have e1 := ctr_unctr (neg_Ctr h1); have e2 := ctr_unctr (neg_Ctr h2)
    have : y ≠ n := fun e => hn.2.1 e h2
    have : x ≠ n := fun e => hn.1 e h1
    have : -(n : Int) ≠ n := by unfold Ctr at h1; omega
    simp [unemb, emb, Pos.Valid, h0, e1, e2, *]
  · have e1 := ctr_unctr (neg_Ctr h1); have e2 := ctr_unctr h2
    have : y ≠ n := fun e => hn.2.1 e h1
    have : z ≠ n := fun e => hn.2.2.1 e h2
    have : z ≠ -n := fun e => hn.2.2.2.2.2 e h2
    have : -(n : Int) ≠ n := by unfold Ctr at h1; omega
    simp [unemb, emb, Pos.Valid, h0, e1, e2, *]
  · have e1 := ctr_unctr h1; have e2 := ctr_unctr (neg_Ctr h2)
    have : x ≠ n := fun e => hn.1 e h1
    have : x ≠ -n := fun e => hn.2.2.2.1 e h1
    have : z ≠ n := fun e => hn.2.2.1 e h2
    have : z ≠ -n := fun e => hn.2.2.2.2.2 e h2
    have : -(n : Int) ≠ n := by unfold Ctr at h1; omega
    simp [unemb, emb, Pos.Valid, h0, e1, e2, *]

/-! ### the quarter turn -/

theorem good_cwTurn {n : Nat} (f : Nat) {v : V3} (h : Good n v) : Good n (cwTurn f v) := by
  obtain ⟨x, y, z⟩ := v
  unfold Good at *
  simp only at h
  have hneg : ∀ t, Ctr n t → Ctr n (-t) := fun t => neg_Ctr
  unfold cwTurn
  split <;> simp only [Int.neg_inj] <;>
    rcases h with ⟨h0, h1, h2⟩ | ⟨h0, h1, h2⟩ | ⟨h0, h1, h2⟩ | ⟨h0, h1, h2⟩ | ⟨h0, h1, h2⟩ | ⟨h0, h1, h2⟩ <;>
    (have g1 := hneg _ h1; have g2 := hneg _ h2; simp [*] <;> omega)

theorem height_cwTurn (f : Nat) (v : V3) : height f (cwTurn f v) = height f v := by
  match f with
  | 0 => rfl
  | 1 => rfl
  | 2 => rfl
  | 3 => rfl
  | 4 => rfl
  | (k + 5) => rfl

theorem inLayer_cwTurn (n f d : Nat) (v : V3) : inLayer n f d (cwTurn f v) ↔ inLayer n f d v := by
  unfold inLayer; rw [height_cwTurn]

theorem cwTurn_four (f : Nat) (v : V3) : cwTurn f (cwTurn f (cwTurn f (cwTurn f v))) = v := by
  obtain ⟨x, y, z⟩ := v
  unfold cwTurn; split <;> simp

theorem iter_add {β : Type} (g : β → β) (a b : Nat) (x : β) : iter g a (iter g b x) = iter g (a + b) x := by
  induction a with
  | zero => simp [iter]
  | succ k ih => rw [Nat.succ_add]; simp [iter, ih]

theorem iter_cw_four (f : Nat) (v : V3) : iter (cwTurn f) 4 v = v := by
  simp [iter, cwTurn_four]

theorem good_iter {n : Nat} (f k : Nat) {v : V3} (h : Good n v) : Good n (iter (cwTurn f) k v) := by
  induction k with
  | zero => exact h
  | succ k ih => exact good_cwTurn f ih

theorem inLayer_iter (n f d k : Nat) (v : V3) : inLayer n f d (iter (cwTurn f) k v) ↔ inLayer n f d v := by
  induction k with
  | zero => exact Iff.rfl
  | succ k ih => simp only [iter]; rw [inLayer_cwTurn]; exact ih

theorem good_physTurn {n : Nat} (f d amt : Nat) {v : V3} (h : Good n v) : Good n (physTurn n f d amt v) := by
  unfold physTurn; split
  · exact good_iter f _ h
  · exact h

/-- composing physical turns of the same layer adds the quarter turns -/
theorem physTurn_comp (n f d a b : Nat) (v : V3) :
    physTurn n f d a (physTurn n f d b v) =
      if inLayer n f d v then iter (cwTurn f) (quarterTurns a + quarterTurns b) v else v := by
  unfold physTurn
  by_cases h : inLayer n f d v
  · have h' := (inLayer_iter n f d (quarterTurns b) v).2 h
    simp only [h, h', if_true]
    exact iter_add _ _ _ _
  · simp [h]

theorem iter_cw_mod (f k : Nat) (v : V3) : iter (cwTurn f) (k + 4) v = iter (cwTurn f) k v := by
  rw [← iter_add, iter_cw_four]

theorem quarterTurns_inv (amt : Nat) : quarterTurns amt + quarterTurns (invAmt amt) = 4 := by
  unfold quarterTurns invAmt
  match amt with
  | 0 => rfl
  | 1 => rfl
  | (k + 2) => rfl

theorem invAmt_invAmt {amt : Nat} (h : amt < 3) : invAmt (invAmt amt) = amt := by
  match amt, h with
  | 0, _ => rfl
  | 1, _ => rfl
  | 2, _ => rfl

/-- a turn followed by the opposite turn is the identity on points -/
theorem physTurn_inv (n f d amt : Nat) (v : V3) : physTurn n f d amt (physTurn n f d (invAmt amt) v) = v := by
  rw [physTurn_comp, quarterTurns_inv]; split
  · exact iter_cw_four f v
  · rfl

theorem physTurn_inv' (n f d amt : Nat) (v : V3) : physTurn n f d (invAmt amt) (physTurn n f d amt v) = v := by
  rw [physTurn_comp, Nat.add_comm, quarterTurns_inv]; split
  · exact iter_cw_four f v
  · rfl


/-! ### position maps -/

theorem dstPos_valid {n : Nat} (f d amt : Nat) {p : Pos} (h : p.Valid n) : (dstPos n f d amt p).Valid n :=
  (emb_unemb (good_physTurn f d amt (good_emb h))).1

theorem srcPos_valid {n : Nat} (f d amt : Nat) {p : Pos} (h : p.Valid n) : (srcPos n f d amt p).Valid n :=
  dstPos_valid f d (invAmt amt) h

/-- the array move is the physical move: the sticker at `p` goes to the place whose centre is the rotated
centre of `p` -/
theorem emb_dstPos {n : Nat} (f d amt : Nat) {p : Pos} (h : p.Valid n) :
    emb n (dstPos n f d amt p) = physTurn n f d amt (emb n p) :=
  (emb_unemb (good_physTurn f d amt (good_emb h))).2

theorem emb_srcPos {n : Nat} (f d amt : Nat) {p : Pos} (h : p.Valid n) :
    emb n (srcPos n f d amt p) = physTurn n f d (invAmt amt) (emb n p) := emb_dstPos f d (invAmt amt) h

theorem dst_src {n : Nat} (f d amt : Nat) {p : Pos} (h : p.Valid n) :
    dstPos n f d amt (srcPos n f d amt p) = p := by
  unfold dstPos; rw [emb_srcPos f d amt h, physTurn_inv, unemb_emb h]

theorem src_dst {n : Nat} (f d amt : Nat) {p : Pos} (h : p.Valid n) :
    srcPos n f d amt (dstPos n f d amt p) = p := by
  unfold srcPos; rw [emb_dstPos f d amt h, physTurn_inv', unemb_emb h]

/-- composition of two source maps of the same layer -/
theorem src_src {n : Nat} (f d a b : Nat) {p : Pos} (h : p.Valid n) :
    srcPos n f d a (srcPos n f d b p) =
      unemb n (if inLayer n f d (emb n p) then
        iter (cwTurn f) (quarterTurns (invAmt a) + quarterTurns (invAmt b)) (emb n p) else emb n p) := by
  have e := emb_srcPos f d b h
  show unemb n (physTurn n f d (invAmt a) (emb n (srcPos n f d b p))) = _
  rw [e, physTurn_comp]

theorem src_cw_ccw {n : Nat} (f d : Nat) {p : Pos} (h : p.Valid n) : srcPos n f d 0 (srcPos n f d 1 p) = p := by
  rw [src_src f d 0 1 h]
  have : quarterTurns (invAmt 0) + quarterTurns (invAmt 1) = 4 := rfl
  rw [this, iter_cw_four]; simp [unemb_emb h]

theorem src_ccw_cw {n : Nat} (f d : Nat) {p : Pos} (h : p.Valid n) : srcPos n f d 1 (srcPos n f d 0 p) = p := by
  rw [src_src f d 1 0 h]
  have : quarterTurns (invAmt 1) + quarterTurns (invAmt 0) = 4 := rfl
  rw [this, iter_cw_four]; simp [unemb_emb h]

theorem src_half {n : Nat} (f d : Nat) {p : Pos} (h : p.Valid n) :
    srcPos n f d 0 (srcPos n f d 0 p) = srcPos n f d 2 p := by
  rw [src_src f d 0 0 h]
  have : quarterTurns (invAmt 0) + quarterTurns (invAmt 0) = 2 + 4 := rfl
  rw [this, iter_cw_mod]
  unfold srcPos physTurn
  split <;> rfl

theorem src_half' {n : Nat} (f d : Nat) {p : Pos} (h : p.Valid n) :
    srcPos n f d 1 (srcPos n f d 1 p) = srcPos n f d 2 p := by
  rw [src_src f d 1 1 h]
  unfold srcPos physTurn
  split <;> rfl

theorem src_half_half {n : Nat} (f d : Nat) {p : Pos} (h : p.Valid n) : srcPos n f d 2 (srcPos n f d 2 p) = p := by
  rw [src_src f d 2 2 h]
  have : quarterTurns (invAmt 2) + quarterTurns (invAmt 2) = 4 := rfl
  rw [this, iter_cw_four]; simp [unemb_emb h]

theorem src_cw_four {n : Nat} (f d : Nat) {p : Pos} (h : p.Valid n) :
    srcPos n f d 0 (srcPos n f d 0 (srcPos n f d 0 (srcPos n f d 0 p))) = p := by
  rw [src_half f d (srcPos_valid f d 0 (srcPos_valid f d 0 h)), src_half f d h, src_half_half f d h]

/-- a position outside the turned layer keeps its sticker -/
theorem srcPos_outside {n : Nat} (f d amt : Nat) {p : Pos} (h : p.Valid n) (ho : ¬ inLayer n f d (emb n p)) :
    srcPos n f d amt p = p := by
  unfold srcPos physTurn; simp [ho, unemb_emb h]

/-! ### arrays -/

section arrays
variable {α : Type}

theorem getP_tabulate (dflt : α) (n : Nat) (g : Pos → α) {p : Pos} (h : p.Valid n) :
    getP dflt (tabulate n g) p = g p := by
  obtain ⟨f, r, c⟩ := p
  obtain ⟨hf, hr, hc⟩ := h
  simp only at hf hr hc
  simp [getP, tabulate, List.getD_eq_getElem?_getD, hf, hr, hc]

theorem shaped_tabulate (n : Nat) (g : Pos → α) : Shaped n (tabulate n g) := by
  unfold Shaped tabulate
  refine ⟨by simp, ?_⟩
  intro gr hg
  simp only [List.mem_map] at hg
  obtain ⟨f, _, rfl⟩ := hg
  refine ⟨by simp, ?_⟩
  intro row hrow
  simp only [List.mem_map] at hrow
  obtain ⟨r, _, rfl⟩ := hrow
  simp

theorem list_ext_getD {β : Type} (d : β) {l l' : List β} (hl : l.length = l'.length)
    (h : ∀ i, i < l.length → l.getD i d = l'.getD i d) : l = l' := by
  apply List.ext_getElem hl
  intro i h1 h2
  have := h i h1
  simpa [List.getD_eq_getElem?_getD, List.getElem?_eq_getElem h1, List.getElem?_eq_getElem h2] using this

/-- two `(6, n, n)` arrays with the same sticker at every position are equal -/
theorem cube_ext (dflt : α) {n : Nat} {c c' : Cube α} (hc : Shaped n c) (hc' : Shaped n c')
    (h : ∀ p : Pos, p.Valid n → getP dflt c p = getP dflt c' p) : c = c' := by
  apply List.ext_getElem (by rw [hc.1, hc'.1])
  intro f hf hf'
  have g1 := hc.2 _ (List.getElem_mem hf)
  have g2 := hc'.2 _ (List.getElem_mem hf')
  apply List.ext_getElem (by rw [g1.1, g2.1])
  intro r hr hr'
  have r1 := g1.2 _ (List.getElem_mem hr)
  have r2 := g2.2 _ (List.getElem_mem hr')
  apply List.ext_getElem (by rw [r1, r2])
  intro k hk hk'
  have := h ⟨f, r, k⟩ ⟨by rw [← hc.1]; exact hf, by rw [← g1.1]; exact hr, by rw [← r1]; exact hk⟩
  simpa [getP, List.getD_eq_getElem?_getD, List.getElem?_eq_getElem, hf, hf', hr, hr', hk, hk'] using this

theorem tabulate_getP (dflt : α) {n : Nat} {c : Cube α} (hc : Shaped n c) : tabulate n (getP dflt c) = c :=
  cube_ext dflt (shaped_tabulate n _) hc (fun _ hp => getP_tabulate dflt n _ hp)

theorem tabulate_congr {n : Nat} {g g' : Pos → α} (h : ∀ p : Pos, p.Valid n → g p = g' p) :
    tabulate n g = tabulate n g' := by
  refine cube_ext (g ⟨0, 0, 0⟩) (shaped_tabulate n g) (shaped_tabulate n g') ?_
  intro p hp
  rw [getP_tabulate _ n g hp, getP_tabulate _ n g' hp, h p hp]

variable [Inhabited α]

theorem shaped_applyMove (n f d amt : Nat) (c : Cube α) : Shaped n (applyMove n f d amt c) := shaped_tabulate n _

theorem getP_applyMove (n f d amt : Nat) (c : Cube α) {p : Pos} (h : p.Valid n) :
    getP default (applyMove n f d amt c) p = getP default c (srcPos n f d amt p) := getP_tabulate _ n _ h

/-- two moves in a row: sticker at `p` comes from `src₁ (src₂ p)` -/
theorem applyMove_applyMove (n f d a f' d' a' : Nat) (c : Cube α) :
    applyMove n f' d' a' (applyMove n f d a c) =
      tabulate n (fun p => getP default c (srcPos n f d a (srcPos n f' d' a' p))) := by
  unfold applyMove
  apply tabulate_congr
  intro p hp
  rw [getP_tabulate _ n _ (srcPos_valid f' d' a' hp)]

theorem applyMove_cw_ccw {n : Nat} (f d : Nat) {c : Cube α} (hc : Shaped n c) :
    applyMove n f d 1 (applyMove n f d 0 c) = c := by
  rw [applyMove_applyMove]
  rw [tabulate_congr (g' := getP default c) (fun p hp => by rw [src_cw_ccw f d hp])]
  exact tabulate_getP default hc

theorem applyMove_ccw_cw {n : Nat} (f d : Nat) {c : Cube α} (hc : Shaped n c) :
    applyMove n f d 0 (applyMove n f d 1 c) = c := by
  rw [applyMove_applyMove]
  rw [tabulate_congr (g' := getP default c) (fun p hp => by rw [src_ccw_cw f d hp])]
  exact tabulate_getP default hc

theorem applyMove_half_half {n : Nat} (f d : Nat) {c : Cube α} (hc : Shaped n c) :
    applyMove n f d 2 (applyMove n f d 2 c) = c := by
  rw [applyMove_applyMove]
  rw [tabulate_congr (g' := getP default c) (fun p hp => by rw [src_half_half f d hp])]
  exact tabulate_getP default hc

/-- any move followed by the opposite move restores the cube -/
theorem applyMove_inv {n : Nat} (f d : Nat) {amt : Nat} {c : Cube α} (hc : Shaped n c) :
    applyMove n f d (invAmt amt) (applyMove n f d amt c) = c := by
  match amt with
  | 0 => exact applyMove_cw_ccw f d hc
  | 1 => exact applyMove_ccw_cw f d hc
  | (k + 2) => exact applyMove_half_half f d hc

theorem applyMove_half_eq (n f d : Nat) (c : Cube α) :
    applyMove n f d 0 (applyMove n f d 0 c) = applyMove n f d 2 c := by
  rw [applyMove_applyMove]; unfold applyMove
  exact tabulate_congr (fun p hp => by rw [src_half f d hp])

theorem applyMove_half_eq' (n f d : Nat) (c : Cube α) :
    applyMove n f d 1 (applyMove n f d 1 c) = applyMove n f d 2 c := by
  rw [applyMove_applyMove]; unfold applyMove
  exact tabulate_congr (fun p hp => by rw [src_half' f d hp])

theorem applyMove_cw_four {n : Nat} (f d : Nat) {c : Cube α} (hc : Shaped n c) :
    applyMove n f d 0 (applyMove n f d 0 (applyMove n f d 0 (applyMove n f d 0 c))) = c := by
  rw [applyMove_half_eq, applyMove_half_eq, applyMove_half_half f d hc]

end arrays


/-! ### conservation of the stickers -/

theorem mem_allPos {n : Nat} {p : Pos} : p ∈ allPos n ↔ p.Valid n := by
  obtain ⟨f, r, c⟩ := p
  simp only [allPos, List.mem_flatMap, List.mem_map, List.mem_range, Pos.Valid, Pos.mk.injEq]
  constructor
  · rintro ⟨f', hf, r', hr, c', hc, rfl, rfl, rfl⟩; exact ⟨hf, hr, hc⟩
  · rintro ⟨hf, hr, hc⟩; exact ⟨f, hf, r, hr, c, hc, rfl, rfl, rfl⟩

theorem nodup_allPos (n : Nat) : (allPos n).Nodup := by
  unfold allPos List.Nodup
  rw [List.pairwise_flatMap]
  refine ⟨fun f _ => ?_, ?_⟩
  · rw [List.pairwise_flatMap]
    refine ⟨fun r _ => ?_, ?_⟩
    · rw [List.pairwise_map]
      exact List.Pairwise.imp (fun h => by simpa using h) (List.nodup_range (n := n))
    · exact List.Pairwise.imp (fun {a b} h => by
        intro x hx y hy
        simp only [List.mem_map] at hx hy
        obtain ⟨_, _, rfl⟩ := hx
        obtain ⟨_, _, rfl⟩ := hy
        simp only [ne_eq, Pos.mk.injEq, not_and]
        intro _ e; exact absurd e h) (List.nodup_range (n := n))
  · exact List.Pairwise.imp (fun {a b} h => by
      intro x hx y hy
      simp only [List.mem_flatMap, List.mem_map] at hx hy
      obtain ⟨_, _, _, _, rfl⟩ := hx
      obtain ⟨_, _, _, _, rfl⟩ := hy
      simp only [ne_eq, Pos.mk.injEq, not_and]
      intro e; exact absurd e h) (List.nodup_range (n := 6))

/-- the source map permutes the positions -/
theorem perm_map_srcPos (n f d amt : Nat) : ((allPos n).map (srcPos n f d amt)).Perm (allPos n) := by
  rw [List.perm_ext_iff_of_nodup ?_ (nodup_allPos n)]
  · intro q
    simp only [List.mem_map, mem_allPos]
    constructor
    · rintro ⟨p, hp, rfl⟩; exact srcPos_valid f d amt hp
    · intro hq; exact ⟨dstPos n f d amt q, dstPos_valid f d amt hq, src_dst f d amt hq⟩
  · unfold List.Nodup
    rw [List.pairwise_map]
    refine List.Pairwise.imp_of_mem ?_ (nodup_allPos n)
    intro a b ha hb hab e
    apply hab
    have := congrArg (dstPos n f d amt) e
    rwa [dst_src f d amt (mem_allPos.1 ha), dst_src f d amt (mem_allPos.1 hb)] at this

section conserve
variable {α : Type}

theorem flatten_tabulate (n : Nat) (g : Pos → α) : (tabulate n g).flatten.flatten = (allPos n).map g := by
  simp [tabulate, allPos, List.flatMap_def, List.map_flatten, List.map_map, Function.comp_def, List.flatten_flatten]

/-- every move conserves the multiset of stickers -/
theorem applyMove_perm [Inhabited α] {n : Nat} (f d amt : Nat) {c : Cube α} (hc : Shaped n c) :
    (applyMove n f d amt c).flatten.flatten.Perm c.flatten.flatten := by
  have h1 : (applyMove n f d amt c).flatten.flatten = ((allPos n).map (srcPos n f d amt)).map (getP default c) := by
    unfold applyMove; rw [flatten_tabulate, List.map_map]; rfl
  have h2 : c.flatten.flatten = (allPos n).map (getP default c) := by
    rw [← flatten_tabulate, tabulate_getP default hc]
  rw [h1, h2]
  exact (perm_map_srcPos n f d amt).map _

end conserve

/-! ### solvability -/

section solv
variable {α : Type} [Inhabited α]

theorem shaped_move (n : Nat) (c : Cube α) (m : Move) : Shaped n (move n c m) := shaped_applyMove _ _ _ _ _

theorem shaped_playMoves {n : Nat} {c : Cube α} (hc : Shaped n c) (ms : List Move) : Shaped n (playMoves n c ms) := by
  induction ms generalizing c with
  | nil => exact hc
  | cons m ms ih => exact ih (shaped_move n c m)

theorem move_inv {n : Nat} {c : Cube α} (hc : Shaped n c) (m : Move) : move n (move n c m) m.inv = c :=
  applyMove_inv m.face m.depth hc

theorem playMoves_append (n : Nat) (c : Cube α) (a b : List Move) :
    playMoves n c (a ++ b) = playMoves n (playMoves n c a) b := by
  simp [playMoves, List.foldl_append]

/-- the reversed sequence of opposite moves undoes a sequence of moves -/
theorem playMoves_inv {n : Nat} {c : Cube α} (hc : Shaped n c) (ms : List Move) :
    playMoves n (playMoves n c ms) (invMoves ms) = c := by
  induction ms generalizing c with
  | nil => rfl
  | cons m ms ih =>
    have e : invMoves (m :: ms) = invMoves ms ++ [m.inv] := by simp [invMoves]
    rw [e, playMoves_append]
    show playMoves n (playMoves n (playMoves n (move n c m) ms) (invMoves ms)) [m.inv] = c
    rw [ih (shaped_move n c m)]
    exact move_inv hc m

theorem playMoves_perm {n : Nat} {c : Cube α} (hc : Shaped n c) (ms : List Move) :
    (playMoves n c ms).flatten.flatten.Perm c.flatten.flatten := by
  induction ms generalizing c with
  | nil => exact List.Perm.refl _
  | cons m ms ih => exact (ih (shaped_move n c m)).trans (applyMove_perm _ _ _ hc)

end solv

theorem legal_inv {n : Nat} {m : Move} (h : legal n m) : legal n m.inv := by
  obtain ⟨h1, h2, h3⟩ := h
  refine ⟨h1, h2, ?_⟩
  show invAmt m.amt < 3
  unfold invAmt; split <;> omega

theorem legal_invMoves {n : Nat} {ms : List Move} (h : ∀ m ∈ ms, legal n m) : ∀ m ∈ invMoves ms, legal n m := by
  intro m hm
  simp only [invMoves, List.mem_reverse, List.mem_map] at hm
  obtain ⟨m', hm', rfl⟩ := hm
  exact legal_inv (h m' hm')

theorem shaped_goal (n : Nat) : Shaped n (goal n) := shaped_tabulate n _

/-- whatever is reached from the goal by legal moves can be solved by legal moves -/
theorem reachable_solvable {n : Nat} {c : Cube Int} (h : Reachable n c) : Solvable n c := by
  obtain ⟨ms, hl, rfl⟩ := h
  exact ⟨invMoves ms, legal_invMoves hl, playMoves_inv (shaped_goal n) ms⟩

theorem reachable_play {n : Nat} {c : Cube Int} (h : Reachable n c) {ms : List Move} (hl : ∀ m ∈ ms, legal n m) :
    Reachable n (playMoves n c ms) := by
  obtain ⟨ms0, hl0, rfl⟩ := h
  refine ⟨ms0 ++ ms, ?_, playMoves_append n _ ms0 ms⟩
  intro m hm
  rcases List.mem_append.1 hm with h | h
  · exact hl0 m h
  · exact hl m h

/-! ### the L1 moves only move stickers around (naturality in the sticker type) -/
section natural
variable {α β : Type}

/-- recolouring: apply `g` to every sticker -/
def mapC (g : α → β) (c : Cube α) : Cube β := List.map (List.map (List.map g)) c

theorem cubeSize_mapC (g : α → β) (c : Cube α) : cubeSize (mapC g c) = cubeSize c := by
  unfold cubeSize mapC
  cases c with
  | nil => rfl
  | cons gr t =>
    cases gr with
    | nil => rfl
    | cons row t' => simp

theorem get3?_mapC (g : α → β) (c : Cube α) (p : Nat × Nat × Nat) :
    get3? (mapC g c) p = (get3? c p).map g := by
  unfold get3? mapC
  simp only [List.getElem?_map]
  cases c[p.1]? with
  | none => rfl
  | some gr =>
    simp only [Option.map_some, List.getElem?_map]
    cases gr[p.2.1]? with
    | none => rfl
    | some row => simp

theorem gridSet_map (g : α → β) (gr : Grid α) (r k : Nat) (v : α) :
    Grid.set (List.map (List.map g) gr) r k (g v) = List.map (List.map g) (Grid.set gr r k v) := by
  unfold Grid.set
  simp only [List.getElem?_map]
  cases gr[r]? with
  | none => rfl
  | some row => simp [List.map_set]

theorem set3_mapC (g : α → β) (c : Cube α) (p : Nat × Nat × Nat) (v : α) :
    set3 (mapC g c) p (g v) = mapC g (set3 c p v) := by
  unfold set3 mapC
  simp only [List.getElem?_map]
  cases c[p.1]? with
  | none => rfl
  | some gr => simp [List.map_set, gridSet_map]

theorem transpose_map (g : α → β) (x : Grid α) :
    Grid.transpose (List.map (List.map g) x) = List.map (List.map g) (Grid.transpose x) := by
  cases x with
  | nil => rfl
  | cons r t =>
    simp only [Grid.transpose, List.map_cons, List.length_map, List.map_map]
    apply List.map_congr_left
    intro k _
    simp only [Function.comp]
    rw [← List.map_cons (f := List.map g), List.filterMap_map, List.map_filterMap]
    congr 1
    funext row
    simp

theorem rot90_map (g : α → β) (x : Grid α) :
    Grid.rot90 (List.map (List.map g) x) = List.map (List.map g) (Grid.rot90 x) := by
  unfold Grid.rot90; rw [transpose_map, List.map_reverse]

theorem rot90k_map (g : α → β) (x : Grid α) (k : Nat) :
    Grid.rot90k (List.map (List.map g) x) k = List.map (List.map g) (Grid.rot90k x k) := by
  induction k with
  | zero => rfl
  | succ k ih => simp only [Grid.rot90k]; rw [ih, rot90_map]

theorem roll_map (g : α → β) (xs : List α) (k : Nat) : Jx.roll (xs.map g) k = (Jx.roll xs k).map g := by
  unfold Jx.roll
  simp only [List.length_map]
  split
  · rfl
  · simp [List.map_drop, List.map_take]

theorem foldl_set3_mapC (g : α → β) (idx : List (Nat × Nat × Nat)) (vals : List α) (c : Cube α) :
    (List.zip idx (vals.map g)).foldl (fun cb pv => set3 cb pv.1 pv.2) (mapC g c) =
      mapC g ((List.zip idx vals).foldl (fun cb pv => set3 cb pv.1 pv.2) c) := by
  induction idx generalizing vals c with
  | nil => simp
  | cons p t ih =>
    cases vals with
    | nil => simp
    | cons v vs =>
      simp only [List.map_cons, List.zip_cons_cons, List.foldl_cons]
      rw [set3_mapC, ih]

theorem doRotation_mapC (g : α → β) (c : Cube α) (face : Nat) (amount : Int) (depth : Nat)
    (adj cols rows : List Nat) :
    doRotation (mapC g c) face amount depth adj cols rows =
      mapC g (doRotation c face amount depth adj cols rows) := by
  unfold doRotation
  simp only [cubeSize_mapC]
  have h1 : (if depth = 0 then
        List.set (mapC g c) face (Grid.rot90k ((mapC g c).getD face []) ((-amount) % 4).toNat)
      else mapC g c) =
      mapC g (if depth = 0 then List.set c face (Grid.rot90k (c.getD face []) ((-amount) % 4).toNat) else c) := by
    split
    · have : (mapC g c).getD face [] = List.map (List.map g) (c.getD face []) := by
        unfold mapC
        simp only [List.getD_eq_getElem?_getD, List.getElem?_map]
        cases c[face]? <;> rfl
      rw [this, rot90k_map]
      unfold mapC
      rw [List.map_set]
    · rfl
  rw [h1]
  have h2 : ∀ (idx : List (Nat × Nat × Nat)) (c1 : Cube α),
      idx.filterMap (get3? (mapC g c1)) = (idx.filterMap (get3? c1)).map g := by
    intro idx c1
    rw [List.map_filterMap]
    congr 1
    funext p
    exact get3?_mapC g c1 p
  rw [h2, roll_map, foldl_set3_mapC]


theorem upMove_mapC (g : α → β) (amount : Int) (depth : Nat) (c : Cube α) :
    upMove amount depth (mapC g c) = mapC g (upMove amount depth c) := by
  unfold upMove; simp only [cubeSize_mapC]; exact doRotation_mapC ..
theorem frontMove_mapC (g : α → β) (amount : Int) (depth : Nat) (c : Cube α) :
    frontMove amount depth (mapC g c) = mapC g (frontMove amount depth c) := by
  unfold frontMove; simp only [cubeSize_mapC]; exact doRotation_mapC ..
theorem rightMove_mapC (g : α → β) (amount : Int) (depth : Nat) (c : Cube α) :
    rightMove amount depth (mapC g c) = mapC g (rightMove amount depth c) := by
  unfold rightMove; simp only [cubeSize_mapC]; exact doRotation_mapC ..
theorem backMove_mapC (g : α → β) (amount : Int) (depth : Nat) (c : Cube α) :
    backMove amount depth (mapC g c) = mapC g (backMove amount depth c) := by
  unfold backMove; simp only [cubeSize_mapC]; exact doRotation_mapC ..
theorem leftMove_mapC (g : α → β) (amount : Int) (depth : Nat) (c : Cube α) :
    leftMove amount depth (mapC g c) = mapC g (leftMove amount depth c) := by
  unfold leftMove; simp only [cubeSize_mapC]; exact doRotation_mapC ..
theorem downMove_mapC (g : α → β) (amount : Int) (depth : Nat) (c : Cube α) :
    downMove amount depth (mapC g c) = mapC g (downMove amount depth c) := by
  unfold downMove; simp only [cubeSize_mapC]; exact doRotation_mapC ..

/-- two lists of cube functions (on `β`-cubes and on `α`-cubes) that correspond under recolouring by `g` -/
def RelL (g : α → β) : List (Cube β → Cube β) → List (Cube α → Cube α) → Prop
  | [], [] => True
  | a :: as, b :: bs => (∀ c, a (mapC g c) = mapC g (b c)) ∧ RelL g as bs
  | _, _ => False

theorem RelL.append {g : α → β} {a a' : List (Cube β → Cube β)} {b b' : List (Cube α → Cube α)}
    (h : RelL g a b) (h' : RelL g a' b') : RelL g (a ++ a') (b ++ b') := by
  induction a generalizing b with
  | nil => cases b with
    | nil => exact h'
    | cons _ _ => exact h.elim
  | cons x xs ih => cases b with
    | nil => exact h.elim
    | cons y ys => exact ⟨h.1, ih h.2⟩

theorem RelL.length {g : α → β} {a : List (Cube β → Cube β)} {b : List (Cube α → Cube α)}
    (h : RelL g a b) : a.length = b.length := by
  induction a generalizing b with
  | nil => cases b with
    | nil => rfl
    | cons _ _ => exact h.elim
  | cons x xs ih => cases b with
    | nil => exact h.elim
    | cons y ys => simp [ih h.2]

theorem RelL.getD {g : α → β} {a : List (Cube β → Cube β)} {b : List (Cube α → Cube α)}
    (h : RelL g a b) (i : Nat) (c : Cube α) : a.getD i id (mapC g c) = mapC g (b.getD i id c) := by
  induction a generalizing b i with
  | nil => cases b with
    | nil => simp
    | cons _ _ => exact h.elim
  | cons x xs ih => cases b with
    | nil => exact h.elim
    | cons y ys =>
      cases i with
      | zero => simpa using h.1 c
      | succ i => simpa using ih h.2 i

theorem relL_depths (g : α → β) (fb : Int → Nat → Cube β → Cube β) (fa : Int → Nat → Cube α → Cube α)
    (h : ∀ amount depth c, fb amount depth (mapC g c) = mapC g (fa amount depth c)) (ds : List Nat) :
    RelL g (ds.flatMap (fun depth => amountValues.map (fun amount => fb amount depth)))
           (ds.flatMap (fun depth => amountValues.map (fun amount => fa amount depth))) := by
  induction ds with
  | nil => exact True.intro
  | cons d t ih =>
    simp only [List.flatMap_cons]
    refine RelL.append ?_ ih
    simp only [amountValues, List.map_cons, List.map_nil]
    exact ⟨h _ _, h _ _, h _ _, True.intro⟩

theorem relL_allMoves (g : α → β) (n : Nat) : RelL g (allMoves (α := β) n) (allMoves (α := α) n) := by
  unfold allMoves
  simp only [List.flatMap_cons, List.flatMap_nil, List.append_nil]
  exact (relL_depths g _ _ (upMove_mapC g) _).append <| (relL_depths g _ _ (frontMove_mapC g) _).append <|
    (relL_depths g _ _ (rightMove_mapC g) _).append <| (relL_depths g _ _ (backMove_mapC g) _).append <|
    (relL_depths g _ _ (leftMove_mapC g) _).append (relL_depths g _ _ (downMove_mapC g) _)

/-- `rotate_cube` commutes with every recolouring of the stickers: the move does not look at the colours -/
theorem rotateCube_mapC (g : α → β) (c : Cube α) (flat : Int) :
    rotateCube (mapC g c) flat = mapC g (rotateCube c flat) := by
  unfold rotateCube
  simp only [cubeSize_mapC]
  have hl := (relL_allMoves g (cubeSize c)).length
  rw [hl]
  exact (relL_allMoves g (cubeSize c)).getD _ c

theorem mapC_tabulate (g : α → β) (n : Nat) (h : Pos → α) : mapC g (tabulate n h) = tabulate n (fun p => g (h p)) := by
  simp [mapC, tabulate, Function.comp_def]

/-- a shaped cube is the recolouring of the position-labelled cube by its own colouring -/
theorem mapC_labelCube (dflt : α) {n : Nat} {c : Cube α} (hc : Shaped n c) : mapC (getP dflt c) (labelCube n) = c := by
  unfold labelCube; rw [mapC_tabulate]; exact tabulate_getP dflt hc

/-- if the L1 move number `flat` acts on the position-labelled cube as the table of `srcPos`, it acts on EVERY
colouring as the physical move -/
theorem rotateCube_eq_of_label [Inhabited α] {n : Nat} {flat : Int} {f d amt : Nat}
    (h : rotateCube (labelCube n) flat = tabulate n (srcPos n f d amt)) {c : Cube α} (hc : Shaped n c) :
    rotateCube c flat = applyMove n f d amt c := by
  conv => lhs; rw [← mapC_labelCube default hc]
  rw [rotateCube_mapC, h, mapC_tabulate]; rfl

end natural


/-! ### action encodings -/

theorem ofFlat_flat {n : Nat} {m : Move} (h : legal n m) : Move.ofFlat n (Move.flat n m) = m := by
  obtain ⟨f, d, a⟩ := m
  obtain ⟨_, hd, ha⟩ := h
  simp only at hd ha
  have hpos : 0 < n / 2 := by omega
  unfold Move.ofFlat Move.flat
  simp only
  have e : f * 3 * (n / 2) = (f * (n / 2)) * 3 := Nat.mul_right_comm f 3 (n / 2)
  rw [e]
  generalize hk : f * (n / 2) = k
  have e1 : (k * 3 + d * 3 + a) / 3 = d + k := by omega
  have e2 : (k * 3 + d * 3 + a) % 3 = a := by omega
  rw [e1, e2, ← hk, Nat.add_mul_div_right _ _ hpos, Nat.add_mul_mod_self_right, Nat.div_eq_of_lt hd, Nat.mod_eq_of_lt hd]
  simp

theorem flat_ofFlat {n : Nat} (i : Nat) : Move.flat n (Move.ofFlat n i) = i := by
  unfold Move.ofFlat Move.flat
  simp only
  have e : i / 3 / (n / 2) * 3 * (n / 2) = (i / 3 / (n / 2) * (n / 2)) * 3 := Nat.mul_right_comm _ 3 (n / 2)
  rw [e]
  have := Nat.div_add_mod' (i / 3) (n / 2)
  generalize i / 3 / (n / 2) * (n / 2) = x at *
  generalize i / 3 % (n / 2) = y at *
  omega

theorem legal_ofFlat {n i : Nat} (h : i < 18 * (n / 2)) : legal n (Move.ofFlat n i) := by
  have hpos : 0 < n / 2 := by omega
  refine ⟨?_, Nat.mod_lt _ hpos, Nat.mod_lt _ (by decide)⟩
  show i / 3 / (n / 2) < 6
  rw [Nat.div_lt_iff_lt_mul hpos]
  omega

theorem flat_lt {n : Nat} {m : Move} (h : legal n m) : Move.flat n m < 18 * (n / 2) := by
  obtain ⟨f, d, a⟩ := m
  obtain ⟨hf, hd, ha⟩ := h
  simp only at hf hd ha
  unfold Move.flat
  simp only
  have e : f * 3 * (n / 2) = (f * (n / 2)) * 3 := Nat.mul_right_comm f 3 (n / 2)
  have : f * (n / 2) ≤ 5 * (n / 2) := Nat.mul_le_mul_right _ (by omega)
  omega

/-- L1 encodings on integers agree with the rule-level ones on naturals -/
theorem flattenAction_cast (n : Nat) (m : Move) :
    flattenAction n ((m.face : Int), (m.depth : Int), (m.amt : Int)) = ((Move.flat n m : Nat) : Int) := by
  unfold flattenAction Move.flat
  simp [Int.natCast_add, Int.natCast_mul]

theorem unflattenAction_cast (n : Nat) (i : Nat) :
    unflattenAction n (i : Int) =
      (((Move.ofFlat n i).face : Int), ((Move.ofFlat n i).depth : Int), ((Move.ofFlat n i).amt : Int)) := by
  unfold unflattenAction Move.ofFlat
  simp [Int.natCast_ediv, Int.natCast_emod]

/-! ### the solved test -/

theorem foldl_max_ge (xs : List Int) (a : Int) : a ≤ xs.foldl max a ∧ ∀ x ∈ xs, x ≤ xs.foldl max a := by
  induction xs generalizing a with
  | nil => simp
  | cons y t ih =>
    simp only [List.foldl_cons, List.mem_cons]
    obtain ⟨h1, h2⟩ := ih (max a y)
    refine ⟨by omega, ?_⟩
    rintro x (rfl | hx)
    · omega
    · exact h2 x hx

theorem foldl_min_le (xs : List Int) (a : Int) : xs.foldl min a ≤ a ∧ ∀ x ∈ xs, xs.foldl min a ≤ x := by
  induction xs generalizing a with
  | nil => simp
  | cons y t ih =>
    simp only [List.foldl_cons, List.mem_cons]
    obtain ⟨h1, h2⟩ := ih (min a y)
    refine ⟨by omega, ?_⟩
    rintro x (rfl | hx)
    · omega
    · exact h2 x hx

theorem foldl_max_const (xs : List Int) (a : Int) (h : ∀ x ∈ xs, x = a) : xs.foldl max a = a := by
  induction xs with
  | nil => rfl
  | cons y t ih =>
    have := h y (by simp)
    subst this
    simp only [List.foldl_cons, Int.max_self]
    exact ih (fun x hx => h x (by simp [hx]))

theorem foldl_min_const (xs : List Int) (a : Int) (h : ∀ x ∈ xs, x = a) : xs.foldl min a = a := by
  induction xs with
  | nil => rfl
  | cons y t ih =>
    have := h y (by simp)
    subst this
    simp only [List.foldl_cons, Int.min_self]
    exact ih (fun x hx => h x (by simp [hx]))

/-- max = min exactly when all elements are equal (to the first) -/
theorem maxL_eq_minL_iff (xs : List Int) : maxL xs = minL xs ↔ ∀ x ∈ xs, x = xs.headD 0 := by
  unfold maxL minL
  constructor
  · intro h x hx
    have a := foldl_max_ge xs (xs.headD 0)
    have b := foldl_min_le xs (xs.headD 0)
    have := a.2 x hx
    have := b.2 x hx
    omega
  · intro h
    rw [foldl_max_const xs _ h, foldl_min_const xs _ h]

theorem isSolved_iff_faces (c : Cube Int) :
    isSolved c = true ↔ ∀ g ∈ c, ∀ x ∈ g.flatten, x = g.flatten.headD 0 := by
  unfold isSolved
  rw [beq_iff_eq, List.map_inj_left]
  exact forall_congr' (fun g => forall_congr' (fun _ => maxL_eq_minL_iff _))

theorem getP_mem {n : Nat} {c : Cube Int} (hc : Shaped n c) {p : Pos} (hp : p.Valid n) :
    ∃ g ∈ c, c[p.f]? = some g ∧ getP 0 c p ∈ g.flatten ∧ g.flatten.headD 0 = getP 0 c ⟨p.f, 0, 0⟩ := by
  obtain ⟨f, r, k⟩ := p
  obtain ⟨hf, hr, hk⟩ := hp
  simp only at hf hr hk
  have hf' : f < c.length := by rw [hc.1]; exact hf
  have hg := hc.2 _ (List.getElem_mem hf')
  have hr' : r < c[f].length := by rw [hg.1]; exact hr
  have hrow := hg.2 _ (List.getElem_mem hr')
  have hk' : k < c[f][r].length := by rw [hrow]; exact hk
  have h0 : 0 < c[f].length := by omega
  have hrow0 := hg.2 _ (List.getElem_mem h0)
  have hk0 : 0 < c[f][0].length := by omega
  refine ⟨c[f], List.getElem_mem hf', by simp, ?_, ?_⟩
  · simp only [getP, List.getD_eq_getElem?_getD, List.getElem?_eq_getElem, hf', hr', hk', Option.getD_some]
    exact List.mem_flatten.2 ⟨c[f][r], List.getElem_mem hr', List.getElem_mem hk'⟩
  · simp only [getP, List.getD_eq_getElem?_getD, List.getElem?_eq_getElem, hf', h0, hk0, Option.getD_some]
    match hcf : c[f], h0, hk0 with
    | (a :: b) :: t, _, _ => simp [Grid.flatten]
    | [] :: t, _, h => simp at h
    | [], h, _ => simp at h

theorem mem_flatten_getP {n : Nat} {c : Cube Int} (hc : Shaped n c) {f : Nat} (hf : f < c.length) {x : Int}
    (hx : x ∈ (c[f]).flatten) : ∃ r k, (⟨f, r, k⟩ : Pos).Valid n ∧ getP 0 c ⟨f, r, k⟩ = x := by
  obtain ⟨row, hrow, hxr⟩ := List.mem_flatten.1 hx
  obtain ⟨r, hr, rfl⟩ := List.getElem_of_mem hrow
  obtain ⟨k, hk, rfl⟩ := List.getElem_of_mem hxr
  have hg := hc.2 _ (List.getElem_mem hf)
  refine ⟨r, k, ⟨by rw [← hc.1]; exact hf, by rw [← hg.1]; exact hr, by rw [← hg.2 _ hrow]; exact hk⟩, ?_⟩
  simp [getP, List.getD_eq_getElem?_getD, List.getElem?_eq_getElem, hf, hr, hk]

/-- `is_solved` accepts exactly the cubes whose six faces are each of one colour -/
theorem isSolved_iff {n : Nat} {c : Cube Int} (hc : Shaped n c) : isSolved c = true ↔ Monochrome n c := by
  rw [isSolved_iff_faces]
  unfold Monochrome
  constructor
  · intro h p hp
    obtain ⟨g, hg, _, hmem, hhead⟩ := getP_mem hc (mem_allPos.1 hp)
    rw [← hhead]; exact h g hg _ hmem
  · intro h g hg x hx
    obtain ⟨f, hf, rfl⟩ := List.getElem_of_mem hg
    obtain ⟨r, k, hv, rfl⟩ := mem_flatten_getP hc hf hx
    obtain ⟨g', _, hg', _, hhead⟩ := getP_mem hc hv
    have : g' = c[f] := by simpa [List.getElem?_eq_getElem hf] using hg'.symm
    subst this
    rw [hhead]; exact h _ (mem_allPos.2 hv)


/-! ### the step function -/

theorem step_obs (cfg : Cfg) (s : State) (a : Int × Int × Int) : (step cfg s a).2.obs = observe (step cfg s a).1 := by
  unfold step condLast; simp only; split <;> rfl

theorem step_count (cfg : Cfg) (s : State) (a : Int × Int × Int) : (step cfg s a).1.stepCount = s.stepCount + 1 := rfl

theorem step_cube (cfg : Cfg) (s : State) (a : Int × Int × Int) :
    (step cfg s a).1.cube = rotateCube s.cube (flattenAction cfg.n a) := rfl

theorem step_last_iff (cfg : Cfg) (s : State) (a : Int × Int × Int) :
    (step cfg s a).2.stepType = .last ↔
      (cfg.timeLimit ≤ (step cfg s a).1.stepCount ∨ isSolved (step cfg s a).1.cube = true) := by
  unfold step condLast; simp only
  split
  · rename_i h; simp only [termination, true_iff]; simpa using h
  · rename_i h; simp only [transition]; simpa using h

theorem step_reward (cfg : Cfg) (s : State) (a : Int × Int × Int) :
    (step cfg s a).2.reward = [if isSolved (step cfg s a).1.cube = true then 1 else 0] := by
  unfold step condLast sparseReward; simp only; split <;> rfl

/-- a non-zero reward is 1, is given for a solved cube, and ends the episode -/
theorem step_reward_pos (cfg : Cfg) (s : State) (a : Int × Int × Int) (h : (step cfg s a).2.reward ≠ [0]) :
    (step cfg s a).2.reward = [1] ∧ isSolved (step cfg s a).1.cube = true ∧ (step cfg s a).2.stepType = .last := by
  rw [step_reward] at h
  rw [step_reward, step_last_iff]
  by_cases hs : isSolved (step cfg s a).1.cube = true
  · simp [hs]
  · simp [hs] at h

/-- refinement of the step, given that the L1 move is the physical move on this cube -/
theorem step_eq_stepL2_of (cfg : Cfg) (s : State) (m : Move)
    (H : rotateCube s.cube (flattenAction cfg.n ((m.face : Int), (m.depth : Int), (m.amt : Int))) = move cfg.n s.cube m) :
    step cfg s ((m.face : Int), (m.depth : Int), (m.amt : Int)) = stepL2 cfg s m := by
  have hs : isSolved (move cfg.n s.cube m) = decide (Monochrome cfg.n (move cfg.n s.cube m)) := by
    rw [Bool.eq_iff_iff]; simp [isSolved_iff (shaped_move cfg.n s.cube m)]
  unfold step stepL2 condLast sparseReward observe
  simp only [H, hs]
  by_cases h1 : Monochrome cfg.n (move cfg.n s.cube m) <;> by_cases h2 : cfg.timeLimit ≤ s.stepCount + 1 <;>
    simp [h1, h2]


/-! ### from the position-labelled cube to every colouring, every play and the step -/

/-- all L1 moves of size `n` act on the position-labelled cube as the physical source map -/
def tableOK (n : Nat) : Bool :=
  (List.range (18 * (n / 2))).all fun i =>
    let m := Move.ofFlat n i
    rotateCube (labelCube n) (i : Int) == tabulate n (srcPos n m.face m.depth m.amt)


/-- on every colouring of a cube of a size for which `tableOK` holds, the L1 move selected by the flat index of a legal action
is the physical move -/
theorem rotateCube_eq_move_of_table {α : Type} [Inhabited α] {n : Nat} (h : tableOK n = true) {c : Cube α}
    (hc : Shaped n c) {m : Move} (hm : legal n m) :
    rotateCube c (flattenAction n ((m.face : Int), (m.depth : Int), (m.amt : Int))) = move n c m := by
  rw [flattenAction_cast]
  unfold tableOK at h
  rw [List.all_eq_true] at h
  have := h (Move.flat n m) (List.mem_range.2 (flat_lt hm))
  simp only [ofFlat_flat hm, beq_iff_eq] at this
  exact rotateCube_eq_of_label this hc


/-- the integer action of a move -/
def Move.act (m : Move) : Int × Int × Int := ((m.face : Int), (m.depth : Int), (m.amt : Int))

theorem solvedCube_eq_goal (n : Nat) : solvedCube n = goal n := by
  unfold solvedCube goal tabulate
  apply List.map_congr_left
  intro f _
  apply List.ext_getElem
  · simp
  · intro r h1 h2
    apply List.ext_getElem
    · simp
    · intro k _ _; simp

theorem monochrome_goal (n : Nat) : Monochrome n (goal n) := by
  intro p hp
  have hv := mem_allPos.1 hp
  unfold goal
  have hv0 : (⟨p.f, 0, 0⟩ : Pos).Valid n := ⟨hv.1, by have := hv.2.1; show 0 < n; omega, by have := hv.2.2; show 0 < n; omega⟩
  rw [getP_tabulate 0 n _ hv, getP_tabulate 0 n _ hv0]

theorem isSolved_solvedCube (n : Nat) : isSolved (solvedCube n) = true := by
  rw [solvedCube_eq_goal, isSolved_iff (shaped_goal n)]; exact monochrome_goal n

section table
variable {n : Nat} (h : tableOK n = true)
include h

/-- L1 play of a list of legal actions = rule-level play -/
theorem foldl_rotateCube_eq_playMoves {α : Type} [Inhabited α] {c : Cube α} (hc : Shaped n c) {ms : List Move}
    (hl : ∀ m ∈ ms, legal n m) :
    (ms.map (fun m => flattenAction n m.act)).foldl rotateCube c = playMoves n c ms := by
  induction ms generalizing c with
  | nil => rfl
  | cons m t ih =>
    simp only [List.map_cons, List.foldl_cons]
    rw [show flattenAction n m.act = flattenAction n ((m.face : Int), (m.depth : Int), (m.amt : Int)) from rfl,
      rotateCube_eq_move_of_table h hc (hl m (by simp))]
    exact ih (shaped_move n c m) (fun m' hm' => hl m' (by simp [hm']))

/-- the scramble is a play of legal moves from the goal -/
theorem scramble_eq_playMoves {ms : List Move} (hl : ∀ m ∈ ms, legal n m) :
    scramble n (ms.map (fun m => flattenAction n m.act)) = playMoves n (goal n) ms := by
  unfold scramble; rw [solvedCube_eq_goal]; exact foldl_rotateCube_eq_playMoves h (shaped_goal n) hl

theorem scramble_reachable {ms : List Move} (hl : ∀ m ∈ ms, legal n m) :
    Reachable n (scramble n (ms.map (fun m => flattenAction n m.act))) :=
  ⟨ms, hl, (scramble_eq_playMoves h hl).symm⟩

/-- L1 steps keep the cube reachable (hence solvable) -/
theorem step_reachable (cfg : Cfg) (hn : cfg.n = n) {s : State} (hr : Reachable n s.cube) {m : Move} (hm : legal n m) :
    Reachable n (step cfg s m.act).1.cube := by
  subst hn
  have hc : Shaped cfg.n s.cube := by obtain ⟨ms, _, e⟩ := hr; rw [← e]; exact shaped_playMoves (shaped_goal _) ms
  rw [step_cube]
  rw [show flattenAction cfg.n m.act = flattenAction cfg.n ((m.face : Int), (m.depth : Int), (m.amt : Int)) from rfl,
    rotateCube_eq_move_of_table h hc hm]
  exact reachable_play hr (ms := [m]) (by simpa using hm)

theorem step_eq_stepL2 (cfg : Cfg) (hn : cfg.n = n) {s : State} (hc : Shaped n s.cube) {m : Move} (hm : legal n m) :
    step cfg s m.act = stepL2 cfg s m := by
  subst hn
  exact step_eq_stepL2_of cfg s m (rotateCube_eq_move_of_table h hc hm)

end table

/-! ### odd sizes: the centre stickers never move, so a reachable solved cube is the goal -/

/-- the centre position of face `f` -/
def centre (n f : Nat) : Pos := ⟨f, n / 2, n / 2⟩

theorem centre_outside {n : Nat} (hodd : n % 2 = 1) {f d : Nat} (hd : d < n / 2) (hf : f < 6) {pf : Nat} (hpf : pf < 6)
    (hne : pf ≠ f) : ¬ inLayer n f d (emb n (centre n pf)) := by
  have hf' : f = 0 ∨ f = 1 ∨ f = 2 ∨ f = 3 ∨ f = 4 ∨ f = 5 := by omega
  have hp' : pf = 0 ∨ pf = 1 ∨ pf = 2 ∨ pf = 3 ∨ pf = 4 ∨ pf = 5 := by omega
  rcases hf' with rfl | rfl | rfl | rfl | rfl | rfl <;> rcases hp' with rfl | rfl | rfl | rfl | rfl | rfl <;>
    simp [inLayer, height, emb, centre, ctr] at hne ⊢ <;> omega

theorem centre_on_axis {n : Nat} (hodd : n % 2 = 1) {f : Nat} (hf : f < 6) :
    cwTurn f (emb n (centre n f)) = emb n (centre n f) := by
  have hf' : f = 0 ∨ f = 1 ∨ f = 2 ∨ f = 3 ∨ f = 4 ∨ f = 5 := by omega
  rcases hf' with rfl | rfl | rfl | rfl | rfl | rfl <;> simp [cwTurn, emb, centre, ctr] <;> omega

/-- no move of the action space moves a centre sticker (odd `n`) -/
theorem srcPos_centre {n : Nat} (hodd : n % 2 = 1) {m : Move} (hm : legal n m) {pf : Nat} (hpf : pf < 6) :
    srcPos n m.face m.depth m.amt (centre n pf) = centre n pf := by
  have hv : (centre n pf).Valid n := ⟨hpf, Nat.div_lt_self (by omega) (by omega), Nat.div_lt_self (by omega) (by omega)⟩
  obtain ⟨f, d, a⟩ := m
  simp only
  by_cases hne : pf = f
  · subst hne
    unfold srcPos physTurn
    have hiter : ∀ k, iter (cwTurn pf) k (emb n (centre n pf)) = emb n (centre n pf) := by
      intro k; induction k with
      | zero => rfl
      | succ k ih => simp only [iter, ih]; exact centre_on_axis hodd hpf
    split
    · rw [hiter, unemb_emb hv]
    · exact unemb_emb hv
  · exact srcPos_outside _ _ _ hv (centre_outside hodd hm.2.1 hm.1 hpf hne)

theorem centre_colour_move {n : Nat} (hodd : n % 2 = 1) {m : Move} (hm : legal n m) (c : Cube Int) {pf : Nat} (hpf : pf < 6) :
    getP 0 (move n c m) (centre n pf) = getP 0 c (centre n pf) := by
  have hv : (centre n pf).Valid n := ⟨hpf, Nat.div_lt_self (by omega) (by omega), Nat.div_lt_self (by omega) (by omega)⟩
  unfold move
  have := getP_applyMove n m.face m.depth m.amt c hv
  rw [show (default : Int) = 0 from rfl] at this
  rw [this, srcPos_centre hodd hm hpf]

theorem centre_colour_play {n : Nat} (hodd : n % 2 = 1) (ms : List Move) (hl : ∀ m ∈ ms, legal n m) (c : Cube Int)
    {pf : Nat} (hpf : pf < 6) : getP 0 (playMoves n c ms) (centre n pf) = getP 0 c (centre n pf) := by
  induction ms generalizing c with
  | nil => rfl
  | cons m t ih =>
    show getP 0 (playMoves n (move n c m) t) (centre n pf) = _
    rw [ih (fun m' hm' => hl m' (by simp [hm'])), centre_colour_move hodd (hl m (by simp)) c hpf]

/-- odd `n`: a cube reachable from the goal that passes the solved test IS the goal -/
theorem reachable_monochrome_eq_goal {n : Nat} (hodd : n % 2 = 1) {c : Cube Int} (hr : Reachable n c)
    (hm : Monochrome n c) : c = goal n := by
  obtain ⟨ms, hl, rfl⟩ := hr
  refine cube_ext 0 (shaped_playMoves (shaped_goal n) ms) (shaped_goal n) ?_
  intro p hp
  have hn : 0 < n := by have := hp.2.1; omega
  have hc : (centre n p.f).Valid n := ⟨hp.1, Nat.div_lt_self hn (by omega), Nat.div_lt_self hn (by omega)⟩
  have h0 : (⟨p.f, 0, 0⟩ : Pos).Valid n := ⟨hp.1, hn, hn⟩
  have e1 := hm p (mem_allPos.2 hp)
  have e2 := hm (centre n p.f) (mem_allPos.2 hc)
  have e3 := centre_colour_play hodd ms hl (goal n) hp.1
  simp only [centre] at e2 e3
  rw [e1, ← e2]
  simp only [centre] at hc
  rw [e3]
  unfold goal
  rw [getP_tabulate 0 n _ hc, getP_tabulate 0 n _ hp]


end RubiksCube
