/-
RubiksCube — wave 2 (audit r3 entries 1, 2, 8, 9, 13 and the listed gaps): the declared specs as `Sp` values and membership
of everything `reset` / `step` emit (C01), the FIRST / MID / LAST protocol for ALL states and actions (C03), whole
episodes (`run`, C11), reachability along whole plays (C17) and what the solved test accepts (C17).
-/
import JumanjiModel.Env.RubiksCube.BoundsLemmas
import JumanjiModel.Env.PuzzleSpecValid
import JumanjiModel.Env.EpisodeLimit
namespace RubiksCube
open Jm Jx Sp PzS PzB

/-! ### the declared specs (env.py `observation_spec`, `action_spec`) -/

/-- `observation_spec`: `cube` BoundedArray((6, n, n), int8, 0, 5), `step_count` BoundedArray((), int32, 0, time_limit) -/
def obsSpec (cfg : Cfg) : Sp.Nested :=
  [("cube", .bounded [6, cfg.n, cfg.n] .int8 "cube" [] [0] [] [5]),
   ("step_count", .bounded [] .int32 "step_count" [] [0] [] [(cfg.timeLimit : Rat)])]

/-- `action_spec`: MultiDiscreteArray([6, n // 2, 3], int32) -/
def actionSpec (cfg : Cfg) : Leaf := .multiDiscrete [3] [6, cfg.n / 2, 3] .int32 "action"

/-- the shape of a nested-list cube, read off the value (outer length, length of the first face, length of its first row) -/
def cubeShape (c : Cube Int) : List Nat := [c.length, (c.headD []).length, cubeSize c]

/-- a model observation as the arrays the implementation emits (cube int8, step_count int32) -/
def toNValue (o : Obs) : NValue :=
  [("cube", ⟨cubeShape o.cube, .int8, ofInts o.cube.flatten.flatten⟩),
   ("step_count", ⟨[], .int32, [(o.stepCount : Rat)]⟩)]

/-- an action of the model as the array the implementation receives -/
def actionArr (a : Int × Int × Int) : Arr := ⟨[3], .int32, [(a.1 : Rat), (a.2.1 : Rat), (a.2.2 : Rat)]⟩

theorem shaped_lengths {n : Nat} {c : Cube Int} (hc : Shaped n c) :
    cubeShape c = [6, n, n] ∧ c.flatten.flatten.length = 6 * n * n := by
  obtain ⟨h6, hg⟩ := hc
  have hrows : ∀ row ∈ c.flatten, row.length = n := by
    intro row hrow
    obtain ⟨g, hgm, hr⟩ := List.mem_flatten.mp hrow
    exact (hg g hgm).2 row hr
  have hfl : c.flatten.length = 6 * n := by
    rw [length_flatten_const c n (fun g hgm => (hg g hgm).1), h6]
  refine ⟨?_, by rw [length_flatten_const _ n hrows, hfl]⟩
  match c, h6, hg with
  | g :: rest, h6, hg =>
    have hgl := hg g (by simp)
    simp only [cubeShape, cubeSize, List.headD_cons, h6]
    congr 1; congr 1
    · exact hgl.1
    · congr 1
      match g, hgl with
      | [], hgl => simpa using hgl.1
      | row :: _, hgl => simpa using hgl.2 row (by simp)

/-- C01: an observation whose cube is `(6, n, n)` with colours 0..5 and whose step count is in `[0, time_limit]` is a member
of `observation_spec`: same fields, each of the declared shape and dtype, every element within the declared bounds -/
theorem obs_valid (cfg : Cfg) (o : Obs) (hc : Shaped cfg.n o.cube) (hr : ColoursInRange o.cube)
    (hs : 0 ≤ o.stepCount ∧ o.stepCount ≤ cfg.timeLimit) : (obsSpec cfg).valid (toNValue o) = true := by
  obtain ⟨hsh, hlen⟩ := shaped_lengths hc
  have h1 : (Leaf.bounded [6, cfg.n, cfg.n] .int8 "cube" [] [0] [] [5]).valid
      ⟨cubeShape o.cube, .int8, ofInts o.cube.flatten.flatten⟩ = true := by
    rw [hsh]
    refine valid_scalar_bounded _ _ _ _ _ _ (by rw [ofInts, List.length_map, hlen, prod_three]) ?_
    have := ofInts_bounds o.cube.flatten.flatten 0 5 hr
    simpa using this
  have h2 : (Leaf.bounded [] .int32 "step_count" [] [0] [] [(cfg.timeLimit : Rat)]).valid
      ⟨[], .int32, [(o.stepCount : Rat)]⟩ = true := by
    refine valid_scalar_bounded _ _ _ _ _ _ (by simp [prod]) ?_
    intro x hx
    simp only [List.mem_cons, List.not_mem_nil, or_false] at hx
    subst hx
    exact ⟨by simpa using Rat.intCast_le_intCast.mpr hs.1, Rat.intCast_le_intCast.mpr hs.2⟩
  simp [Nested.valid, obsSpec, toNValue, h1, h2]

/-- … and conversely `validate` accepts nothing else: a member has the declared shape and all its values in range -/
theorem obs_valid_only (cfg : Cfg) (o : Obs) (h : (obsSpec cfg).valid (toNValue o) = true) :
    cubeShape o.cube = [6, cfg.n, cfg.n] ∧ ColoursInRange o.cube ∧ 0 ≤ o.stepCount ∧ o.stepCount ≤ cfg.timeLimit := by
  simp only [Nested.valid, obsSpec, toNValue, List.map_cons, List.map_nil, List.zipWith_cons_cons, List.zipWith_nil_right,
    List.all_cons, List.all_nil, id, Bool.and_true, Bool.and_eq_true, beq_self_eq_true, true_and] at h
  obtain ⟨h1, h2⟩ := h
  rw [valid_scalar_bounded_iff] at h1 h2
  refine ⟨h1.1, ?_, ?_⟩
  · intro v hv
    have := h1.2.2.2 (v : Rat) (by simp only [ofInts, List.mem_map]; exact ⟨v, hv, rfl⟩)
    exact ⟨by simpa using (Rat.intCast_le_intCast (a := 0) (b := v)).mp (by simpa using this.1),
           by simpa using (Rat.intCast_le_intCast (a := v) (b := 5)).mp (by simpa using this.2)⟩
  · have := h2.2.2.2 (o.stepCount : Rat) (by simp)
    exact ⟨(Rat.intCast_le_intCast (a := 0)).mp (by simpa using this.1), Rat.intCast_le_intCast.mp this.2⟩

/-! ### C03: the protocol, for ALL states and actions (also after LAST, also outside the action space) -/

theorem step_protocol (cfg : Cfg) (s : State) (a : Int × Int × Int) : StepOK none false (step cfg s a).2 = true := by
  unfold step condLast sparseReward
  simp only
  split <;> split <;> rfl

/-- the same spelled out: never FIRST; reward and discount are scalars; MID ⇒ discount 1; LAST ⇒ discount 0 -/
theorem step_protocol_explicit (cfg : Cfg) (s : State) (a : Int × Int × Int) :
    (step cfg s a).2.stepType ≠ .first ∧ (step cfg s a).2.reward.length = 1 ∧
    ((step cfg s a).2.discount = [0] ∨ (step cfg s a).2.discount = [1]) ∧
    ((step cfg s a).2.stepType = .mid → (step cfg s a).2.discount = [1]) ∧
    ((step cfg s a).2.stepType = .last → (step cfg s a).2.discount = [0]) := by
  unfold step condLast
  simp only
  split <;> simp [termination, transition, zerosR, onesR, RShape.size]

theorem step_mid_or_last (cfg : Cfg) (s : State) (a : Int × Int × Int) :
    (step cfg s a).2.stepType = .last ∨ (step cfg s a).2.stepType = .mid := by
  unfold step condLast
  simp only
  split <;> simp [termination, transition]

theorem reset_protocol (cfg : Cfg) (flats : List Int) :
    ResetOK none (reset cfg flats).2 = true ∧ (reset cfg flats).2.stepType = .first ∧
    (reset cfg flats).2.reward = [0] ∧ (reset cfg flats).2.discount = [1] := by
  refine ⟨by simp [reset, restart, ResetOK], rfl, rfl, rfl⟩

/-- C12: the reset observation is the observation function of the reset state: the scrambled cube and step count 0 -/
theorem reset_obs (cfg : Cfg) (flats : List Int) :
    (reset cfg flats).2.obs = observe (reset cfg flats).1 ∧
    (reset cfg flats).2.obs = ⟨scramble cfg.n flats, 0⟩ ∧ (reset cfg flats).1 = genState cfg.n flats := ⟨rfl, rfl, rfl⟩

/-! ### C01: reset / step emit members of the declared specs -/

theorem reset_obs_valid (cfg : Cfg) (hT : 0 ≤ cfg.timeLimit) (scr : List Move) (hs : ∀ m ∈ scr, legal cfg.n m) :
    (obsSpec cfg).valid (toNValue (reset cfg (scr.map (fun m => flattenAction cfg.n m.act))).2.obs) = true := by
  have := scramble_ok cfg.n scr hs
  exact obs_valid cfg _ this.2 this.1 ⟨Int.le_refl 0, hT⟩

theorem step_obs_valid (cfg : Cfg) (s : State) (hc : Shaped cfg.n s.cube) (m : Move) (hm : legal cfg.n m)
    (h : ColoursInRange s.cube) (hs : 0 ≤ s.stepCount ∧ s.stepCount < cfg.timeLimit) :
    (obsSpec cfg).valid (toNValue (step cfg s m.act).2.obs) = true := by
  rw [step_obs]
  refine obs_valid cfg _ (step_shaped cfg s hc m hm) (step_coloursInRange cfg s hc m hm h) ?_
  show 0 ≤ s.stepCount + 1 ∧ s.stepCount + 1 ≤ cfg.timeLimit
  omega

theorem step_reward_discount_valid (cfg : Cfg) (s : State) (a : Int × Int × Int) :
    rewardSpec.valid (scalarArr (step cfg s a).2.reward) = true ∧
    discountSpec.valid (scalarArr (step cfg s a).2.discount) = true :=
  stepOK_reward_discount_valid false _ (step_protocol cfg s a)

theorem reset_reward_discount_valid (cfg : Cfg) (flats : List Int) :
    rewardSpec.valid (scalarArr (reset cfg flats).2.reward) = true ∧
    discountSpec.valid (scalarArr (reset cfg flats).2.discount) = true := by
  exact ⟨by show rewardSpec.valid (scalarArr (zerosR none)) = true; decide,
         by show discountSpec.valid (scalarArr (onesR none)) = true; decide⟩

/-- `action_spec.generate_value()` is the action (0, 0, 0) = UP face, outer layer, clockwise -/
theorem actionSpec_generate (cfg : Cfg) : (actionSpec cfg).generate = actionArr (0, 0, 0) := by
  simp [actionSpec, Leaf.generate, Leaf.lower, Leaf.shape, Leaf.dtype, actionArr]

/-- membership in `action_spec` = being an action of the action space -/
theorem actionSpec_valid_iff (cfg : Cfg) (m : Move) : (actionSpec cfg).valid (actionArr m.act) = true ↔ legal cfg.n m := by
  obtain ⟨f, d, a⟩ := m
  rw [Leaf.valid_iff]
  simp only [actionSpec, Leaf.shape, Leaf.dtype, Leaf.lower, Leaf.upper, actionArr, Move.act, legal, prod]
  constructor
  · rintro ⟨_, _, _, h⟩
    rcases h with ⟨h, _⟩ | ⟨lo, hi, hl, hu, hall⟩
    · cases h
    · simp only [Option.some.injEq] at hl hu
      subst hl; subst hu
      have h0 := hall 0 (by simp) (by simp)
      have h1 := hall 1 (by simp) (by simp)
      have h2 := hall 2 (by simp) (by simp)
      simp only [List.map_cons, List.map_nil, List.zip_cons_cons, List.getElem_cons_zero, List.getElem_cons_succ] at h0 h1 h2
      have e0 := Rat.intCast_le_intCast.mp h0.2
      have e1 := Rat.intCast_le_intCast.mp h1.2
      have e2 := Rat.intCast_le_intCast.mp h2.2
      omega
  · rintro ⟨hf, hd, ha⟩
    refine ⟨by simp, by simp, by simp, Or.inr ⟨_, _, rfl, rfl, ?_⟩⟩
    intro k h1 h2
    simp only [List.length_cons, List.length_nil] at h1
    have : k = 0 ∨ k = 1 ∨ k = 2 := by omega
    rcases this with rfl | rfl | rfl <;>
      simp only [List.map_cons, List.map_nil, List.zip_cons_cons, List.getElem_cons_zero, List.getElem_cons_succ] <;>
      refine ⟨?_, Rat.intCast_le_intCast.mpr (by omega)⟩ <;>
      exact_mod_cast (Int.natCast_nonneg _)

/-- C01: for every constructible cube size (`n ≥ 2`, otherwise `action_spec` itself is rejected by its constructor) the action
`generate_value()` is an action of the action space, and `step` answers it with a protocol-conform timestep -/
theorem accepts_generate_value (cfg : Cfg) (hn : 2 ≤ cfg.n) (hbig : cfg.n / 2 ≤ 2147483648) (s : State) :
    (actionSpec cfg).WF = true ∧ (actionSpec cfg).valid (actionSpec cfg).generate = true ∧
    (actionSpec cfg).generate = actionArr (Move.act ⟨0, 0, 0⟩) ∧ legal cfg.n ⟨0, 0, 0⟩ ∧
    StepOK none false (step cfg s (Move.act ⟨0, 0, 0⟩)).2 = true := by
  have hh : 0 < cfg.n / 2 := Nat.div_pos hn (by omega)
  have hl : legal cfg.n ⟨0, 0, 0⟩ := by
    show (0 : Nat) < 6 ∧ 0 < cfg.n / 2 ∧ (0 : Nat) < 3
    exact ⟨by omega, hh, by omega⟩
  have hw : (actionSpec cfg).WF = true := by
    have fitsI : ∀ z : Int, -2147483648 ≤ z → z ≤ 2147483647 → DType.int32.fits ((z : Int) : Rat) = true := by
      intro z h1 h2; simp [DType.fits, DType.intRange, Rat.den_intCast, Rat.num_intCast, h1, h2]
    have h6 : DType.int32.fits ((((6:Nat) : Int) - 1 : Int) : Rat) = true := fitsI _ (by omega) (by omega)
    have h3 : DType.int32.fits ((((3:Nat) : Int) - 1 : Int) : Rat) = true := fitsI _ (by omega) (by omega)
    have hd : DType.int32.fits (((((cfg.n/2 : Nat)) : Int) - 1 : Int) : Rat) = true := fitsI _ (by omega) (by omega)
    simp only [actionSpec, Leaf.WF, Leaf.WF0, Leaf.fitsDType, List.all_cons, List.all_nil, h6, h3, hd]
    simp [prod, DType.isInt]; omega
  exact ⟨hw, Leaf.generate_valid _ hw, actionSpec_generate cfg, hl, step_protocol cfg s _⟩

/-- for `n < 2` the constructor of `MultiDiscreteArray` refuses `num_values = [6, 0, 3]` -/
theorem actionSpec_not_WF_small (cfg : Cfg) (hn : cfg.n < 2) : (actionSpec cfg).WF = false := by
  have : cfg.n / 2 = 0 := by omega
  simp [actionSpec, Leaf.WF, Leaf.WF0, this]

/-! ### C11: whole episodes -/

theorem run_eq (cfg : Cfg) (s : State) (as : List (Int × Int × Int)) : run cfg s as = EpL.run (step cfg) s as := by
  induction as generalizing s with
  | nil => rfl
  | cons a as ih => simp [run, EpL.run, ih]

theorem run_length (cfg : Cfg) (s : State) (as : List (Int × Int × Int)) : (run cfg s as).length = as.length := by
  rw [run_eq, EpL.run_length]

/-- an episode from a state with step count 0 under ANY actions (at least `time_limit` of them): the first LAST comes at some
step `k` with `0 < k ≤ time_limit`, every earlier step is MID on an unsolved cube, the step count of every state up to the
terminal one is within `[0, time_limit]`, and `k = time_limit` exactly when no cube before was solved -/
theorem episode_ends_by_limit (cfg : Cfg) (T : Nat) (hT : cfg.timeLimit = (T : Int)) (hpos : 0 < T) (s0 : State)
    (h0 : s0.stepCount = 0) (as : List (Int × Int × Int)) (hlen : T ≤ as.length) :
    ∃ k, 0 < k ∧ k ≤ T ∧
      EpL.EndsAt (run cfg s0 as) (fun s => s.stepCount) (fun s => isSolved s.cube) (T : Int) k ∧
      ((∀ j r, j < T - 1 → (run cfg s0 as)[j]? = some r → isSolved r.1.cube = false) → k = T) := by
  rw [run_eq]
  exact EpL.ends_by_limit (step cfg) (fun s => s.stepCount) (fun s => isSolved s.cube) T hpos
    (fun s a => step_count cfg s a)
    (fun s a => by rw [step_last_iff, hT])
    (fun s a => step_mid_or_last cfg s a) s0 h0 as hlen

/-- every observation listed by `run` shows the step count of its state -/
theorem run_obs_count (cfg : Cfg) (s : State) (as : List (Int × Int × Int)) :
    ∀ r ∈ run cfg s as, r.2.obs.stepCount = r.1.stepCount := by
  induction as generalizing s with
  | nil => intro r hr; simp [run] at hr
  | cons a t ih =>
    intro r hr
    simp only [run, List.mem_cons] at hr
    rcases hr with rfl | hm
    · rw [step_obs]; rfl
    · exact ih _ r hm

/-! ### C17: reachability along whole plays -/

theorem run_reachable (cfg : Cfg) (s : State) (hr : Reachable cfg.n s.cube) (ms : List Move)
    (hl : ∀ m ∈ ms, legal cfg.n m) :
    ∀ r ∈ run cfg s (ms.map Move.act), Reachable cfg.n r.1.cube ∧ Solvable cfg.n r.1.cube := by
  induction ms generalizing s with
  | nil => intro r hr'; simp [run] at hr'
  | cons m t ih =>
    have h1 := step_reachable (tableOK_all _) cfg rfl hr (hl m (by simp))
    intro r hr'
    simp only [List.map_cons, run, List.mem_cons] at hr'
    rcases hr' with rfl | hr'
    · exact ⟨h1, reachable_solvable h1⟩
    · exact ih _ h1 (fun m' hm' => hl m' (by simp [hm'])) r hr'

theorem foldl_step_reachable (cfg : Cfg) (s : State) (hr : Reachable cfg.n s.cube) (ms : List Move)
    (hl : ∀ m ∈ ms, legal cfg.n m) :
    Reachable cfg.n (ms.foldl (fun s m => (step cfg s m.act).1) s).cube := by
  induction ms generalizing s with
  | nil => exact hr
  | cons m t ih =>
    exact ih _ (step_reachable (tableOK_all _) cfg rfl hr (hl m (by simp))) (fun m' hm' => hl m' (by simp [hm']))

/-! ### C17: what the solved test accepts -/

/-- a cube of uniform faces: face `f` entirely of colour `k f` -/
def uniformCube (n : Nat) (k : Nat → Int) : Cube Int := tabulate n (fun p => k p.f)

theorem monochrome_uniform (n : Nat) (k : Nat → Int) : Monochrome n (uniformCube n k) := by
  intro p hp
  have hv := mem_allPos.1 hp
  have hn : 0 < n := by have := hv.2.1; omega
  unfold uniformCube
  rw [getP_tabulate 0 n _ hv, getP_tabulate 0 n _ (⟨hv.1, hn, hn⟩ : (⟨p.f, 0, 0⟩ : Pos).Valid n)]

/-- ALL sizes (even and odd): `is_solved` accepts exactly the cubes with six uniform faces, whatever the six colours -/
theorem isSolved_iff_uniform {n : Nat} {c : Cube Int} (hc : Shaped n c) :
    isSolved c = true ↔ ∃ k : Nat → Int, c = uniformCube n k := by
  rw [isSolved_iff hc]
  constructor
  · intro hm
    refine ⟨fun f => getP 0 c ⟨f, 0, 0⟩, ?_⟩
    rw [← tabulate_getP 0 hc]
    unfold uniformCube
    rw [tabulate_getP 0 hc]
    conv => lhs; rw [← tabulate_getP 0 hc]
    exact tabulate_congr (fun p hp => hm p (mem_allPos.2 hp))
  · rintro ⟨k, rfl⟩
    exact monochrome_uniform n k

/-- the goal is the uniform cube with `k f = f` -/
theorem goal_eq_uniform (n : Nat) : goal n = uniformCube n (fun f => (f : Int)) := rfl

end RubiksCube
