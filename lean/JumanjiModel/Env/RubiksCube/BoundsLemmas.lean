/- RubiksCube — C01: proofs of the observation bounds (uses the conservation of the sticker multiset, C07/C17). -/
import JumanjiModel.Env.RubiksCube.Bounds
import JumanjiModel.Env.RubiksCube.General
namespace RubiksCube
open Jm Jx PzB

/-- a move of the action space permutes the stickers (all sizes) -/
theorem step_perm (cfg : Cfg) (s : State) (hc : Shaped cfg.n s.cube) (m : Move) (hm : legal cfg.n m) :
    (step cfg s m.act).1.cube.flatten.flatten.Perm s.cube.flatten.flatten := by
  rw [step_cube]
  rw [show flattenAction cfg.n m.act = flattenAction cfg.n ((m.face : Int), (m.depth : Int), (m.amt : Int)) from rfl,
    rotateCube_eq_move_of_table (tableOK_all _) hc hm]
  exact applyMove_perm _ _ _ hc

/-- … hence keeps the colours in range, and keeps the shape -/
theorem step_coloursInRange (cfg : Cfg) (s : State) (hc : Shaped cfg.n s.cube) (m : Move) (hm : legal cfg.n m)
    (h : ColoursInRange s.cube) : ColoursInRange (step cfg s m.act).1.cube := by
  intro v hv
  exact h v ((List.Perm.mem_iff (step_perm cfg s hc m hm)).mp hv)

theorem step_shaped (cfg : Cfg) (s : State) (hc : Shaped cfg.n s.cube) (m : Move) (hm : legal cfg.n m) :
    Shaped cfg.n (step cfg s m.act).1.cube := by
  rw [step_eq_stepL2 (tableOK_all _) cfg rfl hc hm]
  exact shaped_move cfg.n s.cube m

theorem step_obs_in_bounds (cfg : Cfg) (s : State) (hc : Shaped cfg.n s.cube) (m : Move) (hm : legal cfg.n m)
    (h : ColoursInRange s.cube) (hs : 0 ≤ s.stepCount ∧ s.stepCount < cfg.timeLimit) :
    ObsInBounds (obsBounds cfg) (obsLeaves (step cfg s m.act).2.obs) := by
  rw [step_obs]
  apply obs_in_bounds cfg
  · exact step_coloursInRange cfg s hc m hm h
  · show 0 ≤ s.stepCount + 1 ∧ s.stepCount + 1 ≤ cfg.timeLimit
    omega

theorem solved_coloursInRange (n : Nat) : ColoursInRange (solvedCube n) := by
  intro v hv
  simp only [solvedCube, List.mem_flatten, List.mem_map, List.mem_range] at hv
  obtain ⟨row, ⟨g, ⟨f, hf, rfl⟩, hrow⟩, hv⟩ := hv
  simp only [List.mem_replicate] at hrow
  obtain ⟨_, rfl⟩ := hrow
  simp only [List.mem_replicate] at hv
  obtain ⟨_, rfl⟩ := hv
  omega

/-- the generated cube (scramble of the solved cube by draws of the action space) has colours in range and its shape -/
theorem scramble_ok (n : Nat) (scr : List Move) (hs : ∀ m ∈ scr, legal n m) :
    ColoursInRange (scramble n (scr.map (fun m => flattenAction n m.act))) ∧
    Shaped n (scramble n (scr.map (fun m => flattenAction n m.act))) := by
  have e : scramble n (scr.map (fun m => flattenAction n m.act)) = playMoves n (goal n) scr :=
    scramble_eq_playMoves (tableOK_all _) hs
  rw [e]
  refine ⟨?_, ?_⟩
  · intro v hv
    have hp := playMoves_perm (shaped_goal n) scr
    have := (List.Perm.mem_iff hp).mp hv
    rw [← solvedCube_eq_goal] at this
    exact solved_coloursInRange n v this
  · exact shaped_playMoves (shaped_goal n) scr

theorem reset_obs_in_bounds (cfg : Cfg) (hT : 0 ≤ cfg.timeLimit) (scr : List Move) (hs : ∀ m ∈ scr, legal cfg.n m) :
    ObsInBounds (obsBounds cfg) (obsLeaves (observe (genState cfg.n (scr.map (fun m => flattenAction cfg.n m.act))))) := by
  apply obs_in_bounds cfg
  · exact (scramble_ok cfg.n scr hs).1
  · show (0 : Int) ≤ 0 ∧ (0 : Int) ≤ cfg.timeLimit
    omega

end RubiksCube
