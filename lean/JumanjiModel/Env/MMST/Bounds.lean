/-
C01 for MMST: value bounds of every observation leaf (`node_types`, `adj_matrix`, `positions`, `step_count`,
`action_mask`) as functions of the configuration only, and the proofs that the model's reset / step
observations stay inside them, for all draws (tie-break permutations, valid or not) and all actions.

Invariant `BInv` (implied by `Feasible` + a 0/1 adjacency matrix, preserved by every step): one position per
agent, each a node index in `[0, N)`; every entry of the per-agent edge tables in `[-1, N)`; the adjacency
matrix is 0/1.
-/
import JumanjiModel.Env.MMST.Lemmas
namespace MMST
open Jm

/-- interval membership; `none` = unbounded on that side -/
def inIv (lo hi : Option Rat) (v : Rat) : Prop := (∀ l, lo = some l → l ≤ v) ∧ (∀ h, hi = some h → v ≤ h)

/-- the numeric leaves of an observation: dotted path of the leaf in the real `observation_spec` ↦ all its
entries (bool: 0 / 1) -/
def obsLeaves (o : Obs) : List (String × List Rat) :=
  [("node_types", o.nodeTypes.map (fun (v : Int) => (v : Rat))),
   ("adj_matrix", (List.flatten o.adj).map (fun (v : Int) => (v : Rat))),
   ("positions", o.positions.map (fun (v : Int) => (v : Rat))),
   ("step_count", [(o.stepCount : Rat)]),
   ("action_mask", (List.flatten o.actionMask).map (fun b => if b then (1 : Rat) else 0))]

/-- every entry of every leaf listed in `bs` lies within the interval `bs` gives for it -/
def ObsInBounds (bs : List (String × Option Rat × Option Rat)) (o : Obs) : Prop :=
  ∀ p ∈ obsLeaves o, ∀ b ∈ bs, b.1 = p.1 → ∀ v ∈ p.2, inIv b.2.1 b.2.2 v

/-- C01: the intervals in which the model's observation values provably stay.  (`positions` is proved
non-negative; the declared minimum is -1.) -/
def obsBounds (cfg : Cfg) : List (String × Option Rat × Option Rat) :=
  [("node_types", some (-1), some ((2 * (cfg.numAgents : Int) - 1 : Int) : Rat)),
   ("adj_matrix", some 0, some 1),
   ("positions", some 0, some (((cfg.numNodes : Int) - 1 : Int) : Rat)),
   ("step_count", some 0, some ((cfg.timeLimit : Int) : Rat)),
   ("action_mask", some 0, some 1)]

theorem obsBounds_cover (cfg : Cfg) (o : Obs) : (obsLeaves o).map (·.1) = (obsBounds cfg).map (·.1) := rfl

/-! ### the invariant -/

def BInv (cfg : Cfg) (s : State) : Prop :=
  s.positions.length = cfg.numAgents ∧
  (∀ p ∈ s.positions, 0 ≤ p ∧ p < (cfg.numNodes : Int)) ∧
  (∀ e ∈ s.nodeEdges, ∀ r ∈ e, ∀ x ∈ r, -1 ≤ x ∧ x < (cfg.numNodes : Int)) ∧
  (∀ r ∈ s.adj, ∀ x ∈ r, 0 ≤ x ∧ x ≤ 1)
instance (cfg : Cfg) (s : State) : Decidable (BInv cfg s) := by unfold BInv; infer_instance

theorem getD_mem_or {α} (l : List α) (d : α) (i : Nat) : l.getD i d ∈ l ∨ l.getD i d = d := by
  by_cases h : i < l.length
  · left; exact getD_mem l d h
  · right; simp [List.getD_eq_getElem?_getD, List.getElem?_eq_none (by omega : l.length ≤ i)]

theorem getWC_mem_or {α} (l : List α) (d : α) (i : Int) : Jx.getWC l d i ∈ l ∨ Jx.getWC l d i = d := by
  unfold Jx.getWC; exact getD_mem_or l d _

theorem mem_exists_getD {α} {l : List α} {x : α} (d : α) (h : x ∈ l) : ∃ i, i < l.length ∧ l.getD i d = x := by
  obtain ⟨i, hi, rfl⟩ := List.getElem_of_mem h
  exact ⟨i, hi, by simp [List.getD_eq_getElem?_getD, hi]⟩

/-- `Feasible` (shapes, positions in range, the edge tables are the adjacency matrix minus taken utility
nodes) with a 0/1 adjacency matrix gives the invariant -/
theorem binv_of_feasible {cfg : Cfg} {s : State} (hF : Feasible cfg s) (hb : certBinary s = true) : BInv cfg s := by
  obtain ⟨hS, _, hE, _⟩ := hF
  have hS' := hS
  obtain ⟨_, _, _, _, _, _, _, hel, he, hpl, hp, _⟩ := hS
  refine ⟨hpl, hp, ?_, ?_⟩
  · intro e hemem r hr x hx
    obtain ⟨i, hi, rfl⟩ := mem_exists_getD [] hemem
    obtain ⟨hl, hrl⟩ := he _ hemem
    obtain ⟨ri, hri, rfl⟩ := mem_exists_getD [] hr
    have hrlen := hrl _ hr
    obtain ⟨c, hc, rfl⟩ := mem_exists_getD 0 hx
    have := hE i (by omega) ri (by omega) c (by omega)
    rw [this]
    split <;> omega
  · unfold certBinary at hb
    simp only [List.all_eq_true, Bool.or_eq_true, beq_iff_eq] at hb
    intro r hr x hx
    have := hb r hr x hx
    omega

theorem targetNode_range {cfg : Cfg} {s : State} (h : BInv cfg s) (i : Nat) (a : Int) :
    -1 ≤ targetNode s i a ∧ targetNode s i a < (cfg.numNodes : Int) := by
  obtain ⟨_, _, hE, _⟩ := h
  unfold targetNode
  rcases getWC_mem_or (Jx.getWC (s.nodeEdges.getD i []) [] (s.positions.getD i 0)) (-1) a with hx | hx
  · rcases getWC_mem_or (s.nodeEdges.getD i []) [] (s.positions.getD i 0) with hr | hr
    · rcases getD_mem_or s.nodeEdges [] i with he | he
      · exact hE _ he _ hr _ hx
      · rw [he] at hr; simp at hr
    · rw [hr] at hx; simp at hx
  · rw [hx]; omega

theorem maskNode_range {N : Int} (e : List (List Int)) (node : Int)
    (h : ∀ r ∈ e, ∀ x ∈ r, -1 ≤ x ∧ x < N) (hN : 0 ≤ N) : ∀ r ∈ maskNode e node, ∀ x ∈ r, -1 ≤ x ∧ x < N := by
  unfold maskNode
  intro r hr x hx
  simp only [List.mem_map] at hr
  obtain ⟨r0, hr0, rfl⟩ := hr
  simp only [List.mem_map] at hx
  obtain ⟨x0, hx0, rfl⟩ := hx
  have := h r0 hr0 x0 hx0
  split <;> omega

theorem activeEdgesFor_range {N : Int} (hN : 0 ≤ N) (nodeTypes pos : List Int) (a2 : Nat) :
    ∀ (ags : List Nat) (e : List (List Int)), (∀ r ∈ e, ∀ x ∈ r, -1 ≤ x ∧ x < N) →
      ∀ r ∈ ags.foldl (fun e agent =>
          let node := pos.getD agent 0
          if agent != a2 && Jx.getWC nodeTypes 0 node == -1 then maskNode e node else e) e,
        ∀ x ∈ r, -1 ≤ x ∧ x < N := by
  intro ags
  induction ags with
  | nil => intro e h; exact h
  | cons a ags ih =>
    intro e h
    simp only [List.foldl_cons]
    apply ih
    split
    · exact maskNode_range e _ h hN
    · exact h

theorem step_positions_range {cfg : Cfg} {s : State} (h : BInv cfg s) (a : List Int) (p : List Nat) :
    (step cfg s a p).1.positions.length = cfg.numAgents ∧
    ∀ x ∈ (step cfg s a p).1.positions, 0 ≤ x ∧ x < (cfg.numNodes : Int) := by
  have hpl := h.1
  have hp := h.2.1
  simp only [step, List.map_map, List.length_map, List.length_range, true_and]
  intro x hx
  simp only [List.mem_map, List.mem_range, Function.comp] at hx
  obtain ⟨i, hi, rfl⟩ := hx
  unfold stepAgent
  simp only []
  split
  · rename_i hm
    simp only []
    unfold moves at hm
    simp only [Bool.and_eq_true, bne_iff_ne, ne_eq] at hm
    have hne := hm.2
    have hr : -1 ≤ (targets cfg s a).getD i (-1) ∧ (targets cfg s a).getD i (-1) < (cfg.numNodes : Int) := by
      unfold targets
      rw [getD_map_range _ _ _ hi]
      exact targetNode_range h i _
    omega
  · simp only []
    exact hp _ (getD_mem _ _ (by omega))

theorem step_edges_range {cfg : Cfg} {s : State} (h : BInv cfg s) (a : List Int) (p : List Nat) :
    ∀ e ∈ (step cfg s a p).1.nodeEdges, ∀ r ∈ e, ∀ x ∈ r, -1 ≤ x ∧ x < (cfg.numNodes : Int) := by
  have hE := h.2.2.1
  simp only [step, updateActiveEdges]
  intro e he
  simp only [List.mem_map, List.mem_range] at he
  obtain ⟨a2, _, rfl⟩ := he
  unfold activeEdgesFor
  apply activeEdgesFor_range (by omega)
  rcases getD_mem_or s.nodeEdges [] a2 with hm | hm
  · exact hE _ hm
  · rw [hm]; intro r hr; simp at hr

/-- the invariant is preserved by every step (any action, any draw) -/
theorem step_binv {cfg : Cfg} {s : State} (h : BInv cfg s) (a : List Int) (p : List Nat) :
    BInv cfg (step cfg s a p).1 :=
  ⟨(step_positions_range h a p).1, (step_positions_range h a p).2, step_edges_range h a p,
   by rw [(step_static cfg s a p).2.1]; exact h.2.2.2⟩

/-! ### node relabelling: values in `[-1, 2A-1]` -/

theorem relabelBase_range (A : Nat) (hA : 0 < A) (t : Int) :
    -1 ≤ relabelBase A t ∧ relabelBase A t ≤ 2 * (A : Int) - 1 := by
  unfold relabelBase
  have h1 := Int.emod_nonneg (t - 0) (by omega : (A : Int) ≠ 0)
  have h2 := Int.emod_lt_of_pos (t - 0) (by omega : (0 : Int) < (A : Int))
  generalize (t - 0) % (A : Int) = m at h1 h2
  by_cases ht : t = -1 <;> simp [ht] <;> omega

theorem relabelAgent_range (A : Nat) (hA : 0 < A) (agent : Nat) (x ci : Int)
    (hx : -1 ≤ x ∧ x ≤ 2 * (A : Int) - 1) :
    -1 ≤ relabelAgent A agent x ci ∧ relabelAgent A agent x ci ≤ 2 * (A : Int) - 1 := by
  unfold relabelAgent
  have h1 := Int.emod_nonneg ((agent : Int) - 0) (by omega : (A : Int) ≠ 0)
  have h2 := Int.emod_lt_of_pos ((agent : Int) - 0) (by omega : (0 : Int) < (A : Int))
  generalize ((agent : Int) - 0) % (A : Int) = m at h1 h2
  by_cases hc : ci = -1 <;> simp [hc] <;> omega

theorem list_zipWith_all {α β γ} {P : α → Prop} {R : γ → Prop} {f : α → β → γ}
    (h : ∀ x y, P x → R (f x y)) :
    ∀ (a : List α) (b : List β), (∀ x ∈ a, P x) → ∀ z ∈ List.zipWith f a b, R z := by
  intro a
  induction a with
  | nil => intro b _ z hz; simp at hz
  | cons x a ih =>
    intro b ha z hz
    cases b with
    | nil => simp at hz
    | cons y b =>
      simp only [List.zipWith_cons_cons, List.mem_cons] at hz
      rcases hz with hz | hz
      · rw [hz]; exact h x y (ha x (by simp))
      · exact ih b (fun x hx => ha x (by simp [hx])) z hz

theorem obsNodeTypes_range (A : Nat) (hA : 0 < A) (nodeTypes : List Int) (ci : List (List Int)) :
    ∀ x ∈ obsNodeTypes A nodeTypes ci, -1 ≤ x ∧ x ≤ 2 * (A : Int) - 1 := by
  unfold obsNodeTypes
  suffices H : ∀ (ags : List Nat) (xs : List Int), (∀ x ∈ xs, -1 ≤ x ∧ x ≤ 2 * (A : Int) - 1) →
      ∀ x ∈ ags.foldl (fun xs agent => List.zipWith (relabelAgent A agent) xs (ci.getD agent [])) xs,
        -1 ≤ x ∧ x ≤ 2 * (A : Int) - 1 by
    apply H
    intro x hx
    simp only [List.mem_map] at hx
    obtain ⟨t, _, rfl⟩ := hx
    exact relabelBase_range A hA t
  intro ags
  induction ags with
  | nil => intro xs h; exact h
  | cons ag ags ih =>
    intro xs h
    simp only [List.foldl_cons]
    apply ih
    exact list_zipWith_all (P := fun x => -1 ≤ x ∧ x ≤ 2 * (A : Int) - 1)
      (fun x y hx => relabelAgent_range A hA ag x y hx) xs _ h

/-! ### the two C01 statements -/

theorem observe_in_bounds (cfg : Cfg) (s : State) (hA : 0 < cfg.numAgents) (h : BInv cfg s)
    (h0 : 0 ≤ s.stepCount) (hT : s.stepCount ≤ (cfg.timeLimit : Int)) :
    ObsInBounds (obsBounds cfg) (observeL1 cfg s) := by
  obtain ⟨_, hp, _, hadj⟩ := h
  intro p hp' b hb hbp v hv
  simp only [obsLeaves, observeL1, List.mem_cons, List.not_mem_nil, or_false] at hp'
  simp only [obsBounds, List.mem_cons, List.not_mem_nil, or_false] at hb
  rcases hp' with rfl | rfl | rfl | rfl | rfl <;> rcases hb with rfl | rfl | rfl | rfl | rfl <;> simp at hbp
  · -- node_types
    simp only [List.mem_map] at hv
    obtain ⟨x, hx, rfl⟩ := hv
    have := obsNodeTypes_range cfg.numAgents hA _ _ x hx
    refine ⟨fun l hl => ?_, fun h hh => ?_⟩
    · simp only [Option.some.injEq] at hl; subst hl
      have h' : ((-1 : Int) : Rat) ≤ (x : Rat) := Rat.intCast_le_intCast.2 this.1
      simpa using h'
    · simp only [Option.some.injEq] at hh; subst hh; exact_mod_cast this.2
  · -- adj_matrix
    simp only [List.mem_map, List.mem_flatten] at hv
    obtain ⟨x, ⟨r, hr, hx⟩, rfl⟩ := hv
    have := hadj r hr x hx
    refine ⟨fun l hl => ?_, fun h hh => ?_⟩
    · simp only [Option.some.injEq] at hl; subst hl; exact_mod_cast this.1
    · simp only [Option.some.injEq] at hh; subst hh; exact_mod_cast this.2
  · -- positions
    simp only [List.mem_map] at hv
    obtain ⟨x, hx, rfl⟩ := hv
    have := hp x hx
    refine ⟨fun l hl => ?_, fun h hh => ?_⟩
    · simp only [Option.some.injEq] at hl; subst hl; exact_mod_cast this.1
    · simp only [Option.some.injEq] at hh; subst hh
      have : x ≤ (cfg.numNodes : Int) - 1 := by omega
      exact_mod_cast this
  · -- step_count
    simp only [List.mem_cons, List.not_mem_nil, or_false] at hv
    subst hv
    refine ⟨fun l hl => ?_, fun h hh => ?_⟩
    · simp only [Option.some.injEq] at hl; subst hl; exact_mod_cast h0
    · simp only [Option.some.injEq] at hh; subst hh; exact_mod_cast hT
  · -- action_mask
    simp only [List.mem_map] at hv
    obtain ⟨x, _, rfl⟩ := hv
    refine ⟨fun l hl => ?_, fun h hh => ?_⟩
    · simp only [Option.some.injEq] at hl; subst hl; split <;> decide
    · simp only [Option.some.injEq] at hh; subst hh; split <;> decide

/-- reset: the observation of a generated state (`_state_to_observation`), step count 0 -/
theorem reset_obs_in_bounds (cfg : Cfg) (s : State) (hA : 0 < cfg.numAgents) (h : BInv cfg s)
    (hs : s.stepCount = 0) : ObsInBounds (obsBounds cfg) (observeL1 cfg s) :=
  observe_in_bounds cfg s hA h (by omega) (by omega)

/-- step: any action, any draw, from any state with the invariant whose step count is in `[0, time_limit)` -/
theorem step_obs_in_bounds (cfg : Cfg) (s : State) (a : List Int) (p : List Nat) (hA : 0 < cfg.numAgents)
    (h : BInv cfg s) (h0 : 0 ≤ s.stepCount) (hT : s.stepCount < (cfg.timeLimit : Int)) :
    ObsInBounds (obsBounds cfg) (step cfg s a p).2.obs := by
  rw [obs_faithful]
  apply observe_in_bounds cfg _ hA (step_binv h a p)
  · rw [step_count]; omega
  · rw [step_count]; omega

end MMST
