/-
MMST (jumanji/environments/routing/mmst/{env,utils,reward,types,constants}.py).  Import-free.  R model.

L1 = transliteration of `MMST.step` (`_trim_duplicated_invalid_actions`, `step_agent_fn`,
`_update_conected_nodes`, `update_active_edges`, `make_action_mask`, `DenseRewardFn`,
`get_finished_agents`, `_state_to_timestep`, `_state_to_observation`).  The tie-break permutation
`jax.random.permutation(step_key, arange(num_agents))` is the draw `perm : List Nat` (`validDraw`).
Stale fields are kept stale: the mask stored by `step` is computed with the finished flags of the
*previous* state (`state.finished_agents`, "Not updated yet"), the reward is masked with the same old flags.
Constants: INVALID_NODE = UTILITY_NODE = EMPTY_NODE = EMPTY_EDGE = -1, DUMMY_NODE = -10,
INVALID_CHOICE = -1, INVALID_TIE_BREAK = -2, INVALID_ALREADY_TRAVERSED = -3.

L2 = the rules as documented (docs/environments/mmst.md, class docstrings): `legal`, `Feasible`
(utility nodes are used by at most one agent + bookkeeping), `IsSolution`, `observe` (node relabelling).
-/
import JumanjiModel.Prim.Idx
import JumanjiModel.Core.TimeStep
namespace MMST
open Jm

structure Cfg where
  numAgents : Nat
  numNodes : Nat
  numNodesPerAgent : Nat
  timeLimit : Nat
  /-- `DenseRewardFn(reward_values)`: connection, time step, invalid choice -/
  rConn : Rat
  rStep : Rat
  rNoop : Rat
  /-- `false` = the pinned tree: the mask stored by `step` uses the finished flags of the previous state;
  `true` = the repaired behaviour (mask recomputed with the updated flags) -/
  freshMask : Bool := false
  /-- `false` = the pinned tree: `connected_nodes_index[agent, nodes[agent]]` is read even when
  `nodes[agent] = -1` (wraps to the last node); `true` = the repaired behaviour (no lookup for an invalid node) -/
  guardVisited : Bool := false
  deriving Repr

structure State where
  nodeTypes : List Int                 -- (N)
  adj : List (List Int)                -- (N, N)
  connectedNodes : List (List Int)     -- (A, T)  the route of each agent, -1 = not filled
  connectedIndex : List (List Int)     -- (A, N)  `connected_nodes_index`: v at column v if visited, else -1
  nodesToConnect : List (List Int)     -- (A, K)
  nodeEdges : List (List (List Int))   -- (A, N, N)  c at [r][c] if the edge r-c is usable by the agent, else -1
  positions : List Int                 -- (A)
  positionIndex : List Int             -- (A)
  actionMask : List (List Bool)        -- (A, N)
  finished : List Bool                 -- (A)
  stepCount : Int
  deriving Repr, DecidableEq

structure Obs where
  nodeTypes : List Int
  adj : List (List Int)
  positions : List Int
  stepCount : Int
  actionMask : List (List Bool)
  deriving Repr, DecidableEq

/-! ## L1 -/

/-- `_get_agent_node`: `node_edges[position, action]` (two traced indices, each wrapped then clamped) -/
def targetNode (s : State) (i : Nat) (a : Int) : Int :=
  Jx.getWC (Jx.getWC (s.nodeEdges.getD i []) [] (s.positions.getD i 0)) (-1) a

/-- state of the tie-break `while_loop` -/
structure TB where
  added : List Int
  newActions : List Int
  deriving Repr, DecidableEq

/-- body of the loop for `agent_i = agent_permutation[index]`: the `lax.switch` on
`is_invalid_node + 2 * node_is_not_selected` -/
def tbStep (action nodes : List Int) (st : TB) (k : Nat) : TB :=
  let node := nodes.getD k (-1)
  let isInvalid := node == -1
  let notSelected := !(st.added.contains node)
  match isInvalid, notSelected with
  | false, false => { added := st.added.set k (-2), newActions := st.newActions.set k (-2) }
  | true, false => st
  | false, true => { added := st.added.set k node, newActions := st.newActions.set k (action.getD k (-1)) }
  | true, true => st

def tbInit (A : Nat) : TB := { added := List.replicate A (-10), newActions := List.replicate A (-1) }

/-- the whole loop (index 0 … A-1 over the permutation) -/
def tieBreak (A : Nat) (action nodes : List Int) (perm : List Nat) : TB :=
  perm.foldl (tbStep action nodes) (tbInit A)

/-- a legitimate draw: a permutation of `0 … A-1` -/
def validDraw (A : Nat) (perm : List Nat) : Prop :=
  perm.length = A ∧ perm.Nodup ∧ ∀ k ∈ perm, k < A
instance (A : Nat) (perm : List Nat) : Decidable (validDraw A perm) := by unfold validDraw; infer_instance

/-- `mask_visited_nodes` + "Mask agents with finished states" for agent `i`.  Note the gather
`connected_nodes_index[agent, nodes[agent]]` with `nodes[agent] = -1` wraps to the last node. -/
def finalAction (cfg : Cfg) (s : State) (nodes newActs : List Int) (i : Nat) : Int :=
  let node := nodes.getD i (-1)
  let visited := if cfg.guardVisited && node == -1 then -1 else Jx.getWC (s.connectedIndex.getD i []) (-1) node
  let a := if visited != -1 then -3 else newActs.getD i (-1)
  if s.finished.getD i false then -1 else a

/-- `_trim_duplicated_invalid_actions`: (final actions, target nodes) -/
def targets (cfg : Cfg) (s : State) (action : List Int) : List Int :=
  (List.range cfg.numAgents).map fun i => targetNode s i (action.getD i 0)

def trim (cfg : Cfg) (s : State) (action : List Int) (perm : List Nat) : List Int :=
  let nodes := targets cfg s action
  let tb := tieBreak cfg.numAgents action nodes perm
  (List.range cfg.numAgents).map (finalAction cfg s nodes tb.newActions)

structure AgentOut where
  cn : List Int
  ci : List Int
  pos : Int
  idx : Int
  deriving Repr, DecidableEq

/-- `is_valid` of `step_agent_fn` -/
def moves (act node : Int) : Bool := !(act == -1 || act == -2) && node != -1

/-- `step_agent_fn` / `_update_conected_nodes` for agent `i` -/
def stepAgent (s : State) (i : Nat) (act node : Int) : AgentOut :=
  let cn := s.connectedNodes.getD i []
  let ci := s.connectedIndex.getD i []
  let idx := s.positionIndex.getD i 0
  if moves act node then
    { cn := Jx.setWD cn (idx + 1) node, ci := Jx.setWD ci node node, pos := node, idx := idx + 1 }
  else { cn := cn, ci := ci, pos := s.positions.getD i 0, idx := idx }

/-- `update_edges`: entries equal to `node` become -1 -/
def maskNode (e : List (List Int)) (node : Int) : List (List Int) :=
  e.map (fun r => r.map (fun x => if x == node then -1 else x))

/-- `update_active_edges`, the row of agent `a2` (the double loop only ever reads and writes
`active_node_edges[agent2]` inside, so it is run here per `agent2`) -/
def activeEdgesFor (A : Nat) (nodeTypes : List Int) (pos : List Int) (a2 : Nat) (e : List (List Int)) :
    List (List Int) :=
  (List.range A).foldl (fun e agent =>
    let node := pos.getD agent 0
    if agent != a2 && Jx.getWC nodeTypes 0 node == -1 then maskNode e node else e) e

def updateActiveEdges (A : Nat) (edges : List (List (List Int))) (pos : List Int) (nodeTypes : List Int) :
    List (List (List Int)) :=
  (List.range A).map fun a2 => activeEdgesFor A nodeTypes pos a2 (edges.getD a2 [])

/-- `make_action_mask` -/
def makeMask (A : Nat) (edges : List (List (List Int))) (pos : List Int) (fin : List Bool) : List (List Bool) :=
  (List.range A).map fun i =>
    (Jx.getWC (edges.getD i []) [] (pos.getD i 0)).map (fun x => x != -1 && !(fin.getD i false))

/-- `DenseRewardFn.reward_fun` -/
def agentReward (cfg : Cfg) (nodes : List Int) (act node : Int) : Rat :=
  let noop : Rat := if act == -1 then 1 else 0
  let same : Rat := if act == -2 then 1 else 0
  let isConn := nodes.contains node && decide (act > -1)
  if isConn then cfg.rConn - same * cfg.rConn
  else cfg.rStep + noop * cfg.rNoop - same * cfg.rStep

/-- `DenseRewardFn.__call__` (positions of the new state, finished flags of the old one) -/
def reward (cfg : Cfg) (nodesToConnect : List (List Int)) (acts : List Int) (pos : List Int) (finOld : List Bool) : Rat :=
  ((List.range cfg.numAgents).map fun i =>
    if finOld.getD i false then 0 else agentReward cfg (nodesToConnect.getD i []) (acts.getD i (-1)) (pos.getD i 0)).sum

/-- `get_finished_agents`: `sum(isin(nodes_to_connect[i], connected_nodes[i])) == num_nodes_per_agent` -/
def finishedAgents (cfg : Cfg) (nodesToConnect connectedNodes : List (List Int)) : List Bool :=
  (List.range cfg.numAgents).map fun i =>
    ((nodesToConnect.getD i []).filter (fun v => (connectedNodes.getD i []).contains v)).length == cfg.numNodesPerAgent

/-- `_state_to_observation`, arithmetic as written (agent_id = 0) -/
def relabelBase (A : Nat) (t : Int) : Int :=
  let zeroMask : Int := if t != -1 then 1 else 0
  let onesInds : Int := if t == -1 then 1 else 0
  ((((t - 0) % (A : Int)) * 2 + 1) * zeroMask) - onesInds

def relabelAgent (A : Nat) (agent : Nat) (x ci : Int) : Int :=
  let cm : Int := if ci == -1 then 1 else 0
  let co : Int := if ci != -1 then 1 else 0
  x * cm + (2 * (((agent : Int) - 0) % (A : Int))) * co

def obsNodeTypes (A : Nat) (nodeTypes : List Int) (connectedIndex : List (List Int)) : List Int :=
  (List.range A).foldl (fun xs agent => List.zipWith (relabelAgent A agent) xs (connectedIndex.getD agent []))
    (nodeTypes.map (relabelBase A))

def observeL1 (cfg : Cfg) (s : State) : Obs :=
  { nodeTypes := obsNodeTypes cfg.numAgents s.nodeTypes s.connectedIndex, adj := s.adj, positions := s.positions,
    stepCount := s.stepCount, actionMask := s.actionMask }

/-- `MMST.step` -/
def step (cfg : Cfg) (s : State) (action : List Int) (perm : List Nat) : State × TimeStep Obs :=
  let A := cfg.numAgents
  let nodes := targets cfg s action
  let acts := trim cfg s action perm
  let outs := (List.range A).map fun i => stepAgent s i (acts.getD i (-1)) (nodes.getD i (-1))
  let pos := outs.map (·.pos)
  let edges := updateActiveEdges A s.nodeEdges pos s.nodeTypes
  let cn := outs.map (·.cn)
  let fin' := finishedAgents cfg s.nodesToConnect cn
  let s1 : State :=
    { s with connectedNodes := cn, connectedIndex := outs.map (·.ci), positionIndex := outs.map (·.idx),
             positions := pos, nodeEdges := edges,
             actionMask := makeMask A edges pos (if cfg.freshMask then fin' else s.finished) }   -- stale flags on the pinned tree
  let r := reward cfg s.nodesToConnect acts pos s.finished
  let s2 : State := { s1 with finished := fin', stepCount := s.stepCount + 1 }
  let done := s2.finished.all id || decide (s2.stepCount ≥ (cfg.timeLimit : Int))
  (s2, condLast done [r] (observeL1 cfg s2))

/-! ## L2: the rules -/

/-- agent `i` has already connected node `v` -/
def connectedBy (s : State) (i v : Nat) : Prop := (s.connectedIndex.getD i []).getD v (-1) ≠ -1
instance (s : State) (i v : Nat) : Decidable (connectedBy s i v) := by unfold connectedBy; infer_instance

def isUtility (s : State) (v : Nat) : Prop := s.nodeTypes.getD v 0 = -1
instance (s : State) (v : Nat) : Decidable (isUtility s v) := by unfold isUtility; infer_instance

def hasEdge (s : State) (u v : Nat) : Prop := (s.adj.getD u []).getD v 0 = 1
instance (s : State) (u v : Nat) : Decidable (hasEdge s u v) := by unfold hasEdge; infer_instance

/-- a utility node already used by another agent -/
def takenByOther (cfg : Cfg) (s : State) (i v : Nat) : Prop :=
  isUtility s v ∧ ∃ j, j < cfg.numAgents ∧ j ≠ i ∧ connectedBy s j v
instance (cfg : Cfg) (s : State) (i v : Nat) : Decidable (takenByOther cfg s i v) := by
  unfold takenByOther; infer_instance

/-- all the nodes of agent `i` are on its route -/
def agentDone (s : State) (i : Nat) : Prop :=
  ∀ v ∈ s.nodesToConnect.getD i [], v ∈ s.connectedNodes.getD i []
instance (s : State) (i : Nat) : Decidable (agentDone s i) := by unfold agentDone; infer_instance

/-- docs: "an agent picks the next node it wants to move to.  An action is invalid if the agent picks a
node it has no edge to or the node is a utility node already been used by another agent";
finished agents are masked (they do not act any more). -/
def legal (cfg : Cfg) (s : State) (i a : Nat) : Prop :=
  i < cfg.numAgents ∧ a < cfg.numNodes ∧ ¬ agentDone s i ∧
  hasEdge s (s.positions.getD i 0).toNat a ∧ ¬ takenByOther cfg s i a
instance (cfg : Cfg) (s : State) (i a : Nat) : Decidable (legal cfg s i a) := by unfold legal; infer_instance

def legalMask (cfg : Cfg) (s : State) : List (List Bool) :=
  (List.range cfg.numAgents).map fun i => (List.range cfg.numNodes).map fun a => decide (legal cfg s i a)

/-- hard constraint: no utility node is used by two agents -/
def UtilityExclusive (cfg : Cfg) (s : State) : Prop :=
  ∀ i, i < cfg.numAgents → ∀ j, j < cfg.numAgents → ∀ v, v < cfg.numNodes →
    ¬ (i ≠ j ∧ isUtility s v ∧ connectedBy s i v ∧ connectedBy s j v)
instance (cfg : Cfg) (s : State) : Decidable (UtilityExclusive cfg s) := by unfold UtilityExclusive; infer_instance

/-- (stronger, NOT guaranteed by the rules as documented) no node at all is used by two agents -/
def NodeExclusive (cfg : Cfg) (s : State) : Prop :=
  ∀ i, i < cfg.numAgents → ∀ j, j < cfg.numAgents → ∀ v, v < cfg.numNodes →
    ¬ (i ≠ j ∧ connectedBy s i v ∧ connectedBy s j v)
instance (cfg : Cfg) (s : State) : Decidable (NodeExclusive cfg s) := by unfold NodeExclusive; infer_instance

/-- array shapes and ranges -/
def Shaped (cfg : Cfg) (s : State) : Prop :=
  s.nodeTypes.length = cfg.numNodes ∧ s.adj.length = cfg.numNodes ∧ (∀ r ∈ s.adj, r.length = cfg.numNodes) ∧
  s.connectedNodes.length = cfg.numAgents ∧ s.connectedIndex.length = cfg.numAgents ∧
  (∀ r ∈ s.connectedIndex, r.length = cfg.numNodes) ∧
  s.nodesToConnect.length = cfg.numAgents ∧
  s.nodeEdges.length = cfg.numAgents ∧ (∀ e ∈ s.nodeEdges, e.length = cfg.numNodes ∧ ∀ r ∈ e, r.length = cfg.numNodes) ∧
  s.positions.length = cfg.numAgents ∧ (∀ p ∈ s.positions, 0 ≤ p ∧ p < (cfg.numNodes : Int)) ∧
  s.positionIndex.length = cfg.numAgents ∧ s.finished.length = cfg.numAgents
instance (cfg : Cfg) (s : State) : Decidable (Shaped cfg s) := by unfold Shaped; infer_instance

/-- the edge table of agent `i` is the adjacency matrix minus the utility nodes taken by others -/
def EdgesOK (cfg : Cfg) (s : State) : Prop :=
  ∀ i, i < cfg.numAgents → ∀ r, r < cfg.numNodes → ∀ c, c < cfg.numNodes →
    ((s.nodeEdges.getD i []).getD r []).getD c 0 =
      (if hasEdge s r c ∧ ¬ takenByOther cfg s i c then (c : Int) else -1)
instance (cfg : Cfg) (s : State) : Decidable (EdgesOK cfg s) := by unfold EdgesOK; infer_instance

/-- every agent stands on a node it has connected; every route node is recorded in the index -/
def RouteOK (cfg : Cfg) (s : State) : Prop :=
  (∀ i, i < cfg.numAgents → connectedBy s i (s.positions.getD i 0).toNat) ∧
  (∀ i, i < cfg.numAgents → ∀ v ∈ s.connectedNodes.getD i [], v ≠ -1 →
      0 ≤ v ∧ v < (cfg.numNodes : Int) ∧ (s.connectedIndex.getD i []).getD v.toNat (-1) = v) ∧
  (∀ i, i < cfg.numAgents → ∀ v, v < cfg.numNodes →
      (s.connectedIndex.getD i []).getD v (-1) = -1 ∨ (s.connectedIndex.getD i []).getD v (-1) = (v : Int))
instance (cfg : Cfg) (s : State) : Decidable (RouteOK cfg s) := by unfold RouteOK; infer_instance

/-- the finished flags are those of the current routes -/
def FlagsFresh (cfg : Cfg) (s : State) : Prop :=
  ∀ i, i < cfg.numAgents → s.finished.getD i false = decide (agentDone s i)
instance (cfg : Cfg) (s : State) : Decidable (FlagsFresh cfg s) := by unfold FlagsFresh; infer_instance

/-- C06: hard constraint + bookkeeping, recomputed from the raw arrays -/
def Feasible (cfg : Cfg) (s : State) : Prop :=
  Shaped cfg s ∧ UtilityExclusive cfg s ∧ EdgesOK cfg s ∧ RouteOK cfg s
instance (cfg : Cfg) (s : State) : Decidable (Feasible cfg s) := by unfold Feasible; infer_instance

/-- complete feasible solution: every agent has all its nodes on its route -/
def IsSolution (cfg : Cfg) (s : State) : Prop :=
  Feasible cfg s ∧ ∀ i, i < cfg.numAgents → agentDone s i
instance (cfg : Cfg) (s : State) : Decidable (IsSolution cfg s) := by unfold IsSolution; infer_instance

/-- documented relabelling (first agent's view): a node connected by agent `k` shows `2k`; otherwise a node
of type `t ≥ 0` shows `2t + 1`; an unconnected utility node shows -1.  (If several agents have connected a
node the highest agent id is shown.) -/
def nodeLabel (cfg : Cfg) (s : State) (v : Nat) : Int :=
  match ((List.range cfg.numAgents).filter (fun k => decide (connectedBy s k v))).getLast? with
  | some k => 2 * (k : Int)
  | none => let t := s.nodeTypes.getD v 0; if t = -1 then -1 else 2 * t + 1

/-- the documented observation: relabelled node types, the graph, the agents' positions, the step count and the
mask the RULES prescribe (`legalMask`, recomputed from `legal`; not the mask cached in the state) -/
def observe (cfg : Cfg) (s : State) : Obs :=
  { nodeTypes := (List.range cfg.numNodes).map (nodeLabel cfg s), adj := s.adj, positions := s.positions,
    stepCount := s.stepCount, actionMask := legalMask cfg s }

/-- `MMST.reset` after the generator has produced `s`: `(state, restart(_state_to_observation(state)))` -/
def reset (cfg : Cfg) (s : State) : State × TimeStep Obs := (s, restart (observeL1 cfg s))

/-! ### routes are walks (audit r1, entry 1) -/

/-- entry `t` of the route (`connected_nodes`) of agent `i`, -1 = not filled / outside -/
def routeAt (s : State) (i t : Nat) : Int := (s.connectedNodes.getD i []).getD t (-1)

/-- `RouteWalk` for agent `i` with `m = position_index[i]` -/
def RouteWalkAt (cfg : Cfg) (s : State) (i : Nat) : Prop :=
  (s.connectedNodes.getD i []).length = cfg.timeLimit ∧
  0 ≤ s.positionIndex.getD i 0 ∧ s.positionIndex.getD i 0 ≤ s.stepCount ∧
  s.positionIndex.getD i 0 ≤ (cfg.timeLimit : Int) ∧
  (∀ t, t < cfg.timeLimit → (t : Int) ≤ s.positionIndex.getD i 0 →
    0 ≤ routeAt s i t ∧ routeAt s i t < (cfg.numNodes : Int)) ∧
  (∀ t, t < cfg.timeLimit → s.positionIndex.getD i 0 < (t : Int) → routeAt s i t = -1) ∧
  (∀ t, t < cfg.timeLimit → t + 1 < cfg.timeLimit → (t : Int) + 1 ≤ s.positionIndex.getD i 0 →
    hasEdge s (routeAt s i t).toNat (routeAt s i (t + 1)).toNat) ∧
  (s.positionIndex.getD i 0 < (cfg.timeLimit : Int) →
    routeAt s i (s.positionIndex.getD i 0).toNat = s.positions.getD i 0) ∧
  (s.positionIndex.getD i 0 = (cfg.timeLimit : Int) →
    hasEdge s (routeAt s i (cfg.timeLimit - 1)).toNat (s.positions.getD i 0).toNat)
instance (cfg : Cfg) (s : State) (i : Nat) : Decidable (RouteWalkAt cfg s i) := by
  unfold RouteWalkAt; infer_instance

/-- the route of every agent is a walk in the graph that ends where the agent stands: with `r = connected_nodes[i]`
(length `time_limit`) and `m = position_index[i]` (`0 ≤ m ≤ step_count`): entries `0 … m` are node indices, the
entries after `m` are -1 (filled prefix of length `m + 1`), consecutive entries are joined by an edge of the
adjacency matrix, and `r[m]` is the agent's position.  When an agent has moved in every one of the `time_limit`
steps, `m = time_limit` and the write of the last node was dropped (out of bounds): then the whole row is filled
and the last entry is joined by an edge to the position. -/
def RouteWalk (cfg : Cfg) (s : State) : Prop :=
  ∀ i, i < cfg.numAgents → RouteWalkAt cfg s i
instance (cfg : Cfg) (s : State) : Decidable (RouteWalk cfg s) := by unfold RouteWalk; infer_instance

/-- C06, strengthened: hard constraint + bookkeeping + the routes are walks -/
def Feasible' (cfg : Cfg) (s : State) : Prop := Feasible cfg s ∧ RouteWalk cfg s
instance (cfg : Cfg) (s : State) : Decidable (Feasible' cfg s) := by unfold Feasible'; infer_instance

/-- complete feasible solution, strengthened: every agent has all its nodes on its route, which is a walk -/
def IsSolution' (cfg : Cfg) (s : State) : Prop :=
  Feasible' cfg s ∧ ∀ i, i < cfg.numAgents → agentDone s i
instance (cfg : Cfg) (s : State) : Decidable (IsSolution' cfg s) := by unfold IsSolution'; infer_instance

/-- node `v` is on the route of agent `i` -/
def onRoute (s : State) (i v : Nat) : Prop := (v : Int) ∈ s.connectedNodes.getD i []
instance (s : State) (i v : Nat) : Decidable (onRoute s i v) := by unfold onRoute; infer_instance

/-- `u` and `v` are neighbours in the (undirected) graph -/
def Linked (s : State) (u v : Nat) : Prop := hasEdge s u v ∨ hasEdge s v u
instance (s : State) (u v : Nat) : Decidable (Linked s u v) := by unfold Linked; infer_instance

/-- `u` and `v` are joined by a path of the graph all of whose nodes (end points included) satisfy `P`:
reachability in the subgraph induced by `P` -/
inductive ReachIn (s : State) (P : Nat → Prop) : Nat → Nat → Prop
  | refl (u : Nat) : P u → ReachIn s P u u
  | tail {u v w : Nat} : ReachIn s P u v → Linked s v w → P w → ReachIn s P u w

/-! ### per-agent outcome of an action by the rules (used by the C05 judge) -/

/-- documented reward of one agent given what happened to it: `moved` (it went to `a`), `legal` -/
def ruleReward (cfg : Cfg) (s : State) (i a : Nat) (isLegal moved : Bool) : Rat :=
  if decide (agentDone s i) then 0
  else if !isLegal then cfg.rStep + cfg.rNoop
  else if !moved then 0                       -- lost the tie-break: no reward, no penalty
  else if (s.nodesToConnect.getD i []).contains (a : Int) && !decide (connectedBy s i a) then cfg.rConn
  else cfg.rStep


/-- C05 predicate on a transition `(s, action) → (s', ts)`: every agent whose action is illegal keeps its
position and route, the reward is the sum of the documented per-agent rewards (who moved is read off `s'`),
and the episode only ends for a documented cause (all agents done, or the time limit) -/
def illegalIgnored (cfg : Cfg) (s : State) (action : List Nat) (s' : State) (ts : TimeStep Obs) : Bool :=
  let A := cfg.numAgents
  let isLegal := fun i => decide (legal cfg s i (action.getD i 0))
  let moved := fun i => s'.positionIndex.getD i 0 != s.positionIndex.getD i 0
  (List.range A).all (fun i => isLegal i ||
    (s'.positions.getD i 0 == s.positions.getD i 0 && s'.positionIndex.getD i 0 == s.positionIndex.getD i 0 &&
     s'.connectedNodes.getD i [] == s.connectedNodes.getD i [] &&
     s'.connectedIndex.getD i [] == s.connectedIndex.getD i [])) &&
  ts.reward == [((List.range A).map fun i => ruleReward cfg s i (action.getD i 0) (isLegal i) (moved i)).sum] &&
  (ts.stepType != .last || (List.range A).all (fun i => decide (agentDone s' i)) ||
    decide (s.stepCount + 1 ≥ (cfg.timeLimit : Int)))

/-! ### C10: certificates on a generated instance (`SplitRandomGenerator`) -/

/-- `np.array_split(arange N, A)[k]`: the first `N % A` blocks have one more node -/
def blockOf (N A k : Nat) : List Nat :=
  let q := N / A
  let r := N % A
  (List.range (q + (if k < r then 1 else 0))).map (· + (k * q + min k r))

/-- nodes of `nodes` reachable from `reached` inside the subgraph induced by `nodes` (fuel = rounds) -/
def grow (s : State) (nodes : List Nat) : Nat → List Nat → List Nat
  | 0, reached => reached
  | fuel + 1, reached =>
    let new := nodes.filter (fun v => !reached.contains v && reached.any (fun u => decide (hasEdge s u v)))
    if new.isEmpty then reached else grow s nodes fuel (reached ++ new)

def connectedOn (s : State) (nodes : List Nat) : Bool :=
  match nodes with
  | [] => true
  | v0 :: _ => let r := grow s nodes nodes.length [v0]; nodes.all (r.contains ·)

structure GenCfg where
  maxDegree : Nat
  numEdges : Nat

def certSymmetric (cfg : Cfg) (s : State) : Bool :=
  (List.range cfg.numNodes).all fun r => (List.range cfg.numNodes).all fun c =>
    (s.adj.getD r []).getD c 0 == (s.adj.getD c []).getD r 0
def certLoopless (cfg : Cfg) (s : State) : Bool :=
  (List.range cfg.numNodes).all fun r => (s.adj.getD r []).getD r 1 == 0
def certBinary (s : State) : Bool := s.adj.all fun r => r.all fun x => x == 0 || x == 1
def degree (s : State) (r : Nat) : Int := (s.adj.getD r []).sum
def certDegree (cfg : Cfg) (s : State) (bound : Nat) : Bool :=
  (List.range cfg.numNodes).all fun r => decide (degree s r ≤ (bound : Int))
def edgeCount (cfg : Cfg) (s : State) : Int := ((List.range cfg.numNodes).map (degree s)).sum / 2
/-- agents' node sets: K distinct in-range nodes each, pairwise disjoint, node types agree -/
def certAgentsDisjoint (cfg : Cfg) (s : State) : Bool :=
  (List.range cfg.numAgents).all (fun k =>
    let row := s.nodesToConnect.getD k []
    row.length == cfg.numNodesPerAgent && decide row.Nodup &&
    row.all (fun v => decide (0 ≤ v) && decide (v < (cfg.numNodes : Int))) &&
    (List.range cfg.numAgents).all (fun j => j == k || row.all (fun v => !(s.nodesToConnect.getD j []).contains v)))
def certTypes (cfg : Cfg) (s : State) : Bool :=
  (List.range cfg.numNodes).all fun v =>
    let t := s.nodeTypes.getD v 0
    (List.range cfg.numAgents).all (fun k => (t == (k : Int)) == (s.nodesToConnect.getD k []).contains (v : Int)) &&
    (decide (0 ≤ t) && decide (t < (cfg.numAgents : Int)) || t == -1)
def certOwnBlock (cfg : Cfg) (s : State) : Bool :=
  (List.range cfg.numAgents).all fun k =>
    (s.nodesToConnect.getD k []).all fun v => decide (0 ≤ v) && (blockOf cfg.numNodes cfg.numAgents k).contains v.toNat
def certBlocksConnected (cfg : Cfg) (s : State) : Bool :=
  (List.range cfg.numAgents).all fun k => connectedOn s (blockOf cfg.numNodes cfg.numAgents k)
def certGraphConnected (cfg : Cfg) (s : State) : Bool := connectedOn s (List.range cfg.numNodes)
/-- the start of an episode: every agent on its first node, routes otherwise empty, nothing finished,
fresh mask -/
def certStart (cfg : Cfg) (s : State) : Bool :=
  (List.range cfg.numAgents).all (fun k =>
    let p := s.positions.getD k (-1)
    p == (s.nodesToConnect.getD k []).getD 0 (-2) &&
    s.connectedNodes.getD k [] == p :: List.replicate ((s.connectedNodes.getD k []).length - 1) (-1) &&
    (s.connectedNodes.getD k []).length ≥ 1 &&
    s.connectedIndex.getD k [] == (List.range cfg.numNodes).map (fun (v : Nat) => if (v : Int) == p then p else (-1 : Int)) &&
    s.positionIndex.getD k 1 == 0 && s.finished.getD k true == false) &&
  s.stepCount == 0 &&
  s.actionMask == makeMask cfg.numAgents s.nodeEdges s.positions s.finished

end MMST
