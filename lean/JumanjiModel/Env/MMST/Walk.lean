/-
MMST, audit r1 entry 1: the routes are walks in the graph (`RouteWalk`), `Feasible'` is an inductive invariant of
`step` up to the time limit, a completed episode holds routes inside which the agent's nodes are pairwise connected
and which share no utility node; entry 7: the finished flags of a reset state are fresh (K ≥ 2).
-/
import JumanjiModel.Env.MMST.FeasibleLemmas
import JumanjiModel.Env.MMST.Solvable
namespace MMST
open Jm

/-! ### `Jx.setWD` outside the row -/

theorem setWD_ge {α} (xs : List α) (v : α) {k : Int} (h : (xs.length : Int) ≤ k) : Jx.setWD xs k v = xs := by
  unfold Jx.setWD Jx.wrapIdx
  simp only []
  have h1 : ¬ k < 0 := by omega
  simp only [h1, if_false]
  split <;> first | rfl | omega

/-! ### the route after a step -/

theorem step_routeAt_same (cfg : Cfg) (s : State) (action : List Int) (perm : List Nat) {i : Nat}
    (hi : i < cfg.numAgents) (hm : ¬ movedAt cfg s action perm i = true) (t : Nat) :
    routeAt (step cfg s action perm).1 i t = routeAt s i t := by
  unfold routeAt
  rw [step_connectedNodes cfg s action perm hi, if_neg hm]

theorem step_routeAt_moved (cfg : Cfg) (s : State) (action : List Int) (perm : List Nat) {i : Nat}
    (hi : i < cfg.numAgents) (hm : movedAt cfg s action perm i = true) {c n : Nat}
    (hn : nodeOf cfg s action i = (c : Int)) (hidx : s.positionIndex.getD i 0 = (n : Int)) (t : Nat) :
    routeAt (step cfg s action perm).1 i t =
      if n + 1 = t ∧ n + 1 < (s.connectedNodes.getD i []).length then (c : Int) else routeAt s i t := by
  unfold routeAt
  rw [step_connectedNodes cfg s action perm hi, if_pos hm, hn, hidx]
  have e : (n : Int) + 1 = ((n + 1 : Nat) : Int) := by omega
  rw [e]
  by_cases hlt : n + 1 < (s.connectedNodes.getD i []).length
  · rw [Jx.setWD_nat _ _ hlt, getD_set]
  · rw [setWD_ge _ _ (by omega), if_neg (fun h => hlt h.2)]

/-- `RouteWalk` is preserved by every step taken before the time limit (the step that reaches it included): any
joint action, any draw, any configuration -/
theorem step_routeWalk {cfg : Cfg} {s : State} (hS : Shaped cfg s) (hE : EdgesOK cfg s) (hW : RouteWalk cfg s)
    (ht : s.stepCount < (cfg.timeLimit : Int)) (action : List Int) (perm : List Nat) :
    RouteWalk cfg (step cfg s action perm).1 := by
  intro i hi
  obtain ⟨w1, w2, w3, w4, w5, w6, w7, w8, w9⟩ := hW i hi
  have hedge : ∀ r c, hasEdge (step cfg s action perm).1 r c ↔ hasEdge s r c := fun _ _ => Iff.rfl
  have hsc : (step cfg s action perm).1.stepCount = s.stepCount + 1 := rfl
  by_cases hm : movedAt cfg s action perm i = true
  · obtain ⟨c, hc, hn, hec, _⟩ := moved_node hS hE action perm hi hm
    obtain ⟨n, hidx⟩ := Int.eq_ofNat_of_zero_le w2
    have hR := step_routeAt_moved cfg s action perm hi hm hn hidx
    rw [w1] at hR
    have hnT : n < cfg.timeLimit := by omega
    have hpos : routeAt s i n = s.positions.getD i 0 := by
      have := w8 (by omega); rw [hidx] at this; simpa using this
    unfold RouteWalkAt
    rw [step_positionIndex cfg s action perm hi, if_pos hm, step_positions cfg s action perm hi, if_pos hm, hn, hidx,
      hsc]
    refine ⟨?_, by omega, by omega, by omega, ?_, ?_, ?_, ?_, ?_⟩
    · rw [step_connectedNodes cfg s action perm hi, if_pos hm, Jx.setWD_length]; exact w1
    · intro t htT htm
      rw [hR t]
      by_cases h : n + 1 = t ∧ n + 1 < cfg.timeLimit
      · rw [if_pos h]; omega
      · rw [if_neg h]; exact w5 t htT (by omega)
    · intro t htT htm
      rw [hR t, if_neg (by omega)]
      exact w6 t htT (by omega)
    · intro t htT htT1 htm
      rw [hedge, hR t, hR (t + 1), if_neg (by omega)]
      by_cases h : n = t
      · subst h
        rw [if_pos ⟨rfl, htT1⟩, hpos]
        simpa using hec
      · rw [if_neg (by omega)]
        exact w7 t htT htT1 (by omega)
    · intro hlt
      have e : ((n : Int) + 1).toNat = n + 1 := by omega
      rw [e, hR (n + 1), if_pos ⟨rfl, by omega⟩]
    · intro heq
      have e : cfg.timeLimit - 1 = n := by omega
      rw [hedge, e, hR n, if_neg (by omega), hpos]
      simpa using hec
  · have hR := step_routeAt_same cfg s action perm hi hm
    unfold RouteWalkAt
    rw [step_positionIndex cfg s action perm hi, if_neg hm, step_positions cfg s action perm hi, if_neg hm, hsc]
    refine ⟨?_, w2, by omega, w4, ?_, ?_, ?_, ?_, ?_⟩
    · rw [step_connectedNodes cfg s action perm hi, if_neg hm]; exact w1
    · intro t htT htm; rw [hR t]; exact w5 t htT htm
    · intro t htT htm; rw [hR t]; exact w6 t htT htm
    · intro t htT htT1 htm; rw [hedge, hR t, hR (t + 1)]; exact w7 t htT htT1 htm
    · intro hlt; rw [hR]; exact w8 hlt
    · intro heq; rw [hedge, hR]; exact w9 heq

/-- C06 (strengthened): `Feasible'` is preserved by every step taken before the time limit -/
theorem step_feasible' {cfg : Cfg} {s : State} (h : Feasible' cfg s) (ht : s.stepCount < (cfg.timeLimit : Int))
    (action : List Int) (perm : List Nat) : Feasible' cfg (step cfg s action perm).1 :=
  ⟨step_feasible h.1 action perm, step_routeWalk h.1.1 h.1.2.2.1 h.2 ht action perm⟩

theorem statesAlong_stepCount (cfg : Cfg) (steps : List (List Int × List Nat)) :
    ∀ (s : State), ∀ s' ∈ statesAlong cfg s steps,
      s.stepCount ≤ s'.stepCount ∧ s'.stepCount ≤ s.stepCount + (steps.length : Int) := by
  induction steps with
  | nil => intro s s' hs'; simp only [statesAlong, List.mem_singleton] at hs'; subst hs'; simp
  | cons st rest ih =>
    intro s s' hs'
    simp only [statesAlong, List.mem_cons] at hs'
    rcases hs' with rfl | hs'
    · simp only [List.length_cons]; omega
    · have := ih _ s' hs'
      rw [step_count] at this
      simp only [List.length_cons]
      omega

/-- … and along every run that stays within the time limit (`steps` = joint actions and draws played one after
the other; the state reached by the step that hits the limit included) -/
theorem feasible_along' {cfg : Cfg} (steps : List (List Int × List Nat)) :
    ∀ {s : State}, Feasible' cfg s → s.stepCount + (steps.length : Int) ≤ (cfg.timeLimit : Int) →
      ∀ s' ∈ statesAlong cfg s steps, Feasible' cfg s' := by
  induction steps with
  | nil => intro s h _ s' hs'; simp only [statesAlong, List.mem_singleton] at hs'; rw [hs']; exact h
  | cons st rest ih =>
    intro s h hlen s' hs'
    simp only [statesAlong, List.mem_cons] at hs'
    simp only [List.length_cons] at hlen
    rcases hs' with rfl | hs'
    · exact h
    · exact ih (step_feasible' h (by omega) st.1 st.2) (by rw [step_count]; omega) s' hs'

/-! ### reset states -/

/-- a state with the configured shapes satisfying `certStart` whose route rows have `time_limit ≥ 1` entries:
every route is the one-node walk at the agent's start node -/
theorem reset_routeWalk {cfg : Cfg} {s : State} (hS : Shaped cfg s) (h1 : certStart cfg s = true)
    (hT : 1 ≤ cfg.timeLimit) (hL : ∀ i, i < cfg.numAgents → (s.connectedNodes.getD i []).length = cfg.timeLimit) :
    RouteWalk cfg s := by
  simp only [certStart, List.all_eq_true, List.mem_range, Bool.and_eq_true, beq_iff_eq, decide_eq_true_eq] at h1
  intro i hi
  obtain ⟨⟨⟨⟨⟨_, hcn⟩, _⟩, _⟩, hidx⟩, _⟩ := h1.1.1 i hi
  have hsc : s.stepCount = 0 := h1.1.2
  have hpl : s.positions.length = cfg.numAgents := hS.2.2.2.2.2.2.2.2.2.1
  have hil : s.positionIndex.length = cfg.numAgents := hS.2.2.2.2.2.2.2.2.2.2.2.1
  have hidx0 : s.positionIndex.getD i 0 = 0 := by
    rw [getD_default s.positionIndex 0 1 (by omega)]; exact hidx
  have hp := pos_range hS hi
  have hpe : s.positions.getD i (-1) = s.positions.getD i 0 := getD_default _ _ _ (by omega)
  have hlen := hL i hi
  have hr0 : routeAt s i 0 = s.positions.getD i 0 := by
    unfold routeAt; rw [hcn, hpe]; rfl
  have hrt : ∀ t, 0 < t → routeAt s i t = -1 := by
    intro t ht
    unfold routeAt
    rw [hcn]
    obtain ⟨t', rfl⟩ : ∃ t', t = t' + 1 := ⟨t - 1, by omega⟩
    simp only [List.getD_eq_getElem?_getD, List.getElem?_cons_succ, List.getElem?_replicate]
    split <;> rfl
  unfold RouteWalkAt
  rw [hidx0, hsc]
  refine ⟨hlen, by omega, by omega, by omega, ?_, ?_, ?_, ?_, ?_⟩
  · intro t _ ht0
    have : t = 0 := by omega
    subst this
    rw [hr0]; exact hp
  · intro t _ ht0
    exact hrt t (by omega)
  · intro t _ _ h; omega
  · intro _; simpa using hr0
  · intro h; omega

/-- C06 (strengthened): a generated state is `Feasible'` -/
theorem reset_feasible' {cfg : Cfg} {s : State} (hS : Shaped cfg s) (h1 : certStart cfg s = true)
    (h2 : certTypes cfg s = true) (h3 : certEdgesAdj cfg s = true) (hT : 1 ≤ cfg.timeLimit)
    (hL : ∀ i, i < cfg.numAgents → (s.connectedNodes.getD i []).length = cfg.timeLimit) : Feasible' cfg s :=
  ⟨reset_feasible hS h1 h2 h3, reset_routeWalk hS h1 hT hL⟩

/-- entry 7: with at least two nodes per agent, no agent is done in a generated state, so the (all false) finished
flags are fresh -/
theorem reset_flagsFresh {cfg : Cfg} {s : State} (hS : Shaped cfg s) (h1 : certStart cfg s = true)
    (h4 : certAgentsDisjoint cfg s = true) (hK : 2 ≤ cfg.numNodesPerAgent) : FlagsFresh cfg s := by
  simp only [certStart, List.all_eq_true, List.mem_range, Bool.and_eq_true, beq_iff_eq, decide_eq_true_eq] at h1
  simp only [certAgentsDisjoint, List.all_eq_true, List.mem_range, Bool.and_eq_true, beq_iff_eq,
    decide_eq_true_eq] at h4
  intro i hi
  obtain ⟨⟨⟨⟨⟨hp0, hcn⟩, _⟩, _⟩, _⟩, hfin⟩ := h1.1.1 i hi
  obtain ⟨⟨⟨hlen, hnd⟩, hrng⟩, _⟩ := h4 i hi
  have hfl : s.finished.length = cfg.numAgents := hS.2.2.2.2.2.2.2.2.2.2.2.2
  have hf : s.finished.getD i false = false := by
    rw [getD_default s.finished false true (by omega)]; exact hfin
  rw [hf]
  have : ¬ agentDone s i := by
    intro hd
    unfold agentDone at hd
    cases hrow : s.nodesToConnect.getD i [] with
    | nil => rw [hrow] at hlen; simp at hlen; omega
    | cons x xs =>
      cases xs with
      | nil => rw [hrow] at hlen; simp at hlen; omega
      | cons y ys =>
        rw [hrow] at hd hnd hrng hp0
        have hy := hd y (by simp)
        rw [hcn] at hy
        have hp0' : s.positions.getD i (-1) = x := hp0
        have hxy : x ≠ y := by
          intro h; subst h
          simp at hnd
        have hy0 := hrng y (by simp)
        rcases List.mem_cons.1 hy with hy | hy
        · rw [hp0'] at hy; exact hxy hy.symm
        · have := List.eq_of_mem_replicate hy
          omega
  simp [this]

/-! ### a completed episode: the agent's nodes are connected inside its route -/

/-- along a walk `f 0, f 1, …, f n` whose nodes satisfy `P`, later nodes are reachable from earlier ones … -/
theorem reach_walk_up {s : State} {P : Nat → Prop} (f : Nat → Nat) (n : Nat) (hP : ∀ t, t ≤ n → P (f t))
    (hL : ∀ t, t < n → Linked s (f t) (f (t + 1))) (a : Nat) :
    ∀ k, a + k ≤ n → ReachIn s P (f a) (f (a + k))
  | 0, h => ReachIn.refl _ (hP a (by omega))
  | k + 1, h =>
    ReachIn.tail (reach_walk_up f n hP hL a k (by omega)) (hL (a + k) (by omega)) (hP (a + k + 1) (by omega))

/-- … and earlier nodes from later ones -/
theorem reach_walk_down {s : State} {P : Nat → Prop} (f : Nat → Nat) (n : Nat) (hP : ∀ t, t ≤ n → P (f t))
    (hL : ∀ t, t < n → Linked s (f t) (f (t + 1))) (b : Nat) (hb : b ≤ n) :
    ∀ k, k ≤ b → ReachIn s P (f b) (f (b - k))
  | 0, _ => ReachIn.refl _ (hP b hb)
  | k + 1, h => by
    have h1 := reach_walk_down f n hP hL b hb k (by omega)
    have h2 := hL (b - (k + 1)) (by omega)
    have e : b - (k + 1) + 1 = b - k := by omega
    rw [e] at h2
    exact ReachIn.tail h1 h2.symm (hP _ (by omega))

theorem reach_walk {s : State} {P : Nat → Prop} (f : Nat → Nat) (n : Nat) (hP : ∀ t, t ≤ n → P (f t))
    (hL : ∀ t, t < n → Linked s (f t) (f (t + 1))) {a b : Nat} (ha : a ≤ n) (hb : b ≤ n) :
    ReachIn s P (f a) (f b) := by
  by_cases h : a ≤ b
  · have := reach_walk_up f n hP hL a (b - a) (by omega)
    have e : a + (b - a) = b := by omega
    rw [e] at this; exact this
  · have := reach_walk_down f n hP hL a ha (a - b) (by omega)
    have e : a - (a - b) = b := by omega
    rw [e] at this; exact this

/-- any two nodes on the route of an agent are connected by a path of graph edges that stays on the route -/
theorem route_connected {cfg : Cfg} {s : State} (hW : RouteWalk cfg s) {i : Nat}
    (hi : i < cfg.numAgents) {u v : Nat} (hu : onRoute s i u) (hv : onRoute s i v) :
    ReachIn s (onRoute s i) u v := by
  obtain ⟨w1, w2, w3, w4, w5, w6, w7, w8, w9⟩ := hW i hi
  have hT : 1 ≤ cfg.timeLimit := by
    have := List.length_pos_of_mem hu
    omega
  obtain ⟨m, hm⟩ := Int.eq_ofNat_of_zero_le w2
  rw [hm] at w4 w5 w6 w7
  -- the last filled index
  let n := min m (cfg.timeLimit - 1)
  have hnT : n < cfg.timeLimit := by omega
  have hnm : n ≤ m := by omega
  let f : Nat → Nat := fun t => (routeAt s i t).toNat
  have hfr : ∀ t, t ≤ n → ((f t : Nat) : Int) = routeAt s i t := by
    intro t ht
    have := w5 t (by omega) (by omega)
    show (((routeAt s i t).toNat : Nat) : Int) = _
    omega
  have hP : ∀ t, t ≤ n → onRoute s i (f t) := by
    intro t ht
    unfold onRoute
    rw [hfr t ht]
    unfold routeAt
    exact getD_mem _ _ (by rw [w1]; omega)
  have hL : ∀ t, t < n → Linked s (f t) (f (t + 1)) := by
    intro t ht
    left
    exact w7 t (by omega) (by omega) (by omega)
  -- every node on the route is some `f t`
  have hidx : ∀ x : Nat, onRoute s i x → ∃ t, t ≤ n ∧ f t = x := by
    intro x hx
    obtain ⟨t, htl, hte⟩ := mem_exists_getD' (-1) hx
    rw [w1] at htl
    have htm : t ≤ m := by
      false_or_by_contra
      have := w6 t htl (by omega)
      unfold routeAt at this
      omega
    refine ⟨t, by omega, ?_⟩
    show (routeAt s i t).toNat = x
    unfold routeAt
    omega
  obtain ⟨a, ha, rfl⟩ := hidx u hu
  obtain ⟨b, hb, rfl⟩ := hidx v hv
  exact reach_walk f n hP hL ha hb

/-- the routes of two different agents share no utility node -/
theorem routes_utility_disjoint {cfg : Cfg} {s : State} (hF : Feasible cfg s) {i j : Nat} (hi : i < cfg.numAgents)
    (hj : j < cfg.numAgents) (hij : i ≠ j) {v : Nat} (hu : isUtility s v) :
    ¬ (onRoute s i v ∧ onRoute s j v) := by
  rintro ⟨h1, h2⟩
  obtain ⟨_, hU, _, hR⟩ := hF
  have c1 := hR.2.1 i hi _ h1 (by omega)
  have c2 := hR.2.1 j hj _ h2 (by omega)
  simp only [Int.toNat_natCast] at c1 c2
  apply hU i hi j hj v (by omega) ⟨hij, hu, ?_, ?_⟩
  · unfold connectedBy; omega
  · unfold connectedBy; omega

/-- what a strengthened solution is: every agent's nodes to connect are pairwise connected INSIDE its own route,
and the routes of different agents share no utility node -/
theorem solution_connects {cfg : Cfg} {s : State} (h : IsSolution' cfg s) :
    (∀ i, i < cfg.numAgents → ∀ u v : Nat, (u : Int) ∈ s.nodesToConnect.getD i [] →
        (v : Int) ∈ s.nodesToConnect.getD i [] → ReachIn s (onRoute s i) u v) ∧
    (∀ i j, i < cfg.numAgents → j < cfg.numAgents → i ≠ j → ∀ v, isUtility s v →
        ¬ (onRoute s i v ∧ onRoute s j v)) := by
  refine ⟨?_, ?_⟩
  · intro i hi u v hu hv
    exact route_connected h.1.2 hi (h.2 i hi _ hu) (h.2 i hi _ hv)
  · intro i j hi hj hij v hu
    exact routes_utility_disjoint h.1.1 hi hj hij hu

/-- the step that ends an episode before the time limit leaves a strengthened solution -/
theorem step_complete_is_solution' {cfg : Cfg} {s : State} (hF : Feasible' cfg s) (action : List Int)
    (perm : List Nat)
    (hK : ∀ i, i < cfg.numAgents → (s.nodesToConnect.getD i []).length = cfg.numNodesPerAgent)
    (hlast : (step cfg s action perm).2.stepType = .last) (ht : s.stepCount + 1 < (cfg.timeLimit : Int)) :
    IsSolution' cfg (step cfg s action perm).1 :=
  ⟨step_feasible' hF (by omega) action perm, (step_complete_is_solution hF.1 action perm hK hlast ht).2⟩

end MMST
