/-
MMST, audit r1 entry 14 / gap C12: the L2 observation carries the mask the RULES prescribe (`legalMask`); it equals
the L1 observation (`_state_to_observation`, cached mask) on every state whose cached mask is the mask function of
its own arrays and flags — all successors of `step` in the repaired configuration and all reset states.
-/
import JumanjiModel.Env.MMST.Walk
namespace MMST
open Jm

theorem ext_getD {α} {l1 l2 : List α} (d : α) (hl : l1.length = l2.length)
    (h : ∀ i, i < l1.length → l1.getD i d = l2.getD i d) : l1 = l2 := by
  apply List.ext_getElem hl
  intro i h1 h2
  have := h i h1
  simpa [List.getD_eq_getElem?_getD, h1, h2] using this

/-- with fresh finished flags the mask FUNCTION is, as a whole array, the mask of the rules -/
theorem makeMask_eq_legalMask {cfg : Cfg} {s : State} (hS : Shaped cfg s) (hE : EdgesOK cfg s)
    (hF : FlagsFresh cfg s) : makeMask cfg.numAgents s.nodeEdges s.positions s.finished = legalMask cfg s := by
  apply ext_getD [] (by simp [makeMask, legalMask])
  intro i hi
  have hi' : i < cfg.numAgents := by simpa [makeMask] using hi
  have hrow1 : ((makeMask cfg.numAgents s.nodeEdges s.positions s.finished).getD i []).length = cfg.numNodes := by
    rw [makeMask, getD_map_range _ _ _ hi', List.length_map]
    have hp := pos_range hS hi'
    obtain ⟨hel, her⟩ := edges_shape hS hi'
    rw [getWC_nat _ _ _ hp.1 (by rw [hel]; exact hp.2)]
    exact her _ (getD_mem _ _ (by omega))
  have hrow2 : ((legalMask cfg s).getD i []).length = cfg.numNodes := by
    rw [legalMask, getD_map_range _ _ _ hi']; simp
  apply ext_getD false (by rw [hrow1, hrow2])
  intro a ha
  rw [hrow1] at ha
  have h := mask_iff_legal hS hE hF hi' ha
  have h2 : ((legalMask cfg s).getD i []).getD a false = decide (legal cfg s i a) := by
    rw [legalMask, getD_map_range _ _ _ hi', getD_map_range _ _ _ ha]
  rw [h2]
  by_cases hl : legal cfg s i a
  · rw [h.2 hl]; simp [hl]
  · have : ((makeMask cfg.numAgents s.nodeEdges s.positions s.finished).getD i []).getD a false ≠ true :=
      fun hc => hl (h.1 hc)
    simp only [hl, decide_false]
    cases hb : ((makeMask cfg.numAgents s.nodeEdges s.positions s.finished).getD i []).getD a false
    · rfl
    · exact absurd hb this

/-- entry 14: the L1 observation IS the documented observation (labels and rule mask) on every state whose arrays
are in shape, whose edge tables and flags are up to date and whose cached mask is the mask function of them -/
theorem obs_eq {cfg : Cfg} {s : State} (hS : Shaped cfg s) (hE : EdgesOK cfg s) (hF : FlagsFresh cfg s)
    (hT : ∀ t ∈ s.nodeTypes, -1 ≤ t ∧ t < (cfg.numAgents : Int))
    (hM : s.actionMask = makeMask cfg.numAgents s.nodeEdges s.positions s.finished) :
    observeL1 cfg s = observe cfg s := by
  have h1 : obsNodeTypes cfg.numAgents s.nodeTypes s.connectedIndex = (List.range cfg.numNodes).map (nodeLabel cfg s) := by
    apply ext_getD 0 (by rw [obsNodeTypes_length hS]; simp)
    intro v hv
    rw [obsNodeTypes_length hS] at hv
    rw [relabel_eq_spec hS hT hv, getD_map_range _ _ _ hv]
  unfold observeL1 observe
  rw [h1, hM, makeMask_eq_legalMask hS hE hF]

/-- … in particular the observation returned by `step` in the repaired configuration (`freshMask`) -/
theorem step_obs_eq {cfg : Cfg} {s : State} (hc : cfg.freshMask = true) (hF : Feasible cfg s)
    (hK : ∀ i, i < cfg.numAgents → (s.nodesToConnect.getD i []).length = cfg.numNodesPerAgent)
    (hT : ∀ t ∈ s.nodeTypes, -1 ≤ t ∧ t < (cfg.numAgents : Int)) (action : List Int) (perm : List Nat) :
    (step cfg s action perm).2.obs = observe cfg (step cfg s action perm).1 := by
  rw [obs_faithful]
  have hF' := step_feasible hF action perm
  exact obs_eq hF'.1 hF'.2.2.1 (step_flagsFresh cfg s action perm hK) hT
    (cached_mask_fresh cfg s action perm (Or.inl hc))

/-- `certTypes` bounds the node types -/
theorem types_range_of_cert {cfg : Cfg} {s : State} (hS : Shaped cfg s) (h2 : certTypes cfg s = true) :
    ∀ t ∈ s.nodeTypes, -1 ≤ t ∧ t < (cfg.numAgents : Int) := by
  simp only [certTypes, List.all_eq_true, List.mem_range, Bool.and_eq_true, beq_iff_eq, Bool.or_eq_true,
    decide_eq_true_eq] at h2
  intro t ht
  obtain ⟨v, hv, rfl⟩ := mem_exists_getD' 0 ht
  rw [hS.1] at hv
  rcases (h2 v hv).2 with h | h <;> omega

/-- gap C12: `reset` returns a FIRST timestep (zero reward, discount one) whose observation is the documented
observation of the generated state -/
theorem reset_obs {cfg : Cfg} {s : State} (hS : Shaped cfg s) (h1 : certStart cfg s = true)
    (h2 : certTypes cfg s = true) (h3 : certEdgesAdj cfg s = true) (h4 : certAgentsDisjoint cfg s = true)
    (hK : 2 ≤ cfg.numNodesPerAgent) :
    (reset cfg s).1 = s ∧ (reset cfg s).2.stepType = .first ∧ (reset cfg s).2.reward = [0] ∧
    (reset cfg s).2.discount = [1] ∧ (reset cfg s).2.obs = observe cfg s := by
  refine ⟨rfl, rfl, rfl, rfl, ?_⟩
  have hF := reset_feasible hS h1 h2 h3
  have hM : s.actionMask = makeMask cfg.numAgents s.nodeEdges s.positions s.finished := by
    simp only [certStart, List.all_eq_true, List.mem_range, Bool.and_eq_true, beq_iff_eq, decide_eq_true_eq] at h1
    exact h1.2
  exact obs_eq hS hF.2.2.1 (reset_flagsFresh hS h1 h4 hK) (types_range_of_cert hS h2) hM

end MMST
