/-
MMST, audit entry 15: the WHOLE documented effect of a joint action with illegal components on the repaired
configuration (`guardVisited = true`): the agents whose action is illegal keep their rows, the reward is the sum
of the documented per-agent rewards (`ruleReward`), and the episode only ends for a documented cause.
For every feasible state with fresh flags, every joint action of in-range nodes, every valid draw.
-/
import JumanjiModel.Env.MMST.FeasibleLemmas
namespace MMST
open Jm

/-! ### the tie-break table at entry `i` -/

/-- the agents other than `i` never write entry `i` of the tie-break table -/
theorem tb_foldl_notin (action nodes : List Int) {i : Nat} :
    ∀ (ks : List Nat) (st : TB), i ∉ ks →
      (ks.foldl (tbStep action nodes) st).newActions.getD i (-1) = st.newActions.getD i (-1) := by
  intro ks
  induction ks with
  | nil => intro st _; rfl
  | cons k ks ih =>
    intro st hk
    simp only [List.foldl_cons]
    rw [ih _ (fun h => hk (List.mem_cons_of_mem _ h))]
    have hki : ¬ (k = i ∧ k < st.newActions.length) := fun h => hk (by rw [h.1]; exact List.mem_cons_self)
    unfold tbStep
    simp only []
    split
    · simp only [getD_set]; rw [if_neg hki]
    · rfl
    · simp only [getD_set]; rw [if_neg hki]
    · rfl

/-- an agent that asks for no node (-1) keeps its initial entry, whatever the draw -/
theorem tb_foldl_invalid (action nodes : List Int) {i : Nat} (hn : nodes.getD i (-1) = -1) :
    ∀ (ks : List Nat) (st : TB),
      (ks.foldl (tbStep action nodes) st).newActions.getD i (-1) = st.newActions.getD i (-1) := by
  intro ks
  induction ks with
  | nil => intro st; rfl
  | cons k ks ih =>
    intro st
    simp only [List.foldl_cons]
    rw [ih]
    unfold tbStep
    simp only []
    split
    · rename_i hinv _
      have hki : ¬ (k = i ∧ k < st.newActions.length) := by
        intro h; rw [h.1, hn] at hinv; simp at hinv
      simp only [getD_set]; rw [if_neg hki]
    · rfl
    · rename_i hinv _
      have hki : ¬ (k = i ∧ k < st.newActions.length) := by
        intro h; rw [h.1, hn] at hinv; simp at hinv
      simp only [getD_set]; rw [if_neg hki]
    · rfl

theorem tbInit_newActions (A i : Nat) : (tbInit A).newActions.getD i (-1) = -1 := by
  simp only [tbInit, List.getD_eq_getElem?_getD, List.getElem?_replicate]
  split <;> rfl

/-- no node asked for: the entry stays -1 (INVALID_CHOICE), for ANY draw -/
theorem tieBreak_invalid (A : Nat) (action nodes : List Int) (perm : List Nat) {i : Nat}
    (hn : nodes.getD i (-1) = -1) : (tieBreak A action nodes perm).newActions.getD i (-1) = -1 := by
  unfold tieBreak
  rw [tb_foldl_invalid action nodes hn, tbInit_newActions]

theorem tbStep_self (action nodes : List Int) (st : TB) {i : Nat} (hi : i < st.newActions.length)
    (hn : nodes.getD i (-1) ≠ -1) :
    (tbStep action nodes st i).newActions.getD i (-1) = action.getD i (-1) ∨
    (tbStep action nodes st i).newActions.getD i (-1) = -2 := by
  unfold tbStep
  simp only []
  split
  · right; simp only [getD_set]; rw [if_pos ⟨trivial, hi⟩]
  · rename_i hinv _; simp at hinv; exact absurd hinv hn
  · left; simp only [getD_set]; rw [if_pos ⟨trivial, hi⟩]
  · rename_i hinv _; simp at hinv; exact absurd hinv hn

/-- a real node asked for, a VALID draw: the entry is the agent's own action or -2 (INVALID_TIE_BREAK) -/
theorem tieBreak_valid (A : Nat) (action nodes : List Int) (perm : List Nat) (hd : validDraw A perm) {i : Nat}
    (hi : i < A) (hn : nodes.getD i (-1) ≠ -1) :
    (tieBreak A action nodes perm).newActions.getD i (-1) = action.getD i (-1) ∨
    (tieBreak A action nodes perm).newActions.getD i (-1) = -2 := by
  obtain ⟨l1, l2, rfl⟩ := List.append_of_mem (mem_of_validDraw hd hi)
  have hi2 : i ∉ l2 := by
    have := (List.nodup_append.1 hd.2.1).2.1
    exact (List.nodup_cons.1 this).1
  have hlen := (tieBreak_inv A action nodes l1).ln
  unfold tieBreak at hlen ⊢
  rw [List.foldl_append, List.foldl_cons, tb_foldl_notin action nodes l2 _ hi2]
  exact tbStep_self action nodes _ (by rw [hlen]; exact hi) hn

/-! ### the trimmed action and the reward of one agent -/

theorem actOf_eq (cfg : Cfg) (s : State) (action : List Int) (perm : List Nat) {i : Nat} (hi : i < cfg.numAgents) :
    actOf cfg s action perm i =
      finalAction cfg s (targets cfg s action)
        (tieBreak cfg.numAgents action (targets cfg s action) perm).newActions i := by
  unfold actOf trim; simp only []; rw [getD_map_range _ _ _ hi]

theorem step_reward (cfg : Cfg) (s : State) (a : List Int) (p : List Nat) :
    (step cfg s a p).2.reward =
      [reward cfg s.nodesToConnect (trim cfg s a p) (step cfg s a p).1.positions s.finished] := by
  simp only [step, condLast]
  split <;> rfl

theorem ite_succ_bne (b : Bool) (x : Int) : ((if b = true then x + 1 else x) != x) = b := by
  cases b
  · simp
  · simp; omega

/-- the trimmed action of an unfinished agent on the repaired configuration: -1 when it asks for no node -/
theorem actOf_invalid {cfg : Cfg} {s : State} (hg : cfg.guardVisited = true) (action : List Int) (perm : List Nat)
    {i : Nat} (hi : i < cfg.numAgents) (hfin : s.finished.getD i false = false)
    (hn : nodeOf cfg s action i = -1) : actOf cfg s action perm i = -1 := by
  have hn' : (targets cfg s action).getD i (-1) = -1 := hn
  rw [actOf_eq cfg s action perm hi]
  unfold finalAction
  simp only [hn', hg, hfin, tieBreak_invalid cfg.numAgents action _ perm hn']
  simp

/-- … and when it asks for the real node `a`: -3 if it has already visited `a`, else its tie-break entry -/
theorem actOf_valid {cfg : Cfg} {s : State} (hS : Shaped cfg s) (action : List Int) (perm : List Nat)
    {i a : Nat} (hi : i < cfg.numAgents) (ha : a < cfg.numNodes) (hfin : s.finished.getD i false = false)
    (hn : nodeOf cfg s action i = (a : Int)) :
    actOf cfg s action perm i =
      if (s.connectedIndex.getD i []).getD a (-1) ≠ -1 then -3
      else (tieBreak cfg.numAgents action (targets cfg s action) perm).newActions.getD i (-1) := by
  have hn' : (targets cfg s action).getD i (-1) = (a : Int) := hn
  have hne : ((a : Int) == -1) = false := by
    have : (a : Int) ≠ -1 := by omega
    simp [this]
  rw [actOf_eq cfg s action perm hi]
  unfold finalAction
  simp only [hn', hfin, hne, Bool.and_false]
  rw [Jx.getWC_nat _ _ (by rw [ci_length hS hi]; exact ha)]
  simp

theorem agent_outcome {cfg : Cfg} {s : State} (hg : cfg.guardVisited = true)
    (hS : Shaped cfg s) (hE : EdgesOK cfg s) (hFr : FlagsFresh cfg s)
    (action perm : List Nat) (hd : validDraw cfg.numAgents perm)
    (hl : action.length = cfg.numAgents) {i : Nat} (hi : i < cfg.numAgents)
    (ha : action.getD i 0 < cfg.numNodes) :
    (if s.finished.getD i false = true then (0 : Rat)
     else agentReward cfg (s.nodesToConnect.getD i []) (actOf cfg s (action.map Int.ofNat) perm i)
            ((step cfg s (action.map Int.ofNat) perm).1.positions.getD i 0)) =
    ruleReward cfg s i (action.getD i 0) (decide (legal cfg s i (action.getD i 0)))
      ((step cfg s (action.map Int.ofNat) perm).1.positionIndex.getD i 0 != s.positionIndex.getD i 0) := by
  rw [step_positions cfg s _ _ hi, step_positionIndex cfg s _ _ hi, ite_succ_bne]
  by_cases hdone : agentDone s i
  · have hfin : s.finished.getD i false = true := by rw [hFr i hi]; simp [hdone]
    rw [if_pos hfin]; unfold ruleReward; simp [hdone]
  · have hfin : s.finished.getD i false = false := by rw [hFr i hi]; simp [hdone]
    have hnode : nodeOf cfg s (action.map Int.ofNat) i =
        (if hasEdge s (s.positions.getD i 0).toNat (action.getD i 0) ∧ ¬ takenByOther cfg s i (action.getD i 0)
          then ((action.getD i 0 : Nat) : Int) else -1) := by
      show (targets cfg s (action.map Int.ofNat)).getD i (-1) = _
      rw [targets_getD cfg s action hi, target_eq hS hE hi ha]
    by_cases hleg : legal cfg s i (action.getD i 0)
    · have hc : hasEdge s (s.positions.getD i 0).toNat (action.getD i 0) ∧
          ¬ takenByOther cfg s i (action.getD i 0) := ⟨hleg.2.2.2.1, hleg.2.2.2.2⟩
      rw [if_pos hc] at hnode
      have hact := actOf_valid hS (action.map Int.ofNat) perm hi ha hfin hnode
      have hnode' : (targets cfg s (action.map Int.ofNat)).getD i (-1) = ((action.getD i 0 : Nat) : Int) := hnode
      have htb := tieBreak_valid cfg.numAgents (action.map Int.ofNat) (targets cfg s (action.map Int.ofNat)) perm
        hd hi (by rw [hnode']; omega)
      have hown : (action.map Int.ofNat).getD i (-1) = ((action.getD i 0 : Nat) : Int) := by
        have hlen : i < action.length := by omega
        simp [List.getD_eq_getElem?_getD, hlen]
      rw [hown] at htb
      have hge : ¬ ((action.getD i 0 : Nat) : Int) = -1 := by omega
      have hge2 : ¬ ((action.getD i 0 : Nat) : Int) = -2 := by omega
      have hgt : ((action.getD i 0 : Nat) : Int) > -1 := by omega
      by_cases hvis : connectedBy s i (action.getD i 0)
      · have hvis' : (s.connectedIndex.getD i []).getD (action.getD i 0) (-1) ≠ -1 := hvis
        rw [if_pos hvis'] at hact
        unfold movedAt moves agentReward ruleReward
        simp only [hfin, hact, hnode, hdone, hleg, hvis]
        simp
        grind
      · have hvis' : ¬ (s.connectedIndex.getD i []).getD (action.getD i 0) (-1) ≠ -1 := hvis
        rw [if_neg hvis'] at hact
        rcases htb with htb | htb
        · rw [htb] at hact
          unfold movedAt moves agentReward ruleReward
          simp only [hfin, hact, hnode, hdone, hleg, hvis]
          simp
          have hgt' : (-1 : Int) < ((action[i]?.getD 0 : Nat) : Int) := by omega
          simp only [hgt', and_true]
          split <;> grind
        · rw [htb] at hact
          unfold movedAt moves agentReward ruleReward
          simp only [hfin, hact, hnode, hdone, hleg, hvis]
          simp
          grind
    · have hc : ¬ (hasEdge s (s.positions.getD i 0).toNat (action.getD i 0) ∧
          ¬ takenByOther cfg s i (action.getD i 0)) := fun h => hleg ⟨hi, ha, hdone, h.1, h.2⟩
      rw [if_neg hc] at hnode
      have hact := actOf_invalid hg (action.map Int.ofNat) perm hi hfin hnode
      unfold movedAt moves agentReward ruleReward
      simp only [hfin, hact, hnode, hdone, hleg]
      simp
      grind

/-- audit entry 15: the whole documented effect of a joint action with illegal components (repaired visited
lookup): the agents whose action is illegal keep their rows, the reward is the sum of the documented per-agent
rewards, the episode only ends because all agents are done or the time limit is reached -/
theorem illegalIgnored_repaired {cfg : Cfg} {s : State} (hg : cfg.guardVisited = true)
    (hF : Feasible cfg s) (hFr : FlagsFresh cfg s)
    (hK : ∀ i, i < cfg.numAgents → (s.nodesToConnect.getD i []).length = cfg.numNodesPerAgent)
    (action perm : List Nat) (hd : validDraw cfg.numAgents perm)
    (hl : action.length = cfg.numAgents) (ha : ∀ i, i < cfg.numAgents → action.getD i 0 < cfg.numNodes) :
    illegalIgnored cfg s action (step cfg s (action.map Int.ofNat) perm).1
      (step cfg s (action.map Int.ofNat) perm).2 = true := by
  obtain ⟨hS, _, hE, _⟩ := hF
  unfold illegalIgnored
  simp only [Bool.and_eq_true]
  refine ⟨⟨?_, ?_⟩, ?_⟩
  · rw [List.all_eq_true]
    intro i hi
    have hi' : i < cfg.numAgents := List.mem_range.1 hi
    by_cases hleg : legal cfg s i (action.getD i 0)
    · rw [decide_eq_true hleg]; rfl
    · obtain ⟨h1, h2, h3, h4⟩ := illegal_ignored hS hE hFr action perm hi' (ha i hi') hleg
      rw [h1, h2, h3, h4]
      simp
  · rw [step_reward, beq_iff_eq]
    congr 1
    unfold reward
    congr 1
    apply List.map_congr_left
    intro i hi
    have hi' : i < cfg.numAgents := List.mem_range.1 hi
    exact agent_outcome hg hS hE hFr action perm hd hl hi' (ha i hi')
  · by_cases hlast : (step cfg s (action.map Int.ofNat) perm).2.stepType = .last
    · rcases (step_last_iff cfg s _ perm).1 hlast with h | h
      · have hall : (List.range cfg.numAgents).all
            (fun i => decide (agentDone (step cfg s (action.map Int.ofNat) perm).1 i)) = true := by
          rw [List.all_eq_true]
          intro i hi
          have hi' : i < cfg.numAgents := List.mem_range.1 hi
          have hlen := (step_lengths cfg s (action.map Int.ofNat) perm).2.2.2.2.2
          have hm := getD_mem (step cfg s (action.map Int.ofNat) perm).1.finished false
            (by rw [hlen]; exact hi' : i < (step cfg s (action.map Int.ofNat) perm).1.finished.length)
          have := List.all_eq_true.1 h _ hm
          simp only [id] at this
          rw [step_flagsFresh cfg s _ perm hK i hi'] at this
          exact this
        simp [hall]
      · simp [h]
    · simp [hlast]

end MMST
