/-
MMST generator (`SplitRandomGenerator.__call__`, transliterated in GenModel.lean): the generated state has the
configured shapes and satisfies the generator certificates, for ALL configurations and ALL valid draws.
-/
import JumanjiModel.Env.MMST.GenModel
import JumanjiModel.Env.MMST.FeasibleLemmas
namespace MMST
open Jm

/-! ### helpers -/

theorem Gen.setWD_inrange {α} (xs : List α) (i : Int) (v : α) (h0 : 0 ≤ i) (h1 : i < xs.length) :
    Jx.setWD xs i v = xs.set i.toNat v := by
  have h := Jx.setWD_nat xs v (a := i.toNat) (by omega)
  rwa [Int.toNat_of_nonneg h0] at h

theorem Gen.getD_replicate {α} (n : Nat) (x d : α) {i : Nat} (h : i < n) : (List.replicate n x).getD i d = x := by
  simp [List.getD_eq_getElem?_getD, h]

/-- the facts about the list of agent `k` in a valid draw -/
theorem Gen.comps_facts {cfg : Cfg} {d : GenDraw} (hv : validGenDraw cfg d)
    (hlt : ∀ k, k < cfg.numAgents → ∀ v ∈ blockOf cfg.numNodes cfg.numAgents k, v < cfg.numNodes)
    {k : Nat} (hk : k < cfg.numAgents) :
    ∀ v ∈ d.comps.getD k [], 0 ≤ v ∧ v < (cfg.numNodes : Int) ∧ v.toNat ∈ blockOf cfg.numNodes cfg.numAgents k := by
  intro v hvm
  obtain ⟨h0, hb⟩ := (hv.2 k hk).2.2 v hvm
  have := hlt k hk _ hb
  exact ⟨h0, by omega, hb⟩

theorem Gen.firstNode_mem {cfg : Cfg} {d : GenDraw} (hv : validGenDraw cfg d) (hK : 1 ≤ cfg.numNodesPerAgent)
    {k : Nat} (hk : k < cfg.numAgents) : firstNode d k ∈ d.comps.getD k [] := by
  unfold firstNode
  exact getD_mem _ _ (by rw [(hv.2 k hk).1]; omega)

theorem Gen.firstNode_range {cfg : Cfg} {d : GenDraw} (hv : validGenDraw cfg d) (hK : 1 ≤ cfg.numNodesPerAgent)
    (hlt : ∀ k, k < cfg.numAgents → ∀ v ∈ blockOf cfg.numNodes cfg.numAgents k, v < cfg.numNodes)
    {k : Nat} (hk : k < cfg.numAgents) : 0 ≤ firstNode d k ∧ firstNode d k < (cfg.numNodes : Int) := by
  have := Gen.comps_facts hv hlt hk _ (Gen.firstNode_mem hv hK hk)
  exact ⟨this.1, this.2.1⟩

/-- the lists of two different agents are disjoint -/
theorem Gen.comps_disjoint {cfg : Cfg} {d : GenDraw} (hv : validGenDraw cfg d)
    (hdisj : ∀ j k, j ≠ k → ∀ v, v ∈ blockOf cfg.numNodes cfg.numAgents j → v ∉ blockOf cfg.numNodes cfg.numAgents k)
    {j k : Nat} (hj : j < cfg.numAgents) (hk : k < cfg.numAgents) (hjk : j ≠ k) :
    ∀ v, v ∈ d.comps.getD j [] → v ∉ d.comps.getD k [] := by
  intro v h1 h2
  exact hdisj j k hjk _ ((hv.2 j hj).2.2 v h1).2 ((hv.2 k hk).2.2 v h2).2

/-! ### `genNodeTypes` -/

/-- the inner loop `nt.at[v].set(x)` over in-range `v ∈ l` -/
theorem Gen.inner_spec (x : Int) : ∀ (l : List Int) (nt : List Int),
    (∀ v ∈ l, 0 ≤ v ∧ v < (nt.length : Int)) →
    (l.foldl (fun nt v => Jx.setWD nt v x) nt).length = nt.length ∧
    ∀ u : Nat, (l.foldl (fun nt v => Jx.setWD nt v x) nt).getD u 0 = if (u : Int) ∈ l then x else nt.getD u 0 := by
  intro l
  induction l with
  | nil => intro nt _; simp
  | cons v l ih =>
    intro nt h
    simp only [List.foldl_cons]
    have hv := h v (by simp)
    have hlen : (Jx.setWD nt v x).length = nt.length := Jx.setWD_length _ _ _
    obtain ⟨i1, i2⟩ := ih (Jx.setWD nt v x) (by
      intro w hw; rw [hlen]; exact h w (by simp [hw]))
    refine ⟨by rw [i1, hlen], ?_⟩
    intro u
    rw [i2 u, Gen.setWD_inrange nt v x hv.1 hv.2, getD_set]
    by_cases hul : (u : Int) ∈ l
    · rw [if_pos hul, if_pos (List.mem_cons_of_mem _ hul)]
    · rw [if_neg hul]
      by_cases huv : (u : Int) = v
      · have : v.toNat = u ∧ v.toNat < nt.length := by omega
        rw [if_pos this, if_pos (by rw [huv]; exact List.mem_cons_self)]
      · have : ¬ (v.toNat = u ∧ v.toNat < nt.length) := by omega
        rw [if_neg this, if_neg (by
          intro hm; rcases List.mem_cons.1 hm with hm | hm
          · exact huv hm
          · exact hul hm)]

/-- the outer loop over the agents `ks` -/
theorem Gen.outer_spec (comps : List (List Int)) : ∀ (ks : List Nat) (nt : List Int),
    (∀ k ∈ ks, ∀ v ∈ comps.getD k [], 0 ≤ v ∧ v < (nt.length : Int)) →
    (∀ j ∈ ks, ∀ k ∈ ks, j ≠ k → ∀ v, v ∈ comps.getD j [] → v ∉ comps.getD k []) →
    (ks.foldl (fun nt k => (comps.getD k []).foldl (fun nt v => Jx.setWD nt v (k : Int)) nt) nt).length = nt.length ∧
    ∀ u : Nat,
      (∀ k ∈ ks, (u : Int) ∈ comps.getD k [] →
        (ks.foldl (fun nt k => (comps.getD k []).foldl (fun nt v => Jx.setWD nt v (k : Int)) nt) nt).getD u 0 = (k : Int)) ∧
      ((∀ k ∈ ks, (u : Int) ∉ comps.getD k []) →
        (ks.foldl (fun nt k => (comps.getD k []).foldl (fun nt v => Jx.setWD nt v (k : Int)) nt) nt).getD u 0 = nt.getD u 0) := by
  intro ks
  induction ks with
  | nil => intro nt _ _; simp
  | cons k ks ih =>
    intro nt hr hd
    simp only [List.foldl_cons]
    obtain ⟨n1, n2⟩ := Gen.inner_spec (k : Int) (comps.getD k []) nt (hr k (by simp))
    obtain ⟨i1, i2⟩ := ih _ (by
      intro k' hk' v hv; rw [n1]; exact hr k' (by simp [hk']) v hv)
      (by intro j hj k' hk'; exact hd j (by simp [hj]) k' (by simp [hk']))
    refine ⟨by rw [i1, n1], ?_⟩
    intro u
    obtain ⟨a1, a2⟩ := i2 u
    constructor
    · intro k' hk' hu
      rcases List.mem_cons.1 hk' with rfl | hk'
      · by_cases hex : ∃ k'' ∈ ks, (u : Int) ∈ comps.getD k'' []
        · obtain ⟨k'', hk'', hu''⟩ := hex
          by_cases he : k' = k''
          · subst he; exact a1 _ hk'' hu''
          · exact absurd hu'' (hd k' (by simp) k'' (by simp [hk'']) he _ hu)
        · rw [a2 (by intro k'' hk'' hu''; exact hex ⟨k'', hk'', hu''⟩), n2 u, if_pos hu]
      · exact a1 _ hk' hu
    · intro hno
      rw [a2 (by intro k'' hk''; exact hno k'' (by simp [hk''])), n2 u, if_neg (hno k (by simp))]

theorem Gen.genNodeTypes_spec {cfg : Cfg} {d : GenDraw} (hv : validGenDraw cfg d)
    (hdisj : ∀ j k, j ≠ k → ∀ v, v ∈ blockOf cfg.numNodes cfg.numAgents j → v ∉ blockOf cfg.numNodes cfg.numAgents k)
    (hlt : ∀ k, k < cfg.numAgents → ∀ v ∈ blockOf cfg.numNodes cfg.numAgents k, v < cfg.numNodes) :
    (genNodeTypes cfg d.comps).length = cfg.numNodes ∧
    ∀ u, u < cfg.numNodes →
      (∀ k, k < cfg.numAgents → (u : Int) ∈ d.comps.getD k [] → (genNodeTypes cfg d.comps).getD u 0 = (k : Int)) ∧
      ((∀ k, k < cfg.numAgents → (u : Int) ∉ d.comps.getD k []) → (genNodeTypes cfg d.comps).getD u 0 = -1) := by
  unfold genNodeTypes
  obtain ⟨h1, h2⟩ := Gen.outer_spec d.comps (List.range cfg.numAgents) (List.replicate cfg.numNodes (-1))
    (by
      intro k hk v hvm
      have := Gen.comps_facts hv hlt (List.mem_range.1 hk) v hvm
      rw [List.length_replicate]; exact ⟨this.1, this.2.1⟩)
    (by
      intro j hj k hk hjk
      exact Gen.comps_disjoint hv hdisj (List.mem_range.1 hj) (List.mem_range.1 hk) hjk)
  refine ⟨by rw [h1, List.length_replicate], ?_⟩
  intro u hu
  obtain ⟨a1, a2⟩ := h2 u
  constructor
  · intro k hk hm; exact a1 k (List.mem_range.2 hk) hm
  · intro hno
    rw [a2 (by intro k hk; exact hno k (List.mem_range.1 hk)), Gen.getD_replicate _ _ _ hu]

/-- length only: needs no disjointness and no range (out-of-range writes are dropped) -/
theorem Gen.genNodeTypes_length (cfg : Cfg) (comps : List (List Int)) :
    (genNodeTypes cfg comps).length = cfg.numNodes := by
  unfold genNodeTypes
  have inner : ∀ (x : Int) (l : List Int) (nt : List Int),
      (l.foldl (fun nt v => Jx.setWD nt v x) nt).length = nt.length := by
    intro x l
    induction l with
    | nil => intro nt; rfl
    | cons v l ih => intro nt; simp only [List.foldl_cons]; rw [ih, Jx.setWD_length]
  have outer : ∀ (ks : List Nat) (nt : List Int),
      (ks.foldl (fun nt k => (comps.getD k []).foldl (fun nt v => Jx.setWD nt v (k : Int)) nt) nt).length
        = nt.length := by
    intro ks
    induction ks with
    | nil => intro nt; rfl
    | cons k ks ih => intro nt; simp only [List.foldl_cons]; rw [ih, inner]
  rw [outer, List.length_replicate]

/-! ### fields of the generated state -/

theorem Gen.ntc_getD (cfg : Cfg) (d : GenDraw) {k : Nat} (hk : k < cfg.numAgents) :
    (generate cfg d).nodesToConnect.getD k [] = d.comps.getD k [] := by
  show ((List.range cfg.numAgents).map fun k => d.comps.getD k []).getD k [] = _
  rw [getD_map_range _ _ _ hk]

theorem Gen.pos_getD (cfg : Cfg) (d : GenDraw) (dflt : Int) {k : Nat} (hk : k < cfg.numAgents) :
    (generate cfg d).positions.getD k dflt = firstNode d k := by
  show ((List.range cfg.numAgents).map (firstNode d)).getD k dflt = _
  rw [getD_map_range _ _ _ hk]

theorem Gen.cn_getD (cfg : Cfg) (d : GenDraw) {k : Nat} (hk : k < cfg.numAgents) :
    (generate cfg d).connectedNodes.getD k [] = Jx.setWD (List.replicate cfg.timeLimit (-1)) 0 (firstNode d k) := by
  show ((List.range cfg.numAgents).map fun k =>
    Jx.setWD (List.replicate cfg.timeLimit (-1)) 0 (firstNode d k)).getD k [] = _
  rw [getD_map_range _ _ _ hk]

theorem Gen.ci_getD (cfg : Cfg) (d : GenDraw) {k : Nat} (hk : k < cfg.numAgents) :
    (generate cfg d).connectedIndex.getD k [] =
      Jx.setWD (List.replicate cfg.numNodes (-1)) (firstNode d k) (firstNode d k) := by
  show ((List.range cfg.numAgents).map fun k =>
    Jx.setWD (List.replicate cfg.numNodes (-1)) (firstNode d k) (firstNode d k)).getD k [] = _
  rw [getD_map_range _ _ _ hk]

theorem Gen.edges_getD (cfg : Cfg) (d : GenDraw) {k : Nat} (hk : k < cfg.numAgents) :
    (generate cfg d).nodeEdges.getD k [] =
      activeEdgesFor cfg.numAgents (genNodeTypes cfg d.comps) ((List.range cfg.numAgents).map (firstNode d)) k
        d.nodeEdges := by
  show (updateActiveEdges cfg.numAgents (List.replicate cfg.numAgents d.nodeEdges)
    ((List.range cfg.numAgents).map (firstNode d)) (genNodeTypes cfg d.comps)).getD k [] = _
  unfold updateActiveEdges
  rw [getD_map_range _ _ _ hk, Gen.getD_replicate _ _ _ hk]

/-! ### 1. shapes -/

theorem generate_shaped {cfg : Cfg} {d : GenDraw} (hv : validGenDraw cfg d) (hg : graphOK cfg d)
    (hK : 1 ≤ cfg.numNodesPerAgent)
    (hlt : ∀ k, k < cfg.numAgents → ∀ v ∈ blockOf cfg.numNodes cfg.numAgents k, v < cfg.numNodes) :
    Shaped cfg (generate cfg d) := by
  obtain ⟨ga, gar, ge, ger, _⟩ := hg
  refine ⟨Gen.genNodeTypes_length cfg d.comps, ga, gar, ?_, ?_, ?_, ?_, ?_, ?_, ?_, ?_, ?_, ?_⟩
  · simp [generate]
  · simp [generate]
  · intro r hr
    obtain ⟨k, _, rfl⟩ := mem_map_range_getD (show r ∈ (List.range cfg.numAgents).map _ from hr)
    rw [Jx.setWD_length, List.length_replicate]
  · simp [generate]
  · simp [generate, updateActiveEdges]
  · intro e he
    obtain ⟨k, hk, rfl⟩ := mem_map_range_getD (show e ∈ (List.range cfg.numAgents).map _ from he)
    rw [Gen.getD_replicate _ _ _ hk]
    exact activeEdges_shape _ _ k _ _ ⟨ge, ger⟩
  · simp [generate]
  · intro p hp
    obtain ⟨k, hk, rfl⟩ := mem_map_range_getD (show p ∈ (List.range cfg.numAgents).map _ from hp)
    exact Gen.firstNode_range hv hK hlt hk
  · simp [generate]
  · simp [generate]

/-! ### 3. every agent's nodes are in its own block -/

theorem generate_certOwnBlock {cfg : Cfg} {d : GenDraw} (hv : validGenDraw cfg d) :
    certOwnBlock cfg (generate cfg d) = true := by
  simp only [certOwnBlock, List.all_eq_true, List.mem_range, Bool.and_eq_true, decide_eq_true_eq]
  intro k hk v hvm
  rw [Gen.ntc_getD cfg d hk] at hvm
  obtain ⟨h0, hb⟩ := (hv.2 k hk).2.2 v hvm
  exact ⟨h0, by simpa using hb⟩

/-! ### 2. K distinct in-range nodes per agent, pairwise disjoint -/

theorem generate_certAgentsDisjoint {cfg : Cfg} {d : GenDraw} (hv : validGenDraw cfg d)
    (hdisj : ∀ j k, j ≠ k → ∀ v, v ∈ blockOf cfg.numNodes cfg.numAgents j → v ∉ blockOf cfg.numNodes cfg.numAgents k)
    (hlt : ∀ k, k < cfg.numAgents → ∀ v ∈ blockOf cfg.numNodes cfg.numAgents k, v < cfg.numNodes) :
    certAgentsDisjoint cfg (generate cfg d) = true := by
  simp only [certAgentsDisjoint, List.all_eq_true, List.mem_range, Bool.and_eq_true, Bool.or_eq_true, beq_iff_eq,
    decide_eq_true_eq, Bool.not_eq_true', List.contains_eq_mem, decide_eq_false_iff_not]
  intro k hk
  rw [Gen.ntc_getD cfg d hk]
  refine ⟨⟨⟨(hv.2 k hk).1, (hv.2 k hk).2.1⟩, ?_⟩, ?_⟩
  · intro v hvm
    have := Gen.comps_facts hv hlt hk v hvm
    exact ⟨this.1, this.2.1⟩
  · intro j hj
    by_cases hjk : j = k
    · left; exact hjk
    · right
      intro v hvm
      rw [Gen.ntc_getD cfg d hj]
      exact Gen.comps_disjoint hv hdisj hk hj (Ne.symm hjk) v hvm

/-! ### 7. route rows have length `timeLimit` -/

theorem generate_routeLen {cfg : Cfg} {d : GenDraw} :
    ∀ k, k < cfg.numAgents → ((generate cfg d).connectedNodes.getD k []).length = cfg.timeLimit := by
  intro k hk
  rw [Gen.cn_getD cfg d hk, Jx.setWD_length, List.length_replicate]

/-! ### 8. replay -/

theorem Gen.map_getD_range {α} (l : List α) (dflt : α) : (List.range l.length).map (fun k => l.getD k dflt) = l := by
  apply List.ext_getElem
  · simp
  · intro i h1 h2
    simp [List.getD_eq_getElem?_getD, h2]

theorem generate_drawOf_comps {cfg : Cfg} {d : GenDraw} (hl : d.comps.length = cfg.numAgents) :
    (drawOf (generate cfg d)).comps = d.comps := by
  show (List.range cfg.numAgents).map (fun k => d.comps.getD k []) = d.comps
  rw [← hl]; exact Gen.map_getD_range _ _

/-! ### 5. the start of an episode -/

theorem Gen.route_row (T : Nat) (hT : 1 ≤ T) (p : Int) :
    Jx.setWD (List.replicate T (-1)) 0 p = p :: List.replicate (T - 1) (-1) := by
  obtain ⟨n, rfl⟩ : ∃ n, T = n + 1 := ⟨T - 1, by omega⟩
  rw [Gen.setWD_inrange _ 0 p (by omega) (by simp)]
  simp [List.replicate_succ]

theorem Gen.index_row (N : Nat) (p : Int) (h0 : 0 ≤ p) (h1 : p < (N : Int)) :
    Jx.setWD (List.replicate N (-1)) p p =
      (List.range N).map (fun (v : Nat) => if (v : Int) = p then p else (-1 : Int)) := by
  rw [Gen.setWD_inrange _ p p h0 (by simpa using h1)]
  apply List.ext_getElem
  · simp
  · intro i h2 h3
    simp only [List.getElem_set, List.getElem_replicate, List.getElem_map, List.getElem_range]
    split <;> split <;> omega

theorem generate_certStart {cfg : Cfg} {d : GenDraw} (hv : validGenDraw cfg d)
    (hK : 1 ≤ cfg.numNodesPerAgent) (hT : 1 ≤ cfg.timeLimit)
    (hlt : ∀ k, k < cfg.numAgents → ∀ v ∈ blockOf cfg.numNodes cfg.numAgents k, v < cfg.numNodes) :
    certStart cfg (generate cfg d) = true := by
  simp only [certStart, List.all_eq_true, List.mem_range, Bool.and_eq_true, beq_iff_eq, decide_eq_true_eq]
  refine ⟨⟨?_, rfl⟩, rfl⟩
  intro k hk
  have hr := Gen.firstNode_range hv hK hlt hk
  rw [Gen.pos_getD cfg d _ hk, Gen.ntc_getD cfg d hk, Gen.cn_getD cfg d hk, Gen.ci_getD cfg d hk,
    Gen.route_row _ hT]
  refine ⟨⟨⟨⟨⟨?_, ?_⟩, ?_⟩, ?_⟩, ?_⟩, ?_⟩
  · unfold firstNode
    exact getD_default _ _ _ (by rw [(hv.2 k hk).1]; omega)
  · simp
  · simp
  · exact Gen.index_row _ _ hr.1 hr.2
  · exact Gen.getD_replicate _ _ _ hk
  · exact Gen.getD_replicate _ _ _ hk

/-! ### 4. node types = ownership -/

theorem generate_certTypes {cfg : Cfg} {d : GenDraw} (hv : validGenDraw cfg d)
    (hdisj : ∀ j k, j ≠ k → ∀ v, v ∈ blockOf cfg.numNodes cfg.numAgents j → v ∉ blockOf cfg.numNodes cfg.numAgents k)
    (hlt : ∀ k, k < cfg.numAgents → ∀ v ∈ blockOf cfg.numNodes cfg.numAgents k, v < cfg.numNodes) :
    certTypes cfg (generate cfg d) = true := by
  simp only [certTypes, List.all_eq_true, List.mem_range, Bool.and_eq_true, Bool.or_eq_true, beq_iff_eq,
    decide_eq_true_eq]
  intro v hv'
  obtain ⟨_, hs⟩ := Gen.genNodeTypes_spec hv hdisj hlt
  obtain ⟨s1, s2⟩ := hs v hv'
  have hnt : (generate cfg d).nodeTypes = genNodeTypes cfg d.comps := rfl
  rw [hnt]
  by_cases hex : ∃ k0, k0 < cfg.numAgents ∧ (v : Int) ∈ d.comps.getD k0 []
  · obtain ⟨k0, hk0, hm0⟩ := hex
    rw [s1 k0 hk0 hm0]
    refine ⟨?_, Or.inl ⟨by omega, by omega⟩⟩
    intro k hk
    rw [Gen.ntc_getD cfg d hk]
    by_cases hkk : k0 = k
    · subst hkk; rw [beq_self_eq_true, List.contains_eq_mem, decide_eq_true hm0]
    · have h1 : (v : Int) ∉ d.comps.getD k [] := Gen.comps_disjoint hv hdisj hk0 hk hkk _ hm0
      have h2 : ¬ ((k0 : Int) = (k : Int)) := by omega
      rw [beq_false_of_ne h2, List.contains_eq_mem, decide_eq_false h1]
  · have hno : ∀ k, k < cfg.numAgents → (v : Int) ∉ d.comps.getD k [] := fun k hk hm => hex ⟨k, hk, hm⟩
    rw [s2 hno]
    refine ⟨?_, Or.inr rfl⟩
    intro k hk
    rw [Gen.ntc_getD cfg d hk]
    have h2 : ¬ ((-1 : Int) = (k : Int)) := by omega
    rw [beq_false_of_ne h2, List.contains_eq_mem, decide_eq_false (hno k hk)]

/-! ### 6. the edge tables at reset are the adjacency matrix -/

theorem Gen.foldl_id {α β} (f : α → β → α) : ∀ (l : List β) (a : α), (∀ b ∈ l, ∀ a, f a b = a) → l.foldl f a = a := by
  intro l
  induction l with
  | nil => intro a _; rfl
  | cons b l ih =>
    intro a h
    simp only [List.foldl_cons]
    rw [h b (by simp) a]
    exact ih a (fun b' hb' => h b' (by simp [hb']))

/-- every agent stands on a node of its own type -/
theorem Gen.type_of_firstNode {cfg : Cfg} {d : GenDraw} (hv : validGenDraw cfg d)
    (hK : 1 ≤ cfg.numNodesPerAgent)
    (hdisj : ∀ j k, j ≠ k → ∀ v, v ∈ blockOf cfg.numNodes cfg.numAgents j → v ∉ blockOf cfg.numNodes cfg.numAgents k)
    (hlt : ∀ k, k < cfg.numAgents → ∀ v ∈ blockOf cfg.numNodes cfg.numAgents k, v < cfg.numNodes)
    {k : Nat} (hk : k < cfg.numAgents) :
    Jx.getWC (genNodeTypes cfg d.comps) 0 (firstNode d k) = (k : Int) := by
  obtain ⟨hl, hs⟩ := Gen.genNodeTypes_spec hv hdisj hlt
  have hr := Gen.firstNode_range hv hK hlt hk
  rw [getWC_nat _ _ _ hr.1 (by rw [hl]; exact hr.2)]
  refine (hs (firstNode d k).toNat (by omega)).1 k hk ?_
  rw [Int.toNat_of_nonneg hr.1]
  exact Gen.firstNode_mem hv hK hk

/-- `update_active_edges` masks nothing at reset -/
theorem Gen.activeEdges_reset {cfg : Cfg} {d : GenDraw} (hv : validGenDraw cfg d)
    (hK : 1 ≤ cfg.numNodesPerAgent)
    (hdisj : ∀ j k, j ≠ k → ∀ v, v ∈ blockOf cfg.numNodes cfg.numAgents j → v ∉ blockOf cfg.numNodes cfg.numAgents k)
    (hlt : ∀ k, k < cfg.numAgents → ∀ v ∈ blockOf cfg.numNodes cfg.numAgents k, v < cfg.numNodes)
    {k : Nat} (hk : k < cfg.numAgents) : (generate cfg d).nodeEdges.getD k [] = d.nodeEdges := by
  rw [Gen.edges_getD cfg d hk]
  unfold activeEdgesFor
  apply Gen.foldl_id
  intro agent ha e
  have ha' := List.mem_range.1 ha
  simp only []
  rw [getD_map_range _ _ _ ha', Gen.type_of_firstNode hv hK hdisj hlt ha']
  have : ((agent : Int) == -1) = false := by
    apply beq_false_of_ne; omega
  rw [this, Bool.and_false]
  rfl

theorem generate_certEdgesAdj {cfg : Cfg} {d : GenDraw} (hv : validGenDraw cfg d) (hg : graphOK cfg d)
    (hK : 1 ≤ cfg.numNodesPerAgent)
    (hdisj : ∀ j k, j ≠ k → ∀ v, v ∈ blockOf cfg.numNodes cfg.numAgents j → v ∉ blockOf cfg.numNodes cfg.numAgents k)
    (hlt : ∀ k, k < cfg.numAgents → ∀ v ∈ blockOf cfg.numNodes cfg.numAgents k, v < cfg.numNodes) :
    certEdgesAdj cfg (generate cfg d) = true := by
  simp only [certEdgesAdj, List.all_eq_true, List.mem_range, beq_iff_eq]
  intro i hi r hr c hc
  rw [Gen.activeEdges_reset hv hK hdisj hlt hi]
  exact hg.2.2.2.2 r hr c hc

/-- the draw read off the generated state is the draw (all three fields), given the number of lists and `1 ≤ A`
for the edge table -/
theorem generate_drawOf {cfg : Cfg} {d : GenDraw} (hv : validGenDraw cfg d)
    (hK : 1 ≤ cfg.numNodesPerAgent) (hA : 1 ≤ cfg.numAgents)
    (hdisj : ∀ j k, j ≠ k → ∀ v, v ∈ blockOf cfg.numNodes cfg.numAgents j → v ∉ blockOf cfg.numNodes cfg.numAgents k)
    (hlt : ∀ k, k < cfg.numAgents → ∀ v ∈ blockOf cfg.numNodes cfg.numAgents k, v < cfg.numNodes) :
    drawOf (generate cfg d) = d := by
  have h1 := generate_drawOf_comps (cfg := cfg) hv.1
  have h2 : (drawOf (generate cfg d)).nodeEdges = d.nodeEdges :=
    Gen.activeEdges_reset hv hK hdisj hlt (k := 0) (by omega)
  have h3 : (drawOf (generate cfg d)).adj = d.adj := rfl
  cases d
  cases h : drawOf (generate cfg _)
  simp_all

/-- composition with `reset_feasible`: every generated state is feasible -/
theorem generate_feasible {cfg : Cfg} {d : GenDraw} (hv : validGenDraw cfg d) (hg : graphOK cfg d)
    (hK : 1 ≤ cfg.numNodesPerAgent) (hT : 1 ≤ cfg.timeLimit)
    (hdisj : ∀ j k, j ≠ k → ∀ v, v ∈ blockOf cfg.numNodes cfg.numAgents j → v ∉ blockOf cfg.numNodes cfg.numAgents k)
    (hlt : ∀ k, k < cfg.numAgents → ∀ v ∈ blockOf cfg.numNodes cfg.numAgents k, v < cfg.numNodes) :
    Feasible cfg (generate cfg d) :=
  reset_feasible (generate_shaped hv hg hK hlt) (generate_certStart hv hK hT hlt)
    (generate_certTypes hv hdisj hlt) (generate_certEdgesAdj hv hg hK hdisj hlt)

/-! ### 9. non-vacuity -/

def Gen.exCfg : Cfg :=
  { numAgents := 2, numNodes := 5, numNodesPerAgent := 2, timeLimit := 6, rConn := 10, rStep := -1, rNoop := -1 }
def Gen.exDraw : GenDraw :=
  { adj := [[0,1,0,0,0],[1,0,1,0,0],[0,1,0,1,0],[0,0,1,0,1],[0,0,0,1,0]],
    nodeEdges := [[-1,1,-1,-1,-1],[0,-1,2,-1,-1],[-1,1,-1,3,-1],[-1,-1,2,-1,4],[-1,-1,-1,3,-1]],
    comps := [[0,1],[3,4]] }

example : validGenDraw Gen.exCfg Gen.exDraw ∧ graphOK Gen.exCfg Gen.exDraw := by decide +kernel
example : (generate Gen.exCfg Gen.exDraw).nodeTypes = [0,0,-1,1,1] ∧
    (generate Gen.exCfg Gen.exDraw).positions = [0,3] := by decide +kernel

end MMST
