/-
MMST: the generator certificates imply that the instance is solvable.

`certOwnBlock` + `certBlocksConnected` ⇒ the blocks `blockOf N A k` (`np.array_split(arange N, A)[k]`) are
pairwise node-disjoint, each induces a connected subgraph, and block `k` contains the nodes to connect of
agent `k`: one connected subgraph per agent, node-disjoint (`cert_solvable`, `cert_solvable_pairs`).
`certGraphConnected` ⇒ the whole graph on `0..N-1` is connected (`graphConnected_reach`).
-/
import JumanjiModel.Env.MMST.Lemmas
namespace MMST

/-! ## general facts about `ReachIn` -/

theorem Linked.symm {s : State} {u v : Nat} (h : Linked s u v) : Linked s v u := Or.symm h

theorem ReachIn.left {s : State} {P : Nat → Prop} {u v : Nat} (h : ReachIn s P u v) : P u := by
  induction h with
  | refl hu => exact hu
  | tail _ _ _ ih => exact ih

theorem ReachIn.right {s : State} {P : Nat → Prop} {u v : Nat} (h : ReachIn s P u v) : P v := by
  cases h with
  | refl hu => exact hu
  | tail _ _ hw => exact hw

theorem ReachIn.trans {s : State} {P : Nat → Prop} {u v w : Nat}
    (h1 : ReachIn s P u v) (h2 : ReachIn s P v w) : ReachIn s P u w := by
  induction h2 with
  | refl _ => exact h1
  | tail _ hl hw ih => exact ReachIn.tail ih hl hw

/-- one step at the front -/
theorem ReachIn.head {s : State} {P : Nat → Prop} {u v w : Nat}
    (hu : P u) (hl : Linked s u v) (h : ReachIn s P v w) : ReachIn s P u w :=
  ReachIn.trans (ReachIn.tail (ReachIn.refl u hu) hl h.left) h

theorem ReachIn.symm {s : State} {P : Nat → Prop} {u v : Nat} (h : ReachIn s P u v) : ReachIn s P v u := by
  induction h with
  | refl hu => exact ReachIn.refl _ hu
  | tail h' hl hw ih => exact ReachIn.head hw hl.symm ih

theorem ReachIn.mono {s : State} {P Q : Nat → Prop} (hPQ : ∀ x, P x → Q x) {u v : Nat}
    (h : ReachIn s P u v) : ReachIn s Q u v := by
  induction h with
  | refl hu => exact ReachIn.refl _ (hPQ _ hu)
  | tail _ hl hw ih => exact ReachIn.tail ih hl (hPQ _ hw)

/-! ## soundness of `grow` / `connectedOn` -/

theorem grow_sound (s : State) (nodes : List Nat) (v0 : Nat) (fuel : Nat) (reached : List Nat)
    (h : ∀ x ∈ reached, x ∈ nodes ∧ ReachIn s (· ∈ nodes) v0 x) :
    ∀ x ∈ grow s nodes fuel reached, x ∈ nodes ∧ ReachIn s (· ∈ nodes) v0 x := by
  induction fuel generalizing reached with
  | zero => simpa [grow] using h
  | succ fuel ih =>
    unfold grow
    simp only
    split
    · exact h
    · apply ih
      intro x hx
      rcases List.mem_append.mp hx with hx | hx
      · exact h x hx
      · rw [List.mem_filter] at hx
        obtain ⟨hxn, hx2⟩ := hx
        simp only [Bool.and_eq_true, List.any_eq_true, decide_eq_true_eq] at hx2
        obtain ⟨_, u, hu, hedge⟩ := hx2
        exact ⟨hxn, ReachIn.tail (h u hu).2 (Or.inl hedge) hxn⟩

theorem connectedOn_reach {s : State} {nodes : List Nat} (h : connectedOn s nodes = true) :
    ∀ u ∈ nodes, ∀ v ∈ nodes, ReachIn s (· ∈ nodes) u v := by
  cases nodes with
  | nil => intro u hu; cases hu
  | cons v0 t =>
    have hbase : ∀ x ∈ [v0], x ∈ (v0 :: t) ∧ ReachIn s (· ∈ (v0 :: t)) v0 x := by
      intro x hx
      have : x = v0 := by simpa using hx
      subst this
      exact ⟨List.mem_cons_self, ReachIn.refl _ List.mem_cons_self⟩
    have hg := grow_sound s (v0 :: t) v0 (v0 :: t).length [v0] hbase
    simp only [connectedOn, List.all_eq_true] at h
    have hfrom : ∀ x ∈ (v0 :: t), ReachIn s (· ∈ (v0 :: t)) v0 x := by
      intro x hx
      have hc := h x hx
      have hm : x ∈ grow s (v0 :: t) (v0 :: t).length [v0] := by simpa using hc
      exact (hg x hm).2
    intro u hu v hv
    exact (hfrom u hu).symm.trans (hfrom v hv)

/-! ## the blocks of `np.array_split` -/

/-- start of block `k` -/
def blockStart (N A k : Nat) : Nat := k * (N / A) + min k (N % A)
/-- length of block `k` -/
def blockLen (N A k : Nat) : Nat := N / A + (if k < N % A then 1 else 0)

theorem mem_blockOf {N A k v : Nat} :
    v ∈ blockOf N A k ↔ blockStart N A k ≤ v ∧ v < blockStart N A k + blockLen N A k := by
  simp only [blockOf, blockStart, blockLen, List.mem_map, List.mem_range]
  constructor
  · rintro ⟨i, hi, rfl⟩; omega
  · rintro ⟨h1, h2⟩
    exact ⟨v - (k * (N / A) + min k (N % A)), by omega, by omega⟩

theorem blockStart_succ (N A k : Nat) : blockStart N A (k + 1) = blockStart N A k + blockLen N A k := by
  simp only [blockStart, blockLen, Nat.succ_mul]
  split <;> omega

theorem blockEnd_le_start (N A : Nat) {j k : Nat} (hjk : j < k) :
    blockStart N A j + blockLen N A j ≤ blockStart N A k := by
  induction k with
  | zero => omega
  | succ k ih =>
    rw [blockStart_succ N A k]
    by_cases hj : j = k
    · subst hj; exact Nat.le_refl _
    · have := ih (by omega)
      omega

theorem blockOf_disjoint (N A j k : Nat) (hjk : j ≠ k) : ∀ v, v ∈ blockOf N A j → v ∉ blockOf N A k := by
  intro v hj hk
  rw [mem_blockOf] at hj hk
  rcases Nat.lt_or_gt_of_ne hjk with h | h
  · have := blockEnd_le_start N A h; omega
  · have := blockEnd_le_start N A h; omega

theorem blockStart_le_total (N A k : Nat) (hk : k ≤ A) : blockStart N A k ≤ N := by
  have hA : A * (N / A) + N % A = N := Nat.div_add_mod N A
  have hmul : k * (N / A) ≤ A * (N / A) := Nat.mul_le_mul_right _ hk
  simp only [blockStart]
  omega

theorem blockOf_lt (N A k : Nat) (hk : k < A) : ∀ v ∈ blockOf N A k, v < N := by
  intro v hv
  rw [mem_blockOf, ← blockStart_succ] at hv
  have := blockStart_le_total N A (k + 1) hk
  omega

/-! ## the certificates imply solvability -/

theorem cert_solvable {cfg : Cfg} {s : State} (h1 : certOwnBlock cfg s = true) (h2 : certBlocksConnected cfg s = true) :
    (∀ k, k < cfg.numAgents →
        (∀ v : Nat, (v : Int) ∈ s.nodesToConnect.getD k [] → v ∈ blockOf cfg.numNodes cfg.numAgents k) ∧
        (∀ u ∈ blockOf cfg.numNodes cfg.numAgents k, ∀ v ∈ blockOf cfg.numNodes cfg.numAgents k,
            ReachIn s (· ∈ blockOf cfg.numNodes cfg.numAgents k) u v)) ∧
    (∀ j k, j ≠ k → ∀ v, v ∈ blockOf cfg.numNodes cfg.numAgents j → v ∉ blockOf cfg.numNodes cfg.numAgents k) := by
  refine ⟨fun k hk => ⟨?_, ?_⟩, fun j k hjk => blockOf_disjoint _ _ j k hjk⟩
  · intro v hv
    simp only [certOwnBlock, List.all_eq_true, List.mem_range] at h1
    have := h1 k hk (v : Int) hv
    simpa using this
  · simp only [certBlocksConnected, List.all_eq_true, List.mem_range] at h2
    exact connectedOn_reach (h2 k hk)

theorem cert_solvable_pairs {cfg : Cfg} {s : State} (h1 : certOwnBlock cfg s = true)
    (h2 : certBlocksConnected cfg s = true) :
    ∀ k, k < cfg.numAgents → ∀ u v : Nat,
      (u : Int) ∈ s.nodesToConnect.getD k [] → (v : Int) ∈ s.nodesToConnect.getD k [] →
      ReachIn s (· ∈ blockOf cfg.numNodes cfg.numAgents k) u v := by
  intro k hk u v hu hv
  obtain ⟨hmem, hreach⟩ := (cert_solvable h1 h2).1 k hk
  exact hreach u (hmem u hu) v (hmem v hv)

theorem graphConnected_reach {cfg : Cfg} {s : State} (h : certGraphConnected cfg s = true) :
    ∀ u, u < cfg.numNodes → ∀ v, v < cfg.numNodes → ReachIn s (· < cfg.numNodes) u v := by
  intro u hu v hv
  have := connectedOn_reach (s := s) (nodes := List.range cfg.numNodes) h u (List.mem_range.mpr hu) v
    (List.mem_range.mpr hv)
  exact this.mono (fun x hx => List.mem_range.mp hx)

/-! ## non-vacuity: a 5-node path with two agents -/

namespace Solvable

def exCfg : Cfg :=
  { numAgents := 2, numNodes := 5, numNodesPerAgent := 2, timeLimit := 6, rConn := 10, rStep := -1, rNoop := -1 }

def exEdges : List (List Int) :=
  [[-1, 1, -1, -1, -1], [0, -1, 2, -1, -1], [-1, 1, -1, 3, -1], [-1, -1, 2, -1, 4], [-1, -1, -1, 3, -1]]

def exState : State :=
  { nodeTypes := [0, 0, -1, 1, 1]
    adj := [[0, 1, 0, 0, 0], [1, 0, 1, 0, 0], [0, 1, 0, 1, 0], [0, 0, 1, 0, 1], [0, 0, 0, 1, 0]]
    connectedNodes := [[0, -1, -1, -1, -1, -1], [3, -1, -1, -1, -1, -1]]
    connectedIndex := [[0, -1, -1, -1, -1], [-1, -1, -1, 3, -1]]
    nodesToConnect := [[0, 1], [3, 4]]
    nodeEdges := [exEdges, exEdges]
    positions := [0, 3]
    positionIndex := [0, 0]
    actionMask := [[false, true, false, false, false], [false, false, true, false, true]]
    finished := [false, false]
    stepCount := 0 }

example : blockOf 5 2 0 = [0, 1, 2] ∧ blockOf 5 2 1 = [3, 4] := by decide

theorem ex_certs : certOwnBlock exCfg exState = true ∧ certBlocksConnected exCfg exState = true ∧
    certGraphConnected exCfg exState = true := by decide +kernel

/-- the hypotheses of `cert_solvable` are satisfiable: its conclusion holds of the example -/
example : ReachIn exState (· ∈ blockOf 5 2 1) 3 4 :=
  cert_solvable_pairs (cfg := exCfg) ex_certs.1 ex_certs.2.1 1 (by decide) 3 4 (by decide) (by decide)

end Solvable


end MMST
