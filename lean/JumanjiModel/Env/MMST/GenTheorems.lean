/-
MMST, gap C10 (b): what `SplitRandomGenerator.__call__` (transliteration `generate`, Env/MMST/GenModel.lean)
guarantees for EVERY valid draw of the agents' nodes and every graph handed over by `_generate_graph` that satisfies
`graphOK` — the facts about `np.array_split` blocks (`blockOf_disjoint`, `blockOf_lt`, Env/MMST/Solvable.lean)
discharged.
-/
import JumanjiModel.Env.MMST.GenLemmas
import JumanjiModel.Env.MMST.Solvable
import JumanjiModel.Env.MMST.ObsLemmas
namespace MMST
open Jm

/-- all state certificates of the generator that do not depend on the random walk -/
theorem generate_certs {cfg : Cfg} {d : GenDraw} (hv : validGenDraw cfg d) (hg : graphOK cfg d)
    (hK : 1 ≤ cfg.numNodesPerAgent) (hT : 1 ≤ cfg.timeLimit) :
    Shaped cfg (generate cfg d) ∧ certStart cfg (generate cfg d) = true ∧ certTypes cfg (generate cfg d) = true ∧
    certEdgesAdj cfg (generate cfg d) = true ∧ certAgentsDisjoint cfg (generate cfg d) = true ∧
    certOwnBlock cfg (generate cfg d) = true ∧
    (∀ k, k < cfg.numAgents → ((generate cfg d).connectedNodes.getD k []).length = cfg.timeLimit) := by
  have hdisj := blockOf_disjoint cfg.numNodes cfg.numAgents
  have hlt := blockOf_lt cfg.numNodes cfg.numAgents
  exact ⟨generate_shaped hv hg hK hlt, generate_certStart hv hK hT hlt, generate_certTypes hv hdisj hlt,
    generate_certEdgesAdj hv hg hK hdisj hlt, generate_certAgentsDisjoint hv hdisj hlt, generate_certOwnBlock hv,
    generate_routeLen⟩

/-- every generated state is `Feasible'` (hard constraint, bookkeeping, one-node walks) -/
theorem generate_feasible' {cfg : Cfg} {d : GenDraw} (hv : validGenDraw cfg d) (hg : graphOK cfg d)
    (hK : 1 ≤ cfg.numNodesPerAgent) (hT : 1 ≤ cfg.timeLimit) : Feasible' cfg (generate cfg d) := by
  obtain ⟨h0, h1, h2, h3, _, _, h6⟩ := generate_certs hv hg hK hT
  exact reset_feasible' h0 h1 h2 h3 hT h6

/-- with at least two nodes per agent the finished flags of every generated state are fresh -/
theorem generate_flagsFresh {cfg : Cfg} {d : GenDraw} (hv : validGenDraw cfg d) (hg : graphOK cfg d)
    (hK : 2 ≤ cfg.numNodesPerAgent) (hT : 1 ≤ cfg.timeLimit) : FlagsFresh cfg (generate cfg d) := by
  obtain ⟨h0, h1, _, _, h4, _, _⟩ := generate_certs hv hg (by omega) hT
  exact reset_flagsFresh h0 h1 h4 hK

/-- `reset` on a generated state: FIRST timestep carrying the documented observation -/
theorem generate_reset_obs {cfg : Cfg} {d : GenDraw} (hv : validGenDraw cfg d) (hg : graphOK cfg d)
    (hK : 2 ≤ cfg.numNodesPerAgent) (hT : 1 ≤ cfg.timeLimit) :
    (reset cfg (generate cfg d)).2.stepType = .first ∧
    (reset cfg (generate cfg d)).2.obs = observe cfg (generate cfg d) := by
  obtain ⟨h0, h1, h2, h3, h4, _, _⟩ := generate_certs hv hg (by omega) hT
  have := reset_obs h0 h1 h2 h3 h4 hK
  exact ⟨this.2.1, this.2.2.2.2⟩

/-- the draws can be read back off the generated state (what the driver's `generator_replay` does) -/
theorem generate_drawOf' {cfg : Cfg} {d : GenDraw} (hv : validGenDraw cfg d) (hK : 1 ≤ cfg.numNodesPerAgent)
    (hA : 1 ≤ cfg.numAgents) : drawOf (generate cfg d) = d :=
  generate_drawOf hv hK hA (blockOf_disjoint cfg.numNodes cfg.numAgents) (blockOf_lt cfg.numNodes cfg.numAgents)

end MMST

namespace MMST
open Jm

/-! ### what the graph certificates of the generator buy (gap C10 (a), besides `cert_solvable`) -/

/-- `certSymmetric`: the graph is undirected -/
theorem cert_symmetric {cfg : Cfg} {s : State} (h : certSymmetric cfg s = true) {u v : Nat} (hu : u < cfg.numNodes)
    (hv : v < cfg.numNodes) : hasEdge s u v ↔ hasEdge s v u := by
  simp only [certSymmetric, List.all_eq_true, List.mem_range, beq_iff_eq] at h
  unfold hasEdge
  rw [h u hu v hv]

/-- `certLoopless`: a legal move never keeps the agent on its node -/
theorem cert_loopless_legal {cfg : Cfg} {s : State} (hS : Shaped cfg s) (h : certLoopless cfg s = true) {i a : Nat}
    (hl : legal cfg s i a) : (a : Int) ≠ s.positions.getD i 0 := by
  simp only [certLoopless, List.all_eq_true, List.mem_range, beq_iff_eq] at h
  obtain ⟨hi, ha, _, he, _⟩ := hl
  intro heq
  rw [← heq, Int.toNat_natCast] at he
  have hrow : (s.adj.getD a []).length = cfg.numNodes := hS.2.2.1 _ (getD_mem _ _ (by rw [hS.2.1]; exact ha))
  have := h a ha
  rw [getD_default _ 1 0 (by omega)] at this
  unfold hasEdge at he
  omega

theorem sum_eq_count_ones (l : List Int) (hb : ∀ x ∈ l, x = 0 ∨ x = 1) :
    l.sum = ((l.filter (· == 1)).length : Int) := by
  induction l with
  | nil => rfl
  | cons x xs ih =>
    have ih' := ih (fun y hy => hb y (List.mem_cons_of_mem _ hy))
    rcases hb x List.mem_cons_self with hx | hx <;> subst hx <;> simp [ih'] <;> omega

theorem filter_length_mono {α} (p q : α → Bool) (l : List α) (h : ∀ a ∈ l, p a = true → q a = true) :
    (l.filter p).length ≤ (l.filter q).length := by
  induction l with
  | nil => simp
  | cons x xs ih =>
    have ih' := ih (fun a ha => h a (List.mem_cons_of_mem _ ha))
    have hx := h x List.mem_cons_self
    simp only [List.filter_cons]
    cases hp : p x <;> cases hq : q x <;> simp_all <;> omega

/-- `certDegree` (+ 0/1 adjacency matrix): no agent ever has more than `bound` legal moves -/
theorem cert_degree_legal_count {cfg : Cfg} {s : State} (hS : Shaped cfg s) (hb : certBinary s = true)
    {bound : Nat} (h : certDegree cfg s bound = true) {i : Nat} (hi : i < cfg.numAgents) :
    ((List.range cfg.numNodes).filter (fun a => decide (legal cfg s i a))).length ≤ bound := by
  simp only [certDegree, List.all_eq_true, List.mem_range, decide_eq_true_eq] at h
  simp only [certBinary, List.all_eq_true, Bool.or_eq_true, beq_iff_eq] at hb
  have hp := pos_range hS hi
  have hr : (s.positions.getD i 0).toNat < cfg.numNodes := by omega
  have hmem : s.adj.getD (s.positions.getD i 0).toNat [] ∈ s.adj := getD_mem _ _ (by rw [hS.2.1]; exact hr)
  have hlen : (s.adj.getD (s.positions.getD i 0).toNat []).length = cfg.numNodes := hS.2.2.1 _ hmem
  have hdeg := h _ hr
  unfold degree at hdeg
  rw [sum_eq_count_ones _ (hb _ hmem)] at hdeg
  have h1 := filter_length_mono (fun a => decide (legal cfg s i a))
    (fun a => (s.adj.getD (s.positions.getD i 0).toNat []).getD a 0 == 1) (List.range cfg.numNodes)
    (fun a _ hl => by
      have := (of_decide_eq_true hl).2.2.2.1
      simpa [hasEdge] using this)
  have h2 : ((List.range cfg.numNodes).filter
      (fun a => (s.adj.getD (s.positions.getD i 0).toNat []).getD a 0 == 1)).length =
      ((s.adj.getD (s.positions.getD i 0).toNat []).filter (· == 1)).length := by
    have e := Gen.map_getD_range (s.adj.getD (s.positions.getD i 0).toNat []) (0 : Int)
    rw [hlen] at e
    conv => rhs; rw [← e]
    rw [List.filter_map, List.length_map]
    rfl
  omega

end MMST
