/-
MMST — C01 spec membership (wave 4): the declared specs as `Sp` values (`obsSpec cfg`, `actionSpec cfg`; equal to the
generated literals of the catalogue configuration, Props/Env/MMST.lean), the model observation as spec-level arrays
(`toNValue`, shapes READ OFF the values), the invariant `SpecInv` (array shapes + value ranges + mask shape + non-negative
counter) established by every generated state and preserved by EVERY step (any joint action — any list of integers —, any
draw, valid permutation or not), membership of the observation of `reset` and of every `step` (terminal step included),
whole episodes, the converse (`obs_valid_only`), reward / discount / action spec.
-/
import JumanjiModel.Env.MMST.Bounds
import JumanjiModel.Env.MMST.FeasibleLemmas
import JumanjiModel.Env.MMST.GenTheorems
import JumanjiModel.Env.PackSpecValid
namespace MMST
open Jm Sp PzS PkS

/-! ### the declared specs (env.py `observation_spec`, `action_spec`) -/

/-- `observation_spec`: `node_types` BoundedArray((N,), int32, -1, 2A-1), `adj_matrix` BoundedArray((N, N), int32, 0, 1),
`positions` BoundedArray((A,), int32, -1, N-1), `step_count` BoundedArray((), int32, 0, time_limit),
`action_mask` BoundedArray((A, N), bool, False, True) -/
def obsSpec (cfg : Cfg) : Sp.Nested :=
  [("node_types", .bounded [cfg.numNodes] .int32 "node_types" [] [((-1 : Int) : Rat)] []
      [((2 * (cfg.numAgents : Int) - 1 : Int) : Rat)]),
   ("adj_matrix", .bounded [cfg.numNodes, cfg.numNodes] .int32 "adj_matrix" [] [((0 : Int) : Rat)] [] [((1 : Int) : Rat)]),
   ("positions", .bounded [cfg.numAgents] .int32 "positions" [] [((-1 : Int) : Rat)] []
      [(((cfg.numNodes : Int) - 1 : Int) : Rat)]),
   ("step_count", .bounded [] .int32 "step_count" [] [((0 : Int) : Rat)] [] [((cfg.timeLimit : Int) : Rat)]),
   ("action_mask", .bounded [cfg.numAgents, cfg.numNodes] .bool "action_mask" [] [0] [] [1])]

/-- `action_spec`: MultiDiscreteArray(full((A,), N), int32) -/
def actionSpec (cfg : Cfg) : Leaf :=
  .multiDiscrete [cfg.numAgents] (List.replicate cfg.numAgents cfg.numNodes) .int32 "action"

/-- a model observation as the arrays the implementation emits; the shapes are READ OFF the values -/
def toNValue (o : Obs) : NValue :=
  [("node_types", ⟨shape1 o.nodeTypes, .int32, ofInts o.nodeTypes⟩),
   ("adj_matrix", ⟨shape2 o.adj, .int32, ofInts o.adj.flatten⟩),
   ("positions", ⟨shape1 o.positions, .int32, ofInts o.positions⟩),
   ("step_count", ⟨[], .int32, ofInts [o.stepCount]⟩),
   ("action_mask", ⟨shape2 o.actionMask, .bool, ofBools o.actionMask.flatten⟩)]

def actionArr (cfg : Cfg) (a : List Int) : Arr := ⟨[cfg.numAgents], .int32, ofInts a⟩

/-- what membership amounts to -/
def ObsOK (cfg : Cfg) (o : Obs) : Prop :=
  o.nodeTypes.length = cfg.numNodes ∧ (∀ v ∈ o.nodeTypes, -1 ≤ v ∧ v ≤ 2 * (cfg.numAgents : Int) - 1) ∧
  Rect2 o.adj cfg.numNodes cfg.numNodes ∧ (∀ r ∈ o.adj, ∀ v ∈ r, 0 ≤ v ∧ v ≤ 1) ∧
  o.positions.length = cfg.numAgents ∧ (∀ v ∈ o.positions, -1 ≤ v ∧ v ≤ (cfg.numNodes : Int) - 1) ∧
  0 ≤ o.stepCount ∧ o.stepCount ≤ (cfg.timeLimit : Int) ∧
  Rect2 o.actionMask cfg.numAgents cfg.numNodes

theorem mem_flatten_in {g : List (List Int)} {lo hi : Int} (h : ∀ r ∈ g, ∀ v ∈ r, lo ≤ v ∧ v ≤ hi) :
    ∀ v ∈ g.flatten, lo ≤ v ∧ v ≤ hi := by
  intro v hv
  obtain ⟨r, hr, hv'⟩ := List.mem_flatten.mp hv
  exact h r hr v hv'

theorem obs_valid (cfg : Cfg) (hA : 0 < cfg.numAgents) (hN : 0 < cfg.numNodes) (o : Obs) (h : ObsOK cfg o) :
    (obsSpec cfg).valid (toNValue o) = true := by
  obtain ⟨h1, h2, h3, h4, h5, h6, h7, h8, h9⟩ := h
  have v1 := valid_bounded1 cfg.numNodes .int32 "node_types" ((-1 : Int) : Rat) ((2 * (cfg.numAgents : Int) - 1 : Int) : Rat)
    o.nodeTypes ofInts ofInts_length h1 (ofInts_bounds _ _ _ h2)
  have v2 := valid_bounded2 cfg.numNodes cfg.numNodes .int32 "adj_matrix" ((0 : Int) : Rat) ((1 : Int) : Rat) o.adj ofInts
    ofInts_length h3 hN (ofInts_bounds _ _ _ (mem_flatten_in h4))
  have v3 := valid_bounded1 cfg.numAgents .int32 "positions" ((-1 : Int) : Rat) (((cfg.numNodes : Int) - 1 : Int) : Rat)
    o.positions ofInts ofInts_length h5 (ofInts_bounds _ _ _ h6)
  have v4 : (Leaf.bounded [] .int32 "step_count" [] [((0 : Int) : Rat)] [] [((cfg.timeLimit : Int) : Rat)]).valid
      ⟨[], .int32, ofInts [o.stepCount]⟩ = true :=
    valid_scalar_bounded _ _ _ _ _ _ (by simp [ofInts, prod]) (ofInts_bounds _ _ _ (by simpa using ⟨h7, h8⟩))
  have v5 := valid_bounded2 cfg.numAgents cfg.numNodes .bool "action_mask" 0 1 o.actionMask ofBools ofBools_length h9 hA
    (ofBools_bounds _)
  simp only [Nested.valid, obsSpec, toNValue, List.map_cons, List.map_nil, List.zipWith_cons_cons, List.zipWith_nil_right,
    List.all_cons, List.all_nil, id, v1, v2, v3, v4, v5]
  decide

/-- … and conversely `validate` accepts nothing else: declared shapes, labels in `[-1, 2A-1]`, a 0/1 matrix, positions in
`[-1, N-1]`, a counter in `[0, time_limit]` -/
theorem obs_valid_only (cfg : Cfg) (o : Obs) (h : (obsSpec cfg).valid (toNValue o) = true) :
    o.nodeTypes.length = cfg.numNodes ∧ (∀ v ∈ o.nodeTypes, -1 ≤ v ∧ v ≤ 2 * (cfg.numAgents : Int) - 1) ∧
    shape2 o.adj = [cfg.numNodes, cfg.numNodes] ∧ (∀ v ∈ o.adj.flatten, 0 ≤ v ∧ v ≤ 1) ∧
    o.positions.length = cfg.numAgents ∧ (∀ v ∈ o.positions, -1 ≤ v ∧ v ≤ (cfg.numNodes : Int) - 1) ∧
    0 ≤ o.stepCount ∧ o.stepCount ≤ (cfg.timeLimit : Int) ∧
    shape2 o.actionMask = [cfg.numAgents, cfg.numNodes] := by
  simp only [Nested.valid, obsSpec, toNValue, List.map_cons, List.map_nil, List.zipWith_cons_cons, List.zipWith_nil_right,
    List.all_cons, List.all_nil, id, Bool.and_true, Bool.and_eq_true, beq_self_eq_true, true_and] at h
  obtain ⟨h1, h2, h3, h4, h5⟩ := h
  rw [valid_scalar_bounded_iff] at h1 h2 h3 h4 h5
  have c1 := ofInts_bounds_conv _ _ _ h1.2.2.2
  have c2 := ofInts_bounds_conv _ _ _ h2.2.2.2
  have c3 := ofInts_bounds_conv _ _ _ h3.2.2.2
  have c4 := ofInts_bounds_conv _ _ _ h4.2.2.2 o.stepCount (by simp)
  refine ⟨by simpa [shape1] using h1.1, c1, h2.1, c2, by simpa [shape1] using h3.1, c3, c4.1, c4.2, h5.1⟩

/-! ### the invariant: configured shapes, value ranges, mask shape, non-negative counter; kept by EVERY step -/

def SpecInv (cfg : Cfg) (s : State) : Prop :=
  Shaped cfg s ∧ BInv cfg s ∧ Rect2 s.actionMask cfg.numAgents cfg.numNodes ∧ 0 ≤ s.stepCount
instance (cfg : Cfg) (s : State) : Decidable (SpecInv cfg s) := by unfold SpecInv Rect2; infer_instance

/-- `step_shaped` with the position range taken from `BInv` instead of `EdgesOK` -/
theorem step_shaped_of_binv {cfg : Cfg} {s : State} (hS : Shaped cfg s) (hB : BInv cfg s)
    (action : List Int) (perm : List Nat) : Shaped cfg (step cfg s action perm).1 := by
  obtain ⟨l1, l2, l3, l4, l5, l6⟩ := step_lengths cfg s action perm
  have hS' := hS
  obtain ⟨s1, s2, s3, _, _, _, s7, _, _, _, _, _, _⟩ := hS'
  refine ⟨s1, s2, s3, l1, l2, ?_, s7, l3, ?_, l4, (step_positions_range hB action perm).2, l5, l6⟩
  · intro r hr
    obtain ⟨i, hi, rfl⟩ := mem_exists_getD' [] hr
    rw [l2] at hi
    rw [step_connectedIndex cfg s action perm hi]
    split
    · rw [Jx.setWD_length]; exact ci_length hS hi
    · exact ci_length hS hi
  · intro e he
    rw [step_nodeEdges] at he
    unfold updateActiveEdges at he
    obtain ⟨i, hi, rfl⟩ := mem_map_range_getD he
    unfold activeEdgesFor
    exact activeEdges_shape _ _ _ _ _ (nodeEdges_shape hS hi)

/-- `make_action_mask` on tables of the configured shapes: one row of `N` bits per agent -/
theorem makeMask_rect {cfg : Cfg} {s : State} (hS : Shaped cfg s) (fin : List Bool) :
    Rect2 (makeMask cfg.numAgents s.nodeEdges s.positions fin) cfg.numAgents cfg.numNodes := by
  unfold makeMask
  refine ⟨by simp, ?_⟩
  intro row hrow
  obtain ⟨i, hi, rfl⟩ := mem_map_range_getD hrow
  obtain ⟨hp0, hp1⟩ := pos_range hS hi
  obtain ⟨hel, her⟩ := edges_shape hS hi
  rw [List.length_map, getWC_nat _ _ _ hp0 (by rw [hel]; exact hp1)]
  exact her _ (getD_mem _ _ (by rw [hel]; omega))

theorem step_specInv {cfg : Cfg} {s : State} (h : SpecInv cfg s) (a : List Int) (p : List Nat) :
    SpecInv cfg (step cfg s a p).1 := by
  obtain ⟨hS, hB, _, h0⟩ := h
  have hS' := step_shaped_of_binv hS hB a p
  refine ⟨hS', step_binv hB a p, ?_, by rw [step_count]; omega⟩
  rw [cached_mask]
  exact makeMask_rect hS' _

/-- a feasible state with a 0/1 adjacency matrix, a mask of the configured shape and a non-negative counter -/
theorem specInv_of_feasible {cfg : Cfg} {s : State} (hF : Feasible cfg s) (hb : certBinary s = true)
    (hm : Rect2 s.actionMask cfg.numAgents cfg.numNodes) (h0 : 0 ≤ s.stepCount) : SpecInv cfg s :=
  ⟨hF.1, binv_of_feasible hF hb, hm, h0⟩

/-- every state produced by the generator (`generate`, any valid draw of the agents' nodes, any `graphOK` graph whose
adjacency matrix is 0/1) satisfies the invariant -/
theorem generate_specInv {cfg : Cfg} {d : GenDraw} (hv : validGenDraw cfg d) (hg : graphOK cfg d)
    (hb : ∀ r ∈ d.adj, ∀ x ∈ r, x = 0 ∨ x = 1) (hK : 1 ≤ cfg.numNodesPerAgent) (hT : 1 ≤ cfg.timeLimit) :
    SpecInv cfg (generate cfg d) := by
  have hF := (generate_feasible' hv hg hK hT).1
  refine specInv_of_feasible hF ?_ ?_ (by simp [generate])
  · simp only [certBinary, List.all_eq_true, Bool.or_eq_true, beq_iff_eq]
    exact fun r hr x hx => hb r hr x hx
  · exact makeMask_rect hF.1 _

/-! ### membership of the observations -/

theorem observe_obsOK (cfg : Cfg) (hA : 0 < cfg.numAgents) (s : State) (h : SpecInv cfg s)
    (hT : s.stepCount ≤ (cfg.timeLimit : Int)) : ObsOK cfg (observeL1 cfg s) := by
  obtain ⟨hS, hB, hm, h0⟩ := h
  obtain ⟨_, hp, _, hadj⟩ := hB
  refine ⟨obsNodeTypes_length hS, obsNodeTypes_range _ hA _ _, ⟨hS.2.1, hS.2.2.1⟩, hadj, hS.2.2.2.2.2.2.2.2.2.1, ?_, h0, hT, hm⟩
  intro v hv
  have := hp v hv
  simp only [observeL1] at hv
  omega

/-- C01: the observation built from ANY state with the invariant whose counter is at most the limit is a member -/
theorem observe_valid (cfg : Cfg) (hA : 0 < cfg.numAgents) (hN : 0 < cfg.numNodes) (s : State) (h : SpecInv cfg s)
    (hT : s.stepCount ≤ (cfg.timeLimit : Int)) : (obsSpec cfg).valid (toNValue (observeL1 cfg s)) = true :=
  obs_valid cfg hA hN _ (observe_obsOK cfg hA s h hT)

/-- C01: the `reset` observation of a state with the invariant and counter 0 (every generated state) -/
theorem reset_obs_valid (cfg : Cfg) (hA : 0 < cfg.numAgents) (hN : 0 < cfg.numNodes) (s : State) (h : SpecInv cfg s)
    (hs : s.stepCount = 0) : (obsSpec cfg).valid (toNValue (reset cfg s).2.obs) = true := by
  have : (reset cfg s).2.obs = observeL1 cfg s := rfl
  rw [this]
  exact observe_valid cfg hA hN s h (by omega)

/-- C01: the observation of EVERY step (any joint action, any draw, MID or LAST) from a state with the invariant whose
counter has not reached the limit -/
theorem step_obs_valid (cfg : Cfg) (hA : 0 < cfg.numAgents) (hN : 0 < cfg.numNodes) (s : State) (h : SpecInv cfg s)
    (hlim : s.stepCount < (cfg.timeLimit : Int)) (a : List Int) (p : List Nat) :
    (obsSpec cfg).valid (toNValue (step cfg s a p).2.obs) = true := by
  rw [obs_faithful]
  exact observe_valid cfg hA hN _ (step_specInv h a p) (by rw [step_count]; omega)

/-- whole episodes: along the rollout of ANY joint actions and draws from a reset state (invariant, counter 0), every
observation emitted by one of the first `time_limit` steps is a member of the spec -/
theorem rollout_obs_valid (cfg : Cfg) (hA : 0 < cfg.numAgents) (hN : 0 < cfg.numNodes) (s0 : State) (h0 : SpecInv cfg s0)
    (hs0 : s0.stepCount = 0) (as : List (List Int × List Nat)) (j : Nat) (hj : j < cfg.timeLimit)
    (e : State × TimeStep Obs)
    (he : (Ep.rollout (fun s (a : List Int × List Nat) => step cfg s a.1 a.2) s0 as)[j]? = some e) :
    (obsSpec cfg).valid (toNValue e.2.obs) = true := by
  obtain ⟨s', a, hinv, _, rfl⟩ := rollout_inv_idx (fun s (a : List Int × List Nat) => step cfg s a.1 a.2)
    (fun n s => SpecInv cfg s ∧ s.stepCount = (n : Int)) (fun _ => True)
    (fun n s a h _ => ⟨step_specInv h.1 a.1 a.2, by
      show (step cfg s a.1 a.2).1.stepCount = ((n + 1 : Nat) : Int)
      rw [step_count, h.2]; omega⟩) 0 s0 ⟨h0, by simpa using hs0⟩ as (fun _ _ => trivial) j e he
  exact step_obs_valid cfg hA hN s' hinv.1 (by rw [hinv.2]; omega) _ _

/-! ### reward, discount, action spec -/

theorem step_protocol (cfg : Cfg) (s : State) (a : List Int) (p : List Nat) :
    StepOK none false (step cfg s a p).2 = true := by
  unfold step; exact condLast_stepOK _ _ _

theorem step_reward_discount_valid (cfg : Cfg) (s : State) (a : List Int) (p : List Nat) :
    rewardSpec.valid (scalarArr (step cfg s a p).2.reward) = true ∧
    discountSpec.valid (scalarArr (step cfg s a p).2.discount) = true :=
  stepOK_reward_discount_valid false _ (step_protocol cfg s a p)

theorem reset_reward_discount_valid (cfg : Cfg) (s : State) :
    rewardSpec.valid (scalarArr (reset cfg s).2.reward) = true ∧
    discountSpec.valid (scalarArr (reset cfg s).2.discount) = true := by
  unfold reset; simp only [restart]; exact ⟨by decide, by decide⟩

theorem actionSpec_generate (cfg : Cfg) :
    (actionSpec cfg).generate = actionArr cfg (List.replicate cfg.numAgents 0) := by
  simp [actionSpec, Leaf.generate, Leaf.lower, Leaf.shape, Leaf.dtype, actionArr, ofInts]

theorem actionSpec_WF (cfg : Cfg) (hN : 0 < cfg.numNodes) (hbig : cfg.numNodes ≤ 2147483648) :
    (actionSpec cfg).WF = true := by
  have fitsI : ∀ z : Int, -2147483648 ≤ z → z ≤ 2147483647 → DType.int32.fits ((z : Int) : Rat) = true := by
    intro z h1 h2; simp [DType.fits, DType.intRange, Rat.den_intCast, Rat.num_intCast, h1, h2]
  have hd : DType.int32.fits ((((cfg.numNodes : Nat) : Int) - 1 : Int) : Rat) = true := fitsI _ (by omega) (by omega)
  simp only [actionSpec, Leaf.WF, Leaf.WF0, Leaf.fitsDType, List.all_replicate, hd]
  simp [prod, DType.isInt, hN]

/-- membership in `action_spec`: one node index per agent -/
theorem actionSpec_valid_iff (cfg : Cfg) (a : List Int) :
    (actionSpec cfg).valid (actionArr cfg a) = true ↔
      a.length = cfg.numAgents ∧ ∀ x ∈ a, 0 ≤ x ∧ x < (cfg.numNodes : Int) := by
  rw [Leaf.valid_iff]
  simp only [actionSpec, Leaf.shape, Leaf.dtype, Leaf.lower, Leaf.upper, actionArr, prod_one, ofInts_length]
  constructor
  · rintro ⟨_, _, hl, h⟩
    rcases h with ⟨h, _⟩ | ⟨lo, hi, hlo, hhi, hall⟩
    · simp at h
    · simp only [Option.some.injEq] at hlo hhi
      subst hlo; subst hhi
      refine ⟨hl, fun x hx => ?_⟩
      obtain ⟨m, hm, rfl⟩ := List.getElem_of_mem hx
      have := hall m (by simpa [ofInts] using hm) (by simp; omega)
      simp only [ofInts, List.getElem_map, List.getElem_zip, List.map_replicate, List.getElem_replicate] at this
      have h1 : ((0 : Int) : Rat) ≤ ((a[m] : Int) : Rat) := by simpa using this.1
      have h1' := Rat.intCast_le_intCast.mp h1
      have h2' := Rat.intCast_le_intCast.mp this.2
      omega
  · rintro ⟨hl, h⟩
    refine ⟨trivial, trivial, hl, Or.inr ⟨_, _, rfl, rfl, ?_⟩⟩
    intro m h1 h2
    have hm : m < a.length := by simpa [ofInts] using h1
    simp only [ofInts, List.getElem_map, List.getElem_zip, List.map_replicate, List.getElem_replicate]
    have := h a[m] (List.getElem_mem hm)
    refine ⟨?_, Rat.intCast_le_intCast.mpr (by omega)⟩
    have : ((0 : Int) : Rat) ≤ ((a[m] : Int) : Rat) := Rat.intCast_le_intCast.mpr this.1
    simpa using this

/-- `action_spec.generate_value()` = all zeros: the spec is well-formed, the value is a member, and `step` answers it from
every state with the invariant (counter below the limit) with a protocol-conform timestep whose observation is a member of
the observation spec -/
theorem accepts_generate_value (cfg : Cfg) (hA : 0 < cfg.numAgents) (hN : 0 < cfg.numNodes)
    (hbig : cfg.numNodes ≤ 2147483648) (s : State) (h : SpecInv cfg s) (hlim : s.stepCount < (cfg.timeLimit : Int))
    (p : List Nat) :
    (actionSpec cfg).WF = true ∧ (actionSpec cfg).valid (actionSpec cfg).generate = true ∧
    (actionSpec cfg).generate = actionArr cfg (List.replicate cfg.numAgents 0) ∧
    StepOK none false (step cfg s (List.replicate cfg.numAgents 0) p).2 = true ∧
    (obsSpec cfg).valid (toNValue (step cfg s (List.replicate cfg.numAgents 0) p).2.obs) = true :=
  ⟨actionSpec_WF cfg hN hbig, Leaf.generate_valid _ (actionSpec_WF cfg hN hbig), actionSpec_generate cfg,
   step_protocol cfg s _ p, step_obs_valid cfg hA hN s h hlim _ p⟩

end MMST
