/- Helper lemmas and proofs for MMST (statements re-exported in Props/Env/MMST.lean). -/
import JumanjiModel.Env.MMST.Model
namespace MMST
open Jm

/-! ### list helpers -/

theorem getD_map_range {α} (n : Nat) (f : Nat → α) (d : α) {i : Nat} (h : i < n) :
    ((List.range n).map f).getD i d = f i := by
  simp [List.getD_eq_getElem?_getD, h]

theorem getD_map' {α β} (l : List α) (g : α → β) (d : β) (d' : α) {a : Nat} (h : a < l.length) :
    (l.map g).getD a d = g (l.getD a d') := by
  simp [List.getD_eq_getElem?_getD, h]

theorem getWC_nat {α} (xs : List α) (d : α) (p : Int) (h0 : 0 ≤ p) (h1 : p < xs.length) :
    Jx.getWC xs d p = xs.getD p.toNat d := by
  unfold Jx.getWC Jx.clampIdx Jx.wrapIdx
  simp only []
  have : ¬ p < 0 := by omega
  simp only [this, if_false]
  split
  · omega
  · rfl

theorem getD_mem {α} (l : List α) (d : α) {i : Nat} (h : i < l.length) : l.getD i d ∈ l := by
  simp [List.getD_eq_getElem?_getD, h]

/-! ### C12 / C11: structure of `step` -/

theorem obs_faithful (cfg : Cfg) (s : State) (a : List Int) (p : List Nat) :
    (step cfg s a p).2.obs = observeL1 cfg (step cfg s a p).1 := by
  simp only [step, condLast]
  split <;> rfl

theorem step_count (cfg : Cfg) (s : State) (a : List Int) (p : List Nat) :
    (step cfg s a p).1.stepCount = s.stepCount + 1 := rfl

theorem step_last_iff (cfg : Cfg) (s : State) (a : List Int) (p : List Nat) :
    (step cfg s a p).2.stepType = .last ↔
      ((step cfg s a p).1.finished.all id = true ∨ s.stepCount + 1 ≥ (cfg.timeLimit : Int)) := by
  simp only [step, condLast]
  split <;> rename_i h <;> simp_all [termination, transition]

theorem time_limit (cfg : Cfg) (s : State) (a : List Int) (p : List Nat)
    (h : s.stepCount + 1 ≥ (cfg.timeLimit : Int)) : (step cfg s a p).2.stepType = .last :=
  (step_last_iff cfg s a p).2 (Or.inr h)

/-- fields that `step` never touches -/
theorem step_static (cfg : Cfg) (s : State) (a : List Int) (p : List Nat) :
    (step cfg s a p).1.nodeTypes = s.nodeTypes ∧ (step cfg s a p).1.adj = s.adj ∧
    (step cfg s a p).1.nodesToConnect = s.nodesToConnect := ⟨rfl, rfl, rfl⟩


/-! ### C04: the mask function is the rules -/

theorem pos_range {cfg : Cfg} {s : State} (hS : Shaped cfg s) {i : Nat} (hi : i < cfg.numAgents) :
    0 ≤ s.positions.getD i 0 ∧ s.positions.getD i 0 < (cfg.numNodes : Int) := by
  obtain ⟨_, _, _, _, _, _, _, _, _, hpl, hp, _⟩ := hS
  exact hp _ (getD_mem _ _ (by omega))

theorem edges_shape {cfg : Cfg} {s : State} (hS : Shaped cfg s) {i : Nat} (hi : i < cfg.numAgents) :
    (s.nodeEdges.getD i []).length = cfg.numNodes ∧ ∀ r ∈ s.nodeEdges.getD i [], r.length = cfg.numNodes := by
  obtain ⟨_, _, _, _, _, _, _, hel, he, _⟩ := hS
  exact he _ (getD_mem _ _ (by omega))

theorem edge_entry {cfg : Cfg} {s : State} (hS : Shaped cfg s) (hE : EdgesOK cfg s) {i a : Nat}
    (hi : i < cfg.numAgents) (ha : a < cfg.numNodes) :
    (Jx.getWC (s.nodeEdges.getD i []) [] (s.positions.getD i 0)).getD a 0 =
      (if hasEdge s (s.positions.getD i 0).toNat a ∧ ¬ takenByOther cfg s i a then (a : Int) else -1) ∧
    (Jx.getWC (s.nodeEdges.getD i []) [] (s.positions.getD i 0)).length = cfg.numNodes := by
  have hp := pos_range hS hi
  obtain ⟨hel, her⟩ := edges_shape hS hi
  rw [getWC_nat _ _ _ hp.1 (by rw [hel]; exact hp.2)]
  have hr : (s.positions.getD i 0).toNat < cfg.numNodes := by omega
  exact ⟨hE i hi _ hr a ha, her _ (getD_mem _ _ (by omega))⟩

theorem makeMask_bit {cfg : Cfg} {s : State} (hS : Shaped cfg s) (hE : EdgesOK cfg s) (fin : List Bool)
    {i a : Nat} (hi : i < cfg.numAgents) (ha : a < cfg.numNodes) :
    ((makeMask cfg.numAgents s.nodeEdges s.positions fin).getD i []).getD a false = true ↔
      (fin.getD i false = false ∧ hasEdge s (s.positions.getD i 0).toNat a ∧ ¬ takenByOther cfg s i a) := by
  obtain ⟨he, hl⟩ := edge_entry hS hE hi ha
  rw [makeMask, getD_map_range _ _ _ hi, getD_map' _ _ _ 0 (by omega), he]
  by_cases hc : hasEdge s (s.positions.getD i 0).toNat a ∧ ¬ takenByOther cfg s i a
  · have : (a : Int) ≠ -1 := by omega
    rw [if_pos hc]; constructor
    · intro h; simp [this] at h; exact ⟨h, hc.1, hc.2⟩
    · intro h; have h1 := h.1; simp [this]; simpa using h1
  · rw [if_neg hc]; constructor
    · intro h; simp at h
    · intro h; exact absurd ⟨h.2.1, h.2.2⟩ hc

/-- with fresh finished flags the mask function gives exactly the legal moves -/
theorem mask_iff_legal {cfg : Cfg} {s : State} (hS : Shaped cfg s) (hE : EdgesOK cfg s) (hF : FlagsFresh cfg s)
    {i a : Nat} (hi : i < cfg.numAgents) (ha : a < cfg.numNodes) :
    ((makeMask cfg.numAgents s.nodeEdges s.positions s.finished).getD i []).getD a false = true ↔
      legal cfg s i a := by
  rw [makeMask_bit hS hE _ hi ha, hF i hi]
  unfold legal
  simp [hi, ha]


/-- the mask stored by `step`: the mask function applied to the successor's arrays, with the successor's
flags when `freshMask`, with the predecessor's flags on the pinned tree -/
theorem cached_mask (cfg : Cfg) (s : State) (a : List Int) (p : List Nat) :
    (step cfg s a p).1.actionMask =
      makeMask cfg.numAgents (step cfg s a p).1.nodeEdges (step cfg s a p).1.positions
        (if cfg.freshMask then (step cfg s a p).1.finished else s.finished) := rfl

theorem cached_mask_fresh (cfg : Cfg) (s : State) (a : List Int) (p : List Nat)
    (h : cfg.freshMask = true ∨ (step cfg s a p).1.finished = s.finished) :
    (step cfg s a p).1.actionMask =
      makeMask cfg.numAgents (step cfg s a p).1.nodeEdges (step cfg s a p).1.positions (step cfg s a p).1.finished := by
  rw [cached_mask]
  rcases h with h | h
  · simp [h]
  · split
    · rfl
    · rw [h]

/-! ### C05: an illegal action is ignored -/

theorem getD_default {α} (l : List α) (d d' : α) {a : Nat} (h : a < l.length) : l.getD a d = l.getD a d' := by
  simp [List.getD_eq_getElem?_getD, h]

theorem target_eq {cfg : Cfg} {s : State} (hS : Shaped cfg s) (hE : EdgesOK cfg s) {i a : Nat}
    (hi : i < cfg.numAgents) (ha : a < cfg.numNodes) :
    targetNode s i (a : Int) =
      (if hasEdge s (s.positions.getD i 0).toNat a ∧ ¬ takenByOther cfg s i a then (a : Int) else -1) := by
  obtain ⟨he, hl⟩ := edge_entry hS hE hi ha
  unfold targetNode
  rw [getWC_nat _ _ _ (by omega) (by rw [hl]; omega), Int.toNat_natCast, getD_default _ (-1) 0 (by omega), he]

theorem targets_getD (cfg : Cfg) (s : State) (action : List Nat) {i : Nat} (hi : i < cfg.numAgents) :
    (targets cfg s (action.map Int.ofNat)).getD i (-1) = targetNode s i ((action.getD i 0 : Nat) : Int) := by
  unfold targets
  rw [getD_map_range _ _ _ hi]
  congr 1
  simp only [List.getD_eq_getElem?_getD, List.getElem?_map]
  cases action[i]? <;> rfl

theorem illegal_no_move {cfg : Cfg} {s : State} (hS : Shaped cfg s) (hE : EdgesOK cfg s) (hF : FlagsFresh cfg s)
    (action : List Nat) (perm : List Nat) {i : Nat} (hi : i < cfg.numAgents)
    (ha : action.getD i 0 < cfg.numNodes) (hill : ¬ legal cfg s i (action.getD i 0)) :
    moves ((trim cfg s (action.map Int.ofNat) perm).getD i (-1))
      ((targets cfg s (action.map Int.ofNat)).getD i (-1)) = false := by
  rw [targets_getD cfg s action hi, target_eq hS hE hi ha]
  by_cases hd : agentDone s i
  · have hfin : s.finished.getD i false = true := by rw [hF i hi]; simp [hd]
    have : (trim cfg s (action.map Int.ofNat) perm).getD i (-1) = -1 := by
      unfold trim
      simp only []
      rw [getD_map_range _ _ _ hi]
      have hfin' : s.finished[i]?.getD false = true := by simpa [List.getD_eq_getElem?_getD] using hfin
      simp [finalAction, hfin']
    rw [this]
    simp [moves]
  · have hc : ¬ (hasEdge s (s.positions.getD i 0).toNat (action.getD i 0) ∧ ¬ takenByOther cfg s i (action.getD i 0)) := by
      intro h
      exact hill ⟨hi, ha, hd, h.1, h.2⟩
    rw [if_neg hc]
    simp [moves]

/-- C05: the agent whose action is illegal keeps its position, its route and its index; whatever the others do -/
theorem illegal_ignored {cfg : Cfg} {s : State} (hS : Shaped cfg s) (hE : EdgesOK cfg s) (hF : FlagsFresh cfg s)
    (action : List Nat) (perm : List Nat) {i : Nat} (hi : i < cfg.numAgents)
    (ha : action.getD i 0 < cfg.numNodes) (hill : ¬ legal cfg s i (action.getD i 0)) :
    let s' := (step cfg s (action.map Int.ofNat) perm).1
    s'.positions.getD i 0 = s.positions.getD i 0 ∧ s'.positionIndex.getD i 0 = s.positionIndex.getD i 0 ∧
    s'.connectedNodes.getD i [] = s.connectedNodes.getD i [] ∧
    s'.connectedIndex.getD i [] = s.connectedIndex.getD i [] := by
  have hm := illegal_no_move hS hE hF action perm hi ha hill
  simp only [step, List.map_map]
  refine ⟨?_, ?_, ?_, ?_⟩ <;>
  · rw [getD_map_range _ _ _ hi]
    simp only [Function.comp, stepAgent, hm]
    simp


/-- the environment never carries out an illegal move: an agent whose index advanced played a legal action -/
theorem moved_only_if_legal {cfg : Cfg} {s : State} (hS : Shaped cfg s) (hE : EdgesOK cfg s) (hF : FlagsFresh cfg s)
    (action : List Nat) (perm : List Nat) {i : Nat} (hi : i < cfg.numAgents)
    (ha : action.getD i 0 < cfg.numNodes)
    (hm : (step cfg s (action.map Int.ofNat) perm).1.positionIndex.getD i 0 ≠ s.positionIndex.getD i 0) :
    legal cfg s i (action.getD i 0) := by
  by_cases h : legal cfg s i (action.getD i 0)
  · exact h
  · exact absurd (illegal_ignored hS hE hF action perm hi ha h).2.1 hm

/-! ### C12: the relabelling arithmetic is the documented labelling -/

theorem foldl_zipWith_getD {α β : Type} (f : Nat → α → β → α) (rows : Nat → List β) (d : α) (d' : β) (v : Nat) :
    ∀ (ks : List Nat) (xs0 : List α), v < xs0.length → (∀ k ∈ ks, v < (rows k).length) →
      (ks.foldl (fun xs k => List.zipWith (f k) xs (rows k)) xs0).getD v d =
        ks.foldl (fun x k => f k x ((rows k).getD v d')) (xs0.getD v d) := by
  intro ks
  induction ks with
  | nil => intro xs0 _ _; rfl
  | cons k ks ih =>
    intro xs0 hv hr
    simp only [List.foldl_cons]
    have hk : v < (rows k).length := hr k (by simp)
    rw [ih _ (by simp [List.length_zipWith]; omega) (fun k' hk' => hr k' (by simp [hk']))]
    congr 1
    simp [List.getD_eq_getElem?_getD, List.getElem?_zipWith, hv, hk]

theorem foldl_last {ks : List Nat} (c : Nat → Int) (g : Nat → Int) :
    ∀ (x0 : Int), ks.foldl (fun x k => if c k = -1 then x else g k) x0 =
      (match (ks.filter (fun k => decide (c k ≠ -1))).getLast? with | some k => g k | none => x0) := by
  induction ks with
  | nil => intro x0; rfl
  | cons k ks ih =>
    intro x0
    simp only [List.foldl_cons]
    rw [ih]
    by_cases hk : c k = -1
    · simp [hk]
    · simp only [hk, if_false, List.filter_cons, ne_eq, not_false_eq_true, decide_true, if_true]
      rw [List.getLast?_cons]
      cases (ks.filter (fun k => decide (c k ≠ -1))).getLast? <;> simp

theorem relabelBase_spec (A : Nat) (t : Int) (h0 : -1 ≤ t) (h1 : t < (A : Int)) :
    relabelBase A t = if t = -1 then -1 else 2 * t + 1 := by
  unfold relabelBase
  by_cases ht : t = -1
  · subst ht; simp
  · have : t % (A : Int) = t := Int.emod_eq_of_lt (by omega) h1
    simp [ht, this]; omega

theorem relabelAgent_spec (A k : Nat) (hk : k < A) (x c : Int) :
    relabelAgent A k x c = if c = -1 then x else 2 * (k : Int) := by
  unfold relabelAgent
  have : (k : Int) % (A : Int) = k := Int.emod_eq_of_lt (by omega) (by omega)
  by_cases hc : c = -1
  · subst hc; simp
  · simp [hc, this]

/-- every entry of the observed `node_types` is the documented label of that node -/
theorem relabel_eq_spec {cfg : Cfg} {s : State} (hS : Shaped cfg s)
    (hT : ∀ t ∈ s.nodeTypes, -1 ≤ t ∧ t < (cfg.numAgents : Int)) {v : Nat} (hv : v < cfg.numNodes) :
    (obsNodeTypes cfg.numAgents s.nodeTypes s.connectedIndex).getD v 0 = nodeLabel cfg s v := by
  obtain ⟨hnt, _, _, _, hcl, hcr, _⟩ := hS
  unfold obsNodeTypes
  rw [foldl_zipWith_getD (relabelAgent cfg.numAgents) (fun k => s.connectedIndex.getD k []) 0 (-1) v _ _
      (by simp [hnt, hv])
      (fun k hk => by
        have hk' : k < cfg.numAgents := by simpa using hk
        rw [hcr _ (getD_mem _ _ (by omega))]; exact hv)]
  have hfold : ∀ (ks : List Nat) (x0 : Int), (∀ k ∈ ks, k < cfg.numAgents) →
      ks.foldl (fun x k => relabelAgent cfg.numAgents k x ((s.connectedIndex.getD k []).getD v (-1))) x0 =
      ks.foldl (fun x k => if (s.connectedIndex.getD k []).getD v (-1) = -1 then x else 2 * (k : Int)) x0 := by
    intro ks
    induction ks with
    | nil => intro _ _; rfl
    | cons k ks ih =>
      intro x0 hks
      simp only [List.foldl_cons]
      rw [relabelAgent_spec _ _ (hks k (by simp)), ih _ (fun k' hk' => hks k' (by simp [hk']))]
  rw [hfold _ _ (fun k hk => by simpa using hk),
      foldl_last (fun k => (s.connectedIndex.getD k []).getD v (-1)) (fun k => 2 * (k : Int))]
  unfold nodeLabel connectedBy
  have hb : (s.nodeTypes.map (relabelBase cfg.numAgents)).getD v 0 =
      (if s.nodeTypes.getD v 0 = -1 then -1 else 2 * s.nodeTypes.getD v 0 + 1) := by
    rw [getD_map' _ _ _ 0 (by omega)]
    have := hT _ (getD_mem s.nodeTypes 0 (by omega : v < s.nodeTypes.length))
    exact relabelBase_spec _ _ this.1 this.2
  rw [hb]
  rfl

theorem obsNodeTypes_length {cfg : Cfg} {s : State} (hS : Shaped cfg s) :
    (obsNodeTypes cfg.numAgents s.nodeTypes s.connectedIndex).length = cfg.numNodes := by
  obtain ⟨hnt, _, _, _, hcl, hcr, _⟩ := hS
  unfold obsNodeTypes
  have : ∀ (ks : List Nat) (xs : List Int), xs.length = cfg.numNodes → (∀ k ∈ ks, k < cfg.numAgents) →
      (ks.foldl (fun xs agent => List.zipWith (relabelAgent cfg.numAgents agent) xs (s.connectedIndex.getD agent [])) xs).length
        = cfg.numNodes := by
    intro ks
    induction ks with
    | nil => intro xs h _; exact h
    | cons k ks ih =>
      intro xs h hks
      simp only [List.foldl_cons]
      apply ih
      · have hk := hks k (by simp)
        have hl := hcr _ (getD_mem s.connectedIndex [] (by omega : k < s.connectedIndex.length))
        rw [List.length_zipWith, h, hl]; omega
      · exact fun k' hk' => hks k' (by simp [hk'])
  exact this _ _ (by simp [hnt]) (fun k hk => by simpa using hk)


/-! ### C06 core: the tie-break never lets two agents take the same new node (any draw) -/

theorem getD_set {α} (l : List α) (i j : Nat) (v d : α) :
    (l.set i v).getD j d = if i = j ∧ i < l.length then v else l.getD j d := by
  simp only [List.getD_eq_getElem?_getD, List.getElem?_set]
  by_cases h : i = j
  · subst h
    by_cases h2 : i < l.length
    · simp [h2]
    · simp [h2]
  · simp [h]

/-- agent `k` currently holds a real action in the tie-break table -/
def mover (st : TB) (k : Nat) : Prop := st.newActions.getD k (-1) ≠ -1 ∧ st.newActions.getD k (-1) ≠ -2

structure TBInv (A : Nat) (nodes : List Int) (st : TB) : Prop where
  la : st.added.length = A
  ln : st.newActions.length = A
  own : ∀ k, k < A → mover st k → st.added.getD k (-10) = nodes.getD k (-1) ∧ nodes.getD k (-1) ≠ -1
  distinct : ∀ j k, j < A → k < A → j ≠ k → mover st j → mover st k → nodes.getD j (-1) ≠ nodes.getD k (-1)

theorem tbInit_inv (A : Nat) (nodes : List Int) : TBInv A nodes (tbInit A) := by
  have hm : ∀ k, ¬ mover (tbInit A) k := by
    intro k h
    apply h.1
    simp only [tbInit, List.getD_eq_getElem?_getD, List.getElem?_replicate]
    split <;> rfl
  exact ⟨by simp [tbInit], by simp [tbInit], fun k _ h => absurd h (hm k), fun j _ _ _ _ h => absurd h (hm j)⟩

theorem tbStep_inv {A : Nat} {nodes : List Int} (action : List Int) {st : TB} (h : TBInv A nodes st) (k : Nat) :
    TBInv A nodes (tbStep action nodes st k) := by
  unfold tbStep
  simp only []
  split
  · -- valid node, already selected: agent k gets -2
    refine ⟨by simp [h.la], by simp [h.ln], ?_, ?_⟩
    · intro j hj hm
      have hjk : ¬ (k = j ∧ k < st.newActions.length) := by
        intro hc; apply hm.2; simp only [getD_set]; rw [if_pos hc]
      have hm' : mover st j := by
        unfold mover at hm ⊢; simp only [getD_set] at hm; rw [if_neg hjk] at hm; exact hm
      have hjk' : ¬ (k = j ∧ k < st.added.length) := by rw [h.la, ← h.ln]; exact hjk
      simp only [getD_set]; rw [if_neg hjk']; exact h.own j hj hm'
    · intro j l hj hl hjl hmj hml
      have aux : ∀ x, mover { added := st.added.set k (-2), newActions := st.newActions.set k (-2) } x → mover st x := by
        intro x hm
        have hxk : ¬ (k = x ∧ k < st.newActions.length) := by
          intro hc; apply hm.2; simp only [getD_set]; rw [if_pos hc]
        unfold mover at hm ⊢; simp only [getD_set] at hm; rw [if_neg hxk] at hm; exact hm
      exact h.distinct j l hj hl hjl (aux j hmj) (aux l hml)
  · exact h
  · -- valid node, not selected yet: agent k takes it
    rename_i hinv hsel
    have hnode : nodes.getD k (-1) ≠ -1 := by simpa using hinv
    have hnot : nodes.getD k (-1) ∉ st.added := by simpa using hsel
    have old : ∀ x, ¬ (k = x ∧ k < A) →
        mover { added := st.added.set k (nodes.getD k (-1)), newActions := st.newActions.set k (action.getD k (-1)) } x →
        mover st x := by
      intro x hxk hm
      have hxk' : ¬ (k = x ∧ k < st.newActions.length) := by rw [h.ln]; exact hxk
      unfold mover at hm ⊢; simp only [getD_set] at hm; rw [if_neg hxk'] at hm; exact hm
    refine ⟨by simp [h.la], by simp [h.ln], ?_, ?_⟩
    · intro j hj hm
      by_cases hjk : k = j ∧ k < A
      · have : k = j ∧ k < st.added.length := by rw [h.la]; exact hjk
        simp only [getD_set]; rw [if_pos this, ← hjk.1]; exact ⟨rfl, hnode⟩
      · have : ¬ (k = j ∧ k < st.added.length) := by rw [h.la]; exact hjk
        simp only [getD_set]; rw [if_neg this]; exact h.own j hj (old j hjk hm)
    · intro j l hj hl hjl hmj hml
      have key : ∀ x, x < A → x ≠ k → mover st x → nodes.getD x (-1) ≠ nodes.getD k (-1) := by
        intro x hx hxk hmx heq
        have ho := (h.own x hx hmx).1
        apply hnot
        rw [← heq, ← ho]
        exact getD_mem _ _ (by rw [h.la]; exact hx)
      by_cases hjk : k = j
      · subst hjk
        have hlk : ¬ (k = l ∧ k < A) := fun hc => hjl hc.1
        exact fun heq => key l hl (fun e => hjl e.symm) (old l hlk hml) heq.symm
      · by_cases hlk : k = l
        · subst hlk
          have hjk' : ¬ (k = j ∧ k < A) := fun hc => hjk hc.1
          exact key j hj (fun e => hjk e.symm) (old j hjk' hmj)
        · exact h.distinct j l hj hl hjl (old j (fun hc => hjk hc.1) hmj) (old l (fun hc => hlk hc.1) hml)
  · exact h

theorem tieBreak_inv (A : Nat) (action nodes : List Int) (perm : List Nat) :
    TBInv A nodes (tieBreak A action nodes perm) := by
  unfold tieBreak
  have : ∀ (ks : List Nat) (st : TB), TBInv A nodes st → TBInv A nodes (ks.foldl (tbStep action nodes) st) := by
    intro ks
    induction ks with
    | nil => intro st h; exact h
    | cons k ks ih => intro st h; exact ih _ (tbStep_inv action h k)
  exact this _ _ (tbInit_inv A nodes)

/-- two different agents that both move in one step to nodes they had not visited before go to different nodes,
for every draw `perm` (valid or not) and every action list -/
theorem new_nodes_distinct (cfg : Cfg) (s : State) (action : List Int) (perm : List Nat) {i j : Nat}
    (hi : i < cfg.numAgents) (hj : j < cfg.numAgents) (hij : i ≠ j)
    (hmi : moves ((trim cfg s action perm).getD i (-1)) ((targets cfg s action).getD i (-1)) = true)
    (hmj : moves ((trim cfg s action perm).getD j (-1)) ((targets cfg s action).getD j (-1)) = true)
    (hvi : Jx.getWC (s.connectedIndex.getD i []) (-1) ((targets cfg s action).getD i (-1)) = -1)
    (hvj : Jx.getWC (s.connectedIndex.getD j []) (-1) ((targets cfg s action).getD j (-1)) = -1) :
    (targets cfg s action).getD i (-1) ≠ (targets cfg s action).getD j (-1) := by
  have inv := tieBreak_inv cfg.numAgents action (targets cfg s action) perm
  have mk : ∀ x, x < cfg.numAgents →
      moves ((trim cfg s action perm).getD x (-1)) ((targets cfg s action).getD x (-1)) = true →
      Jx.getWC (s.connectedIndex.getD x []) (-1) ((targets cfg s action).getD x (-1)) = -1 →
      mover (tieBreak cfg.numAgents action (targets cfg s action) perm) x := by
    intro x hx hm hv
    have ht : (trim cfg s action perm).getD x (-1) =
        finalAction cfg s (targets cfg s action) (tieBreak cfg.numAgents action (targets cfg s action) perm).newActions x := by
      unfold trim; simp only []; rw [getD_map_range _ _ _ hx]
    rw [ht] at hm
    unfold finalAction moves at hm
    simp only [hv] at hm
    unfold mover
    generalize (tieBreak cfg.numAgents action (targets cfg s action) perm).newActions.getD x (-1) = n at hm ⊢
    generalize s.finished.getD x false = f at hm
    generalize (targets cfg s action).getD x (-1) = nd at hm
    cases f
    · simp at hm; exact ⟨hm.1.1, hm.1.2⟩
    · simp at hm
  exact inv.distinct i j hi hj hij (mk i hi hmi hvi) (mk j hj hmj hvj)

end MMST
