/-
MMST, C06 / C04 proof completion: `Feasible` is an inductive invariant of `step` (every joint action, every draw,
every configuration), reset states satisfying the generator certificates are feasible, completed episodes hold a
solution, and a legal action that no agent earlier in the draw contests is carried out.
-/
import JumanjiModel.Env.MMST.Lemmas
import JumanjiModel.Prim.Lemmas
namespace MMST
open Jm

/-! ### what `step` does to agent `i` -/

/-- the node agent `i` asked for, as `_get_agent_node` reads it off its edge table (-1 = none) -/
def nodeOf (cfg : Cfg) (s : State) (action : List Int) (i : Nat) : Int := (targets cfg s action).getD i (-1)
/-- the action of agent `i` after `_trim_duplicated_invalid_actions` -/
def actOf (cfg : Cfg) (s : State) (action : List Int) (perm : List Nat) (i : Nat) : Int :=
  (trim cfg s action perm).getD i (-1)
/-- does `step_agent_fn` move agent `i`? -/
def movedAt (cfg : Cfg) (s : State) (action : List Int) (perm : List Nat) (i : Nat) : Bool :=
  moves (actOf cfg s action perm i) (nodeOf cfg s action i)

theorem step_positions (cfg : Cfg) (s : State) (action : List Int) (perm : List Nat) {i : Nat}
    (hi : i < cfg.numAgents) :
    (step cfg s action perm).1.positions.getD i 0 =
      if movedAt cfg s action perm i then nodeOf cfg s action i else s.positions.getD i 0 := by
  simp only [step, List.map_map]
  rw [getD_map_range _ _ _ hi]
  simp only [Function.comp, stepAgent]
  by_cases h : movedAt cfg s action perm i = true
  · have h' : moves ((trim cfg s action perm).getD i (-1)) ((targets cfg s action).getD i (-1)) = true := h
    rw [if_pos h', if_pos h] <;> rfl
  · have h' : ¬ moves ((trim cfg s action perm).getD i (-1)) ((targets cfg s action).getD i (-1)) = true := h
    rw [if_neg h', if_neg h]

theorem step_connectedIndex (cfg : Cfg) (s : State) (action : List Int) (perm : List Nat) {i : Nat}
    (hi : i < cfg.numAgents) :
    (step cfg s action perm).1.connectedIndex.getD i [] =
      if movedAt cfg s action perm i then
        Jx.setWD (s.connectedIndex.getD i []) (nodeOf cfg s action i) (nodeOf cfg s action i)
      else s.connectedIndex.getD i [] := by
  simp only [step, List.map_map]
  rw [getD_map_range _ _ _ hi]
  simp only [Function.comp, stepAgent]
  by_cases h : movedAt cfg s action perm i = true
  · have h' : moves ((trim cfg s action perm).getD i (-1)) ((targets cfg s action).getD i (-1)) = true := h
    rw [if_pos h', if_pos h] <;> rfl
  · have h' : ¬ moves ((trim cfg s action perm).getD i (-1)) ((targets cfg s action).getD i (-1)) = true := h
    rw [if_neg h', if_neg h]

theorem step_connectedNodes (cfg : Cfg) (s : State) (action : List Int) (perm : List Nat) {i : Nat}
    (hi : i < cfg.numAgents) :
    (step cfg s action perm).1.connectedNodes.getD i [] =
      if movedAt cfg s action perm i then
        Jx.setWD (s.connectedNodes.getD i []) (s.positionIndex.getD i 0 + 1) (nodeOf cfg s action i)
      else s.connectedNodes.getD i [] := by
  simp only [step, List.map_map]
  rw [getD_map_range _ _ _ hi]
  simp only [Function.comp, stepAgent]
  by_cases h : movedAt cfg s action perm i = true
  · have h' : moves ((trim cfg s action perm).getD i (-1)) ((targets cfg s action).getD i (-1)) = true := h
    rw [if_pos h', if_pos h] <;> rfl
  · have h' : ¬ moves ((trim cfg s action perm).getD i (-1)) ((targets cfg s action).getD i (-1)) = true := h
    rw [if_neg h', if_neg h]

theorem step_positionIndex (cfg : Cfg) (s : State) (action : List Int) (perm : List Nat) {i : Nat}
    (hi : i < cfg.numAgents) :
    (step cfg s action perm).1.positionIndex.getD i 0 =
      if movedAt cfg s action perm i then s.positionIndex.getD i 0 + 1 else s.positionIndex.getD i 0 := by
  simp only [step, List.map_map]
  rw [getD_map_range _ _ _ hi]
  simp only [Function.comp, stepAgent]
  by_cases h : movedAt cfg s action perm i = true
  · have h' : moves ((trim cfg s action perm).getD i (-1)) ((targets cfg s action).getD i (-1)) = true := h
    rw [if_pos h', if_pos h] <;> rfl
  · have h' : ¬ moves ((trim cfg s action perm).getD i (-1)) ((targets cfg s action).getD i (-1)) = true := h
    rw [if_neg h', if_neg h]

theorem step_nodeEdges (cfg : Cfg) (s : State) (action : List Int) (perm : List Nat) :
    (step cfg s action perm).1.nodeEdges =
      updateActiveEdges cfg.numAgents s.nodeEdges (step cfg s action perm).1.positions s.nodeTypes := rfl

theorem step_finished (cfg : Cfg) (s : State) (action : List Int) (perm : List Nat) :
    (step cfg s action perm).1.finished =
      finishedAgents cfg s.nodesToConnect (step cfg s action perm).1.connectedNodes := rfl

/-! ### the node an agent is moved to -/

theorem mem_exists_getD' {α} {l : List α} {x : α} (d : α) (h : x ∈ l) : ∃ i, i < l.length ∧ l.getD i d = x := by
  obtain ⟨i, hi, rfl⟩ := List.getElem_of_mem h
  exact ⟨i, hi, by simp [List.getD_eq_getElem?_getD, hi]⟩

theorem ci_length {cfg : Cfg} {s : State} (hS : Shaped cfg s) {i : Nat} (hi : i < cfg.numAgents) :
    (s.connectedIndex.getD i []).length = cfg.numNodes := by
  obtain ⟨_, _, _, _, hcl, hcr, _⟩ := hS
  exact hcr _ (getD_mem _ _ (by omega))

/-- `_get_agent_node`: whatever integer the agent plays, the node read off its edge table is -1 or a node `c` it
has an edge to and that is not a utility node taken by another agent -/
theorem target_cases {cfg : Cfg} {s : State} (hS : Shaped cfg s) (hE : EdgesOK cfg s) {i : Nat}
    (hi : i < cfg.numAgents) (a : Int) :
    targetNode s i a = -1 ∨ ∃ c, c < cfg.numNodes ∧ targetNode s i a = (c : Int) ∧
      hasEdge s (s.positions.getD i 0).toNat c ∧ ¬ takenByOther cfg s i c := by
  have hp := pos_range hS hi
  have hN : 0 < cfg.numNodes := by omega
  obtain ⟨hel, her⟩ := edges_shape hS hi
  unfold targetNode
  rw [getWC_nat _ _ _ hp.1 (by rw [hel]; exact hp.2)]
  have hr : (s.positions.getD i 0).toNat < cfg.numNodes := by omega
  have hrow : ((s.nodeEdges.getD i []).getD (s.positions.getD i 0).toNat []).length = cfg.numNodes :=
    her _ (getD_mem _ _ (by omega))
  unfold Jx.getWC
  rw [hrow]
  have hk := Jx.clampIdx_lt hN a
  rw [getD_default _ (-1) 0 (by rw [hrow]; exact hk), hE i hi _ hr _ hk]
  by_cases hc : hasEdge s (s.positions.getD i 0).toNat (Jx.clampIdx cfg.numNodes a) ∧
      ¬ takenByOther cfg s i (Jx.clampIdx cfg.numNodes a)
  · rw [if_pos hc]; right; exact ⟨_, hk, rfl, hc.1, hc.2⟩
  · rw [if_neg hc]; left; rfl

theorem nodeOf_eq (cfg : Cfg) (s : State) (action : List Int) {i : Nat} (hi : i < cfg.numAgents) :
    nodeOf cfg s action i = targetNode s i (action.getD i 0) := by
  unfold nodeOf targets
  rw [getD_map_range _ _ _ hi]

/-- an agent is only ever moved to a node it has an edge to and that no other agent has taken -/
theorem moved_node {cfg : Cfg} {s : State} (hS : Shaped cfg s) (hE : EdgesOK cfg s) (action : List Int)
    (perm : List Nat) {i : Nat} (hi : i < cfg.numAgents) (hm : movedAt cfg s action perm i = true) :
    ∃ c, c < cfg.numNodes ∧ nodeOf cfg s action i = (c : Int) ∧
      hasEdge s (s.positions.getD i 0).toNat c ∧ ¬ takenByOther cfg s i c := by
  have hne : nodeOf cfg s action i ≠ -1 := by
    unfold movedAt moves at hm
    simp only [Bool.and_eq_true, bne_iff_ne, ne_eq] at hm
    exact hm.2
  rw [nodeOf_eq cfg s action hi] at hne ⊢
  rcases target_cases hS hE hi (action.getD i 0) with h | h
  · exact absurd h hne
  · exact h

/-- which nodes agent `i` has connected after the step: the old ones and the node it was moved to -/
theorem step_connectedBy {cfg : Cfg} {s : State} (hS : Shaped cfg s) (hE : EdgesOK cfg s) (action : List Int)
    (perm : List Nat) {i : Nat} (hi : i < cfg.numAgents) (v : Nat) :
    connectedBy (step cfg s action perm).1 i v ↔
      (connectedBy s i v ∨ (movedAt cfg s action perm i = true ∧ nodeOf cfg s action i = (v : Int))) := by
  unfold connectedBy
  rw [step_connectedIndex cfg s action perm hi]
  by_cases hm : movedAt cfg s action perm i = true
  · obtain ⟨c, hc, hn, _, _⟩ := moved_node hS hE action perm hi hm
    rw [if_pos hm, hn, Jx.setWD_nat _ _ (by rw [ci_length hS hi]; exact hc), getD_set]
    by_cases hcv : c = v
    · subst hcv
      rw [if_pos ⟨rfl, by rw [ci_length hS hi]; exact hc⟩]
      constructor
      · intro _; right; exact ⟨hm, rfl⟩
      · intro _; omega
    · rw [if_neg (fun h => hcv h.1)]
      constructor
      · intro h; left; exact h
      · intro h
        rcases h with h | ⟨_, h⟩
        · exact h
        · omega
  · rw [if_neg hm]
    constructor
    · intro h; left; exact h
    · intro h
      rcases h with h | ⟨h, _⟩
      · exact h
      · exact absurd h hm

/-- the new position of every agent is a node index -/
theorem step_pos_range {cfg : Cfg} {s : State} (hS : Shaped cfg s) (hE : EdgesOK cfg s) (action : List Int)
    (perm : List Nat) {i : Nat} (hi : i < cfg.numAgents) :
    0 ≤ (step cfg s action perm).1.positions.getD i 0 ∧
    (step cfg s action perm).1.positions.getD i 0 < (cfg.numNodes : Int) := by
  rw [step_positions cfg s action perm hi]
  by_cases hm : movedAt cfg s action perm i = true
  · obtain ⟨c, hc, hn, _, _⟩ := moved_node hS hE action perm hi hm
    rw [if_pos hm, hn]; omega
  · rw [if_neg hm]; exact pos_range hS hi

/-- with `RouteOK` (an agent has connected the node it stands on): after the step agent `i` has connected `v` iff
it had before or it now stands on `v` -/
theorem step_connectedBy' {cfg : Cfg} {s : State} (hS : Shaped cfg s) (hE : EdgesOK cfg s) (hR : RouteOK cfg s)
    (action : List Int) (perm : List Nat) {i : Nat} (hi : i < cfg.numAgents) (v : Nat) :
    connectedBy (step cfg s action perm).1 i v ↔
      (connectedBy s i v ∨ (step cfg s action perm).1.positions.getD i 0 = (v : Int)) := by
  rw [step_connectedBy hS hE action perm hi v, step_positions cfg s action perm hi]
  by_cases hm : movedAt cfg s action perm i = true
  · rw [if_pos hm]; simp [hm]
  · rw [if_neg hm]
    constructor
    · intro h
      rcases h with h | ⟨h, _⟩
      · left; exact h
      · exact absurd h hm
    · intro h
      rcases h with h | h
      · left; exact h
      · left
        have := hR.1 i hi
        have hp := pos_range hS hi
        have e : (s.positions.getD i 0).toNat = v := by omega
        rw [e] at this; exact this

/-! ### C06: the hard constraint — no utility node is used by two agents -/

theorem step_utilityExclusive {cfg : Cfg} {s : State} (hS : Shaped cfg s) (hU : UtilityExclusive cfg s)
    (hE : EdgesOK cfg s) (action : List Int) (perm : List Nat) :
    UtilityExclusive cfg (step cfg s action perm).1 := by
  intro i hi j hj v hv ⟨hij, hu, hci, hcj⟩
  have hu' : isUtility s v := hu
  rw [step_connectedBy hS hE action perm hi v] at hci
  rw [step_connectedBy hS hE action perm hj v] at hcj
  have fresh : ∀ k, k < cfg.numAgents → ¬ connectedBy s k v → nodeOf cfg s action k = (v : Int) →
      Jx.getWC (s.connectedIndex.getD k []) (-1) ((targets cfg s action).getD k (-1)) = -1 := by
    intro k hk hnc hn
    have hn' : (targets cfg s action).getD k (-1) = (v : Int) := hn
    rw [hn', Jx.getWC_nat _ _ (by rw [ci_length hS hk]; exact hv)]
    unfold connectedBy at hnc
    exact Decidable.not_not.1 hnc
  by_cases hoi : connectedBy s i v
  · by_cases hoj : connectedBy s j v
    · exact hU i hi j hj v hv ⟨hij, hu', hoi, hoj⟩
    · obtain ⟨hmj, hnj⟩ := hcj.resolve_left hoj
      obtain ⟨c, hc, hn, _, hnt⟩ := moved_node hS hE action perm hj hmj
      have hcv : c = v := by rw [hn] at hnj; omega
      subst hcv
      exact hnt ⟨hu', i, hi, hij, hoi⟩
  · obtain ⟨hmi, hni⟩ := hci.resolve_left hoi
    obtain ⟨c, hc, hn, _, hnt⟩ := moved_node hS hE action perm hi hmi
    have hcv : c = v := by rw [hn] at hni; omega
    subst hcv
    by_cases hoj : connectedBy s j c
    · exact hnt ⟨hu', j, hj, Ne.symm hij, hoj⟩
    · obtain ⟨hmj, hnj⟩ := hcj.resolve_left hoj
      have := new_nodes_distinct cfg s action perm hi hj hij hmi hmj (fresh i hi hoi hni) (fresh j hj hoj hnj)
      apply this
      show nodeOf cfg s action i = nodeOf cfg s action j
      rw [hni, hnj]

/-! ### C06: the edge tables -/

/-- entry `[r][c]` of a table, `none` outside it -/
def entry (e : List (List Int)) (r c : Nat) : Option Int := (e[r]?).bind (fun row => row[c]?)

theorem getD_getD_entry (e : List (List Int)) (r c : Nat) : (e.getD r []).getD c 0 = (entry e r c).getD 0 := by
  unfold entry
  simp only [List.getD_eq_getElem?_getD]
  cases e[r]? <;> simp

theorem entry_of_lt (e : List (List Int)) (r c : Nat) (hr : r < e.length) (hc : c < (e.getD r []).length) :
    entry e r c = some ((e.getD r []).getD c 0) := by
  unfold entry
  simp only [List.getD_eq_getElem?_getD] at hc ⊢
  rw [List.getElem?_eq_getElem hr] at hc ⊢
  simp only [Option.getD_some, Option.bind_some] at hc ⊢
  rw [List.getElem?_eq_getElem hc]; rfl

theorem entry_maskNode (e : List (List Int)) (node : Int) (r c : Nat) :
    entry (maskNode e node) r c = (entry e r c).map (fun x => if x == node then -1 else x) := by
  unfold entry maskNode
  simp only [List.getElem?_map]
  cases e[r]? with
  | none => rfl
  | some row => simp only [Option.map_some, Option.bind_some, List.getElem?_map]

/-- `update_active_edges` for the table of agent `a2`: an entry becomes -1 iff it is the (utility) node another
agent stands on -/
theorem entry_activeEdges (nodeTypes pos : List Int) (a2 r c : Nat) :
    ∀ (ags : List Nat) (e : List (List Int)),
      entry (ags.foldl (fun e agent =>
          let node := pos.getD agent 0
          if agent != a2 && Jx.getWC nodeTypes 0 node == -1 then maskNode e node else e) e) r c =
        (entry e r c).map (fun x =>
          if ags.any (fun j => j != a2 && Jx.getWC nodeTypes 0 (pos.getD j 0) == -1 && x == pos.getD j 0)
          then -1 else x) := by
  intro ags
  induction ags with
  | nil => intro e; simp
  | cons a ags ih =>
    intro e
    simp only [List.foldl_cons]
    rw [ih]
    by_cases hc : (a != a2 && Jx.getWC nodeTypes 0 (pos.getD a 0) == -1) = true
    · simp only [hc, if_true, entry_maskNode]
      cases entry e r c with
      | none => rfl
      | some x =>
        simp only [Option.map_some, List.any_cons]
        by_cases hx : x = pos.getD a 0
        · have hb : (x == pos.getD a 0) = true := by simpa using hx
          simp only [hc, hb, Bool.true_and, Bool.true_or, ↓reduceIte, ite_self]
        · have hb : (x == pos.getD a 0) = false := by simpa using hx
          simp only [hc, hb, Bool.true_and, Bool.false_or, Bool.false_eq_true, ↓reduceIte]
    · have hc' : (a != a2 && Jx.getWC nodeTypes 0 (pos.getD a 0) == -1) = false := by
        cases h : (a != a2 && Jx.getWC nodeTypes 0 (pos.getD a 0) == -1) <;> simp_all
      simp only [hc', List.any_cons, Bool.false_and, Bool.false_or]
      rfl

theorem maskNode_shape {N : Nat} (e : List (List Int)) (node : Int) (h : e.length = N ∧ ∀ r ∈ e, r.length = N) :
    (maskNode e node).length = N ∧ ∀ r ∈ maskNode e node, r.length = N := by
  unfold maskNode
  refine ⟨by simp [h.1], ?_⟩
  intro r hr
  simp only [List.mem_map] at hr
  obtain ⟨r0, hr0, rfl⟩ := hr
  simp [h.2 r0 hr0]

theorem activeEdges_shape {N : Nat} (nodeTypes pos : List Int) (a2 : Nat) :
    ∀ (ags : List Nat) (e : List (List Int)), (e.length = N ∧ ∀ r ∈ e, r.length = N) →
      ((ags.foldl (fun e agent =>
          let node := pos.getD agent 0
          if agent != a2 && Jx.getWC nodeTypes 0 node == -1 then maskNode e node else e) e).length = N ∧
       ∀ r ∈ (ags.foldl (fun e agent =>
          let node := pos.getD agent 0
          if agent != a2 && Jx.getWC nodeTypes 0 node == -1 then maskNode e node else e) e), r.length = N) := by
  intro ags
  induction ags with
  | nil => intro e h; exact h
  | cons a ags ih =>
    intro e h
    simp only [List.foldl_cons]
    apply ih
    split
    · exact maskNode_shape e _ h
    · exact h

theorem nodeEdges_shape {cfg : Cfg} {s : State} (hS : Shaped cfg s) {i : Nat} (hi : i < cfg.numAgents) :
    (s.nodeEdges.getD i []).length = cfg.numNodes ∧ ∀ r ∈ s.nodeEdges.getD i [], r.length = cfg.numNodes :=
  edges_shape hS hi

/-- a utility node taken by another agent stays taken; the new ones are the nodes the others now stand on -/
theorem step_takenByOther {cfg : Cfg} {s : State} (hS : Shaped cfg s) (hE : EdgesOK cfg s) (hR : RouteOK cfg s)
    (action : List Int) (perm : List Nat) (i c : Nat) :
    takenByOther cfg (step cfg s action perm).1 i c ↔
      (takenByOther cfg s i c ∨ (isUtility s c ∧ ∃ j, j < cfg.numAgents ∧ j ≠ i ∧
        (step cfg s action perm).1.positions.getD j 0 = (c : Int))) := by
  unfold takenByOther
  have hu : isUtility (step cfg s action perm).1 c ↔ isUtility s c := Iff.rfl
  rw [hu]
  constructor
  · rintro ⟨h1, j, hj, hji, hc⟩
    rcases (step_connectedBy' hS hE hR action perm hj c).1 hc with h | h
    · left; exact ⟨h1, j, hj, hji, h⟩
    · right; exact ⟨h1, j, hj, hji, h⟩
  · rintro (⟨h1, j, hj, hji, hc⟩ | ⟨h1, j, hj, hji, hc⟩)
    · exact ⟨h1, j, hj, hji, (step_connectedBy' hS hE hR action perm hj c).2 (Or.inl hc)⟩
    · exact ⟨h1, j, hj, hji, (step_connectedBy' hS hE hR action perm hj c).2 (Or.inr hc)⟩

theorem step_edgesOK {cfg : Cfg} {s : State} (hS : Shaped cfg s) (hE : EdgesOK cfg s) (hR : RouteOK cfg s)
    (action : List Int) (perm : List Nat) : EdgesOK cfg (step cfg s action perm).1 := by
  intro i hi r hr c hc
  have hnt : s.nodeTypes.length = cfg.numNodes := hS.1
  obtain ⟨hel, her⟩ := nodeEdges_shape hS hi
  have hrow : ((s.nodeEdges.getD i []).getD r []).length = cfg.numNodes := her _ (getD_mem _ _ (by omega))
  have hx0 := entry_of_lt (s.nodeEdges.getD i []) r c (by omega) (by omega)
  rw [hE i hi r hr c hc] at hx0
  have hT := step_takenByOther hS hE hR action perm i c
  have hedge : hasEdge (step cfg s action perm).1 r c ↔ hasEdge s r c := Iff.rfl
  rw [step_nodeEdges]
  unfold updateActiveEdges
  rw [getD_map_range _ _ _ hi]
  unfold activeEdgesFor
  rw [getD_getD_entry, entry_activeEdges, hx0]
  simp only [Option.map_some, Option.getD_some]
  -- when is the entry masked?
  have hany : ∀ x : Int,
      ((List.range cfg.numAgents).any (fun j => j != i &&
          Jx.getWC s.nodeTypes 0 ((step cfg s action perm).1.positions.getD j 0) == -1 &&
          x == (step cfg s action perm).1.positions.getD j 0) = true) ↔
      ∃ j, j < cfg.numAgents ∧ j ≠ i ∧
        Jx.getWC s.nodeTypes 0 ((step cfg s action perm).1.positions.getD j 0) = -1 ∧
        x = (step cfg s action perm).1.positions.getD j 0 := by
    intro x
    simp only [List.any_eq_true, List.mem_range, Bool.and_eq_true, bne_iff_ne, ne_eq, beq_iff_eq]
    constructor
    · rintro ⟨j, hj, ⟨h1, h2⟩, h3⟩; exact ⟨j, hj, h1, h2, h3⟩
    · rintro ⟨j, hj, h1, h2, h3⟩; exact ⟨j, hj, ⟨h1, h2⟩, h3⟩
  have hutil : Jx.getWC s.nodeTypes 0 (c : Int) = -1 ↔ isUtility s c := by
    rw [Jx.getWC_nat _ _ (by rw [hnt]; exact hc)]; rfl
  by_cases h0 : hasEdge s r c ∧ ¬ takenByOther cfg s i c
  · rw [if_pos h0]
    by_cases hm : ((List.range cfg.numAgents).any (fun j => j != i &&
          Jx.getWC s.nodeTypes 0 ((step cfg s action perm).1.positions.getD j 0) == -1 &&
          (c : Int) == (step cfg s action perm).1.positions.getD j 0) = true)
    · rw [if_pos hm]
      obtain ⟨j, hj, hji, hu, hp⟩ := (hany _).1 hm
      rw [← hp] at hu
      have : takenByOther cfg (step cfg s action perm).1 i c := hT.2 (Or.inr ⟨hutil.1 hu, j, hj, hji, hp.symm⟩)
      rw [if_neg (fun h => h.2 this)]
    · rw [if_neg hm]
      have : ¬ takenByOther cfg (step cfg s action perm).1 i c := by
        intro ht
        rcases hT.1 ht with h | ⟨hu, j, hj, hji, hp⟩
        · exact h0.2 h
        · apply hm
          apply (hany _).2
          refine ⟨j, hj, hji, ?_, hp.symm⟩
          rw [hp]; exact hutil.2 hu
      rw [if_pos ⟨hedge.2 h0.1, this⟩]
  · rw [if_neg h0]
    have : ¬ (hasEdge (step cfg s action perm).1 r c ∧ ¬ takenByOther cfg (step cfg s action perm).1 i c) := by
      intro ⟨h1, h2⟩
      exact h0 ⟨hedge.1 h1, fun ht => h2 (hT.2 (Or.inl ht))⟩
    rw [if_neg this]
    split <;> rfl

/-! ### C06: the route bookkeeping -/

theorem mem_setWD {α} (l : List α) (k : Int) (x v : α) (h : v ∈ Jx.setWD l k x) : v ∈ l ∨ v = x := by
  unfold Jx.setWD at h
  simp only [] at h
  split at h
  · left; exact h
  · split at h
    · left; exact h
    · rcases List.mem_or_eq_of_mem_set h with h | h
      · left; exact h
      · right; exact h

theorem step_routeOK {cfg : Cfg} {s : State} (hS : Shaped cfg s) (hE : EdgesOK cfg s) (hR : RouteOK cfg s)
    (action : List Int) (perm : List Nat) : RouteOK cfg (step cfg s action perm).1 := by
  refine ⟨?_, ?_, ?_⟩
  · intro i hi
    have hp := step_pos_range hS hE action perm hi
    apply (step_connectedBy' hS hE hR action perm hi _).2
    right; omega
  · intro i hi v hv hne
    rw [step_connectedNodes cfg s action perm hi] at hv
    rw [step_connectedIndex cfg s action perm hi]
    by_cases hm : movedAt cfg s action perm i = true
    · obtain ⟨c, hc, hn, _, _⟩ := moved_node hS hE action perm hi hm
      rw [if_pos hm, hn] at hv ⊢
      rw [Jx.setWD_nat _ _ (by rw [ci_length hS hi]; exact hc), getD_set]
      rcases mem_setWD _ _ _ _ hv with hv | hv
      · obtain ⟨h1, h2, h3⟩ := hR.2.1 i hi v hv hne
        refine ⟨h1, h2, ?_⟩
        by_cases hcv : c = v.toNat ∧ c < (s.connectedIndex.getD i []).length
        · rw [if_pos hcv]; omega
        · rw [if_neg hcv]; exact h3
      · subst hv
        refine ⟨by omega, by omega, ?_⟩
        rw [if_pos ⟨by simp, by rw [ci_length hS hi]; exact hc⟩]
    · rw [if_neg hm] at hv ⊢
      exact hR.2.1 i hi v hv hne
  · intro i hi v hv
    rw [step_connectedIndex cfg s action perm hi]
    by_cases hm : movedAt cfg s action perm i = true
    · obtain ⟨c, hc, hn, _, _⟩ := moved_node hS hE action perm hi hm
      rw [if_pos hm, hn, Jx.setWD_nat _ _ (by rw [ci_length hS hi]; exact hc), getD_set]
      by_cases hcv : c = v ∧ c < (s.connectedIndex.getD i []).length
      · rw [if_pos hcv]; right; rw [hcv.1]
      · rw [if_neg hcv]; exact hR.2.2 i hi v hv
    · rw [if_neg hm]; exact hR.2.2 i hi v hv

/-! ### C06: shapes -/

theorem mem_map_range_getD {α} {n : Nat} {f : Nat → α} {x : α} (h : x ∈ (List.range n).map f) :
    ∃ i, i < n ∧ x = f i := by
  simp only [List.mem_map, List.mem_range] at h
  obtain ⟨i, hi, rfl⟩ := h
  exact ⟨i, hi, rfl⟩

theorem step_lengths (cfg : Cfg) (s : State) (action : List Int) (perm : List Nat) :
    (step cfg s action perm).1.connectedNodes.length = cfg.numAgents ∧
    (step cfg s action perm).1.connectedIndex.length = cfg.numAgents ∧
    (step cfg s action perm).1.nodeEdges.length = cfg.numAgents ∧
    (step cfg s action perm).1.positions.length = cfg.numAgents ∧
    (step cfg s action perm).1.positionIndex.length = cfg.numAgents ∧
    (step cfg s action perm).1.finished.length = cfg.numAgents := by
  simp [step, updateActiveEdges, finishedAgents]

theorem step_shaped {cfg : Cfg} {s : State} (hS : Shaped cfg s) (hE : EdgesOK cfg s)
    (action : List Int) (perm : List Nat) : Shaped cfg (step cfg s action perm).1 := by
  obtain ⟨l1, l2, l3, l4, l5, l6⟩ := step_lengths cfg s action perm
  have hS' := hS
  obtain ⟨s1, s2, s3, _, _, _, s7, _, _, _, _, _, _⟩ := hS'
  refine ⟨s1, s2, s3, l1, l2, ?_, s7, l3, ?_, l4, ?_, l5, l6⟩
  · intro r hr
    obtain ⟨i, hi, rfl⟩ := mem_exists_getD' [] hr
    rw [l2] at hi
    rw [step_connectedIndex cfg s action perm hi]
    split
    · rw [Jx.setWD_length]; exact ci_length hS hi
    · exact ci_length hS hi
  · intro e he
    rw [step_nodeEdges] at he
    unfold updateActiveEdges at he
    obtain ⟨i, hi, rfl⟩ := mem_map_range_getD he
    unfold activeEdgesFor
    exact activeEdges_shape _ _ _ _ _ (nodeEdges_shape hS hi)
  · intro p hp
    obtain ⟨i, hi, rfl⟩ := mem_exists_getD' 0 hp
    rw [l4] at hi
    exact step_pos_range hS hE action perm hi

/-- C06: `Feasible` is preserved by every step — any joint action (any list of integers), any draw (a valid
permutation or not), any configuration (pinned or repaired mask / visited lookup) -/
theorem step_feasible {cfg : Cfg} {s : State} (h : Feasible cfg s) (action : List Int) (perm : List Nat) :
    Feasible cfg (step cfg s action perm).1 := by
  obtain ⟨hS, hU, hE, hR⟩ := h
  exact ⟨step_shaped hS hE action perm, step_utilityExclusive hS hU hE action perm,
    step_edgesOK hS hE hR action perm, step_routeOK hS hE hR action perm⟩

/-- … in particular along every run: `steps` = the joint actions and draws played one after the other -/
def statesAlong (cfg : Cfg) : State → List (List Int × List Nat) → List State
  | s, [] => [s]
  | s, st :: rest => s :: statesAlong cfg (step cfg s st.1 st.2).1 rest

theorem feasible_along {cfg : Cfg} (steps : List (List Int × List Nat)) :
    ∀ {s : State}, Feasible cfg s → ∀ s' ∈ statesAlong cfg s steps, Feasible cfg s' := by
  induction steps with
  | nil => intro s h s' hs'; simp only [statesAlong, List.mem_singleton] at hs'; rw [hs']; exact h
  | cons st rest ih =>
    intro s h s' hs'
    simp only [statesAlong, List.mem_cons] at hs'
    rcases hs' with rfl | hs'
    · exact h
    · exact ih (step_feasible h st.1 st.2) s' hs'

/-! ### C06: the finished flags, completed episodes -/

/-- `get_finished_agents` on rows of `num_nodes_per_agent` nodes: the flag of agent `i` says that all its nodes
are on its route -/
theorem finishedAgents_iff (cfg : Cfg) (ntc cn : List (List Int)) {i : Nat} (hi : i < cfg.numAgents)
    (hK : (ntc.getD i []).length = cfg.numNodesPerAgent) :
    (finishedAgents cfg ntc cn).getD i false = true ↔ ∀ v ∈ ntc.getD i [], v ∈ cn.getD i [] := by
  unfold finishedAgents
  rw [getD_map_range _ _ _ hi, beq_iff_eq, ← hK, List.length_filter_eq_length_iff]
  simp

/-- after every step the finished flags are those of the current routes (they are recomputed from them) -/
theorem step_flagsFresh (cfg : Cfg) (s : State) (action : List Int) (perm : List Nat)
    (hK : ∀ i, i < cfg.numAgents → (s.nodesToConnect.getD i []).length = cfg.numNodesPerAgent) :
    FlagsFresh cfg (step cfg s action perm).1 := by
  intro i hi
  rw [step_finished]
  have := finishedAgents_iff cfg s.nodesToConnect (step cfg s action perm).1.connectedNodes hi (hK i hi)
  have hd : agentDone (step cfg s action perm).1 i ↔
      ∀ v ∈ s.nodesToConnect.getD i [], v ∈ (step cfg s action perm).1.connectedNodes.getD i [] := Iff.rfl
  by_cases h : agentDone (step cfg s action perm).1 i
  · rw [this.2 (hd.1 h)]; simp [h]
  · have : (finishedAgents cfg s.nodesToConnect (step cfg s action perm).1.connectedNodes).getD i false ≠ true :=
      fun hc => h (hd.2 (this.1 hc))
    simp only [h, decide_false]
    cases hb : (finishedAgents cfg s.nodesToConnect (step cfg s action perm).1.connectedNodes).getD i false
    · rfl
    · exact absurd hb this

/-- a feasible state whose (fresh) finished flags are all set is a complete solution -/
theorem complete_is_solution {cfg : Cfg} {s : State} (hF : Feasible cfg s) (hFr : FlagsFresh cfg s)
    (hdone : s.finished.all id = true) : IsSolution cfg s := by
  refine ⟨hF, ?_⟩
  intro i hi
  have hl : s.finished.length = cfg.numAgents := hF.1.2.2.2.2.2.2.2.2.2.2.2.2
  have hm := getD_mem s.finished false (by rw [hl]; exact hi : i < s.finished.length)
  have := List.all_eq_true.1 hdone _ hm
  simp only [id] at this
  rw [hFr i hi] at this
  simpa using this

/-- the step that ends an episode before the time limit leaves a complete feasible solution -/
theorem step_complete_is_solution {cfg : Cfg} {s : State} (hF : Feasible cfg s) (action : List Int)
    (perm : List Nat)
    (hK : ∀ i, i < cfg.numAgents → (s.nodesToConnect.getD i []).length = cfg.numNodesPerAgent)
    (hlast : (step cfg s action perm).2.stepType = .last) (ht : s.stepCount + 1 < (cfg.timeLimit : Int)) :
    IsSolution cfg (step cfg s action perm).1 := by
  apply complete_is_solution (step_feasible hF action perm) (step_flagsFresh cfg s action perm hK)
  rcases (step_last_iff cfg s action perm).1 hlast with h | h
  · exact h
  · omega

/-! ### C04: a legal action that no agent earlier in the draw contests is carried out -/

theorem mem_set_cases {α} {l : List α} {k : Nat} {x v : α} (h : v ∈ l.set k x) : v ∈ l ∨ v = x :=
  List.mem_or_eq_of_mem_set h

/-- the tie-break gives agent `i` its action when `i` asks for a real node that none of the agents before it in
the draw asks for, and `i` occurs only once in the draw -/
theorem tieBreak_wins (A : Nat) (action nodes : List Int) (l1 l2 : List Nat) {i : Nat} (hi : i < A)
    (hv : 0 ≤ nodes.getD i (-1)) (h1 : ∀ k ∈ l1, nodes.getD k (-1) ≠ nodes.getD i (-1)) (h2 : i ∉ l2) :
    (tieBreak A action nodes (l1 ++ i :: l2)).newActions.getD i (-1) = action.getD i (-1) := by
  unfold tieBreak
  rw [List.foldl_append, List.foldl_cons]
  -- phase 1: the node of `i` is not selected by the agents of `l1`
  have p1 : ∀ (ks : List Nat) (st : TB), (∀ k ∈ ks, nodes.getD k (-1) ≠ nodes.getD i (-1)) →
      (st.added.length = A ∧ st.newActions.length = A ∧ nodes.getD i (-1) ∉ st.added) →
      ((ks.foldl (tbStep action nodes) st).added.length = A ∧
       (ks.foldl (tbStep action nodes) st).newActions.length = A ∧
       nodes.getD i (-1) ∉ (ks.foldl (tbStep action nodes) st).added) := by
    intro ks
    induction ks with
    | nil => intro st _ h; exact h
    | cons k ks ih =>
      intro st hk h
      simp only [List.foldl_cons]
      apply ih _ (fun k' hk' => hk k' (List.mem_cons_of_mem _ hk'))
      have hkne := hk k List.mem_cons_self
      unfold tbStep
      simp only []
      split
      · refine ⟨by simp [h.1], by simp [h.2.1], ?_⟩
        intro hm
        rcases mem_set_cases hm with hm | hm
        · exact h.2.2 hm
        · omega
      · exact h
      · refine ⟨by simp [h.1], by simp [h.2.1], ?_⟩
        intro hm
        rcases mem_set_cases hm with hm | hm
        · exact h.2.2 hm
        · exact hkne hm.symm
      · exact h
  have hinit : (tbInit A).added.length = A ∧ (tbInit A).newActions.length = A ∧
      nodes.getD i (-1) ∉ (tbInit A).added := by
    refine ⟨by simp [tbInit], by simp [tbInit], ?_⟩
    intro hm
    have := List.eq_of_mem_replicate hm
    omega
  obtain ⟨q1, q2, q3⟩ := p1 l1 (tbInit A) h1 hinit
  -- the step of agent `i`
  have hstep : (tbStep action nodes (l1.foldl (tbStep action nodes) (tbInit A)) i).newActions.getD i (-1) =
      action.getD i (-1) := by
    generalize l1.foldl (tbStep action nodes) (tbInit A) = st0 at q1 q2 q3
    unfold tbStep
    simp only []
    have e1 : (nodes.getD i (-1) == -1) = false := by
      have : nodes.getD i (-1) ≠ -1 := by omega
      simpa using this
    have e2 : (!st0.added.contains (nodes.getD i (-1))) = true := by
      simpa using q3
    rw [e1, e2]
    simp only []
    rw [getD_set, if_pos ⟨rfl, by rw [q2]; exact hi⟩]
  -- phase 2: the later agents do not touch entry `i`
  have p2 : ∀ (ks : List Nat) (st : TB), i ∉ ks →
      (ks.foldl (tbStep action nodes) st).newActions.getD i (-1) = st.newActions.getD i (-1) := by
    intro ks
    induction ks with
    | nil => intro st _; rfl
    | cons k ks ih =>
      intro st hk
      simp only [List.foldl_cons]
      rw [ih _ (fun h => hk (List.mem_cons_of_mem _ h))]
      have hki : ¬ (k = i ∧ k < st.newActions.length) := fun h => hk (by rw [h.1]; exact List.mem_cons_self)
      unfold tbStep
      simp only []
      split
      · simp only [getD_set]; rw [if_neg hki]
      · rfl
      · simp only [getD_set]; rw [if_neg hki]
      · rfl
  rw [p2 l2 _ h2, hstep]

/-- C04, the converse of `moved_only_if_legal`: a legal action is carried out (the agent moves to the node it
chose and its route index advances) when no agent before it in the draw asks for the same node -/
theorem legal_moves {cfg : Cfg} {s : State} (hS : Shaped cfg s) (hE : EdgesOK cfg s) (hF : FlagsFresh cfg s)
    (action : List Nat) (l1 l2 : List Nat) {i : Nat} (hi : i < cfg.numAgents)
    (hl : action.length = cfg.numAgents)
    (ha : action.getD i 0 < cfg.numNodes) (hleg : legal cfg s i (action.getD i 0))
    (h1 : ∀ k ∈ l1, nodeOf cfg s (action.map Int.ofNat) k ≠ ((action.getD i 0 : Nat) : Int)) (h2 : i ∉ l2) :
    movedAt cfg s (action.map Int.ofNat) (l1 ++ i :: l2) i = true ∧
    nodeOf cfg s (action.map Int.ofNat) i = ((action.getD i 0 : Nat) : Int) := by
  have hnode : nodeOf cfg s (action.map Int.ofNat) i = ((action.getD i 0 : Nat) : Int) := by
    show (targets cfg s (action.map Int.ofNat)).getD i (-1) = _
    rw [targets_getD cfg s action hi, target_eq hS hE hi ha, if_pos ⟨hleg.2.2.2.1, hleg.2.2.2.2⟩]
  refine ⟨?_, hnode⟩
  have hnode' : (targets cfg s (action.map Int.ofNat)).getD i (-1) = ((action.getD i 0 : Nat) : Int) := hnode
  have hact : (action.map Int.ofNat).getD i (-1) = ((action.getD i 0 : Nat) : Int) := by
    have hlen : i < action.length := by omega
    simp [List.getD_eq_getElem?_getD, hlen]
  have hwin := tieBreak_wins cfg.numAgents (action.map Int.ofNat) (targets cfg s (action.map Int.ofNat)) l1 l2 hi
    (by rw [hnode']; omega) (fun k hk => by rw [hnode']; exact h1 k hk) h2
  rw [hact] at hwin
  have hfin : s.finished.getD i false = false := by
    rw [hF i hi]; simp [hleg.2.2.1]
  have ht : (trim cfg s (action.map Int.ofNat) (l1 ++ i :: l2)).getD i (-1) =
      finalAction cfg s (targets cfg s (action.map Int.ofNat))
        (tieBreak cfg.numAgents (action.map Int.ofNat) (targets cfg s (action.map Int.ofNat)) (l1 ++ i :: l2)).newActions
        i := by
    unfold trim; simp only []; rw [getD_map_range _ _ _ hi]
  show moves ((trim cfg s (action.map Int.ofNat) (l1 ++ i :: l2)).getD i (-1))
    ((targets cfg s (action.map Int.ofNat)).getD i (-1)) = true
  rw [ht, hnode']
  unfold finalAction
  simp only [hfin, hwin, hnode']
  generalize (if (cfg.guardVisited && ((action.getD i 0 : Nat) : Int) == -1) = true then (-1 : Int)
    else Jx.getWC (s.connectedIndex.getD i []) (-1) ((action.getD i 0 : Nat) : Int)) = vis
  unfold moves
  by_cases hvis : (vis != -1) = true
  · simp [hvis]
  · simp [hvis]

/-- a valid draw contains every agent -/
theorem mem_of_validDraw {A : Nat} {perm : List Nat} (hd : validDraw A perm) {i : Nat} (hi : i < A) : i ∈ perm := by
  obtain ⟨hlen, hnd, hlt⟩ := hd
  false_or_by_contra
  rename_i hni
  have hsub : perm ⊆ (List.range A).erase i := by
    intro k hk
    have hki : k ≠ i := fun h => hni (h ▸ hk)
    exact (List.mem_erase_of_ne hki).2 (List.mem_range.2 (hlt k hk))
  have := hnd.length_le_of_subset hsub
  rw [List.length_erase, hlen] at this
  simp [hi] at this
  omega

/-- C04 (`step_agrees`, the direction legal ⇒ carried out): for every valid draw, a legal action whose node no
other agent asks for in this step moves the agent to that node and advances its route index -/
theorem legal_uncontested_moves {cfg : Cfg} {s : State} (hS : Shaped cfg s) (hE : EdgesOK cfg s)
    (hF : FlagsFresh cfg s) (action perm : List Nat) (hd : validDraw cfg.numAgents perm) {i : Nat}
    (hi : i < cfg.numAgents) (hl : action.length = cfg.numAgents) (ha : action.getD i 0 < cfg.numNodes)
    (hleg : legal cfg s i (action.getD i 0))
    (hunc : ∀ k, k < cfg.numAgents → k ≠ i →
      (targets cfg s (action.map Int.ofNat)).getD k (-1) ≠ ((action.getD i 0 : Nat) : Int)) :
    (step cfg s (action.map Int.ofNat) perm).1.positionIndex.getD i 0 = s.positionIndex.getD i 0 + 1 ∧
    (step cfg s (action.map Int.ofNat) perm).1.positions.getD i 0 = ((action.getD i 0 : Nat) : Int) := by
  obtain ⟨l1, l2, rfl⟩ := List.append_of_mem (mem_of_validDraw hd hi)
  have hnd := hd.2.1
  have hi1 : i ∉ l1 := by
    intro h
    have := (List.nodup_append.1 hnd).2.2 i h i List.mem_cons_self
    exact this rfl
  have hi2 : i ∉ l2 := by
    have := (List.nodup_append.1 hnd).2.1
    exact (List.nodup_cons.1 this).1
  obtain ⟨hm, hn⟩ := legal_moves hS hE hF action l1 l2 hi hl ha hleg
    (fun k hk => hunc k (hd.2.2 k (List.mem_append_left _ hk)) (fun h => hi1 (h ▸ hk))) hi2
  rw [step_positionIndex cfg s _ _ hi, step_positions cfg s _ _ hi, if_pos hm, if_pos hm]
  exact ⟨rfl, hn⟩

/-! ### C06: reset states -/

/-- certificate on a generated state: before anything is taken, the edge table of every agent is the adjacency
matrix (`c` at `[r][c]` iff there is an edge `r`-`c`, else -1) -/
def certEdgesAdj (cfg : Cfg) (s : State) : Bool :=
  (List.range cfg.numAgents).all fun i => (List.range cfg.numNodes).all fun r => (List.range cfg.numNodes).all fun c =>
    ((s.nodeEdges.getD i []).getD r []).getD c 0 == (if (s.adj.getD r []).getD c 0 == 1 then (c : Int) else -1)

/-- C06: a state with the configured shapes that satisfies the generator certificates `certStart` (every agent on
its first node, routes otherwise empty), `certTypes` (node types = ownership) and `certEdgesAdj` is feasible -/
theorem reset_feasible {cfg : Cfg} {s : State} (hS : Shaped cfg s) (h1 : certStart cfg s = true)
    (h2 : certTypes cfg s = true) (h3 : certEdgesAdj cfg s = true) : Feasible cfg s := by
  simp only [certStart, List.all_eq_true, List.mem_range, Bool.and_eq_true, beq_iff_eq, decide_eq_true_eq] at h1
  simp only [certTypes, List.all_eq_true, List.mem_range, Bool.and_eq_true, beq_iff_eq] at h2
  simp only [certEdgesAdj, List.all_eq_true, List.mem_range, beq_iff_eq] at h3
  have hst := h1.1.1
  -- positions
  have hpos : ∀ i, i < cfg.numAgents →
      0 ≤ s.positions.getD i (-1) ∧ s.positions.getD i (-1) < (cfg.numNodes : Int) ∧
      s.positions.getD i 0 = s.positions.getD i (-1) := by
    intro i hi
    have hpl : s.positions.length = cfg.numAgents := hS.2.2.2.2.2.2.2.2.2.1
    have := pos_range hS hi
    rw [getD_default s.positions 0 (-1) (by omega)] at this
    exact ⟨this.1, this.2, getD_default _ _ _ (by omega)⟩
  -- who has connected what: only the own start node
  have hconn : ∀ i, i < cfg.numAgents → ∀ v, v < cfg.numNodes →
      (s.connectedIndex.getD i []).getD v (-1) = if (v : Int) = s.positions.getD i (-1) then (v : Int) else -1 := by
    intro i hi v hv
    obtain ⟨⟨⟨⟨⟨_, _⟩, _⟩, hci⟩, _⟩, _⟩ := hst i hi
    rw [hci, getD_map_range _ _ _ hv]
    show (if (v : Int) = s.positions.getD i (-1) then s.positions.getD i (-1) else -1) = _
    by_cases h : (v : Int) = s.positions.getD i (-1)
    · rw [if_pos h, if_pos h]; exact h.symm
    · rw [if_neg h, if_neg h]
  have hcb : ∀ i, i < cfg.numAgents → ∀ v, v < cfg.numNodes →
      (connectedBy s i v ↔ (v : Int) = s.positions.getD i (-1)) := by
    intro i hi v hv
    unfold connectedBy
    rw [hconn i hi v hv]
    by_cases h : (v : Int) = s.positions.getD i (-1)
    · rw [if_pos h]; constructor
      · intro _; exact h
      · intro _; omega
    · rw [if_neg h]; constructor
      · intro hx; exact absurd rfl hx
      · intro hx; exact absurd hx h
  -- start nodes are never utility nodes
  have hnu : ∀ i, i < cfg.numAgents → ∀ v, v < cfg.numNodes → (v : Int) = s.positions.getD i (-1) → ¬ isUtility s v := by
    intro i hi v hv hvp hu
    obtain ⟨⟨⟨⟨⟨hp0, _⟩, _⟩, _⟩, _⟩, _⟩ := hst i hi
    have hmem : (s.nodesToConnect.getD i []).contains (v : Int) = true := by
      have hp := hpos i hi
      cases hrow : s.nodesToConnect.getD i [] with
      | nil =>
        rw [hrow] at hp0
        have : ([] : List Int).getD 0 (-2) = -2 := rfl
        rw [this] at hp0; omega
      | cons x xs =>
        rw [hrow] at hp0
        have : (x :: xs).getD 0 (-2) = x := rfl
        rw [this] at hp0
        rw [hvp, hp0]
        simp
    have := (h2 v hv).1 i hi
    rw [hmem] at this
    unfold isUtility at hu
    rw [hu] at this
    have := beq_iff_eq.1 this
    omega
  have hnt : ∀ i c, c < cfg.numNodes → ¬ takenByOther cfg s i c := by
    rintro i c hc ⟨hu, j, hj, _, hcj⟩
    exact hnu j hj c hc ((hcb j hj c hc).1 hcj) hu
  refine ⟨hS, ?_, ?_, ?_, ?_, ?_⟩
  · rintro i hi j hj v hv ⟨_, hu, hci, _⟩
    exact hnu i hi v hv ((hcb i hi v hv).1 hci) hu
  · intro i hi r hr c hc
    rw [h3 i hi r hr c hc]
    by_cases he : hasEdge s r c
    · have he' : (s.adj.getD r []).getD c 0 = 1 := he
      rw [if_pos he', if_pos ⟨he, hnt i c hc⟩]
    · have he' : ¬ (s.adj.getD r []).getD c 0 = 1 := he
      rw [if_neg he', if_neg (fun h => he h.1)]
  · intro i hi
    obtain ⟨p0, p1, p2⟩ := hpos i hi
    rw [p2]
    exact (hcb i hi _ (by omega)).2 (by omega)
  · intro i hi v hv hne
    obtain ⟨p0, p1, p2⟩ := hpos i hi
    obtain ⟨⟨⟨⟨⟨_, hcn⟩, _⟩, _⟩, _⟩, _⟩ := hst i hi
    rw [hcn] at hv
    rcases List.mem_cons.1 hv with hv | hv
    · subst hv
      refine ⟨p0, p1, ?_⟩
      rw [hconn i hi _ (by omega), if_pos (by omega)]; omega
    · exact absurd (List.eq_of_mem_replicate hv) hne
  · intro i hi v hv
    rw [hconn i hi v hv]
    by_cases h : (v : Int) = s.positions.getD i (-1)
    · right; rw [if_pos h]
    · left; rw [if_neg h]

end MMST
