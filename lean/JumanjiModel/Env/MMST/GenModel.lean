/-
MMST, L1 transliteration of `SplitRandomGenerator.__call__` (jumanji/environments/routing/mmst/generator.py)
AFTER `_generate_graph`: the graph produced by `multi_random_walk` (adjacency matrix and the edge table
`graph.node_edges`) is a parameter — the walk itself (float32 edge codes, `add_edge` with its degree test, the merge
of the sub-graphs) is NOT transliterated; what the generator relies on is stated as `graphOK` and checked on every
implementation reset state by the certificate `edges_adjacency` — and the per-agent
`jax.random.choice(select_key, nodes_per_sub_graph[agent], [num_nodes_per_agent], replace=False)` is the draw
`comps` (`validGenDraw`: `num_nodes_per_agent` distinct nodes of the agent's own block
`np.array_split(arange N, A)[agent] = blockOf N A agent`).  Model file: imports the MMST model only.
-/
import JumanjiModel.Env.MMST.Model
namespace MMST
open Jm

structure GenDraw where
  /-- `build_adjecency_matrix(num_nodes, graph.edges)` -/
  adj : List (List Int)
  /-- `graph.node_edges` (N, N) -/
  nodeEdges : List (List Int)
  /-- `agent_components` of every agent, in the order drawn -/
  comps : List (List Int)
  deriving Repr, DecidableEq

/-- a legitimate draw of the agents' nodes: `choice(block, [K], replace=False)` -/
def validGenDraw (cfg : Cfg) (d : GenDraw) : Prop :=
  d.comps.length = cfg.numAgents ∧
  ∀ k, k < cfg.numAgents →
    (d.comps.getD k []).length = cfg.numNodesPerAgent ∧ (d.comps.getD k []).Nodup ∧
    ∀ v ∈ d.comps.getD k [], 0 ≤ v ∧ v.toNat ∈ blockOf cfg.numNodes cfg.numAgents k
instance (cfg : Cfg) (d : GenDraw) : Decidable (validGenDraw cfg d) := by unfold validGenDraw; infer_instance

/-- what `__call__` relies on from `_generate_graph`: both tables are N × N and the edge table is the adjacency
matrix written with node values (`A_rc = c` or -1) -/
def graphOK (cfg : Cfg) (d : GenDraw) : Prop :=
  d.adj.length = cfg.numNodes ∧ (∀ r ∈ d.adj, r.length = cfg.numNodes) ∧
  d.nodeEdges.length = cfg.numNodes ∧ (∀ r ∈ d.nodeEdges, r.length = cfg.numNodes) ∧
  ∀ r, r < cfg.numNodes → ∀ c, c < cfg.numNodes →
    (d.nodeEdges.getD r []).getD c 0 = (if (d.adj.getD r []).getD c 0 = 1 then (c : Int) else -1)
instance (cfg : Cfg) (d : GenDraw) : Decidable (graphOK cfg d) := by unfold graphOK; infer_instance

/-- `agent_components[0]` -/
def firstNode (d : GenDraw) (k : Nat) : Int := (d.comps.getD k []).getD 0 0

/-- the loop `node_types = node_types.at[agent_components].set(agent)` over the agents, from all -1 -/
def genNodeTypes (cfg : Cfg) (comps : List (List Int)) : List Int :=
  (List.range cfg.numAgents).foldl
    (fun nt k => (comps.getD k []).foldl (fun nt v => Jx.setWD nt v (k : Int)) nt)
    (List.replicate cfg.numNodes (-1))

/-- `SplitRandomGenerator.__call__` given the graph and the draws (`max_step` = `cfg.timeLimit`) -/
def generate (cfg : Cfg) (d : GenDraw) : State :=
  let A := cfg.numAgents
  let pos := (List.range A).map (firstNode d)
  let nodeTypes := genNodeTypes cfg d.comps
  let edges := updateActiveEdges A (List.replicate A d.nodeEdges) pos nodeTypes
  let fin := List.replicate A false
  { nodeTypes := nodeTypes, adj := d.adj,
    connectedNodes := (List.range A).map fun k => Jx.setWD (List.replicate cfg.timeLimit (-1)) 0 (firstNode d k),
    connectedIndex := (List.range A).map fun k =>
      Jx.setWD (List.replicate cfg.numNodes (-1)) (firstNode d k) (firstNode d k),
    nodesToConnect := (List.range A).map fun k => d.comps.getD k [],
    nodeEdges := edges, positions := pos, positionIndex := List.replicate A 0,
    actionMask := makeMask A edges pos fin, finished := fin, stepCount := 0 }

/-- the draws read off an (implementation) reset state: used by the driver to replay the generator -/
def drawOf (s : State) : GenDraw :=
  { adj := s.adj, nodeEdges := s.nodeEdges.getD 0 [], comps := s.nodesToConnect }

end MMST
